(* C02 — proofs about the two reorderings (evd.rs `sort`, tail of `tql2`). *)
From Coq Require Import List Arith Bool Lia Permutation Reals Lra.
From SC Require Import Base.Num C02.Model.
Import ListNotations.

(* ---------- arrays ---------- *)
Lemma upd_length {A} (l : list A) i x : length (upd l i x) = length l.
Proof. revert i; induction l as [|a l IH]; intros [|i]; cbn; auto. Qed.

Lemma nth_upd_eq {A} (l : list A) i x d : i < length l -> nth i (upd l i x) d = x.
Proof.
  revert i; induction l as [|a l IH]; intros [|i] H; cbn in *; try lia; auto.
  apply IH; lia.
Qed.

Lemma nth_upd_neq {A} (l : list A) i j x d : i <> j -> nth j (upd l i x) d = nth j l d.
Proof.
  revert i j; induction l as [|a l IH]; intros [|i] [|j] H; cbn; auto; try lia.
Qed.

Lemma upd_nth_self {A} (l : list A) i d : upd l i (nth i l d) = l.
Proof. revert i; induction l as [|a l IH]; intros [|i]; cbn; auto. f_equal; apply IH. Qed.

(* moving the element at i one place up and writing x at i  ==  writing x at i+1, up to a swap *)
Lemma shift_swap_perm {A} (a0 : A) (l : list A) i x :
  S i < length l ->
  Permutation (upd (upd l (S i) (nth i l a0)) i x) (upd l (S i) x).
Proof.
  revert i; induction l as [|a l IH]; intros i H; cbn in H; [lia|].
  destruct i as [|i].
  - destruct l as [|b l]; cbn in *; [lia|]. apply perm_swap.
  - cbn. apply perm_skip. apply IH. lia.
Qed.

(* taking out the element at k and putting x there *)
Lemma take_put_perm {A} (d : A) (l : list A) k x :
  k < length l -> Permutation (nth k l d :: upd l k x) (x :: l).
Proof.
  revert k; induction l as [|a l IH]; intros k H; cbn in H; [lia|].
  destruct k as [|k]; cbn.
  - apply perm_swap.
  - eapply perm_trans; [apply perm_swap|].
    eapply perm_trans; [apply perm_skip; apply IH; lia|]. apply perm_swap.
Qed.

(* exchanging the elements at i < k *)
Lemma exchange_perm {A} (d : A) (l : list A) i k :
  i < k -> k < length l ->
  Permutation (upd (upd l k (nth i l d)) i (nth k l d)) l.
Proof.
  revert i k; induction l as [|a l IH]; intros i k Hik Hk; cbn in Hk; [lia|].
  destruct k as [|k]; [lia|]. destruct i as [|i]; cbn.
  - apply take_put_perm. lia.
  - apply perm_skip. apply IH; lia.
Qed.

(* ---------- triples ---------- *)
Definition zip3 {T} (d e : list T) (V : list (list T)) : list (T * T * list T) :=
  combine (combine d e) V.

Lemma combine_upd {A B} (l1 : list A) (l2 : list B) i x y :
  combine (upd l1 i x) (upd l2 i y) = upd (combine l1 l2) i (x, y).
Proof.
  revert l2 i; induction l1 as [|a l1 IH]; intros l2 i; [reflexivity|].
  destruct l2 as [|b l2]; destruct i as [|i]; cbn; try reflexivity.
  f_equal. apply IH.
Qed.

Lemma zip3_upd {T} (d e : list T) V i a b c :
  zip3 (upd d i a) (upd e i b) (upd V i c) = upd (zip3 d e V) i (a, b, c).
Proof. unfold zip3. rewrite !combine_upd. reflexivity. Qed.

Lemma zip3_nth {T} (t0 : T) (d e : list T) V i :
  length e = length d -> length V = length d ->
  nth i (zip3 d e V) (t0, t0, []) = (nth i d t0, nth i e t0, nth i V []).
Proof.
  intros He HV. unfold zip3.
  rewrite combine_nth by (rewrite combine_length; lia).
  rewrite combine_nth by lia. reflexivity.
Qed.

Lemma zip3_length {T} (d e : list T) V :
  length e = length d -> length V = length d -> length (zip3 d e V) = length d.
Proof. intros He HV. unfold zip3. rewrite !combine_length. lia. Qed.

(* ---------- evd.rs `sort` ---------- *)
Section SortProofs.
  Context {T : Type} (t0 : T) (dec : list T -> nat -> nat -> bool).

  Lemma sort_shift_spec : forall i1 j d e V x k d' e' V',
    length e = length d -> length V = length d -> i1 < length d ->
    sort_shift t0 dec i1 j d e V = (k, (d', e', V')) ->
    length d' = length d /\ length e' = length d /\ length V' = length d /\ k <= i1 /\
    Permutation (upd (zip3 d' e' V') k x) (upd (zip3 d e V) i1 x).
  Proof.
    induction i1 as [|i IH]; intros j d e V x k d' e' V' He HV Hi H; cbn in H.
    - inversion H; subst. repeat split; auto.
    - destruct (dec d i j).
      + inversion H; subst. repeat split; auto.
      + apply (IH _ _ _ _ x) in H; try (rewrite !upd_length; lia).
        rewrite !upd_length in H. destruct H as (H1 & H2 & H3 & H4 & H5).
        repeat split; auto.
        eapply perm_trans; [exact H5|].
        rewrite zip3_upd.
        rewrite <- (zip3_nth t0 d e V i He HV).
        apply shift_swap_perm. rewrite zip3_length; auto.
  Qed.

  Lemma sort_insert_spec : forall j d e V d' e' V',
    length e = length d -> length V = length d -> j < length d ->
    sort_insert t0 dec (d, e, V) j = (d', e', V') ->
    length d' = length d /\ length e' = length d /\ length V' = length d /\
    Permutation (zip3 d' e' V') (zip3 d e V).
  Proof.
    intros j d e V d' e' V' He HV Hj H. unfold sort_insert in H.
    destruct (sort_shift t0 dec j j d e V) as [k [[d1 e1] V1]] eqn:E.
    inversion H; subst; clear H.
    apply (sort_shift_spec _ _ _ _ _ (nth j d t0, nth j e t0, nth j V [])) in E; auto.
    destruct E as (H1 & H2 & H3 & H4 & H5).
    rewrite !upd_length. repeat split; auto.
    rewrite zip3_upd. eapply perm_trans; [exact H5|].
    rewrite <- (zip3_nth t0 d e V j He HV). rewrite upd_nth_self. apply Permutation_refl.
  Qed.

  Lemma sort_fold_spec : forall js d e V d' e' V',
    length e = length d -> length V = length d -> (forall j, In j js -> j < length d) ->
    fold_left (sort_insert t0 dec) js (d, e, V) = (d', e', V') ->
    length d' = length d /\ length e' = length d /\ length V' = length d /\
    Permutation (zip3 d' e' V') (zip3 d e V).
  Proof.
    induction js as [|j js IH]; intros d e V d' e' V' He HV Hjs H; cbn [fold_left] in H.
    - inversion H; subst. repeat split; auto.
    - destruct (sort_insert t0 dec (d, e, V) j) as [[d1 e1] V1] eqn:E.
      apply sort_insert_spec in E; auto; [|apply Hjs; left; reflexivity].
      destruct E as (H1 & H2 & H3 & H4).
      apply IH in H; try lia.
      + destruct H as (G1 & G2 & G3 & G4). repeat split; try lia.
        eapply perm_trans; eassumption.
      + intros j' Hj'. rewrite H1. apply Hjs. right; exact Hj'.
  Qed.

  (* For EVERY outcome of every comparison the (d_j, e_j, column j) triples after `sort` are a
     permutation of the triples before: reordering never detaches an eigenvalue from its vector. *)
  Lemma sort_joint_perm : forall d e V d' e' V',
    length e = length d -> length V = length d ->
    sort_model t0 dec d e V = (d', e', V') ->
    length d' = length d /\ length e' = length d /\ length V' = length d /\
    Permutation (zip3 d' e' V') (zip3 d e V).
  Proof.
    intros d e V d' e' V' He HV H. unfold sort_model in H.
    apply sort_fold_spec in H; auto.
    intros j Hj. apply in_seq in Hj. lia.
  Qed.
End SortProofs.

(* ---------- tail of tql2 ---------- *)
Lemma upd_comm {A} (l : list A) i k x y : i <> k -> upd (upd l i x) k y = upd (upd l k y) i x.
Proof.
  revert i k; induction l as [|a l IH]; intros [|i] [|k] H; cbn; auto; try lia.
  f_equal. apply IH. lia.
Qed.

Section SelProofs.
  Context {T : Type} (t0 : T) (gtb : T -> T -> bool).

  Lemma sel_scan_spec : forall js d k p k' p',
    p = nth k d t0 ->
    sel_scan t0 gtb js d k p = (k', p') ->
    p' = nth k' d t0 /\ (k' = k \/ In k' js).
  Proof.
    induction js as [|j js IH]; intros d k p k' p' Hp H; cbn in H.
    - inversion H; subst. auto.
    - destruct (gtb (nth j d t0) p).
      + apply IH in H; auto. destruct H as [H1 [H2|H2]]; subst; split; auto; right; [left|right]; auto.
      + apply IH in H; auto. destruct H as [H1 [H2|H2]]; subst; split; auto. right; right; auto.
  Qed.

  (* pairs (d_i, column i) are only exchanged: holds for every comparison function *)
  Lemma sel_step_perm : forall n i d V d' V',
    length d = n -> length V = n -> i < n ->
    sel_step t0 gtb n (d, V) i = (d', V') ->
    length d' = n /\ length V' = n /\ Permutation (combine d' V') (combine d V).
  Proof.
    intros n i d V d' V' Hd HV Hi H. unfold sel_step in H.
    destruct (sel_scan t0 gtb (seq (S i) (n - S i)) d i (nth i d t0)) as [k p] eqn:E.
    apply sel_scan_spec in E; auto. destruct E as [Hp Hk].
    assert (Hk' : i <= k < n) by (destruct Hk as [->|Hk]; [lia| apply in_seq in Hk; lia]).
    destruct (k =? i) eqn:Eki.
    - inversion H; subst. auto.
    - apply Nat.eqb_neq in Eki. inversion H; subst d' V'; clear H.
      rewrite !upd_length. repeat split; auto.
      rewrite (upd_comm V i k) by lia. rewrite !combine_upd. subst p.
      replace (nth i d t0, nth i V []) with (nth i (combine d V) (t0, [])) by (apply combine_nth; lia).
      replace (nth k d t0, nth k V []) with (nth k (combine d V) (t0, [])) by (apply combine_nth; lia).
      apply exchange_perm; [lia|]. rewrite combine_length. lia.
  Qed.

  (* `x <= y` is "not x > y"; a total preorder is what the descending order needs *)
  Hypothesis gtb_refl : forall a, gtb a a = false.
  Hypothesis gtb_asym : forall a b, gtb a b = true -> gtb b a = false.
  Hypothesis gtb_trans : forall a b c, gtb a b = false -> gtb b c = false -> gtb a c = false.

  Lemma sel_scan_mono : forall js d k p k' p',
    sel_scan t0 gtb js d k p = (k', p') -> gtb p p' = false.
  Proof.
    induction js as [|j js IH]; intros d k p k' p' H; cbn in H.
    - inversion H; subst. apply gtb_refl.
    - destruct (gtb (nth j d t0) p) eqn:E.
      + apply IH in H. eapply gtb_trans; [apply gtb_asym; exact E | exact H].
      + apply IH in H. exact H.
  Qed.

  Lemma sel_scan_max : forall js d k p k' p',
    sel_scan t0 gtb js d k p = (k', p') ->
    forall j, In j js -> gtb (nth j d t0) p' = false.
  Proof.
    induction js as [|j js IH]; intros d k p k' p' H j' Hj'; cbn in H; [destruct Hj'|].
    destruct Hj' as [<-|Hj'].
    - destruct (gtb (nth j d t0) p) eqn:E.
      + apply sel_scan_mono in H. exact H.
      + apply sel_scan_mono in H. eapply gtb_trans; eassumption.
    - destruct (gtb (nth j d t0) p); eapply IH; eassumption.
  Qed.

  Definition sorted_prefix (d : list T) (i : nat) : Prop :=
    forall a b, a < i -> a < b -> b < length d -> gtb (nth b d t0) (nth a d t0) = false.

  Lemma sel_step_sorted : forall n i d V d' V',
    length d = n -> i < n ->
    sel_step t0 gtb n (d, V) i = (d', V') ->
    sorted_prefix d i -> sorted_prefix d' (S i).
  Proof.
    intros n i d V d' V' Hd Hi H Hs. unfold sel_step in H.
    destruct (sel_scan t0 gtb (seq (S i) (n - S i)) d i (nth i d t0)) as [k p] eqn:E.
    pose proof (sel_scan_mono _ _ _ _ _ _ E) as Hmono.
    pose proof (sel_scan_max _ _ _ _ _ _ E) as Hmax.
    apply sel_scan_spec in E; auto. destruct E as [Hp Hk].
    assert (Hk' : i <= k < n) by (destruct Hk as [->|Hk]; [lia| apply in_seq in Hk; lia]).
    assert (Hjs : forall b, i < b -> b < n -> gtb (nth b d t0) p = false).
    { intros b H1 H2. apply Hmax. apply in_seq. lia. }
    destruct (k =? i) eqn:Eki.
    - apply Nat.eqb_eq in Eki. inversion H; subst d' V' k; clear H.
      intros a b Ha Hab Hb. destruct (Nat.eq_dec a i) as [->|Hne].
      + rewrite <- Hp. apply Hjs; lia.
      + apply Hs; lia.
    - apply Nat.eqb_neq in Eki. inversion H; subst d' V'; clear H.
      intros a b Ha Hab Hb. rewrite !upd_length in Hb.
      destruct (Nat.eq_dec a i) as [->|Hne].
      + rewrite (nth_upd_eq _ i) by (rewrite upd_length; lia).
        destruct (Nat.eq_dec b k) as [->|Hbk].
        * rewrite nth_upd_neq by lia. rewrite nth_upd_eq by lia. exact Hmono.
        * rewrite !nth_upd_neq by lia. apply Hjs; lia.
      + assert (a < i) by lia.
        rewrite (nth_upd_neq _ i a) by lia. rewrite (nth_upd_neq _ k a) by lia.
        destruct (Nat.eq_dec b i) as [->|Hbi].
        * rewrite nth_upd_eq by (rewrite upd_length; lia). subst p. apply Hs; lia.
        * rewrite (nth_upd_neq _ i b) by lia.
          destruct (Nat.eq_dec b k) as [->|Hbk].
          -- rewrite nth_upd_eq by lia. apply Hs; lia.
          -- rewrite nth_upd_neq by lia. apply Hs; lia.
  Qed.

  Lemma sel_fold_spec : forall len i n d V d' V',
    length d = n -> length V = n -> i + len <= n ->
    fold_left (sel_step t0 gtb n) (seq i len) (d, V) = (d', V') ->
    length d' = n /\ length V' = n /\ Permutation (combine d' V') (combine d V) /\
    (sorted_prefix d i -> sorted_prefix d' (i + len)).
  Proof.
    induction len as [|len IH]; intros i n d V d' V' Hd HV Hle H; cbn [fold_left seq] in H.
    - inversion H; subst. rewrite Nat.add_0_r. repeat split; auto.
    - destruct (sel_step t0 gtb n (d, V) i) as [d1 V1] eqn:E.
      assert (Hi : i < n) by lia.
      pose proof (sel_step_perm n i d V d1 V1 Hd HV Hi E) as (H1 & H2 & H3).
      pose proof (sel_step_sorted n i d V d1 V1 Hd Hi E) as H4.
      apply IH in H; auto; [|lia]. destruct H as (G1 & G2 & G3 & G4).
      repeat split; auto.
      + eapply perm_trans; eassumption.
      + intros Hs. replace (i + S len) with (S i + len) by lia. auto.
  Qed.

  (* d comes out non-increasing, and the (d_i, column i) pairs are a permutation of the input pairs *)
  Lemma tql2_sort_desc : forall d V d' V',
    length V = length d ->
    tql2_sort t0 gtb d V = (d', V') ->
    length d' = length d /\ length V' = length d /\
    Permutation (combine d' V') (combine d V) /\
    forall i j, i < j -> j < length d -> gtb (nth j d' t0) (nth i d' t0) = false.
  Proof.
    intros d V d' V' HV H. unfold tql2_sort in H.
    apply sel_fold_spec in H; auto; [|lia].
    destruct H as (H1 & H2 & H3 & H4). repeat split; auto.
    intros i j Hij Hj. apply H4; try lia.
    intros a b Ha. lia.
  Qed.
End SelProofs.

(* the permutation part needs nothing about the comparison *)
Lemma tql2_sort_perm {T} (t0 : T) (gtb : T -> T -> bool) : forall d V d' V',
  length V = length d ->
  tql2_sort t0 gtb d V = (d', V') ->
  length d' = length d /\ length V' = length d /\ Permutation (combine d' V') (combine d V).
Proof.
  intros d V d' V' HV H. unfold tql2_sort in H.
  remember (length d) as n eqn:Hn. symmetry in Hn.
  assert (G : forall len i d V d' V', length d = n -> length V = n -> i + len <= n ->
            fold_left (sel_step t0 gtb n) (seq i len) (d, V) = (d', V') ->
            length d' = n /\ length V' = n /\ Permutation (combine d' V') (combine d V)).
  { clear. induction len as [|len IH]; intros i d V d' V' Hd HV Hle H; cbn [fold_left seq] in H.
    - inversion H; subst. auto.
    - destruct (sel_step t0 gtb n (d, V) i) as [d1 V1] eqn:E.
      assert (Hi : i < n) by lia.
      pose proof (sel_step_perm t0 gtb n i d V d1 V1 Hd HV Hi E) as (H1 & H2 & H3).
      apply IH in H; auto; [|lia]. destruct H as (G1 & G2 & G3).
      repeat split; auto. eapply perm_trans; eassumption. }
  apply (G (n - 1) 0); auto; lia.
Qed.

(* the real-number instance: `*d_j > p` is the order of R *)
Lemma tql2_sort_desc_R : forall d V d' V',
  length V = length d ->
  tql2_sort_ops ROps d V = (d', V') ->
  length d' = length d /\ length V' = length d /\
  Permutation (combine d' V') (combine d V) /\
  forall i j, i < j -> j < length d -> (nth j d' 0 <= nth i d' 0)%R.
Proof.
  intros d V d' V' HV H. unfold tql2_sort_ops in H. cbn [o0 oltb ROps] in H.
  apply tql2_sort_desc in H; auto.
  - destruct H as (H1 & H2 & H3 & H4). repeat split; auto.
    intros i j Hij Hj. specialize (H4 i j Hij Hj). apply Rltb_false in H4. exact H4.
  - intros a. apply Rltb_false. lra.
  - intros a b Hab. apply Rltb_true in Hab. apply Rltb_false. lra.
  - intros a b c H1 H2. apply Rltb_false in H1. apply Rltb_false in H2. apply Rltb_false. lra.
Qed.
