(* C02 — consequences of the quasi-triangular form `qtri` (ModelHqr2Spec.v) that hqr2's first half
   leaves, and of a similarity A Z = Z H with Z invertible:
     - the recorded values (d_i, e_i) are conjugate-paired,
     - sum d_i = trace H = trace A,   sum (d_i^2 - e_i^2) = trace H^2 = trace A^2. *)
From Coq Require Import List Arith Bool Lia Reals Lra Psatz Setoid Morphisms.
From SC Require Import Base.Num C02.Validator C02.FunMat C02.ProofsHouse C02.ModelHqr2Spec.
Import ListNotations.
Local Open Scope R_scope.

(* ---------- traces ---------- *)
Definition mtrace (n : nat) (X : mat) : R := rsum n (fun i => X i i).

Lemma mtrace_ext n X Y : meq n X Y -> mtrace n X = mtrace n Y.
Proof. intros H. unfold mtrace. apply rsum_ext. intros i Hi. apply H; assumption. Qed.

Lemma mtrace_comm n X Y : mtrace n (mmul n X Y) = mtrace n (mmul n Y X).
Proof.
  unfold mtrace, mmul. rewrite rsum_swap. apply rsum_ext. intros k _.
  apply rsum_ext. intros i _. ring.
Qed.

(* A Z = Z H, W Z = I = Z W  ==>  trace H = trace A *)
Lemma similar_mtrace n (A Z W H : mat) :
  meq n (mmul n A Z) (mmul n Z H) -> meq n (mmul n W Z) mid -> meq n (mmul n Z W) mid ->
  mtrace n H = mtrace n A.
Proof.
  intros Hs HWZ HZW.
  rewrite <- (mtrace_ext n _ _ (mmul_id_l n H)).
  rewrite <- (mtrace_ext n (mmul n (mmul n W Z) H) (mmul n mid H)) by (rewrite HWZ; reflexivity).
  rewrite (mtrace_ext n _ _ (mmul_assoc_meq n W Z H)).
  rewrite <- (mtrace_ext n (mmul n W (mmul n A Z)) (mmul n W (mmul n Z H))) by (rewrite Hs; reflexivity).
  rewrite mtrace_comm. rewrite (mtrace_ext n _ _ (mmul_assoc_meq n A Z W)).
  rewrite (mtrace_ext n (mmul n A (mmul n Z W)) (mmul n A mid)) by (rewrite HZW; reflexivity).
  apply mtrace_ext. apply mmul_id_r.
Qed.

Lemma similar_square n (A Z H : mat) :
  meq n (mmul n A Z) (mmul n Z H) -> meq n (mmul n (mmul n A A) Z) (mmul n Z (mmul n H H)).
Proof.
  intros Hs. rewrite (mmul_assoc_meq n A A Z). rewrite Hs.
  rewrite <- (mmul_assoc_meq n A Z H). rewrite Hs. apply mmul_assoc_meq.
Qed.

(* ---------- sums with three-term support ---------- *)
Lemma rsum_three n i (G : nat -> R) : (i < n)%nat ->
  (forall j, (j < n)%nat -> (j + 1 < i)%nat -> G j = 0) ->
  (forall j, (j < n)%nat -> (i + 1 < j)%nat -> G j = 0) ->
  rsum n G = (if 0 <? i then G (i - 1)%nat else 0) + G i + (if S i <? n then G (S i) else 0).
Proof.
  intros Hi Hlo Hhi.
  destruct (Nat.ltb_spec (S i) n) as [Hn|Hn].
  - rewrite (rsum_trunc n (S (S i))) by (try lia; intros j Hj; apply Hhi; lia).
    cbn [rsum]. destruct (Nat.ltb_spec 0 i) as [H0|H0].
    + replace i with (S (i - 1)) at 1 by lia. cbn [rsum].
      rewrite (rsum_0 (i - 1)) by (intros j Hj; apply Hlo; lia). ring.
    + replace i with 0%nat by lia. cbn [rsum]. ring.
  - replace n with (S i) by lia. cbn [rsum]. destruct (Nat.ltb_spec 0 i) as [H0|H0].
    + replace i with (S (i - 1)) at 1 by lia. cbn [rsum].
      rewrite (rsum_0 (i - 1)) by (intros j Hj; apply Hlo; lia). ring.
    + replace i with 0%nat by lia. cbn [rsum]. ring.
Qed.

(* ---------- qtri ---------- *)
Section Qtri.
  Variables (n : nat) (H : mat) (d e : nat -> R).
  Hypothesis HQ : qtri n H d e.

  Let Hhess := proj1 HQ.
  Let Hsub := proj1 (proj2 HQ).
  Let Hreal := proj1 (proj2 (proj2 HQ)).
  Let Hcplx := proj1 (proj2 (proj2 (proj2 HQ))).
  Let Hlow := proj2 (proj2 (proj2 (proj2 HQ))).

  (* k starts a block *)
  Definition bstart (k : nat) : Prop := (k <= n)%nat /\ ((k < n)%nat -> ~ e k < 0).

  Lemma bstart_0 : bstart 0.
  Proof. split; [lia|]. intros H0 Hneg. destruct (Hlow 0%nat H0 Hneg) as (j & Hj & _). lia. Qed.
  Lemma bstart_real k : (k < n)%nat -> e k = 0 -> bstart (S k).
  Proof.
    intros Hk He. split; [lia|]. intros Hk' Hneg.
    destruct (Hlow (S k) Hk' Hneg) as (j & Hj & Hpos). injection Hj as <-. lra.
  Qed.
  Lemma bstart_cplx k : (k < n)%nat -> 0 < e k -> bstart (S (S k)).
  Proof.
    intros Hk He. destruct (Hcplx k Hk He) as (Hk1 & He1 & _). split; [lia|]. intros Hk' Hneg.
    destruct (Hlow (S (S k)) Hk' Hneg) as (j & Hj & Hpos). injection Hj as <-. lra.
  Qed.
  Lemma bstart_cases k : bstart k -> (k < n)%nat -> e k = 0 \/ 0 < e k.
  Proof. intros [_ Hb] Hk. specialize (Hb Hk). destruct (Rtotal_order (e k) 0) as [Hl|[He|Hg]]; [contradiction|left; exact He|right; exact Hg]. Qed.

  (* block-wise comparison of two sums *)
  Lemma block_sums (F G : nat -> R) :
    (forall k, (k < n)%nat -> e k = 0 -> F k = G k) ->
    (forall k, (k < n)%nat -> 0 < e k -> F k + F (S k) = G k + G (S k)) ->
    rsum n F = rsum n G.
  Proof.
    intros H1 H2.
    assert (HS : forall m k, (n - k <= m)%nat -> bstart k -> rsum n F - rsum k F = rsum n G - rsum k G).
    { induction m as [|m IH]; intros k Hm Hb.
      - destruct Hb as [Hk _]. replace k with n by lia. ring.
      - destruct (Nat.eq_dec k n) as [->|Hne]; [ring|].
        assert (Hk : (k < n)%nat) by (destruct Hb; lia).
        destruct (bstart_cases k Hb Hk) as [He|He].
        + pose proof (IH (S k) ltac:(lia) (bstart_real k Hk He)) as E. cbn [rsum] in E.
          rewrite (H1 k Hk He) in E. lra.
        + pose proof (IH (S (S k)) ltac:(destruct (Hcplx k Hk He); lia) (bstart_cplx k Hk He)) as E.
          cbn [rsum] in E. pose proof (H2 k Hk He). lra. }
    pose proof (HS n 0%nat ltac:(lia) bstart_0) as E. cbn [rsum] in E. lra.
  Qed.

  (* sum d = trace H *)
  Lemma qtri_trace : rsum n d = mtrace n H.
  Proof.
    unfold mtrace. apply block_sums.
    - intros k Hk He. symmetry. apply Hreal; assumption.
    - intros k Hk He. destruct (Hcplx k Hk He) as (_ & _ & Hd & Htr & _). rewrite Hd. lra.
  Qed.

  (* sub-diagonal entries outside complex blocks vanish *)
  Lemma sub_zero_above k : (k < n)%nat -> (0 < k)%nat -> ~ e k < 0 -> H k (k - 1)%nat = 0.
  Proof.
    intros Hk H0 Hnn. replace k with (S (k - 1)) at 1 by lia. apply Hsub; [lia|].
    intros Hpos. destruct (Hcplx (k - 1)%nat ltac:(lia) Hpos) as (_ & He1 & _).
    replace (S (k - 1)) with k in He1 by lia. lra.
  Qed.

  Lemma sq_diag k : (k < n)%nat ->
    mmul n H H k k = (if 0 <? k then H k (k - 1)%nat * H (k - 1)%nat k else 0) + H k k * H k k
                     + (if S k <? n then H k (S k) * H (S k) k else 0).
  Proof.
    intros Hk. unfold mmul. rewrite (rsum_three n k).
    - reflexivity.
    - exact Hk.
    - intros j Hj Hjk. rewrite (Hhess k j) by lia. ring.
    - intros j Hj Hjk. rewrite (Hhess j k) by lia. ring.
  Qed.

  (* sum (d^2 - e^2) = trace H^2 *)
  Lemma qtri_trace2 : rsum n (fun i => d i * d i - e i * e i) = mtrace n (mmul n H H).
  Proof.
    unfold mtrace. apply block_sums.
    - intros k Hk He. rewrite sq_diag by exact Hk. rewrite He, (Hreal k Hk He).
      assert (E1 : (if 0 <? k then H k (k - 1)%nat * H (k - 1)%nat k else 0) = 0).
      { destruct (Nat.ltb_spec 0 k) as [H0|H0]; [|reflexivity].
        rewrite sub_zero_above by (try lia; lra). ring. }
      assert (E2 : (if S k <? n then H k (S k) * H (S k) k else 0) = 0).
      { destruct (Nat.ltb_spec (S k) n) as [H0|H0]; [|reflexivity].
        rewrite (Hsub k H0) by lra. ring. }
      rewrite E1, E2. ring.
    - intros k Hk He. destruct (Hcplx k Hk He) as (Hk1 & He1 & Hd1 & Htr & Hdet).
      rewrite (sq_diag k Hk), (sq_diag (S k) Hk1).
      assert (E1 : (if 0 <? k then H k (k - 1)%nat * H (k - 1)%nat k else 0) = 0).
      { destruct (Nat.ltb_spec 0 k) as [H0|H0]; [|reflexivity].
        rewrite sub_zero_above by (try lia; lra). ring. }
      assert (E2 : (if S (S k) <? n then H (S k) (S (S k)) * H (S (S k)) (S k) else 0) = 0).
      { destruct (Nat.ltb_spec (S (S k)) n) as [H0|H0]; [|reflexivity].
        rewrite (Hsub (S k) H0) by lra. ring. }
      replace (S k <? n) with true by (symmetry; apply Nat.ltb_lt; exact Hk1).
      replace (0 <? S k) with true by reflexivity. replace (S k - 1)%nat with k by lia.
      rewrite E1, E2, He1, Hd1. nra.
  Qed.

  (* the recorded values are conjugate-paired *)
  Lemma qtri_conj_paired : ConjPaired (combine (vlist n d) (vlist n e)).
  Proof.
    assert (HC : combine (vlist n d) (vlist n e) = map (fun i => (d i, e i)) (seq 0 n)).
    { unfold vlist. generalize (seq 0 n). induction l as [|a l IH]; cbn; [reflexivity|]. rewrite IH. reflexivity. }
    rewrite HC.
    assert (HS : forall m k, (n - k <= m)%nat -> bstart k ->
               ConjPaired (map (fun i => (d i, e i)) (seq k (n - k)))).
    { induction m as [|m IH]; intros k Hm Hb.
      - replace (n - k)%nat with 0%nat by lia. constructor.
      - destruct (Nat.eq_dec k n) as [->|Hne]; [rewrite Nat.sub_diag; constructor|].
        assert (Hk : (k < n)%nat) by (destruct Hb; lia).
        destruct (bstart_cases k Hb Hk) as [He|He].
        + replace (n - k)%nat with (S (n - S k)) by lia. cbn [seq map]. rewrite He.
          apply CP_real. apply IH; [lia|apply bstart_real; assumption].
        + destruct (Hcplx k Hk He) as (Hk1 & He1 & Hd1 & _).
          replace (n - k)%nat with (S (S (n - S (S k)))) by lia. cbn [seq map].
          rewrite He1, Hd1. apply (CP_pair (d k) (e k) [] _); [lra|]. cbn [app].
          apply IH; [lia|apply bstart_cplx; assumption]. }
    pose proof (HS n 0%nat ltac:(lia) bstart_0) as E. rewrite Nat.sub_0_r in E. exact E.
  Qed.
End Qtri.
