(* C02 — hqr2, first half, over R (eps := 0): the `while m >= l` search always ends at m = l when the
   sub-diagonal entries of the active block are non-zero; a satisfiability example for the run. *)
From Coq Require Import List Arith Bool Lia Reals Lra Psatz.
From SC Require Import Base.Num C02.FunMat C02.Model C02.ModelTql2 C02.ModelHqr2Spec C02.ModelHqr2Sweep
  C02.ProofsHouse C02.ProofsHqr2SweepAlg C02.ProofsHqr2SweepJ C02.ProofsHqr2SweepRel
  C02.ProofsHqr2SweepStep C02.ProofsHqr2SweepLoop.
Local Open Scope R_scope.

(* ---------- (ii) the m-search ---------- *)
Lemma Rleb_0mul_false u v : 0 < u -> Rleb u (0 * v) = false.
Proof. intros H. apply Rleb_false. lra. Qed.

Lemma m_pqr_r_nz (A : mat) x y w m : A (S (S m)) (S m) <> 0 ->
  let '(p, q, r) := m_pqr ROps A x y w m in r <> 0.
Proof.
  intros Ha. unfold m_pqr. rops.
  set (p := (x - A m m) * (y - A m m) - w). set (a := A (S (S m)) (S m)) in *.
  match goal with |- ?a' / ?s <> 0 => set (s' := s) end.
  assert (Hs : 0 < s').
  { unfold s'. pose proof (Rabs_pos_lt a Ha).
    match goal with |- 0 < Rabs ?u + Rabs ?v + _ => pose proof (Rabs_pos u); pose proof (Rabs_pos v) end. lra. }
  intros E. apply Ha. apply (Rmult_eq_reg_r (/ s')); [|apply Rinv_neq_0_compat; lra].
  unfold Rdiv in E. rewrite E. ring.
Qed.

(* sub-diagonal entries A[i][i-1], l < i <= nn, non-zero  ==>  the search ends at m = l *)
Lemma m_search_l (A : mat) x y w l : forall fuel m, (m = l + fuel)%nat ->
  (forall i, (l <= i)%nat -> (i <= S m)%nat -> A (S i) i <> 0) ->
  fst (m_search ROps 0 A x y w fuel m) = l.
Proof.
  induction fuel as [|f IH]; intros m Hm Hsub; cbn [m_search].
  - destruct (m_pqr ROps A x y w m) as [[p q] r]. cbn [fst]. lia.
  - pose proof (m_pqr_r_nz A x y w m (Hsub (S m) ltac:(lia) ltac:(lia))) as Hr.
    destruct (m_pqr ROps A x y w m) as [[p q] r]. rops.
    rewrite Rleb_0mul_false.
    + apply IH; [lia|]. intros i H1 H2. apply Hsub; lia.
    + apply Rmult_lt_0_compat.
      * apply Rabs_pos_lt. replace m with (S (pred m)) at 1 by lia. apply Hsub; lia.
      * pose proof (Rabs_pos q). pose proof (Rabs_pos_lt r Hr). lra.
Qed.

(* satisfiability of the run hypothesis (order 1: one root is recorded immediately) *)
Example hqr2_sweeps_example :
  exists A V d e anorm,
    hqr2_sweeps ROps Rcopysign 0 1 (fun _ _ => 5) mid (fun _ => 0) (fun _ => 0) = Some (A, V, d, e, anorm) /\
    d 0%nat = 5.
Proof.
  do 5 eexists. split.
  - Timeout 30 lazy -[Rplus Rminus Rmult Rdiv Ropp Rabs IZR Rleb Reqb Rltb sqrt Rcopysign]. reflexivity.
  - Timeout 30 lazy -[Rplus Rminus Rmult Rdiv Ropp Rabs IZR Rleb Reqb Rltb sqrt Rcopysign]. ring.
Qed.
