(* C02 — the symmetric eigen-solver `evd(true)` (src/linalg/evd.rs, evd_mut with symmetric = true) as the
   composition of the modelled parts:  tred2 (ModelTred2.v);  the QL part of tql2 (ModelTql2.v);  the final
   descending selection sort of tql2 (Model.v `tql2_sort`, which works on the list of COLUMNS of V).
   Definitions only; generic in `Ops T`.  `hypot`, `eps` are T::hypot and T::epsilon().
   The boolean is the GHOST flag of ModelTql2.v (no plane rotation had r = 0); `None` = panic. *)
From Coq Require Import List Arith Bool.
From SC Require Import Base.Num C02.Model C02.FunMat C02.ModelTred2 C02.ModelTql2.
Import ListNotations.

(* rows <-> columns of an n x n matrix *)
Definition transpose_rows {T} (z : T) (n : nat) (M : list (list T)) : list (list T) :=
  mrows n (fun j i => mfun z M i j).

Definition evd_sym_model {T} (O : Ops T) (hypot : T -> T -> T) (eps : T) (A : list (list T))
  : option (list (list T) * list T * list T * bool) :=
  match tred2_rows O A with
  | None => None
  | Some (V1, d1, e1) =>
      match tql2_ql_rows O hypot eps V1 d1 e1 with
      | None => None
      | Some (V2, d2, e2, ok) =>
          let n := length A in
          let '(d3, C3) := tql2_sort_ops O d2 (transpose_rows O.(o0) n V2) in
          Some (transpose_rows O.(o0) n C3, d3, e2, ok)
      end
  end.
