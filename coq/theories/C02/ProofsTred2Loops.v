(* C02 — tred2 over the reals: what each inner loop of the model (ModelTred2.v) computes, as closed
   formulas in the state before the loop.  No linear algebra here. *)
From Coq Require Import List Arith Bool Lia Reals Lra Psatz.
From SC Require Import Base.Num C02.FunMat C02.ModelTred2.
Local Open Scope R_scope.

Ltac rops := cbn [ROps o0 o1 oadd osub omul odiv oneg oabs osqrt oltb oleb oeqb oofZ] in *.

(* case analysis on every boolean comparison of naturals in the goal *)
Ltac bool_lia :=
  repeat match goal with
  | |- context [Nat.eqb ?a ?b] => destruct (Nat.eqb_spec a b)
  | |- context [Nat.ltb ?a ?b] => destruct (Nat.ltb_spec a b)
  | |- context [Nat.leb ?a ?b] => destruct (Nat.leb_spec a b)
  end; cbn [andb orb negb]; try reflexivity; try lia.

(* ---------- generic loops ---------- *)
Lemma forn_vmap {T : Type} (F : nat -> T -> T) m (v : nat -> T) :
  forall k, forn 0 m (fun j v => vupd v j (F j (v j))) v k = if k <? m then F k (v k) else v k.
Proof.
  apply (forn_ind (fun k' (v' : nat -> T) => forall k, v' k = if k <? k' then F k (v k) else v k) m 0%nat).
  - intros k. reflexivity.
  - intros j v' Hj IH k. unfold vupd. rewrite (IH j). rewrite (IH k). bool_lia.
    subst k. reflexivity.
Qed.

Lemma forn_colmap {T : Type} (F : nat -> T -> T) j m lo (V : nat -> nat -> T) :
  forall r c, forn lo m (fun k V => mupd V k j (F k (V k j))) V r c
              = if (c =? j) && (lo <=? r) && (r <? lo + m) then F r (V r j) else V r c.
Proof.
  apply (forn_ind (fun k' (V' : nat -> nat -> T) =>
           forall r c, V' r c = if (c =? j) && (lo <=? r) && (r <? k') then F r (V r j) else V r c) m lo).
  - intros r c. bool_lia.
  - intros k V' Hk IH r c. unfold mupd. rewrite (IH k j), (IH r c). bool_lia; subst; reflexivity.
Qed.

Lemma forn_rowmap {T : Type} (F : nat -> T -> T) i m (V : nat -> nat -> T) :
  forall r c, forn 0 m (fun k V => mupd V i k (F k (V i k))) V r c
              = if (r =? i) && (c <? m) then F c (V i c) else V r c.
Proof.
  apply (forn_ind (fun k' (V' : nat -> nat -> T) =>
           forall r c, V' r c = if (r =? i) && (c <? k') then F c (V i c) else V r c) m 0%nat).
  - intros r c. bool_lia.
  - intros k V' Hk IH r c. unfold mupd. rewrite (IH i k), (IH r c). bool_lia; subst; reflexivity.
Qed.

Lemma forn_sum (F : nat -> R) m a : forn 0 m (fun k acc => acc + F k) a = a + rsum m F.
Proof.
  apply (forn_ind (fun k' (acc : R) => acc = a + rsum k' F) m 0%nat).
  - cbn. ring.
  - intros k acc _ ->. cbn. ring.
Qed.

Lemma forn_vmap_acc (F G : nat -> R -> R) m (v : nat -> R) (a : R) :
  let r := forn 0 m (fun j (s : (nat -> R) * R) =>
                       let '(v, acc) := s in let x := F j (v j) in (vupd v j x, acc + G j x)) (v, a) in
  (forall k, fst r k = if k <? m then F k (v k) else v k) /\
  snd r = a + rsum m (fun k => G k (F k (v k))).
Proof.
  apply (forn_ind (fun k' (s : (nat -> R) * R) =>
           (forall k, fst s k = if k <? k' then F k (v k) else v k) /\
           snd s = a + rsum k' (fun k => G k (F k (v k)))) m 0%nat).
  - split; [intros k; reflexivity|cbn; ring].
  - intros j [v' acc] Hj [IH1 IH2]. cbn [fst snd] in *. split.
    + intros k. unfold vupd. rewrite (IH1 j), (IH1 k). bool_lia. subst k. reflexivity.
    + rewrite IH2, (IH1 j). bool_lia. cbn [rsum]. ring.
Qed.

Lemma rsum_diff_ext lo hi F G : (lo <= hi)%nat -> (forall k, (lo <= k < hi)%nat -> F k = G k) ->
  rsum hi F - rsum lo F = rsum hi G - rsum lo G.
Proof.
  induction hi as [|hi IH]; intros Hle H.
  - replace lo with 0%nat by lia. cbn. ring.
  - destruct (Nat.eq_dec lo (S hi)) as [->|Hne]; [ring|].
    cbn [rsum]. rewrite (H hi) by lia.
    assert (IH' : rsum hi F - rsum lo F = rsum hi G - rsum lo G) by (apply IH; [lia|intros; apply H; lia]).
    lra.
Qed.

(* ---------- the loops of tred2 ---------- *)
Lemma t2_init_spec n (V : nat -> nat -> R) d k :
  t2_init n V d k = if k <? n then V (n - 1)%nat k else d k.
Proof. unfold t2_init. apply (forn_vmap (fun i _ => V (n - 1)%nat i)). Qed.

Lemma t2_scale_spec i (d : nat -> R) : t2_scale ROps i d = rsum i (fun k => Rabs (d k)).
Proof. unfold t2_scale. rops. rewrite (forn_sum (fun k => Rabs (d k))). ring. Qed.

Lemma t2_skip_spec i (V : nat -> nat -> R) d e :
  let '(V', d', e') := t2_skip ROps i V d e in
  (forall a b, V' a b = if ((a =? i) && (b <? i)) || ((b =? i) && (a <? i)) then 0 else V a b) /\
  (forall k, d' k = if k <? i then V (i - 1)%nat k else d k) /\
  (forall k, e' k = if k =? i then d (i - 1)%nat else e k).
Proof.
  unfold t2_skip. rops.
  match goal with |- context [forn 0 i ?body (V, d)] => set (bd := body) end.
  assert (H : (forall a b, fst (forn 0 i bd (V, d)) a b =
                 if ((a =? i) && (b <? i)) || ((b =? i) && (a <? i)) then 0 else V a b) /\
              (forall k, snd (forn 0 i bd (V, d)) k = if k <? i then V (i - 1)%nat k else d k)).
  { apply (forn_ind (fun k' (s : (nat -> nat -> R) * (nat -> R)) =>
             (forall a b, fst s a b = if ((a =? i) && (b <? k')) || ((b =? i) && (a <? k')) then 0 else V a b) /\
             (forall k, snd s k = if k <? k' then V (i - 1)%nat k else d k)) i 0%nat).
    - split; intros; bool_lia.
    - intros j [V' d'] Hj [IH1 IH2]. subst bd. cbn [fst snd] in *. split.
      + intros a b. unfold mupd. rewrite (IH1 a b). bool_lia.
      + intros k. unfold vupd. rewrite (IH2 k), (IH1 (i - 1)%nat j). bool_lia. subst k. reflexivity. }
  destruct (forn 0 i bd (V, d)) as [V' d']. cbn [fst snd] in H. destruct H as [H1 H2].
  split; [exact H1|]. split; [exact H2|]. intros k. unfold vupd. reflexivity.
Qed.

(* the symmetric matrix stored in the lower triangle *)
Definition Lw (V : nat -> nat -> R) (j k : nat) : R := V (Nat.max j k) (Nat.min j k).
Lemma Lw_sym V j k : Lw V j k = Lw V k j.
Proof. unfold Lw. rewrite Nat.max_comm, Nat.min_comm. reflexivity. Qed.
Lemma Lw_ge V j k : (k <= j)%nat -> Lw V j k = V j k.
Proof. intros H. unfold Lw. rewrite Nat.max_l, Nat.min_r by lia. reflexivity. Qed.
Lemma Lw_le V j k : (j <= k)%nat -> Lw V j k = V k j.
Proof. intros H. unfold Lw. rewrite Nat.max_r, Nat.min_l by lia. reflexivity. Qed.

Lemma t2_apply_inner (Vn : nat -> nat -> R) (d : nat -> R) f j len g0 (e0 : nat -> R) :
  let r := forn (S j) len (fun k (t : R * (nat -> R)) =>
                             let '(g, e) := t in
                             let vkj := Vn k j in
                             let g := g + vkj * d k in
                             let ek := e k + vkj * f in
                             (g, vupd e k ek)) (g0, e0) in
  fst r = g0 + (rsum (S j + len) (fun k => Vn k j * d k) - rsum (S j) (fun k => Vn k j * d k)) /\
  (forall m, snd r m = if (j <? m) && (m <? S j + len) then e0 m + Vn m j * f else e0 m).
Proof.
  apply (forn_ind (fun k' (t : R * (nat -> R)) =>
           fst t = g0 + (rsum k' (fun k => Vn k j * d k) - rsum (S j) (fun k => Vn k j * d k)) /\
           (forall m, snd t m = if (j <? m) && (m <? k') then e0 m + Vn m j * f else e0 m)) len (S j)).
  - cbn [fst snd]. split; [ring|]. intros m. bool_lia.
  - intros k [g e] Hk [IH1 IH2]. cbn [fst snd] in *. split.
    + rewrite IH1. cbn [rsum]. ring.
    + intros m. unfold vupd. rewrite (IH2 m), (IH2 k). bool_lia. subst m. reflexivity.
Qed.

Lemma t2_apply_spec i (d : nat -> R) (V : nat -> nat -> R) (e : nat -> R) :
  let r := t2_apply ROps i d V e in
  (forall a b, fst r a b = if (b =? i) && (a <? i) then d a else V a b) /\
  (forall m, snd r m = if m <? i then e m + rsum i (fun k => Lw V m k * d k) else e m).
Proof.
  unfold t2_apply. rops.
  match goal with |- context [forn 0 i ?body (V, e)] => set (bd := body) end.
  cbv zeta.
  assert (H : (forall a b, fst (forn 0 i bd (V, e)) a b = if (b =? i) && (a <? i) then d a else V a b) /\
              (forall m, snd (forn 0 i bd (V, e)) m =
                 if m <? i then e m + rsum i (fun k => Lw V m k * d k)
                 else if m <? i then e m + rsum i (fun c => V m c * d c) else e m)).
  { apply (forn_ind (fun j (s : (nat -> nat -> R) * (nat -> R)) =>
             (forall a b, fst s a b = if (b =? i) && (a <? j) then d a else V a b) /\
             (forall m, snd s m =
                if m <? j then e m + rsum i (fun k => Lw V m k * d k)
                else if m <? i then e m + rsum j (fun c => V m c * d c) else e m)) i 0%nat).
    - split; intros; bool_lia. cbn. ring.
    - intros j [Vc ec] Hj [IH1 IH2]. cbn [fst snd] in *. subst bd. cbv beta iota.
      set (Vn := mupd Vc j i (d j)).
      pose proof (t2_apply_inner Vn d (d j) j (i - 1 - j) (ec j + Vn j j * d j) ec) as Hin.
      cbv zeta in Hin.
      match type of Hin with context [forn (S j) (i - 1 - j) ?b ?s] =>
        destruct (forn (S j) (i - 1 - j) b s) as [g' e'] end.
      cbn [fst snd] in *. destruct Hin as [Hg He].
      replace (S j + (i - 1 - j))%nat with i in * by lia.
      assert (HVn : forall a b, b <> i -> Vn a b = V a b).
      { intros a b Hb. unfold Vn, mupd. rewrite (IH1 a b). bool_lia. }
      split.
      + intros a b. unfold Vn, mupd. rewrite (IH1 a b). bool_lia; subst; reflexivity.
      + intros m. unfold vupd. destruct (Nat.eqb_spec m j) as [->|Hmj].
        * replace (j <? S j) with true by (symmetry; apply Nat.ltb_lt; lia).
          rewrite Hg. rewrite (IH2 j). rewrite HVn by lia.
          replace (j <? j) with false by (symmetry; apply Nat.ltb_ge; lia).
          replace (j <? i) with true by (symmetry; apply Nat.ltb_lt; lia).
          set (G := fun k => Lw V j k * d k).
          assert (E1 : rsum j (fun c => V j c * d c) = rsum j G).
          { apply rsum_ext. intros c Hc. unfold G. rewrite Lw_ge by lia. reflexivity. }
          assert (E2 : rsum i (fun k => Vn k j * d k) - rsum (S j) (fun k => Vn k j * d k)
                       = rsum i G - rsum (S j) G).
          { apply rsum_diff_ext; [lia|]. intros k Hk. unfold G. rewrite Lw_le by lia.
            rewrite HVn by lia. reflexivity. }
          assert (E3 : G j = V j j * d j).
          { unfold G. rewrite Lw_ge by lia. reflexivity. }
          rewrite E1, E2. cbn [rsum]. rewrite E3. ring.
        * rewrite (He m), (IH2 m). rewrite HVn by lia. bool_lia. cbn [rsum]. ring.
  }
  destruct H as [H1 H2]. split; [exact H1|]. intros m. rewrite (H2 m). bool_lia.
Qed.

Lemma t2_normalise_spec i scale (d : nat -> R) :
  let r := t2_normalise ROps i scale d in
  (forall k, fst r k = if k <? i then d k / scale else d k) /\
  snd r = rsum i (fun k => d k / scale * (d k / scale)).
Proof.
  unfold t2_normalise. rops.
  pose proof (forn_vmap_acc (fun _ x => x / scale) (fun _ x => x * x) i d 0) as H.
  cbv zeta in H. destruct H as [H1 H2]. split; [exact H1|]. rewrite H2. ring.
Qed.

Lemma t2_pvec_spec i h (d e : nat -> R) :
  let r := t2_pvec ROps i h d e in
  (forall k, fst r k = if k <? i then e k / h else e k) /\
  snd r = rsum i (fun k => e k / h * d k).
Proof.
  unfold t2_pvec. rops.
  pose proof (forn_vmap_acc (fun _ x => x / h) (fun j x => x * d j) i e 0) as H.
  cbv zeta in H. destruct H as [H1 H2]. split; [exact H1|]. rewrite H2. ring.
Qed.

Lemma t2_qvec_spec i hh (d e : nat -> R) k :
  t2_qvec ROps i hh d e k = if k <? i then e k - hh * d k else e k.
Proof. unfold t2_qvec. rops. apply (forn_vmap (fun j x => x - hh * d j)). Qed.

Lemma t2_rank2_spec i (q : nat -> R) (V : nat -> nat -> R) (d : nat -> R) :
  let r := t2_rank2 ROps i q V d in
  let Vf := fun a b => if (b <=? a) && (a <? i) then V a b - (d b * q a + q b * d a)
                       else if (a =? i) && (b <? i) then 0 else V a b in
  (forall a b, fst r a b = Vf a b) /\
  (forall m, snd r m = if m <? i then Vf (i - 1)%nat m else d m).
Proof.
  intros r Vf. subst r. unfold t2_rank2. rops.
  match goal with |- context [forn 0 i ?body (V, d)] => set (bd := body) end.
  assert (H : (forall a b, fst (forn 0 i bd (V, d)) a b = if b <? i then Vf a b else V a b) /\
              (forall m, snd (forn 0 i bd (V, d)) m = if m <? i then Vf (i - 1)%nat m else d m)).
  { apply (forn_ind (fun j (s : (nat -> nat -> R) * (nat -> R)) =>
             (forall a b, fst s a b = if b <? j then Vf a b else V a b) /\
             (forall m, snd s m = if m <? j then Vf (i - 1)%nat m else d m)) i 0%nat).
    - split; intros; bool_lia.
    - intros j [Vc dc] Hj [IH1 IH2]. cbn [fst snd] in *. subst bd. cbv beta iota zeta.
      pose proof (forn_colmap (fun k x => x - (dc j * q k + q j * dc k)) j (i - j) j Vc) as Hin.
      replace (j + (i - j))%nat with i in Hin by lia.
      set (Vi := forn j (i - j) (fun k V0 => mupd V0 k j (V0 k j - (dc j * q k + q j * dc k))) Vc) in *.
      assert (Hcol : forall a, Vi a j = if (j <=? a) && (a <? i) then V a j - (d j * q a + q j * d a) else V a j).
      { intros a. rewrite (Hin a j). rewrite (IH1 a j), (IH2 j), (IH2 a). bool_lia. }
      cbn [fst snd]. split.
      + intros a b. unfold mupd. destruct (Nat.eqb_spec b j) as [->|Hbj].
        * rewrite Hcol. unfold Vf. bool_lia.
        * replace ((a =? i) && false) with false by (destruct (a =? i); reflexivity).
          rewrite (Hin a b), (IH1 a b). bool_lia.
      + intros m. unfold vupd. destruct (Nat.eqb_spec m j) as [->|Hmj].
        * rewrite Hcol. unfold Vf. bool_lia.
        * rewrite (IH2 m). bool_lia.
  }
  destruct H as [H1 H2]. split; [|exact H2].
  intros a b. rewrite (H1 a b). unfold Vf. bool_lia.
Qed.

(* ---------- accumulation phase ---------- *)
Lemma t2_accum_V_spec i (V : nat -> nat -> R) (dd : nat -> R) :
  let r := forn 0 (S i) (fun j V =>
             let g := forn 0 (S i) (fun k g => g + V k (S i) * V k j) 0 in
             forn 0 (S i) (fun k V => let x := V k j - g * dd k in mupd V k j x) V) V in
  forall a b, r a b = if (b <=? i) && (a <=? i)
                      then V a b - rsum (S i) (fun k => V k (S i) * V k b) * dd a else V a b.
Proof.
  cbv zeta.
  apply (forn_ind (fun j (Vc : nat -> nat -> R) =>
           forall a b, Vc a b = if (b <? j) && (a <=? i)
                                then V a b - rsum (S i) (fun k => V k (S i) * V k b) * dd a else V a b) (S i) 0%nat).
  - intros a b. bool_lia.
  - intros j Vc Hj IH a b.
    rewrite (forn_sum (fun k => Vc k (S i) * Vc k j) (S i) 0).
    rewrite (forn_colmap (fun k x => x - (0 + rsum (S i) (fun k0 => Vc k0 (S i) * Vc k0 j)) * dd k) j (S i) 0 Vc a b).
    assert (E : rsum (S i) (fun k0 => Vc k0 (S i) * Vc k0 j) = rsum (S i) (fun k => V k (S i) * V k j)).
    { apply rsum_ext. intros k Hk. rewrite (IH k (S i)), (IH k j). bool_lia. }
    rewrite E. rewrite (IH a j), (IH a b). bool_lia; subst; try reflexivity; try ring.
Qed.
