(* C02 — hqr2, first half, over R (copysign := Rcopysign, eps := 0): PARTIAL correctness of `hqr2_sweeps`
   (exactly the shape of `sweeps_contract` of ProofsGenEvd.v).  Convergence is NOT proved. *)
From Coq Require Import Reals.
From SC Require Import Base.Num C02.FunMat C02.Model C02.ModelHqr2Spec C02.ModelHqr2Sweep
  C02.ProofsHqr2SweepDefl C02.ProofsHqr2SweepReal C02.ProofsHqr2Sweep.
Local Open Scope R_scope.

Lemma hqr2_sweeps_partial_correct :
  forall n (A0 V0 A V : mat) (d e : nat -> R) (an : R),
    hqr2_sweeps ROps Rcopysign 0 n A0 V0 (fun _ => 0) (fun _ => 0) = Some (A, V, d, e, an) ->
    qtri n (uhess A) d e /\
    exists Q, morth n Q /\ meq n (mmul n Q (mtr Q)) mid /\ meq n V (mmul n V0 Q) /\
              meq n (mmul n (uhess A0) Q) (mmul n Q (uhess A)).
Proof. exact (hqr2_sweeps_partial_correct_from real_pair_deflation). Qed.
