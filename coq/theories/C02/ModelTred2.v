(* C02 — `tred2` (src/linalg/evd.rs): Householder reduction of a symmetric matrix to tridiagonal form
   with accumulation of the transformation.  Executable definitions only; generic in `Ops T`.

   Transliteration of the Rust, loop by loop (same loop order, same operation order, same comparison
   direction).  Arrays are total functions on indices (`vupd`/`mupd` are assignment, FunMat.v); `n` is
   the order of the matrix.  The state is (V, d, e).  For n = 0 the Rust panics (`0..n - 1` underflows
   with overflow checks on); the list wrapper `tred2_rows` returns `None` there. *)
From Coq Require Import List Arith Bool ZArith Reals.
From SC Require Import Base.Num C02.FunMat.
Import ListNotations.

Section Tred2.
  Context {T : Type} (K : Ops T).
  Local Notation zero := (K.(o0)).
  Local Notation one := (K.(o1)).
  Local Infix "+" := (K.(oadd)).
  Local Infix "-" := (K.(osub)).
  Local Infix "*" := (K.(omul)).
  Local Infix "/" := (K.(odiv)).

  Definition tstate : Type := ((nat -> nat -> T) * (nat -> T) * (nat -> T))%type.

  (*  for i in 0..n { d[i] = V[n-1][i] }  *)
  Definition t2_init (n : nat) (V : nat -> nat -> T) (d : nat -> T) : nat -> T :=
    forn 0 n (fun i d => vupd d i (V (n - 1)%nat i)) d.

  (*  for k in 0..i { scale += |d[k]| }  *)
  Definition t2_scale (i : nat) (d : nat -> T) : T :=
    forn 0 i (fun k sc => sc + K.(oabs) (d k)) zero.

  (*  scale == 0:  e[i] = d[i-1]; for j in 0..i { d[j] = V[i-1][j]; V[i][j] = 0; V[j][i] = 0 }  *)
  Definition t2_skip (i : nat) (V : nat -> nat -> T) (d e : nat -> T) : tstate :=
    let e := vupd e i (d (i - 1)%nat) in
    let '(V, d) :=
      forn 0 i (fun j (s : (nat -> nat -> T) * (nat -> T)) =>
                  let '(V, d) := s in
                  let d := vupd d j (V (i - 1)%nat j) in
                  let V := mupd V i j zero in
                  let V := mupd V j i zero in
                  (V, d)) (V, d) in
    (V, d, e).

  (*  for k in 0..i { d[k] /= scale; h += d[k]*d[k] }  *)
  Definition t2_normalise (i : nat) (scale : T) (d : nat -> T) : (nat -> T) * T :=
    forn 0 i (fun k (s : (nat -> T) * T) =>
                let '(d, h) := s in
                let dk := d k / scale in
                (vupd d k dk, h + dk * dk)) (d, zero).

  (*  for j in 0..i { f = d[j]; V[j][i] = f; g = e[j] + V[j][j]*f;
                      for k in j+1..=i-1 { g += V[k][j]*d[k]; e[k] += V[k][j]*f }
                      e[j] = g }  *)
  Definition t2_apply (i : nat) (d : nat -> T) (V : nat -> nat -> T) (e : nat -> T)
    : (nat -> nat -> T) * (nat -> T) :=
    forn 0 i (fun j (s : (nat -> nat -> T) * (nat -> T)) =>
                let '(V, e) := s in
                let f := d j in
                let V := mupd V j i f in
                let g := e j + V j j * f in
                let '(g, e) :=
                  forn (S j) (i - 1 - j) (fun k (t : T * (nat -> T)) =>
                                            let '(g, e) := t in
                                            let vkj := V k j in
                                            let g := g + vkj * d k in
                                            let ek := e k + vkj * f in
                                            (g, vupd e k ek)) (g, e) in
                (V, vupd e j g)) (V, e).

  (*  f = 0; for j in 0..i { e[j] /= h; f += e[j]*d[j] }  *)
  Definition t2_pvec (i : nat) (h : T) (d e : nat -> T) : (nat -> T) * T :=
    forn 0 i (fun j (s : (nat -> T) * T) =>
                let '(e, f) := s in
                let ej := e j / h in
                (vupd e j ej, f + ej * d j)) (e, zero).

  (*  for j in 0..i { e[j] -= hh*d[j] }  *)
  Definition t2_qvec (i : nat) (hh : T) (d e : nat -> T) : nat -> T :=
    forn 0 i (fun j e => let ej := e j - hh * d j in vupd e j ej) e.

  (*  for j in 0..i { f = d[j]; g = e[j];
                      for k in j..=i-1 { V[k][j] -= f*e[k] + g*d[k] }
                      d[j] = V[i-1][j]; V[i][j] = 0 }  *)
  Definition t2_rank2 (i : nat) (e : nat -> T) (V : nat -> nat -> T) (d : nat -> T)
    : (nat -> nat -> T) * (nat -> T) :=
    forn 0 i (fun j (s : (nat -> nat -> T) * (nat -> T)) =>
                let '(V, d) := s in
                let f := d j in
                let g := e j in
                let V := forn j (i - j) (fun k V => let x := V k j - (f * e k + g * d k) in mupd V k j x) V in
                let d := vupd d j (V (i - 1)%nat j) in
                let V := mupd V i j zero in
                (V, d)) (V, d).

  (*  the similarity transformation: Householder vector u in d[0..i), h = |u|^2 / 2, e[0..i) = 0  *)
  Definition t2_similarity (i : nat) (h : T) (V : nat -> nat -> T) (d e : nat -> T) : tstate :=
    let '(V, e) := t2_apply i d V e in
    let '(e, f) := t2_pvec i h d e in
    let hh := f / (h + h) in
    let e := t2_qvec i hh d e in
    let '(V, d) := t2_rank2 i e V d in
    (V, d, e).

  (*  scale != 0  *)
  Definition t2_house (i : nat) (scale : T) (V : nat -> nat -> T) (d e : nat -> T)
    : tstate * T :=
    let '(d, h) := t2_normalise i scale d in
    let f := d (i - 1)%nat in
    let g := K.(osqrt) h in
    let g := if K.(oltb) zero f then K.(oneg) g else g in
    let e := vupd e i (scale * g) in
    let h := h - f * g in
    let d := vupd d (i - 1)%nat (f - g) in
    let e := forn 0 i (fun j e => vupd e j zero) e in
    (t2_similarity i h V d e, h).

  (*  body of `for i in (1..n).rev()`  *)
  Definition t2_step (i : nat) (s : tstate) : tstate :=
    let '(V, d, e) := s in
    let scale := t2_scale i d in
    let '((V, d, e), h) :=
      if K.(oeqb) scale zero then (t2_skip i V d e, zero)
      else t2_house i scale V d e in
    (V, vupd d i h, e).

  (*  body of `for i in 0..n-1` (accumulation of the transformations)  *)
  Definition t2_accum (n : nat) (i : nat) (s : (nat -> nat -> T) * (nat -> T))
    : (nat -> nat -> T) * (nat -> T) :=
    let '(V, d) := s in
    let V := mupd V (n - 1)%nat i (V i i) in
    let V := mupd V i i one in
    let h := d (S i) in
    let '(V, d) :=
      if negb (K.(oeqb) h zero) then
        (*  for k in 0..=i { d[k] = V[k][i+1] / h }  *)
        let d := forn 0 (S i) (fun k d => vupd d k (V k (S i) / h)) d in
        (*  for j in 0..=i { g = 0; for k in 0..=i { g += V[k][i+1]*V[k][j] }
                             for k in 0..=i { V[k][j] -= g*d[k] } }  *)
        let V := forn 0 (S i) (fun j V =>
                   let g := forn 0 (S i) (fun k g => g + V k (S i) * V k j) zero in
                   forn 0 (S i) (fun k V => let x := V k j - g * d k in mupd V k j x) V) V in
        (V, d)
      else (V, d) in
    (*  for k in 0..=i { V[k][i+1] = 0 }  *)
    let V := forn 0 (S i) (fun k V => mupd V k (S i) zero) V in
    (V, d).

  (*  for j in 0..n { d[j] = V[n-1][j]; V[n-1][j] = 0 }  V[n-1][n-1] = 1; e[0] = 0  *)
  Definition t2_finish (n : nat) (V : nat -> nat -> T) (d e : nat -> T) : tstate :=
    let '(V, d) :=
      forn 0 n (fun j (s : (nat -> nat -> T) * (nat -> T)) =>
                  let '(V, d) := s in
                  let d := vupd d j (V (n - 1)%nat j) in
                  (mupd V (n - 1)%nat j zero, d)) (V, d) in
    (mupd V (n - 1)%nat (n - 1)%nat one, d, vupd e 0%nat zero).

  (* first half: the reduction *)
  Definition t2_reduce (n : nat) (V : nat -> nat -> T) (d e : nat -> T) : tstate :=
    ford 1 (n - 1) t2_step (V, t2_init n V d, e).

  (* tred2 for n >= 1; the arrays d, e enter filled with zero (evd_mut: vec![T::zero(); n]) *)
  Definition tred2 (n : nat) (A : nat -> nat -> T) : tstate :=
    let '(V, d, e) := t2_reduce n A (fun _ => zero) (fun _ => zero) in
    let '(V, d) := forn 0 (n - 1) (t2_accum n) (V, d) in
    t2_finish n V d e.

  (* on lists (rows of the matrix); `None` = panic for n = 0 *)
  Definition tred2_rows (A : list (list T)) : option (list (list T) * list T * list T) :=
    let n := length A in
    match n with
    | 0%nat => None
    | _ => let '(V, d, e) := tred2 n (mfun zero A) in
           Some (mrows n V, vlist n d, vlist n e)
    end.
End Tred2.
