(* C02 — hqr2, first half, over R: scalar algebra of the deflation of two REAL roots (l == nn - 1,
   q >= 0): the plane rotation built from (x, z) = (A[nn][nn-1], z) makes the entry (nn, nn-1) vanish and
   puts the two recorded roots on the diagonal in the order d[nn-1] = x + z, d[nn] = the other root.
   (a, b; c, d) is the 2x2 block with the shift added back: a = A[nn-1][nn-1] + t, d = A[nn][nn] + t.
   The matrix-level statement is `real_pair_deflation` in ProofsHqr2SweepReal.v. *)
From Coq Require Import Reals Lra Psatz Nsatz.
From SC Require Import Base.Num C02.Model.
Local Open Scope R_scope.

(* z = p + copysign(sqrt |q|, p) with q = p^2 + w >= 0 is a root of z^2 - 2 p z - w *)
Lemma defl_z_quadratic p w : 0 <= p * p + w ->
  let z := p + Rcopysign (sqrt (Rabs (p * p + w))) p in z * z - 2 * p * z - w = 0.
Proof.
  intros Hq z. unfold z. rewrite (Rabs_right (p * p + w)) by lra.
  pose proof (sqrt_sqrt _ Hq) as Hs. pose proof (sqrt_pos (p * p + w)) as Hp.
  unfold Rcopysign. rewrite (Rabs_right (sqrt (p * p + w))) by lra.
  destruct (Rltb p 0); nra.
Qed.

(* the normalised rotation (p, q) <- (x/s, z/s)/r of the code *)
Lemma defl_rot_params x z : x <> 0 ->
  let s := Rabs x + Rabs z in
  let p := x / s in let q := z / s in
  let r := sqrt (p * p + q * q) in
  let pn := p / r in let qn := q / r in
  pn * pn + qn * qn = 1 /\ pn * z = qn * x.
Proof.
  intros Hx s p q r pn qn.
  assert (Hs : 0 < s) by (unfold s; pose proof (Rabs_pos_lt x Hx); pose proof (Rabs_pos z); lra).
  assert (Hp : p <> 0).
  { unfold p. intros E. apply Hx. apply (Rmult_eq_reg_r (/ s)); [|apply Rinv_neq_0_compat; lra].
    unfold Rdiv in E. rewrite E. ring. }
  assert (Hpq : 0 < p * p + q * q) by nra.
  assert (Hrr : r * r = p * p + q * q) by (unfold r; apply sqrt_sqrt; lra).
  assert (Hr : r <> 0) by (intros E; rewrite E in Hrr; lra).
  split.
  - unfold pn, qn. field_simplify_eq; [|exact Hr]. lra.
  - unfold pn, qn, p, q. field. split; first [exact Hr | apply Rgt_not_eq; exact Hs].
Qed.

(* rows first (row' = qn*row_{nn-1} + pn*row_nn, row'' = qn*row_nn - pn*row_{nn-1}), then columns *)
Lemma defl_rot_block a b c d z pn qn :
  z * z - (a - d) * z - b * c = 0 ->
  pn * pn + qn * qn = 1 -> pn * z = qn * c -> c <> 0 ->
  let a' := qn * a + pn * c in let b' := qn * b + pn * d in
  let c' := qn * c - pn * a in let d' := qn * d - pn * b in
  qn * c' + pn * d' = 0 /\ qn * a' + pn * b' = d + z /\ qn * d' - pn * c' = a - z.
Proof.
  intros Hz Hu Hpz Hc a' b' c' d'.
  assert (Hq : qn = pn * z / c) by (rewrite Hpz; field; exact Hc).
  assert (G1 : qn * c' + pn * d' = 0).
  { apply (Rmult_eq_reg_l c); [|exact Hc]. unfold c', d'.
    replace (c * (qn * (qn * c - pn * a) + pn * (qn * d - pn * b)))
      with ((qn * c) * (qn * c) - pn * (qn * c) * (a - d) - pn * pn * (b * c)) by ring.
    rewrite <- Hpz.
    replace (pn * z * (pn * z) - pn * (pn * z) * (a - d) - pn * pn * (b * c))
      with (pn * pn * (z * z - (a - d) * z - b * c)) by ring.
    rewrite Hz. ring. }
  assert (Hcc : c * c <> 0) by (apply Rmult_integral_contrapositive_currified; exact Hc).
  assert (G2 : qn * a' + pn * b' = d + z).
  { assert (E : c * c * (qn * a' + pn * b' - (d + z)) = 0) by (unfold a', b'; nsatz).
    apply Rmult_integral in E. destruct E as [E|E]; [contradiction|lra]. }
  split; [exact G1|]. split; [exact G2|].
  assert (Htr : qn * a' + pn * b' + (qn * d' - pn * c') = (a + d) * (pn * pn + qn * qn))
    by (unfold a', b', c', d'; ring).
  rewrite Hu in Htr. lra.
Qed.
