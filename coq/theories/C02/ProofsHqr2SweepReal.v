(* C02 — hqr2, first half, over R with eps = 0: deflation of two REAL roots at matrix level
   (l == nn - 1, q >= 0): the plane rotation on rows/columns nn-1, nn of A and on V. *)
From Coq Require Import List Arith Bool Lia Reals Lra Psatz Setoid Morphisms.
From SC Require Import Base.Num C02.FunMat C02.Model C02.ModelTql2 C02.ModelHqr2Spec C02.ModelHqr2Sweep
  C02.ProofsHouse C02.ProofsTql2Rot C02.ProofsHqr2SweepAlg C02.ProofsHqr2SweepJ C02.ProofsHqr2SweepStep
  C02.ProofsHqr2SweepLoop C02.ProofsHqr2SweepSpecs C02.ProofsHqr2SweepPass C02.ProofsHqr2Defl
  C02.ProofsHqr2SweepDefl.
Local Open Scope R_scope.

(* ---------- the three loops ---------- *)
Section RotLoops.
  Variables (n na : nat) (pn qn : R).
  Local Notation nn := (S na).

  Lemma rot_rows_spec (A : mat) r c :
    forn na (n - na) (fun j (A : mat) =>
      let z := A na j in
      let A := mupd A na j (qn * z + pn * A nn j) in
      mupd A nn j (qn * A nn j - pn * z)) A r c =
    if (na <=? c)%nat && (c <? na + (n - na))%nat then
      (if r =? na then qn * A na c + pn * A nn c
       else if r =? nn then qn * A nn c - pn * A na c else A r c)
    else A r c.
  Proof.
    apply (forn_ind (fun j (W : mat) => forall r c,
      W r c = if (na <=? c)%nat && (c <? j)%nat then
                (if r =? na then qn * A na c + pn * A nn c
                 else if r =? nn then qn * A nn c - pn * A na c else A r c)
              else A r c)).
    - intros r' c'. cmp; reflexivity.
    - intros j W Hj IH r' c'. cbv zeta. unfold mupd. rewrite !IH. cmp; try ring.
  Qed.

  Lemma rot_cols_spec' cnt (A : mat) r c :
    forn 0 cnt (fun i (A : mat) =>
      let z := A i na in
      let A := mupd A i na (qn * z + pn * A i nn) in
      mupd A i nn (qn * A i nn - pn * z)) A r c =
    if (r <? 0 + cnt)%nat then
      (if c =? na then qn * A r na + pn * A r nn
       else if c =? nn then qn * A r nn - pn * A r na else A r c)
    else A r c.
  Proof.
    apply (forn_ind (fun j (W : mat) => forall r c,
      W r c = if (r <? j)%nat then
                (if c =? na then qn * A r na + pn * A r nn
                 else if c =? nn then qn * A r nn - pn * A r na else A r c)
              else A r c)).
    - intros r' c'. cmp; reflexivity.
    - intros j W Hj IH r' c'. cbv zeta. unfold mupd. rewrite !IH. cmp; try ring.
  Qed.
End RotLoops.

(* the rotation on the logical matrix is what the two loops on A store *)
Lemma rot_logical n na t pn qn (A2 A3 A4 : mat) : (S na < n)%nat ->
  (forall r c, A3 r c =
     if (na <=? c)%nat && (c <? na + (n - na))%nat then
       (if r =? na then qn * A2 na c + pn * A2 (S na) c
        else if r =? S na then qn * A2 (S na) c - pn * A2 na c else A2 r c)
     else A2 r c) ->
  (forall r c, A4 r c =
     if (r <? 0 + S (S na))%nat then
       (if c =? na then qn * A3 r na + pn * A3 r (S na)
        else if c =? S na then qn * A3 r (S na) - pn * A3 r na else A3 r c)
     else A3 r c) ->
  (forall c, S c = na -> A2 na c = 0) ->
  (forall r, r = S (S na) -> (r < n)%nat -> A2 r (S na) = 0) ->
  meq n (rotM na qn (- pn) (hlog na t A2)) (hlog na t A4).
Proof.
  intros Hn HA3 HA4 H0 Hsn r c Hr Hc.
  unfold rotM, rowrot, colrot, hlog, uhess. rewrite !HA4, !HA3.
  cmp; try ring;
    try (rewrite (H0 c) by lia); try (rewrite (Hsn r) by lia); try ring.
Qed.

Lemma Rcs_zero z0 p : 0 <= z0 -> p + Rcopysign z0 p = 0 -> p = 0.
Proof.
  unfold Rcopysign. intros Hz. rewrite (Rabs_right z0) by lra.
  destruct (Rltb p 0) eqn:E; intros H.
  - apply Rltb_true in E. lra.
  - apply Rltb_false in E. lra.
Qed.

Lemma real_pair_deflation : real_pair_deflation_statement.
Proof.
  intros n U0 V0 na A V d e t nn x y w p q Hnn H0 Hsub Hq [HS HT].
  unfold two_roots. rops. unfold h_half. rops. unfold nn. cbn [pred]. fold nn. fold x y. fold w. fold p. fold q.
  replace (Rleb 0 q) with true by (symmetry; apply Rleb_true; exact Hq).
  set (A2 := mupd (mupd A nn nn (x + t)) na na (y + t)).
  set (z := p + Rcopysign (sqrt (Rabs q)) p).
  set (c := A2 nn na). set (s := Rabs c + Rabs z).
  set (r := sqrt (c / s * (c / s) + z / s * (z / s))).
  set (pn := c / s / r). set (qn := z / s / r).
  assert (Hc : c = A nn na) by (unfold c, A2; rewrite !mupd_neq by (unfold nn; lia); reflexivity).
  assert (Hc0 : c <> 0) by (rewrite Hc; exact Hsub).
  destruct (defl_rot_params c z Hc0) as [Hu Hpz]. fold s r pn qn in Hu, Hpz.
  pose proof (defl_z_quadratic p w Hq) as Hzq. cbv zeta in Hzq. fold q z in Hzq.
  match goal with |- GoodC _ _ _ _ (forn 0 (S nn) _ ?B) _ _ _ _ => set (A3 := B) end.
  match goal with |- GoodC _ _ _ _ ?B _ _ _ _ => set (A4 := B) end.
  match goal with |- GoodC _ _ _ _ _ ?B _ _ _ => set (V4 := B) end.
  assert (HA3 : forall r' c', A3 r' c' =
     if (na <=? c')%nat && (c' <? na + (n - na))%nat then
       (if r' =? na then qn * A2 na c' + pn * A2 (S na) c'
        else if r' =? S na then qn * A2 (S na) c' - pn * A2 na c' else A2 r' c')
     else A2 r' c') by (intros; apply (rot_rows_spec n na pn qn A2)).
  assert (HA4 : forall r' c', A4 r' c' =
     if (r' <? 0 + S (S na))%nat then
       (if c' =? na then qn * A3 r' na + pn * A3 r' (S na)
        else if c' =? S na then qn * A3 r' (S na) - pn * A3 r' na else A3 r' c')
     else A3 r' c') by (intros; apply (rot_cols_spec' na pn qn (S nn) A3)).
  assert (HV4 : forall r' c', V4 r' c' =
     if (r' <? 0 + n)%nat then
       (if c' =? na then qn * V r' na + pn * V r' (S na)
        else if c' =? S na then qn * V r' (S na) - pn * V r' na else V r' c')
     else V r' c') by (intros; apply (rot_cols_spec' na pn qn n V)).
  destruct HT as (T1 & T2 & T3 & T4 & T5).
  assert (Hsn : forall r', r' = S (S na) -> (r' < n)%nat -> A2 r' (S na) = 0).
  { intros r' -> Hr'. unfold A2. rewrite !mupd_neq by (unfold nn; lia).
    apply (T2 nn); [unfold nn; lia|exact Hr'|]. rewrite (T1 nn) by (unfold nn; lia). lra. }
  assert (H0' : forall c', S c' = na -> A2 na c' = 0).
  { intros c' Hc'. unfold A2. rewrite !mupd_neq by (unfold nn; lia). replace c' with (pred na) by lia. apply H0. lia. }
  (* the 2x2 block *)
  pose proof (defl_rot_block (y + t) (A na nn) c (x + t) z pn qn) as Hblk. cbv zeta in Hblk.
  destruct Hblk as (B1 & B2 & B3); try assumption.
  { rewrite Hc. unfold w, p in Hzq. lra. }
  assert (E11 : A2 na na = y + t) by (unfold A2; apply mupd_eq).
  assert (E12 : A2 na nn = A na nn) by (unfold A2; rewrite !mupd_neq by (unfold nn; lia); reflexivity).
  assert (E22 : A2 nn nn = x + t) by (unfold A2; rewrite mupd_neq by (unfold nn; lia); apply mupd_eq).
  assert (K21 : A4 nn na = 0).
  { rewrite HA4, !HA3. fold nn. fold c. rewrite E11, E12, E22. cmp. lra. }
  assert (K11 : A4 na na = x + t + z).
  { rewrite HA4, !HA3. fold nn. fold c. rewrite E11, E12, E22. cmp. lra. }
  assert (K22 : A4 nn nn = y + t - z).
  { rewrite HA4, !HA3. fold nn. fold c. rewrite E11, E12, E22. cmp. lra. }
  split.
  - (* similarity *)
    assert (Hcs : qn * qn + - pn * - pn = 1) by lra.
    apply (Sim_step n U0 V0 (S nn) na A V t A4 V4 t (grot na qn (- pn)) HS).
    + split; [apply grot_orth_l|apply grot_orth_r]; assumption.
    + intros i j Hi Hj. rewrite HV4. destruct (Nat.ltb_spec i (0 + n)); [|lia].
      rewrite (mmul_grot n V na qn (- pn) i j Hnn Hj). unfold colrot. cmp; ring.
    + assert (HH : meq n (hlog (S nn) t A) (hlog na t A2)).
      { intros r' c' _ _. unfold hlog, uhess, A2, mupd, x, y, nn. cmp; ring. }
      rewrite HH.
      pose proof (rot_logical n na t pn qn A2 A3 A4 Hnn HA3 HA4 H0' Hsn) as HR.
      rewrite <- HR. rewrite <- (mmul_rotM n (hlog na t A2) na qn (- pn) Hnn).
      rewrite <- (mmul_assoc_meq n (grot na qn (- pn)) (mtr (grot na qn (- pn))) (mmul n (hlog na t A2) (grot na qn (- pn)))).
      rewrite (grot_orth_r n na qn (- pn) Hnn Hcs).
      rewrite (mmul_id_l n (mmul n (hlog na t A2) (grot na qn (- pn)))). reflexivity.
  - (* recorded part *)
    assert (Hrow : forall i j, (nn < i)%nat -> A4 i j = A i j).
    { intros i j Hi. rewrite HA4. unfold nn in *. destruct (Nat.ltb_spec i (0 + S (S na))); [lia|].
      rewrite HA3. unfold A2, mupd. cmp; reflexivity. }
    assert (Hd' : forall i, i <> na -> i <> nn ->
      (if negb (Reqb z 0) then vupd (vupd (vupd d na (x + t + z)) nn (x + t + z)) nn (x + t - w / z)
       else vupd (vupd d na (x + t + z)) nn (x + t + z)) i = d i).
    { intros i H1 H2. destruct (negb (Reqb z 0)); rewrite !vupd_neq by assumption; reflexivity. }
    unfold Tail. refine (conj _ (conj _ (conj _ (conj _ _)))).
    + intros i H1 H2. apply T1; unfold nn; lia.
    + intros i H1 H2 H3.
      destruct (Nat.eq_dec (S i) na) as [E|E].
      * rewrite HA4, !HA3. cmp; try (rewrite E); apply H0'; lia.
      * destruct (Nat.eq_dec i na) as [->|E1]; [exact K21|].
        destruct (Nat.eq_dec i nn) as [->|E2].
        -- rewrite Hrow by (unfold nn; lia). apply (T2 nn); [unfold nn; lia|exact H2|exact H3].
        -- rewrite Hrow by (unfold nn in *; lia). apply T2; try assumption. unfold nn in *; lia.
    + intros i H1 H2 H3.
      destruct (Nat.eq_dec i na) as [->|E1].
      * rewrite K11. destruct (negb (Reqb z 0)).
        -- rewrite vupd_neq by (unfold nn; lia). rewrite vupd_neq by (unfold nn; lia). rewrite vupd_eq. reflexivity.
        -- rewrite vupd_neq by (unfold nn; lia). rewrite vupd_eq. reflexivity.
      * destruct (Nat.eq_dec i nn) as [->|E2].
        -- rewrite K22. destruct (Reqb z 0) eqn:Ez; cbn [negb].
           ++ apply Reqb_true in Ez. rewrite vupd_eq.
              assert (Hp0 : p = 0) by (apply (Rcs_zero (sqrt (Rabs q)) p); [apply sqrt_pos|exact Ez]).
              unfold p in Hp0. rewrite Ez. lra.
           ++ apply Reqb_false in Ez. rewrite vupd_eq.
              assert (Hw : w = z * z - 2 * p * z) by lra.
              rewrite Hw. unfold p. field. exact Ez.
        -- rewrite Hrow, Hd' by (unfold nn in *; lia). apply T3; try assumption. unfold nn in *; lia.
    + intros i H1 H2 H3.
      destruct (Nat.eq_dec i na) as [->|E1]; [rewrite (T1 na) in H3 by (unfold nn; lia); lra|].
      destruct (Nat.eq_dec i nn) as [->|E2]; [rewrite (T1 nn) in H3 by (unfold nn; lia); lra|].
      destruct (T4 i ltac:(unfold nn in *; lia) H2 H3) as (K1 & K2 & K3 & K4 & K5).
      rewrite !Hrow, !Hd' by (unfold nn in *; lia). auto.
    + intros i H1 H2 H3.
      destruct (Nat.eq_dec i na) as [->|E1]; [rewrite (T1 na) in H3 by (unfold nn; lia); lra|].
      destruct (Nat.eq_dec i nn) as [->|E2]; [rewrite (T1 nn) in H3 by (unfold nn; lia); lra|].
      destruct (T5 i ltac:(unfold nn in *; lia) H2 H3) as (j & -> & K1 & K2).
      exists j. split; [reflexivity|]. split; [unfold nn in *; lia|exact K2].
Qed.
