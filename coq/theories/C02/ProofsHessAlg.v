(* C02 — matrix algebra used by the proofs about elmhes/eltran (ProofsHess*.v): the similarity relation
   A Z = Z B, two-sided inverses, the elementary matrices I + w e_m^T ("column-m elementary") and
   transposition matrices, all on matrices-as-functions of C02/FunMat.v. *)
From Coq Require Import List Arith Bool Lia Reals Lra Psatz Setoid Morphisms.
From SC Require Import Base.Num C02.FunMat.
Local Open Scope R_scope.

(* case analysis on the boolean comparisons of naturals occurring in the goal, pruning by lia *)
Ltac noite t := lazymatch t with context [if _ then _ else _] => fail | _ => idtac end.
Ltac bd1 :=
  match goal with
  | |- context [?a =? ?b] => noite a; noite b; destruct (Nat.eqb_spec a b)
  | |- context [?a <? ?b] => noite a; noite b; destruct (Nat.ltb_spec a b)
  | |- context [?a <=? ?b] => noite a; noite b; destruct (Nat.leb_spec a b)
  end; cbn [andb orb negb]; try (exfalso; lia).
Ltac bd := repeat bd1.

(* ---- meq is an equivalence, mmul respects it ---- *)
Global Instance meq_Equivalence n : Equivalence (meq n).
Proof.
  split.
  - intros A. apply meq_refl.
  - intros A B. apply meq_sym.
  - intros A B C. apply meq_trans.
Qed.
Global Instance mmul_Proper n : Proper (meq n ==> meq n ==> meq n) (mmul n).
Proof. intros A A' HA B B' HB. apply mmul_ext; assumption. Qed.

Lemma mmul_assoc_meq n A B C : meq n (mmul n (mmul n A B) C) (mmul n A (mmul n B C)).
Proof. intros i j _ _. apply mmul_assoc. Qed.

(* ---- similarity ---- *)
Definition simrel (n : nat) (A Z B : mat) : Prop := meq n (mmul n A Z) (mmul n Z B).

Global Instance simrel_Proper n : Proper (meq n ==> meq n ==> meq n ==> iff) (simrel n).
Proof.
  intros A A' HA Z Z' HZ B B' HB. unfold simrel. rewrite HA, HZ, HB. reflexivity.
Qed.

Lemma simrel_id n A B : meq n A B -> simrel n A mid B.
Proof.
  intros H. unfold simrel. rewrite (mmul_id_r n A), (mmul_id_l n B). exact H.
Qed.

Lemma simrel_trans n A Z B Z' C :
  simrel n A Z B -> simrel n B Z' C -> simrel n A (mmul n Z Z') C.
Proof.
  unfold simrel. intros H1 H2.
  rewrite <- (mmul_assoc_meq n A Z Z'). rewrite H1.
  rewrite (mmul_assoc_meq n Z B Z'). rewrite H2.
  rewrite <- (mmul_assoc_meq n Z Z' C). reflexivity.
Qed.

(* ---- two-sided inverses ---- *)
Definition minv (n : nat) (Z W : mat) : Prop := meq n (mmul n Z W) mid /\ meq n (mmul n W Z) mid.

Global Instance minv_Proper n : Proper (meq n ==> meq n ==> iff) (minv n).
Proof. intros Z Z' HZ W W' HW. unfold minv. rewrite HZ, HW. reflexivity. Qed.

Lemma minv_id n : minv n mid mid.
Proof. split; apply mmul_id_l. Qed.

Lemma minv_mul n Z1 W1 Z2 W2 :
  minv n Z1 W1 -> minv n Z2 W2 -> minv n (mmul n Z1 Z2) (mmul n W2 W1).
Proof.
  intros [H1 H1'] [H2 H2']. split.
  - rewrite (mmul_assoc_meq n Z1 Z2 (mmul n W2 W1)).
    rewrite <- (mmul_assoc_meq n Z2 W2 W1). rewrite H2.
    rewrite (mmul_id_l n W1). exact H1.
  - rewrite (mmul_assoc_meq n W2 W1 (mmul n Z1 Z2)).
    rewrite <- (mmul_assoc_meq n W1 Z1 Z2). rewrite H1'.
    rewrite (mmul_id_l n Z2). exact H2'.
Qed.

(* ---- sums with one surviving term ---- *)
Lemma rsum_ite n j (f : nat -> R) :
  (j < n)%nat -> rsum n (fun k => if k =? j then f k else 0) = f j.
Proof.
  intros Hj. rewrite (rsum_single n j) by (try exact Hj; intros k _ Hk; apply Nat.eqb_neq in Hk; rewrite Hk; reflexivity).
  rewrite Nat.eqb_refl. reflexivity.
Qed.

(* ---- column-m elementary matrices  I + w e_m^T ---- *)
Definition colE (m : nat) (w : nat -> R) : mat := fun r c => mid r c + (if c =? m then w r else 0).

Lemma colE_mul_l n m w G r c :
  (r < n)%nat -> (m < n)%nat -> mmul n (colE m w) G r c = G r c + w r * G m c.
Proof.
  intros Hr Hm. unfold mmul, colE.
  rewrite (rsum_ext n _ (fun k => (if k =? r then 1 else 0) * G k c + (if k =? m then w r * G k c else 0))).
  - rewrite rsum_plus. rewrite (rsum_delta n r (fun k => G k c)) by exact Hr.
    rewrite (rsum_ite n m (fun k => w r * G k c)) by exact Hm. reflexivity.
  - intros k _. unfold mid. rewrite (Nat.eqb_sym r k). destruct (k =? m); ring.
Qed.

Lemma colE_mul_r n m w F r c :
  (c < n)%nat ->
  mmul n F (colE m w) r c = F r c + (if c =? m then rsum n (fun k => F r k * w k) else 0).
Proof.
  intros Hc. unfold mmul, colE.
  rewrite (rsum_ext n _ (fun k => F r k * (if k =? c then 1 else 0) + F r k * (if c =? m then w k else 0)))
    by (intros k _; unfold mid; ring).
  rewrite rsum_plus. rewrite (rsum_delta_r n c (fun k => F r k)) by exact Hc.
  destruct (c =? m).
  - reflexivity.
  - rewrite rsum_0 by (intros; ring). reflexivity.
Qed.

(* the vector y e_i *)
Definition single (i : nat) (y : R) : nat -> R := fun r => if r =? i then y else 0.

Lemma colE_single_mul_r n m i y F r c :
  (c < n)%nat -> (i < n)%nat ->
  mmul n F (colE m (single i y)) r c = F r c + (if c =? m then y * F r i else 0).
Proof.
  intros Hc Hi. rewrite colE_mul_r by exact Hc. destruct (c =? m); [|reflexivity].
  unfold single.
  rewrite (rsum_ext n _ (fun k => if k =? i then F r k * y else 0)) by (intros k _; destruct (k =? i); ring).
  rewrite (rsum_ite n i (fun k => F r k * y)) by exact Hi. ring.
Qed.

Lemma colE_colE n m w w' :
  (m < n)%nat -> w' m = 0 ->
  meq n (mmul n (colE m w) (colE m w')) (colE m (fun r => w' r + w r)).
Proof.
  intros Hm Hw r c Hr Hc. rewrite colE_mul_l by assumption. unfold colE, mid.
  rewrite Hw. bd; ring.
Qed.

Lemma colE_zero n m w : (forall r, (r < n)%nat -> w r = 0) -> meq n (colE m w) mid.
Proof. intros H r c Hr Hc. unfold colE. rewrite H by exact Hr. destruct (c =? m); ring. Qed.

Lemma colE_ext n m w w' : (forall r, (r < n)%nat -> w r = w' r) -> meq n (colE m w) (colE m w').
Proof. intros H r c Hr Hc. unfold colE. rewrite H by exact Hr. reflexivity. Qed.

Lemma colE_minv n m w :
  (m < n)%nat -> w m = 0 -> minv n (colE m w) (colE m (fun r => - w r)).
Proof.
  intros Hm Hw. split.
  - rewrite colE_colE by (try exact Hm; rewrite Hw; ring).
    apply colE_zero. intros; ring.
  - rewrite colE_colE by assumption.
    apply colE_zero. intros; ring.
Qed.

(* the similarity by I + y e_i e_m^T written on entries:
   row_i -= y * row_m, then col_m += y * col_i *)
Definition simE (i m : nat) (y : R) (A : mat) : mat :=
  fun r c =>
    let A2 := fun r c => if r =? i then A r c - y * A m c else A r c in
    if c =? m then A2 r m + y * A2 r i else A2 r c.

Lemma simrel_simE n i m y A :
  (i < n)%nat -> (m < n)%nat -> i <> m ->
  simrel n A (colE m (single i y)) (simE i m y A).
Proof.
  intros Hi Hm Him r c Hr Hc.
  rewrite colE_single_mul_r by assumption. rewrite colE_mul_l by assumption.
  unfold simE, single. bd; try ring.
  all: subst; try ring; try (exfalso; lia).
Qed.

(* ---- transposition matrices ---- *)
Definition tau (m p r : nat) : nat := if r =? m then p else if r =? p then m else r.
Definition Pmat (m p : nat) : mat := fun r c => mid (tau m p r) c.

Lemma tau_invol m p r : tau m p (tau m p r) = r.
Proof. unfold tau. bd; lia. Qed.
Lemma tau_lt n m p r : (m < n)%nat -> (p < n)%nat -> (r < n)%nat -> (tau m p r < n)%nat.
Proof. unfold tau. intros. bd; lia. Qed.
Lemma tau_same m r : tau m m r = r.
Proof. unfold tau. bd; lia. Qed.
Lemma mid_tau m p k c : mid (tau m p k) c = mid k (tau m p c).
Proof. unfold mid, tau. bd; try reflexivity; lia. Qed.

Lemma Pmat_mul_l n m p G r c :
  (m < n)%nat -> (p < n)%nat -> (r < n)%nat -> (c < n)%nat ->
  mmul n (Pmat m p) G r c = G (tau m p r) c.
Proof.
  intros Hm Hp Hr Hc. exact (mmul_id_l n G (tau m p r) c (tau_lt n m p r Hm Hp Hr) Hc).
Qed.

Lemma Pmat_mul_r n m p F r c :
  (m < n)%nat -> (p < n)%nat -> (r < n)%nat -> (c < n)%nat ->
  mmul n F (Pmat m p) r c = F r (tau m p c).
Proof.
  intros Hm Hp Hr Hc. unfold mmul, Pmat.
  rewrite (rsum_ext n _ (fun k => F r k * mid k (tau m p c))) by (intros k _; rewrite mid_tau; reflexivity).
  exact (mmul_id_r n F r (tau m p c) Hr (tau_lt n m p c Hm Hp Hc)).
Qed.

Lemma Pmat_same n m : meq n (Pmat m m) mid.
Proof. intros r c _ _. unfold Pmat. rewrite tau_same. reflexivity. Qed.

Lemma Pmat_minv n m p : (m < n)%nat -> (p < n)%nat -> minv n (Pmat m p) (Pmat m p).
Proof.
  intros Hm Hp.
  assert (H : meq n (mmul n (Pmat m p) (Pmat m p)) mid).
  { intros r c Hr Hc. rewrite Pmat_mul_l by assumption. unfold Pmat. rewrite tau_invol. reflexivity. }
  split; exact H.
Qed.

Lemma simrel_Pmat n m p A A' :
  (m < n)%nat -> (p < n)%nat ->
  (forall r c, (r < n)%nat -> (c < n)%nat -> A' r c = A (tau m p r) (tau m p c)) ->
  simrel n A (Pmat m p) A'.
Proof.
  intros Hm Hp H r c Hr Hc.
  rewrite Pmat_mul_r, Pmat_mul_l by assumption.
  rewrite H by (try apply tau_lt; assumption). rewrite tau_invol. reflexivity.
Qed.
