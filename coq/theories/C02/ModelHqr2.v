(* C02 — `hqr2` (src/linalg/evd.rs) as the composition of its two halves: the QR sweeps with
   deflation (ModelHqr2Sweep.v) and the back-substitution with the final product (ModelHqr2Vec.v).
   Definitions only; generic in `Ops T`.  `None` = panic ("Too many iterations in hqr", or n = 0).
   The boolean is the GHOST flag of ModelHqr2Vec.v (the perturbation `if t == 0 { t = eps * anorm }`
   was never taken in a real-eigenvalue column). *)
From Coq Require Import List Arith Bool.
From SC Require Import Base.Num C02.FunMat C02.ModelHqr2Spec C02.ModelHqr2Sweep C02.ModelHqr2Vec.
Import ListNotations.

Definition hqr2_model {T} (O : Ops T) (copysign : T -> T -> T) (eps : T) (n : nat)
    (A V : nat -> nat -> T) (d e : nat -> T)
  : option ((nat -> nat -> T) * (nat -> nat -> T) * (nat -> T) * (nat -> T) * bool) :=
  match hqr2_sweeps O copysign eps n A V d e with
  | None => None
  | Some (A1, V1, d1, e1, anorm) =>
      let r := hqr2_vectors_full O eps n anorm A1 V1 d1 e1 in
      Some (fst (fst r), snd (fst r), d1, e1, snd r)
  end.

(* on lists: rows of A, rows of V; d, e enter as zeros (evd_mut: vec![T::zero(); n]) *)
Definition hqr2_rows {T} (O : Ops T) (copysign : T -> T -> T) (eps : T) (A V : list (list T))
  : option (list (list T) * list (list T) * list T * list T * bool) :=
  let n := length A in
  match hqr2_model O copysign eps n (mfun O.(o0) A) (mfun O.(o0) V) (fun _ => O.(o0)) (fun _ => O.(o0)) with
  | None => None
  | Some (A', V', d', e', ok) => Some (mrows n A', mrows n V', vlist n d', vlist n e', ok)
  end.
