(* C02 — correspondence interface for the model of the second half of `hqr2` (C02/ModelHqr2Vec.v) at
   binary64.  Inputs: the state (anorm, A, V, d, e) at the point `if anorm != T::zero() {` of hqr2
   (rows of A and V); expected: the rows of A and V when hqr2 returns.  `fmat_eq` is equality of the
   binary64 values (0 = -0, NaN = NaN), as in C02/Corr.v.  `xok` is the expected value of the ghost
   flag (true iff the perturbation `t = eps * anorm` was never taken in a real-eigenvalue column). *)
From Coq Require Import List ZArith Bool Floats.
From SC Require Import Base.FloatUtil Base.Num C02.FunMat C02.ModelHqr2Vec.
Import ListNotations.

Definition eps_f64 : float := 0x1p-52%float.

Definition hqr2_vectors_rows_f64 (anorm : float) (A V : list (list float)) (d e : list float) :=
  hqr2_vectors_rows FOps eps_f64 anorm A V d e.

Definition corr_hqr2_vectors (anorm : float) (A V : list (list float)) (d e : list float)
           (xA xV : list (list float)) (xok : bool) : bool :=
  let r := hqr2_vectors_rows_f64 anorm A V d e in
  fmat_eq (fst (fst r)) xA && fmat_eq (snd (fst r)) xV && Bool.eqb (snd r) xok.

(* without the ghost flag *)
Definition corr_hqr2_vectors_AV (anorm : float) (A V : list (list float)) (d e : list float)
           (xA xV : list (list float)) : bool :=
  let r := hqr2_vectors_rows_f64 anorm A V d e in
  fmat_eq (fst (fst r)) xA && fmat_eq (snd (fst r)) xV.

(* Expected values: an independent python3 re-implementation of the WHOLE hqr2 (py/hqr2ref.py), itself
   compared bit for bit with the real `verif_hqr2` (dev profile of the harness and release) on 3000
   random inputs (1855 with complex blocks; every branch of the second half taken).  The state fed to
   the model is the one python has after the first half. *)
(* real3: e = +0 +0 +0; branches taken: {} *)
Example corr_hqr2_vectors_real3 : corr_hqr2_vectors 0x1.31f38957e5387p+3%float
   [[(-0x1.421d6ac0f5010p-2)%float; (-0x1.cd9c9758c4db7p+0)%float; (-0x1.074f1363e55b8p+1)%float];
    [0x0.0p+0%float; 0x1.17206615c2ac1p+0%float; 0x1.b9a4ccad8dfe2p+0%float];
    [0x1.3e55680000000p-109%float; 0x0.0p+0%float; 0x1.3b7bc07161f65p+1%float]]
   [[(-0x1.f01f9231e4300p-1)%float; 0x1.f92cc57f18146p-3%float; 0x1.dcf8eac6987dap-7%float];
    [0x1.07c30bc33b768p-4%float; 0x1.88e852973c104p-3%float; 0x1.09214bb9992c0p+0%float];
    [(-0x1.f89cdcaaddacap-3)%float; (-0x1.eb93b9ec502cbp-1)%float; (-0x1.0ebe4b2e27390p-3)%float]]
   [(-0x1.421d6ac0f5010p-2)%float; 0x1.17206615c2ac1p+0%float; 0x1.3b7bc07161f65p+1%float]
   [0x0.0p+0%float; 0x0.0p+0%float; 0x0.0p+0%float]
   [[0x1.0000000000000p+0%float; (-0x1.489262b6e0329p+0)%float; (-0x1.8df6948e3f193p+0)%float];
    [0x0.0p+0%float; 0x1.0000000000000p+0%float; 0x1.41575e91169c5p+0%float];
    [0x1.3e55680000000p-109%float; 0x0.0p+0%float; 0x1.0000000000000p+0%float]]
   [[(-0x1.f01f9231e4300p-1)%float; 0x1.7d87aaffc8debp+0%float; 0x1.d49d0d5e781d5p+0%float];
    [0x1.07c30bc33b768p-4%float; 0x1.bf47eb2a886eep-4%float; 0x1.2d270032e9096p+0%float];
    [(-0x1.f89cdcaaddacap-3)%float; (-0x1.49a9583afd540p-1)%float; (-0x1.e89f4046dbc6cp-1)%float]] true = true.
Proof. vm_compute. reflexivity. Qed.
(* real5: e = +0 +0 +0 +0 +0; branches taken: {} *)
Example corr_hqr2_vectors_real5 : corr_hqr2_vectors 0x1.9ec3b2a1907f7p+5%float
   [[0x1.116d7e4eea540p+2%float; 0x1.b65831366ac00p-4%float; 0x1.1a323485375d7p+1%float; 0x1.201d1bbfd4ef8p+3%float; 0x1.63ce0cc50192ap+1%float];
    [0x1.8000000000000p-52%float; (-0x1.3357cd88856b2p+2)%float; (-0x1.04b05c916c1eep+2)%float; (-0x1.3d0a5a4e7cc1bp+1)%float; 0x1.eaded4f992260p+0%float];
    [0x1.33e917cdb77ecp-46%float; 0x0.0p+0%float; 0x1.5a8469cf8c8d0p+0%float; 0x1.3a59b7d094768p+1%float; (-0x1.1b6a2aca7dbebp+1)%float];
    [(-0x1.0286335694d05p-60)%float; (-0x1.ff07c80400000p-82)%float; 0x0.0p+0%float; 0x1.c3c2cc6bb6c11p-2%float; 0x1.70b09f4090b55p+0%float];
    [0x0.0p+0%float; (-0x1.cecd8ac7b9a59p-36)%float; (-0x1.21fc47b8dbab0p-39)%float; 0x0.0p+0%float; (-0x1.a1e5f00206f07p+1)%float]]
   [[(-0x1.8b6282aa33030p-1)%float; 0x1.d290b3cd30c60p-4%float; (-0x1.a7b4105fd0781p-2)%float; 0x1.abe8f0155a1fbp-2%float; 0x1.b1b1da17b08d6p-3%float];
    [(-0x1.36df8a4d11c36p-3)%float; (-0x1.04d1005a3d0b8p-1)%float; 0x1.625174b21a552p-9%float; (-0x1.f515af94b95a1p-2)%float; 0x1.61fc1f796cb10p-1%float];
    [(-0x1.4e728e372fde9p-2)%float; 0x1.c4bb3195ed4dep-4%float; (-0x1.0d5d7c538e24ap-2)%float; (-0x1.339c48f21a242p+0)%float; 0x1.369ef796dee07p-1%float];
    [0x1.766f466ee0c97p-1%float; (-0x1.f38898707de44p-3)%float; (-0x1.b6d2267b9e07dp-4)%float; 0x1.f1f083c31b4e3p-1%float; 0x1.56d6a955601bbp-1%float];
    [(-0x1.1fbdcfb8d9820p-7)%float; 0x1.93fe64e71b2bbp-2%float; 0x1.81f7277a4f0cap-1%float; 0x1.681f98bd82d24p-2%float; 0x1.11c762b811f70p-1%float]]
   [0x1.116d7e4eea541p+2%float; (-0x1.3357cd88856b3p+2)%float; 0x1.5a8469cf8c8d0p+0%float; 0x1.c3c2cc6bb6c11p-2%float; (-0x1.a1e5f00206f07p+1)%float]
   [0x0.0p+0%float; 0x0.0p+0%float; 0x0.0p+0%float; 0x0.0p+0%float; 0x0.0p+0%float]
   [[0x1.0000000000000p+0%float; (-0x1.82705b9386a9ep-7)%float; (-0x1.765123d53611dp-1)%float; (-0x1.b15b19fb83a10p-1)%float; (-0x1.b2651c17a3394p-4)%float];
    [0x1.8000000000000p-52%float; 0x1.0000000000000p+0%float; (-0x1.52c97e53c792bp-1)%float; 0x1.9e5a6ff0e372ep+0%float; 0x1.c7616914c46ecp-5%float];
    [0x1.33e917cdb77ecp-46%float; 0x0.0p+0%float; 0x1.0000000000000p+0%float; (-0x1.58870eb209e97p+1)%float; 0x1.5f448e9469f74p-1%float];
    [(-0x1.0286335694d05p-60)%float; (-0x1.ff07c80400000p-82)%float; 0x0.0p+0%float; 0x1.0000000000000p+0%float; (-0x1.8df02a1cb2550p-2)%float];
    [0x0.0p+0%float; (-0x1.cecd8ac7b9a59p-36)%float; (-0x1.21fc47b8dbab0p-39)%float; 0x0.0p+0%float; 0x1.0000000000000p+0%float]]
   [[(-0x1.8b6282aa33030p-1)%float; 0x1.f7de34e60b5c0p-4%float; 0x1.34f38c80c928cp-4%float; 0x1.2f4e9ea6d8550p+1%float; (-0x1.2b924925c01bap-3)%float];
    [(-0x1.36df8a4d11c36p-3)%float; (-0x1.03e65d9a78624p-1)%float; 0x1.cd912540bde4ap-2%float; (-0x1.315169b459551p+0)%float; 0x1.be0abe17fb06dp-1%float];
    [(-0x1.4e728e372fde9p-2)%float; 0x1.d4820db774629p-4%float; (-0x1.8efcf693a6064p-4)%float; (-0x1.39250049df540p-5)%float; 0x1.de2e8403500c1p-1%float];
    [0x1.766f466ee0c97p-1%float; (-0x1.02992cb38c438p-2)%float; (-0x1.ebece6a202379p-2)%float; 0x1.fa1daa6b169dcp-3%float; 0x1.0431caecab5a8p-3%float];
    [(-0x1.1fbdcfb8d9820p-7)%float; 0x1.94198a8eee09ep-2%float; 0x1.ff2f4b4eefe55p-2%float; (-0x1.0807b8178ca53p+0)%float; 0x1.e04f4155e621cp-1%float]] true = true.
Proof. vm_compute. reflexivity. Qed.
(* mixed4: e = +0 +2.05 -2.05 +0; branches taken: {'blk_z': 1} *)
Example corr_hqr2_vectors_mixed4 : corr_hqr2_vectors 0x1.4125e67e90f4bp+4%float
   [[(-0x1.af3c365204d33p+0)%float; 0x1.731c0b642e8b7p+0%float; 0x1.26c4edae93bdcp+0%float; 0x1.cee61015fdc6cp-2%float];
    [0x0.0p+0%float; 0x1.30fdb7cb6fe01p+1%float; (-0x1.7bb880c21ce34p+1)%float; (-0x1.ae7e0045ebc78p-1)%float];
    [0x1.7b53800000000p-69%float; 0x1.bb5df21e5d86fp+0%float; 0x1.149bb549279a1p+2%float; 0x1.3690f046615f8p+1%float];
    [0x1.07f50762846bfp-29%float; (-0x1.3704145e5a994p-28)%float; 0x0.0p+0%float; 0x1.ce2f39ef14225p-2%float]]
   [[0x1.793ed3fc0fe76p-1%float; (-0x1.4661cc3032843p-1)%float; 0x1.106d9d5c15018p-6%float; (-0x1.cc20014860209p-3)%float];
    [0x1.c9d621281137ap-2%float; 0x1.5d9243cee5f0dp-3%float; 0x1.fec92c84652e4p-1%float; 0x1.0e4a09daf9fe1p+0%float];
    [(-0x1.1ffe8e241f0d4p-1)%float; (-0x1.431c2a1484908p-1)%float; (-0x1.0d521526e9baep-1)%float; (-0x1.7d1e93cb98f6ap-4)%float];
    [0x1.991adde797156p-3%float; 0x1.afef9a2598054p-3%float; (-0x1.fe795e6db850ap-1)%float; (-0x1.1809010743ba3p-6)%float]]
   [(-0x1.af3c365204d33p+0)%float; 0x1.ad1a912edf8a2p+1%float; 0x1.ad1a912edf8a2p+1%float; 0x1.ce2f39ef14225p-2%float]
   [0x0.0p+0%float; 0x1.063f68c2cd321p+1%float; (-0x1.063f68c2cd321p+1)%float; 0x0.0p+0%float]
   [[0x1.0000000000000p+0%float; (-0x1.1308623d056b3p-2)%float; 0x1.69ec539ce9397p-3%float; (-0x1.0d5f09eb2885bp-2)%float];
    [0x0.0p+0%float; (-0x1.2ed7f15a12d25p+0)%float; (-0x1.1ea68bd055463p-1)%float; (-0x1.4020dfb8338b5p-2)%float];
    [0x1.7b53800000000p-69%float; 0x0.0p+0%float; 0x1.0000000000000p+0%float; (-0x1.f2a640a29d921p-2)%float];
    [0x1.07f50762846bfp-29%float; (-0x1.3704145e5a994p-28)%float; 0x0.0p+0%float; 0x1.0000000000000p+0%float]]
   [[0x1.793ed3fc0fe76p-1%float; 0x1.1cc7f89ba8284p-1%float; 0x1.01e8f4116a762p-1%float; (-0x1.d1841b86a4243p-3)%float];
    [0x1.c9d621281137ap-2%float; (-0x1.49bcb6b367070p-2)%float; 0x1.f64febcef6a26p-1%float; 0x1.989c2a1691316p-2%float];
    [(-0x1.1ffe8e241f0d4p-1)%float; 0x1.cb95bf35148cfp-1%float; (-0x1.16a2735b625c9p-2)%float; 0x1.0447d8bc55fc9p-1%float];
    [0x1.991adde797156p-3%float; (-0x1.366d28ec3cf37p-2)%float; (-0x1.146d97f94aad7p+0)%float; 0x1.6655bc100828cp-2%float]] true = true.
Proof. vm_compute. reflexivity. Qed.
(* mixed6: e = +0.991 -0.991 +0 +1.62 -1.62 +0; branches taken: {'blk_z': 1, 'blk_x': 2, 'ovf': 1, 'cblk_z': 1} *)
Example corr_hqr2_vectors_mixed6 : corr_hqr2_vectors 0x1.8d5dee7bfca1bp+17%float
   [[(-0x1.b1c25391a72a4p-1)%float; 0x1.19b553f11f971p+0%float; 0x1.63e62532111acp-1%float; (-0x1.65316e2c458f0p-2)%float; 0x1.1484e5a1f6550p-1%float; (-0x1.ca20b0d0f8cc4p-1)%float];
    [(-0x1.ea4b895a043eep-1)%float; (-0x1.6177def54ca26p+0)%float; (-0x1.9079109e33775p+14)%float; (-0x1.1834704ea6641p+16)%float; (-0x1.3484ca0c3f672p+0)%float; (-0x1.9898d8948dad8p+0)%float];
    [0x0.0p+0%float; 0x0.0p+0%float; (-0x1.acfa8dfa121f0p+0)%float; 0x1.aa51183a97300p-1%float; 0x1.9e50e5830605dp+16%float; 0x1.72ca179e63af8p+0%float];
    [0x0.0p+0%float; 0x0.0p+0%float; 0x0.0p+0%float; 0x1.fd694ba3e53c4p+0%float; 0x1.39083a31cfaa4p+1%float; (-0x1.59f98c10bf510p-1)%float];
    [0x0.0p+0%float; 0x0.0p+0%float; 0x0.0p+0%float; (-0x1.15fab8d3b47b3p+0)%float; 0x1.2497d9a107043p+1%float; (-0x1.ac2fe78a7dbf4p-1)%float];
    [0x0.0p+0%float; 0x0.0p+0%float; 0x0.0p+0%float; 0x0.0p+0%float; 0x0.0p+0%float; (-0x1.6b74ab00592a8p+0)%float]]
   [[0x1.0000000000000p+0%float; 0x0.0p+0%float; 0x0.0p+0%float; 0x0.0p+0%float; 0x0.0p+0%float; 0x0.0p+0%float];
    [0x0.0p+0%float; 0x1.0000000000000p+0%float; 0x0.0p+0%float; 0x0.0p+0%float; 0x0.0p+0%float; 0x0.0p+0%float];
    [0x0.0p+0%float; 0x0.0p+0%float; 0x1.0000000000000p+0%float; 0x0.0p+0%float; 0x0.0p+0%float; 0x0.0p+0%float];
    [0x0.0p+0%float; 0x0.0p+0%float; 0x0.0p+0%float; 0x1.0000000000000p+0%float; 0x0.0p+0%float; 0x0.0p+0%float];
    [0x0.0p+0%float; 0x0.0p+0%float; 0x0.0p+0%float; 0x0.0p+0%float; 0x1.0000000000000p+0%float; 0x0.0p+0%float];
    [0x0.0p+0%float; 0x0.0p+0%float; 0x0.0p+0%float; 0x0.0p+0%float; 0x0.0p+0%float; 0x1.0000000000000p+0%float]]
   [(-0x1.1d2c845f101bcp+0)%float; (-0x1.1d2c845f101bcp+0)%float; (-0x1.acfa8dfa121f0p+0)%float; 0x1.11a63fb97cd12p+1%float; 0x1.11a63fb97cd12p+1%float; (-0x1.6b74ab00592a8p+0)%float]
   [0x1.fb86fa512163ap-1%float; (-0x1.fb86fa512163ap-1)%float; 0x0.0p+0%float; 0x1.9f72d42abf26bp+0%float; (-0x1.9f72d42abf26bp+0)%float; 0x0.0p+0%float]
   [[0x1.08ff5daffb922p+0%float; (-0x1.1d454e8ab36e8p-2)%float; (-0x1.537a022000140p+14)%float; (-0x1.7cb661ec9e8b3p+25)%float; (-0x1.d5f45a7bf12b0p+23)%float; (-0x1.0000000000000p+0)%float];
    [0x0.0p+0%float; 0x1.0000000000000p+0%float; 0x1.ff2aa1017e0d4p+13%float; (-0x1.adc3321bf5d51p+26)%float; (-0x1.b8232549d864cp+26)%float; 0x1.0a6329f79bff6p-1%float];
    [0x0.0p+0%float; 0x0.0p+0%float; 0x1.0000000000000p+0%float; 0x1.39284f187973dp+13%float; 0x1.6ff0227e5bfd4p+14%float; 0x1.400fbf76d0a70p-15%float];
    [0x0.0p+0%float; 0x0.0p+0%float; 0x0.0p+0%float; 0x1.7e998604bc77ep+0%float; 0x1.17226a969e579p-3%float; 0x1.9e8381aea0997p-37%float];
    [0x0.0p+0%float; 0x0.0p+0%float; 0x0.0p+0%float; 0x0.0p+0%float; 0x1.0000000000000p+0%float; 0x1.94e941bc58122p-34%float];
    [0x0.0p+0%float; 0x0.0p+0%float; 0x0.0p+0%float; 0x0.0p+0%float; 0x0.0p+0%float; 0x1.afb7e56a085b4p-32%float]]
   [[0x1.08ff5daffb922p+0%float; (-0x1.1d454e8ab36e8p-2)%float; (-0x1.537a022000140p+14)%float; (-0x1.7cb661ec9e8b3p+25)%float; (-0x1.d5f45a7bf12b0p+23)%float; (-0x1.0000000000000p+0)%float];
    [0x0.0p+0%float; 0x1.0000000000000p+0%float; 0x1.ff2aa1017e0d4p+13%float; (-0x1.adc3321bf5d51p+26)%float; (-0x1.b8232549d864cp+26)%float; 0x1.0a6329f79bff6p-1%float];
    [0x0.0p+0%float; 0x0.0p+0%float; 0x1.0000000000000p+0%float; 0x1.39284f187973dp+13%float; 0x1.6ff0227e5bfd4p+14%float; 0x1.400fbf76d0a70p-15%float];
    [0x0.0p+0%float; 0x0.0p+0%float; 0x0.0p+0%float; 0x1.7e998604bc77ep+0%float; 0x1.17226a969e579p-3%float; 0x1.9e8381aea0997p-37%float];
    [0x0.0p+0%float; 0x0.0p+0%float; 0x0.0p+0%float; 0x0.0p+0%float; 0x1.0000000000000p+0%float; 0x1.94e941bc58122p-34%float];
    [0x0.0p+0%float; 0x0.0p+0%float; 0x0.0p+0%float; 0x0.0p+0%float; 0x0.0p+0%float; 0x1.afb7e56a085b4p-32%float]] true = true.
Proof. vm_compute. reflexivity. Qed.
(* cplx6: e = +2.95 -2.95 +2.26 -2.26 +0.929 -0.929; branches taken: {'cblk_x': 1, 'cblk_z': 2} *)
Example corr_hqr2_vectors_cplx6 : corr_hqr2_vectors 0x1.042837d2b5c0fp+6%float
   [[0x1.ea441f1a46682p+1%float; 0x1.6817b50326be7p+1%float; 0x1.465542320e232p+2%float; (-0x1.e9f4d616e1188p+2)%float; (-0x1.37178925c902cp+2)%float; (-0x1.3299100b202f6p+2)%float];
    [(-0x1.e6fc26c646cf0p+1)%float; 0x1.00d3e732f6498p+0%float; (-0x1.72e28b9f90490p+1)%float; 0x1.da1fab011d8e6p+1%float; 0x1.4d27e6bea0a2ap-1%float; 0x1.1e1179608bfa8p+1%float];
    [(-0x1.dc55828bdb8d8p-47)%float; 0x0.0p+0%float; (-0x1.3b1b0c7f3b28ap+0)%float; 0x1.39dea21d164b1p+2%float; 0x1.17e58dca2f3d6p+1%float; 0x1.f6c29a5f7f0ddp+1%float];
    [0x1.51261de1ba83ap-44%float; (-0x1.c580000000000p-88)%float; (-0x1.0bdb0b112b9edp+0)%float; (-0x1.671baef003dbfp+0)%float; (-0x1.01117f234cf3ep+2)%float; (-0x1.0c8d6440647b3p+0)%float];
    [0x1.9595a124c4f88p-2%float; (-0x1.1eb88a0bfd6c5p-57)%float; (-0x1.8b70c08005440p-49)%float; 0x0.0p+0%float; (-0x1.aa86a5aec3947p-1)%float; (-0x1.6245076f42353p+0)%float];
    [0x1.449b02e8cad42p-1%float; (-0x1.f18c5af27900cp-1)%float; 0x1.a0fa42ae78448p-50%float; 0x1.7400000000000p-98%float; 0x1.414829a88cf06p-1%float; (-0x1.f34064d1280e0p-1)%float]]
   [[(-0x1.a34affd80ca84p-3)%float; (-0x1.d4ab13be6b11ep-1)%float; 0x1.653843e79d5b8p-6%float; (-0x1.3f624d7b2f86cp-2)%float; (-0x1.145afaaaca947p-3)%float; (-0x1.0a23b8af5ec8ap-4)%float];
    [(-0x1.cb15dd2d9e36ap-3)%float; 0x1.beaf05de91130p-3%float; (-0x1.d4404216a2f70p-1)%float; (-0x1.e057b54af7694p-2)%float; (-0x1.352da455b1a56p-3)%float; (-0x1.ba5621e29a0c2p-4)%float];
    [0x1.b2fb6dc02897ep-1%float; 0x1.85aa297a4db54p-4%float; 0x1.a1508dafa8fd5p-1%float; (-0x1.678ee7491a668p-1)%float; (-0x1.56a4cf00e7715p-3)%float; (-0x1.9c84043f6c2bcp-6)%float];
    [0x1.e59fa4d3d5a90p-3%float; 0x1.6cd8db26b0be8p-2%float; (-0x1.438d313dd2040p-5)%float; (-0x1.3af1432c58d0bp-1)%float; (-0x1.1b1474149559bp+0)%float; (-0x1.0fb45db695c5fp-1)%float];
    [0x1.f072afc7efad8p-4%float; (-0x1.ed0f0f7cef1bcp-3)%float; (-0x1.9c897c20fcd85p-1)%float; 0x1.058fac1a53aedp-1%float; 0x1.09d62b9e6abe6p-3%float; 0x1.1fec3476d62d8p-6%float];
    [(-0x1.a27f7b4464b62p-1)%float; (-0x1.efbeedece31e4p-3)%float; (-0x1.c34e1a94ef5b6p-3)%float; 0x1.ba7bd6c8e2163p-1%float; 0x1.0f9324284ae3cp-2%float; 0x1.36626fb41d35cp+0%float]]
   [0x1.35570959e0c67p+1%float; 0x1.35570959e0c67p+1%float; (-0x1.511b5db79f824p+0)%float; (-0x1.511b5db79f824p+0)%float; (-0x1.cee3853ff5d14p-1)%float; (-0x1.cee3853ff5d14p-1)%float]
   [0x1.79a866bc02323p+1%float; (-0x1.79a866bc02323p+1)%float; 0x1.21be17ada267fp+1%float; (-0x1.21be17ada267fp+1)%float; 0x1.dbbac28c31261p-1%float; (-0x1.dbbac28c31261p-1)%float]
   [[0x1.8d0e994322ff2p-1%float; (-0x1.7c70861ea8a79p-2)%float; (-0x1.266f825cbd5c9p+1)%float; 0x1.d103b47753f43p-1%float; (-0x1.cfa03172c91bbp+1)%float; 0x1.92098f978b6cap+1%float];
    [0x0.0p+0%float; 0x1.0000000000000p+0%float; (-0x1.c614258698941p-2)%float; (-0x1.48ea0647f23e8p-1)%float; (-0x1.2020c950e25eep+1)%float; 0x1.6227696f6a973p-5%float];
    [(-0x1.dc55828bdb8d8p-47)%float; 0x0.0p+0%float; 0x1.14eb0d110ce91p+1%float; (-0x1.507060b093467p-4)%float; 0x1.37d8c289823cfp+2%float; (-0x1.5bbebcf2a2c3dp+1)%float];
    [0x1.51261de1ba83ap-44%float; (-0x1.c580000000000p-88)%float; 0x0.0p+0%float; 0x1.0000000000000p+0%float; 0x1.7fe889eaebee8p+0%float; (-0x1.bf6f038b1b06ep-4)%float];
    [0x1.9595a124c4f88p-2%float; (-0x1.1eb88a0bfd6c5p-57)%float; (-0x1.8b70c08005440p-49)%float; 0x0.0p+0%float; (-0x1.7b10ac66721dbp+0)%float; 0x1.cf962a96a35cep-4%float];
    [0x1.449b02e8cad42p-1%float; (-0x1.f18c5af27900cp-1)%float; 0x1.a0fa42ae78448p-50%float; 0x1.7400000000000p-98%float; 0x0.0p+0%float; 0x1.0000000000000p+0%float]]
   [[(-0x1.45299bf0e9264p-3)%float; (-0x1.adb959ba696dep-1)%float; 0x1.d918fe9417150p-1%float; 0x1.6a1e27f2fbde8p-4%float; 0x1.51f7525daa216p+1%float; (-0x1.9378fc49ebf22p-1)%float];
    [(-0x1.64058b0526c27p-3)%float; 0x1.349f4abbe57c6p-2%float; (-0x1.8f44dd6ed32a9p+0)%float; (-0x1.79affaad400cep-1)%float; (-0x1.275f6cce02027p+2)%float; 0x1.b7548cdf9cd11p+0%float];
    [0x1.51545baeaba92p-1%float; (-0x1.c397540fccf3cp-3)%float; (-0x1.dd66fa80a1530p-3)%float; (-0x1.e0fdac236d770p-5)%float; (-0x1.008eb59eedc59p-3)%float; 0x1.f697955177c84p-2%float];
    [0x1.789a2209a54d5p-3%float; 0x1.12a30d88e7e6ap-2%float; (-0x1.93e8c2508df09p-1)%float; (-0x1.4035239dd45c3p-1)%float; (-0x1.23715b11d1136p+0)%float; 0x1.1d8acdb7a3098p-2%float];
    [0x1.80ff150ab447dp-4%float; (-0x1.24a3cef18a4a0p-2)%float; (-0x1.ea4a038c9bfc8p+0)%float; 0x1.aefe7dc8b8259p-1%float; (-0x1.9fe5e56a7b269p+1)%float; 0x1.4492db35bb79cp+1%float];
    [(-0x1.448bc7d6df959p-1)%float; 0x1.f8b9004da5e00p-5%float; 0x1.82c3a9c695fd8p+0%float; 0x1.2e8d69853242cp-2%float; 0x1.aae3bd0612253p+1%float; (-0x1.a98065ccae378p-1)%float]] true = true.
Proof. vm_compute. reflexivity. Qed.
(* ovf4: e = +0 +0 +0 +0; branches taken: {'ovf': 2} *)
Example corr_hqr2_vectors_ovf4 : corr_hqr2_vectors 0x1.a1d4835d0ca9bp+30%float
   [[0x1.0000000000000p+0%float; (-0x1.da4b237ff132cp-1)%float; 0x1.3e01480c9346bp+18%float; 0x1.bbf3ccc6f2378p+29%float];
    [0x0.0p+0%float; 0x1.004189374bc6ap+0%float; (-0x1.71e5ed3ad81dcp-2)%float; (-0x1.d183aa82db4c8p-2)%float];
    [0x0.0p+0%float; 0x0.0p+0%float; 0x1.8000000000000p+1%float; 0x1.878d798c337d7p+29%float];
    [0x0.0p+0%float; 0x0.0p+0%float; 0x0.0p+0%float; 0x1.0000000ce288fp+0%float]]
   [[0x1.0000000000000p+0%float; 0x0.0p+0%float; 0x0.0p+0%float; 0x0.0p+0%float];
    [0x0.0p+0%float; 0x1.0000000000000p+0%float; 0x0.0p+0%float; 0x0.0p+0%float];
    [0x0.0p+0%float; 0x0.0p+0%float; 0x1.0000000000000p+0%float; 0x0.0p+0%float];
    [0x0.0p+0%float; 0x0.0p+0%float; 0x0.0p+0%float; 0x1.0000000000000p+0%float]]
   [0x1.0000000000000p+0%float; 0x1.004189374bc6ap+0%float; 0x1.8000000000000p+1%float; 0x1.0000000ce288fp+0%float]
   [0x0.0p+0%float; 0x0.0p+0%float; 0x0.0p+0%float; 0x0.0p+0%float]
   [[0x1.0000000000000p+0%float; (-0x1.cf2d60aaf1c3ap+9)%float; 0x1.3e0152c33380bp+17%float; (-0x1.0000000000000p+0)%float];
    [0x0.0p+0%float; 0x1.0000000000000p+0%float; (-0x1.72154c1daccf8p-3)%float; (-0x1.d4d8918a5fbecp-39)%float];
    [0x0.0p+0%float; 0x0.0p+0%float; 0x1.0000000000000p+0%float; (-0x1.4c443dea70d6ep-47)%float];
    [0x0.0p+0%float; 0x0.0p+0%float; 0x0.0p+0%float; 0x1.b27a06b92df06p-76%float]]
   [[0x1.0000000000000p+0%float; (-0x1.cf2d60aaf1c3ap+9)%float; 0x1.3e0152c33380bp+17%float; (-0x1.0000000000000p+0)%float];
    [0x0.0p+0%float; 0x1.0000000000000p+0%float; (-0x1.72154c1daccf8p-3)%float; (-0x1.d4d8918a5fbecp-39)%float];
    [0x0.0p+0%float; 0x0.0p+0%float; 0x1.0000000000000p+0%float; (-0x1.4c443dea70d6ep-47)%float];
    [0x0.0p+0%float; 0x0.0p+0%float; 0x0.0p+0%float; 0x1.b27a06b92df06p-76%float]] true = true.
Proof. vm_compute. reflexivity. Qed.
(* covf5: e = +0 +0 +1.22 -1.22 +0; branches taken: {'blk_x': 1, 'ovf': 1, 'covf': 1} *)
Example corr_hqr2_vectors_covf5 : corr_hqr2_vectors 0x1.361fbddc37d12p+19%float
   [[0x1.122eb20aeade8p-1%float; (-0x1.531a50faa722ap+17)%float; 0x1.c6fd57b121c1ap+0%float; (-0x1.038136e5aadb0p+0)%float; (-0x1.8d57cefbaa748p+0)%float];
    [0x0.0p+0%float; 0x1.e4efac0bf3d08p-1%float; 0x1.5efa4af9b8ee5p+17%float; (-0x1.424a0e6f9d7e5p+17)%float; 0x1.0eddec4990c20p-1%float];
    [0x0.0p+0%float; 0x0.0p+0%float; 0x1.72939b86068a0p-2%float; 0x1.01e6446b264c9p+1%float; (-0x1.99b9d1ef0533ep+0)%float];
    [0x0.0p+0%float; 0x0.0p+0%float; (-0x1.94b8b2383c822p-1)%float; 0x1.fe78adbd329c8p-1%float; 0x1.c832ead58c31cp+16%float];
    [0x0.0p+0%float; 0x0.0p+0%float; 0x0.0p+0%float; 0x0.0p+0%float; 0x1.90abc2d5034eep+0%float]]
   [[0x1.0000000000000p+0%float; 0x0.0p+0%float; 0x0.0p+0%float; 0x0.0p+0%float; 0x0.0p+0%float];
    [0x0.0p+0%float; 0x1.0000000000000p+0%float; 0x0.0p+0%float; 0x0.0p+0%float; 0x0.0p+0%float];
    [0x0.0p+0%float; 0x0.0p+0%float; 0x1.0000000000000p+0%float; 0x0.0p+0%float; 0x0.0p+0%float];
    [0x0.0p+0%float; 0x0.0p+0%float; 0x0.0p+0%float; 0x1.0000000000000p+0%float; 0x0.0p+0%float];
    [0x0.0p+0%float; 0x0.0p+0%float; 0x0.0p+0%float; 0x0.0p+0%float; 0x1.0000000000000p+0%float]]
   [0x1.122eb20aeade8p-1%float; 0x1.e4efac0bf3d08p-1%float; 0x1.5be13dc01af0cp-1%float; 0x1.5be13dc01af0cp-1%float; 0x1.90abc2d5034eep+0%float]
   [0x0.0p+0%float; 0x0.0p+0%float; 0x1.38adf20cf55fdp+0%float; (-0x1.38adf20cf55fdp+0)%float; 0x0.0p+0%float]
   [[0x1.0000000000000p+0%float; (-0x1.9be765652486ap+18)%float; 0x1.0000000000000p+0%float; (-0x1.ca95aa154bcc7p-2)%float; (-0x1.4959eb6d5bc04p+17)%float];
    [0x0.0p+0%float; 0x1.0000000000000p+0%float; (-0x1.0b0fed971d073p-18)%float; (-0x1.bf302c665c9e3p-18)%float; 0x1.0000000000000p+0%float];
    [0x0.0p+0%float; 0x0.0p+0%float; 0x1.c2890ac9aa0e2p-35%float; 0x1.d48d37037c613p-37%float; 0x1.ff029797a0852p-18%float];
    [0x0.0p+0%float; 0x0.0p+0%float; 0x0.0p+0%float; 0x1.23942249fbbe0p-35%float; 0x1.312bc060d0d95p-18%float];
    [0x0.0p+0%float; 0x0.0p+0%float; 0x0.0p+0%float; 0x0.0p+0%float; 0x1.43f634a7c81ccp-34%float]]
   [[0x1.0000000000000p+0%float; (-0x1.9be765652486ap+18)%float; 0x1.0000000000000p+0%float; (-0x1.ca95aa154bcc7p-2)%float; (-0x1.4959eb6d5bc04p+17)%float];
    [0x0.0p+0%float; 0x1.0000000000000p+0%float; (-0x1.0b0fed971d073p-18)%float; (-0x1.bf302c665c9e3p-18)%float; 0x1.0000000000000p+0%float];
    [0x0.0p+0%float; 0x0.0p+0%float; 0x1.c2890ac9aa0e2p-35%float; 0x1.d48d37037c613p-37%float; 0x1.ff029797a0852p-18%float];
    [0x0.0p+0%float; 0x0.0p+0%float; 0x0.0p+0%float; 0x1.23942249fbbe0p-35%float; 0x1.312bc060d0d95p-18%float];
    [0x0.0p+0%float; 0x0.0p+0%float; 0x0.0p+0%float; 0x0.0p+0%float; 0x1.43f634a7c81ccp-34%float]] true = true.
Proof. vm_compute. reflexivity. Qed.
(* perturb3: e = +0 +0 +0; branches taken: {'perturb': 1, 'ovf': 1} *)
Example corr_hqr2_vectors_perturb3 : corr_hqr2_vectors 0x1.4c27831c4c0d0p+2%float
   [[0x1.0000000000000p+0%float; 0x1.c287c271f1158p-2%float; (-0x0.0p+0)%float];
    [0x0.0p+0%float; 0x1.0000000000000p+0%float; (-0x1.0000000000000p+1)%float];
    [0x0.0p+0%float; 0x0.0p+0%float; 0x1.7ff837a967dd0p-1%float]]
   [[0x0.0p+0%float; 0x1.0000000000000p+0%float; 0x0.0p+0%float];
    [(-0x1.0000000000000p+0)%float; 0x0.0p+0%float; 0x0.0p+0%float];
    [0x0.0p+0%float; 0x0.0p+0%float; 0x1.0000000000000p+0%float]]
   [0x1.0000000000000p+0%float; 0x1.0000000000000p+0%float; 0x1.7ff837a967dd0p-1%float]
   [0x0.0p+0%float; 0x0.0p+0%float; 0x0.0p+0%float]
   [[0x1.0000000000000p+0%float; (-0x1.0000000000000p+0)%float; (-0x1.c250fe4d8ece5p+3)%float];
    [0x0.0p+0%float; 0x1.797915fddad14p-49%float; 0x1.ffe0e08a0e1dap+2%float];
    [0x0.0p+0%float; 0x0.0p+0%float; 0x1.0000000000000p+0%float]]
   [[0x0.0p+0%float; 0x1.797915fddad14p-49%float; 0x1.ffe0e08a0e1dap+2%float];
    [(-0x1.0000000000000p+0)%float; 0x1.0000000000000p+0%float; 0x1.c250fe4d8ece5p+3%float];
    [0x0.0p+0%float; 0x0.0p+0%float; 0x1.0000000000000p+0%float]] false = true.
Proof. vm_compute. reflexivity. Qed.
(* zero3: e = +0 +0 +0; branches taken: {} *)
Example corr_hqr2_vectors_zero3 : corr_hqr2_vectors 0x0.0p+0%float
   [[0x0.0p+0%float; 0x0.0p+0%float; 0x0.0p+0%float];
    [0x0.0p+0%float; 0x0.0p+0%float; 0x0.0p+0%float];
    [0x0.0p+0%float; 0x0.0p+0%float; 0x0.0p+0%float]]
   [[0x1.0000000000000p+0%float; 0x0.0p+0%float; 0x0.0p+0%float];
    [0x0.0p+0%float; 0x1.0000000000000p+0%float; 0x0.0p+0%float];
    [0x0.0p+0%float; 0x0.0p+0%float; 0x1.0000000000000p+0%float]]
   [0x0.0p+0%float; 0x0.0p+0%float; 0x0.0p+0%float]
   [0x0.0p+0%float; 0x0.0p+0%float; 0x0.0p+0%float]
   [[0x0.0p+0%float; 0x0.0p+0%float; 0x0.0p+0%float];
    [0x0.0p+0%float; 0x0.0p+0%float; 0x0.0p+0%float];
    [0x0.0p+0%float; 0x0.0p+0%float; 0x0.0p+0%float]]
   [[0x1.0000000000000p+0%float; 0x0.0p+0%float; 0x0.0p+0%float];
    [0x0.0p+0%float; 0x1.0000000000000p+0%float; 0x0.0p+0%float];
    [0x0.0p+0%float; 0x0.0p+0%float; 0x1.0000000000000p+0%float]] true = true.
Proof. vm_compute. reflexivity. Qed.
(* n1: e = +0; branches taken: {} *)
Example corr_hqr2_vectors_n1 : corr_hqr2_vectors 0x1.4000000000000p+1%float
   [[0x1.4000000000000p+1%float]]
   [[0x1.0000000000000p+0%float]]
   [0x1.4000000000000p+1%float]
   [0x0.0p+0%float]
   [[0x1.0000000000000p+0%float]]
   [[0x1.0000000000000p+0%float]] true = true.
Proof. vm_compute. reflexivity. Qed.
