(* C02 — hqr2, first half, over R: matrices orthogonal on both sides; the indicator J of the active
   block (diagonal entries 0..=nn carry the accumulated exceptional shift t) and the transformations
   that commute with it. *)
From Coq Require Import List Arith Bool Lia Reals Lra Psatz Setoid Morphisms.
From SC Require Import Base.Num C02.FunMat C02.ProofsHouse C02.ProofsHqr2SweepAlg.
Local Open Scope R_scope.

Lemma mid_sym i j : mid i j = mid j i.
Proof. unfold mid. rewrite Nat.eqb_sym. reflexivity. Qed.

(* orthogonal on both sides *)
Definition orth2 (n : nat) (G : mat) : Prop := morth n G /\ meq n (mmul n G (mtr G)) mid.

Lemma orth2_mid n : orth2 n mid.
Proof.
  split; unfold morth.
  - rewrite (mmul_id_r n (mtr mid)). intros i j _ _. unfold mtr. apply mid_sym.
  - rewrite (mmul_id_l n (mtr mid)). intros i j _ _. unfold mtr. apply mid_sym.
Qed.
Lemma orth2_invol n P : (forall i j, P i j = P j i) -> meq n (mmul n P P) mid -> orth2 n P.
Proof.
  intros Hs HPP. split; [apply invol_orth; assumption|].
  intros i j Hi Hj. rewrite <- (HPP i j Hi Hj). unfold mmul, mtr. apply rsum_ext. intros k _.
  rewrite (Hs j k). reflexivity.
Qed.
Lemma orth2_mul n G P : orth2 n G -> orth2 n P -> orth2 n (mmul n G P).
Proof.
  intros [HG1 HG2] [HP1 HP2]. split; [apply morth_mul; assumption|].
  assert (H1 : meq n (mtr (mmul n G P)) (mmul n (mtr P) (mtr G))) by (intros i j _ _; apply mtr_mmul).
  rewrite H1. rewrite (mmul_assoc_meq n G P (mmul n (mtr P) (mtr G))).
  rewrite <- (mmul_assoc_meq n P (mtr P) (mtr G)). rewrite HP2. rewrite (mmul_id_l n (mtr G)). exact HG2.
Qed.

(* the indicator of the active block, J = diag(1 (i <= nn), 0) *)
Definition Jm (nn : nat) : mat := fun i j => if (i =? j) && (i <=? nn)%nat then 1 else 0.
Lemma mmul_J_r n nn X i j : (j < n)%nat -> mmul n X (Jm nn) i j = X i j * (if (j <=? nn)%nat then 1 else 0).
Proof.
  intros Hj. unfold mmul. rewrite (rsum_single n j).
  - unfold Jm. rewrite Nat.eqb_refl. reflexivity.
  - exact Hj.
  - intros k Hk Hkj. unfold Jm. apply Nat.eqb_neq in Hkj. rewrite Hkj. cbn [andb]. ring.
Qed.
Lemma mmul_J_l n nn X i j : (i < n)%nat -> mmul n (Jm nn) X i j = (if (i <=? nn)%nat then 1 else 0) * X i j.
Proof.
  intros Hi. unfold mmul. rewrite (rsum_single n i).
  - unfold Jm. rewrite Nat.eqb_refl. reflexivity.
  - exact Hi.
  - intros k Hk Hki. unfold Jm. rewrite Nat.eqb_sym. apply Nat.eqb_neq in Hki. rewrite Hki. cbn [andb]. ring.
Qed.
Definition Jcomm (n nn : nat) (G : mat) : Prop := meq n (mmul n (Jm nn) G) (mmul n G (Jm nn)).
Lemma Jcomm_mid n nn : Jcomm n nn mid.
Proof. unfold Jcomm. rewrite (mmul_id_r n (Jm nn)). rewrite (mmul_id_l n (Jm nn)). reflexivity. Qed.
Lemma Jcomm_mul n nn G P : Jcomm n nn G -> Jcomm n nn P -> Jcomm n nn (mmul n G P).
Proof.
  unfold Jcomm. intros HG HP.
  rewrite <- (mmul_assoc_meq n (Jm nn) G P). rewrite HG.
  rewrite (mmul_assoc_meq n G (Jm nn) P). rewrite HP.
  rewrite <- (mmul_assoc_meq n G P (Jm nn)). reflexivity.
Qed.
Lemma Jcomm_hous n nn k x y z q r : (S (S k) <= nn)%nat \/ ((S k <= nn)%nat /\ z = 0 /\ r = 0) ->
  Jcomm n nn (hous (uu k x y z) (vv k q r)).
Proof.
  intros H i j Hi Hj. rewrite mmul_J_l, mmul_J_r by assumption.
  unfold hous, mid, uu, vv, vec3.
  destruct H as [H|(H & -> & ->)]; cmp; ring.
Qed.

