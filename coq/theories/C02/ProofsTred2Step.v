(* C02 — tred2 over the reals: one step of the reduction (`t2_step`, the body of `for i in (1..n).rev()`)
   is the similarity M -> P M P with a Householder reflector P (or P = I on the `scale == 0` branch). *)
From Coq Require Import List Arith Bool Lia Reals Lra Psatz Setoid Morphisms.
From SC Require Import Base.Num C02.FunMat C02.ModelTred2 C02.ProofsHouse C02.ProofsTred2Loops.
Local Open Scope R_scope.

(* The symmetric matrix the state (V, d, e) represents when row i is about to be processed:
   rows <= i are still dense and live in the lower triangle of V; rows > i are already tridiagonal,
   with the diagonal on the diagonal of V and the sub-diagonal in e. *)
Definition cur (j : nat) (V : nat -> nat -> R) (e : nat -> R) : mat :=
  fun r c => let a := Nat.max r c in let b := Nat.min r c in
             if a <=? j then V a b else if b =? a then V a a else if S b =? a then e a else 0.

Lemma cur_sym j V e r c : cur j V e r c = cur j V e c r.
Proof. unfold cur. rewrite (Nat.max_comm c r), (Nat.min_comm c r). reflexivity. Qed.
Lemma cur_lower j V e r c : (c <= r)%nat ->
  cur j V e r c = if r <=? j then V r c else if c =? r then V r r else if S c =? r then e r else 0.
Proof. intros H. unfold cur. rewrite Nat.max_l, Nat.min_r by lia. reflexivity. Qed.
Lemma cur_msym n j V e : msym n (cur j V e).
Proof. intros r c _ _. apply cur_sym. Qed.

Lemma meq_lower_sym n (X Y : mat) :
  (forall r c, X r c = X c r) -> (forall r c, Y r c = Y c r) ->
  (forall r c, (c <= r)%nat -> (r < n)%nat -> X r c = Y r c) -> meq n X Y.
Proof.
  intros HX HY H r c Hr Hc. destruct (Nat.le_ge_cases c r) as [Hle|Hle].
  - apply H; assumption.
  - rewrite HX, HY. apply H; assumption.
Qed.

Lemma rsum_last i F : (1 <= i)%nat -> rsum i F = rsum (i - 1) F + F (i - 1)%nat.
Proof. intros H. destruct i as [|i]; [lia|]. cbn [rsum]. replace (S i - 1)%nat with i by lia. reflexivity. Qed.

(* ---------- the Householder vector ---------- *)
Lemma house_vec i (y : nat -> R) : (1 <= i)%nat ->
  let h0 := rsum i (fun k => y k * y k) in
  let f := y (i - 1)%nat in
  let g := if Rltb 0 f then - sqrt h0 else sqrt h0 in
  let H := h0 - f * g in
  let u := fun k => if k <? i then (if k =? i - 1 then f - g else y k) else 0 in
  0 < h0 ->
  0 < H /\ rsum i (fun k => u k * u k) = 2 * H /\ rsum i (fun k => y k * u k) = H.
Proof.
  intros Hi h0 f g H u Hpos.
  assert (Eh0 : h0 = rsum (i - 1) (fun k => y k * y k) + f * f).
  { unfold h0. rewrite rsum_last by exact Hi. reflexivity. }
  assert (Euu : rsum i (fun k => u k * u k) = rsum (i - 1) (fun k => y k * y k) + (f - g) * (f - g)).
  { rewrite rsum_last by exact Hi. f_equal.
    - apply rsum_ext. intros k Hk. unfold u. bool_lia.
    - unfold u. bool_lia. }
  assert (Eyu : rsum i (fun k => y k * u k) = rsum (i - 1) (fun k => y k * y k) + f * (f - g)).
  { rewrite rsum_last by exact Hi. f_equal.
    - apply rsum_ext. intros k Hk. unfold u. bool_lia.
    - unfold u. bool_lia. }
  pose proof (sqrt_sqrt h0 (Rlt_le _ _ Hpos)) as Hss. pose proof (sqrt_lt_R0 h0 Hpos) as Hsp.
  assert (Egg : g * g = h0).
  { unfold g. destruct (Rltb 0 f); [|exact Hss]. rewrite <- Hss at 3. ring. }
  assert (HH : 0 < H).
  { unfold H, g. destruct (Rltb 0 f) eqn:Ef.
    - apply Rltb_true in Ef. nra.
    - apply Rltb_false in Ef. nra. }
  split; [exact HH|]. split.
  - rewrite Euu. unfold H. rewrite Eh0 in Egg |- *. lra.
  - rewrite Eyu. unfold H. rewrite Eh0. ring.
Qed.

(* ---------- the similarity transformation (rank-two update on the lower triangle) ---------- *)
Lemma t2_similarity_spec i h (V : nat -> nat -> R) (d e : nat -> R) :
  (forall k, (k < i)%nat -> e k = 0) ->
  let w := fun m => rsum i (fun k => Lw V m k * d k) in
  let SS := rsum i (fun k => w k / h * d k) in
  let q := fun m => w m / h - SS / (h + h) * d m in
  let '(V', d', e') := t2_similarity ROps i h V d e in
  (forall a b, V' a b = if (b <=? a) && (a <? i) then V a b - (d b * q a + q b * d a)
                        else if (a =? i) && (b <? i) then 0
                        else if (b =? i) && (a <? i) then d a else V a b) /\
  (forall m, d' m = if m <? i then V' (i - 1)%nat m else d m) /\
  (forall m, e' m = if m <? i then q m else e m).
Proof.
  intros He0 w SS q. unfold t2_similarity.
  pose proof (t2_apply_spec i d V e) as Ha. cbv zeta in Ha.
  destruct (t2_apply ROps i d V e) as [V2 e2]. cbn [fst snd] in Ha. destruct Ha as [HV2 He2].
  pose proof (t2_pvec_spec i h d e2) as Hp. cbv zeta in Hp.
  destruct (t2_pvec ROps i h d e2) as [e3 f3]. cbn [fst snd] in Hp. destruct Hp as [He3 Hf3].
  rops.
  pose proof (t2_qvec_spec i (f3 / (h + h)) d e3) as He4.
  set (e4 := t2_qvec ROps i (f3 / (h + h)) d e3) in *.
  pose proof (t2_rank2_spec i e4 V2 d) as Hr. cbv zeta in Hr.
  destruct (t2_rank2 ROps i e4 V2 d) as [V3 d3]. cbn [fst snd] in Hr. destruct Hr as [HV3 Hd3].
  assert (Ee2 : forall m, (m < i)%nat -> e2 m = w m).
  { intros m Hm. rewrite He2. replace (m <? i) with true by (symmetry; apply Nat.ltb_lt; exact Hm).
    rewrite He0 by exact Hm. unfold w. ring. }
  assert (Ef3 : f3 = SS).
  { rewrite Hf3. unfold SS. apply rsum_ext. intros k Hk. rewrite Ee2 by exact Hk. reflexivity. }
  assert (Ee4 : forall m, e4 m = if m <? i then q m else e m).
  { intros m. rewrite He4, He3, He2. destruct (Nat.ltb_spec m i) as [Hm|Hm]; [|reflexivity].
    rewrite He0 by exact Hm. rewrite Ef3. unfold q, w. rewrite Rplus_0_l. reflexivity. }
  assert (EV3 : forall a b, V3 a b = if (b <=? a) && (a <? i) then V a b - (d b * q a + q b * d a)
                        else if (a =? i) && (b <? i) then 0
                        else if (b =? i) && (a <? i) then d a else V a b).
  { intros a b. rewrite HV3, HV2, (Ee4 a), (Ee4 b). bool_lia. }
  split; [exact EV3|]. split.
  - intros m. rewrite Hd3, (HV3 (i - 1)%nat m). reflexivity.
  - exact Ee4.
Qed.

(* ---------- the Householder branch ---------- *)
Lemma t2_house_spec i scale (V : nat -> nat -> R) (d e : nat -> R) : (1 <= i)%nat ->
  let y := fun k => d k / scale in
  let h0 := rsum i (fun k => y k * y k) in
  let f := y (i - 1)%nat in
  let g := if Rltb 0 f then - sqrt h0 else sqrt h0 in
  let H := h0 - f * g in
  let u := fun k => if k <? i then (if k =? i - 1 then f - g else y k) else 0 in
  let w := fun m => rsum i (fun k => Lw V m k * u k) in
  let SS := rsum i (fun k => w k / H * u k) in
  let q := fun m => w m / H - SS / (H + H) * u m in
  let '((V', d', e'), h') := t2_house ROps i scale V d e in
  h' = H /\
  (forall a b, V' a b = if (b <=? a) && (a <? i) then V a b - (u b * q a + q b * u a)
                        else if (a =? i) && (b <? i) then 0
                        else if (b =? i) && (a <? i) then u a else V a b) /\
  (forall m, (m < i)%nat -> d' m = V' (i - 1)%nat m) /\
  (forall m, (i <= m)%nat -> d' m = d m) /\
  (forall m, e' m = if m <? i then q m else if m =? i then scale * g else e m).
Proof.
  intros Hi y h0 f g H u w SS q. unfold t2_house.
  pose proof (t2_normalise_spec i scale d) as Hn. cbv zeta in Hn.
  destruct (t2_normalise ROps i scale d) as [d1 h1]. cbn [fst snd] in Hn. destruct Hn as [Hd1 Hh1].
  rops. cbv zeta.
  assert (Ef : d1 (i - 1)%nat = f).
  { rewrite Hd1. replace (i - 1 <? i) with true by (symmetry; apply Nat.ltb_lt; lia). reflexivity. }
  rewrite Ef. subst h1.
  match goal with |- context [t2_similarity ROps i ?hh V ?dd ?ee] =>
    change hh with H; change dd with (vupd d1 (i - 1)%nat (f - g));
    change ee with (forn 0 i (fun j e0 => vupd e0 j 0) (vupd e i (scale * g))) end.
  set (dU := vupd d1 (i - 1)%nat (f - g)).
  set (e1 := forn 0 i (fun j e0 => vupd e0 j 0) (vupd e i (scale * g))).
  assert (EdU : forall k, dU k = if k <? i then u k else d k).
  { intros k. unfold dU, vupd, u. rewrite Hd1. bool_lia. }
  assert (Ee1 : forall k, e1 k = if k <? i then 0 else if k =? i then scale * g else e k).
  { intros k. unfold e1. rewrite (forn_vmap (fun _ _ => 0) i (vupd e i (scale * g)) k). unfold vupd. bool_lia. }
  pose proof (t2_similarity_spec i H V dU e1) as Hs. cbv zeta in Hs.
  destruct (t2_similarity ROps i H V dU e1) as [[V' d'] e'].
  destruct Hs as (HV' & Hd' & He').
  { intros k Hk. rewrite Ee1. replace (k <? i) with true by (symmetry; apply Nat.ltb_lt; exact Hk). reflexivity. }
  assert (Ew : forall m, rsum i (fun k => Lw V m k * dU k) = w m).
  { intros m. unfold w. apply rsum_ext. intros k Hk. rewrite EdU.
    replace (k <? i) with true by (symmetry; apply Nat.ltb_lt; exact Hk). reflexivity. }
  assert (ES : rsum i (fun k => rsum i (fun k0 => Lw V k k0 * dU k0) / H * dU k) = SS).
  { unfold SS. apply rsum_ext. intros k Hk. rewrite Ew, EdU.
    replace (k <? i) with true by (symmetry; apply Nat.ltb_lt; exact Hk). reflexivity. }
  assert (Eq : forall m, (m < i)%nat ->
     rsum i (fun k => Lw V m k * dU k) / H
       - rsum i (fun k => rsum i (fun k0 => Lw V k k0 * dU k0) / H * dU k) / (H + H) * dU m = q m).
  { intros m Hm. rewrite Ew, ES, EdU. replace (m <? i) with true by (symmetry; apply Nat.ltb_lt; exact Hm).
    reflexivity. }
  cbv beta iota. split; [reflexivity|]. split; [|split; [|split]].
  - intros a b. rewrite HV'.
    destruct (Nat.leb_spec b a) as [Hba|Hba]; destruct (Nat.ltb_spec a i) as [Hai|Hai]; cbn [andb].
    + rewrite (Eq a) by lia. rewrite (Eq b) by lia. rewrite (EdU a), (EdU b).
      replace (a <? i) with true by (symmetry; apply Nat.ltb_lt; lia).
      replace (b <? i) with true by (symmetry; apply Nat.ltb_lt; lia). reflexivity.
    + rewrite (EdU a). bool_lia.
    + rewrite (EdU a). bool_lia.
    + rewrite (EdU a). bool_lia.
  - intros m Hm. rewrite Hd'. replace (m <? i) with true by (symmetry; apply Nat.ltb_lt; exact Hm). reflexivity.
  - intros m Hm. rewrite Hd'. replace (m <? i) with false by (symmetry; apply Nat.ltb_ge; exact Hm).
    rewrite EdU. replace (m <? i) with false by (symmetry; apply Nat.ltb_ge; exact Hm). reflexivity.
  - intros m. rewrite He'. destruct (Nat.ltb_spec m i) as [Hm|Hm].
    + apply Eq. exact Hm.
    + rewrite Ee1. replace (m <? i) with false by (symmetry; apply Nat.ltb_ge; exact Hm). reflexivity.
Qed.

(* the quantities of one Householder step as functions of the state before it *)
Section HouseQuantities.
  Variables (i : nat) (scale : R) (V : nat -> nat -> R) (d : nat -> R).
  Definition hv_y (k : nat) : R := d k / scale.
  Definition hv_h0 : R := rsum i (fun k => hv_y k * hv_y k).
  Definition hv_f : R := hv_y (i - 1)%nat.
  Definition hv_g : R := if Rltb 0 hv_f then - sqrt hv_h0 else sqrt hv_h0.
  Definition hv_H : R := hv_h0 - hv_f * hv_g.
  Definition hv_u (k : nat) : R := if k <? i then (if k =? i - 1 then hv_f - hv_g else hv_y k) else 0.
  Definition hv_w (m : nat) : R := rsum i (fun k => Lw V m k * hv_u k).
  Definition hv_SS : R := rsum i (fun k => hv_w k / hv_H * hv_u k).
  Definition hv_q (m : nat) : R := hv_w m / hv_H - hv_SS / (hv_H + hv_H) * hv_u m.
End HouseQuantities.

Lemma house_vec' i scale d : (1 <= i)%nat -> 0 < hv_h0 i scale d ->
  0 < hv_H i scale d /\
  rsum i (fun k => hv_u i scale d k * hv_u i scale d k) = 2 * hv_H i scale d /\
  rsum i (fun k => hv_y scale d k * hv_u i scale d k) = hv_H i scale d.
Proof. intros Hi. exact (house_vec i (hv_y scale d) Hi). Qed.

Lemma t2_house_spec' i scale (V : nat -> nat -> R) (d e : nat -> R) : (1 <= i)%nat ->
  let '((V', d', e'), h') := t2_house ROps i scale V d e in
  h' = hv_H i scale d /\
  (forall a b, V' a b = if (b <=? a) && (a <? i)
                        then V a b - (hv_u i scale d b * hv_q i scale V d a + hv_q i scale V d b * hv_u i scale d a)
                        else if (a =? i) && (b <? i) then 0
                        else if (b =? i) && (a <? i) then hv_u i scale d a else V a b) /\
  (forall m, (m < i)%nat -> d' m = V' (i - 1)%nat m) /\
  (forall m, (i <= m)%nat -> d' m = d m) /\
  (forall m, e' m = if m <? i then hv_q i scale V d m else if m =? i then scale * hv_g i scale d else e m).
Proof. intros Hi. exact (t2_house_spec i scale V d e Hi). Qed.

(* ---------- the step is a similarity ---------- *)
Lemma step_meq n i (V V' : nat -> nat -> R) (e e' u : nat -> R) (H : R) :
  (1 <= i < n)%nat ->
  (forall k, (i <= k)%nat -> u k = 0) ->
  let M := cur i V e in
  let w := fun k => rsum n (fun l => M k l * u l) in
  (forall r c, (c <= r)%nat -> (r < i)%nat ->
     V' r c = V r c - w r * (u c / H) - u r / H * w c + u r / H * (u c / H) * rsum n (fun k => u k * w k)) ->
  (forall c, (c < i)%nat -> (if S c =? i then e' i else 0) = V i c - w i * (u c / H)) ->
  V' i i = V i i ->
  (forall r, (i < r)%nat -> V' r r = V r r /\ e' r = e r) ->
  meq n (cur (i - 1) V' e') (mmul n (refl u H) (mmul n M (refl u H))).
Proof.
  intros Hi Hu M w H1 H2 H3 H4.
  set (Y := fun r c => M r c - w r * (u c / H) - u r / H * w c
                       + u r / H * (u c / H) * rsum n (fun k => u k * w k)).
  apply (meq_trans n _ Y).
  - assert (Hw0 : forall r, (i < r)%nat -> w r = 0).
    { intros r Hr. unfold w. apply rsum_0. intros l Hl.
      destruct (Nat.lt_ge_cases l i) as [Hli|Hli].
      - unfold M. rewrite cur_lower by lia. bool_lia. ring.
      - rewrite Hu by exact Hli. ring. }
    apply meq_lower_sym.
    + intros r c. apply cur_sym.
    + intros r c. unfold Y, M. rewrite (cur_sym i V e c r). ring.
    + intros r c Hcr Hr. unfold Y.
      destruct (Nat.lt_trichotomy r i) as [Hri|[Hri|Hri]].
      * rewrite cur_lower by exact Hcr. replace (r <=? i - 1) with true by (symmetry; apply Nat.leb_le; lia).
        rewrite H1 by assumption. unfold M. rewrite cur_lower by exact Hcr.
        replace (r <=? i) with true by (symmetry; apply Nat.leb_le; lia). reflexivity.
      * subst r. rewrite cur_lower by exact Hcr.
        replace (i <=? i - 1) with false by (symmetry; apply Nat.leb_gt; lia).
        rewrite (Hu i) by lia. unfold M. rewrite (cur_lower i V e i c) by exact Hcr.
        rewrite Nat.leb_refl.
        destruct (Nat.eqb_spec c i) as [->|Hci].
        -- rewrite H3. rewrite (Hu i) by lia. unfold Rdiv. ring.
        -- rewrite H2 by lia. unfold Rdiv. ring.
      * rewrite cur_lower by exact Hcr. replace (r <=? i - 1) with false by (symmetry; apply Nat.leb_gt; lia).
        rewrite (Hw0 r) by exact Hri. rewrite (Hu r) by lia. unfold M. rewrite cur_lower by exact Hcr.
        replace (r <=? i) with false by (symmetry; apply Nat.leb_gt; lia).
        destruct (H4 r Hri) as [-> ->]. unfold Rdiv. ring.
  - apply meq_sym. intros r c Hr Hc. unfold Y, w.
    apply (refl_conj n u H M r c (cur_msym n i V e) Hr Hc).
Qed.

Lemma Rabs_0_inv x : Rabs x = 0 -> x = 0.
Proof. intros H. destruct (Req_dec x 0) as [E|E]; [exact E|]. exfalso. exact (Rabs_no_R0 x E H). Qed.

Lemma t2_step_sim n i (V : nat -> nat -> R) (d e : nat -> R) :
  (1 <= i < n)%nat ->
  (forall b, (b < i)%nat -> d b = V i b) ->
  let '(V', d', e') := t2_step ROps i (V, d, e) in
  exists u H,
    reflok n i u H /\
    meq n (cur (i - 1) V' e') (mmul n (refl u H) (mmul n (cur i V e) (refl u H))) /\
    d' i = H /\ (forall k, (k < i)%nat -> V' k i = u k) /\
    (forall r, (i < r)%nat -> d' r = d r) /\
    (forall r, (i < r)%nat -> e' r = e r) /\
    (forall r c, (i < c \/ i < r \/ (r = i /\ c = i))%nat -> V' r c = V r c) /\
    (forall b, (b < i - 1)%nat -> d' b = V' (i - 1)%nat b) /\
    (forall c, (c < i)%nat -> V' i c = 0).
Proof.
  intros Hi Hrow. unfold t2_step. rewrite t2_scale_spec. rops.
  set (scale := rsum i (fun k => Rabs (d k))).
  destruct (Reqb scale 0) eqn:Esc.
  - (* scale == 0 *)
    apply Reqb_true in Esc.
    assert (Hd0 : forall k, (k < i)%nat -> d k = 0).
    { intros k Hk. apply Rabs_0_inv.
      apply (rsum_nonneg_0 i (fun k => Rabs (d k))); [intros; apply Rabs_pos|exact Esc|exact Hk]. }
    pose proof (t2_skip_spec i V d e) as Hs.
    destruct (t2_skip ROps i V d e) as [[V' d'] e']. destruct Hs as (HV' & Hd' & He').
    exists (fun _ => 0), 0. split; [|split; [|split; [|split; [|split; [|split; [|split; [|split]]]]]]].
    + split; [reflexivity|]. right. reflexivity.
    + apply step_meq; try exact Hi; try reflexivity.
      * intros r c Hcr Hr. rewrite HV'. bool_lia. unfold Rdiv. ring.
      * intros c Hc. rewrite He', Nat.eqb_refl. rewrite (Hd0 (i - 1)%nat) by lia.
        rewrite <- Hrow by exact Hc. rewrite Hd0 by exact Hc. destruct (S c =? i); unfold Rdiv; ring.
      * rewrite HV'. bool_lia.
      * intros r Hr. rewrite HV', He'. bool_lia. split; reflexivity.
    + apply vupd_eq.
    + intros k Hk. rewrite HV'. bool_lia.
    + intros r Hr. rewrite vupd_neq by lia. rewrite Hd'. bool_lia.
    + intros r Hr. rewrite He'. bool_lia.
    + intros r c Hrc. rewrite HV'. bool_lia.
    + intros b Hb. rewrite vupd_neq by lia. rewrite Hd', HV'. bool_lia.
    + intros c Hc. rewrite HV'. bool_lia.
  - (* Householder step *)
    apply Reqb_false in Esc.
    pose proof (t2_house_spec' i scale V d e ltac:(lia)) as Hs.
    destruct (t2_house ROps i scale V d e) as [[[V' d'] e'] h'].
    set (y := hv_y scale d) in *.
    set (h0 := hv_h0 i scale d) in *.
    set (g := hv_g i scale d) in *.
    set (H := hv_H i scale d) in *.
    set (u := hv_u i scale d) in *.
    set (w' := hv_w i scale V d) in *.
    set (q := hv_q i scale V d) in *.
    destruct Hs as (Hh' & HV' & Hd'1 & Hd'2 & He'). subst h'.
    assert (Hh0 : 0 < h0).
    { destruct (Rle_lt_dec h0 0) as [Hle|Hlt]; [exfalso|exact Hlt].
      assert (Hnn : forall k, (k < i)%nat -> 0 <= y k * y k) by (intros; nra).
      pose proof (rsum_nonneg i _ Hnn) as Hge. change (0 <= h0) in Hge.
      assert (Hz : h0 = 0) by lra.
      apply Esc. unfold scale. apply rsum_0. intros k Hk.
      pose proof (rsum_nonneg_0 i _ Hnn Hz k Hk) as Hyk. cbv beta in Hyk.
      assert (Hy0 : y k = 0) by nra.
      replace (d k) with (y k * scale) by (unfold y, hv_y; field; exact Esc).
      rewrite Hy0, Rmult_0_l. apply Rabs_R0. }
    destruct (house_vec' i scale d ltac:(lia) Hh0) as (HH & Huu & Hyu).
    fold H u y in HH, Huu, Hyu.
    assert (Hu0 : forall k, (i <= k)%nat -> u k = 0).
    { intros k Hk. unfold u, hv_u. bool_lia. }
    assert (HHne : H <> 0) by lra.
    exists u, H. split; [|split; [|split; [|split; [|split; [|split; [|split; [|split]]]]]]].
    + split; [exact Hu0|]. left. split; [exact HHne|].
      rewrite (rsum_trunc n i) by (try lia; intros k Hk; rewrite Hu0 by lia; ring). exact Huu.
    + set (M := cur i V e).
      assert (Ew : forall k, (k < i)%nat -> rsum n (fun l => M k l * u l) = w' k).
      { intros k Hk. rewrite (rsum_trunc n i) by (try lia; intros l Hl; rewrite Hu0 by lia; ring).
        unfold w'. apply rsum_ext. intros l Hl. unfold M, cur, Lw.
        replace (Nat.max k l <=? i) with true by (symmetry; apply Nat.leb_le; lia). reflexivity. }
      assert (Ewi : rsum n (fun l => M i l * u l) = scale * H).
      { rewrite (rsum_trunc n i) by (try lia; intros l Hl; rewrite Hu0 by lia; ring).
        rewrite <- Hyu, <- rsum_scal. apply rsum_ext. intros l Hl. unfold M.
        rewrite cur_lower by lia. rewrite Nat.leb_refl. rewrite <- Hrow by exact Hl.
        unfold y, hv_y. field. exact Esc. }
      assert (ET : rsum n (fun k => u k * rsum n (fun l => M k l * u l)) = rsum i (fun k => u k * w' k)).
      { rewrite (rsum_trunc n i) by (try lia; intros k Hk; rewrite Hu0 by lia; ring).
        apply rsum_ext. intros k Hk. rewrite Ew by exact Hk. reflexivity. }
      assert (ESS : hv_SS i scale V d = rsum i (fun k => u k * w' k) / H).
      { unfold hv_SS, Rdiv. fold H u w'. rewrite <- rsum_scal_r. apply rsum_ext. intros k _. ring. }
      apply step_meq; try exact Hi; try exact Hu0; fold M.
      * intros r c Hcr Hr. rewrite HV'.
        replace ((c <=? r) && (r <? i)) with true
          by (symmetry; apply andb_true_iff; split; [apply Nat.leb_le|apply Nat.ltb_lt]; lia).
        rewrite ET, (Ew r), (Ew c) by lia. unfold q, hv_q. rewrite ESS. fold H u w'.
        field. split; [exact HHne|lra].
      * intros c Hc. rewrite Ewi. rewrite He'.
        replace (i <? i) with false by (symmetry; apply Nat.ltb_ge; lia). rewrite Nat.eqb_refl.
        rewrite <- Hrow by exact Hc.
        replace (d c) with (scale * y c) by (unfold y, hv_y; field; exact Esc).
        unfold u, hv_u. replace (c <? i) with true by (symmetry; apply Nat.ltb_lt; exact Hc).
        destruct (Nat.eqb_spec c (i - 1)) as [->|Hci].
        -- replace (S (i - 1) =? i) with true by (symmetry; apply Nat.eqb_eq; lia).
           fold g. unfold hv_f. fold y. field. exact HHne.
        -- replace (S c =? i) with false by (symmetry; apply Nat.eqb_neq; lia).
           fold y. field. exact HHne.
      * rewrite HV'. bool_lia.
      * intros r Hr. rewrite HV', He'. bool_lia. split; reflexivity.
    + apply vupd_eq.
    + intros k Hk. rewrite HV'. bool_lia.
    + intros r Hr. rewrite vupd_neq by lia. apply Hd'2. lia.
    + intros r Hr. rewrite He'. bool_lia.
    + intros r c Hrc. rewrite HV'. bool_lia.
    + intros b Hb. rewrite vupd_neq by lia. apply Hd'1. lia.
    + intros c Hc. rewrite HV'. bool_lia.
Qed.

(* The `scale == 0` branch: row i is already zero left of the diagonal (over R, sum |d_k| = 0 forces
   every d_k = 0), nothing is transformed: the state represents the SAME matrix one row further up,
   e[i] = 0, the stored Householder vector (column i of V above the diagonal) is 0 and the stored
   h = d[i] is 0 — which is what makes the accumulation phase skip this index (`if h != 0`). *)
Lemma t2_step_skip n i (V : nat -> nat -> R) (d e : nat -> R) :
  (1 <= i < n)%nat ->
  (forall b, (b < i)%nat -> d b = V i b) ->
  rsum i (fun k => Rabs (d k)) = 0 ->
  let '(V', d', e') := t2_step ROps i (V, d, e) in
  d' i = 0 /\ e' i = 0 /\
  (forall k, (k < i)%nat -> V' k i = 0 /\ V' i k = 0) /\
  meq n (cur (i - 1) V' e') (cur i V e).
Proof.
  intros Hi Hrow Hsc. unfold t2_step. rewrite t2_scale_spec. rops. rewrite Hsc.
  replace (Reqb 0 0) with true by (symmetry; apply Reqb_true; reflexivity).
  assert (Hd0 : forall k, (k < i)%nat -> d k = 0).
  { intros k Hk. apply Rabs_0_inv.
    apply (rsum_nonneg_0 i (fun k => Rabs (d k))); [intros; apply Rabs_pos|exact Hsc|exact Hk]. }
  pose proof (t2_skip_spec i V d e) as Hs.
  destruct (t2_skip ROps i V d e) as [[V' d'] e']. destruct Hs as (HV' & Hd' & He').
  split; [apply vupd_eq|]. split; [|split].
  - rewrite He', Nat.eqb_refl. apply Hd0. lia.
  - intros k Hk. rewrite !HV'. split; bool_lia.
  - assert (HM : meq n (cur (i - 1) V' e')
               (mmul n (refl (fun _ => 0) 0) (mmul n (cur i V e) (refl (fun _ => 0) 0)))).
    { apply step_meq; try exact Hi; try reflexivity.
      * intros r c Hcr Hr. rewrite HV'. bool_lia. unfold Rdiv. ring.
      * intros c Hc. rewrite He', Nat.eqb_refl. rewrite (Hd0 (i - 1)%nat) by lia.
        rewrite <- Hrow by exact Hc. rewrite Hd0 by exact Hc. destruct (S c =? i); unfold Rdiv; ring.
      * rewrite HV'. bool_lia.
      * intros r Hr. rewrite HV', He'. bool_lia. split; reflexivity. }
    assert (HP : meq n (refl (fun _ => 0) 0) mid).
    { intros r c _ _. unfold refl, Rdiv. ring. }
    rewrite HM, HP. rewrite (mmul_id_r n (cur i V e)). apply mmul_id_l.
Qed.
