(* C02 — `hqr2` (src/linalg/evd.rs): definitions shared by the two halves of the model
   (ModelHqr2Sweep.v: the QR sweeps and deflation; ModelHqr2Vec.v: back-substitution and the final
   product) and by their proofs: the norm the routine starts with, the upper Hessenberg part of the
   working array, and the quasi-triangular (real Schur-like) form the first half leaves.
   Definitions only. *)
From Coq Require Import List Arith Bool Reals.
From SC Require Import Base.Num C02.FunMat.
Local Open Scope R_scope.

(*  for i in 0..n { for j in max(i-1,0)..n { anorm += |A[i][j]| } }  *)
Definition hqr2_anorm {T} (O : Ops T) (n : nat) (A : nat -> nat -> T) : T :=
  forn 0 n (fun i acc =>
    forn (i - 1) (n - (i - 1)) (fun j acc => O.(oadd) acc (O.(oabs) (A i j))) acc) O.(o0).

(* hqr2 never reads the entries of its working array below the sub-diagonal once they are stale
   (they hold elmhes' multipliers on entry, left-over bulge entries later): the matrix it works on is *)
Definition uhess (A : mat) : mat := fun r c => if c + 1 <? r then 0 else A r c.

(* The form the first half of hqr2 leaves, as it records it in (d, e):
   H is upper Hessenberg; a sub-diagonal entry H[i+1][i] may be non-zero only inside a 2x2 block with
   complex eigenvalues, which is flagged by e[i] > 0 (upper row) and e[i+1] = -e[i] < 0 (lower row);
   e[i] = 0 : H[i][i] = d[i] is a real eigenvalue;
   e[i] > 0 : d[i] +- i e[i] are the eigenvalues of the block (trace 2 d[i], determinant d[i]^2+e[i]^2). *)
Definition qtri (n : nat) (H : mat) (d e : nat -> R) : Prop :=
  (forall r c, (r < n)%nat -> (c < n)%nat -> (c + 1 < r)%nat -> H r c = 0) /\
  (forall i, (S i < n)%nat -> ~ (0 < e i) -> H (S i) i = 0) /\
  (forall i, (i < n)%nat -> e i = 0 -> H i i = d i) /\
  (forall i, (i < n)%nat -> 0 < e i ->
     (S i < n)%nat /\ e (S i) = - e i /\ d (S i) = d i /\
     H i i + H (S i) (S i) = 2 * d i /\
     H i i * H (S i) (S i) - H i (S i) * H (S i) i = d i * d i + e i * e i) /\
  (forall i, (i < n)%nat -> e i < 0 -> exists j, i = S j /\ 0 < e j).
