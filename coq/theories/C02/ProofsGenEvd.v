(* C02 — the general clause as a PARTIAL-CORRECTNESS theorem over the reals: composition of
   balance (ProofsBalance.v), elmhes/eltran (ProofsHess.v), the two halves of hqr2, balbak and sort
   (ProofsGenAssembly.v).  The contracts of the two halves of hqr2 enter as the two Props below, which
   ProofsHqr2*.v prove; `evd_gen_partial_correct_from` is the composition. *)
From Coq Require Import List Arith Bool Lia Reals Lra Setoid Morphisms.
From SC Require Import Base.Num C02.Model C02.Validator C02.ProofsSpec C02.FunMat C02.ProofsHouse
  C02.ModelSymEvd C02.ProofsSymEvd C02.ModelHess C02.ProofsHessAlg C02.ProofsHessStep C02.ProofsHess
  C02.ModelHqr2Spec C02.ModelHqr2Sweep C02.ModelHqr2Vec C02.ModelHqr2 C02.ModelGenEvd
  C02.ProofsQtri C02.ProofsBalance C02.ProofsGenAssembly.
Import ListNotations.
Local Open Scope R_scope.

(* first half of hqr2, exact arithmetic, eps = 0 *)
Definition sweeps_contract : Prop :=
  forall n (A0 V0 A V : mat) (d e : nat -> R) (an : R),
    hqr2_sweeps ROps Rcopysign 0 n A0 V0 (fun _ => 0) (fun _ => 0) = Some (A, V, d, e, an) ->
    qtri n (uhess A) d e /\
    exists Q, morth n Q /\ meq n (mmul n Q (mtr Q)) mid /\ meq n V (mmul n V0 Q) /\
              meq n (mmul n (uhess A0) Q) (mmul n Q (uhess A)).

(* second half, any eps: every real eigenvalue gets the image under V of a non-zero solution of
   (H - d I) x = 0 *)
Definition vectors_contract : Prop :=
  forall eps n (an : R) (A V : mat) (d e : nat -> R),
    (1 <= n)%nat -> an <> 0 -> qtri n (uhess A) d e ->
    hqr2_vectors_ok ROps eps n an A V d e = true ->
    forall nn, (nn < n)%nat -> e nn = 0 ->
      exists x : nat -> R,
        x nn <> 0 /\ (forall k, (nn < k)%nat -> x k = 0) /\
        (forall i, (i < n)%nat -> rsum n (fun j => uhess A i j * x j) = d nn * x i) /\
        (forall i, (i < n)%nat ->
           snd (hqr2_vectors ROps eps n an A V d e) i nn = rsum n (fun k => V i k * x k)).

(* ---------- anorm = 0 ---------- *)
Lemma Rabs_0_inv_local x : Rabs x = 0 -> x = 0.
Proof. intros H. destruct (Req_dec x 0) as [E|E]; [exact E|]. exfalso. exact (Rabs_no_R0 x E H). Qed.

Lemma forn_abs_sum_0 (f : nat -> R) : forall len lo acc, 0 <= acc ->
  forn lo len (fun j a => a + Rabs (f j)) acc = 0 ->
  acc = 0 /\ forall j, (lo <= j < lo + len)%nat -> f j = 0.
Proof.
  induction len as [|len IH]; intros lo acc Hacc H; cbn [forn] in H.
  - split; [exact H|]. intros j Hj. lia.
  - pose proof (Rabs_pos (f lo)) as Hp.
    destruct (IH (S lo) (acc + Rabs (f lo)) ltac:(lra) H) as [H0 Hrest].
    split; [lra|]. intros j Hj. destruct (Nat.eq_dec j lo) as [->|Hne].
    + apply Rabs_0_inv_local. lra.
    + apply Hrest. lia.
Qed.

Lemma forn_abs_sum_ge (f : nat -> R) : forall len lo acc,
  acc <= forn lo len (fun j a => a + Rabs (f j)) acc.
Proof.
  induction len as [|len IH]; intros lo acc; cbn [forn]; [lra|].
  pose proof (Rabs_pos (f lo)). eapply Rle_trans; [|apply IH]. lra.
Qed.

Lemma anorm_rows_0 n (A : mat) : forall len lo acc, 0 <= acc ->
  forn lo len (fun i a => forn (i - 1) (n - (i - 1)) (fun j a => a + Rabs (A i j)) a) acc = 0 ->
  acc = 0 /\ forall i j, (lo <= i < lo + len)%nat -> (i - 1 <= j < n)%nat -> A i j = 0.
Proof.
  induction len as [|len IH]; intros lo acc Hacc H; cbn [forn] in H.
  - split; [exact H|]. intros i j Hi. lia.
  - set (r1 := forn (lo - 1) (n - (lo - 1)) (fun j a => a + Rabs (A lo j)) acc) in *.
    assert (Hr1 : acc <= r1) by apply (forn_abs_sum_ge (fun j => A lo j)).
    destruct (IH (S lo) r1 ltac:(lra) H) as [H0 Hrest].
    destruct (forn_abs_sum_0 (fun j => A lo j) _ _ acc Hacc H0) as [Ha Hrow].
    split; [exact Ha|]. intros i j Hi Hj. destruct (Nat.eq_dec i lo) as [->|Hne].
    + apply Hrow. lia.
    + apply Hrest; lia.
Qed.

Lemma anorm_zero_uhess n (A : mat) : hqr2_anorm ROps n A = 0 -> meq n (uhess A) (fun _ _ => 0).
Proof.
  intros H i j Hi Hj. unfold uhess. destruct (Nat.ltb_spec (j + 1) i) as [Hlt|Hge]; [reflexivity|].
  unfold hqr2_anorm in H. cbn [ROps o0 oadd oabs] in H.
  destruct (anorm_rows_0 n A n 0%nat 0 ltac:(lra) H) as [_ Hz]. apply Hz; lia.
Qed.

(* a finite family of reals is all zero or has a non-zero member *)
Lemma classic_exists_nonzero n (f : nat -> R) :
  (exists i, (i < n)%nat /\ f i <> 0) \/ (forall i, (i < n)%nat -> f i = 0).
Proof.
  induction n as [|n IH]; [right; intros; lia|].
  destruct IH as [(i & Hi & Hne)|Hall]; [left; exists i; split; [lia|exact Hne]|].
  destruct (Req_dec (f n) 0) as [E|E].
  - right. intros i Hi. destruct (Nat.eq_dec i n) as [->|]; [exact E|apply Hall; lia].
  - left. exists n. split; [lia|exact E].
Qed.

(* ---------- composition ---------- *)
Section Compose.
  Hypothesis HSW : sweeps_contract.
  Hypothesis HVC : vectors_contract.

  Lemma evd_gen_partial_correct_from (t095 : R) (sweeps fuel : nat) (A : list (list R)) V d e :
    let n := length A in
    square n A ->
    evd_gen_model ROps Rcopysign t095 0 sweeps fuel A = Some (V, d, e, true) ->
    evd_gen_ok 0 0 0 A V d e.
  Proof.
    intros n HA Hrun. unfold evd_gen_model in Hrun. fold n in Hrun.
    destruct (balance ROps t095 sweeps fuel A) as [[B s]|] eqn:Eb; [|discriminate].
    pose proof (balance_similar t095 sweeps fuel A B s HA Eb) as Hsim. fold n in Hsim.
    cbn [ROps o0] in Hrun.
    set (Bf := mfun 0 B) in *.
    set (A1 := fst (elmhes ROps n Bf)) in *. set (perm := snd (elmhes ROps n Bf)) in *.
    set (Z := eltran ROps n A1 perm (eye ROps)) in *.
    unfold hqr2_model in Hrun.
    destruct (hqr2_sweeps ROps Rcopysign 0 n A1 Z (fun _ => 0) (fun _ => 0))
      as [[[[[A2 V2] d2] e2] an]|] eqn:Es; [|discriminate].
    assert (Hn : (1 <= n)%nat).
    { destruct n as [|n']; [|lia]. unfold hqr2_sweeps in Es. cbn [Nat.eqb] in Es. discriminate. }
    set (r := hqr2_vectors_full ROps 0 n an A2 V2 d2 e2) in *.
    destruct (evd_sort ROps (vlist n d2) (vlist n e2)
                (transpose_rows 0 n (balbak ROps (mrows n (snd (fst r))) s))) as [[d' e'] C] eqn:Esort.
    injection Hrun as <- <- <- Hok.
    (* elmhes / eltran *)
    pose proof (hess_similarity n Bf Hn) as HZ. cbv zeta in HZ. fold A1 perm Z in HZ.
    change (hess A1) with (uhess A1) in HZ.
    destruct (hess_Z_invertible n Bf Hn) as (W0 & HZW0 & HW0Z). fold A1 perm Z in HZW0, HW0Z.
    (* sweeps *)
    destruct (HSW n A1 Z A2 V2 d2 e2 an Es) as (HQT & Q & HQo & HQQt & HV2 & HQs). unfold morth in HQo.
    set (H2 := uhess A2) in *.
    assert (HBV : meq n (mmul n Bf V2) (mmul n V2 H2)).
    { rewrite HV2. rewrite <- (mmul_assoc_meq n Bf Z Q). rewrite HZ.
      rewrite (mmul_assoc_meq n Z (uhess A1) Q). rewrite HQs. rewrite <- (mmul_assoc_meq n Z Q H2). reflexivity. }
    set (W2 := mmul n (mtr Q) W0).
    assert (HW2V : meq n (mmul n W2 V2) mid).
    { unfold W2. rewrite HV2. rewrite (mmul_assoc_meq n (mtr Q) W0 (mmul n Z Q)).
      rewrite <- (mmul_assoc_meq n W0 Z Q). rewrite HW0Z. rewrite (mmul_id_l n Q). exact HQo. }
    assert (HVW2 : meq n (mmul n V2 W2) mid).
    { unfold W2. rewrite HV2. rewrite (mmul_assoc_meq n Z Q (mmul n (mtr Q) W0)).
      rewrite <- (mmul_assoc_meq n Q (mtr Q) W0). rewrite HQQt. rewrite (mmul_id_l n W0). exact HZW0. }
    apply (gen_clause_assembly A B s H2 V2 W2 (snd (fst r)) d2 e2 d' e' C Hsim HQT HBV HW2V HVW2); [|exact Esort].
    (* real eigenvalues *)
    intros j Hj He0.
    assert (Hx : exists x : nat -> R, x j <> 0 /\ (forall k, (j < k)%nat -> x k = 0) /\
               (forall i, (i < n)%nat -> rsum n (fun k => H2 i k * x k) = d2 j * x i) /\
               (forall i, (i < n)%nat -> snd (fst r) i j = rsum n (fun k => V2 i k * x k))).
    { destruct (Req_dec an 0) as [Han|Han].
      - (* anorm = 0: the matrix is zero, nothing is done, x = e_j *)
        assert (Ean : an = hqr2_anorm ROps n A1).
        { unfold hqr2_sweeps in Es. destruct (n =? 0); [discriminate|].
          destruct (outer_loop _ _ _ _ _ _ _); [|discriminate]. injection Es as _ _ _ _ <-. reflexivity. }
        assert (HH1 : meq n (uhess A1) (fun _ _ => 0)) by (apply anorm_zero_uhess; rewrite <- Ean; exact Han).
        assert (HH2 : meq n H2 (fun _ _ => 0)).
        { (* H2 = Q^T (uhess A1) Q *)
          assert (E : meq n H2 (mmul n (mtr Q) (mmul n (uhess A1) Q))).
          { rewrite HQs. rewrite <- (mmul_assoc_meq n (mtr Q) Q H2). rewrite HQo. rewrite (mmul_id_l n H2). reflexivity. }
          rewrite E. rewrite HH1. intros a b Ha Hb. unfold mmul.
          apply rsum_0. intros k Hk. rewrite (rsum_0 n) by (intros; ring). ring. }
        exists (fun k => if k =? j then 1 else 0). split; [rewrite Nat.eqb_refl; lra|]. split.
        + intros k Hk. replace (k =? j) with false by (symmetry; apply Nat.eqb_neq; lia). reflexivity.
        + split.
          * intros i Hi. rewrite (rsum_0 n) by (intros k Hk; rewrite (HH2 i k Hi Hk); ring).
            destruct HQT as (_ & _ & Hreal & _). rewrite <- (Hreal j Hj He0). rewrite (HH2 j j Hj Hj). ring.
          * intros i Hi. subst r. unfold hqr2_vectors_full, hqr2_vectors_from. cbn [ROps oeqb o0].
            replace (Reqb an 0) with true by (symmetry; apply Reqb_true; exact Han). cbn [negb fst snd].
            symmetry. apply (rsum_delta_r n j (fun k => V2 i k)). exact Hj.
      - apply (HVC 0 n an A2 V2 d2 e2 Hn Han HQT); [|exact Hj|exact He0].
        unfold hqr2_vectors_ok. fold r. exact Hok. }
    destruct Hx as (x & Hxj & Hx0 & HHx & HVx). split.
    - intros i Hi.
      (* Bf (V2 x) = V2 (H2 x) = d (V2 x) *)
      rewrite (rsum_ext n _ (fun k => Bf i k * rsum n (fun l => V2 k l * x l)))
        by (intros k Hk; rewrite (HVx k Hk); reflexivity).
      rewrite (rsum_ext n _ (fun k => rsum n (fun l => Bf i k * V2 k l * x l)))
        by (intros k Hk; rewrite <- rsum_scal; apply rsum_ext; intros; ring).
      rewrite rsum_swap.
      rewrite (rsum_ext n _ (fun l => mmul n Bf V2 i l * x l))
        by (intros l Hl; unfold mmul; rewrite <- rsum_scal_r; reflexivity).
      rewrite (rsum_ext n _ (fun l => mmul n V2 H2 i l * x l))
        by (intros l Hl; rewrite (HBV i l Hi Hl); reflexivity).
      unfold mmul.
      rewrite (rsum_ext n _ (fun l => rsum n (fun k => V2 i k * H2 k l * x l)))
        by (intros l Hl; rewrite <- rsum_scal_r; reflexivity).
      rewrite rsum_swap.
      rewrite (rsum_ext n _ (fun k => V2 i k * (d2 j * x k))).
      + rewrite (HVx i Hi). rewrite <- rsum_scal. apply rsum_ext. intros; ring.
      + intros k Hk. rewrite <- (HHx k Hk). rewrite <- rsum_scal. apply rsum_ext. intros; ring.
    - (* V2 x <> 0 because W2 V2 = I and x <> 0 *)
      destruct (classic_exists_nonzero n (fun i => snd (fst r) i j)) as [Hex|Hall]; [exact Hex|].
      exfalso. apply Hxj.
      assert (E : x j = rsum n (fun i => W2 j i * rsum n (fun k => V2 i k * x k))).
      { rewrite (rsum_ext n _ (fun i => rsum n (fun k => W2 j i * V2 i k * x k)))
          by (intros i Hi; rewrite <- rsum_scal; apply rsum_ext; intros; ring).
        rewrite rsum_swap.
        rewrite (rsum_ext n _ (fun k => mmul n W2 V2 j k * x k))
          by (intros k Hk; unfold mmul; rewrite <- rsum_scal_r; reflexivity).
        rewrite (rsum_ext n _ (fun k => (if k =? j then 1 else 0) * x k)).
        - symmetry. apply rsum_delta. exact Hj.
        - intros k Hk. rewrite (HW2V j k Hj Hk). unfold mid. rewrite (Nat.eqb_sym j k). reflexivity. }
      rewrite E. apply rsum_0. intros i Hi. rewrite <- (HVx i Hi). rewrite (Hall i Hi). ring.
  Qed.
End Compose.
