(* C02 — the validators that decide the property per run (translation validation).
   Definitions only; soundness is proved in ProofsValid.v.

   A binary64 value is read through `Prim2SF` as the exact rational (-1)^s * m * 2^e (`F2Q`);
   f32 outputs are widened exactly to binary64 by the harness.  All arithmetic of the checkers is
   exact rational arithmetic (`Q`, normalised with `Qred` after every operation so that the
   numbers stay small); there is no rounding anywhere inside a checker.  The linear-algebra
   vocabulary (`dot`, `col`, `mmax`, ...) is defined ONCE, generically, and instantiated at Q (the
   executable checker) and at R (the statement the checker is proved to imply). *)
From Coq Require Import List Arith ZArith QArith Qabs Reals Bool Floats.
Import ListNotations.
Close Scope Q_scope.

(* ---------- generic vocabulary ---------- *)
Section Lin.
  Context {T : Type} (zero one : T) (add sub mul : T -> T -> T) (abs : T -> T) (max : T -> T -> T).
  Fixpoint dot (u v : list T) : T :=
    match u, v with
    | a :: u', b :: v' => add (mul a b) (dot u' v')
    | _, _ => zero
    end.
  Definition col (j : nat) (M : list (list T)) : list T := map (fun r => nth j r zero) M.
  Definition vmax (v : list T) : T := fold_right (fun x m => max (abs x) m) zero v.     (* max_i |v_i| *)
  Definition mmax (M : list (list T)) : T := fold_right (fun r m => max (vmax r) m) zero M. (* max_ij |a_ij| *)
  Definition lsum (v : list T) : T := fold_right add zero v.
  Definition trace (M : list (list T)) : T :=
    lsum (map (fun i => nth i (nth i M []) zero) (seq 0 (length M))).
  Definition trace2 (M : list (list T)) : T :=                                            (* tr(M*M) *)
    lsum (map (fun i => dot (nth i M []) (col i M)) (seq 0 (length M))).
  (* (A v - lam v)_i *)
  Definition resid (A : list (list T)) (v : list T) (lam : T) (i : nat) : T :=
    sub (dot (nth i A []) v) (mul lam (nth i v zero)).
  (* (V^T V - I)_ij *)
  Definition gram (V : list (list T)) (i j : nat) : T :=
    sub (dot (col i V) (col j V)) (if i =? j then one else zero).
  (* sum_j (d_j^2 - e_j^2) = sum of the squares of the complex numbers d_j + i e_j *)
  Definition sqsum (d e : list T) : T :=
    lsum (map (fun p => sub (mul (fst p) (fst p)) (mul (snd p) (snd p))) (combine d e)).
End Lin.

Definition square_b {A} (n : nat) (M : list (list A)) : bool :=
  (length M =? n) && forallb (fun r => length r =? n) M.
Definition square {A} (n : nat) (M : list (list A)) : Prop :=
  length M = n /\ forall r, In r M -> length r = n.

(* ---------- Q instance ---------- *)
Definition qadd (a b : Q) : Q := Qred (a + b)%Q.
Definition qsub (a b : Q) : Q := Qred (a - b)%Q.
Definition qmul (a b : Q) : Q := Qred (a * b)%Q.
Definition qmax (a b : Q) : Q := if Qle_bool a b then b else a.
Definition qdot := dot 0%Q qadd qmul.
Definition qcol := @col Q 0%Q.
Definition qvmax := vmax 0%Q Qabs qmax.
Definition qmmax := mmax 0%Q Qabs qmax.
Definition qlsum := lsum 0%Q qadd.
Definition qtrace := trace 0%Q qadd.
Definition qtrace2 := trace2 0%Q qadd qmul.
Definition qresid := resid 0%Q qadd qsub qmul.
Definition qgram := gram 0%Q 1%Q qadd qsub qmul.
Definition qsqsum := sqsum 0%Q qadd qsub qmul.

(* ---------- R instance ---------- *)
Definition rdot := dot 0%R Rplus Rmult.
Definition rcol := @col R 0%R.
Definition rvmax := vmax 0%R Rabs Rmax.
Definition rmmax := mmax 0%R Rabs Rmax.
Definition rlsum := lsum 0%R Rplus.
Definition rtrace := trace 0%R Rplus.
Definition rtrace2 := trace2 0%R Rplus Rmult.
Definition rresid := resid 0%R Rplus Rminus Rmult.
Definition rgram := gram 0%R 1%R Rplus Rminus Rmult.
Definition rsqsum := sqsum 0%R Rplus Rminus Rmult.

(* ---------- symmetric case ---------- *)
(* A V ~ V diag(d) entrywise within tol*|A|, V^T V ~ I entrywise within tol, d non-increasing, e = 0 *)
Definition check_sym_q (tol : Q) (A V : list (list Q)) (d e : list Q) : bool :=
  let n := length A in
  let bound := qmul tol (qmmax A) in
  square_b n A && square_b n V && (length d =? n) && (length e =? n) &&
  forallb (fun j => forallb (fun i => Qle_bool (Qabs (qresid A (qcol j V) (nth j d 0%Q) i)) bound) (seq 0 n)) (seq 0 n) &&
  forallb (fun i => forallb (fun j => Qle_bool (Qabs (qgram V i j)) tol) (seq 0 n)) (seq 0 n) &&
  forallb (fun j => Qle_bool (nth (S j) d 0%Q) (nth j d 0%Q)) (seq 0 (n - 1)) &&
  forallb (fun x => Qeq_bool x 0%Q) e.

Definition evd_sym_ok (tol : R) (A V : list (list R)) (d e : list R) : Prop :=
  let n := length A in
  square n A /\ square n V /\ length d = n /\ length e = n /\
  (forall i j, i < n -> j < n ->
     (Rabs (rresid A (rcol j V) (nth j d 0%R) i) <= tol * rmmax A)%R) /\
  (forall i j, i < n -> j < n -> (Rabs (rgram V i j) <= tol)%R) /\
  (forall j, S j < n -> (nth (S j) d 0%R <= nth j d 0%R)%R) /\
  (forall x, In x e -> x = 0%R).

(* ---------- general case ---------- *)
(* remove the first element satisfying p *)
Fixpoint remove_first {A} (p : A -> bool) (l : list A) : option (list A) :=
  match l with
  | [] => None
  | a :: t => if p a then Some t
              else match remove_first p t with Some t' => Some (a :: t') | None => None end
  end.

(* the list of (re, im) can be exhausted by deleting real values and conjugate pairs *)
Fixpoint conj_paired_b (fuel : nat) (l : list (Q * Q)) : bool :=
  match fuel with
  | 0 => false
  | S k =>
      match l with
      | [] => true
      | (x, y) :: t =>
          if Qeq_bool y 0%Q then conj_paired_b k t
          else match remove_first (fun p => Qeq_bool (fst p) x && Qeq_bool (snd p) (- y)%Q) t with
               | Some t' => conj_paired_b k t'
               | None => false
               end
      end
  end.

Inductive ConjPaired : list (R * R) -> Prop :=
| CP_nil : ConjPaired []
| CP_real : forall x l, ConjPaired l -> ConjPaired ((x, 0%R) :: l)
| CP_pair : forall x y l1 l2, y <> 0%R -> ConjPaired (l1 ++ l2) ->
            ConjPaired ((x, y) :: l1 ++ (x, (- y)%R) :: l2).

Definition check_gen_q (tol1 tol2 tolv : Q) (A V : list (list Q)) (d e : list Q) : bool :=
  let n := length A in
  let nrm := qmmax A in
  square_b n A && square_b n V && (length d =? n) && (length e =? n) &&
  conj_paired_b (S n) (combine d e) &&
  Qle_bool (Qabs (qsub (qlsum d) (qtrace A))) (qmul tol1 nrm) &&
  Qle_bool (Qabs (qsub (qsqsum d e) (qtrace2 A))) (qmul tol2 (qmul nrm nrm)) &&
  forallb (fun j =>
             if Qeq_bool (nth j e 0%Q) 0%Q then
               let v := qcol j V in
               let vm := qvmax v in
               negb (Qle_bool vm 0%Q) &&
               forallb (fun i => Qle_bool (Qabs (qresid A v (nth j d 0%Q) i)) (qmul tolv (qmul nrm vm))) (seq 0 n)
             else true) (seq 0 n).

Definition evd_gen_ok (tol1 tol2 tolv : R) (A V : list (list R)) (d e : list R) : Prop :=
  let n := length A in
  let nrm := rmmax A in
  square n A /\ square n V /\ length d = n /\ length e = n /\
  ConjPaired (combine d e) /\
  (Rabs (rlsum d - rtrace A) <= tol1 * nrm)%R /\
  (Rabs (rsqsum d e - rtrace2 A) <= tol2 * (nrm * nrm))%R /\
  (forall j, j < n -> nth j e 0%R = 0%R ->
     (0 < rvmax (rcol j V))%R /\
     forall i, i < n ->
       (Rabs (rresid A (rcol j V) (nth j d 0%R) i) <= tolv * (nrm * rvmax (rcol j V)))%R).

(* ---------- floats ---------- *)
Definition F2Q (x : float) : option Q :=
  match Prim2SF x with
  | S754_zero _ => Some 0%Q
  | S754_finite s m e =>
      let a := match e with
               | Z0 => inject_Z (Zpos m)
               | Zpos p => inject_Z (Zpos m * Z.pow_pos 2 p)
               | Zneg p => (Zpos m # Pos.pow 2 p)%Q
               end in
      Some (Qred (if s then Qopp a else a))
  | _ => None
  end.
Definition ffinite (x : float) : Prop := F2Q x <> None.
(* the real number a finite float denotes (0 for infinities / NaN, which every checker rejects) *)
Definition F2R (x : float) : R := match F2Q x with Some q => Q2R q | None => 0%R end.

Fixpoint flistQ (l : list float) : option (list Q) :=
  match l with
  | [] => Some []
  | x :: t => match F2Q x, flistQ t with Some q, Some r => Some (q :: r) | _, _ => None end
  end.
Fixpoint fmatQ (M : list (list float)) : option (list (list Q)) :=
  match M with
  | [] => Some []
  | r :: t => match flistQ r, fmatQ t with Some q, Some m => Some (q :: m) | _, _ => None end
  end.

Definition check_evd_sym (tol : float) (A V : list (list float)) (d e : list float) : bool :=
  match F2Q tol, fmatQ A, fmatQ V, flistQ d, flistQ e with
  | Some t, Some a, Some v, Some dq, Some eq => check_sym_q t a v dq eq
  | _, _, _, _, _ => false
  end.

Definition check_evd_gen (tol1 tol2 tolv : float) (A V : list (list float)) (d e : list float) : bool :=
  match F2Q tol1, F2Q tol2, F2Q tolv, fmatQ A, fmatQ V, flistQ d, flistQ e with
  | Some t1, Some t2, Some tv, Some a, Some v, Some dq, Some eq => check_gen_q t1 t2 tv a v dq eq
  | _, _, _, _, _, _, _ => false
  end.
