(* C02 — the general eigen-solver `evd(false)` (src/linalg/evd.rs, evd_mut with symmetric = false) as the
   composition of the modelled parts:
     balance (Model.v, rows) ; elmhes ; eltran from the identity (ModelHess.v) ; hqr2 (ModelHqr2.v) ;
     balbak (Model.v, rows) ; sort (Model.v, on the list of COLUMNS of V).
   Definitions only; generic in `Ops T`.  `copysign`, `t095`, `eps` are RealNumber::copysign,
   T::from(0.95), T::epsilon(); `sweeps`, `fuel` bound the two `while` loops of balance (out of fuel =
   None).  `None` = panic / out of fuel.  The boolean is the GHOST flag of ModelHqr2Vec.v. *)
From Coq Require Import List Arith Bool.
From SC Require Import Base.Num C02.Model C02.FunMat C02.ModelSymEvd C02.ModelHess C02.ModelHqr2.
Import ListNotations.

Definition evd_gen_model {T} (O : Ops T) (copysign : T -> T -> T) (t095 eps : T) (sweeps fuel : nat)
    (A : list (list T)) : option (list (list T) * list T * list T * bool) :=
  let n := length A in
  match balance O t095 sweeps fuel A with
  | None => None
  | Some (B, scale) =>
      let r := elmhes O n (mfun O.(o0) B) in
      let Z := eltran O n (fst r) (snd r) (eye O) in
      match hqr2_model O copysign eps n (fst r) Z (fun _ => O.(o0)) (fun _ => O.(o0)) with
      | None => None
      | Some (_, V3, d, e, ok) =>
          let V4 := balbak O (mrows n V3) scale in
          let '(d', e', C) := evd_sort O (vlist n d) (vlist n e) (transpose_rows O.(o0) n V4) in
          Some (transpose_rows O.(o0) n C, d', e', ok)
      end
  end.
