(* C02 — tql2 over R: the hypotheses of tql2_ql_partial_correct are satisfiable on an instance where
   the QL part really performs a rotation:  T = [[0, 12], [12, 7]]  (eigenvalues -9 and 16), V0 = I.
   The run: l = 0, m = 1; shift p = 7/24, r = 25/24, d = [9; 16], f = -9; one rotation with
   r = hypot(16, 12) = 20, c = 4/5, s = 3/5; e[0] becomes 0; result d = [-9; 16], ok = true. *)
From Coq Require Import List Arith Bool Lia Reals Lra Psatz.
From SC Require Import Base.Num C02.FunMat C02.ModelTql2 C02.ProofsTql2Rot C02.ProofsTql2SweepAlg C02.ProofsTql2Sweep C02.ProofsTql2Pass
  C02.ProofsTql2.
Import ListNotations.
Local Open Scope R_scope.

Definition xd0 : nat -> R := vfun 0 [0; 7].
Definition xe0 : nat -> R := vfun 0 [0; 12].      (* on entry e[1] couples 0 and 1 *)
Definition xA : mat := tridiag xd0 xe0.
Definition xq0 : qstate := mkQS mid xd0 (e_shift ROps 2 xe0) 0 true.
Definition xq1 : qstate := ql_sweep ROps hypR 2 0 1 xq0.

Lemma Rleb_abs_false x t : x <> 0 -> Rleb (Rabs x) (t * 0) = false.
Proof. intros H. apply Rleb_false. rewrite Rmult_0_r. apply Rabs_pos_lt. exact H. Qed.
Lemma Rleb_abs_true x t : x = 0 -> Rleb (Rabs x) (t * 0) = true.
Proof. intros ->. apply Rleb_true. rewrite Rmult_0_r, Rabs_R0. lra. Qed.

Lemma H01 : (0 < 1)%nat. Proof. lia. Qed.
Lemma H12 : (1 < 2)%nat. Proof. lia. Qed.

Lemma hypR_val a b r : 0 <= r -> a * a + b * b = r * r -> hypR a b = r.
Proof. intros Hr H. unfold hypR. rewrite H. apply sqrt_square. exact Hr. Qed.

(* the pass, explicitly *)
Definition xt : qstate := qtab ROps 2 xq0.
Lemma xt_d0 : qd xt 0 = 0. Proof. reflexivity. Qed.
Lemma xt_d1 : qd xt 1 = 7. Proof. reflexivity. Qed.
Lemma xt_e0 : qe xt 0 = 12. Proof. reflexivity. Qed.
Lemma xt_e1 : qe xt 1 = 0. Proof. reflexivity. Qed.
Lemma xt_f : qf xt = 0. Proof. reflexivity. Qed.

Lemma x_p : sh_p 0 xt = 7 / 24.
Proof. unfold sh_p. rewrite xt_d0, xt_d1, xt_e0. field. Qed.
Lemma x_r : sh_r 0 xt = 25 / 24.
Proof.
  unfold sh_r. rewrite x_p.
  replace (Rltb (7 / 24) 0) with false by (symmetry; apply Rltb_false; lra).
  apply hypR_val; lra.
Qed.
Lemma x_dl : sh_dl 0 xt = 9.
Proof. unfold sh_dl. rewrite x_p, x_r, xt_e0. field. Qed.
Lemma x_dl1 : sh_dl1 0 xt = 16.
Proof. unfold sh_dl1. rewrite x_p, x_r, xt_e0. field. Qed.
Lemma x_h : sh_h 0 xt = -9.
Proof. unfold sh_h. rewrite (sh_d2_l 2 0 1 H01 H12), x_dl, xt_d0. ring. Qed.
Lemma x_d3_0 : sh_d3 2 0 xt 0 = 9.
Proof. rewrite (sh_d3_spec 2 0 1 H01 H12) by lia. cbn [Nat.ltb Nat.leb Nat.eqb]. apply x_dl. Qed.
Lemma x_d3_1 : sh_d3 2 0 xt 1 = 16.
Proof. rewrite (sh_d3_spec 2 0 1 H01 H12) by lia. cbn [Nat.ltb Nat.leb Nat.eqb]. apply x_dl1. Qed.

Definition xst : rstate := rfinal 2 0 1 (sh_d3 2 0 xt) (qe xt) (qV xt) (qok xt).
Definition xr : R := hypR (sh_d3 2 0 xt 1) (qe xt 0).
Lemma x_r20 : xr = 20.
Proof. unfold xr. rewrite x_d3_1, xt_e0. apply hypR_val; lra. Qed.

Lemma xst_eq : xst =
  mkRS (sh_d3 2 0 xt 1 / xr) 1 1 (qe xt 0 / xr) 0
       (sh_d3 2 0 xt 1 / xr * sh_d3 2 0 xt 0 - qe xt 0 / xr * (1 * qe xt 0))
       (vupd (sh_d3 2 0 xt) 1 (1 * sh_d3 2 0 xt 1 +
          qe xt 0 / xr * (sh_d3 2 0 xt 1 / xr * (1 * qe xt 0) + qe xt 0 / xr * sh_d3 2 0 xt 0)))
       (vupd (qe xt) 1 (0 * xr))
       (rot_cols ROps 2 0 (sh_d3 2 0 xt 1 / xr) (qe xt 0 / xr) (qV xt))
       (true && negb (Reqb xr 0)).
Proof.
  unfold xst, rfinal. cbn [Nat.sub ford Nat.add].
  rewrite (ql_rot_eq 2 0 1 (sh_d3 2 0 xt) (qe xt) H01 H12 0
             (rinit 1 (sh_d3 2 0 xt) (qe xt) (qV xt) (qok xt)) eq_refl eq_refl). reflexivity.
Qed.

Lemma xq1_eq :
  xq1 = mkQS (rV xst)
             (vupd (rd xst) 0 (rc xst * (- rs xst * rs2 xst * rc3 xst * qe xt 1 * re xst 0 / sh_dl1 0 xt)))
             (vupd (re xst) 0 (rs xst * (- rs xst * rs2 xst * rc3 xst * qe xt 1 * re xst 0 / sh_dl1 0 xt)))
             (qf xt + sh_h 0 xt) (rok xst).
Proof. unfold xq1, ql_sweep. fold xt. rewrite ql_sweep_core_eq. reflexivity. Qed.

Lemma x_pn : - rs xst * rs2 xst * rc3 xst * qe xt 1 * re xst 0 / sh_dl1 0 xt = 0.
Proof. rewrite xst_eq. cbn [rs rs2 rc3 re]. unfold Rdiv. ring. Qed.

Lemma xq1_e0 : qe xq1 0 = 0.
Proof. rewrite xq1_eq. cbn [qe]. rewrite vupd_eq, x_pn. ring. Qed.
Lemma xq1_e1 : qe xq1 1 = 0.
Proof.
  rewrite xq1_eq. cbn [qe]. rewrite vupd_neq by lia. rewrite xst_eq. cbn [re].
  rewrite vupd_eq. ring.
Qed.
Lemma xq1_ok : qok xq1 = true.
Proof.
  rewrite xq1_eq. cbn [qok]. rewrite xst_eq. cbn [rok andb].
  replace (Reqb xr 0) with false; [reflexivity|].
  symmetry. apply Reqb_false. rewrite x_r20. lra.
Qed.
Lemma xq1_f : qf xq1 = -9.
Proof. rewrite xq1_eq. cbn [qf]. rewrite xt_f, x_h. ring. Qed.
Lemma xq1_d0 : qd xq1 0 = 0.
Proof. rewrite xq1_eq. cbn [qd]. rewrite vupd_eq, x_pn. ring. Qed.
Lemma xq1_d1 : qd xq1 1 = 25.
Proof.
  rewrite xq1_eq. cbn [qd]. rewrite vupd_neq by lia. rewrite xst_eq. cbn [rd].
  rewrite vupd_eq. rewrite x_r20, x_d3_0, x_d3_1, xt_e0. field.
Qed.

(* the whole QL part on this instance *)
Lemma x_run : exists V d e,
  tql2_ql ROps hypR 0 2 mid xd0 xe0 = Some (V, d, e, true) /\ d 0%nat = -9 /\ d 1%nat = 16.
Proof.
  unfold tql2_ql. cbn [Nat.eqb forn]. rops. fold xq0.
  (* l = 0 *)
  unfold ql_outer at 2. rops.
  set (t1 := omax ROps 0 _).
  assert (Hm : find_m ROps 0 2 (qe xq0) t1 (2 - 0 + 1) 0 = 1%nat).
  { cbn [Nat.sub Nat.add find_m Nat.ltb Nat.leb]. rops.
    replace (qe xq0 0%nat) with 12 by reflexivity.
    rewrite Rleb_abs_false by lra.
    replace (qe xq0 1%nat) with 0 by reflexivity.
    rewrite Rleb_abs_true by reflexivity. reflexivity. }
  rewrite Hm. cbn [Nat.ltb Nat.leb]. unfold ql_fuel. cbn [ql_loop]. fold xq1. rops.
  rewrite (Rleb_abs_true (qe xq1 0%nat)) by apply xq1_e0.
  (* l = 1 *)
  unfold ql_outer. rops. cbn [qV qd qe qf qok].
  set (t2 := omax ROps t1 _).
  cbn [Nat.sub Nat.add find_m Nat.ltb Nat.leb]. rops.
  rewrite (vupd_neq (qe xq1) 0 0 1) by lia.
  rewrite (Rleb_abs_true (qe xq1 1%nat)) by apply xq1_e1.
  cbn [Nat.ltb Nat.leb qV qd qe qf qok].
  rewrite xq1_ok.
  eexists _, _, _. split; [reflexivity|].
  split.
  - rewrite vupd_neq by lia. rewrite vupd_eq. rewrite xq1_d0, xq1_f. ring.
  - rewrite vupd_eq. rewrite vupd_neq by lia. rewrite xq1_d1, xq1_f. ring.
Qed.

Lemma x_hyp_orth : morth 2 mid.
Proof. unfold morth. eapply meq_trans; [apply mmul_id_r|]. intros i j _ _. unfold mtr, mid. rewrite Nat.eqb_sym. reflexivity. Qed.
Lemma x_hyp_sim : meq 2 (mmul 2 xA mid) (mmul 2 mid (tridiag xd0 xe0)).
Proof. eapply meq_trans; [apply mmul_id_r|]. apply meq_sym. apply mmul_id_l. Qed.

(* satisfiability of the hypotheses of tql2_ql_partial_correct, with its conclusion instantiated *)
Example tql2_ql_partial_correct_example : exists V d e,
  morth 2 mid /\ meq 2 (mmul 2 xA mid) (mmul 2 mid (tridiag xd0 xe0)) /\
  tql2_ql ROps hypR 0 2 mid xd0 xe0 = Some (V, d, e, true) /\
  d 0%nat = -9 /\ d 1%nat = 16 /\
  morth 2 V /\ meq 2 (mmul 2 xA V) (mmul 2 V (mdiag d)).
Proof.
  destruct x_run as (V & d & e & Hrun & Hd0 & Hd1).
  exists V, d, e.
  destruct (tql2_ql_partial_correct 2 xA mid xd0 xe0 V d e x_hyp_orth x_hyp_sim Hrun) as (_ & HVo & HAV).
  repeat (split; try assumption); [apply x_hyp_orth|apply x_hyp_sim].
Qed.
