(* C02 — tql2 over R: one QL sweep `for i in (l..m).rev()` of the model (ModelTql2.ql_rot) keeps
   V orthogonal and A V = V M, where the ghost matrix M has the shape `Sw` of SweepAlg.v; closing
   formulas; the shift step; the whole pass `ql_sweep`. *)
From Coq Require Import List Arith Bool Lia Reals Lra Psatz.
From SC Require Import Base.Num C02.FunMat C02.ModelTql2 C02.ProofsTql2Rot C02.ProofsTql2SweepAlg.
Import ListNotations.
Local Open Scope R_scope.

Definition hypR (a b : R) : R := sqrt (a * a + b * b).
Lemma hypR_sq a b : hypR a b * hypR a b = a * a + b * b.
Proof. unfold hypR. apply sqrt_sqrt. nra. Qed.
Lemma hypR_nonneg a b : 0 <= hypR a b.
Proof. unfold hypR. apply sqrt_pos. Qed.

Lemma morth_ext n V W : meq n V W -> morth n V -> morth n W.
Proof.
  intros HVW HV. unfold morth in *.
  eapply meq_trans; [|exact HV].
  apply mmul_ext; [apply meq_mtr|]; apply meq_sym; exact HVW.
Qed.
Lemma sim_ext n A V W M N : meq n V W -> meq n M N ->
  meq n (mmul n A V) (mmul n V M) -> meq n (mmul n A W) (mmul n W N).
Proof.
  intros HVW HMN H.
  eapply meq_trans. { apply mmul_ext; [apply meq_refl|apply meq_sym; exact HVW]. }
  eapply meq_trans. { exact H. }
  apply mmul_ext; assumption.
Qed.

Lemma cs_unit p x r : r <> 0 -> r * r = p * p + x * x -> (p / r) * (p / r) + (x / r) * (x / r) = 1.
Proof. intros Hr Hrr. field_simplify_eq; [|exact Hr]. nra. Qed.

Ltac rops := cbn [ROps o0 o1 oadd osub omul odiv oneg oabs oltb oleb oeqb oofZ].

Section Loop.
  Variables (n l m : nat) (A : mat) (f : R) (d0 e0 : nat -> R).
  Hypothesis Hlm : (l < m)%nat.
  Hypothesis Hmn : (m < n)%nat.
  Hypothesis Hem : e0 m = 0.

  Definition LS (i : nat) (st : rstate) : Prop :=
    exists pp r, r <> 0 /\ r * r = pp * pp + e0 i * e0 i /\
      rc st = pp / r /\ rs st = e0 i / r /\
      rp st = rc st * d0 i - rs st * (rc2 st * e0 i) /\
      ((S i = m /\ rc2 st = 1 /\ rs2 st = 0 /\ pp = d0 m) \/
       ((S i < m)%nat /\ pp = rc2 st * d0 (S i) - rs2 st * (rc3 st * e0 (S i)))).

  Definition Good (i : nat) (st : rstate) : Prop :=
    exists M,
      Sw n l f d0 e0 i M (rc st) (rs st) (rp st) (rd st) (re st) /\
      meq n (mmul n A (rV st)) (mmul n (rV st) M) /\
      morth n (rV st) /\
      (forall a, (a <= i)%nat -> rd st a = d0 a) /\
      (forall a, (a <= i)%nat -> re st a = e0 a) /\
      (forall a, (m < a)%nat -> rd st a = d0 a) /\
      (forall a, (m <= a)%nat -> re st a = e0 a) /\
      (i = m -> rc st = 1 /\ rs st = 0 /\ rp st = d0 m) /\
      ((i < m)%nat -> LS i st).

  Lemma ql_rot_eq i st : re st i = e0 i -> rd st i = d0 i ->
    let r := hypR (rp st) (e0 i) in
    let c' := rp st / r in
    let s' := e0 i / r in
    ql_rot ROps hypR n i st =
      mkRS c' (rc st) (rc2 st) s' (rs st) (c' * d0 i - s' * (rc st * e0 i))
           (vupd (rd st) (S i) (rc st * rp st + s' * (c' * (rc st * e0 i) + s' * d0 i)))
           (vupd (re st) (S i) (rs st * r))
           (rot_cols ROps n i c' s' (rV st))
           (rok st && negb (Reqb r 0)).
  Proof.
    intros He Hd. unfold ql_rot. rops.
    rewrite (vupd_neq (re st) (S i)) by lia. rewrite He, Hd. reflexivity.
  Qed.

  Lemma ql_rot_step i st : (l <= i)%nat -> (i < m)%nat ->
    (rok st = true -> Good (S i) st) ->
    rok (ql_rot ROps hypR n i st) = true -> Good i (ql_rot ROps hypR n i st).
  Proof.
    intros Hli Him HP.
    destruct (Bool.bool_dec (rok st) true) as [Hok|Hok].
    2:{ unfold ql_rot. cbn [rok]. intros H. apply andb_true_iff in H. tauto. }
    destruct (HP Hok) as (M & HSw & HAV & HVo & Hd & He & Hdm & Hem' & Hinit & HLS).
    rewrite (ql_rot_eq i st) by (first [apply He|apply Hd]; lia).
    cbv zeta. set (r := hypR (rp st) (e0 i)). set (c' := rp st / r). set (s' := e0 i / r).
    cbn [rok]. intros H. apply andb_true_iff in H. destruct H as [_ Hr].
    apply negb_true_iff in Hr. apply Reqb_false in Hr.
    assert (Hrr : r * r = rp st * rp st + e0 i * e0 i) by apply hypR_sq.
    assert (Hcs : c' * c' + s' * s' = 1) by (apply cs_unit; assumption).
    assert (Hin : (S i < n)%nat) by lia.
    exists (rotM i c' s' M). cbn [rc rs rp rd re rV rc2 rc3 rs2].
    split; [|split; [|split; [|split; [|split; [|split; [|split; [|split]]]]]]].
    - apply Sw_step with (r := r); try assumption; reflexivity.
    - eapply sim_ext; [| apply meq_refl | apply sim_colrot; eassumption].
      intros a b Ha Hb. symmetry. apply rot_cols_spec; lia.
    - eapply morth_ext; [|apply morth_colrot; eassumption].
      intros a b Ha Hb. symmetry. apply rot_cols_spec; lia.
    - intros a Ha. rewrite vupd_neq by lia. apply Hd. lia.
    - intros a Ha. rewrite vupd_neq by lia. apply He. lia.
    - intros a Ha. rewrite vupd_neq by lia. apply Hdm. lia.
    - intros a Ha. destruct (Nat.eq_dec a (S i)) as [->|Hne].
      + rewrite vupd_eq. destruct (Hinit ltac:(lia)) as (_ & Hs & _). rewrite Hs.
        replace (S i) with m by lia. rewrite Hem. ring.
      + rewrite vupd_neq by exact Hne. apply Hem'. exact Ha.
    - intros ->. lia.
    - intros _. exists (rp st), r. cbn [rc rs rp rc2 rc3 rs2].
      split; [exact Hr|]. split; [exact Hrr|]. split; [reflexivity|]. split; [reflexivity|].
      split; [reflexivity|].
      destruct (Nat.eq_dec (S i) m) as [Hm|Hm].
      + left. destruct (Hinit Hm) as (Hc & Hs & Hp). auto.
      + right. split; [lia|].
        destruct (HLS ltac:(lia)) as (pp & r1 & _ & _ & _ & _ & Hp & _). exact Hp.
  Qed.

  Variables (V0 : mat) (ok0 : bool).
  Hypothesis HV0 : morth n V0.
  Hypothesis HAV0 : meq n (mmul n A V0) (mmul n V0 (tri (dt l f d0) e0)).

  Definition rinit : rstate := mkRS 1 1 1 0 0 (d0 m) d0 e0 V0 ok0.
  Definition rfinal : rstate := ford l (m - l) (ql_rot ROps hypR n) rinit.

  Lemma rfinal_ok_mono : rok rfinal = true -> ok0 = true.
  Proof.
    unfold rfinal.
    apply (ford_ind (fun (_ : nat) st => rok st = true -> ok0 = true)).
    - cbn. auto.
    - intros k st _ IH. unfold ql_rot. cbn [rok]. intros H. apply andb_true_iff in H. tauto.
  Qed.

  Lemma rfinal_good : rok rfinal = true -> Good l rfinal.
  Proof.
    unfold rfinal.
    apply (ford_ind (fun i st => rok st = true -> Good i st)).
    - intros _. replace (l + (m - l))%nat with m by lia.
      exists (tri (dt l f d0) e0). unfold rinit. cbn [rc rs rp rd re rV rc2 rc3 rs2].
      split; [apply Sw_init; assumption|].
      split; [exact HAV0|]. split; [exact HV0|].
      repeat (split; [intros; reflexivity|]).
      split; [auto|lia].
    - intros k st Hk IH. apply ql_rot_step; try lia. exact IH.
  Qed.

  (* the closing formula replaces the loop's p by an equal expression *)
  Lemma closing_p dl1 st : dl1 <> 0 -> d0 (S l) = dl1 -> d0 l * dl1 = e0 l * e0 l ->
    LS l st ->
    - rs st * rs2 st * rc3 st * e0 (S l) * e0 l / dl1 = rp st.
  Proof.
    intros Hdl1 Hd1 Hprod (pp & r & Hr & Hrr & Hc & Hs & Hp & Hcase).
    assert (Hdl : d0 l = e0 l * e0 l / dl1) by (rewrite <- Hprod; field; exact Hdl1).
    rewrite Hp, Hc, Hs. destruct Hcase as [(Hm & Hc2 & Hs2 & Hpp)|(Hm & Hpp)].
    - rewrite Hs2, Hc2, Hpp. rewrite <- Hm, Hd1, Hdl. field. split; assumption.
    - rewrite Hpp, Hd1, Hdl. field. split; assumption.
  Qed.
End Loop.
