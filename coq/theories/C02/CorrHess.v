(* C02 — correspondence interface for the models of `elmhes` and `eltran` (C02/ModelHess.v), instantiated
   at binary64 and compared with what src/linalg/evd.rs returned on the same input (through the hooks
   `verif_elmhes` / `verif_eltran`).  Matrices are lists of rows; `perm` is a list of N literals.
   `fmat_eq` is equality of the binary64 values (0 = -0, NaN = NaN), as in C02/Corr.v. *)
From Coq Require Import List ZArith Bool Floats.
From SC Require Import Base.FloatUtil Base.Num C02.FunMat C02.ModelHess.
Import ListNotations.

(* A = rows of the input; xA = rows of the matrix after `elmhes` (Hessenberg part and the stored
   multipliers below the sub-diagonal), xperm = the returned vector *)
Definition corr_elmhes (A xA : list (list float)) (xperm : list N) : bool :=
  let r := elmhes_rows FOps A in
  fmat_eq (fst r) xA && nlist_eqb (map N.of_nat (snd r)) xperm.

(* A = rows of the matrix as `elmhes` left it, perm = what `elmhes` returned;
   xV = rows of V after `eltran(&A, &mut V, &perm)` started from V = identity *)
Definition corr_eltran (A : list (list float)) (perm : list N) (xV : list (list float)) : bool :=
  fmat_eq (eltran_rows FOps A (map N.to_nat perm)) xV.

(* Expected values below were computed by a line-by-line re-implementation of the two Rust functions
   in IEEE double arithmetic (same loop and operation order).  swap4: row/column swaps at m = 1;
   zeropiv4: column 0 is zero below the diagonal (x = 0 at m = 1, nothing done), swap at m = 2;
   zeromult4: x <> 0 but one entry to eliminate is already 0 (`if y != 0` skip); tie5: two candidates of
   equal modulus (the first is kept); n1, n2: empty loops; rand6, rand6z: 6 x 6. *)
Example corr_elmhes_swap4 : corr_elmhes
   [[0x1.0000000000000p+0%float; 0x1.0000000000000p+1%float; 0x1.8000000000000p+1%float; 0x1.0000000000000p+2%float];
    [0x1.0000000000000p+1%float; 0x1.0000000000000p+0%float; 0x1.0000000000000p-1%float; 0x1.8000000000000p+1%float];
    [(-0x1.c000000000000p+2)%float; 0x1.8000000000000p+1%float; 0x1.0000000000000p+0%float; 0x1.0000000000000p+1%float];
    [0x1.8000000000000p+1%float; 0x1.0000000000000p-2%float; 0x1.0000000000000p+1%float; 0x1.0000000000000p+0%float]]
   [[0x1.0000000000000p+0%float; 0x1.6db6db6db6dbap-1%float; (-0x1.be76c8b439586p+0)%float; 0x1.0000000000000p+2%float];
    [(-0x1.c000000000000p+2)%float; (-0x1.6db6db6db6db6p-1)%float; 0x1.20c49ba5e353dp+0%float; 0x1.0000000000000p+1%float];
    [(-0x1.2492492492492p-2)%float; (-0x1.4687d6343eb19p+0)%float; (-0x1.7c57c57c57c5ap+0)%float; 0x1.c924924924924p+1%float];
    [(-0x1.b6db6db6db6dbp-2)%float; (-0x1.df3b645a1cac3p-1)%float; (-0x1.97dbf487fcb9ap+0)%float; 0x1.4cccccccccccep+2%float]]
   [0%N; 2%N; 2%N; 0%N] = true.
Proof. vm_compute. reflexivity. Qed.
Example corr_eltran_swap4 : corr_eltran
   [[0x1.0000000000000p+0%float; 0x1.6db6db6db6dbap-1%float; (-0x1.be76c8b439586p+0)%float; 0x1.0000000000000p+2%float];
    [(-0x1.c000000000000p+2)%float; (-0x1.6db6db6db6db6p-1)%float; 0x1.20c49ba5e353dp+0%float; 0x1.0000000000000p+1%float];
    [(-0x1.2492492492492p-2)%float; (-0x1.4687d6343eb19p+0)%float; (-0x1.7c57c57c57c5ap+0)%float; 0x1.c924924924924p+1%float];
    [(-0x1.b6db6db6db6dbp-2)%float; (-0x1.df3b645a1cac3p-1)%float; (-0x1.97dbf487fcb9ap+0)%float; 0x1.4cccccccccccep+2%float]]
   [0%N; 2%N; 2%N; 0%N]
   [[0x1.0000000000000p+0%float; 0x0.0p+0%float; 0x0.0p+0%float; 0x0.0p+0%float];
    [0x0.0p+0%float; (-0x1.2492492492492p-2)%float; 0x1.0000000000000p+0%float; 0x0.0p+0%float];
    [0x0.0p+0%float; 0x1.0000000000000p+0%float; 0x0.0p+0%float; 0x0.0p+0%float];
    [0x0.0p+0%float; (-0x1.b6db6db6db6dbp-2)%float; (-0x1.df3b645a1cac3p-1)%float; 0x1.0000000000000p+0%float]] = true.
Proof. vm_compute. reflexivity. Qed.
Example corr_elmhes_zeropiv4 : corr_elmhes
   [[0x1.0000000000000p+0%float; 0x1.0000000000000p+1%float; 0x1.8000000000000p+1%float; 0x1.0000000000000p+2%float];
    [0x0.0p+0%float; 0x1.8000000000000p+0%float; 0x1.0000000000000p-1%float; 0x1.8000000000000p+1%float];
    [0x0.0p+0%float; 0x1.8000000000000p+1%float; 0x1.0000000000000p+0%float; 0x1.0000000000000p+1%float];
    [0x0.0p+0%float; (-0x1.4000000000000p+2)%float; 0x1.0000000000000p+1%float; 0x1.0000000000000p+0%float]]
   [[0x1.0000000000000p+0%float; 0x1.0000000000000p+1%float; 0x1.199999999999ap+1%float; 0x1.8000000000000p+1%float];
    [0x0.0p+0%float; 0x1.8000000000000p+0%float; 0x1.599999999999ap+1%float; 0x1.0000000000000p-1%float];
    [0x0.0p+0%float; (-0x1.4000000000000p+2)%float; (-0x1.9999999999998p-3)%float; 0x1.0000000000000p+1%float];
    [0x0.0p+0%float; (-0x1.3333333333333p-1)%float; 0x1.47ae147ae147bp+0%float; 0x1.199999999999ap+1%float]]
   [0%N; 1%N; 3%N; 0%N] = true.
Proof. vm_compute. reflexivity. Qed.
Example corr_eltran_zeropiv4 : corr_eltran
   [[0x1.0000000000000p+0%float; 0x1.0000000000000p+1%float; 0x1.199999999999ap+1%float; 0x1.8000000000000p+1%float];
    [0x0.0p+0%float; 0x1.8000000000000p+0%float; 0x1.599999999999ap+1%float; 0x1.0000000000000p-1%float];
    [0x0.0p+0%float; (-0x1.4000000000000p+2)%float; (-0x1.9999999999998p-3)%float; 0x1.0000000000000p+1%float];
    [0x0.0p+0%float; (-0x1.3333333333333p-1)%float; 0x1.47ae147ae147bp+0%float; 0x1.199999999999ap+1%float]]
   [0%N; 1%N; 3%N; 0%N]
   [[0x1.0000000000000p+0%float; 0x0.0p+0%float; 0x0.0p+0%float; 0x0.0p+0%float];
    [0x0.0p+0%float; 0x1.0000000000000p+0%float; 0x0.0p+0%float; 0x0.0p+0%float];
    [0x0.0p+0%float; 0x0.0p+0%float; (-0x1.3333333333333p-1)%float; 0x1.0000000000000p+0%float];
    [0x0.0p+0%float; 0x0.0p+0%float; 0x1.0000000000000p+0%float; 0x0.0p+0%float]] = true.
Proof. vm_compute. reflexivity. Qed.
Example corr_elmhes_zeromult4 : corr_elmhes
   [[0x1.0000000000000p+0%float; 0x1.0000000000000p+1%float; 0x1.8000000000000p+1%float; 0x1.0000000000000p+2%float];
    [0x1.0000000000000p+2%float; 0x1.8000000000000p+0%float; 0x1.0000000000000p-1%float; 0x1.8000000000000p+1%float];
    [0x0.0p+0%float; 0x1.8000000000000p+1%float; 0x1.0000000000000p+0%float; 0x1.0000000000000p+1%float];
    [0x1.0000000000000p+0%float; (-0x1.4000000000000p+2)%float; 0x1.0000000000000p+1%float; 0x1.0000000000000p+0%float]]
   [[0x1.0000000000000p+0%float; 0x1.8000000000000p+1%float; 0x1.0303030303030p+1%float; 0x1.8000000000000p+1%float];
    [0x1.0000000000000p+2%float; 0x1.2000000000000p+1%float; 0x1.55d5d5d5d5d5dp+1%float; 0x1.0000000000000p-1%float];
    [0x0.0p+0%float; (-0x1.5400000000000p+2)%float; (-0x1.f878787878788p-1)%float; 0x1.e000000000000p+0%float];
    [0x1.0000000000000p-2%float; (-0x1.5151515151515p-1)%float; 0x1.6253443526170p-1%float; 0x1.1e1e1e1e1e1e2p+1%float]]
   [0%N; 1%N; 3%N; 0%N] = true.
Proof. vm_compute. reflexivity. Qed.
Example corr_eltran_zeromult4 : corr_eltran
   [[0x1.0000000000000p+0%float; 0x1.8000000000000p+1%float; 0x1.0303030303030p+1%float; 0x1.8000000000000p+1%float];
    [0x1.0000000000000p+2%float; 0x1.2000000000000p+1%float; 0x1.55d5d5d5d5d5dp+1%float; 0x1.0000000000000p-1%float];
    [0x0.0p+0%float; (-0x1.5400000000000p+2)%float; (-0x1.f878787878788p-1)%float; 0x1.e000000000000p+0%float];
    [0x1.0000000000000p-2%float; (-0x1.5151515151515p-1)%float; 0x1.6253443526170p-1%float; 0x1.1e1e1e1e1e1e2p+1%float]]
   [0%N; 1%N; 3%N; 0%N]
   [[0x1.0000000000000p+0%float; 0x0.0p+0%float; 0x0.0p+0%float; 0x0.0p+0%float];
    [0x0.0p+0%float; 0x1.0000000000000p+0%float; 0x0.0p+0%float; 0x0.0p+0%float];
    [0x0.0p+0%float; 0x0.0p+0%float; (-0x1.5151515151515p-1)%float; 0x1.0000000000000p+0%float];
    [0x0.0p+0%float; 0x1.0000000000000p-2%float; 0x1.0000000000000p+0%float; 0x0.0p+0%float]] = true.
Proof. vm_compute. reflexivity. Qed.
Example corr_elmhes_tie5 : corr_elmhes
   [[0x1.0000000000000p+0%float; 0x1.0000000000000p+1%float; 0x1.8000000000000p+1%float; 0x1.0000000000000p+2%float; 0x1.4000000000000p+2%float];
    [0x1.0000000000000p+0%float; 0x1.8000000000000p+0%float; 0x1.0000000000000p-1%float; 0x1.8000000000000p+1%float; 0x1.999999999999ap-4%float];
    [(-0x1.8000000000000p+1)%float; 0x1.8000000000000p+1%float; 0x1.0000000000000p+0%float; 0x1.0000000000000p+1%float; 0x1.999999999999ap-3%float];
    [0x1.8000000000000p+1%float; (-0x1.4000000000000p+2)%float; 0x1.0000000000000p+1%float; 0x1.0000000000000p+0%float; 0x1.3333333333333p-2%float];
    [0x1.8000000000000p+1%float; 0x1.6666666666666p-1%float; 0x1.ccccccccccccdp-1%float; 0x1.199999999999ap+0%float; 0x1.4cccccccccccdp+0%float]]
   [[0x1.0000000000000p+0%float; (-0x1.aaaaaaaaaaaaap+2)%float; 0x1.b1e5f75270d04p+2%float; 0x1.11a12a5f48a9cp+2%float; 0x1.0000000000000p+2%float];
    [(-0x1.8000000000000p+1)%float; (-0x1.199999999999ap+1)%float; 0x1.84fd65883e7b3p+1%float; 0x1.08d0952fa454ep+2%float; 0x1.0000000000000p+1%float];
    [(-0x1.5555555555555p-2)%float; (-0x1.f777777777778p+1)%float; 0x1.3e5f75270d045p+2%float; 0x1.5da9b409d8506p+2%float; 0x1.8cccccccccccdp+1%float];
    [(-0x1.0000000000000p+0)%float; (-0x1.5b1e5f75270cap-5)%float; (-0x1.333f1fa5c9d2dp+1)%float; (-0x1.7a3c3c483f1ecp-1)%float; 0x1.4a7c6259ac1d0p-1%float];
    [(-0x1.0000000000000p+0)%float; 0x1.f2fba9386822ap-1%float; 0x1.234254be91538p-1%float; 0x1.6ef1b7619d11cp-2%float; 0x1.61d024c3f5bf1p+1%float]]
   [0%N; 2%N; 4%N; 4%N; 0%N] = true.
Proof. vm_compute. reflexivity. Qed.
Example corr_eltran_tie5 : corr_eltran
   [[0x1.0000000000000p+0%float; (-0x1.aaaaaaaaaaaaap+2)%float; 0x1.b1e5f75270d04p+2%float; 0x1.11a12a5f48a9cp+2%float; 0x1.0000000000000p+2%float];
    [(-0x1.8000000000000p+1)%float; (-0x1.199999999999ap+1)%float; 0x1.84fd65883e7b3p+1%float; 0x1.08d0952fa454ep+2%float; 0x1.0000000000000p+1%float];
    [(-0x1.5555555555555p-2)%float; (-0x1.f777777777778p+1)%float; 0x1.3e5f75270d045p+2%float; 0x1.5da9b409d8506p+2%float; 0x1.8cccccccccccdp+1%float];
    [(-0x1.0000000000000p+0)%float; (-0x1.5b1e5f75270cap-5)%float; (-0x1.333f1fa5c9d2dp+1)%float; (-0x1.7a3c3c483f1ecp-1)%float; 0x1.4a7c6259ac1d0p-1%float];
    [(-0x1.0000000000000p+0)%float; 0x1.f2fba9386822ap-1%float; 0x1.234254be91538p-1%float; 0x1.6ef1b7619d11cp-2%float; 0x1.61d024c3f5bf1p+1%float]]
   [0%N; 2%N; 4%N; 4%N; 0%N]
   [[0x1.0000000000000p+0%float; 0x0.0p+0%float; 0x0.0p+0%float; 0x0.0p+0%float; 0x0.0p+0%float];
    [0x0.0p+0%float; (-0x1.5555555555555p-2)%float; 0x1.f2fba9386822ap-1%float; 0x1.0000000000000p+0%float; 0x0.0p+0%float];
    [0x0.0p+0%float; 0x1.0000000000000p+0%float; 0x0.0p+0%float; 0x0.0p+0%float; 0x0.0p+0%float];
    [0x0.0p+0%float; (-0x1.0000000000000p+0)%float; (-0x1.5b1e5f75270cap-5)%float; 0x1.234254be91538p-1%float; 0x1.0000000000000p+0%float];
    [0x0.0p+0%float; (-0x1.0000000000000p+0)%float; 0x1.0000000000000p+0%float; 0x0.0p+0%float; 0x0.0p+0%float]] = true.
Proof. vm_compute. reflexivity. Qed.
Example corr_elmhes_n1 : corr_elmhes
   [[0x1.8000000000000p+1%float]]
   [[0x1.8000000000000p+1%float]]
   [0%N] = true.
Proof. vm_compute. reflexivity. Qed.
Example corr_eltran_n1 : corr_eltran
   [[0x1.8000000000000p+1%float]]
   [0%N]
   [[0x1.0000000000000p+0%float]] = true.
Proof. vm_compute. reflexivity. Qed.
Example corr_elmhes_n2 : corr_elmhes
   [[0x1.8000000000000p+1%float; 0x1.0000000000000p+0%float];
    [0x1.0000000000000p+1%float; 0x1.4000000000000p+2%float]]
   [[0x1.8000000000000p+1%float; 0x1.0000000000000p+0%float];
    [0x1.0000000000000p+1%float; 0x1.4000000000000p+2%float]]
   [0%N; 0%N] = true.
Proof. vm_compute. reflexivity. Qed.
Example corr_eltran_n2 : corr_eltran
   [[0x1.8000000000000p+1%float; 0x1.0000000000000p+0%float];
    [0x1.0000000000000p+1%float; 0x1.4000000000000p+2%float]]
   [0%N; 0%N]
   [[0x1.0000000000000p+0%float; 0x0.0p+0%float];
    [0x0.0p+0%float; 0x1.0000000000000p+0%float]] = true.
Proof. vm_compute. reflexivity. Qed.
Example corr_elmhes_n3 : corr_elmhes
   [[0x1.8000000000000p+1%float; 0x1.0000000000000p+0%float; 0x1.999999999999ap-4%float];
    [0x1.0000000000000p+1%float; 0x1.4000000000000p+2%float; 0x1.3333333333333p-2%float];
    [(-0x1.0000000000000p+2)%float; 0x1.6666666666666p-1%float; 0x1.ccccccccccccdp-1%float]]
   [[0x1.8000000000000p+1%float; (-0x1.999999999999ap-2)%float; 0x1.0000000000000p+0%float];
    [(-0x1.0000000000000p+2)%float; 0x1.199999999999ap-1%float; 0x1.6666666666666p-1%float];
    [(-0x1.0000000000000p-1)%float; (-0x1.eccccccccccccp+0)%float; 0x1.5666666666666p+2%float]]
   [0%N; 2%N; 0%N] = true.
Proof. vm_compute. reflexivity. Qed.
Example corr_eltran_n3 : corr_eltran
   [[0x1.8000000000000p+1%float; (-0x1.999999999999ap-2)%float; 0x1.0000000000000p+0%float];
    [(-0x1.0000000000000p+2)%float; 0x1.199999999999ap-1%float; 0x1.6666666666666p-1%float];
    [(-0x1.0000000000000p-1)%float; (-0x1.eccccccccccccp+0)%float; 0x1.5666666666666p+2%float]]
   [0%N; 2%N; 0%N]
   [[0x1.0000000000000p+0%float; 0x0.0p+0%float; 0x0.0p+0%float];
    [0x0.0p+0%float; (-0x1.0000000000000p-1)%float; 0x1.0000000000000p+0%float];
    [0x0.0p+0%float; 0x1.0000000000000p+0%float; 0x0.0p+0%float]] = true.
Proof. vm_compute. reflexivity. Qed.
Example corr_elmhes_rand6 : corr_elmhes
   [[(-0x1.0e97c68a0285bp+0)%float; (-0x1.0c25d87a18d16p+1)%float; 0x1.cfabb3128abf8p-1%float; (-0x1.485e7251285d0p+1)%float; 0x1.b8eb069095700p-3%float; (-0x1.9c9a88a0359b8p-1)%float];
    [(-0x1.5374f288ab1cfp+1)%float; 0x1.6d7b2d271b080p-5%float; (-0x1.63340db7bfc2cp+1)%float; (-0x1.97ae50bed8028p-2)%float; (-0x1.4a59dd68e5776p+1)%float; (-0x1.3a55188b19768p+1)%float];
    [(-0x1.cfc10cd29a678p-2)%float; 0x1.f60b7c2c912e0p+0%float; (-0x1.20eb8b450b79ep+1)%float; (-0x1.a91ade06eb79cp+0)%float; 0x1.8779905fdeed0p-1%float; 0x1.57d728e5f0524p+1%float];
    [0x1.d9b873c1b2200p-2%float; (-0x1.3d65c7ecf52c4p-1)%float; 0x1.6dc39055394e8p+1%float; (-0x1.5c3978ea8f676p+1)%float; 0x1.134dc44cc8e78p+1%float; (-0x1.4328feaf867a5p+0)%float];
    [(-0x1.11364bec181aap+1)%float; (-0x1.25891a893139ap+1)%float; (-0x1.262c02d46e3c1p+0)%float; 0x1.e591f142f1cc0p+0%float; (-0x1.ea677eec369b3p+0)%float; 0x1.f559f5b6af5a0p-2%float];
    [0x1.aabdff4824790p-1%float; (-0x1.87fea7da962f8p-1)%float; 0x1.25578d22e6ac0p-2%float; (-0x1.4fc72f69d215cp+1)%float; (-0x1.5239eee493387p+1)%float; (-0x1.c3a5bd20b03c4p+0)%float]]
   [[(-0x1.0e97c68a0285bp+0)%float; (-0x1.10f2676ad46f2p+0)%float; 0x1.a9782db31f1c2p-1%float; 0x1.ee6657e6f5f30p-1%float; (-0x1.18198ec0c04adp+1)%float; (-0x1.9c9a88a0359b8p-1)%float];
    [(-0x1.5374f288ab1cfp+1)%float; (-0x1.aa4ddcda9bf66p+0)%float; (-0x1.3997d924b5e5ap+1)%float; (-0x1.8766e56256927p+0)%float; 0x1.8085bc553c3a6p-1%float; (-0x1.3a55188b19768p+1)%float];
    [0x1.5dbd00a2501bbp-3%float; (-0x1.967f149395dfdp+1)%float; (-0x1.808449724d8f0p-3)%float; 0x1.7eb6808701d90p-4%float; 0x1.102d5718e8243p+0%float; 0x1.3ba8dc5945234p+1%float];
    [(-0x1.654121d13d21bp-3)%float; (-0x1.5f74e08388236p-1)%float; 0x1.643e62cf2c7a4p+2%float; (-0x1.cd30906a3a329p+1)%float; (-0x1.338e17a0fcfeep+1)%float; 0x1.2638eb19258c5p+2%float];
    [0x1.9c156742953aep-1%float; (-0x1.35ae6061339fcp-1)%float; 0x1.257c14ad9bed4p-3%float; 0x1.b9c4ba5f09506p+1%float; (-0x1.d96b19cf60ef5p-1)%float; (-0x1.503ac905dec3cp-1)%float];
    [(-0x1.41d36defe099ap-2)%float; 0x1.7ba14805feb76p-1%float; (-0x1.0fb348068f3bcp-1)%float; (-0x1.df2d570020697p-2)%float; (-0x1.03b1dc7373a3dp+2)%float; (-0x1.1dbb2b9eec9e6p+1)%float]]
   [0%N; 1%N; 4%N; 4%N; 4%N; 0%N] = true.
Proof. vm_compute. reflexivity. Qed.
Example corr_eltran_rand6 : corr_eltran
   [[(-0x1.0e97c68a0285bp+0)%float; (-0x1.10f2676ad46f2p+0)%float; 0x1.a9782db31f1c2p-1%float; 0x1.ee6657e6f5f30p-1%float; (-0x1.18198ec0c04adp+1)%float; (-0x1.9c9a88a0359b8p-1)%float];
    [(-0x1.5374f288ab1cfp+1)%float; (-0x1.aa4ddcda9bf66p+0)%float; (-0x1.3997d924b5e5ap+1)%float; (-0x1.8766e56256927p+0)%float; 0x1.8085bc553c3a6p-1%float; (-0x1.3a55188b19768p+1)%float];
    [0x1.5dbd00a2501bbp-3%float; (-0x1.967f149395dfdp+1)%float; (-0x1.808449724d8f0p-3)%float; 0x1.7eb6808701d90p-4%float; 0x1.102d5718e8243p+0%float; 0x1.3ba8dc5945234p+1%float];
    [(-0x1.654121d13d21bp-3)%float; (-0x1.5f74e08388236p-1)%float; 0x1.643e62cf2c7a4p+2%float; (-0x1.cd30906a3a329p+1)%float; (-0x1.338e17a0fcfeep+1)%float; 0x1.2638eb19258c5p+2%float];
    [0x1.9c156742953aep-1%float; (-0x1.35ae6061339fcp-1)%float; 0x1.257c14ad9bed4p-3%float; 0x1.b9c4ba5f09506p+1%float; (-0x1.d96b19cf60ef5p-1)%float; (-0x1.503ac905dec3cp-1)%float];
    [(-0x1.41d36defe099ap-2)%float; 0x1.7ba14805feb76p-1%float; (-0x1.0fb348068f3bcp-1)%float; (-0x1.df2d570020697p-2)%float; (-0x1.03b1dc7373a3dp+2)%float; (-0x1.1dbb2b9eec9e6p+1)%float]]
   [0%N; 1%N; 4%N; 4%N; 4%N; 0%N]
   [[0x1.0000000000000p+0%float; 0x0.0p+0%float; 0x0.0p+0%float; 0x0.0p+0%float; 0x0.0p+0%float; 0x0.0p+0%float];
    [0x0.0p+0%float; 0x1.0000000000000p+0%float; 0x0.0p+0%float; 0x0.0p+0%float; 0x0.0p+0%float; 0x0.0p+0%float];
    [0x0.0p+0%float; 0x1.5dbd00a2501bbp-3%float; (-0x1.35ae6061339fcp-1)%float; 0x1.0000000000000p+0%float; 0x0.0p+0%float; 0x0.0p+0%float];
    [0x0.0p+0%float; (-0x1.654121d13d21bp-3)%float; (-0x1.5f74e08388236p-1)%float; 0x1.257c14ad9bed4p-3%float; 0x1.0000000000000p+0%float; 0x0.0p+0%float];
    [0x0.0p+0%float; 0x1.9c156742953aep-1%float; 0x1.0000000000000p+0%float; 0x0.0p+0%float; 0x0.0p+0%float; 0x0.0p+0%float];
    [0x0.0p+0%float; (-0x1.41d36defe099ap-2)%float; 0x1.7ba14805feb76p-1%float; (-0x1.0fb348068f3bcp-1)%float; (-0x1.df2d570020697p-2)%float; 0x1.0000000000000p+0%float]] = true.
Proof. vm_compute. reflexivity. Qed.
Example corr_elmhes_rand6z : corr_elmhes
   [[0x1.151827e6171d0p+0%float; (-0x1.bcdf74ab169b0p-2)%float; (-0x1.1d784e669abccp+0)%float; 0x1.06d8966299fb4p-1%float; (-0x1.1fa29bea4e040p-2)%float; (-0x1.338ed2104d565p+0)%float];
    [0x1.c42ab8e283e50p+0%float; 0x1.31a7cb95ba2f8p+0%float; (-0x1.891158b048a9cp+0)%float; 0x1.c9425fe697610p-2%float; 0x1.359d58f87fac0p-3%float; 0x1.201b0860f9422p+1%float];
    [0x1.606d8f162d190p+0%float; (-0x1.45ba438b14727p+0)%float; 0x1.70c6376706fc0p+1%float; (-0x1.255352cedabd3p+1)%float; (-0x1.f70daa814f220p-2)%float; 0x1.8af7ed81acba0p+0%float];
    [(-0x1.0b469fe667f3ap+1)%float; 0x0.0p+0%float; (-0x1.61e38a23a56b6p+1)%float; 0x1.02612a8ee7338p+0%float; 0x1.96617f6b268a0p+0%float; 0x1.c0abdf5e063a0p-2%float];
    [0x0.0p+0%float; (-0x1.1e15753eb24e5p+0)%float; 0x1.2bf943433bf7cp+0%float; 0x1.21e77dbeb91e8p-1%float; 0x1.eae04a6403560p-2%float; (-0x1.0d130ecb30a80p-2)%float];
    [0x1.051862a8fc370p+1%float; 0x1.5583dc59ea070p+1%float; 0x0.0p+0%float; 0x1.f8468c18f5c1cp-1%float; (-0x1.5167e7b9cf074p+1)%float; 0x1.357de2fb71d24p+0%float]]
   [[0x1.151827e6171d0p+0%float; 0x1.6513e3427a03cp+1%float; (-0x1.0616cf29c51c7p+0)%float; (-0x1.0f7e0e06b59e6p+0)%float; (-0x1.1e382e0ed7367p+0)%float; (-0x1.1fa29bea4e040p-2)%float];
    [(-0x1.0b469fe667f3ap+1)%float; 0x1.33b86865f215ep+1%float; (-0x1.a292dfd81fe26p+1)%float; (-0x1.1b0335ca5cecdp-2)%float; (-0x1.0d8829ca07d70p-5)%float; 0x1.96617f6b268a0p+0%float];
    [(-0x1.518f4703cb6acp-1)%float; (-0x1.84bb796f091a2p+1)%float; 0x1.0edd559108c7ap+0%float; (-0x1.71ad3d0995df8p-2)%float; 0x1.aabc15b2c922ap+0%float; 0x1.1c52f4aca3692p-1%float];
    [(-0x1.b1173e568603fp-1)%float; (-0x1.7e943c95b8b20p-4)%float; (-0x1.12539eb57bd99p+2)%float; 0x1.1d0aba0571ce8p+1%float; 0x1.2abaeac01e99dp+1%float; 0x1.8bbad59fa8ddbp+0%float];
    [0x0.0p+0%float; (-0x1.4fb616a4d9377p-2)%float; (-0x1.5c089a64a0042p-2)%float; 0x1.58f81b49b3f05p+1%float; 0x1.0000ef6f92179p-1%float; (-0x1.0431bb87d3f0ap+1)%float];
    [(-0x1.f429066bf0a1fp-1)%float; 0x1.19dc3fb0322aep-5%float; 0x1.337fb96c276afp-1%float; (-0x1.2fdd6cbc8f767p-2)%float; 0x1.1543872e8222ap+0%float; 0x1.2ace90cf10cd5p-1%float]]
   [0%N; 3%N; 2%N; 3%N; 5%N; 0%N] = true.
Proof. vm_compute. reflexivity. Qed.
Example corr_eltran_rand6z : corr_eltran
   [[0x1.151827e6171d0p+0%float; 0x1.6513e3427a03cp+1%float; (-0x1.0616cf29c51c7p+0)%float; (-0x1.0f7e0e06b59e6p+0)%float; (-0x1.1e382e0ed7367p+0)%float; (-0x1.1fa29bea4e040p-2)%float];
    [(-0x1.0b469fe667f3ap+1)%float; 0x1.33b86865f215ep+1%float; (-0x1.a292dfd81fe26p+1)%float; (-0x1.1b0335ca5cecdp-2)%float; (-0x1.0d8829ca07d70p-5)%float; 0x1.96617f6b268a0p+0%float];
    [(-0x1.518f4703cb6acp-1)%float; (-0x1.84bb796f091a2p+1)%float; 0x1.0edd559108c7ap+0%float; (-0x1.71ad3d0995df8p-2)%float; 0x1.aabc15b2c922ap+0%float; 0x1.1c52f4aca3692p-1%float];
    [(-0x1.b1173e568603fp-1)%float; (-0x1.7e943c95b8b20p-4)%float; (-0x1.12539eb57bd99p+2)%float; 0x1.1d0aba0571ce8p+1%float; 0x1.2abaeac01e99dp+1%float; 0x1.8bbad59fa8ddbp+0%float];
    [0x0.0p+0%float; (-0x1.4fb616a4d9377p-2)%float; (-0x1.5c089a64a0042p-2)%float; 0x1.58f81b49b3f05p+1%float; 0x1.0000ef6f92179p-1%float; (-0x1.0431bb87d3f0ap+1)%float];
    [(-0x1.f429066bf0a1fp-1)%float; 0x1.19dc3fb0322aep-5%float; 0x1.337fb96c276afp-1%float; (-0x1.2fdd6cbc8f767p-2)%float; 0x1.1543872e8222ap+0%float; 0x1.2ace90cf10cd5p-1%float]]
   [0%N; 3%N; 2%N; 3%N; 5%N; 0%N]
   [[0x1.0000000000000p+0%float; 0x0.0p+0%float; 0x0.0p+0%float; 0x0.0p+0%float; 0x0.0p+0%float; 0x0.0p+0%float];
    [0x0.0p+0%float; (-0x1.b1173e568603fp-1)%float; (-0x1.7e943c95b8b20p-4)%float; 0x1.0000000000000p+0%float; 0x0.0p+0%float; 0x0.0p+0%float];
    [0x0.0p+0%float; (-0x1.518f4703cb6acp-1)%float; 0x1.0000000000000p+0%float; 0x0.0p+0%float; 0x0.0p+0%float; 0x0.0p+0%float];
    [0x0.0p+0%float; 0x1.0000000000000p+0%float; 0x0.0p+0%float; 0x0.0p+0%float; 0x0.0p+0%float; 0x0.0p+0%float];
    [0x0.0p+0%float; 0x0.0p+0%float; (-0x1.4fb616a4d9377p-2)%float; (-0x1.5c089a64a0042p-2)%float; (-0x1.2fdd6cbc8f767p-2)%float; 0x1.0000000000000p+0%float];
    [0x0.0p+0%float; (-0x1.f429066bf0a1fp-1)%float; 0x1.19dc3fb0322aep-5%float; 0x1.337fb96c276afp-1%float; 0x1.0000000000000p+0%float; 0x0.0p+0%float]] = true.
Proof. vm_compute. reflexivity. Qed.
