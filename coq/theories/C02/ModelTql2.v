(* C02 — src/linalg/evd.rs `tql2`, everything BEFORE the final descending selection sort (which is
   `tql2_sort` of C02/Model.v): the shift of e, and for l = 0..n-1 the search of a negligible
   off-diagonal element, the QL sweeps with shift (at most 29 per l; the 30th entry of the inner
   `loop` panics), accumulation of the plane rotations into the columns of V.
   Executable definitions only, generic in `Ops T`.

   Extra parameters: `hypot` (T::hypot), `eps` (T::epsilon()), `n` (order of V; the code evaluates
   `e[n - 1]`, so n = 0 panics = None).

   Arrays are total functions (FunMat.v): `vupd`/`mupd` are assignment, `forn`/`ford` the two kinds
   of bounded `for`.  Panics are `None`.

   GHOST: the boolean `ok` (fields `rok`, `qok`) is NOT a program variable.  It is the conjunction,
   over all plane rotations performed, of `r != 0` where r = p.hypot(e[i]) is the divisor of
   `s = e[i] / r; c = p / r`.  It is computed alongside and never read by the computation; the
   theorems of ProofsTql2.v assume that it is `true` on return (over R, x / 0 = 0 in Coq whereas the
   code would produce NaN/inf: the flag keeps the theorem honest). *)
From Coq Require Import List Arith Bool ZArith.
From SC Require Import Base.Num C02.FunMat.
Import ListNotations.

Section Tql2.
  Context {T : Type} (O : Ops T).
  Variable hypot : T -> T -> T.            (* a.hypot(b) *)
  Variable eps : T.                        (* T::epsilon() *)
  Variable n : nat.                        (* let (n, _) = V.shape() *)

  Local Notation zero := (O.(o0)).
  Local Notation one := (O.(o1)).
  Local Infix "+" := (O.(oadd)).
  Local Infix "-" := (O.(osub)).
  Local Infix "*" := (O.(omul)).
  Local Infix "/" := (O.(odiv)).
  Local Notation "-- x" := (O.(oneg) x) (at level 35, right associativity).
  Local Notation abs := (O.(oabs)).

  (* re-tabulation of the arrays (identity on the indices < n; only there to keep the closures that
     represent the arrays short when the model is executed) *)
  Definition vtab (v : nat -> T) : nat -> T := vfun zero (vlist n v).
  Definition mtab (M : nat -> nat -> T) : nat -> nat -> T := mfun zero (mrows n M).

  (*  for i in 1..n { e[i - 1] = e[i]; }   e[n - 1] = 0;  *)
  Definition e_shift (e : nat -> T) : nat -> T :=
    vupd (forn 1 (n - 1) (fun i e => vupd e (i - 1) (e i)) e) (n - 1) zero.

  (*  loop { if m < n { if e[m].abs() <= tst1 * eps { break; } m += 1; } else { break; } }
      started at m = l it makes at most n - l increments: fuel n - l + 1 is never exhausted *)
  Fixpoint find_m (e : nat -> T) (tst1 : T) (fuel m : nat) : nat :=
    match fuel with
    | 0 => m
    | S k => if m <? n
             then if O.(oleb) (abs (e m)) (tst1 * eps) then m else find_m e tst1 k (S m)
             else m
    end.

  (*  for k in 0..n { h = V[k][i+1]; V[k][i+1] = s * V[k][i] + c * h; V[k][i] = c * V[k][i] - s * h; }  *)
  Definition rot_cols (i : nat) (c s : T) (V : nat -> nat -> T) : nat -> nat -> T :=
    forn 0 n (fun k V =>
      let h := V k (S i) in
      let V1 := mupd V k (S i) (s * V k i + c * h) in
      mupd V1 k i (c * V1 k i - s * h)) V.

  (* variables of the sweep `for i in (l..m).rev()`; rok is GHOST *)
  Record rstate := mkRS {
    rc : T; rc2 : T; rc3 : T; rs : T; rs2 : T; rp : T;
    rd : nat -> T; re : nat -> T; rV : nat -> nat -> T;
    rok : bool }.

  (* body of `for i in (l..m).rev()` *)
  Definition ql_rot (i : nat) (st : rstate) : rstate :=
    let c3 := rc2 st in                       (* c3 = c2 *)
    let c2 := rc st in                        (* c2 = c *)
    let s2 := rs st in                        (* s2 = s *)
    let d := rd st in
    let e := re st in
    let p := rp st in
    let g := c2 * e i in                      (* g = c * e[i] *)
    let h := c2 * p in                        (* h = c * p *)
    let r := hypot p (e i) in                 (* r = p.hypot(e[i]) *)
    let e1 := vupd e (S i) (s2 * r) in        (* e[i + 1] = s * r *)
    let s := e1 i / r in                      (* s = e[i] / r *)
    let c := p / r in                         (* c = p / r *)
    let p' := c * d i - s * g in              (* p = c * d[i] - s * g *)
    let d1 := vupd d (S i) (h + s * (c * g + s * d i)) in   (* d[i + 1] = h + s * (c * g + s * d[i]) *)
    let V1 := rot_cols i c s (rV st) in
    mkRS c c2 c3 s s2 p' d1 e1 V1
         (rok st && negb (O.(oeqb) r zero)).  (* GHOST: r != 0 *)

  (* state of the QL iteration for one l; qok is GHOST *)
  Record qstate := mkQS {
    qV : nat -> nat -> T; qd : nat -> T; qe : nat -> T; qf : T;
    qok : bool }.

  Definition qtab (q : qstate) : qstate :=
    mkQS (mtab (qV q)) (vtab (qd q)) (vtab (qe q)) (qf q) (qok q).

  (* one pass of the inner `loop` after the iteration count: shift, sweep, closing formulas *)
  Definition ql_sweep_core (l m : nat) (q : qstate) : qstate :=
    let d := qd q in
    let e := qe q in
    let g := d l in                                            (* g = d[l] *)
    let p := (d (S l) - g) / (O.(oofZ) 2%Z * e l) in           (* p = (d[l+1] - g) / (2 * e[l]) *)
    let r0 := hypot p one in                                   (* r = p.hypot(1) *)
    let r := if O.(oltb) p zero then -- r0 else r0 in          (* if p < 0 { r = -r } *)
    let dl := e l / (p + r) in
    let d1 := vupd d l dl in                                   (* d[l] = e[l] / (p + r) *)
    let dl1 := e l * (p + r) in
    let d2 := vupd d1 (S l) dl1 in                             (* d[l+1] = e[l] * (p + r); dl1 = d[l+1] *)
    let h := g - d2 l in                                       (* h = g - d[l] *)
    let d3 := forn (S (S l)) (n - S (S l)) (fun i d => vupd d i (d i - h)) d2 in  (* d[i] -= h, i in l+2..n *)
    let f := qf q + h in                                       (* f += h *)
    let p := d3 m in                                           (* p = d[m] *)
    let el1 := e (S l) in                                      (* el1 = e[l+1] *)
    let st := ford l (m - l) ql_rot
                (mkRS one one one zero zero p d3 e (qV q) (qok q)) in
    let s := rs st in
    let c := rc st in
    let e' := re st in
    let p := -- s * rs2 st * rc3 st * el1 * e' l / dl1 in      (* p = -s * s2 * c3 * el1 * e[l] / dl1 *)
    let e'' := vupd e' l (s * p) in                            (* e[l] = s * p *)
    let d'' := vupd (rd st) l (c * p) in                       (* d[l] = c * p *)
    mkQS (rV st) d'' e'' f (rok st).

  Definition ql_sweep (l m : nat) (q : qstate) : qstate := ql_sweep_core l m (qtab q).

  (*  loop { iter += 1; if iter >= 30 { panic } ...sweep...; if e[l].abs() <= tst1 * eps { break; } }
      fuel 29: sweeps 1..29 are performed, the 30th entry panics *)
  Fixpoint ql_loop (tst1 : T) (l m : nat) (fuel : nat) (q : qstate) : option qstate :=
    match fuel with
    | 0 => None
    | S k =>
        let q' := ql_sweep l m q in
        if O.(oleb) (abs (qe q' l)) (tst1 * eps) then Some q' else ql_loop tst1 l m k q'
    end.

  Definition ql_fuel : nat := 29.

  (* body of `for l in 0..n`; the state carries tst1 *)
  Definition ql_outer (l : nat) (st : option (qstate * T)) : option (qstate * T) :=
    match st with
    | None => None
    | Some (q, tst0) =>
        let tst1 := omax O tst0 (abs (qd q l) + abs (qe q l)) in   (* tst1 = max(tst1, |d[l]| + |e[l]|) *)
        let m := find_m (qe q) tst1 (n - l + 1) l in
        let r := if l <? m
                 then (if n <=? m then None                     (* d[m] (or d[l+1]) out of bounds: panic *)
                       else ql_loop tst1 l m ql_fuel q)
                 else Some q in
        match r with
        | None => None
        | Some q' =>
            Some (mkQS (qV q') (vupd (qd q') l (qd q' l + qf q'))   (* d[l] += f *)
                       (vupd (qe q') l zero)                        (* e[l] = 0 *)
                       (qf q') (qok q'), tst1)
        end
    end.

  (* the QL part of tql2: (V, d, e, GHOST ok) before the final sort *)
  Definition tql2_ql (V : nat -> nat -> T) (d e : nat -> T)
    : option ((nat -> nat -> T) * (nat -> T) * (nat -> T) * bool) :=
    if n =? 0 then None                                          (* e[n - 1] underflows *)
    else
      match forn 0 n ql_outer (Some (mkQS V d (e_shift e) zero true, zero)) with
      | None => None
      | Some (q, _) => Some (qV q, qd q, qe q, qok q)
      end.
End Tql2.

(* on lists: rows of V, d, e (n = length d) *)
Definition tql2_ql_rows {T} (O : Ops T) (hypot : T -> T -> T) (eps : T)
    (V : list (list T)) (d e : list T) : option (list (list T) * list T * list T * bool) :=
  let n := length d in
  match tql2_ql O hypot eps n (mfun O.(o0) V) (vfun O.(o0) d) (vfun O.(o0) e) with
  | None => None
  | Some (V', d', e', ok) => Some (mrows n V', vlist n d', vlist n e', ok)
  end.
