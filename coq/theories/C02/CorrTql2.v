(* C02 — correspondence interface for the QL part of tql2 (ModelTql2.v): the model at binary64 with
   hypot a b := sqrt (a*a + b*b) (the implementation calls libm's hypot: agreement is by tolerance)
   against what the implementation left in (V, d) before the final sort. *)
From Coq Require Import List ZArith Bool Floats.
From SC Require Import Base.FloatUtil Base.Num C02.FunMat C02.ModelTql2.
Import ListNotations.

Definition fhypot_naive (a b : float) : float :=
  PrimFloat.sqrt (PrimFloat.add (PrimFloat.mul a a) (PrimFloat.mul b b)).
Definition eps_f64_tql2 : float := 0x1p-52%float.

Definition fmaxabs (l : list float) : float := fold_left (fun m x => fmax m (fabs x)) l 0%float.
Definition fmaxabs_mat (A : list (list float)) : float := fold_left (fun m r => fmax m (fmaxabs r)) A 0%float.

(* |a - b| <= tol * scale entrywise (NaN = NaN), same shape *)
Definition flist_eq_abs (tol scale : float) := list_eqb (feq_abs tol scale).
Definition fmat_eq_abs (tol scale : float) := list_eqb (flist_eq_abs tol scale).

Definition tql2_ql_f64 (V : list (list float)) (d e : list float) :=
  tql2_ql_rows FOps fhypot_naive eps_f64_tql2 V d e.

(* V (rows), d, e on entry of tql2; xV (rows), xd: what the implementation holds before the final sort.
   d is compared with tolerance tol * max(|d_in|, |e_in|), V with tolerance tol * max |V_in|. *)
Definition corr_tql2_ql (tol : float) (V : list (list float)) (d e : list float)
    (xV : list (list float)) (xd : list float) : bool :=
  match tql2_ql_f64 V d e with
  | None => false
  | Some (V', d', _, _) =>
      fmat_eq_abs tol (fmaxabs_mat V) V' xV &&
      flist_eq_abs tol (fmax (fmaxabs d) (fmaxabs e)) d' xd
  end.

(* the model must also leave e = 0 and the ghost flag true on these runs *)
Definition corr_tql2_ql_e0 (V : list (list float)) (d e : list float) : bool :=
  match tql2_ql_f64 V d e with
  | None => false
  | Some (_, _, e', ok) => ok && forallb (fun x => PrimFloat.eqb x 0%float) e'
  end.

(* expected outputs computed independently (python3 re-implementation of the Rust loop in IEEE
   doubles with math.hypot) *)
Definition ex1_V : list (list float) :=
  [[(0x1.0000000000000p+0)%float; (0x0.0p+0)%float; (0x0.0p+0)%float; (0x0.0p+0)%float; (0x0.0p+0)%float; (0x0.0p+0)%float];
    [(0x0.0p+0)%float; (0x1.0000000000000p+0)%float; (0x0.0p+0)%float; (0x0.0p+0)%float; (0x0.0p+0)%float; (0x0.0p+0)%float];
    [(0x0.0p+0)%float; (0x0.0p+0)%float; (0x1.0000000000000p+0)%float; (0x0.0p+0)%float; (0x0.0p+0)%float; (0x0.0p+0)%float];
    [(0x0.0p+0)%float; (0x0.0p+0)%float; (0x0.0p+0)%float; (0x1.0000000000000p+0)%float; (0x0.0p+0)%float; (0x0.0p+0)%float];
    [(0x0.0p+0)%float; (0x0.0p+0)%float; (0x0.0p+0)%float; (0x0.0p+0)%float; (0x1.0000000000000p+0)%float; (0x0.0p+0)%float];
    [(0x0.0p+0)%float; (0x0.0p+0)%float; (0x0.0p+0)%float; (0x0.0p+0)%float; (0x0.0p+0)%float; (0x1.0000000000000p+0)%float]].
Definition ex1_d : list float := [(-0x1.e000000000000p+0)%float; (-0x1.8000000000000p+1)%float; (0x1.0000000000000p-4)%float; (-0x1.1000000000000p+1)%float; (0x1.f000000000000p+1)%float; (0x1.9800000000000p+1)%float].
Definition ex1_e : list float := [(0x1.c000000000000p+1)%float; (0x1.0800000000000p+1)%float; (-0x1.6000000000000p-1)%float; (-0x1.4000000000000p+1)%float; (0x1.e000000000000p+1)%float; (-0x1.c800000000000p+1)%float].
Definition ex1_xV : list (list float) :=
  [[(0x1.716f7226f3abap-1)%float; (0x1.5f11bce5b9c24p-2)%float; (0x1.2711b951be116p-1)%float; (0x1.515c3af079f0ep-3)%float; (0x1.9e046134ac3a2p-5)%float; (-0x1.57a680991db03p-10)%float];
    [(0x1.f439b1c38008bp-2)%float; (0x1.60c171abedfe0p-2)%float; (-0x1.7f08fc4ad3ed1p-1)%float; (-0x1.14a2d9aca2ae1p-2)%float; (0x1.99847bcf4634fp-4)%float; (-0x1.9bcbb99b6d821p-8)%float];
    [(0x1.7e156230bda09p-2)%float; (-0x1.25b08059c529dp-1)%float; (0x1.4510760863a62p-5)%float; (-0x1.9255e6517990dp-2)%float; (-0x1.35efd5bb41ae7p-1)%float; (0x1.8c18fdd3a30d8p-4)%float];
    [(-0x1.b6d6619261f15p-5)%float; (-0x1.053e9e7d2b44fp-4)%float; (0x1.1dad013dc97cfp-2)%float; (-0x1.860c5a1796f5fp-1)%float; (0x1.f71e8c5c03db6p-2)%float; (-0x1.39113bea3b338p-2)%float];
    [(0x1.cd4797c424e20p-3)%float; (-0x1.b008a09fbba40p-2)%float; (-0x1.3ba86ecf60eeap-3)%float; (0x1.7f6b30ef7238ap-2)%float; (0x1.4f6ad37b47494p-3)%float; (-0x1.861724223fbafp-1)%float];
    [(0x1.c03cb1b7f9fd9p-3)%float; (-0x1.015eb4be1e843p-1)%float; (-0x1.2294d8498aa06p-4)%float; (0x1.437ce8c81bb68p-3)%float; (0x1.301aae5ab2874p-1)%float; (0x1.201ca23184ebfp-1)%float]].
Definition ex1_xd : list float := [(-0x1.ea25cb379fffap-2)%float; (0x1.944a3526c0a78p-3)%float; (-0x1.235a0d1306cfap+2)%float; (-0x1.507b05a3ea117p+2)%float; (0x1.1a42f9d17a600p+1)%float; (0x1.0059d06c3bd60p+3)%float].
Example corr_tql2_ql_ex1 : corr_tql2_ql 0x1p-40%float ex1_V ex1_d ex1_e ex1_xV ex1_xd = true.
Proof. vm_compute. reflexivity. Qed.
Example corr_tql2_ql_e0_ex1 : corr_tql2_ql_e0 ex1_V ex1_d ex1_e = true.
Proof. vm_compute. reflexivity. Qed.

Definition ex2_V : list (list float) :=
  [[(-0x1.c000000000000p-1)%float; (-0x1.8000000000000p-1)%float; (-0x1.8000000000000p-1)%float];
    [(0x1.8000000000000p-2)%float; (-0x1.8000000000000p-2)%float; (0x1.0000000000000p-3)%float];
    [(0x0.0p+0)%float; (-0x1.0000000000000p-2)%float; (-0x1.c000000000000p-1)%float]].
Definition ex2_d : list float := [(-0x1.8000000000000p+0)%float; (0x1.7000000000000p+1)%float; (0x1.2000000000000p+1)%float].
Definition ex2_e : list float := [(0x1.f000000000000p+0)%float; (0x1.8800000000000p+1)%float; (0x1.0000000000000p+2)%float].
Definition ex2_xV : list (list float) :=
  [[(-0x1.02d74a271a797p-1)%float; (-0x1.1ae597c83544dp-2)%float; (-0x1.3f9ce8cc6c764p+0)%float];
    [(0x1.118e19932af33p-1)%float; (0x1.73d81c4a0c402p-7)%float; (-0x1.b317027f1bd2cp-4)%float];
    [(-0x1.7758b95d9da3dp-3)%float; (0x1.0e2f54c4fd160p-1)%float; (-0x1.6fcee0bf64043p-1)%float]].
Definition ex2_xd : list float := [(-0x1.e84c450f0a226p+1)%float; (0x1.fc07e0bbda000p-3)%float; (0x1.cc45e381a6414p+2)%float].
Example corr_tql2_ql_ex2 : corr_tql2_ql 0x1p-40%float ex2_V ex2_d ex2_e ex2_xV ex2_xd = true.
Proof. vm_compute. reflexivity. Qed.
Example corr_tql2_ql_e0_ex2 : corr_tql2_ql_e0 ex2_V ex2_d ex2_e = true.
Proof. vm_compute. reflexivity. Qed.

