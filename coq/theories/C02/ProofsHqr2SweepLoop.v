(* C02 — hqr2, first half, over R: the loop `for k in m..nn` of one sweep (with m = l) is an orthogonal
   similarity of the upper Hessenberg part of the working array, accumulated into V. *)
From Coq Require Import List Arith Bool Lia Reals Lra Psatz Setoid Morphisms.
From SC Require Import Base.Num C02.FunMat C02.Model C02.ModelTql2 C02.ModelHqr2Spec C02.ModelHqr2Sweep
  C02.ProofsHouse C02.ProofsHqr2SweepAlg C02.ProofsHqr2SweepJ C02.ProofsHqr2SweepRel C02.ProofsHqr2SweepStep.
Local Open Scope R_scope.

(* ---------- k_step in canonical form ---------- *)
Section KStep.
  Variables (n nn m : nat) (p0 q0 r0 : R).

  Lemma k_step_core_first A V :
    k_step_core ROps Rcopysign n m m nn p0 q0 r0 m (A, V) = kform n nn m true p0 q0 r0 0 A V.
  Proof.
    unfold k_step_core, kform, A1m, ks, mmin. rewrite !Nat.eqb_refl. rops. reflexivity.
  Qed.

  Lemma k_step_core_next k A V : k <> m ->
    let last := S k =? nn in
    let pr := A k (pred k) in
    let qr := A (S k) (pred k) in
    let rr := if last then 0 else A (S (S k)) (pred k) in
    let xs := Rabs pr + Rabs qr + Rabs rr in
    k_step_core ROps Rcopysign n m m nn p0 q0 r0 k (A, V) =
      if negb (Reqb xs 0) then kform n nn k false (pr / xs) (qr / xs) (rr / xs) xs A V
      else kform n nn k false pr qr rr xs A V.
  Proof.
    intros Hkm. cbv zeta. unfold k_step_core, kform, A1m, ks, mmin.
    apply Nat.eqb_neq in Hkm. rewrite !Hkm. rops.
    destruct (Reqb (Rabs (A k (pred k)) + Rabs (A (S k) (pred k)) +
                    Rabs (if S k =? nn then 0 else A (S (S k)) (pred k))) 0); cbn [negb]; reflexivity.
  Qed.
End KStep.

Lemma mtab_eqR n (M : mat) a b : (a < n)%nat -> (b < n)%nat -> mtab ROps n M a b = M a b.
Proof. intros Ha Hb. unfold mtab. apply mfun_mrows; assumption. Qed.

Lemma Rabs3_zero a b c : Rabs a + Rabs b + Rabs c = 0 -> a = 0 /\ b = 0 /\ c = 0.
Proof.
  intros H. pose proof (Rabs_pos a). pose proof (Rabs_pos b). pose proof (Rabs_pos c).
  assert (Ha : Rabs a = 0) by lra. assert (Hb : Rabs b = 0) by lra. assert (Hc : Rabs c = 0) by lra.
  repeat split; [destruct (Req_dec a 0) as [E|E]|destruct (Req_dec b 0) as [E|E]|destruct (Req_dec c 0) as [E|E]];
    try exact E; apply Rabs_no_R0 in E; contradiction.
Qed.

Section KLoop.
  Variables (n nn m : nat) (p0 q0 r0 : R) (A0 V0 : mat).
  Hypothesis Hm : (S (S m) <= nn)%nat.
  Hypothesis Hnn : (nn < n)%nat.
  Hypothesis H0 : forall c, (c < n)%nat -> S c = m -> A0 m c = 0.
  Hypothesis Hclean : forall r c, (r < n)%nat -> (c < n)%nat -> (S c < r)%nat -> (r <= nn)%nat ->
    (r <= c + 3)%nat -> (m <= c)%nat -> A0 r c = 0.
  Hypothesis He : (S nn < n)%nat -> A0 (S nn) nn = 0.

  Definition KInv (k : nat) (AV : mat * mat) : Prop := exists M G,
    Rel n nn (k =? m) k M (fst AV) /\ orth2 n G /\ Jcomm n nn G /\
    meq n (mmul n (uhess A0) G) (mmul n G M) /\
    (forall i j, (i < n)%nat -> (j < n)%nat -> snd AV i j = mmul n V0 G i j) /\
    (forall i j, (i < n)%nat -> (j < n)%nat -> (nn < i)%nat -> fst AV i j = A0 i j) /\
    (k = m -> forall c, (c < n)%nat -> S c = m -> fst AV m c = 0).

  Lemma KInv_init : KInv m (A0, V0).
  Proof.
    exists (uhess A0), mid. cbn [fst snd]. rewrite Nat.eqb_refl.
    split; [|split; [apply orth2_mid|split; [apply Jcomm_mid|split; [|split; [|split]]]]].
    - unfold Rel. split; [|split; [|split]].
      + intros r c Hr Hc Hrc. unfold uhess. cmp. reflexivity.
      + intros r c Hr Hc Hrc. unfold uhess, bulge. cbn [negb andb]. cmp. reflexivity.
      + intros r c Hr Hc Hrc H1 H2 H3 _. apply Hclean; assumption.
      + exact He.
    - rewrite (mmul_id_r n (uhess A0)). rewrite (mmul_id_l n (uhess A0)). reflexivity.
    - intros i j Hi Hj. symmetry. apply (mmul_id_r n V0); assumption.
    - intros; reflexivity.
    - intros _ c Hc Hcm. apply H0; assumption.
  Qed.

  Lemma kform_inv k first p q r xs A V M G :
    (m <= k)%nat -> (S k <= nn)%nat ->
    Rel n nn first k M A ->
    ((S k =? nn) = true -> r = 0) ->
    (first = false -> exists k1, k = S k1 /\
       A k k1 = xs * p /\ A (S k) k1 = xs * q /\ ((S (S k) <= nn)%nat -> A (S (S k)) k1 = xs * r)) ->
    (first = true -> forall c, S c = k -> A k c = 0) ->
    orth2 n G -> Jcomm n nn G ->
    meq n (mmul n (uhess A0) G) (mmul n G M) ->
    (forall i j, (i < n)%nat -> (j < n)%nat -> V i j = mmul n V0 G i j) ->
    (forall i j, (i < n)%nat -> (j < n)%nat -> (nn < i)%nat -> A i j = A0 i j) ->
    KInv (S k) (kform n nn k first p q r xs A V).
  Proof.
    intros Hmk Hk HRel Hr0 Hcol Hfirst HG HJ Hsim HV Hfr.
    destruct (step_rel n nn k first p q r xs A V M Hk Hnn HRel Hr0 Hcol Hfirst)
      as (M' & P & HR & Hs & HPP & HM' & HV' & HJP & Hfr').
    exists M', (mmul n G P).
    replace (S k =? m) with false by (symmetry; apply Nat.eqb_neq; lia).
    split; [exact HR|]. split; [apply orth2_mul; [exact HG|apply orth2_invol; assumption]|].
    split; [apply Jcomm_mul; assumption|].
    split; [apply sim_mul with (H := M); assumption|].
    split; [|split].
    - intros i j Hi Hj. rewrite HV' by assumption.
      rewrite <- (mmul_assoc n V0 G P i j). unfold mmul at 1 3. apply rsum_ext. intros c Hc.
      rewrite HV by assumption. reflexivity.
    - intros i j Hi Hj Hin. rewrite Hfr' by exact Hin. apply Hfr; assumption.
    - intros E. lia.
  Qed.

  Lemma k_step_inv k AV : (m <= k)%nat -> (k < nn)%nat ->
    KInv k AV -> KInv (S k) (k_step ROps Rcopysign n m m nn p0 q0 r0 k AV).
  Proof.
    intros Hmk Hk. destruct AV as [A V].
    intros (M & G & HRel & HG & HJ & Hsim & HV & Hfr & Hfirst). cbn [fst snd] in *.
    unfold k_step. cbn [fst snd].
    set (At := mtab ROps n A). set (Vt := mtab ROps n V).
    assert (HAt : forall i j, (i < n)%nat -> (j < n)%nat -> A i j = At i j)
      by (intros; symmetry; apply mtab_eqR; assumption).
    assert (HRt : Rel n nn (k =? m) k M At) by (eapply Rel_ext; [exact HAt|exact HRel]).
    assert (HVt : forall i j, (i < n)%nat -> (j < n)%nat -> Vt i j = mmul n V0 G i j).
    { intros i j Hi Hj. unfold Vt. rewrite mtab_eqR by assumption. apply HV; assumption. }
    assert (Hfrt : forall i j, (i < n)%nat -> (j < n)%nat -> (nn < i)%nat -> At i j = A0 i j).
    { intros i j Hi Hj Hin. rewrite <- HAt by assumption. apply Hfr; assumption. }
    destruct (Nat.eq_dec k m) as [->|Hkm].
    - rewrite k_step_core_first. rewrite Nat.eqb_refl in HRt.
      apply kform_inv with (M := M) (G := G); try assumption; try lia.
      + intros E. apply Nat.eqb_eq in E. lia.
      + intros _ c Hc. rewrite <- HAt by lia. apply Hfirst; [reflexivity|lia|exact Hc].
    - rewrite (k_step_core_next n nn m p0 q0 r0 k At Vt Hkm). cbv zeta.
      replace (k =? m) with false in HRt by (symmetry; apply Nat.eqb_neq; exact Hkm).
      destruct k as [|k1]; [lia|]. cbn [pred].
      set (pr := At (S k1) k1). set (qr := At (S (S k1)) k1).
      set (rr := if S (S k1) =? nn then 0 else At (S (S (S k1))) k1).
      set (xs := Rabs pr + Rabs qr + Rabs rr).
      assert (Hrr0 : (S (S k1) =? nn) = true -> rr = 0) by (intros E; unfold rr; rewrite E; reflexivity).
      assert (Hrr1 : (S (S (S k1)) <= nn)%nat -> At (S (S (S k1))) k1 = rr).
      { intros Hl. unfold rr. destruct (Nat.eqb_spec (S (S k1)) nn); [lia|reflexivity]. }
      destruct (Reqb xs 0) eqn:Ex; cbn [negb].
      + apply Reqb_true in Ex. destruct (Rabs3_zero pr qr rr Ex) as (Hp & Hq & Hr).
        apply kform_inv with (M := M) (G := G); try assumption; try lia.
        * intros _. exists k1. split; [reflexivity|]. fold pr qr. rewrite Hp, Hq, Ex.
          split; [ring|]. split; [ring|]. intros Hl. rewrite (Hrr1 Hl), Hr. ring.
      + apply Reqb_false in Ex.
        apply kform_inv with (M := M) (G := G); try assumption; try lia.
        * intros E. rewrite (Hrr0 E). unfold Rdiv. ring.
        * intros _. exists k1. split; [reflexivity|]. fold pr qr.
          split; [field; exact Ex|]. split; [field; exact Ex|].
          intros Hl. rewrite (Hrr1 Hl). field. exact Ex.
  Qed.

  (* the whole loop `for k in m..nn` *)
  Lemma k_loop_sim A' V' :
    forn m (nn - m) (k_step ROps Rcopysign n m m nn p0 q0 r0) (A0, V0) = (A', V') ->
    exists G, orth2 n G /\ Jcomm n nn G /\
      meq n (mmul n (uhess A0) G) (mmul n G (uhess A')) /\
      (forall i j, (i < n)%nat -> (j < n)%nat -> V' i j = mmul n V0 G i j) /\
      (forall i j, (i < n)%nat -> (j < n)%nat -> (nn < i)%nat -> A' i j = A0 i j).
  Proof.
    intros Hrun.
    assert (H : KInv (m + (nn - m)) (forn m (nn - m) (k_step ROps Rcopysign n m m nn p0 q0 r0) (A0, V0))).
    { apply (forn_ind KInv).
      - apply KInv_init.
      - intros k s Hk IH. apply k_step_inv; try lia. exact IH. }
    rewrite Hrun in H. replace (m + (nn - m))%nat with nn in H by lia.
    destruct H as (M & G & HRel & HG & HJ & Hsim & HV & Hfr & _). cbn [fst snd] in *.
    exists G. split; [exact HG|]. split; [exact HJ|]. split; [|split; assumption].
    assert (HM : meq n M (uhess A')).
    { destruct HRel as (Ha & Hb & _). intros r c Hr Hc. unfold uhess.
      destruct (Nat.ltb_spec (c + 1) r) as [H|H].
      - rewrite Hb by lia. destruct (Nat.le_gt_cases r nn).
        + rewrite bulge_row_false by lia. reflexivity.
        + rewrite bulge_nn_false by lia. reflexivity.
      - apply Ha; lia. }
    rewrite <- HM. exact Hsim.
  Qed.
End KLoop.
