(* C02 — `balance` (Model.v) over the reals: whatever the comparisons decide, the matrix it returns is
   B = S^-1 A S with S = diag(scale), every scale_i <> 0 (a product of powers of the radix):
   `similar_by n scale A B` of ProofsSpec.v, which C02_balbak_correct / C02_balanced_coordinates
   take as hypothesis. *)
From Coq Require Import List Arith Bool Lia Reals Lra.
From SC Require Import Base.Num C02.Model C02.Validator C02.ProofsSpec.
Import ListNotations.
Local Open Scope R_scope.

Ltac rops := cbn [ROps o0 o1 oadd osub omul odiv oneg oabs osqrt oltb oleb oeqb oofZ] in *.

Lemma radix_nz : radix ROps <> 0.
Proof. unfold radix. rops. lra. Qed.

Lemma bal_up_nz : forall fuel c g f c' f',
  bal_up ROps fuel c g f = Some (c', f') -> f <> 0 -> f' <> 0.
Proof.
  induction fuel as [|k IH]; intros c g f c' f' H Hf; cbn [bal_up] in H; [discriminate|].
  destruct (oltb ROps c g).
  - apply (IH _ _ _ _ _ H). rops. apply Rmult_integral_contrapositive_currified; [exact Hf|apply radix_nz].
  - injection H as _ <-. exact Hf.
Qed.
Lemma bal_down_nz : forall fuel c g f c' f',
  bal_down ROps fuel c g f = Some (c', f') -> f <> 0 -> f' <> 0.
Proof.
  induction fuel as [|k IH]; intros c g f c' f' H Hf; cbn [bal_down] in H; [discriminate|].
  destruct (oltb ROps g c).
  - apply (IH _ _ _ _ _ H). rops. unfold Rdiv.
    apply Rmult_integral_contrapositive_currified; [exact Hf|apply Rinv_neq_0_compat; apply radix_nz].
  - injection H as _ <-. exact Hf.
Qed.

(* ---------- list lemmas ---------- *)
Lemma nth_scale_at : forall (row : list R) i f k,
  nth k (scale_at ROps row i f) 0 = if k =? i then nth k row 0 * f else nth k row 0.
Proof.
  induction row as [|x row IH]; intros i f k.
  - cbn. destruct k; destruct (_ =? _); ring.
  - destruct i as [|i]; destruct k as [|k]; cbn [scale_at nth Nat.eqb]; rops; try reflexivity.
    apply IH.
Qed.
Lemma scale_at_length : forall (row : list R) i f, length (scale_at ROps row i f) = length row.
Proof. induction row as [|x row IH]; intros [|i] f; cbn; auto. Qed.

Lemma nth_scale_row : forall (A : list (list R)) i g r,
  nth r (scale_row ROps A i g) [] = if r =? i then map (fun x => x * g) (nth r A []) else nth r A [].
Proof.
  induction A as [|row A IH]; intros i g r.
  - cbn. destruct r; destruct (_ =? _); reflexivity.
  - destruct i as [|i]; destruct r as [|r]; cbn [scale_row nth Nat.eqb]; rops; try reflexivity.
    apply IH.
Qed.
Lemma scale_row_length : forall (A : list (list R)) i g, length (scale_row ROps A i g) = length A.
Proof. induction A as [|row A IH]; intros [|i] g; cbn; auto. Qed.

Lemma nth_scale_col (A : list (list R)) i f r :
  nth r (scale_col ROps A i f) [] = scale_at ROps (nth r A []) i f.
Proof.
  unfold scale_col.
  change (@nil R) with (scale_at ROps [] i f) at 1.
  exact (map_nth (fun row => scale_at ROps row i f) A [] r).
Qed.

(* entry (r, c) after the rescaling of index i *)
Lemma nth_rescaled (A : list (list R)) i g f r c :
  nth c (nth r (scale_col ROps (scale_row ROps A i g) i f) []) 0
  = nth c (nth r A []) 0 * (if r =? i then g else 1) * (if c =? i then f else 1).
Proof.
  rewrite nth_scale_col, nth_scale_at, nth_scale_row.
  destruct (r =? i); destruct (c =? i); try rewrite nth_map_mul; ring.
Qed.

Lemma rescaled_square n (A : list (list R)) i g f :
  square n A -> square n (scale_col ROps (scale_row ROps A i g) i f).
Proof.
  intros [H1 H2]. split.
  - unfold scale_col. rewrite map_length, scale_row_length. exact H1.
  - intros row Hin. unfold scale_col in Hin. apply in_map_iff in Hin. destruct Hin as (row' & <- & Hin').
    rewrite scale_at_length. apply In_nth with (d := []) in Hin'. destruct Hin' as (r & Hr & <-).
    rewrite scale_row_length in Hr. rewrite nth_scale_row.
    destruct (r =? i); [rewrite map_length|]; apply H2; apply nth_In; exact Hr.
Qed.

(* ---------- one index ---------- *)
Lemma similar_rescale n (A0 A : list (list R)) (s : list R) i f :
  similar_by n s A0 A -> f <> 0 ->
  similar_by n (scale_at ROps s i f) A0 (scale_col ROps (scale_row ROps A i (1 / f)) i f).
Proof.
  intros (HA0 & HA & Hs & Hnz & Hrel) Hf. split; [exact HA0|]. split; [apply rescaled_square; exact HA|].
  split; [rewrite scale_at_length; exact Hs|]. split.
  - intros k Hk. rewrite nth_scale_at. destruct (k =? i).
    + apply Rmult_integral_contrapositive_currified; [apply Hnz; exact Hk|exact Hf].
    + apply Hnz; exact Hk.
  - intros r c Hr Hc. rewrite nth_rescaled, (Hrel r c Hr Hc), !nth_scale_at.
    pose proof (Hnz r Hr) as Hsr. pose proof (Hnz c Hc) as Hsc.
    destruct (r =? i); destruct (c =? i); field; auto.
Qed.

Lemma bal_index_similar fuel n t095 (A0 : list (list R)) st st' i :
  bal_index ROps t095 fuel n st i = Some st' ->
  exists A s dn, st = Some (A, s, dn) /\
    (similar_by n s A0 A -> similar_by n (snd (fst st')) A0 (fst (fst st'))).
Proof.
  intros H. destruct st as [[[A s] dn]|]; [|discriminate]. exists A, s, dn. split; [reflexivity|].
  intros Hsim. unfold bal_index in H.
  destruct (bal_sums ROps (seq 0 n) A i (o0 ROps) (o0 ROps)) as [c r].
  destruct (neqb ROps c (o0 ROps) && neqb ROps r (o0 ROps)).
  - destruct (bal_up ROps fuel c (odiv ROps r (radix ROps)) (o1 ROps)) as [[c1 f1]|] eqn:Eu; [|discriminate].
    destruct (bal_down ROps fuel c1 (omul ROps r (radix ROps)) f1) as [[c2 f]|] eqn:Ed; [|discriminate].
    assert (Hf : f <> 0).
    { apply (bal_down_nz _ _ _ _ _ _ Ed). apply (bal_up_nz _ _ _ _ _ _ Eu). rops. lra. }
    destruct (oltb ROps _ _).
    + injection H as <-. cbn [fst snd]. rops. apply similar_rescale; assumption.
    + injection H as <-. exact Hsim.
  - injection H as <-. exact Hsim.
Qed.

Lemma bal_fold_similar fuel n t095 (A0 : list (list R)) : forall l st A' s' dn',
  fold_left (bal_index ROps t095 fuel n) l st = Some (A', s', dn') ->
  exists A s dn, st = Some (A, s, dn) /\ (similar_by n s A0 A -> similar_by n s' A0 A').
Proof.
  induction l as [|i l IH]; intros st A' s' dn' H; cbn [fold_left] in H.
  - subst st. exists A', s', dn'. split; [reflexivity|auto].
  - destruct (IH _ _ _ _ H) as (A1 & s1 & dn1 & E1 & H1).
    destruct (bal_index_similar fuel n t095 A0 st (A1, s1, dn1) i E1) as (A & s & dn & E & H0).
    exists A, s, dn. split; [exact E|]. intros Hsim. apply H1. apply (H0 Hsim).
Qed.

Lemma bal_loop_similar fuel n t095 (A0 : list (list R)) : forall sweeps A s B sB,
  bal_loop ROps t095 sweeps fuel n A s = Some (B, sB) ->
  similar_by n s A0 A -> similar_by n sB A0 B.
Proof.
  induction sweeps as [|k IH]; intros A s B sB H Hsim; cbn [bal_loop] in H; [discriminate|].
  destruct (fold_left (bal_index ROps t095 fuel n) (seq 0 n) (Some (A, s, true))) as [[[A' s'] dn']|] eqn:E;
    [|discriminate].
  destruct (bal_fold_similar fuel n t095 A0 _ _ _ _ _ E) as (A1 & s1 & dn1 & E1 & H1).
  injection E1 as <- <- _. specialize (H1 Hsim).
  destruct dn'.
  - injection H as <- <-. exact H1.
  - apply (IH _ _ _ _ H H1).
Qed.

Lemma nth_repeat_one n k : nth k (repeat 1 n) 0 <> 0 \/ (n <= k)%nat.
Proof.
  revert k. induction n as [|n IH]; intros k; [right; lia|].
  destruct k as [|k]; cbn [repeat nth]; [left; lra|]. destruct (IH k); [left; assumption|right; lia].
Qed.
Lemma nth_repeat_one_eq n k : (k < n)%nat -> nth k (repeat 1 n) 0 = 1.
Proof.
  revert k. induction n as [|n IH]; intros k Hk; [lia|]. destruct k as [|k]; cbn [repeat nth]; [reflexivity|].
  apply IH. lia.
Qed.

Lemma balance_similar : forall t095 sweeps fuel (A B : list (list R)) (s : list R),
  square (length A) A ->
  balance ROps t095 sweeps fuel A = Some (B, s) ->
  similar_by (length A) s A B.
Proof.
  intros t095 sweeps fuel A B s HA H. unfold balance in H.
  apply (bal_loop_similar fuel (length A) t095 A sweeps A (repeat (o1 ROps) (length A)) B s H).
  rops. split; [exact HA|]. split; [exact HA|]. split; [apply repeat_length|]. split.
  - intros i Hi. rewrite nth_repeat_one_eq by exact Hi. lra.
  - intros i k Hi Hk. rewrite !nth_repeat_one_eq by assumption. field.
Qed.
