(* C02 — hqr2, first half, over R with eps = 0: the deflation branches of a pass at matrix level
   (one root; two roots, complex pair), and the statement of the real-pair branch. *)
From Coq Require Import List Arith Bool Lia Reals Lra Psatz Setoid Morphisms.
From SC Require Import Base.Num C02.FunMat C02.Model C02.ModelTql2 C02.ModelHqr2Spec C02.ModelHqr2Sweep
  C02.ProofsHouse C02.ProofsHqr2SweepAlg C02.ProofsHqr2SweepJ C02.ProofsHqr2SweepStep
  C02.ProofsHqr2SweepLoop C02.ProofsHqr2SweepSpecs C02.ProofsHqr2SweepPass.
Local Open Scope R_scope.

Definition GoodC (n : nat) (U0 V0 : mat) (na : nat) (A V : mat) (d e : nat -> R) (t : R) : Prop :=
  Sim n U0 V0 na A V t /\ Tail n na A d e.

(* ---------- one root: l == nn ---------- *)
Lemma one_root_good n U0 V0 nn (A V : mat) d e t : (nn < n)%nat ->
  ((0 < nn)%nat -> A nn (pred nn) = 0) ->
  GoodC n U0 V0 (S nn) A V d e t ->
  GoodC n U0 V0 nn (mupd A nn nn (A nn nn + t)) V (vupd d nn (A nn nn + t)) e t.
Proof.
  intros Hnn H0 [HS (T1 & T2 & T3 & T4 & T5)]. split.
  - eapply Sim_same; [exact HS|intros i j _ _; reflexivity|].
    intros r c _ _. unfold hlog, uhess, mupd. cmp; ring.
  - unfold Tail. refine (conj _ (conj _ (conj _ (conj _ _)))).
    + intros i H1 H2. apply T1; lia.
    + intros i H1 H2 H3. rewrite mupd_neq by lia.
      destruct (Nat.eq_dec (S i) nn) as [E|E].
      * rewrite E. replace i with (pred nn) by lia. apply H0. lia.
      * apply T2; try assumption. lia.
    + intros i H1 H2 H3. destruct (Nat.eq_dec i nn) as [->|E].
      * rewrite mupd_eq, vupd_eq. reflexivity.
      * rewrite mupd_neq, vupd_neq by lia. apply T3; try assumption. lia.
    + intros i H1 H2 H3. destruct (Nat.eq_dec i nn) as [->|E].
      * rewrite (T1 nn) in H3 by lia. lra.
      * destruct (T4 i ltac:(lia) H2 H3) as (K1 & K2 & K3 & K4 & K5).
        rewrite !mupd_neq, !vupd_neq by lia. auto.
    + intros i H1 H2 H3. destruct (Nat.eq_dec i nn) as [->|E].
      * rewrite (T1 nn) in H3 by lia. lra.
      * destruct (T5 i ltac:(lia) H2 H3) as (j & -> & K1 & K2). exists j. split; [reflexivity|]. split; [lia|exact K2].
Qed.

(* ---------- two roots, complex pair: l == nn - 1, q < 0;  nn = S na ---------- *)
Lemma complex_pair_good n U0 V0 na (A V : mat) d e t :
  let nn := S na in
  let x := A nn nn in let y := A na na in let w := A nn na * A na nn in
  let p := 1 / 2 * (y - x) in let q := p * p + w in let z := sqrt (Rabs q) in
  (nn < n)%nat -> ((0 < na)%nat -> A na (pred na) = 0) -> q < 0 ->
  GoodC n U0 V0 (S nn) A V d e t ->
  GoodC n U0 V0 na (mupd (mupd A nn nn (x + t)) na na (y + t)) V
        (vupd (vupd d nn (x + t + p)) na (vupd d nn (x + t + p) nn))
        (vupd (vupd e nn (- z)) na (- vupd e nn (- z) nn)) t.
Proof.
  intros nn x y w p q z Hnn H0 Hq [HS (T1 & T2 & T3 & T4 & T5)].
  rewrite (vupd_eq d nn), (vupd_eq e nn).
  assert (Hz : 0 < z).
  { unfold z. apply sqrt_lt_R0. apply Rabs_pos_lt. lra. }
  assert (Hzz : z * z = - q).
  { unfold z. rewrite sqrt_sqrt by apply Rabs_pos. rewrite Rabs_left by exact Hq. reflexivity. }
  split.
  - eapply Sim_same; [exact HS|intros i j _ _; reflexivity|].
    intros r c _ _. unfold hlog, uhess, mupd, x, y, nn. cmp; try ring.
  - unfold Tail. refine (conj _ (conj _ (conj _ (conj _ _)))).
    + intros i H1 H2. rewrite !vupd_neq by (unfold nn; lia). apply T1; unfold nn; lia.
    + intros i H1 H2 H3.
      destruct (Nat.eq_dec i na) as [->|E1].
      * exfalso. apply H3. rewrite vupd_eq. lra.
      * rewrite !mupd_neq by (unfold nn; lia).
        destruct (Nat.eq_dec (S i) na) as [E2|E2].
        -- rewrite E2. replace i with (pred na) by lia. apply H0. lia.
        -- apply T2; try assumption; [unfold nn; lia|].
           destruct (Nat.eq_dec i nn) as [->|E3].
           ++ rewrite (T1 nn) by (unfold nn; lia). lra.
           ++ rewrite !vupd_neq in H3 by (unfold nn; lia). exact H3.
    + intros i H1 H2 H3.
      destruct (Nat.eq_dec i na) as [->|E1]; [rewrite vupd_eq in H3; lra|].
      destruct (Nat.eq_dec i nn) as [->|E2].
      * rewrite vupd_neq, vupd_eq in H3 by (unfold nn; lia). lra.
      * rewrite !vupd_neq in H3 by lia. rewrite !mupd_neq, !vupd_neq by lia. apply T3; try assumption. unfold nn; lia.
    + intros i H1 H2 H3.
      destruct (Nat.eq_dec i na) as [->|E1].
      * fold nn. rewrite !vupd_eq. rewrite (vupd_neq _ na _ nn), !vupd_eq by (unfold nn; lia).
        rewrite (vupd_neq _ na _ nn), vupd_eq by (unfold nn; lia).
        rewrite mupd_eq. rewrite (mupd_neq _ na na _ nn nn), mupd_eq by (unfold nn; lia).
        rewrite !(mupd_neq _ _ _ _ na nn), !(mupd_neq _ _ _ _ nn na) by (unfold nn; lia).
        split; [exact Hnn|]. split; [ring|]. split; [reflexivity|]. split.
        -- unfold p. field.
        -- replace (- - z * - - z) with (- q) by (rewrite <- Hzz; ring). unfold q, w, p. field.
      * destruct (Nat.eq_dec i nn) as [->|E2].
        -- rewrite vupd_neq, vupd_eq in H3 by (unfold nn; lia). lra.
        -- rewrite !vupd_neq in H3 by lia.
           destruct (T4 i ltac:(unfold nn; lia) H2 H3) as (K1 & K2 & K3 & K4 & K5).
           rewrite !mupd_neq, !vupd_neq by (unfold nn in *; lia). auto.
    + intros i H1 H2 H3.
      destruct (Nat.eq_dec i na) as [->|E1]; [rewrite vupd_eq in H3; lra|].
      destruct (Nat.eq_dec i nn) as [->|E2].
      * exists na. split; [reflexivity|]. split; [lia|]. rewrite vupd_eq. lra.
      * rewrite !vupd_neq in H3 by lia.
        destruct (T5 i ltac:(unfold nn; lia) H2 H3) as (j & -> & K1 & K2). exists j.
        split; [reflexivity|]. split; [unfold nn in *; lia|].
        rewrite !vupd_neq by (unfold nn in *; lia). exact K2.
Qed.

(* ---------- two roots, real pair: stated here, proved in ProofsHqr2SweepReal.v ---------- *)
Definition real_pair_deflation_statement : Prop :=
  forall n U0 V0 na (A V : mat) d e t,
    let nn := S na in
    let x := A nn nn in let y := A na na in let w := A nn na * A na nn in
    let p := 1 / 2 * (y - x) in let q := p * p + w in
    (nn < n)%nat -> ((0 < na)%nat -> A na (pred na) = 0) -> A nn na <> 0 -> 0 <= q ->
    GoodC n U0 V0 (S nn) A V d e t ->
    let '(A', V', d', e') := two_roots ROps Rcopysign n nn x A V d e t in
    GoodC n U0 V0 na A' V' d' e' t.
