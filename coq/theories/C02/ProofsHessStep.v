(* C02 — one iteration of the outer loop of elmhes is a similarity  R_m  (P_m L_m) = (P_m L_m) R_{m+1}  of
   the REDUCED matrices (the in-place matrix with the stored multipliers replaced by the zeros they
   stand for), and one iteration of eltran multiplies V by P_mp L_mp on the left. *)
From Coq Require Import List Arith Bool Lia Reals Lra Psatz Setoid Morphisms.
From SC Require Import Base.Num C02.FunMat C02.ModelHess C02.ProofsHessAlg C02.ProofsHessLoops.
Local Open Scope R_scope.

(* the reduced matrix before iteration m of the outer loop: columns 0 .. m-2 are already reduced, their
   entries below the sub-diagonal hold multipliers and stand for 0 *)
Definition red (m : nat) (A : mat) : mat :=
  fun r c => if (c + 1 <? r) && (c + 1 <? m) then 0 else A r c.
(* ... and inside iteration m, before the elimination of row i: column m-1 is reduced in rows < i *)
Definition red' (m i : nat) (A : mat) : mat :=
  fun r c => if (c + 1 <? r) && ((c + 1 <? m) || ((c + 1 =? m) && (r <? i))) then 0 else A r c.
(* the upper Hessenberg part *)
Definition hess (A : mat) : mat := fun r c => if c + 1 <? r then 0 else A r c.

(* L_m = I + sum_{r > m} A[r][m-1] e_r e_m^T, read off the multipliers stored in column m-1 *)
Definition Lmat (m : nat) (A : mat) : mat := colE m (fun r => if m <? r then A r (m - 1)%nat else 0).
(* P_m L_m *)
Definition Nmat (n m p : nat) (A : mat) : mat := mmul n (Pmat m p) (Lmat m A).

Lemma red'_start m A r c : red' m (m + 1) A r c = red m A r c.
Proof. unfold red', red. bd; reflexivity. Qed.
Lemma red'_end n m A r c : (r < n)%nat -> red' m n A r c = red (m + 1) A r c.
Proof. intros Hr. unfold red', red. bd; reflexivity. Qed.
Lemma red_1 A r c : red 1 A r c = A r c.
Proof. unfold red. bd; reflexivity. Qed.
Lemma red_hess n A : meq n (red (1 + (n - 2)) A) (hess A).
Proof. intros r c Hr Hc. unfold red, hess. bd; reflexivity. Qed.

(* ---- elimination of one row is the similarity by I + y e_i e_m^T on the reduced matrices ---- *)
Lemma elimF_red n m i (C : mat) r c :
  (1 <= m)%nat -> (m < i < n)%nat -> (r < n)%nat -> (c < n)%nat ->
  C m (m - 1)%nat <> 0 ->
  red' m (S i) (elimF n m i (C i (m - 1)%nat / C m (m - 1)%nat) C) r c =
  simE i m (C i (m - 1)%nat / C m (m - 1)%nat) (red' m i C) r c.
Proof.
  intros Hm Hi Hr Hc Hx.
  set (x := C m (m - 1)%nat) in *.
  assert (Hy : C i (m - 1)%nat = C i (m - 1)%nat / x * x) by (field; exact Hx).
  set (y := C i (m - 1)%nat / x) in *. clearbody y.
  unfold red', simE, elimF, mupd.
  destruct (Nat.eq_dec r i) as [->|Hri].
  - destruct (Nat.eq_dec c m) as [->|Hcm].
    + bd; try ring.
    + destruct (Nat.eq_dec c (m - 1)) as [->|Hcm1].
      * bd; try (fold x; rewrite Hy; ring).
      * bd; try ring.
  - destruct (Nat.eq_dec c m) as [->|Hcm].
    + bd; try ring.
    + bd; try ring.
Qed.

(* ---- the whole elimination loop ---- *)
Lemma elim_loop n m x (B : mat) :
  (1 <= m)%nat -> (m + 1 < n)%nat -> x = B m (m - 1)%nat -> x <> 0 ->
  let C := elm_elim ROps n m x B in
  (forall r c, (c + 1 < m)%nat -> C r c = B r c) /\
  (forall r, (m < r < n)%nat -> C r (m - 1)%nat = B r (m - 1)%nat / x) /\
  simrel n (red m B) (colE m (fun r => if (m <? r) && (r <? n) then B r (m - 1)%nat / x else 0))
           (red (m + 1) C).
Proof.
  intros Hm Hmn Hx Hx0.
  pose (Lp := fun k => colE m (fun r => if (m <? r) && (r <? k) then B r (m - 1)%nat / x else 0)).
  assert (HI : (fun k (C : mat) =>
      C m (m - 1)%nat = x /\
      (forall r, (k <= r)%nat -> C r (m - 1)%nat = B r (m - 1)%nat) /\
      (forall r, (m < r < k)%nat -> C r (m - 1)%nat = B r (m - 1)%nat / x) /\
      (forall r c, (c + 1 < m)%nat -> C r c = B r c) /\
      simrel n (red m B) (Lp k) (red' m k C))
     (m + 1 + (n - (m + 1)))%nat (elm_elim ROps n m x B)).
  { unfold elm_elim. apply forn_ind.
    - split; [symmetry; exact Hx|]. split; [intros; reflexivity|].
      split; [intros r Hr; exfalso; lia|]. split; [intros; reflexivity|].
      assert (HL : meq n (Lp (m + 1)%nat) mid).
      { apply colE_zero. intros r _. bd; reflexivity. }
      rewrite HL. apply simrel_id. intros r c _ _. rewrite red'_start. reflexivity.
    - intros i C Hi (H1 & H2 & H3 & H4 & H5).
      assert (Hb : forall r c, elm_elim_body ROps n m x i C r c = elimF n m i (B i (m - 1)%nat / x) C r c).
      { intros r c. rewrite elim_body_spec by lia. rewrite (H2 i) by lia. reflexivity. }
      assert (Hlow : forall r c, (c < m)%nat ->
                elm_elim_body ROps n m x i C r c = if (r =? i) && (c =? m - 1) then B i (m - 1)%nat / x else C r c).
      { intros r c Hc. rewrite Hb. apply elimF_low. exact Hc. }
      split; [|split; [|split; [|split]]].
      + rewrite Hlow by lia. bd. exact H1.
      + intros r Hr. rewrite Hlow by lia. bd. apply H2. lia.
      + intros r Hr. rewrite Hlow by lia. bd.
        * subst r. reflexivity.
        * apply H3. lia.
      + intros r c Hc. rewrite Hlow by lia. bd; apply H4; exact Hc.
      + pose proof (simrel_simE n i m (B i (m - 1)%nat / x) (red' m i C) ltac:(lia) ltac:(lia) ltac:(lia)) as HS.
        pose proof (simrel_trans n _ _ _ _ _ H5 HS) as HT.
        assert (HL : meq n (mmul n (Lp i) (colE m (single i (B i (m - 1)%nat / x)))) (Lp (S i))).
        { unfold Lp. rewrite colE_colE by (try lia; unfold single; bd; reflexivity).
          apply colE_ext. intros r Hr. unfold single. bd; try ring. subst r. ring. }
        assert (HR : meq n (red' m (S i) (elm_elim_body ROps n m x i C)) (simE i m (B i (m - 1)%nat / x) (red' m i C))).
        { intros r c Hr Hc.
          transitivity (red' m (S i) (elimF n m i (B i (m - 1)%nat / x) C) r c).
          - unfold red'. rewrite Hb. reflexivity.
          - rewrite <- (H2 i) by lia. rewrite <- H1.
            apply elimF_red; try lia. rewrite H1. exact Hx0. }
        rewrite HR. rewrite <- HL. exact HT. }
  cbv beta in HI. replace (m + 1 + (n - (m + 1)))%nat with n in HI by lia.
  destruct HI as (H1 & H2 & H3 & H4 & H5). cbv zeta.
  split; [exact H4|]. split; [exact H3|].
  assert (HR : meq n (red (m + 1) (elm_elim ROps n m x B)) (red' m n (elm_elim ROps n m x B))).
  { intros r c Hr Hc. rewrite (red'_end n) by exact Hr. reflexivity. }
  rewrite HR. exact H5.
Qed.

(* ---- the interchange ---- *)
Lemma swap_phase n m p (A : mat) :
  (1 <= m)%nat -> (m <= p < n)%nat ->
  let B := swap_cols n p m (swap_rows (m - 1) (n - (m - 1)) p m A) in
  (forall r c, (c + 1 < m)%nat -> B r c = A r c) /\
  (forall r, (r < n)%nat -> B r (m - 1)%nat = A (tau m p r) (m - 1)%nat) /\
  (forall r c, (r < n)%nat -> (c < n)%nat -> red m B r c = red m A (tau m p r) (tau m p c)).
Proof.
  intros Hm Hp. cbv zeta.
  assert (HB : forall r c, (r < n)%nat ->
     swap_cols n p m (swap_rows (m - 1) (n - (m - 1)) p m A) r c =
     if (m - 1 <=? c) && (c <? n) then A (tau m p r) (tau m p c) else A r c).
  { intros r c Hr. rewrite swap_cols_spec, !swap_rows_spec.
    replace (m - 1 + (n - (m - 1)))%nat with n by lia. unfold tau.
    bd; try reflexivity; try (f_equal; lia). }
  split; [|split].
  - intros r c Hc. rewrite swap_cols_spec, !swap_rows_spec. bd; reflexivity.
  - intros r Hr. rewrite HB by exact Hr. unfold tau. bd; try reflexivity; try (f_equal; lia).
  - intros r c Hr Hc. unfold red. rewrite HB by exact Hr. unfold tau.
    bd; try reflexivity; try (f_equal; lia).
Qed.

(* ---- one iteration of the outer loop of elmhes ---- *)
Lemma elm_step_spec n m (s : mat * (nat -> nat)) :
  (1 <= m)%nat -> (m + 1 < n)%nat ->
  let s' := elm_step ROps n m s in
  (m <= snd s' m < n)%nat /\
  (forall k, k <> m -> snd s' k = snd s k) /\
  (forall r c, (c + 1 < m)%nat -> fst s' r c = fst s r c) /\
  simrel n (red m (fst s)) (Nmat n m (snd s' m) (fst s')) (red (m + 1) (fst s')).
Proof.
  intros Hm Hmn. destruct s as [A perm]. cbv zeta. unfold elm_step. cbn [fst snd].
  pose proof (pivot_spec n m A ltac:(lia)) as Hpiv. cbv zeta in Hpiv.
  set (x := fst (elm_pivot ROps n m A)) in *.
  set (p := snd (elm_pivot ROps n m A)) in *.
  destruct Hpiv as (Hp & Hxp & Hx0).
  rewrite vupd_eq.
  set (B := if negb (p =? m) then swap_cols n p m (swap_rows (m - 1) (n - (m - 1)) p m A) else A).
  assert (HB : (forall r c, (c + 1 < m)%nat -> B r c = A r c) /\
               (forall r, (r < n)%nat -> B r (m - 1)%nat = A (tau m p r) (m - 1)%nat) /\
               (forall r c, (r < n)%nat -> (c < n)%nat -> red m B r c = red m A (tau m p r) (tau m p c))).
  { unfold B. destruct (Nat.eqb_spec p m) as [E|E]; cbn [negb].
    - rewrite E. repeat split; intros; rewrite ?tau_same; reflexivity.
    - apply swap_phase; lia. }
  destruct HB as (HB1 & HB2 & HB3).
  assert (HxB : x = B m (m - 1)%nat).
  { rewrite HB2 by lia. unfold tau. rewrite Nat.eqb_refl. exact Hxp. }
  assert (HSP : simrel n (red m A) (Pmat m p) (red m B)).
  { apply simrel_Pmat; try lia. exact HB3. }
  split; [exact Hp|]. split; [intros k Hk; apply vupd_neq; exact Hk|].
  rops. destruct (Reqb x 0) eqn:E; cbn [negb].
  - apply Reqb_true in E. split; [exact HB1|].
    assert (HB0 : forall r, (m <= r < n)%nat -> B r (m - 1)%nat = 0).
    { intros r Hr. rewrite HB2 by lia. apply Hx0; [exact E|]. unfold tau. bd; lia. }
    unfold Nmat. apply simrel_trans with (B := red m B); [exact HSP|].
    assert (HL : meq n (Lmat m B) mid).
    { apply colE_zero. intros r Hr. bd; [apply HB0; lia|reflexivity]. }
    rewrite HL. apply simrel_id. intros r c Hr Hc. unfold red.
    bd; try reflexivity.
    replace c with (m - 1)%nat by lia. apply HB0. lia.
  - apply Reqb_false in E.
    pose proof (elim_loop n m x B Hm Hmn HxB E) as HE. cbv zeta in HE.
    set (C := elm_elim ROps n m x B) in *. destruct HE as (HC1 & HC2 & HC3).
    split; [intros r c Hc; rewrite HC1 by exact Hc; apply HB1; exact Hc|].
    unfold Nmat. apply simrel_trans with (B := red m B); [exact HSP|].
    assert (HL : meq n (Lmat m C) (colE m (fun r => if (m <? r) && (r <? n) then B r (m - 1)%nat / x else 0))).
    { apply colE_ext. intros r Hr. bd; try reflexivity. apply HC2. lia. }
    rewrite HL. exact HC3.
Qed.

(* ---- one iteration of eltran ---- *)
Lemma Nmat_mul n m p (A V : mat) r c :
  (m < n)%nat -> (p < n)%nat -> (r < n)%nat -> (c < n)%nat ->
  mmul n (Nmat n m p A) V r c =
  V (tau m p r) c + (if m <? tau m p r then A (tau m p r) (m - 1)%nat else 0) * V m c.
Proof.
  intros Hm Hp Hr Hc. unfold Nmat. rewrite mmul_assoc.
  rewrite Pmat_mul_l by assumption. unfold Lmat.
  rewrite colE_mul_l by (try apply tau_lt; assumption). reflexivity.
Qed.

Lemma elt_step_spec n (A : mat) perm mp (V : mat) :
  (1 <= mp)%nat -> (mp + 1 < n)%nat -> (mp <= perm mp < n)%nat ->
  (forall r c, (r < n)%nat -> (c < n)%nat -> (r <= mp \/ c <= mp)%nat -> V r c = mid r c) ->
  let V' := elt_step ROps n A perm mp V in
  meq n V' (mmul n (Nmat n mp (perm mp) A) V) /\
  (forall r c, (r < n)%nat -> (c < n)%nat -> (r < mp \/ c < mp)%nat -> V' r c = mid r c).
Proof.
  intros Hm Hmn Hp HF. cbv zeta.
  assert (HV : forall r c, (r < n)%nat -> (c < n)%nat ->
     elt_step ROps n A perm mp V r c =
     V (tau mp (perm mp) r) c +
     (if mp <? tau mp (perm mp) r then A (tau mp (perm mp) r) (mp - 1)%nat else 0) * mid mp c).
  { intros r c Hr Hc. unfold elt_step.
    destruct (Nat.eqb_spec (perm mp) mp) as [E|E]; cbn [negb].
    - rewrite E, tau_same. rewrite elt_col_spec. unfold mid.
      bd; try ring.
      rewrite HF by lia. unfold mid. bd. ring.
    - rewrite elt_swap_spec by exact E. rewrite !elt_col_spec.
      replace (mp + (n - mp))%nat with n by lia.
      replace (mp + 1 + (n - (mp + 1)))%nat with n by lia.
      unfold tau, mid.
      bd; try ring;
        repeat match goal with
               | |- context [V ?a ?b] => rewrite (HF a b) by lia
               end; unfold mid; bd; try ring. }
  split.
  - intros r c Hr Hc. rewrite HV by assumption.
    rewrite Nmat_mul by lia. rewrite (HF mp c) by lia. reflexivity.
  - intros r c Hr Hc Hrc. rewrite HV by assumption. unfold tau, mid.
    bd; try ring;
      repeat match goal with
             | |- context [V ?a ?b] => rewrite (HF a b) by lia
             end; unfold mid; bd; try ring.
Qed.
