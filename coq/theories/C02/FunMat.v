(* C02 — vocabulary shared by the models and proofs of the reductions (tred2, tql2's QL sweeps, elmhes,
   eltran): arrays as total functions on indices, the two loop combinators the transliterations use,
   finite sums over R and matrix products of functions, with the handful of algebraic lemmas the
   proofs need.  The function representation is a representation of the ARRAYS only (`vupd`/`mupd` are
   assignment); loop order, operation order and comparison direction are those of the Rust code, which
   the bit-exact correspondence on binary64 checks (Corr.v). *)
From Coq Require Import List Arith Bool Lia Reals Lra Psatz.
From SC Require Import Base.Num.
Import ListNotations.

(* ------------------------------------------------------------------------------------------ *)
(* loops                                                                                        *)
(* ------------------------------------------------------------------------------------------ *)
(* for k in lo .. lo+len  { s = body k s } *)
Fixpoint forn {St : Type} (lo len : nat) (body : nat -> St -> St) (s : St) : St :=
  match len with
  | 0 => s
  | S l => forn (S lo) l body (body lo s)
  end.
(* for k in (lo .. lo+len).rev()  { s = body k s } *)
Fixpoint ford {St : Type} (lo len : nat) (body : nat -> St -> St) (s : St) : St :=
  match len with
  | 0 => s
  | S l => ford lo l body (body (lo + l) s)
  end.

Lemma forn_ind {St : Type} (P : nat -> St -> Prop) : forall len lo body s,
  P lo s ->
  (forall k s, lo <= k < lo + len -> P k s -> P (S k) (body k s)) ->
  P (lo + len) (forn lo len body s).
Proof.
  induction len as [|l IH]; intros lo body s H0 Hs; cbn [forn].
  - rewrite Nat.add_0_r. exact H0.
  - replace (lo + S l) with (S lo + l) by lia. apply IH.
    + apply Hs; [lia|exact H0].
    + intros k s' Hk. apply Hs. lia.
Qed.

Lemma ford_ind {St : Type} (P : nat -> St -> Prop) : forall len lo body s,
  P (lo + len) s ->
  (forall k s, lo <= k < lo + len -> P (S k) s -> P k (body k s)) ->
  P lo (ford lo len body s).
Proof.
  induction len as [|l IH]; intros lo body s H0 Hs; cbn [ford].
  - rewrite Nat.add_0_r in H0. exact H0.
  - apply IH.
    + apply Hs; [lia|]. replace (S (lo + l)) with (lo + S l) by lia. exact H0.
    + intros k s' Hk. apply Hs. lia.
Qed.

(* ------------------------------------------------------------------------------------------ *)
(* arrays                                                                                       *)
(* ------------------------------------------------------------------------------------------ *)
Definition vupd {T : Type} (v : nat -> T) (j : nat) (x : T) : nat -> T :=
  fun k => if k =? j then x else v k.
Definition mupd {T : Type} (M : nat -> nat -> T) (i j : nat) (x : T) : nat -> nat -> T :=
  fun r c => if (r =? i) && (c =? j) then x else M r c.

Lemma vupd_eq {T} (v : nat -> T) j x : vupd v j x j = x.
Proof. unfold vupd. rewrite Nat.eqb_refl. reflexivity. Qed.
Lemma vupd_neq {T} (v : nat -> T) j x k : k <> j -> vupd v j x k = v k.
Proof. unfold vupd. intros H. apply Nat.eqb_neq in H. rewrite H. reflexivity. Qed.
Lemma mupd_eq {T} (M : nat -> nat -> T) i j x : mupd M i j x i j = x.
Proof. unfold mupd. rewrite !Nat.eqb_refl. reflexivity. Qed.
Lemma mupd_neq {T} (M : nat -> nat -> T) i j x r c : (r <> i \/ c <> j) -> mupd M i j x r c = M r c.
Proof.
  unfold mupd. intros H. destruct (r =? i) eqn:E1; destruct (c =? j) eqn:E2; cbn; try reflexivity.
  apply Nat.eqb_eq in E1. apply Nat.eqb_eq in E2. exfalso. destruct H; auto.
Qed.

(* lists <-> functions (rows of a matrix) *)
Definition vfun {T} (z : T) (l : list T) : nat -> T := fun k => nth k l z.
Definition mfun {T} (z : T) (A : list (list T)) : nat -> nat -> T := fun i j => nth j (nth i A []) z.
Definition vlist {T} (n : nat) (v : nat -> T) : list T := map v (seq 0 n).
Definition mrows {T} (n : nat) (M : nat -> nat -> T) : list (list T) :=
  map (fun i => map (fun j => M i j) (seq 0 n)) (seq 0 n).

Lemma vlist_length {T} n (v : nat -> T) : length (vlist n v) = n.
Proof. unfold vlist. rewrite map_length, seq_length. reflexivity. Qed.
Lemma nth_vlist {T} n (v : nat -> T) z k : k < n -> nth k (vlist n v) z = v k.
Proof.
  intros H. unfold vlist. rewrite (nth_indep _ z (v 0)) by (rewrite map_length, seq_length; exact H).
  rewrite (map_nth v (seq 0 n) 0 k). rewrite seq_nth by exact H. reflexivity.
Qed.
Lemma mrows_length {T} n (M : nat -> nat -> T) : length (mrows n M) = n.
Proof. unfold mrows. rewrite map_length, seq_length. reflexivity. Qed.
Lemma nth_mrows {T} n (M : nat -> nat -> T) i : i < n -> nth i (mrows n M) [] = vlist n (M i).
Proof.
  intros H. unfold mrows.
  rewrite (nth_indep _ [] ((fun i => map (fun j => M i j) (seq 0 n)) 0)) by (rewrite map_length, seq_length; exact H).
  rewrite (map_nth (fun i => map (fun j => M i j) (seq 0 n)) (seq 0 n) 0 i). rewrite seq_nth by exact H. reflexivity.
Qed.
Lemma mfun_mrows {T} n (M : nat -> nat -> T) z i j : i < n -> j < n -> mfun z (mrows n M) i j = M i j.
Proof. intros Hi Hj. unfold mfun. rewrite nth_mrows by exact Hi. apply nth_vlist. exact Hj. Qed.
Lemma mrows_row_length {T} n (M : nat -> nat -> T) r : In r (mrows n M) -> length r = n.
Proof.
  unfold mrows. intros H. apply in_map_iff in H. destruct H as (i & <- & _).
  rewrite map_length, seq_length. reflexivity.
Qed.

(* ------------------------------------------------------------------------------------------ *)
(* finite sums over R                                                                           *)
(* ------------------------------------------------------------------------------------------ *)
Local Open Scope R_scope.

(* sum_{k<n} f k, accumulated from k = 0 upwards (= Base.Num.osumn ROps) *)
Fixpoint rsum (n : nat) (f : nat -> R) : R :=
  match n with 0%nat => 0 | S k => rsum k f + f k end.

Lemma rsum_ext n f g : (forall k, (k < n)%nat -> f k = g k) -> rsum n f = rsum n g.
Proof.
  induction n as [|n IH]; intros H; cbn; [reflexivity|].
  rewrite IH by (intros; apply H; lia). rewrite H by lia. reflexivity.
Qed.
Lemma rsum_0 n f : (forall k, (k < n)%nat -> f k = 0) -> rsum n f = 0.
Proof.
  induction n as [|n IH]; intros H; cbn; [reflexivity|].
  rewrite IH by (intros; apply H; lia). rewrite H by lia. ring.
Qed.
Lemma rsum_plus n f g : rsum n (fun k => f k + g k) = rsum n f + rsum n g.
Proof. induction n as [|n IH]; cbn; [ring|rewrite IH; ring]. Qed.
Lemma rsum_minus n f g : rsum n (fun k => f k - g k) = rsum n f - rsum n g.
Proof. induction n as [|n IH]; cbn; [ring|rewrite IH; ring]. Qed.
Lemma rsum_scal n c f : rsum n (fun k => c * f k) = c * rsum n f.
Proof. induction n as [|n IH]; cbn; [ring|rewrite IH; ring]. Qed.
Lemma rsum_scal_r n c f : rsum n (fun k => f k * c) = rsum n f * c.
Proof. induction n as [|n IH]; cbn; [ring|rewrite IH; ring]. Qed.
Lemma rsum_opp n f : rsum n (fun k => - f k) = - rsum n f.
Proof. induction n as [|n IH]; cbn; [ring|rewrite IH; ring]. Qed.
(* a single non-zero term *)
Lemma rsum_single n j f : (j < n)%nat -> (forall k, (k < n)%nat -> k <> j -> f k = 0) -> rsum n f = f j.
Proof.
  induction n as [|n IH]; intros Hj H; [lia|]. cbn.
  destruct (Nat.eq_dec j n) as [->|Hne].
  - rewrite rsum_0 by (intros k Hk; apply H; lia). ring.
  - rewrite IH by (try lia; intros k Hk Hkj; apply H; lia). rewrite (H n) by lia. ring.
Qed.
Lemma rsum_delta n j f : (j < n)%nat -> rsum n (fun k => (if k =? j then 1 else 0) * f k) = f j.
Proof.
  intros Hj. rewrite (rsum_single n j) by (try exact Hj; intros k _ Hk; apply Nat.eqb_neq in Hk; rewrite Hk; ring).
  rewrite Nat.eqb_refl. ring.
Qed.
Lemma rsum_delta_r n j f : (j < n)%nat -> rsum n (fun k => f k * (if k =? j then 1 else 0)) = f j.
Proof.
  intros Hj. rewrite (rsum_ext n _ (fun k => (if k =? j then 1 else 0) * f k)) by (intros; ring).
  apply rsum_delta. exact Hj.
Qed.
Lemma rsum_swap n m (f : nat -> nat -> R) :
  rsum n (fun i => rsum m (fun j => f i j)) = rsum m (fun j => rsum n (fun i => f i j)).
Proof.
  induction n as [|n IH]; cbn.
  - symmetry. apply rsum_0. reflexivity.
  - rewrite IH. rewrite <- rsum_plus. reflexivity.
Qed.
(* terms beyond m vanish *)
Lemma rsum_trunc n m f : (m <= n)%nat -> (forall k, (m <= k < n)%nat -> f k = 0) -> rsum n f = rsum m f.
Proof.
  induction n as [|n IH]; intros Hm H.
  - replace m with 0%nat by lia. reflexivity.
  - destruct (Nat.eq_dec m (S n)) as [->|Hne]; [reflexivity|].
    cbn. rewrite (H n) by lia. rewrite IH by (try lia; intros; apply H; lia). ring.
Qed.
Lemma rsum_nonneg n f : (forall k, (k < n)%nat -> 0 <= f k) -> 0 <= rsum n f.
Proof.
  induction n as [|n IH]; intros H; cbn; [lra|].
  pose proof (IH ltac:(intros; apply H; lia)). pose proof (H n ltac:(lia)). lra.
Qed.
(* a sum of non-negative terms that is zero has all terms zero *)
Lemma rsum_nonneg_0 n f : (forall k, (k < n)%nat -> 0 <= f k) -> rsum n f = 0 ->
  forall k, (k < n)%nat -> f k = 0.
Proof.
  induction n as [|n IH]; intros H H0 k Hk; [lia|]. cbn in H0.
  pose proof (rsum_nonneg n f ltac:(intros; apply H; lia)) as Hs. pose proof (H n ltac:(lia)) as Hn.
  destruct (Nat.eq_dec k n) as [->|Hne]; [lra|].
  apply IH; try lia; [intros; apply H; lia|lra].
Qed.

(* ------------------------------------------------------------------------------------------ *)
(* matrices of order n as functions                                                             *)
(* ------------------------------------------------------------------------------------------ *)
Definition mat := nat -> nat -> R.
Definition mmul (n : nat) (A B : mat) : mat := fun i j => rsum n (fun k => A i k * B k j).
Definition mtr (A : mat) : mat := fun i j => A j i.
Definition mid : mat := fun i j => if i =? j then 1 else 0.
Definition meq (n : nat) (A B : mat) : Prop := forall i j, (i < n)%nat -> (j < n)%nat -> A i j = B i j.
Definition msym (n : nat) (A : mat) : Prop := forall i j, (i < n)%nat -> (j < n)%nat -> A i j = A j i.
Definition morth (n : nat) (Q : mat) : Prop := meq n (mmul n (mtr Q) Q) mid.
(* the symmetric tridiagonal matrix with diagonal d and sub-diagonal e (e i couples i-1 and i; e 0 unused) *)
Definition tridiag (d e : nat -> R) : mat :=
  fun i j => if i =? j then d i else if i =? S j then e i else if j =? S i then e j else 0.

Lemma meq_refl n A : meq n A A.
Proof. intros i j _ _. reflexivity. Qed.
Lemma meq_sym n A B : meq n A B -> meq n B A.
Proof. intros H i j Hi Hj. symmetry. apply H; assumption. Qed.
Lemma meq_trans n A B C : meq n A B -> meq n B C -> meq n A C.
Proof. intros H1 H2 i j Hi Hj. rewrite H1, H2 by assumption. reflexivity. Qed.

Lemma mmul_ext n A A' B B' : meq n A A' -> meq n B B' -> meq n (mmul n A B) (mmul n A' B').
Proof.
  intros HA HB i j Hi Hj. unfold mmul. apply rsum_ext. intros k Hk.
  rewrite HA, HB by assumption. reflexivity.
Qed.
Lemma mmul_assoc n A B C : forall i j, mmul n (mmul n A B) C i j = mmul n A (mmul n B C) i j.
Proof.
  intros i j. unfold mmul.
  rewrite (rsum_ext n _ (fun k => rsum n (fun l => A i l * B l k * C k j)))
    by (intros k _; rewrite <- rsum_scal_r; reflexivity).
  rewrite rsum_swap. apply rsum_ext. intros l _.
  rewrite <- rsum_scal. apply rsum_ext. intros k _. ring.
Qed.
Lemma mmul_id_l n A : meq n (mmul n mid A) A.
Proof.
  intros i j Hi Hj. unfold mmul, mid.
  rewrite (rsum_ext n _ (fun k => (if k =? i then 1 else 0) * A k j))
    by (intros k _; rewrite (Nat.eqb_sym i k); reflexivity).
  apply (rsum_delta n i (fun k => A k j)). exact Hi.
Qed.
Lemma mmul_id_r n A : meq n (mmul n A mid) A.
Proof.
  intros i j Hi Hj. unfold mmul, mid. apply (rsum_delta_r n j (fun k => A i k)). exact Hj.
Qed.
Lemma mtr_mmul n A B : forall i j, mtr (mmul n A B) i j = mmul n (mtr B) (mtr A) i j.
Proof. intros i j. unfold mtr, mmul. apply rsum_ext. intros k _. ring. Qed.
