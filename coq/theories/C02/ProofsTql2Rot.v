(* C02 — algebra of one plane rotation of tql2 (columns i, i+1), over R:
     colrot i c s V  = V * G          (what `for k in 0..n { ... }` does to V)
     rotM   i c s M  = G^T * M * G    (the ghost similarity on the tridiagonal matrix)
   with G = grot i c s, G^T G = G G^T = I when c^2 + s^2 = 1.  Consequences: orthogonality of V and the
   relation A V = V M are preserved. *)
From Coq Require Import List Arith Bool Lia Reals Lra Psatz.
From SC Require Import Base.Num C02.FunMat C02.ModelTql2.
Import ListNotations.
Local Open Scope R_scope.

Ltac eqbs :=
  repeat (match goal with
          | |- context[Nat.eqb ?x ?y] =>
              let E := fresh "E" in
              destruct (Nat.eqb_spec x y) as [E|E]; [try (first [subst x | subst y])|]; try lia
          end).

Lemma rsum_two n i j f : (i < n)%nat -> (j < n)%nat -> i <> j ->
  (forall k, (k < n)%nat -> k <> i -> k <> j -> f k = 0) -> rsum n f = f i + f j.
Proof.
  induction n as [|n IH]; intros Hi Hj Hij H; [lia|]. cbn [rsum].
  destruct (Nat.eq_dec j n) as [->|Hjn].
  - rewrite (rsum_single n i) by (try lia; intros k Hk Hki; apply H; lia). reflexivity.
  - destruct (Nat.eq_dec i n) as [->|Hin].
    + rewrite (rsum_single n j) by (try lia; intros k Hk Hkj; apply H; lia). ring.
    + rewrite IH by (try lia; intros k Hk Hki Hkj; apply H; lia).
      rewrite (H n) by lia. ring.
Qed.

Definition grot (i : nat) (c s : R) : mat := fun a b =>
  if a =? i then (if b =? i then c else if b =? S i then s else 0)
  else if a =? S i then (if b =? i then - s else if b =? S i then c else 0)
  else if a =? b then 1 else 0.

Definition colrot (i : nat) (c s : R) (M : mat) : mat := fun a b =>
  if b =? i then c * M a i - s * M a (S i)
  else if b =? S i then s * M a i + c * M a (S i)
  else M a b.
Definition rowrot (i : nat) (c s : R) (M : mat) : mat := fun a b =>
  if a =? i then c * M i b - s * M (S i) b
  else if a =? S i then s * M i b + c * M (S i) b
  else M a b.
Definition rotM (i : nat) (c s : R) (M : mat) : mat := rowrot i c s (colrot i c s M).

Lemma meq_of_eq n (X Y : mat) : (forall i j, X i j = Y i j) -> meq n X Y.
Proof. intros H i j _ _. apply H. Qed.
Lemma meq_mtr n X Y : meq n X Y -> meq n (mtr X) (mtr Y).
Proof. intros H i j Hi Hj. unfold mtr. apply H; assumption. Qed.

Lemma mmul_grot n M i c s a b : (S i < n)%nat -> (b < n)%nat ->
  mmul n M (grot i c s) a b = colrot i c s M a b.
Proof.
  intros Hi Hb. unfold mmul, colrot.
  destruct (Nat.eqb_spec b i) as [->|Hbi].
  - rewrite (rsum_two n i (S i)); try lia.
    + unfold grot. eqbs. ring.
    + intros k Hk Hk1 Hk2. unfold grot. eqbs. ring.
  - destruct (Nat.eqb_spec b (S i)) as [->|Hbi1].
    + rewrite (rsum_two n i (S i)); try lia.
      * unfold grot. eqbs. ring.
      * intros k Hk Hk1 Hk2. unfold grot. eqbs. ring.
    + rewrite (rsum_single n b); try lia.
      * unfold grot. eqbs. ring.
      * intros k Hk Hkb. unfold grot. eqbs; ring.
Qed.

Lemma grot_tr i c s a b : mtr (grot i c s) a b = grot i c (- s) a b.
Proof. unfold mtr, grot. eqbs; ring. Qed.

Lemma grot_orth_l n i c s : (S i < n)%nat -> c * c + s * s = 1 ->
  meq n (mmul n (mtr (grot i c s)) (grot i c s)) mid.
Proof.
  intros Hi Hcs a b Ha Hb. rewrite mmul_grot by assumption.
  unfold colrot, mtr, grot, mid. eqbs; try ring; nra.
Qed.
Lemma grot_orth_r n i c s : (S i < n)%nat -> c * c + s * s = 1 ->
  meq n (mmul n (grot i c s) (mtr (grot i c s))) mid.
Proof.
  intros Hi Hcs a b Ha Hb.
  transitivity (mmul n (grot i c s) (grot i c (- s)) a b).
  { unfold mmul. apply rsum_ext. intros k _. rewrite grot_tr. reflexivity. }
  rewrite mmul_grot by assumption.
  unfold colrot, grot, mid. eqbs; try ring; nra.
Qed.

(* G^T (M G) pointwise *)
Lemma mmul_rotM n M i c s : (S i < n)%nat ->
  meq n (mmul n (mtr (grot i c s)) (mmul n M (grot i c s))) (rotM i c s M).
Proof.
  intros Hi a b Ha Hb.
  transitivity (mmul n (mtr (mmul n M (grot i c s))) (grot i c s) b a).
  { unfold mmul at 1 3. apply rsum_ext. intros k _. unfold mtr. ring. }
  rewrite mmul_grot by assumption.
  unfold colrot, rotM, rowrot, mtr. rewrite !mmul_grot by assumption.
  eqbs; reflexivity.
Qed.

Lemma colrot_mmul n V i c s : (S i < n)%nat -> meq n (colrot i c s V) (mmul n V (grot i c s)).
Proof. intros Hi a b Ha Hb. rewrite mmul_grot by assumption. reflexivity. Qed.

(* (i) orthogonality is preserved *)
Lemma morth_colrot n V i c s : (S i < n)%nat -> c * c + s * s = 1 ->
  morth n V -> morth n (colrot i c s V).
Proof.
  intros Hi Hcs HV. unfold morth in *. set (G := grot i c s).
  pose proof (colrot_mmul n V i c s Hi) as HV'. fold G in HV'.
  eapply meq_trans. { apply mmul_ext; [apply meq_mtr; exact HV'|exact HV']. }
  eapply meq_trans. { apply mmul_ext; [apply meq_of_eq; apply mtr_mmul|apply meq_refl]. }
  eapply meq_trans. { apply meq_of_eq. apply mmul_assoc. }
  eapply meq_trans.
  { apply mmul_ext; [apply meq_refl|]. apply meq_sym. apply meq_of_eq. apply mmul_assoc. }
  eapply meq_trans.
  { apply mmul_ext; [apply meq_refl|]. apply mmul_ext; [exact HV|apply meq_refl]. }
  eapply meq_trans. { apply mmul_ext; [apply meq_refl|apply mmul_id_l]. }
  apply grot_orth_l; assumption.
Qed.

(* (ii) the relation A V = V M is preserved when M is replaced by G^T M G *)
Lemma sim_colrot n A V M i c s : (S i < n)%nat -> c * c + s * s = 1 ->
  meq n (mmul n A V) (mmul n V M) ->
  meq n (mmul n A (colrot i c s V)) (mmul n (colrot i c s V) (rotM i c s M)).
Proof.
  intros Hi Hcs HAV. set (G := grot i c s).
  pose proof (colrot_mmul n V i c s Hi) as HV'. fold G in HV'.
  pose proof (mmul_rotM n M i c s Hi) as HM'. fold G in HM'.
  apply meq_trans with (mmul n (mmul n V M) G).
  - eapply meq_trans. { apply mmul_ext; [apply meq_refl|exact HV']. }
    eapply meq_trans. { apply meq_sym. apply meq_of_eq. apply mmul_assoc. }
    apply mmul_ext; [exact HAV|apply meq_refl].
  - apply meq_sym.
    eapply meq_trans. { apply mmul_ext; [exact HV'|apply meq_sym; exact HM']. }
    eapply meq_trans. { apply meq_of_eq. apply mmul_assoc. }
    eapply meq_trans.
    { apply mmul_ext; [apply meq_refl|]. apply meq_sym. apply meq_of_eq. apply mmul_assoc. }
    eapply meq_trans.
    { apply mmul_ext; [apply meq_refl|]. apply mmul_ext; [apply grot_orth_r; assumption|apply meq_refl]. }
    eapply meq_trans. { apply mmul_ext; [apply meq_refl|apply mmul_id_l]. }
    apply meq_sym. apply meq_of_eq. apply mmul_assoc.
Qed.

(* the model's column loop is colrot on the rows < n *)
Lemma rot_cols_spec n i c s (V : mat) : (i < S i)%nat ->
  forall a b, (a < n)%nat -> rot_cols ROps n i c s V a b = colrot i c s V a b.
Proof.
  intros _.
  assert (H : forall a b, ((a < 0 + n)%nat -> rot_cols ROps n i c s V a b = colrot i c s V a b) /\
                          ((0 + n <= a)%nat -> rot_cols ROps n i c s V a b = V a b)).
  { unfold rot_cols.
    apply (forn_ind (fun k (W : mat) => forall a b, ((a < k)%nat -> W a b = colrot i c s V a b) /\
                                                   ((k <= a)%nat -> W a b = V a b))).
    - intros a b. split; [lia|reflexivity].
    - intros k W Hk IH a b. cbn [ROps oadd osub omul]. split.
      + intros Ha. destruct (Nat.eq_dec a k) as [->|Hak].
        * unfold colrot, mupd.
          destruct (IH k i) as [_ Hki]. destruct (IH k (S i)) as [_ Hki1]. destruct (IH k b) as [_ Hkb].
          rewrite Hki, Hki1 by lia. rewrite !Nat.eqb_refl. cbn [andb].
          eqbs; cbn [andb]; try reflexivity; try lia. apply Hkb. lia.
        * rewrite !mupd_neq by (left; exact Hak). apply IH. lia.
      + intros Ha. rewrite !mupd_neq by (left; lia). apply IH. lia. }
  intros a b Ha. apply H. lia.
Qed.
