(* C02 — second half of hqr2 over the reals (ModelHqr2Vec.v): facts that need no hypothesis on the data:
   the ghost flag is only ever cleared, and a complex-pair iteration writes only columns nn-1 and nn of
   the working array (and does not touch the ghost flag). *)
From Coq Require Import List Arith Bool Lia Reals Lra Psatz.
From SC Require Import Base.Num C02.FunMat C02.ModelHqr2Vec C02.ProofsHessAlg C02.ProofsHessLoops.
Local Open Scope R_scope.

(* ------------------------------------------------------------------------------------------ *)
(* ghost flag: only ever cleared                                                                *)
(* ------------------------------------------------------------------------------------------ *)
Lemma real_row_ok_mono eps anorm p d e nn k (st : rst) :
  rok (vec_real_row ROps eps anorm p d e nn k st) = true -> rok st = true.
Proof.
  unfold vec_real_row. rops.
  destruct (Rltb (e k) 0); cbn [rok]; [tauto|].
  destruct (Reqb (e k) 0); cbn [fst snd]; [|tauto].
  intros H. apply andb_true_iff in H. tauto.
Qed.

Lemma vec_real_ok_mono eps anorm p d e nn (st : vst) :
  vok (vec_real ROps eps anorm p d e nn st) = true -> vok st = true.
Proof.
  unfold vec_real. cbn [vok].
  set (st0 := mkR _ nn (vz st) (vs st) (vr st) (vok st)).
  assert (HI : (fun (k : nat) (s : rst) => rok s = true -> vok st = true) 0%nat
                 (ford 0 nn (vec_real_row ROps eps anorm p d e nn) st0)).
  { apply (ford_ind (fun (k : nat) (s : rst) => rok s = true -> vok st = true)).
    - unfold st0. cbn [rok]. tauto.
    - intros k s _ IH Hk. apply IH. eapply real_row_ok_mono. exact Hk. }
  exact HI.
Qed.

(* ------------------------------------------------------------------------------------------ *)
(* frame of a complex-pair iteration: only columns nn-1 and nn are written, ok is not touched     *)
(* ------------------------------------------------------------------------------------------ *)
Ltac split_ifs :=
  repeat match goal with
         | |- context [if ?b then _ else _] =>
             lazymatch b with context [if _ then _ else _] => fail | _ => idtac end;
             destruct b
         end.

Lemma cplx_row_frame eps anorm p q d e nn na i (st : rst) :
  rok (vec_cplx_row ROps eps anorm p q d e nn na i st) = rok st /\
  forall r c, c <> na -> c <> nn -> rA (vec_cplx_row ROps eps anorm p q d e nn na i st) r c = rA st r c.
Proof.
  unfold vec_cplx_row.
  assert (HS : forall (A0 : mat) t r c, c <> na -> c <> nn ->
     forn i (nn + 1 - i) (fun j (A1 : mat) =>
        let v1 := odiv ROps (A1 j na) t in
        let A2 := mupd A1 j na v1 in
        let v2 := odiv ROps (A2 j nn) t in mupd A2 j nn v2) A0 r c = A0 r c).
  { intros A0 t r c Hna Hnn.
    apply (forn_ind (fun (k : nat) (S : mat) => S r c = A0 r c)); [reflexivity|].
    intros k S _ IH. cbv zeta. rewrite !mupd_neq by (right; assumption). exact IH. }
  split.
  - split_ifs; reflexivity.
  - intros r c Hna Hnn. split_ifs; cbn [rA]; rewrite ?HS by assumption; cbn [rA];
      rewrite ?mupd_neq by (right; assumption); reflexivity.
Qed.

Lemma vec_cplx_frame eps anorm p q d e nn (st : vst) :
  vok (vec_cplx ROps eps anorm p q d e nn st) = vok st /\
  forall r c, c <> (nn - 1)%nat -> c <> nn -> vA (vec_cplx ROps eps anorm p q d e nn st) r c = vA st r c.
Proof.
  unfold vec_cplx. cbn [vA vok].
  set (A1 := mupd (mupd _ nn (nn - 1)%nat _) nn nn _).
  assert (HA1 : forall r c, c <> (nn - 1)%nat -> c <> nn -> A1 r c = vA st r c).
  { intros r c H1 H2. unfold A1. split_ifs; rewrite ?mupd_neq by (right; assumption); reflexivity. }
  set (st0 := mkR A1 (nn - 1)%nat (vz st) (vs st) (vr st) (vok st)).
  assert (HI : (fun (k : nat) (s : rst) =>
                  rok s = vok st /\ forall r c, c <> (nn - 1)%nat -> c <> nn -> rA s r c = vA st r c) 0%nat
                 (ford 0 (nn - 1) (vec_cplx_row ROps eps anorm p q d e nn (nn - 1)) st0)).
  { apply (ford_ind (fun (k : nat) (s : rst) =>
                  rok s = vok st /\ forall r c, c <> (nn - 1)%nat -> c <> nn -> rA s r c = vA st r c)).
    - split; [reflexivity|exact HA1].
    - intros k s _ [IH1 IH2].
      destruct (cplx_row_frame eps anorm p q d e nn (nn - 1) k s) as [F1 F2].
      split; [rewrite F1; exact IH1|]. intros r c H1 H2. rewrite F2 by assumption. apply IH2; assumption. }
  exact HI.
Qed.

