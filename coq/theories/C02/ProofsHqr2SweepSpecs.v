(* C02 — hqr2, first half, over R with eps = 0: specifications of the l-search, of the exceptional-shift
   loop, of the zeroing of the window, and the logical matrix `hlog`. *)
From Coq Require Import List Arith Bool Lia Reals Lra Psatz Setoid Morphisms.
From SC Require Import Base.Num C02.FunMat C02.Model C02.ModelTql2 C02.ModelHqr2Spec C02.ModelHqr2Sweep
  C02.ProofsHouse C02.ProofsHqr2SweepAlg C02.ProofsHqr2SweepJ C02.ProofsHqr2SweepStep.
Local Open Scope R_scope.

Lemma Rleb_abs0_true a s : Rleb (Rabs a) (0 * s) = true -> a = 0.
Proof.
  intros H. apply Rleb_true in H. rewrite Rmult_0_l in H.
  destruct (Req_dec a 0) as [E|E]; [exact E|]. pose proof (Rabs_pos_lt a E). lra.
Qed.
Lemma Rleb_abs0_false a s : Rleb (Rabs a) (0 * s) = false -> a <> 0.
Proof. intros H E. apply Rleb_false in H. rewrite E, Rabs_R0 in H. lra. Qed.

(* ---------- the l-search ---------- *)
Lemma l_search_spec anorm (A : mat) : forall nn,
  let l := fst (l_search ROps 0 anorm A nn) in
  let A' := snd (l_search ROps 0 anorm A nn) in
  (l <= nn)%nat /\ ((0 < l)%nat -> A l (pred l) = 0) /\
  (forall i, (l < i)%nat -> (i <= nn)%nat -> A i (pred i) <> 0) /\
  (forall r c, A' r c = A r c).
Proof.
  induction nn as [|l1 IH]; cbv zeta; [|cbv zeta in IH]; cbn [l_search]; rops.
  - cbn [fst snd]. refine (conj _ (conj _ (conj _ _))); [lia|lia|intros; lia|reflexivity].
  - match goal with |- context[Rleb (Rabs ?a) (0 * ?s)] => destruct (Rleb (Rabs a) (0 * s)) eqn:E end.
    + apply Rleb_abs0_true in E. cbn [fst snd pred].
      refine (conj _ (conj _ (conj _ _))); [lia|intros _; exact E|intros; lia|].
      intros r c. unfold mupd. cmp; first [reflexivity | symmetry; exact E].
    + apply Rleb_abs0_false in E. destruct IH as (H1 & H2 & H3 & H4).
      refine (conj _ (conj H2 (conj _ H4))); [lia|].
      intros i Hi Hin. destruct (Nat.eq_dec i (S l1)) as [->|Hne]; [exact E|]. apply H3; lia.
Qed.

(* ---------- for i in 0..nn+1 { A[i][i] -= x } ---------- *)
Lemma shift_loop_spec nn x (A : mat) r c :
  forn 0 (S nn) (fun i (A : mat) => mupd A i i (A i i - x)) A r c =
  if (r =? c) && (r <=? nn)%nat then A r c - x else A r c.
Proof.
  assert (H : forall r c, forn 0 (S nn) (fun i (A : mat) => mupd A i i (A i i - x)) A r c =
              if (r =? c) && (r <? 0 + S nn)%nat then A r c - x else A r c).
  { apply (forn_ind (fun j (W : mat) => forall r c,
      W r c = if (r =? c) && (r <? j)%nat then A r c - x else A r c)).
    - intros r' c'. cmp; reflexivity.
    - intros j W Hj IH r' c'. unfold mupd. rewrite !IH. cmp; reflexivity. }
  rewrite H. cmp; reflexivity.
Qed.

(* ---------- zero_window ---------- *)
Lemma zero_window_spec m nn (A : mat) r c : (m + 2 <= nn)%nat ->
  zero_window ROps m nn A r c =
  if (m <=? c)%nat && (r <=? nn)%nat && ((r =? c + 2) || (r =? c + 3)) then 0 else A r c.
Proof.
  intros Hm. unfold zero_window.
  assert (H : forall r c, forn m (pred nn - m) (fun i (A : mat) =>
                 let A := mupd A (S (S i)) i 0 in
                 if i =? m then A else mupd A (S (S i)) (pred i) 0) A r c =
              if (m <=? c)%nat && (((r =? c + 2) && (c <? m + (pred nn - m))%nat) ||
                                   ((r =? c + 3) && (c + 1 <? m + (pred nn - m))%nat)) then 0 else A r c).
  { apply (forn_ind (fun j (W : mat) => forall r c,
      W r c = if (m <=? c)%nat && (((r =? c + 2) && (c <? j)%nat) || ((r =? c + 3) && (c + 1 <? j)%nat))
              then 0 else A r c)).
    - intros r' c'. cmp; reflexivity.
    - intros j W Hj IH r' c'. cbv zeta. destruct (Nat.eqb_spec j m) as [->|Hjm].
      + unfold mupd. rewrite IH. cmp; reflexivity.
      + unfold mupd. rewrite IH. destruct j as [|j']; [lia|]. cbn [pred]. cmp; reflexivity. }
  rops. rewrite H. cmp; reflexivity.
Qed.

(* ---------- the logical matrix ---------- *)
Definition hlog (na : nat) (t : R) (A : mat) : mat :=
  fun r c => uhess A r c + (if (r =? c) && (r <? na)%nat then t else 0).

Lemma hlog_J nn t A r c : hlog (S nn) t A r c = uhess A r c + t * Jm nn r c.
Proof. unfold hlog, Jm. cmp; ring. Qed.

Lemma hlog_ext n na t A A' : (forall r c, (r < n)%nat -> (c < n)%nat -> (r <= c + 1)%nat -> A r c = A' r c) ->
  meq n (hlog na t A) (hlog na t A').
Proof.
  intros H r c Hr Hc. unfold hlog, uhess. destruct (Nat.ltb_spec (c + 1) r); [reflexivity|].
  rewrite H by lia. reflexivity.
Qed.

(* (b) an orthogonal similarity of the upper Hessenberg parts that commutes with J carries the shift *)
Lemma sim_hlog n nn t (A A' G : mat) : Jcomm n nn G ->
  meq n (mmul n (uhess A) G) (mmul n G (uhess A')) ->
  meq n (mmul n (hlog (S nn) t A) G) (mmul n G (hlog (S nn) t A')).
Proof.
  intros HJ Hsim i j Hi Hj.
  transitivity (mmul n (uhess A) G i j + t * mmul n (Jm nn) G i j).
  { unfold mmul. rewrite <- rsum_scal, <- rsum_plus. apply rsum_ext. intros k _. rewrite hlog_J. ring. }
  rewrite (Hsim i j Hi Hj), (HJ i j Hi Hj).
  unfold mmul. rewrite <- rsum_scal, <- rsum_plus. apply rsum_ext. intros k _. rewrite hlog_J. ring.
Qed.
