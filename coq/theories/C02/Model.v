(* C02 — eigen-decomposition (src/linalg/evd.rs).  Executable definitions only.

   What is modelled (DESIGN.md section 4, C02): the parts of the two eigen-solvers that are direct
   code, not iterations:
     - `sort`            joint insertion of (d[j], e[j], column j of V) at the end of evd(false)
     - the tail of `tql2` the descending selection sort of (d[i], column i of V) at the end of evd(true)
     - `balance`/`balbak` diagonal similarity scaling by powers of the radix and its back-transformation
     - `hqr2`, branch `l == nn - 1`: the closed formulas for the two eigenvalues of a 2x2 block, and
       with it the whole eigenvalue part of `hqr2` for a 2x2 matrix.
   The reductions and the QL iteration are modelled in their own files, with arrays as functions on
   indices (FunMat.v): `tred2` in ModelTred2.v, the QL sweeps of `tql2` in ModelTql2.v (composed with
   tred2 and the sort below into evd(true) in ModelSymEvd.v), `elmhes` / `eltran` in ModelHess.v.
   `hqr2`'s QR sweeps / back-substitution are NOT modelled; for the general clause the property is
   decided per run by the verified validator of Validator.v.

   Conventions: arrays are lists, `upd` is assignment (the loops below only assign inside the
   bounds, see ProofsSort.v); for the two reorderings V is the list of its COLUMNS (DenseMatrix is
   column-major and both loops copy whole columns `for k in 0..n`), for balance/balbak a matrix is
   the list of its ROWS.  Numerical code is generic in `Ops T` (Base/Num.v). *)
From Coq Require Import List Arith Bool ZArith Reals.
From SC Require Import Base.Num.
Import ListNotations.

Fixpoint upd {A : Type} (l : list A) (i : nat) (x : A) : list A :=
  match l, i with
  | [], _ => []
  | _ :: t, 0 => x :: t
  | h :: t, S k => h :: upd t k x
  end.

(* ------------------------------------------------------------------------------------------ *)
(* evd.rs `sort`                                                                               *)
(* ------------------------------------------------------------------------------------------ *)
Section Sort.
  Context {T : Type} (t0 : T).
  (* `dec d i j` is the outcome of the test `d[i] >= d[j]` on the CURRENT contents of d (the code
     re-reads d[j], which the first shift has already overwritten).  The theorems hold for every
     such function, i.e. for every outcome of every comparison. *)
  Variable dec : list T -> nat -> nat -> bool.

  (*  let mut i = j as i32 - 1;
      while i >= 0 { if d[i] >= d[j] { break; }
                     d[i+1] = d[i]; e[i+1] = e[i]; for k in 0..n { V[k][i+1] = V[k][i] }  i -= 1; }
      `i1` is i + 1 (so it is a natural number); the result is the final i + 1. *)
  Fixpoint sort_shift (i1 j : nat) (d e : list T) (V : list (list T))
    : nat * (list T * list T * list (list T)) :=
    match i1 with
    | 0 => (0, (d, e, V))
    | S i =>
        if dec d i j then (S i, (d, e, V))
        else sort_shift i j (upd d (S i) (nth i d t0)) (upd e (S i) (nth i e t0)) (upd V (S i) (nth i V []))
    end.

  (*  one iteration of `for j in 1..n`  *)
  Definition sort_insert (st : list T * list T * list (list T)) (j : nat) :=
    let '(d, e, V) := st in
    let real := nth j d t0 in
    let img := nth j e t0 in
    let temp := nth j V [] in
    let '(i1, (d', e', V')) := sort_shift j j d e V in
    (upd d' i1 real, upd e' i1 img, upd V' i1 temp).

  Definition sort_model (d e : list T) (V : list (list T)) : list T * list T * list (list T) :=
    fold_left sort_insert (seq 1 (length d - 1)) (d, e, V).
End Sort.

(* the code's comparison `d[i] >= d[j]` *)
Definition sort_dec {T} (O : Ops T) (d : list T) (i j : nat) : bool :=
  O.(oleb) (nth j d O.(o0)) (nth i d O.(o0)).
Definition evd_sort {T} (O : Ops T) := sort_model O.(o0) (sort_dec O).

(* ------------------------------------------------------------------------------------------ *)
(* tail of `tql2`: descending selection sort                                                    *)
(* ------------------------------------------------------------------------------------------ *)
Section SelSort.
  Context {T : Type} (t0 : T).
  Variable gtb : T -> T -> bool.            (* `*d_j > p` *)

  (*  for j in i+1..n { if d[j] > p { k = j; p = d[j]; } }  *)
  Fixpoint sel_scan (js : list nat) (d : list T) (k : nat) (p : T) : nat * T :=
    match js with
    | [] => (k, p)
    | j :: t => if gtb (nth j d t0) p then sel_scan t d j (nth j d t0) else sel_scan t d k p
    end.

  (*  if k != i { d[k] = d[i]; d[i] = p; for j in 0..n { swap V[j][i], V[j][k] } }  *)
  Definition sel_step (n : nat) (st : list T * list (list T)) (i : nat) : list T * list (list T) :=
    let '(d, V) := st in
    let '(k, p) := sel_scan (seq (S i) (n - S i)) d i (nth i d t0) in
    if k =? i then (d, V)
    else (upd (upd d k (nth i d t0)) i p,
          upd (upd V i (nth k V [])) k (nth i V [])).

  (*  for i in 0..n-1  *)
  Definition tql2_sort (d : list T) (V : list (list T)) : list T * list (list T) :=
    let n := length d in fold_left (sel_step n) (seq 0 (n - 1)) (d, V).
End SelSort.

Definition tql2_sort_ops {T} (O : Ops T) := tql2_sort O.(o0) (fun a b => O.(oltb) b a).

(* ------------------------------------------------------------------------------------------ *)
(* `balance`, `balbak`                                                                          *)
(* ------------------------------------------------------------------------------------------ *)
Section Balance.
  Context {T : Type} (K : Ops T).
  Variable t095 : T.                           (* T::from(0.95) *)
  Local Notation zero := (K.(o0)).
  Local Notation one := (K.(o1)).
  Local Infix "+" := (K.(oadd)).
  Local Infix "*" := (K.(omul)).
  Local Infix "/" := (K.(odiv)).
  Definition radix : T := K.(oofZ) 2%Z.
  Definition sqrdx : T := radix * radix.

  Definition mget (A : list (list T)) (i j : nat) : T := nth j (nth i A []) zero.
  Definition neqb (a b : T) : bool := negb (K.(oeqb) a b).          (* Rust `!=` *)

  (* c += |A[j][i]|; r += |A[i][j]|  for j != i, j ascending *)
  Fixpoint bal_sums (js : list nat) (A : list (list T)) (i : nat) (c r : T) : T * T :=
    match js with
    | [] => (c, r)
    | j :: t => if j =? i then bal_sums t A i c r
                else bal_sums t A i (c + K.(oabs) (mget A j i)) (r + K.(oabs) (mget A i j))
    end.
  (* while c < g { f *= radix; c *= sqrdx; } *)
  Fixpoint bal_up (fuel : nat) (c g f : T) : option (T * T) :=
    match fuel with
    | 0 => None
    | S k => if K.(oltb) c g then bal_up k (c * sqrdx) g (f * radix) else Some (c, f)
    end.
  (* while c > g { f /= radix; c /= sqrdx; } *)
  Fixpoint bal_down (fuel : nat) (c g f : T) : option (T * T) :=
    match fuel with
    | 0 => None
    | S k => if K.(oltb) g c then bal_down k (c / sqrdx) g (f / radix) else Some (c, f)
    end.

  (* for j in 0..n { A[i][j] *= g }  then  for j in 0..n { A[j][i] *= f } *)
  Fixpoint scale_row (A : list (list T)) (i : nat) (g : T) : list (list T) :=
    match A, i with
    | [], _ => []
    | row :: t, 0 => map (fun x => x * g) row :: t
    | row :: t, S k => row :: scale_row t k g
    end.
  Fixpoint scale_at (row : list T) (i : nat) (f : T) : list T :=
    match row, i with
    | [], _ => []
    | x :: t, 0 => x * f :: t
    | x :: t, S k => x :: scale_at t k f
    end.
  Definition scale_col (A : list (list T)) (i : nat) (f : T) : list (list T) :=
    map (fun row => scale_at row i f) A.

  (* body of `for i in 0..n`; state (A, scale, done) *)
  Definition bal_index (fuel n : nat) (st : option (list (list T) * list T * bool)) (i : nat)
    : option (list (list T) * list T * bool) :=
    match st with
    | None => None
    | Some (A, scale, done) =>
        let '(c, r) := bal_sums (seq 0 n) A i zero zero in
        if neqb c zero && neqb r zero then
          let g := r / radix in
          let s := c + r in
          match bal_up fuel c g one with
          | None => None
          | Some (c1, f1) =>
              let g2 := r * radix in
              match bal_down fuel c1 g2 f1 with
              | None => None
              | Some (c2, f) =>
                  if K.(oltb) ((c2 + r) / f) (t095 * s) then
                    let g3 := one / f in
                    Some (scale_col (scale_row A i g3) i f, scale_at scale i f, false)
                  else Some (A, scale, done)
              end
          end
        else Some (A, scale, done)
    end.

  (* while !done { done = true; for i in 0..n {...} } *)
  Fixpoint bal_loop (sweeps fuel n : nat) (A : list (list T)) (scale : list T)
    : option (list (list T) * list T) :=
    match sweeps with
    | 0 => None
    | S k =>
        match fold_left (bal_index fuel n) (seq 0 n) (Some (A, scale, true)) with
        | None => None
        | Some (A', scale', true) => Some (A', scale')
        | Some (A', scale', false) => bal_loop k fuel n A' scale'
        end
    end.

  Definition balance (sweeps fuel : nat) (A : list (list T)) : option (list (list T) * list T) :=
    let n := length A in bal_loop sweeps fuel n A (repeat one n).

  (* for i in 0..n { for j in 0..n { V[i][j] *= scale[i] } } *)
  Fixpoint balbak (V : list (list T)) (scale : list T) : list (list T) :=
    match V, scale with
    | row :: t, s :: ts => map (fun x => x * s) row :: balbak t ts
    | _, _ => V
    end.
End Balance.

(* ------------------------------------------------------------------------------------------ *)
(* `hqr2`: two roots found (`l == nn - 1`)                                                      *)
(* ------------------------------------------------------------------------------------------ *)
Section Block2.
  Context {T : Type} (K : Ops T).
  Variable copysign : T -> T -> T.             (* RealNumber::copysign(magnitude, sign) *)
  Local Notation zero := (K.(o0)).
  Local Notation one := (K.(o1)).
  Local Infix "+" := (K.(oadd)).
  Local Infix "-" := (K.(osub)).
  Local Infix "*" := (K.(omul)).
  Local Infix "/" := (K.(odiv)).
  Definition half : T := one / K.(oofZ) 2%Z.

  (* x = A[nn][nn], y = A[nn-1][nn-1], w = A[nn][nn-1] * A[nn-1][nn], t = accumulated shift.
     Result ((d[nn-1], e[nn-1]), (d[nn], e[nn])); e stays at its initial zero in the real case. *)
  Definition block2 (x y w t : T) : (T * T) * (T * T) :=
    let p := half * (y - x) in
    let q := p * p + w in
    let z := K.(osqrt) (K.(oabs) q) in
    let x := x + t in
    if K.(oleb) zero q then
      let z := p + copysign z p in
      let d1 := x + z in
      let d2 := if neqb K z zero then x - w / z else x + z in
      ((d1, zero), (d2, zero))
    else
      let dn := x + p in
      let en := K.(oneg) z in
      ((dn, K.(oneg) en), (dn, en)).

  (* eigenvalue part of hqr2 for a 2x2 matrix [[a00,a01],[a10,a11]] (nn = 1, t = 0):
     result ([d0; d1], [e0; e1]) *)
  Definition hqr2_eig2 (eps a00 a01 a10 a11 : T) : list T * list T :=
    let anorm := zero + K.(oabs) a00 + K.(oabs) a01 + K.(oabs) a10 + K.(oabs) a11 in
    let s := K.(oabs) a00 + K.(oabs) a11 in
    let s := if K.(oeqb) s zero then anorm else s in
    if K.(oleb) (K.(oabs) a10) (eps * s) then
      (* l == nn twice: one root each, d[1] = x + t, then d[0] *)
      ([a00 + zero; a11 + zero], [zero; zero])
    else
      let '((d0, e0), (d1, e1)) := block2 a11 a00 (a10 * a01) zero in
      ([d0; d1], [e0; e1]).
End Block2.

Definition Rcopysign (z p : R) : R :=
  if Rltb p 0%R then Ropp (Rabs z) else Rabs z.
