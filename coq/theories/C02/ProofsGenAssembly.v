(* C02 — the general clause, assembly step: from the facts the stages of evd(false) provide in exact
   arithmetic (balancing is a diagonal similarity; the balanced matrix is similar to a quasi-triangular
   H whose blocks are recorded in (d, e); every real d_j comes with a non-zero eigenvector column)
   to `evd_gen_ok 0 0 0` for what `balbak` and `sort` finally return. *)
From Coq Require Import List Arith Bool Lia Reals Lra Permutation.
From SC Require Import Base.Num C02.Model C02.Validator C02.ProofsSort C02.ProofsSpec C02.FunMat
  C02.ProofsHouse C02.ModelSymEvd C02.ProofsSymEvd C02.ModelHqr2Spec C02.ProofsQtri C02.ProofsConj.
Import ListNotations.
Local Open Scope R_scope.

(* ---------- list / function glue ---------- *)
Lemma map_fst_combine {A B} : forall (l1 : list A) (l2 : list B),
  (length l1 <= length l2)%nat -> map fst (combine l1 l2) = l1.
Proof.
  induction l1 as [|a l1 IH]; intros l2 H; [reflexivity|].
  destruct l2 as [|b l2]; cbn in *; [lia|]. f_equal. apply IH. lia.
Qed.

Lemma rlsum_map_seq (f : nat -> R) : forall m k, rlsum (map f (seq k m)) = rsum (k + m) f - rsum k f.
Proof.
  unfold rlsum. induction m as [|m IH]; intros k.
  - rewrite Nat.add_0_r. cbn. ring.
  - cbn [seq map lsum fold_right]. fold (lsum 0 Rplus (map f (seq (S k) m))). rewrite IH.
    replace (k + S m)%nat with (S k + m)%nat by lia. cbn [rsum]. ring.
Qed.
Lemma rlsum_vlist n (f : nat -> R) : rlsum (vlist n f) = rsum n f.
Proof. unfold vlist. rewrite rlsum_map_seq. cbn [rsum Nat.add]. ring. Qed.

Lemma rtrace_mfun n (M : list (list R)) : square n M -> rtrace M = mtrace n (mfun 0 M).
Proof.
  intros [Hn _]. unfold rtrace, trace. fold rlsum. rewrite Hn.
  rewrite (rlsum_map_seq (fun i => nth i (nth i M []) 0)). cbn [rsum Nat.add]. unfold mtrace, mfun. ring.
Qed.
Lemma rtrace2_mfun n (M : list (list R)) : square n M ->
  rtrace2 M = mtrace n (mmul n (mfun 0 M) (mfun 0 M)).
Proof.
  intros HM. pose proof HM as [Hn _]. unfold rtrace2, trace2. fold rlsum rdot rcol. rewrite Hn.
  rewrite (map_ext_in _ (fun i => mmul n (mfun 0 M) (mfun 0 M) i i)).
  - rewrite rlsum_map_seq. cbn [rsum Nat.add]. unfold mtrace. ring.
  - intros i Hi. apply in_seq in Hi. apply (rdot_row_col n M M i i HM HM). lia.
Qed.

Lemma rvmax_nonneg v : 0 <= rvmax v.
Proof.
  unfold rvmax, vmax. induction v as [|x v IH]; cbn [fold_right]; [lra|].
  eapply Rle_trans; [exact IH|apply Rmax_r].
Qed.
Lemma rvmax_pos v : (exists i, nth i v 0 <> 0) -> 0 < rvmax v.
Proof.
  intros [i Hi]. revert i Hi. unfold rvmax, vmax. induction v as [|x v IH]; intros i Hi.
  - destruct i; cbn in Hi; contradiction.
  - cbn [fold_right]. destruct i as [|i]; cbn [nth] in Hi.
    + eapply Rlt_le_trans; [apply Rabs_pos_lt; exact Hi|apply Rmax_l].
    + eapply Rlt_le_trans; [apply (IH i Hi)|apply Rmax_r].
Qed.

Lemma transpose_rows_length n (M : list (list R)) : length (transpose_rows 0 n M) = n.
Proof. unfold transpose_rows. apply mrows_length. Qed.
Lemma nth_transpose_rows_length n (M : list (list R)) j : (j < n)%nat ->
  length (nth j (transpose_rows 0 n M) []) = n.
Proof. intros Hj. unfold transpose_rows. rewrite nth_mrows by exact Hj. apply vlist_length. Qed.

Lemma zip3_In_nth (dl el : list R) (Cl : list (list R)) t :
  length el = length dl -> length Cl = length dl -> In t (zip3 dl el Cl) ->
  exists j, (j < length dl)%nat /\ t = (nth j dl 0, nth j el 0, nth j Cl []).
Proof.
  intros He HC Hin. apply (In_nth _ _ (0, 0, [])) in Hin. destruct Hin as (j & Hj & <-).
  rewrite zip3_length in Hj by assumption. exists j. split; [exact Hj|].
  apply zip3_nth; assumption.
Qed.
Lemma zip3_nth_In (dl el : list R) (Cl : list (list R)) j :
  length el = length dl -> length Cl = length dl -> (j < length dl)%nat ->
  In (nth j dl 0, nth j el 0, nth j Cl []) (zip3 dl el Cl).
Proof.
  intros He HC Hj. rewrite <- (zip3_nth 0 dl el Cl j He HC). apply nth_In.
  rewrite zip3_length by assumption. exact Hj.
Qed.

(* ---------- assembly ---------- *)
Lemma gen_clause_assembly (A B : list (list R)) (s : list R) (H Z W V3 : mat) (d e : nat -> R)
    (d' e' : list R) (C : list (list R)) :
  let n := length A in
  similar_by n s A B ->
  qtri n H d e ->
  meq n (mmul n (mfun 0 B) Z) (mmul n Z H) -> meq n (mmul n W Z) mid -> meq n (mmul n Z W) mid ->
  (forall j, (j < n)%nat -> e j = 0 ->
     (forall i, (i < n)%nat -> rsum n (fun k => mfun 0 B i k * V3 k j) = d j * V3 i j) /\
     (exists i, (i < n)%nat /\ V3 i j <> 0)) ->
  evd_sort ROps (vlist n d) (vlist n e) (transpose_rows 0 n (balbak ROps (mrows n V3) s)) = (d', e', C) ->
  evd_gen_ok 0 0 0 A (transpose_rows 0 n C) d' e'.
Proof.
  intros n Hsim HQ HBZ HWZ HZW Hvec Hsort.
  pose proof Hsim as (HA & HB & Hs & Hnz & Hrel).
  set (dl := vlist n d) in *. set (el := vlist n e) in *.
  set (V4 := balbak ROps (mrows n V3) s) in *.
  set (Cols := transpose_rows 0 n V4) in *.
  assert (Hdl : length dl = n) by apply vlist_length.
  assert (Hel : length el = length dl) by (unfold el, dl; rewrite !vlist_length; reflexivity).
  assert (HCl : length Cols = length dl) by (unfold Cols; rewrite transpose_rows_length, Hdl; reflexivity).
  unfold evd_sort in Hsort. cbn [ROps o0] in Hsort.
  destruct (sort_joint_perm 0 (sort_dec ROps) dl el Cols d' e' C Hel HCl Hsort) as (Hd' & He' & HC' & Hperm).
  rewrite Hdl in Hd', He', HC'.
  (* entries of the back-transformed columns *)
  assert (EV4 : forall i j, (i < n)%nat -> (j < n)%nat -> nth i (nth j Cols []) 0 = nth i s 0 * V3 i j).
  { intros i j Hi Hj. unfold Cols. rewrite nth_transpose_rows by assumption. unfold V4.
    rewrite balbak_entry by (rewrite ?mrows_length; lia).
    change (nth j (nth i (mrows n V3) []) 0) with (mfun 0 (mrows n V3) i j).
    rewrite mfun_mrows by assumption. reflexivity. }
  (* every real eigenvalue carries an eigenvector of A, before the sort *)
  assert (Hpre : Forall (eig_triple_ok A) (zip3 dl el Cols)).
  { apply Forall_forall. intros t Hin.
    destruct (zip3_In_nth dl el Cols t Hel HCl Hin) as (j & Hj & ->). rewrite Hdl in Hj.
    unfold eig_triple_ok. unfold dl, el. rewrite !nth_vlist by exact Hj. intros He0.
    destruct (Hvec j Hj He0) as [Hres (i0 & Hi0 & Hne)]. fold n. split.
    - intros i Hi.
      rewrite (balbak_resid n s A B (vlist n (fun k => V3 k j)) (nth j Cols []) (d j) i Hsim).
      + unfold rresid, resid. fold rdot. rewrite (rdot_rsum n).
        * rewrite nth_vlist by exact Hi.
          rewrite (rsum_ext n _ (fun k => mfun 0 B i k * V3 k j))
            by (intros k Hk; rewrite nth_vlist by exact Hk; reflexivity).
          rewrite (Hres i Hi). ring.
        * apply (square_row i HB Hi).
        * apply vlist_length.
      + apply vlist_length.
      + unfold Cols. apply nth_transpose_rows_length. exact Hj.
      + intros k Hk. rewrite nth_vlist by exact Hk. apply EV4; assumption.
      + exact Hi.
    - exists i0. rewrite EV4 by assumption.
      apply Rmult_integral_contrapositive_currified; [apply Hnz; exact Hi0|exact Hne]. }
  destruct (sort_preserves_eigpairs (sort_dec ROps) A dl el Cols d' e' C Hel HCl Hsort) as (Hpost & Hre & Hsq).
  specialize (Hpost Hpre).
  (* the columns after the sort still have length n *)
  assert (Hlen : Forall (fun t : R * R * list R => length (snd t) = n) (zip3 d' e' C)).
  { apply (Permutation_Forall (Permutation_sym Hperm)). apply Forall_forall. intros t Hin.
    destruct (zip3_In_nth dl el Cols t Hel HCl Hin) as (j & Hj & ->). cbn [snd]. rewrite Hdl in Hj.
    unfold Cols. apply nth_transpose_rows_length. exact Hj. }
  assert (He'd' : length e' = length d') by lia. assert (HC'd' : length C = length d') by lia.
  assert (Hcol : forall j, (j < n)%nat -> rcol j (transpose_rows 0 n C) = nth j C []).
  { intros j Hj. apply (nth_ext _ _ 0 0).
    - rewrite rcol_length, transpose_rows_length.
      rewrite Forall_forall in Hlen. symmetry.
      apply (Hlen (nth j d' 0, nth j e' 0, nth j C [])). apply zip3_nth_In; lia.
    - intros i Hi. rewrite rcol_length, transpose_rows_length in Hi.
      rewrite nth_rcol. apply nth_transpose_rows; assumption. }
  (* sums *)
  assert (Emap1 : forall (x y : list R) (Cl : list (list R)), length y = length x -> length Cl = length x ->
             map re3 (zip3 x y Cl) = x).
  { intros x y Cl Hy HCl0. unfold zip3, re3. rewrite <- (map_map fst fst).
    rewrite map_fst_combine by (rewrite combine_length; lia). apply map_fst_combine. lia. }
  assert (Emap2 : forall (x y : list R) (Cl : list (list R)), length y = length x -> length Cl = length x ->
             map sq3 (zip3 x y Cl) = map (fun p => fst p * fst p - snd p * snd p) (combine x y)).
  { intros x y Cl Hy HCl0. unfold zip3, sq3.
    rewrite <- (map_map fst (fun p => fst p * fst p - snd p * snd p)).
    rewrite map_fst_combine by (rewrite combine_length; lia). reflexivity. }
  assert (Ecomb : forall (x y : list R) (Cl : list (list R)), length y = length x -> length Cl = length x ->
             map fst (zip3 x y Cl) = combine x y).
  { intros x y Cl Hy HCl0. unfold zip3. apply map_fst_combine. rewrite combine_length. lia. }
  assert (HBf : meq n (mmul n (mmul n (mfun 0 B) (mfun 0 B)) Z) (mmul n Z (mmul n H H)))
    by (apply similar_square; exact HBZ).
  unfold evd_gen_ok. fold n.
  split; [exact HA|]. split; [apply square_mrows|]. split; [exact Hd'|]. split; [exact He'|].
  split; [|split; [|split]].
  - (* conjugate pairing *)
    rewrite <- (Ecomb d' e' C He'd' HC'd').
    apply (ConjPaired_perm (map fst (zip3 dl el Cols))); [apply Permutation_map; apply Permutation_sym; exact Hperm|].
    rewrite (Ecomb dl el Cols Hel HCl). apply (qtri_conj_paired n H d e HQ).
  - (* trace *)
    replace (rlsum d' - rtrace A) with 0; [rewrite Rabs_R0; lra|].
    rewrite (Emap1 d' e' C He'd' HC'd'), (Emap1 dl el Cols Hel HCl) in Hre. rewrite Hre.
    unfold dl. rewrite rlsum_vlist, (qtri_trace n H d e HQ).
    rewrite (similar_mtrace n (mfun 0 B) Z W H HBZ HWZ HZW).
    rewrite <- (rtrace_mfun n B HB). rewrite (similar_trace n s A B Hsim). ring.
  - (* trace of squares *)
    replace (rsqsum d' e' - rtrace2 A) with 0; [rewrite Rabs_R0; lra|].
    rewrite (Emap2 d' e' C He'd' HC'd'), (Emap2 dl el Cols Hel HCl) in Hsq.
    unfold rsqsum, sqsum. fold rlsum. rewrite Hsq.
    assert (E : map (fun p : R * R => fst p * fst p - snd p * snd p) (combine dl el)
                = vlist n (fun i => d i * d i - e i * e i)).
    { unfold dl, el, vlist. generalize (seq 0 n). induction l as [|a l IH]; cbn; [reflexivity|]. rewrite IH. reflexivity. }
    rewrite E, rlsum_vlist, (qtri_trace2 n H d e HQ).
    rewrite (similar_mtrace n (mmul n (mfun 0 B) (mfun 0 B)) Z W (mmul n H H) HBf HWZ HZW).
    rewrite <- (rtrace2_mfun n B HB). rewrite (similar_trace2 n s A B Hsim). ring.
  - (* real eigenvalues: non-zero eigenvector columns *)
    intros j Hj He0. rewrite (Hcol j Hj).
    rewrite Forall_forall in Hpost.
    pose proof (Hpost (nth j d' 0, nth j e' 0, nth j C []) ltac:(apply zip3_nth_In; lia)) as Ht.
    unfold eig_triple_ok in Ht. destruct (Ht He0) as [Hres Hne]. fold n in Hres. split.
    + apply rvmax_pos. exact Hne.
    + intros i Hi. rewrite (Hres i Hi), Rabs_R0. lra.
Qed.
