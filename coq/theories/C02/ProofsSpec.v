(* C02 — exact-arithmetic facts behind the eigen-solvers' direct (non-iterative) steps:
   the 2x2 block formulas of hqr2, the back-transformation of balancing, and the invariance of
   everything the validators check under a joint permutation of (d_j, e_j, column j). *)
From Coq Require Import List Arith Bool Lia Permutation Reals Lra Psatz.
From SC Require Import Base.Num C02.Model C02.Validator C02.ProofsSort.
Import ListNotations.
Local Open Scope R_scope.

(* ------------------------------------------------------------------------------------------ *)
(* hqr2, two roots: the reported values are the roots of the block's characteristic polynomial  *)
(* ------------------------------------------------------------------------------------------ *)
Lemma block2_spectrum : forall x y w t d1 e1 d2 e2,
  block2 ROps Rcopysign x y w t = ((d1, e1), (d2, e2)) ->
  let tr := (x + t) + (y + t) in
  let det := (x + t) * (y + t) - w in
  (e1 = 0 /\ e2 = 0 /\ d1 + d2 = tr /\ d1 * d2 = det) \/
  (d1 = d2 /\ e1 = - e2 /\ e2 < 0 /\ d1 + d2 = tr /\ d1 * d1 + e1 * e1 = det).
Proof.
  intros x y w t d1 e1 d2 e2 H tr det. subst tr det.
  unfold block2, half, neqb in H. cbn [ROps o0 o1 oadd osub omul odiv oneg oabs osqrt oleb oeqb oofZ] in H.
  remember (1 / 2 * (y - x)) as p eqn:Hpd.
  remember (p * p + w) as q eqn:Hqd.
  destruct (Rleb 0 q) eqn:Eq.
  - apply Rleb_true in Eq. left.
    rewrite (Rabs_right q) in H by lra.
    pose proof (sqrt_sqrt q Eq) as Hs. pose proof (sqrt_pos q) as Hp.
    remember (sqrt q) as r eqn:Hrd. clear Hrd.
    assert (Hc : Rcopysign r p = (if Rltb p 0 then - r else r)).
    { unfold Rcopysign. rewrite (Rabs_right r) by lra. reflexivity. }
    rewrite Hc in H. clear Hc.
    remember (p + (if Rltb p 0 then - r else r)) as z eqn:Hzd.
    assert (Hz : z * z - 2 * p * z = w).
    { destruct (Rltb p 0); subst z; nra. }
    destruct (Reqb z 0) eqn:Ez; cbn [negb] in H.
    + apply Reqb_true in Ez. inversion H; subst d1 e1 d2 e2; clear H.
      assert (Hw : w = 0) by (rewrite <- Hz, Ez; ring).
      destruct (Rltb p 0) eqn:Ep.
      * apply Rltb_true in Ep. exfalso. lra.
      * apply Rltb_false in Ep. assert (p = 0) by lra.
        repeat split; try reflexivity; nra.
    + apply Reqb_false in Ez.
      inversion H; subst d1 e1 d2 e2; clear H.
      assert (Hw : w / z = z - 2 * p). { rewrite <- Hz. field. exact Ez. }
      rewrite Hw. repeat split; try reflexivity; nra.
  - apply Rleb_false in Eq. right.
    rewrite (Rabs_left q) in H by lra.
    assert (Hq : 0 <= - q) by lra.
    pose proof (sqrt_sqrt (- q) Hq) as Hs. pose proof (sqrt_lt_R0 (- q) ltac:(lra)) as Hp.
    remember (sqrt (- q)) as r eqn:Hrd. clear Hrd.
    inversion H; subst d1 e1 d2 e2; clear H.
    repeat split; try reflexivity; try lra; nra.
Qed.

(* ------------------------------------------------------------------------------------------ *)
(* vocabulary lemmas                                                                            *)
(* ------------------------------------------------------------------------------------------ *)
Lemma nth_rcol (j i : nat) (M : list (list R)) : nth i (rcol j M) 0 = nth j (nth i M []) 0.
Proof.
  unfold rcol, col. revert i. induction M as [|r M IH]; intros [|i]; cbn; auto.
  - destruct j; reflexivity.
  - destruct j; reflexivity.
Qed.

Lemma rcol_length j (M : list (list R)) : length (rcol j M) = length M.
Proof. unfold rcol, col. apply map_length. Qed.

(* dot products related entry by entry *)
Lemma rdot_scaled : forall (u v u' v' : list R) c,
  length u' = length u -> length v = length u -> length v' = length u ->
  (forall k, (k < length u)%nat -> nth k u 0 * nth k v 0 = c * (nth k u' 0 * nth k v' 0)) ->
  rdot u v = c * rdot u' v'.
Proof.
  unfold rdot. induction u as [|a u IH]; intros v u' v' c H1 H2 H3 H.
  - destruct u'; destruct v; destruct v'; cbn in *; try lia; ring.
  - destruct u' as [|a' u']; destruct v as [|b v]; destruct v' as [|b' v']; cbn in *; try lia.
    rewrite (IH v u' v' c); try lia.
    + pose proof (H 0%nat ltac:(lia)) as H0. cbn in H0. lra.
    + intros k Hk. apply (H (S k)). lia.
Qed.

Lemma rlsum_map_ext {A} (f g : A -> R) l :
  (forall x, In x l -> f x = g x) -> rlsum (map f l) = rlsum (map g l).
Proof. intros H. rewrite (map_ext_in f g l H). reflexivity. Qed.

(* ------------------------------------------------------------------------------------------ *)
(* balancing: B = S^-1 A S, V = S Y (what `balbak` computes)                                    *)
(* ------------------------------------------------------------------------------------------ *)
Definition similar_by (n : nat) (s : list R) (A B : list (list R)) : Prop :=
  square n A /\ square n B /\ length s = n /\
  (forall i, (i < n)%nat -> nth i s 0 <> 0) /\
  (forall i k, (i < n)%nat -> (k < n)%nat ->
     nth k (nth i B []) 0 = nth k (nth i A []) 0 * nth k s 0 / nth i s 0).

Lemma square_row {n} {M : list (list R)} i : square n M -> (i < n)%nat -> length (nth i M []) = n.
Proof. intros [H1 H2] Hi. apply H2. apply nth_In. lia. Qed.

(* the residual of (lam, S y) for A is S times the residual of (lam, y) for B, row by row *)
Lemma balbak_resid : forall n s A B y v lam i,
  similar_by n s A B -> length y = n -> length v = n ->
  (forall k, (k < n)%nat -> nth k v 0 = nth k s 0 * nth k y 0) ->
  (i < n)%nat ->
  rresid A v lam i = nth i s 0 * rresid B y lam i.
Proof.
  intros n s A B y v lam i (HA & HB & Hs & Hnz & Hrel) Hy Hv Hvy Hi.
  unfold rresid, resid. fold rdot.
  rewrite (rdot_scaled (nth i A []) v (nth i B []) y (nth i s 0)).
  - rewrite (Hvy i Hi). ring.
  - rewrite (square_row i HA Hi), (square_row i HB Hi). reflexivity.
  - rewrite (square_row i HA Hi). exact Hv.
  - rewrite (square_row i HA Hi). exact Hy.
  - intros k Hk. rewrite (square_row i HA Hi) in Hk.
    rewrite (Hrel i k Hi Hk), (Hvy k Hk).
    field; repeat split; apply Hnz; assumption.
Qed.

Lemma nth_map_mul (c : R) l j : nth j (map (fun x => x * c) l) 0 = nth j l 0 * c.
Proof. revert j; induction l as [|a l IH]; intros [|j]; cbn; auto; ring. Qed.

(* the model of `balbak`: row i of V is multiplied by scale[i] *)
Lemma balbak_entry : forall (V : list (list R)) s i j,
  (i < length V)%nat -> (i < length s)%nat ->
  nth j (nth i (balbak ROps V s) []) 0 = nth i s 0 * nth j (nth i V []) 0.
Proof.
  induction V as [|row V IH]; intros s i j HV Hs; cbn in HV; [lia|].
  destruct s as [|c s]; cbn in Hs; [lia|].
  destruct i as [|i]; cbn [balbak nth omul ROps].
  - rewrite nth_map_mul. ring.
  - apply IH; lia.
Qed.

Lemma balbak_length : forall (V : list (list R)) s, length (balbak ROps V s) = length V.
Proof. induction V as [|row V IH]; intros [|c s]; cbn; auto. Qed.

(* D^-1 A D y = lam y  ->  A (D y) = lam (D y), for column j of the matrix balbak returns *)
Lemma balbak_correct : forall n s A B Y lam j,
  similar_by n s A B -> square n Y ->
  (forall i, (i < n)%nat -> rresid B (rcol j Y) lam i = 0) ->
  forall i, (i < n)%nat -> rresid A (rcol j (balbak ROps Y s)) lam i = 0.
Proof.
  intros n s A B Y lam j Hsim HY Hres i Hi.
  pose proof Hsim as (_ & _ & Hs & _ & _). destruct HY as [HY1 HY2].
  rewrite (balbak_resid n s A B (rcol j Y) (rcol j (balbak ROps Y s)) lam i); auto.
  - rewrite Hres by assumption. ring.
  - rewrite rcol_length. exact HY1.
  - rewrite rcol_length, balbak_length. exact HY1.
  - intros k Hk. rewrite !nth_rcol. apply balbak_entry; lia.
Qed.

(* a non-zero column stays non-zero *)
Lemma balbak_nonzero : forall n s A B Y j,
  similar_by n s A B -> square n Y ->
  (exists i, (i < n)%nat /\ nth i (rcol j Y) 0 <> 0) ->
  exists i, (i < n)%nat /\ nth i (rcol j (balbak ROps Y s)) 0 <> 0.
Proof.
  intros n s A B Y j (_ & _ & Hs & Hnz & _) [HY1 HY2] (i & Hi & Hne).
  exists i. split; auto. rewrite nth_rcol in *. rewrite balbak_entry by lia.
  apply Rmult_integral_contrapositive_currified; auto.
Qed.

(* the two trace identities the general validator uses are invariant under the scaling *)
Lemma similar_trace : forall n s A B, similar_by n s A B -> rtrace B = rtrace A.
Proof.
  intros n s A B (HA & HB & Hs & Hnz & Hrel).
  unfold rtrace, trace. fold rlsum. destruct HA as [HA1 HA2]. destruct HB as [HB1 HB2].
  rewrite HA1, HB1. apply rlsum_map_ext. intros i Hi. apply in_seq in Hi.
  rewrite Hrel by lia. field. apply Hnz. lia.
Qed.

Lemma similar_trace2 : forall n s A B, similar_by n s A B -> rtrace2 B = rtrace2 A.
Proof.
  intros n s A B (HA & HB & Hs & Hnz & Hrel).
  unfold rtrace2, trace2. fold rlsum. fold rdot. fold rcol.
  pose proof HA as [HA1 HA2]. pose proof HB as [HB1 HB2].
  rewrite HA1, HB1. apply rlsum_map_ext. intros i Hi. apply in_seq in Hi.
  assert (Hi' : (i < n)%nat) by lia.
  rewrite (rdot_scaled (nth i B []) (rcol i B) (nth i A []) (rcol i A) 1); try ring.
  - rewrite (square_row i HA Hi'), (square_row i HB Hi'). reflexivity.
  - rewrite rcol_length, (square_row i HB Hi'). exact HB1.
  - rewrite rcol_length, (square_row i HB Hi'). exact HA1.
  - intros k Hk. rewrite (square_row i HB Hi') in Hk. rewrite !nth_rcol.
    rewrite (Hrel i k Hi' Hk), (Hrel k i Hk Hi'). field; repeat split; apply Hnz; assumption.
Qed.

(* ------------------------------------------------------------------------------------------ *)
(* invariance under a joint permutation of the (d_j, e_j, column j) triples                     *)
(* ------------------------------------------------------------------------------------------ *)
(* exact form of the per-column clause: a real eigenvalue carries a non-zero eigenvector of A *)
Definition eig_triple_ok (A : list (list R)) (t : R * R * list R) : Prop :=
  let '(d, e, v) := t in
  e = 0 -> (forall i, (i < length A)%nat -> rresid A v d i = 0) /\ (exists i, nth i v 0 <> 0).

Definition re3 (t : R * R * list R) : R := fst (fst t).
Definition sq3 (t : R * R * list R) : R := fst (fst t) * fst (fst t) - snd (fst t) * snd (fst t).

Lemma rlsum_perm : forall l l' : list R, Permutation l l' -> rlsum l = rlsum l'.
Proof.
  unfold rlsum, lsum. induction 1; cbn; try lra; congruence.
Qed.

Lemma eigpairs_perm_invariant : forall A (L L' : list (R * R * list R)),
  Permutation L' L ->
  (Forall (eig_triple_ok A) L -> Forall (eig_triple_ok A) L') /\
  rlsum (map re3 L') = rlsum (map re3 L) /\
  rlsum (map sq3 L') = rlsum (map sq3 L).
Proof.
  intros A L L' HP. repeat split.
  - intros HF. rewrite Forall_forall in *. intros t Ht. apply HF.
    eapply Permutation_in; eassumption.
  - apply rlsum_perm. apply Permutation_map. exact HP.
  - apply rlsum_perm. apply Permutation_map. exact HP.
Qed.

(* hence `sort` (whatever its comparisons answer) preserves eigen-pairs, trace and trace of squares *)
Lemma sort_preserves_eigpairs : forall (dec : list R -> nat -> nat -> bool) A d e V d' e' V',
  length e = length d -> length V = length d ->
  sort_model 0 dec d e V = (d', e', V') ->
  (Forall (eig_triple_ok A) (zip3 d e V) -> Forall (eig_triple_ok A) (zip3 d' e' V')) /\
  rlsum (map re3 (zip3 d' e' V')) = rlsum (map re3 (zip3 d e V)) /\
  rlsum (map sq3 (zip3 d' e' V')) = rlsum (map sq3 (zip3 d e V)).
Proof.
  intros dec A d e V d' e' V' He HV H.
  apply sort_joint_perm in H; auto. destruct H as (_ & _ & _ & HP).
  apply eigpairs_perm_invariant. exact HP.
Qed.
