(* C02 — second half of hqr2 (ModelHqr2Vec.v) over the reals: range sums as the code accumulates them, and
   the closed forms (entry by entry) of the auxiliary loops: the dot products, the rescaling of a column
   (overflow guard), the final product V := V * A. *)
From Coq Require Import List Arith Bool Lia Reals Lra Psatz.
From SC Require Import Base.Num C02.FunMat C02.ModelHqr2Vec C02.ProofsHessAlg C02.ProofsHessLoops.
Local Open Scope R_scope.

(* sum_{j = lo}^{lo+len-1} f j, accumulated upwards starting from 0 *)
Definition rgs (lo len : nat) (f : nat -> R) : R := forn lo len (fun j acc => acc + f j) 0.

Lemma rgs_acc f : forall len lo a, forn lo len (fun j acc => acc + f j) a = a + rgs lo len f.
Proof.
  induction len as [|l IH]; intros lo a; unfold rgs; cbn [forn].
  - ring.
  - rewrite (IH (S lo) (a + f lo)), (IH (S lo) (0 + f lo)). ring.
Qed.
Lemma rgs_O lo f : rgs lo 0 f = 0.
Proof. reflexivity. Qed.
Lemma rgs_S_first lo len f : rgs lo (S len) f = f lo + rgs (S lo) len f.
Proof. unfold rgs at 1. cbn [forn]. rewrite rgs_acc. ring. Qed.
Lemma rgs_S_last lo len f : rgs lo (S len) f = rgs lo len f + f (lo + len)%nat.
Proof. unfold rgs. rewrite forn_snoc. reflexivity. Qed.
Lemma rgs_ext lo len f g :
  (forall j, (lo <= j < lo + len)%nat -> f j = g j) -> rgs lo len f = rgs lo len g.
Proof.
  induction len as [|l IH]; intros H; [reflexivity|].
  rewrite !rgs_S_last. rewrite IH by (intros; apply H; lia). rewrite H by lia. reflexivity.
Qed.
Lemma rgs_scal_r lo len f c : rgs lo len (fun j => f j * c) = rgs lo len f * c.
Proof.
  induction len as [|l IH]; [rewrite !rgs_O; ring|]. rewrite !rgs_S_last, IH. ring.
Qed.
Lemma rgs_zero lo len f : (forall j, (lo <= j < lo + len)%nat -> f j = 0) -> rgs lo len f = 0.
Proof.
  induction len as [|l IH]; intros H; [reflexivity|].
  rewrite rgs_S_last, IH by (intros; apply H; lia). rewrite H by lia. ring.
Qed.
Lemma rgs_diff lo len f : rgs lo len f = rsum (lo + len) f - rsum lo f.
Proof.
  induction len as [|l IH].
  - rewrite Nat.add_0_r, rgs_O. ring.
  - rewrite rgs_S_last, IH. replace (lo + S l)%nat with (S (lo + l)) by lia. cbn [rsum]. ring.
Qed.
(* a sum over 0..n whose terms vanish outside lo..lo+len *)
Lemma rgs_rsum n lo len f :
  (lo + len <= n)%nat ->
  (forall j, (j < n)%nat -> (j < lo \/ lo + len <= j)%nat -> f j = 0) ->
  rsum n f = rgs lo len f.
Proof.
  intros Hn H0. rewrite rgs_diff.
  rewrite (rsum_trunc n (lo + len)) by (try lia; intros k Hk; apply H0; lia).
  rewrite (rsum_0 lo) by (intros k Hk; apply H0; lia). ring.
Qed.

(* ---- the loops ---- *)
Lemma vec_dot_spec (A : mat) i m nn c :
  vec_dot ROps A i m nn c = rgs m (nn + 1 - m) (fun j => A i j * A j c).
Proof. reflexivity. Qed.

Lemma vec_scale_col_spec (A : mat) i nn c t r' c' :
  vec_scale_col ROps A i nn c t r' c' =
  if (c' =? c) && (i <=? r') && (r' <? i + (nn + 1 - i)) then A r' c / t else A r' c'.
Proof.
  revert r' c'. unfold vec_scale_col.
  apply (forn_ind (fun k (S : mat) => forall r' c',
           S r' c' = if (c' =? c) && (i <=? r') && (r' <? k) then A r' c / t else A r' c')).
  - intros r' c'. bd; reflexivity.
  - intros k S Hk IH r' c'. cbv zeta. rops. unfold mupd. rewrite !IH.
    bd; try reflexivity; try (subst; reflexivity).
Qed.

(* the final product: column j of V' is V times column j of A (rows 0..j) *)
Lemma vec_product_spec n (A V : mat) i j :
  vec_product ROps n A V i j =
  if (i <? n) && (j <? n) then rgs 0 (j + 1) (fun k => V i k * A k j) else V i j.
Proof.
  revert i j. unfold vec_product.
  pose (P := fun k (Vc : mat) => forall i j,
           Vc i j = if (i <? n) && (k <=? j) && (j <? n) then rgs 0 (j + 1) (fun k => V i k * A k j) else V i j).
  assert (HP : P 0%nat (ford 0 n (fun j V0 => forn 0 n (fun i V1 =>
                  let z := forn 0 (j + 1) (fun k z => oadd ROps z (omul ROps (V1 i k) (A k j))) (o0 ROps) in
                  mupd V1 i j z) V0) V)).
  { apply (ford_ind P); unfold P.
    - intros i j. bd; reflexivity.
    - intros k Vk Hk IH i j.
      change n with (0 + n)%nat at 1.
      pose (Q := fun ii (Vc : mat) => forall i' j',
              Vc i' j' = if (j' =? k) && (i' <? ii) then rgs 0 (k + 1) (fun k' => V i' k' * A k' k) else Vk i' j').
      assert (HQ : Q (0 + n)%nat (forn 0 n (fun i V1 =>
                  let z := forn 0 (k + 1) (fun k' z => oadd ROps z (omul ROps (V1 i k') (A k' k))) (o0 ROps) in
                  mupd V1 i k z) Vk)).
      { apply (forn_ind Q); unfold Q.
        - intros i' j'. bd; reflexivity.
        - intros ii Vc Hii IHQ i' j'. cbv zeta. rops. unfold mupd.
          destruct (Nat.eqb_spec i' ii) as [->|Hne]; destruct (Nat.eqb_spec j' k) as [->|Hne2]; cbn [andb].
          + bd. fold (rgs 0 (k + 1) (fun k' => Vc ii k' * A k' k)). apply rgs_ext. intros k' Hk'.
            rewrite IHQ. bd; rewrite IH; bd; reflexivity.
          + rewrite IHQ. bd; reflexivity.
          + rewrite IHQ. bd; reflexivity.
          + rewrite IHQ. bd; reflexivity. }
      unfold Q in HQ. rewrite HQ. rewrite IH. cbn [Nat.add]. bd; try reflexivity; try (subst; reflexivity). }
  intros i j. refine (eq_trans (HP i j) _). bd; reflexivity.
Qed.
