(* C02 — hqr2, first half, over R: the relation between the ghost (logical) matrix and the stored
   array during a sweep, and its preservation by the row part and the column part of step k. *)
From Coq Require Import List Arith Bool Lia Reals Lra Psatz.
From SC Require Import Base.Num C02.FunMat C02.ProofsHouse C02.ProofsHqr2SweepAlg.
Local Open Scope R_scope.

Section Rel.
  Variables (n nn : nat).
  Hypothesis Hnn : (nn < n)%nat.

  (* stored bulge entries before step k (none before the first step) *)
  Definition bulge (first : bool) (k r c : nat) : bool :=
    negb first && (r <=? nn)%nat &&
    (((r =? S k) && (S c =? k)) || ((r =? S (S k)) && (S c =? k)) || ((r =? S (S k)) && (c =? k))).

  Definition Rel (first : bool) (k : nat) (M A : mat) : Prop :=
    (forall r c, (r < n)%nat -> (c < n)%nat -> (r <= S c)%nat -> M r c = A r c) /\
    (forall r c, (r < n)%nat -> (c < n)%nat -> (S c < r)%nat ->
       M r c = if bulge first k r c then A r c else 0) /\
    (forall r c, (r < n)%nat -> (c < n)%nat -> (S c < r)%nat -> (r <= nn)%nat -> (r <= c + 3)%nat ->
       (k <= c)%nat -> (first = true \/ ~ (r = S (S k) /\ c = k)) -> A r c = 0) /\
    ((S nn < n)%nat -> A (S nn) nn = 0).

  (* after the row part of step k *)
  Definition RelMid (k : nat) (N B : mat) : Prop :=
    (forall r c, (r < n)%nat -> (c < n)%nat -> (r <= S c)%nat -> N r c = B r c) /\
    (forall r c, (r < n)%nat -> (c < n)%nat -> (S c < r)%nat ->
       N r c = if (r =? S (S k)) && (c =? k) && (r <=? nn)%nat then B r c else 0) /\
    (forall r c, (r < n)%nat -> (c < n)%nat -> (S c < r)%nat -> (r <= nn)%nat -> (r <= c + 3)%nat ->
       (k <= c)%nat -> ~ (r = S (S k) /\ c = k) -> B r c = 0) /\
    ((S nn < n)%nat -> B (S nn) nn = 0).

  Lemma bulge_col_false first k i c : S c <> k -> c <> k -> bulge first k i c = false.
  Proof.
    intros H1 H2. unfold bulge. apply Nat.eqb_neq in H1. apply Nat.eqb_neq in H2. rewrite H1, H2.
    destruct first, (i <=? nn)%nat, (i =? S k), (i =? S (S k)); reflexivity.
  Qed.
  Lemma bulge_row_false first k i c : i <> S k -> i <> S (S k) -> bulge first k i c = false.
  Proof.
    intros H1 H2. unfold bulge. apply Nat.eqb_neq in H1. apply Nat.eqb_neq in H2. rewrite H1, H2.
    destruct first, (i <=? nn)%nat; reflexivity.
  Qed.
  Lemma bulge_nn_false first k i c : (nn < i)%nat -> bulge first k i c = false.
  Proof.
    intros H1. unfold bulge. apply Nat.leb_gt in H1. rewrite H1.
    destruct first; reflexivity.
  Qed.

  Section Step.
    Variables (k : nat) (first : bool) (p q r s xs x y z q' r' : R) (M A : mat).
    Hypothesis Hk : (S k <= nn)%nat.
    Hypothesis HRel : Rel first k M A.
    (* parameters *)
    Hypothesis Hvc : p + q' * q + r' * r = s.
    Hypothesis Hx : x * s = p + s.
    Hypothesis Hy : y * s = q.
    Hypothesis Hz : z * s = r.
    Hypothesis Hlast : (nn < S (S k))%nat -> z = 0 /\ r' = 0.
    (* column k-1 *)
    Hypothesis Hcol : first = false -> exists k1, k = S k1 /\
      A k k1 = xs * p /\ A (S k) k1 = xs * q /\ ((S (S k) <= nn)%nat -> A (S (S k)) k1 = xs * r) /\
      ((nn < S (S k))%nat -> r = 0).
    Hypothesis Hfirst : first = true -> forall c, S c = k -> A k c = 0.

    Definition A1 : mat :=
      if first then A else fun i j => if (i =? k) && (S j =? k) then - s * xs else A i j.

    Lemma A1_other i j : ~ (i = k /\ S j = k) -> A1 i j = A i j.
    Proof.
      intros H. unfold A1. destruct first; [reflexivity|]. cmp; reflexivity.
    Qed.

    (* entries of rows k..k+2 of M in a column c >= k coincide with the stored ones *)
    Lemma M_rows_ge c : (c < n)%nat -> (k <= c)%nat ->
      M k c = A k c /\ M (S k) c = A (S k) c /\ ((S (S k) <= nn)%nat -> M (S (S k)) c = A (S (S k)) c).
    Proof.
      destruct HRel as (Ha & Hb & Hd & He). intros Hc Hkc.
      split; [apply Ha; lia|]. split; [apply Ha; lia|]. intros H2.
      destruct (Nat.eq_dec c k) as [->|Hne]; [|apply Ha; lia].
      rewrite Hb by lia. unfold bulge. destruct first eqn:Ef; cbn [negb andb].
      - symmetry. apply Hd; try lia; left; reflexivity.
      - cmp. reflexivity.
    Qed.

    Definition SA (c : nat) : R := A k c + q' * A (S k) c + r' * A (S (S k)) c.
    Definition SM (c : nat) : R := M k c + q' * M (S k) c + r' * M (S (S k)) c.

    Lemma frow_SM i c : frow k x y z q' r' M i c = M i c - uu k x y z i * SM c.
    Proof. reflexivity. Qed.

    (* L1: in the columns c >= k the column sums of the ghost and of the storage agree *)
    Lemma SM_ge c : (c < n)%nat -> (k <= c)%nat -> SM c = SA c.
    Proof.
      intros Hc Hkc. destruct (M_rows_ge c Hc Hkc) as (H0 & H1 & H2). unfold SM, SA. rewrite H0, H1.
      destruct (Nat.le_gt_cases (S (S k)) nn) as [Hl|Hl].
      - rewrite H2 by exact Hl. reflexivity.
      - destruct (Hlast Hl) as [_ ->]. ring.
    Qed.

    (* L2: in the columns c < k only column k-1 contributes *)
    Lemma SM_lt c : (c < n)%nat -> (c < k)%nat ->
      SM c = if S c =? k then (if first then 0 else xs * s) else 0.
    Proof.
      destruct HRel as (Ha & Hb & Hd & He). intros Hc Hck. unfold SM.
      assert (H3 : forall v, ((S (S k) <= nn)%nat -> M (S (S k)) c = v) -> r' * M (S (S k)) c = r' * v).
      { intros v Hv. destruct (Nat.le_gt_cases (S (S k)) nn) as [Hl|Hl].
        - rewrite (Hv Hl). reflexivity.
        - destruct (Hlast Hl) as [_ ->]. ring. }
      destruct (Nat.eqb_spec (S c) k) as [Hsc|Hsc].
      - destruct first eqn:Ef.
        + rewrite (Ha k c) by lia. rewrite (Hfirst eq_refl c Hsc).
          rewrite (Hb (S k) c) by lia. unfold bulge at 1. cbn [negb andb].
          rewrite (H3 0). { ring. }
          intros Hl. rewrite Hb by lia. unfold bulge. cbn [negb andb]. reflexivity.
        + destruct (Hcol eq_refl) as (k1 & Hk1 & Hp & Hq & Hr & Hr0).
          assert (c = k1) by lia. subst c.
          rewrite (Ha k k1) by lia. rewrite Hp.
          rewrite (Hb (S k) k1) by lia. unfold bulge at 1. cbn [negb andb].
          replace ((S k <=? nn)%nat) with true by (symmetry; apply Nat.leb_le; lia).
          replace ((S k =? S k)) with true by (symmetry; apply Nat.eqb_refl).
          replace ((S k1 =? k)) with true by (symmetry; apply Nat.eqb_eq; lia).
          cbn [andb orb]. rewrite Hq.
          rewrite (H3 (xs * r)).
          { rewrite <- Hvc. ring. }
          intros Hl. rewrite Hb by lia. unfold bulge. cbn [negb andb].
          replace ((S (S k) <=? nn)%nat) with true by (symmetry; apply Nat.leb_le; lia).
          replace ((S (S k) =? S (S k))) with true by (symmetry; apply Nat.eqb_refl).
          replace ((S k1 =? k)) with true by (symmetry; apply Nat.eqb_eq; lia).
          replace ((S (S k) =? S k)) with false by (symmetry; apply Nat.eqb_neq; lia).
          cbn [andb orb]. apply Hr. exact Hl.
      - rewrite (Hb k c) by lia. rewrite (Hb (S k) c) by lia.
        assert (Eb : forall i, bulge first k i c = false) by (intros i; apply bulge_col_false; lia).
        rewrite !Eb. rewrite (H3 0). { ring. }
        intros Hl. rewrite Hb by lia. rewrite Eb. reflexivity.
    Qed.

    Lemma srow_ge i c : (k <= c)%nat -> srow k x y z q' r' A1 i c = A i c - uu k x y z i * SA c.
    Proof.
      intros Hkc. unfold srow. destruct (Nat.leb_spec k c); [|lia].
      unfold frow, SA. rewrite !A1_other by lia. reflexivity.
    Qed.
    Lemma srow_lt i c : (c < k)%nat -> srow k x y z q' r' A1 i c = A1 i c.
    Proof. intros Hkc. unfold srow. destruct (Nat.leb_spec k c); [lia|reflexivity]. Qed.

    Lemma bulge_rows i c : (S (S k) < i)%nat -> bulge first k i c = false.
    Proof. intros Hi. apply bulge_row_false; lia. Qed.

    Lemma row_step : RelMid k (frow k x y z q' r' M) (srow k x y z q' r' A1).
    Proof.
      pose proof HRel as (Ha & Hb & Hd & He).
      unfold RelMid. split; [|split; [|split]].
      - (* upper Hessenberg part *)
        intros i c Hi Hc Hic. rewrite frow_SM.
        destruct (Nat.le_gt_cases k c) as [Hkc|Hkc].
        + rewrite SM_ge, srow_ge by assumption. rewrite Ha by lia. reflexivity.
        + rewrite SM_lt, srow_lt by assumption. rewrite Ha by lia.
          destruct (Nat.eq_dec i k) as [->|Hik].
          * assert (Hck : S c = k) by lia. unfold uu. rewrite vec3_0.
            destruct (Nat.eqb_spec (S c) k); [|lia]. unfold A1.
            destruct first eqn:Ef; [ring|].
            destruct (Hcol eq_refl) as (k1 & Hk1 & Hp & Hq & Hr & Hr0).
            assert (c = k1) by lia. subst c. rewrite Nat.eqb_refl.
            replace (S k1 =? k) with true by (symmetry; apply Nat.eqb_eq; lia). cbn [andb].
            rewrite Hp. replace (xs * p - x * (xs * s)) with (xs * (p - x * s)) by ring. rewrite Hx. ring.
          * unfold uu. rewrite vec3_out by lia. rewrite A1_other by lia. ring.
      - (* below the sub-diagonal *)
        intros i c Hi Hc Hic. rewrite frow_SM.
        destruct (Nat.le_gt_cases k c) as [Hkc|Hkc].
        + rewrite SM_ge, srow_ge by assumption.
          destruct (Nat.eq_dec i (S (S k))) as [->|Hik2].
          * assert (c = k) by lia. subst c. rewrite !Nat.eqb_refl. cbn [andb].
            destruct (Nat.leb_spec (S (S k)) nn) as [Hl|Hl].
            -- destruct (M_rows_ge k Hc Hkc) as (_ & _ & H2). rewrite (H2 Hl). reflexivity.
            -- unfold uu. rewrite vec3_2. destruct (Hlast Hl) as [-> _].
               rewrite Hb by lia. rewrite bulge_nn_false by lia. ring.
          * replace ((i =? S (S k)) && (c =? k) && (i <=? nn)%nat) with false
              by (symmetry; apply andb_false_iff; left; apply andb_false_iff; left; apply Nat.eqb_neq; exact Hik2).
            unfold uu. rewrite vec3_out by lia. rewrite Hb by lia. rewrite bulge_rows by lia. ring.
        + rewrite SM_lt by assumption.
          replace ((i =? S (S k)) && (c =? k) && (i <=? nn)%nat) with false
            by (symmetry; apply andb_false_iff; left; apply andb_false_iff; right; apply Nat.eqb_neq; lia).
          destruct (Nat.eqb_spec (S c) k) as [Hsc|Hsc].
          * (* column k-1 *)
            destruct (Nat.eq_dec i (S k)) as [->|Hi1]; [|destruct (Nat.eq_dec i (S (S k))) as [->|Hi2]].
            -- unfold uu. rewrite vec3_1. rewrite Hb by lia. unfold bulge.
               destruct first eqn:Ef; cbn [negb andb]; [ring|].
               destruct (Hcol eq_refl) as (k1 & Hk1 & Hp & Hq & Hr & Hr0).
               assert (c = k1) by lia. subst c.
               replace ((S k <=? nn)%nat) with true by (symmetry; apply Nat.leb_le; lia).
               rewrite Nat.eqb_refl. replace (S k1 =? k) with true by (symmetry; apply Nat.eqb_eq; lia).
               cbn [andb orb]. rewrite Hq.
               replace (xs * q - y * (xs * s)) with (xs * (q - y * s)) by ring. rewrite Hy. ring.
            -- unfold uu. rewrite vec3_2.
               destruct (Nat.le_gt_cases (S (S k)) nn) as [Hl|Hl].
               ++ rewrite Hb by lia. unfold bulge.
                  destruct first eqn:Ef; cbn [negb andb]; [ring|].
                  destruct (Hcol eq_refl) as (k1 & Hk1 & Hp & Hq & Hr & Hr0).
                  assert (c = k1) by lia. subst c.
                  replace ((S (S k) <=? nn)%nat) with true by (symmetry; apply Nat.leb_le; lia).
                  rewrite Nat.eqb_refl. replace (S k1 =? k) with true by (symmetry; apply Nat.eqb_eq; lia).
                  replace ((S (S k) =? S k)) with false by (symmetry; apply Nat.eqb_neq; lia).
                  cbn [andb orb]. rewrite (Hr Hl).
                  replace (xs * r - z * (xs * s)) with (xs * (r - z * s)) by ring. rewrite Hz. ring.
               ++ destruct (Hlast Hl) as [-> _]. rewrite Hb by lia. rewrite bulge_nn_false by lia. ring.
            -- unfold uu. rewrite vec3_out by lia. rewrite Hb by lia. rewrite bulge_rows by lia. ring.
          * rewrite Hb by lia.
            rewrite bulge_col_false by lia. ring.
      - (* storage ahead of the bulge stays clean *)
        intros i c Hi Hc Hic Hin Hi3 Hkc Hne. rewrite srow_ge by exact Hkc.
        unfold uu. rewrite vec3_out by lia. rewrite (Hd i c) by (try lia; right; exact Hne). ring.
      - intros Hn1. rewrite srow_ge by lia. rewrite (He Hn1).
        destruct (Nat.eq_dec (S nn) (S (S k))) as [E|E].
        + rewrite E. unfold uu. rewrite vec3_2. destruct (Hlast ltac:(lia)) as [-> _]. ring.
        + unfold uu. rewrite vec3_out by lia. ring.
    Qed.
  End Step.

  Section ColStep.
    Variables (k : nat) (x y z q' r' : R) (N B : mat).
    Hypothesis Hk : (S k <= nn)%nat.
    Hypothesis HMid : RelMid k N B.
    Hypothesis Hlast : (nn < S (S k))%nat -> z = 0 /\ r' = 0.

    Definition mmin : nat := if (nn <? S (S (S k)))%nat then nn else S (S (S k)).
    Lemma mmin_spec i : (i <= mmin)%nat <-> ((i <= nn)%nat /\ (i <= S (S (S k)))%nat).
    Proof. unfold mmin. destruct (Nat.ltb_spec nn (S (S (S k)))); lia. Qed.

    Definition RN (i : nat) : R := x * N i k + y * N i (S k) + z * N i (S (S k)).
    Definition RB (i : nat) : R := x * B i k + y * B i (S k) + z * B i (S (S k)).
    Lemma fcol_RN i c : fcol k x y z q' r' N i c = N i c - RN i * vv k q' r' c.
    Proof. reflexivity. Qed.

    Lemma Nz_eq i v : (i < n)%nat -> ((S (S k) <= nn)%nat -> N i (S (S k)) = v) -> z * N i (S (S k)) = z * v.
    Proof.
      intros Hi Hv. destruct (Nat.le_gt_cases (S (S k)) nn) as [Hl|Hl].
      - rewrite (Hv Hl). reflexivity.
      - destruct (Hlast Hl) as [-> _]. ring.
    Qed.

    Lemma RN_le i : (i < n)%nat -> (i <= mmin)%nat -> RN i = RB i.
    Proof.
      destruct HMid as (Ha & Hb & Hd & He). intros Hi Hm. apply mmin_spec in Hm. destruct Hm as [Hm1 Hm2].
      unfold RN, RB.
      assert (E0 : N i k = B i k).
      { destruct (Nat.le_gt_cases i (S k)) as [H|H]; [apply Ha; lia|].
        rewrite Hb by lia. destruct (Nat.eq_dec i (S (S k))) as [->|Hne].
        - rewrite !Nat.eqb_refl. replace ((S (S k) <=? nn)%nat) with true by (symmetry; apply Nat.leb_le; lia).
          reflexivity.
        - replace (i =? S (S k)) with false by (symmetry; apply Nat.eqb_neq; lia). cbn [andb].
          symmetry. apply Hd; lia. }
      assert (E1 : N i (S k) = B i (S k)).
      { destruct (Nat.le_gt_cases i (S (S k))) as [H|H]; [apply Ha; lia|].
        rewrite Hb by lia. replace (i =? S (S k)) with false by (symmetry; apply Nat.eqb_neq; lia). cbn [andb].
        symmetry. apply Hd; lia. }
      rewrite E0, E1. rewrite (Nz_eq i (B i (S (S k)))); [reflexivity|exact Hi|].
      intros Hl. apply Ha; lia.
    Qed.

    Lemma RN_gt i : (i < n)%nat -> (mmin < i)%nat -> RN i = 0.
    Proof.
      destruct HMid as (Ha & Hb & Hd & He). intros Hi Hm.
      assert (Hm' : (nn < i)%nat \/ (S (S (S k)) < i)%nat).
      { destruct (Nat.le_gt_cases i nn); [|left; lia]. destruct (Nat.le_gt_cases i (S (S (S k)))); [|right; lia].
        exfalso. assert ((i <= mmin)%nat) by (apply mmin_spec; lia). lia. }
      unfold RN.
      assert (E0 : N i k = 0).
      { rewrite Hb by lia. destruct (Nat.eq_dec i (S (S k))) as [->|Hne].
        - replace ((S (S k) <=? nn)%nat) with false by (symmetry; apply Nat.leb_gt; lia).
          rewrite andb_false_r. reflexivity.
        - replace (i =? S (S k)) with false by (symmetry; apply Nat.eqb_neq; lia). reflexivity. }
      assert (E1 : N i (S k) = 0).
      { destruct (Nat.eq_dec i (S (S k))) as [->|Hne].
        - rewrite Ha by lia. assert (E : S k = nn) by lia. rewrite E. apply He. lia.
        - rewrite Hb by lia. replace (i =? S (S k)) with false by (symmetry; apply Nat.eqb_neq; lia). reflexivity. }
      rewrite E0, E1. rewrite (Nz_eq i 0); [ring|exact Hi|].
      intros Hl. destruct (Nat.eq_dec i (S (S (S k)))) as [->|Hne].
      - rewrite Ha by lia. assert (E : S (S k) = nn) by lia. rewrite E. apply He. lia.
      - rewrite Hb by lia. replace (S (S k) =? k) with false by (symmetry; apply Nat.eqb_neq; lia).
        rewrite andb_false_r. reflexivity.
    Qed.

    Lemma scol_le i c : (i <= mmin)%nat -> scol k x y z q' r' mmin B i c = B i c - RB i * vv k q' r' c.
    Proof. intros H. unfold scol. destruct (Nat.leb_spec i mmin); [reflexivity|lia]. Qed.
    Lemma scol_gt i c : (mmin < i)%nat -> scol k x y z q' r' mmin B i c = B i c.
    Proof. intros H. unfold scol. destruct (Nat.leb_spec i mmin); [lia|reflexivity]. Qed.

    Lemma col_step : Rel false (S k) (fcol k x y z q' r' N) (scol k x y z q' r' mmin B).
    Proof.
      pose proof HMid as (Ha & Hb & Hd & He).
      unfold Rel. split; [|split; [|split]].
      - intros i c Hi Hc Hic. rewrite fcol_RN. rewrite Ha by lia.
        destruct (Nat.le_gt_cases i mmin) as [Hm|Hm].
        + rewrite scol_le, RN_le by assumption. reflexivity.
        + rewrite scol_gt, RN_gt by assumption. ring.
      - intros i c Hi Hc Hic. rewrite fcol_RN.
        destruct (Nat.le_gt_cases i mmin) as [Hm|Hm].
        + rewrite scol_le, RN_le by assumption.
          pose proof (proj1 (mmin_spec i) Hm) as [Hm1 Hm2].
          destruct (bulge false (S k) i c) eqn:Eb.
          * (* new bulge entries *)
            assert (Hcase : (i = S (S k) /\ c = k) \/ (i = S (S (S k)) /\ c = k) \/ (i = S (S (S k)) /\ c = S k)).
            { unfold bulge in Eb. cbn [negb andb] in Eb.
              apply andb_true_iff in Eb. destruct Eb as [_ Eb].
              apply orb_true_iff in Eb. destruct Eb as [Eb|Eb]; [apply orb_true_iff in Eb; destruct Eb as [Eb|Eb]|];
                apply andb_true_iff in Eb; destruct Eb as [E1 E2];
                apply Nat.eqb_eq in E1; apply Nat.eqb_eq in E2; lia. }
            rewrite Hb by lia.
            destruct Hcase as [[-> ->]|[[-> ->]|[-> ->]]].
            -- rewrite !Nat.eqb_refl. replace ((S (S k) <=? nn)%nat) with true by (symmetry; apply Nat.leb_le; lia).
               reflexivity.
            -- replace (S (S (S k)) =? S (S k)) with false by (symmetry; apply Nat.eqb_neq; lia). cbn [andb].
               rewrite (Hd (S (S (S k))) k) by lia. reflexivity.
            -- replace (S (S (S k)) =? S (S k)) with false by (symmetry; apply Nat.eqb_neq; lia). cbn [andb].
               rewrite (Hd (S (S (S k))) (S k)) by lia. reflexivity.
          * (* not a bulge entry and i <= mmin: the column is not one of k..k+2 *)
            assert (Hc' : c <> k /\ c <> S k /\ c <> S (S k)).
            { unfold bulge in Eb. cbn [negb andb] in Eb.
              replace ((i <=? nn)%nat) with true in Eb by (symmetry; apply Nat.leb_le; lia). cbn [andb] in Eb.
              apply orb_false_iff in Eb. destruct Eb as [Eb E3]. apply orb_false_iff in Eb. destruct Eb as [E1 E2].
              repeat split; intros ->.
              - assert (i = S (S k) \/ i = S (S (S k))) as [->| ->] by lia.
                + rewrite !Nat.eqb_refl in E1. discriminate.
                + rewrite !Nat.eqb_refl in E2. discriminate.
              - assert (i = S (S (S k))) as -> by lia. rewrite !Nat.eqb_refl in E3. discriminate.
              - lia. }
            destruct Hc' as (H0 & H1 & H2). unfold vv. rewrite vec3_out by assumption.
            rewrite Hb by lia. replace (c =? k) with false by (symmetry; apply Nat.eqb_neq; lia).
            rewrite andb_false_r. cbn [andb]. ring.
        + rewrite RN_gt by assumption. rewrite Hb by lia.
          replace (bulge false (S k) i c) with false.
          * destruct (Nat.eq_dec i (S (S k))) as [->|Hne].
            -- replace ((S (S k) <=? nn)%nat) with false.
               ++ rewrite andb_false_r. ring.
               ++ symmetry. apply Nat.leb_gt. destruct (Nat.le_gt_cases (S (S k)) nn); [|lia].
                  exfalso. assert ((S (S k) <= mmin)%nat) by (apply mmin_spec; lia). lia.
            -- replace (i =? S (S k)) with false by (symmetry; apply Nat.eqb_neq; lia). cbn [andb]. ring.
          * symmetry. destruct (Nat.le_gt_cases i nn) as [Hin|Hin]; [|apply bulge_nn_false; exact Hin].
            apply bulge_row_false; intros ->; assert ((S (S k) <= mmin)%nat \/ True) by (right; exact I);
              [assert ((S (S k) <= mmin)%nat) by (apply mmin_spec; lia)|assert ((S (S (S k)) <= mmin)%nat) by (apply mmin_spec; lia)]; lia.
      - intros i c Hi Hc Hic Hin Hi3 Hkc Hne.
        assert (Hm : (mmin < i)%nat).
        { destruct (Nat.le_gt_cases i mmin) as [Hm|Hm]; [|exact Hm]. exfalso.
          apply mmin_spec in Hm. destruct Hne as [Hf|Hne]; [discriminate|]. apply Hne. lia. }
        rewrite scol_gt by exact Hm. apply Hd; lia.
      - intros Hn1. rewrite scol_gt.
        + apply He. exact Hn1.
        + assert (~ (S nn <= mmin)%nat) by (rewrite mmin_spec; lia). lia.
    Qed.
  End ColStep.
End Rel.
