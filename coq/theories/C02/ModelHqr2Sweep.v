(* C02 — src/linalg/evd.rs `hqr2`, FIRST HALF: from the computation of `anorm` to the end of
   `'outer: loop` (QR sweeps with double shift on the upper Hessenberg working array A, accumulation of
   the transformations into V, deflation of one or two roots into (d, e)); everything before
   `if anorm != T::zero() { ...back-substitution... }`.  Executable definitions only, generic in `Ops T`.

   Extra parameters: `copysign` (RealNumber::copysign(magnitude, sign)), `eps` (T::epsilon()),
   `n` (order; `n - 1` underflows for n = 0: None).
   T::half() = 1/2, T::from(0.75) = 3/4, T::from(-0.4375) = -(7/16) (exact in binary64).

   Arrays are total functions (FunMat.v).  Panics are `None`.

   The function-level variables z, s, r, q, p of the Rust code are always written before they are read
   inside one pass of the inner `loop` (p, q, r of the `while m >= l` search are read at k == m of
   `for k in m..nn`; for k != m they are recomputed, and when x == 0 there they are all zero and the
   step is skipped), so a pass is a function of (A, V, d, e, nn, t, its) only.

   Control: a pass either deflates (one root: nn -= 1; two roots: nn -= 2; or `break 'outer`) or
   performs a sweep (its += 1).  After a deflation `l + 1 >= nn` holds and the inner loop is left
   (its = 0 again); after a sweep l + 1 < nn and it continues.  The test is evaluated as in the code.
   its == 30 on entry of the sweep branch panics: the inner loop makes at most 31 passes; the outer loop
   at most n.  *)
From Coq Require Import List Arith Bool ZArith.
From SC Require Import Base.Num C02.FunMat C02.ModelTql2 C02.ModelHqr2Spec.
Import ListNotations.

Section Hqr2Sweep.
  Context {T : Type} (O : Ops T).
  Variable copysign : T -> T -> T.
  Variable eps : T.
  Variable n : nat.

  Local Notation zero := (O.(o0)).
  Local Notation one := (O.(o1)).
  Local Infix "+" := (O.(oadd)).
  Local Infix "-" := (O.(osub)).
  Local Infix "*" := (O.(omul)).
  Local Infix "/" := (O.(odiv)).
  Local Notation "-- x" := (O.(oneg) x) (at level 35, right associativity).
  Local Notation abs := (O.(oabs)).
  Local Notation sqrt := (O.(osqrt)).
  Local Notation "a != b" := (negb (O.(oeqb) a b)) (at level 70).
  Local Notation arr := (nat -> nat -> T).

  Definition h_half : T := one / O.(oofZ) 2%Z.
  Definition h_075 : T := O.(oofZ) 3%Z / O.(oofZ) 4%Z.
  Definition h_m04375 : T := -- (O.(oofZ) 7%Z / O.(oofZ) 16%Z).

  (*  let mut l = nn;
      while l > 0 { s = |A[l-1][l-1]| + |A[l][l]|; if s == 0 { s = anorm }
                    if |A[l][l-1]| <= eps * s { A[l][l-1] = 0; break; }  l -= 1; }  *)
  Fixpoint l_search (anorm : T) (A : arr) (l : nat) : nat * arr :=
    match l with
    | 0 => (0, A)
    | S l1 =>
        let s := abs (A l1 l1) + abs (A l l) in
        let s := if O.(oeqb) s zero then anorm else s in
        if O.(oleb) (abs (A l l1)) (eps * s) then (l, mupd A l l1 zero)
        else l_search anorm A l1
    end.

  (* body of `while m >= l` up to `if m == l { break; }`: the scaled p, q, r for this m *)
  Definition m_pqr (A : arr) (x y w : T) (m : nat) : T * T * T :=
    let z := A m m in
    let r := x - z in
    let s := y - z in
    let p := (r * s - w) / A (S m) m + A m (S m) in
    let q := A (S m) (S m) - z - r - s in
    let r := A (S (S m)) (S m) in
    let s := abs p + abs q + abs r in
    (p / s, q / s, r / s).

  (*  let mut m = nn - 2; while m >= l { ...; if m == l { break; } u, v; if u <= eps * v { break; } m -= 1; }
      `fuel` is m - l (so fuel = 0 iff m == l); result (m, p, q, r) *)
  Fixpoint m_search (A : arr) (x y w : T) (fuel m : nat) : nat * (T * T * T) :=
    let '(p, q, r) := m_pqr A x y w m in
    match fuel with
    | 0 => (m, (p, q, r))                                    (* m == l *)
    | S f =>
        let z := A m m in
        let u := abs (A m (pred m)) * (abs q + abs r) in
        let v := abs p * (abs (A (pred m) (pred m)) + abs z + abs (A (S m) (S m))) in
        if O.(oleb) u (eps * v) then (m, (p, q, r))
        else m_search A x y w f (pred m)
    end.

  (*  for i in m..nn-1 { A[i+2][i] = 0; if i != m { A[i+2][i-1] = 0; } }  *)
  Definition zero_window (m nn : nat) (A : arr) : arr :=
    forn m (Nat.sub (pred nn) m) (fun i A =>
      let A := mupd A (S (S i)) i zero in
      if i =? m then A else mupd A (S (S i)) (pred i) zero) A.

  (* row part of one step:  for j in k..n { p = A[k][j] + q*A[k+1][j];
        if k+1 != nn { p += r*A[k+2][j]; A[k+2][j] -= p*z; }  A[k+1][j] -= p*y;  A[k][j] -= p*x; } *)
  Definition h_rows (k : nat) (last : bool) (x y z q r : T) (A : arr) : arr :=
    forn k (Nat.sub n k) (fun j A =>
      let p := A k j + q * A (S k) j in
      let '(p, A) := if last then (p, A)
                     else let p := p + r * A (S (S k)) j in
                          (p, mupd A (S (S k)) j (A (S (S k)) j - p * z)) in
      let A := mupd A (S k) j (A (S k) j - p * y) in
      mupd A k j (A k j - p * x)) A.

  (* column part (used for A with rows 0..=mmin and for V with rows 0..n):
     for i in 0..cnt { p = x*M[i][k] + y*M[i][k+1];
        if k+1 != nn { p += z*M[i][k+2]; M[i][k+2] -= p*r; }  M[i][k+1] -= p*q;  M[i][k] -= p; } *)
  Definition h_cols (cnt k : nat) (last : bool) (x y z q r : T) (M : arr) : arr :=
    forn 0 cnt (fun i M =>
      let p := x * M i k + y * M i (S k) in
      let '(p, M) := if last then (p, M)
                     else let p := p + z * M i (S (S k)) in
                          (p, mupd M i (S (S k)) (M i (S (S k)) - p * r)) in
      let M := mupd M i (S k) (M i (S k) - p * q) in
      mupd M i k (M i k - p)) M.

  (* body of `for k in m..nn`; (p0, q0, r0) are the p, q, r left by the m-search *)
  Definition k_step_core (l m nn : nat) (p0 q0 r0 : T) (k : nat) (AV : arr * arr) : arr * arr :=
    let '(A, V) := AV in
    let last := S k =? nn in                              (* !(k + 1 != nn) *)
    let '(p, q, r, x) :=
      if k =? m then (p0, q0, r0, zero)                     (* x is not read for k == m *)
      else
        let p := A k (pred k) in
        let q := A (S k) (pred k) in
        let r := if last then zero else A (S (S k)) (pred k) in
        let x := abs p + abs q + abs r in
        if x != zero then (p / x, q / x, r / x, x) else (p, q, r, x) in
    let s := copysign (sqrt (p * p + q * q + r * r)) p in
    if s != zero then
      let A := if k =? m
               then (if l =? m then A else mupd A k (pred k) (-- (A k (pred k))))
               else mupd A k (pred k) (-- s * x) in
      let p := p + s in
      let x := p / s in
      let y := q / s in
      let z := r / s in
      let q := q / p in
      let r := r / p in
      let A := h_rows k last x y z q r A in
      let mmin := if nn <? S (S (S k)) then nn else S (S (S k)) in
      let A := h_cols (S mmin) k last x y z q r A in
      let V := h_cols n k last x y z q r V in
      (A, V)
    else (A, V).

  (* the arrays are re-tabulated before every step (identity on the indices < n; keeps the closures
     short when the model is executed) *)
  Definition k_step (l m nn : nat) (p0 q0 r0 : T) (k : nat) (AV : arr * arr) : arr * arr :=
    k_step_core l m nn p0 q0 r0 k (mtab O n (fst AV), mtab O n (snd AV)).

  (* the sweep branch after the `its == 30` test: exceptional shift, m-search, zeroing, steps.
     Result: A, V, t *)
  Definition sweep (l nn its : nat) (x : T) (A V : arr) (t : T) : arr * arr * T :=
    let y := A (pred nn) (pred nn) in
    let w := A nn (pred nn) * A (pred nn) nn in
    let '(x, y, w, A, t) :=
      if (its =? 10) || (its =? 20) then
        let t := t + x in                                          (* t += x *)
        let A := forn 0 (S nn) (fun i A => mupd A i i (A i i - x)) A in
        let s := abs (A nn (pred nn)) + abs (A (pred nn) (pred (pred nn))) in
        (h_075 * s, h_075 * s, h_m04375 * s * s, A, t)
      else (x, y, w, A, t) in
    let '(m, (p, q, r)) := m_search A x y w (Nat.sub (pred (pred nn)) l) (pred (pred nn)) in
    let A := zero_window m nn A in
    let '(A, V) := forn m (Nat.sub nn m) (k_step l m nn p q r) (A, V) in
    (A, V, t).

  (* two roots found: l == nn - 1.  x = A[nn][nn] *)
  Definition two_roots (nn : nat) (x : T) (A V : arr) (d e : nat -> T) (t : T)
    : arr * arr * (nat -> T) * (nat -> T) :=
    let na := pred nn in
    let y := A na na in
    let w := A nn na * A na nn in
    let p := h_half * (y - x) in
    let q := p * p + w in
    let z := sqrt (abs q) in
    let x := x + t in
    let A := mupd A nn nn x in
    let A := mupd A na na (y + t) in
    if O.(oleb) zero q then                                        (* q >= 0 *)
      let z := p + copysign z p in
      let d := vupd d na (x + z) in
      let d := vupd d nn (x + z) in
      let d := if z != zero then vupd d nn (x - w / z) else d in
      let x := A nn na in
      let s := abs x + abs z in
      let p := x / s in
      let q := z / s in
      let r := sqrt (p * p + q * q) in
      let p := p / r in
      let q := q / r in
      let A := forn na (Nat.sub n na) (fun j A =>
                 let z := A na j in
                 let A := mupd A na j (q * z + p * A nn j) in
                 mupd A nn j (q * A nn j - p * z)) A in
      let A := forn 0 (S nn) (fun i A =>
                 let z := A i na in
                 let A := mupd A i na (q * z + p * A i nn) in
                 mupd A i nn (q * A i nn - p * z)) A in
      let V := forn 0 n (fun i V =>
                 let z := V i na in
                 let V := mupd V i na (q * z + p * V i nn) in
                 mupd V i nn (q * V i nn - p * z)) V in
      (A, V, d, e)
    else
      let d := vupd d nn (x + p) in
      let e := vupd e nn (-- z) in
      let d := vupd d na (d nn) in
      let e := vupd e na (-- (e nn)) in
      (A, V, d, e).

  Record hstate := mkHS {
    hA : arr; hV : arr; hd : nat -> T; he : nat -> T; hnn : nat; ht : T }.

  Definition htab (st : hstate) : hstate :=
    mkHS (mtab O n (hA st)) (mtab O n (hV st)) (vtab O n (hd st)) (vtab O n (he st)) (hnn st) (ht st).

  Inductive pass_result :=
  | PDone (st : hstate)                 (* break 'outer *)
  | PNext (st : hstate) (l : nat)       (* reached `if l + 1 >= nn`, with the l of this pass *)
  | PPanic.

  (* one pass of the inner `loop` up to (excluding) the test `if l + 1 >= nn`; PNext's flag tells whether
     a sweep was made (its += 1) *)
  Definition pass (anorm : T) (its : nat) (st : hstate) : pass_result * bool :=
    let nn := hnn st in
    let t := ht st in
    let '(l, A) := l_search anorm (hA st) nn in
    let x := A nn nn in
    if l =? nn then
      let d := vupd (hd st) nn (x + t) in
      let A := mupd A nn nn (x + t) in
      if nn =? 0 then (PDone (mkHS A (hV st) d (he st) nn t), false)
      else (PNext (mkHS A (hV st) d (he st) (pred nn) t) l, false)
    else if l =? pred nn then
      let '(A, V, d, e) := two_roots nn x A (hV st) (hd st) (he st) t in
      if nn <=? 1 then (PDone (mkHS A V d e nn t), false)
      else (PNext (mkHS A V d e (pred (pred nn)) t) l, false)
    else if its =? 30 then (PPanic, false)
    else
      let '(A, V, t) := sweep l nn its x A (hV st) t in
      (PNext (mkHS A V (hd st) (he st) nn t) l, true).

  (* inner `loop`: result Some (inl st) = break 'outer, Some (inr st) = inner loop left, None = panic *)
  Fixpoint inner_loop (anorm : T) (fuel its : nat) (st : hstate) : option (hstate + hstate) :=
    match fuel with
    | 0 => None                                   (* unreachable with fuel 31 *)
    | S f =>
        match pass anorm its (htab st) with
        | (PPanic, _) => None
        | (PDone st', _) => Some (inl st')
        | (PNext st' l, swept) =>
            if hnn st' <=? S l then Some (inr st')            (* if l + 1 >= nn { break; } *)
            else inner_loop anorm f (if swept then S its else its) st'
        end
    end.

  Fixpoint outer_loop (anorm : T) (fuel : nat) (st : hstate) : option hstate :=
    match fuel with
    | 0 => None                                   (* unreachable with fuel n *)
    | S f =>
        match inner_loop anorm 31 0 st with       (* let mut its = 0; loop { ... } *)
        | None => None
        | Some (inl st') => Some st'
        | Some (inr st') => outer_loop anorm f st'
        end
    end.

  (* first half of hqr2: (A, V, d, e, anorm) *)
  Definition hqr2_sweeps (A V : arr) (d e : nat -> T)
    : option (arr * arr * (nat -> T) * (nat -> T) * T) :=
    if n =? 0 then None
    else
      let anorm := hqr2_anorm O n A in
      match outer_loop anorm n (mkHS A V d e (pred n) zero) with
      | None => None
      | Some st => Some (hA st, hV st, hd st, he st, anorm)
      end.
End Hqr2Sweep.

(* on lists: rows of A, rows of V, d, e (n = length d) *)
Definition hqr2_sweeps_rows {T} (O : Ops T) (copysign : T -> T -> T) (eps : T)
    (A V : list (list T)) (d e : list T)
  : option (list (list T) * list (list T) * list T * list T * T) :=
  let n := length d in
  match hqr2_sweeps O copysign eps n (mfun O.(o0) A) (mfun O.(o0) V) (vfun O.(o0) d) (vfun O.(o0) e) with
  | None => None
  | Some (A', V', d', e', anorm) => Some (mrows n A', mrows n V', vlist n d', vlist n e', anorm)
  end.
