(* C02 — second half of hqr2 over the reals (ModelHqr2Vec.v): the outer loop over nn and the final product.
   Main results (arbitrary eps; H := uhess A quasi-triangular (qtri); ghost ok = true; anorm <> 0):
   for every real eigenvalue d[nn] (e[nn] = 0) the column nn of the array returned holds, in rows <= nn,
   a vector x with x[nn] <> 0 and (H - d[nn] I) x = 0, column nn of the returned V is V x, hence an
   eigenvector of any B with B V = V H, non-zero when V has a left inverse.
   Frame facts: a real-eigenvalue iteration writes only column nn (rows <= nn), a complex-pair iteration
   only columns nn-1 and nn; neither changes what later iterations read. *)
From Coq Require Import List Arith Bool Lia Reals Lra Psatz Setoid Morphisms.
From SC Require Import Base.Num C02.FunMat C02.ModelHqr2Spec C02.ModelHqr2Vec
                       C02.ProofsHessAlg C02.ProofsHessLoops C02.ProofsHqr2VecSum C02.ProofsHqr2VecReal
                       C02.ProofsHqr2VecFrame.
Local Open Scope R_scope.

(* ------------------------------------------------------------------------------------------ *)
(* the outer loop                                                                               *)
(* ------------------------------------------------------------------------------------------ *)
Section Outer.
  Variables (n : nat) (eps anorm : R) (A : mat) (d e : nat -> R).
  Hypothesis Hq : qtri n (uhess A) d e.
  Let H := uhess A.

  (* what a real-eigenvalue iteration leaves in its column *)
  Definition ColOK (nn : nat) (Ac : mat) : Prop :=
    Ac nn nn <> 0 /\
    forall i, (i < nn)%nat -> rgs 0 (nn + 1) (fun j => H i j * Ac j nn) = d nn * Ac i nn.

  Lemma ColOK_ext nn A1 A2 : (forall r, A2 r nn = A1 r nn) -> ColOK nn A1 -> ColOK nn A2.
  Proof.
    intros HE [H1 H2]. split; [rewrite HE; exact H1|].
    intros i Hi. rewrite HE, <- H2 by exact Hi. apply rgs_ext. intros j _. rewrite HE. reflexivity.
  Qed.

  Lemma e_next_not_neg k : (k < n)%nat -> e k <= 0 -> ~ ((S k < n)%nat /\ e (S k) < 0).
  Proof.
    intros Hk Hek [H1 H2]. destruct Hq as (_ & _ & _ & _ & H5).
    destruct (H5 (S k) H1 H2) as (j & Hj & Hej). injection Hj as <-. lra.
  Qed.

  (* one iteration of the outer loop: state after the iterations nn >= k *)
  Definition OInv (nn0 k : nat) (st : vst) : Prop :=
    vok st = true ->
    (forall r c, ((c + 1 < k)%nat \/ ((c + 1)%nat = k /\ ~ ((k < n)%nat /\ e k < 0))) -> vA st r c = A r c) /\
    ((k <= nn0)%nat -> (nn0 < n)%nat -> ColOK nn0 (vA st)).

  Lemma outer_step nn0 k st :
    ((nn0 < n)%nat -> e nn0 = 0) -> (k < n)%nat ->
    OInv nn0 (S k) st -> OInv nn0 k (vec_iter ROps eps anorm d e k st).
  Proof.
    intros Henn0 Hk IH. unfold OInv, vec_iter in *. rops.
    destruct (Reqb (e k) 0) eqn:E1.
    - (* real eigenvalue *)
      apply Reqb_true in E1. intros Hok.
      pose proof (vec_real_ok_mono _ _ _ _ _ _ _ Hok) as Hok0.
      destruct (IH Hok0) as [G1 G2].
      assert (HA0 : forall r c, (c <= k)%nat -> (r <= c + 1)%nat -> vA st r c = uhess A r c).
      { intros r c Hc Hr. rewrite G1.
        - unfold uhess. bd. reflexivity.
        - destruct (Nat.eq_dec c k) as [->|Hne]; [right|left; lia].
          split; [lia|]. apply e_next_not_neg; [exact Hk|lra]. }
      pose proof (vec_real_spec n eps anorm (uhess A) d e Hq k Hk E1 (vA st) HA0 st eq_refl) as HS.
      cbv zeta in HS. destruct (HS Hok) as (_ & HF & HX & HE).
      split.
      + intros r c Hc. rewrite HF by lia. apply G1. lia.
      + intros Hk0 Hn0. destruct (Nat.eq_dec k nn0) as [->|Hne].
        * split; [exact HX|exact HE].
        * apply (ColOK_ext nn0 (vA st)); [intros r; apply HF; lia|apply G2; lia].
    - apply Reqb_false in E1. destruct (Rltb (e k) 0) eqn:E2.
      + (* complex pair *)
        apply Rltb_true in E2.
        destruct (vec_cplx_frame eps anorm (d k) (e k) d e k st) as [F1 F2].
        rewrite F1. intros Hok. destruct (IH Hok) as [G1 G2].
        split.
        * intros r c Hc. destruct Hc as [Hc|[_ Hc]]; [|exfalso; apply Hc; split; assumption].
          rewrite F2 by lia. apply G1. left. lia.
        * intros Hk0 Hn0. assert (k <> nn0) by (intros ->; specialize (Henn0 Hn0); lra).
          apply (ColOK_ext nn0 (vA st)); [intros r; apply F2; lia|apply G2; lia].
      + (* upper row of a pair: nothing is done *)
        apply Rltb_false in E2. intros Hok. destruct (IH Hok) as [G1 G2].
        split.
        * intros r c Hc. apply G1. lia.
        * intros Hk0 Hn0. assert (k <> nn0) by (intros ->; specialize (Henn0 Hn0); lra). apply G2; lia.
  Qed.

  Lemma backsub_spec nn0 z s r :
    (nn0 < n)%nat -> e nn0 = 0 ->
    let st := vec_backsub ROps eps n anorm d e (mkV A z s r true) in
    vok st = true -> ColOK nn0 (vA st).
  Proof.
    intros Hnn0 Henn0. cbv zeta. unfold vec_backsub.
    assert (HI : OInv nn0 0 (ford 0 n (vec_iter ROps eps anorm d e) (mkV A z s r true))).
    { apply (ford_ind (OInv nn0)).
      - unfold OInv. cbn [vA vok]. intros _. split; [reflexivity|]. intros Hc. lia.
      - intros k st Hk IH. apply outer_step; try assumption; try lia. intros _. exact Henn0. }
    intros Hok. destruct (HI Hok) as [_ G2]. apply G2; lia.
  Qed.

  (* a sufficient condition for the ghost flag: the real eigenvalues are pairwise distinct *)
  Lemma backsub_ok z s r :
    (forall i nn, (i < nn)%nat -> (nn < n)%nat -> e i = 0 -> e nn = 0 -> d i <> d nn) ->
    vok (vec_backsub ROps eps n anorm d e (mkV A z s r true)) = true.
  Proof.
    intros Hd. unfold vec_backsub.
    assert (HI : (fun k st => vok st = true /\ OInv n k st) 0%nat
                   (ford 0 n (vec_iter ROps eps anorm d e) (mkV A z s r true))).
    { apply (ford_ind (fun k st => vok st = true /\ OInv n k st)).
      - split; [reflexivity|]. unfold OInv. cbn [vA vok]. intros _. split; [reflexivity|]. intros Hc. lia.
      - intros k st Hk [Hok IH]. split; [|apply outer_step; try assumption; try lia].
        unfold vec_iter. rops. destruct (Reqb (e k) 0) eqn:E1.
        + apply Reqb_true in E1. destruct (IH Hok) as [G1 _].
          apply (vec_real_ok n eps anorm (uhess A) d e Hq k ltac:(lia) E1 (vA st)); try assumption; try reflexivity.
          * intros r0 c Hc Hr. rewrite G1.
            -- unfold uhess. bd. reflexivity.
            -- destruct (Nat.eq_dec c k) as [->|Hne]; [right|left; lia].
               split; [lia|]. apply e_next_not_neg; [lia|lra].
          * intros i Hi Hei. apply Hd; try assumption; lia.
        + destruct (Rltb (e k) 0); [|exact Hok].
          rewrite (proj1 (vec_cplx_frame eps anorm (d k) (e k) d e k st)). exact Hok. }
    exact (proj1 HI).
  Qed.
End Outer.

(* ------------------------------------------------------------------------------------------ *)
(* the statements                                                                               *)
(* ------------------------------------------------------------------------------------------ *)

(* anorm = 0: nothing is done *)
Lemma hqr2_vectors_anorm0 eps n (A V : mat) d e :
  hqr2_vectors ROps eps n 0 A V d e = (A, V) /\ hqr2_vectors_ok ROps eps n 0 A V d e = true.
Proof.
  unfold hqr2_vectors, hqr2_vectors_ok, hqr2_vectors_full, hqr2_vectors_from. rops.
  assert (E : Reqb 0 0 = true) by (apply Reqb_true; reflexivity). rewrite E. cbn [negb fst snd]. tauto.
Qed.

(* frame of one real-eigenvalue iteration (under qtri, ok): only column nn, rows <= nn, is written *)
Lemma hqr2_real_iteration_frame n eps anorm (A0 : mat) d e nn (st : vst) :
  qtri n (uhess A0) d e -> (nn < n)%nat -> e nn = 0 -> vA st = A0 ->
  vok (vec_real ROps eps anorm (d nn) d e nn st) = true ->
  forall r c, ~ (c = nn /\ (r <= nn)%nat) -> vA (vec_real ROps eps anorm (d nn) d e nn st) r c = A0 r c.
Proof.
  intros Hq Hnn He HA Hok.
  assert (HA0 : forall r c, (c <= nn)%nat -> (r <= c + 1)%nat -> A0 r c = uhess A0 r c).
  { intros r c _ Hr. unfold uhess. bd. reflexivity. }
  pose proof (vec_real_spec n eps anorm (uhess A0) d e Hq nn Hnn He A0 HA0 st HA) as HS.
  cbv zeta in HS. destruct (HS Hok) as (_ & HF & _). exact HF.
Qed.

(* the real-eigenvalue columns *)
Lemma hqr2_vectors_real_column eps n anorm (A V : mat) d e nn :
  qtri n (uhess A) d e -> anorm <> 0 ->
  hqr2_vectors_ok ROps eps n anorm A V d e = true ->
  (nn < n)%nat -> e nn = 0 ->
  let A' := fst (hqr2_vectors ROps eps n anorm A V d e) in
  let V' := snd (hqr2_vectors ROps eps n anorm A V d e) in
  exists x : nat -> R,
    x nn <> 0 /\
    (forall k, (nn < k)%nat -> x k = 0) /\
    (forall k, (k <= nn)%nat -> x k = A' k nn) /\
    (forall i, (i < n)%nat -> rsum n (fun j => uhess A i j * x j) = d nn * x i) /\
    (forall i, (i < n)%nat -> V' i nn = rsum n (fun k => V i k * x k)).
Proof.
  intros Hq Han Hok Hnn He. cbv zeta.
  unfold hqr2_vectors, hqr2_vectors_ok, hqr2_vectors_full, hqr2_vectors_from in *. revert Hok. rops.
  assert (E : Reqb anorm 0 = false) by (apply Reqb_false; exact Han). rewrite E. cbn [negb fst snd].
  set (st := vec_backsub ROps eps n anorm d e (mkV A 0 0 0 true)). intros Hok.
  pose proof (backsub_spec n eps anorm A d e Hq nn 0 0 0 Hnn He) as HC. cbv zeta in HC.
  fold st in HC. destruct (HC Hok) as [HX HE].
  exists (fun j => if j <=? nn then vA st j nn else 0).
  assert (Hx0 : forall k, (nn < k)%nat -> (if k <=? nn then vA st k nn else 0) = 0) by (intros k Hk; bd; reflexivity).
  split; [bd; exact HX|]. split; [exact Hx0|]. split; [intros k Hk; bd; reflexivity|]. split.
  - apply (real_vector_eig n (uhess A) d e Hq nn Hnn He _ Hx0).
    intros i Hi. bd. rewrite <- HE by exact Hi. apply rgs_ext. intros j Hj. bd. reflexivity.
  - intros i Hi. rewrite vec_product_spec. bd.
    rewrite (rgs_rsum n 0 (nn + 1)) by (try lia; intros j Hj Hjr; rewrite Hx0 by lia; ring).
    apply rgs_ext. intros j Hj. bd. reflexivity.
Qed.

(* ... are eigenvectors of any B with B V = V H, non-zero when V has a left inverse *)
Lemma hqr2_vectors_real_eigvec eps n anorm (A V B : mat) d e nn :
  qtri n (uhess A) d e -> anorm <> 0 ->
  hqr2_vectors_ok ROps eps n anorm A V d e = true ->
  (nn < n)%nat -> e nn = 0 ->
  meq n (mmul n B V) (mmul n V (uhess A)) ->
  let V' := snd (hqr2_vectors ROps eps n anorm A V d e) in
  forall i, (i < n)%nat -> rsum n (fun k => B i k * V' k nn) = d nn * V' i nn.
Proof.
  intros Hq Han Hok Hnn He HB. cbv zeta.
  destruct (hqr2_vectors_real_column eps n anorm A V d e nn Hq Han Hok Hnn He) as (x & _ & _ & _ & HE & HV).
  cbv zeta in HV. intros i Hi.
  (* the vector as a matrix with constant rows *)
  pose (X := fun (r c : nat) => x r).
  assert (HV' : forall k, (k < n)%nat -> snd (hqr2_vectors ROps eps n anorm A V d e) k nn = mmul n V X k 0%nat).
  { intros k Hk. rewrite HV by exact Hk. reflexivity. }
  rewrite (rsum_ext n _ (fun k => B i k * mmul n V X k 0%nat)) by (intros k Hk; rewrite HV' by exact Hk; reflexivity).
  change (rsum n (fun k => B i k * mmul n V X k 0%nat)) with (mmul n B (mmul n V X) i 0%nat).
  rewrite <- mmul_assoc.
  assert (H0 : (0 < n)%nat) by lia.
  rewrite (mmul_ext n _ _ _ _ HB (meq_refl n X) i 0%nat Hi H0).
  rewrite mmul_assoc.
  assert (HX : meq n (mmul n (uhess A) X) (fun r c => d nn * X r c)).
  { intros r c Hr _. unfold mmul, X. apply HE. exact Hr. }
  rewrite (mmul_ext n _ _ _ _ (meq_refl n V) HX i 0%nat Hi H0).
  rewrite HV' by exact Hi. unfold mmul. rewrite <- rsum_scal. apply rsum_ext. intros k _. ring.
Qed.

Lemma rsum_all_zero_or n (f : nat -> R) :
  (forall i, (i < n)%nat -> f i = 0) \/ (exists i, (i < n)%nat /\ f i <> 0).
Proof.
  induction n as [|n IH].
  - left. intros i Hi. lia.
  - destruct IH as [IH|[i [Hi Hf]]].
    + destruct (Req_dec (f n) 0) as [E|E].
      * left. intros i Hi. destruct (Nat.eq_dec i n) as [->|Hne]; [exact E|apply IH; lia].
      * right. exists n. split; [lia|exact E].
    + right. exists i. split; [lia|exact Hf].
Qed.

Lemma hqr2_vectors_real_nonzero eps n anorm (A V W : mat) d e nn :
  qtri n (uhess A) d e -> anorm <> 0 ->
  hqr2_vectors_ok ROps eps n anorm A V d e = true ->
  (nn < n)%nat -> e nn = 0 ->
  meq n (mmul n W V) mid ->
  let V' := snd (hqr2_vectors ROps eps n anorm A V d e) in
  exists i, (i < n)%nat /\ V' i nn <> 0.
Proof.
  intros Hq Han Hok Hnn He HW. cbv zeta.
  destruct (hqr2_vectors_real_column eps n anorm A V d e nn Hq Han Hok Hnn He) as (x & Hxn & _ & _ & _ & HV).
  cbv zeta in HV.
  destruct (rsum_all_zero_or n (fun i => snd (hqr2_vectors ROps eps n anorm A V d e) i nn)) as [Hz|Hex];
    [exfalso|exact Hex].
  apply Hxn.
  pose (X := fun (r c : nat) => x r).
  assert (H0 : (0 < n)%nat) by lia.
  assert (HVX : meq n (mmul n V X) (fun _ _ => 0)).
  { intros r c Hr _. unfold mmul, X. rewrite <- HV by exact Hr. apply Hz. exact Hr. }
  transitivity (mmul n mid X nn 0%nat).
  - symmetry. exact (mmul_id_l n X nn 0%nat Hnn H0).
  - rewrite <- (mmul_ext n _ _ _ _ HW (meq_refl n X) nn 0%nat Hnn H0).
    rewrite mmul_assoc. rewrite (mmul_ext n _ _ _ _ (meq_refl n W) HVX nn 0%nat Hnn H0).
    unfold mmul. apply rsum_0. intros k _. ring.
Qed.

(* the ghost flag holds when the real eigenvalues recorded in d are pairwise distinct *)
Lemma hqr2_vectors_ok_distinct eps n anorm (A V : mat) d e :
  qtri n (uhess A) d e ->
  (forall i nn, (i < nn)%nat -> (nn < n)%nat -> e i = 0 -> e nn = 0 -> d i <> d nn) ->
  hqr2_vectors_ok ROps eps n anorm A V d e = true.
Proof.
  intros Hq Hd. unfold hqr2_vectors_ok, hqr2_vectors_full, hqr2_vectors_from. rops.
  destruct (Reqb anorm 0); cbn [negb snd]; [reflexivity|].
  apply backsub_ok; assumption.
Qed.
