(* C02 — tred2 over the reals, for every order n >= 1 and every symmetric A:
   the matrix V the routine returns is orthogonal and A V = V T, T = tridiag(d, e) the returned
   diagonal and sub-diagonal (`tred2_correct`; on lists: `tred2_rows_correct`).
   Structure: the reduction phase yields a chain A = A_{n-1}, ..., A_0 = T with A_{i-1} = P_i A_i P_i
   (ProofsTred2Step.v, P_i a Householder reflector, or the identity on a `scale == 0` row); the
   accumulation phase multiplies the stored reflectors up, W_{i+1} = P_{i+1} W_i, keeping
   A_i W_i = W_i T and W_i orthogonal. *)
From Coq Require Import List Arith Bool Lia Reals Lra Psatz Setoid Morphisms.
From SC Require Import Base.Num C02.FunMat C02.ModelTred2 C02.ProofsHouse C02.ProofsTred2Loops
  C02.ProofsTred2Step.
Import ListNotations.
Local Open Scope R_scope.

(* ------------------------------------------------------------------------------------------ *)
(* reduction phase                                                                              *)
(* ------------------------------------------------------------------------------------------ *)
Definition Inv1 (n : nat) (A : mat) (j : nat) (s : @tstate R) : Prop :=
  let '(V, d, e) := s in
  (forall b, (b < j)%nat -> d b = V j b) /\
  (forall r c, (j < r < n)%nat -> (c < r)%nat -> V r c = 0) /\
  exists (Ac : nat -> mat) (us : nat -> nat -> R) (hs : nat -> R),
    meq n (Ac (n - 1)%nat) A /\
    meq n (Ac j) (cur j V e) /\
    (forall i, (j < i < n)%nat ->
       reflok n i (us i) (hs i) /\
       meq n (Ac (i - 1)%nat) (mmul n (refl (us i) (hs i)) (mmul n (Ac i) (refl (us i) (hs i)))) /\
       d i = hs i /\ (forall k, (k < i)%nat -> V k i = us i k)).

Lemma Inv1_init n A d0 e0 : (1 <= n)%nat -> msym n A -> Inv1 n A (n - 1) (A, t2_init n A d0, e0).
Proof.
  intros Hn Hsym. unfold Inv1. split; [|split].
  - intros b Hb. rewrite t2_init_spec. bool_lia.
  - intros r c Hr. lia.
  - exists (fun _ => cur (n - 1) A e0), (fun _ _ => 0), (fun _ => 0). split; [|split].
    + intros r c Hr Hc. unfold cur.
      replace (Nat.max r c <=? n - 1) with true by (symmetry; apply Nat.leb_le; lia).
      destruct (Nat.le_ge_cases c r) as [H|H].
      * rewrite Nat.max_l, Nat.min_r by lia. reflexivity.
      * rewrite Nat.max_r, Nat.min_l by lia. apply Hsym; assumption.
    + apply meq_refl.
    + intros i Hi. lia.
Qed.

Lemma Inv1_step n A k s : (1 <= k < n)%nat -> Inv1 n A k s -> Inv1 n A (k - 1) (t2_step ROps k s).
Proof.
  intros Hk. destruct s as [[V d] e]. intros (Hrow & Hzero & Ac & us & hs & HA & Hcur & Hst).
  pose proof (t2_step_sim n k V d e Hk Hrow) as Hs.
  destruct (t2_step ROps k (V, d, e)) as [[V' d'] e'].
  destruct Hs as (u & H & Hok & Hmeq & HdH & HVu & Fd & Fe & FV & Hrow' & Hz').
  unfold Inv1. split; [exact Hrow'|]. split.
  - intros r c Hr Hc. destruct (Nat.eq_dec r k) as [->|Hne].
    + apply Hz'. exact Hc.
    + rewrite FV by lia. apply Hzero; lia.
  - exists (fun i => if i =? k - 1 then cur (k - 1) V' e' else Ac i),
           (fun i => if i =? k then u else us i),
           (fun i => if i =? k then H else hs i).
    split; [|split].
    + replace (n - 1 =? k - 1) with false by (symmetry; apply Nat.eqb_neq; lia). exact HA.
    + rewrite Nat.eqb_refl. apply meq_refl.
    + intros i Hi. destruct (Nat.eqb_spec i k) as [->|Hik].
      * rewrite Nat.eqb_refl. replace (k =? k - 1) with false by (symmetry; apply Nat.eqb_neq; lia).
        split; [exact Hok|]. split; [|split; [exact HdH|exact HVu]].
        rewrite Hcur. exact Hmeq.
      * replace (i - 1 =? k - 1) with false by (symmetry; apply Nat.eqb_neq; lia).
        replace (i =? k - 1) with false by (symmetry; apply Nat.eqb_neq; lia).
        destruct (Hst i ltac:(lia)) as (H1 & H2 & H3 & H4).
        split; [exact H1|]. split; [exact H2|]. split.
        -- rewrite Fd by lia. exact H3.
        -- intros k0 Hk0. rewrite FV by lia. apply H4. exact Hk0.
Qed.

Lemma t2_reduce_inv n A d0 e0 : (1 <= n)%nat -> msym n A -> Inv1 n A 0 (t2_reduce ROps n A d0 e0).
Proof.
  intros Hn Hsym. unfold t2_reduce.
  apply (ford_ind (fun k s => Inv1 n A (k - 1) s) (n - 1) 1%nat).
  - replace (1 + (n - 1) - 1)%nat with (n - 1)%nat by lia. apply Inv1_init; assumption.
  - intros k s Hk HI. replace (S k - 1)%nat with k in HI by lia. apply Inv1_step; [lia|exact HI].
Qed.

Lemma cur0_tridiag n V e : meq n (cur 0 V e) (tridiag (fun r => V r r) e).
Proof.
  apply meq_lower_sym.
  - intros r c. apply cur_sym.
  - intros r c. unfold tridiag. rewrite (Nat.eqb_sym c r). bool_lia; subst; try reflexivity; lia.
  - intros r c Hcr Hr. rewrite cur_lower by exact Hcr. unfold tridiag. bool_lia; subst; try reflexivity.
Qed.

(* ------------------------------------------------------------------------------------------ *)
(* accumulation phase                                                                           *)
(* ------------------------------------------------------------------------------------------ *)
Definition acc_V2 (n i : nat) (V : nat -> nat -> R) : nat -> nat -> R :=
  fun r c => if (r =? i) && (c =? i) then 1
             else if (r =? n - 1) && (c =? i) then V i i else V r c.

Lemma t2_accum_spec n i (V : nat -> nat -> R) (d : nat -> R) :
  let '(V', d') := t2_accum ROps n i (V, d) in
  (forall r c, V' r c =
     if (c =? S i) && (r <? S i) then 0
     else if Reqb (d (S i)) 0 then acc_V2 n i V r c
     else if (c <=? i) && (r <=? i)
          then acc_V2 n i V r c
               - rsum (S i) (fun k => acc_V2 n i V k (S i) * acc_V2 n i V k c) * (acc_V2 n i V r (S i) / d (S i))
          else acc_V2 n i V r c) /\
  (forall r, (S i <= r)%nat -> d' r = d r).
Proof.
  set (V2 := acc_V2 n i V). set (h := d (S i)).
  unfold t2_accum. rops. fold h.
  assert (EV2 : forall r c, mupd (mupd V (n - 1) i (V i i)) i i 1 r c = V2 r c).
  { intros r c. unfold mupd, V2, acc_V2. reflexivity. }
  set (Vm := mupd (mupd V (n - 1) i (V i i)) i i 1) in *.
  destruct (Reqb h 0); cbn [negb]; cbv beta iota zeta.
  - split; [|reflexivity]. intros r c.
    rewrite (forn_colmap (fun _ _ => 0) (S i) (S i) 0 Vm r c). rewrite EV2. bool_lia.
  - split.
    + intros r c.
      set (dd := forn 0 (S i) (fun k d0 => vupd d0 k (Vm k (S i) / h)) d).
      rewrite (forn_colmap (fun _ _ => 0) (S i) (S i) 0 _ r c).
      pose proof (t2_accum_V_spec i Vm dd) as HV3. cbv zeta in HV3. rewrite HV3.
      assert (Edd : forall k, dd k = if k <? S i then Vm k (S i) / h else d k).
      { intros k. unfold dd. apply (forn_vmap (fun k _ => Vm k (S i) / h)). }
      rewrite Edd.
      assert (E : rsum (S i) (fun k => Vm k (S i) * Vm k c) = rsum (S i) (fun k => V2 k (S i) * V2 k c)).
      { apply rsum_ext. intros k _. rewrite !EV2. reflexivity. }
      rewrite E, !EV2. bool_lia.
    + intros r Hr. rewrite (forn_vmap (fun k _ => Vm k (S i) / h) (S i) d r). bool_lia.
Qed.

Lemma mtr_meq n A B : meq n A B -> meq n (mtr A) (mtr B).
Proof. intros H i j Hi Hj. unfold mtr. apply H; assumption. Qed.
Lemma morth_meq n W W' : meq n W' W -> morth n W -> morth n W'.
Proof.
  unfold morth. intros H HW. rewrite (mmul_ext n (mtr W') (mtr W) W' W (mtr_meq n _ _ H) H). exact HW.
Qed.

Section Accum.
  Variables (n : nat) (Ac : nat -> mat) (us : nat -> nat -> R) (hs td e : nat -> R).
  Hypothesis Hn : (1 <= n)%nat.
  Hypothesis Hchain : forall i, (0 < i < n)%nat ->
     reflok n i (us i) (hs i) /\
     meq n (Ac (i - 1)%nat) (mmul n (refl (us i) (hs i)) (mmul n (Ac i) (refl (us i) (hs i)))).
  Let Tm := tridiag td e.
  Hypothesis H0 : meq n (Ac 0%nat) Tm.

  Definition Inv2 (i : nat) (s : (nat -> nat -> R) * (nat -> R)) : Prop :=
    let '(V, d) := s in
    exists W : mat,
      (forall r c, (r < i)%nat -> (c < i)%nat -> V r c = W r c) /\
      (forall r c, (i <= r \/ i <= c)%nat -> W r c = mid r c) /\
      meq n (mmul n (Ac i) W) (mmul n W Tm) /\ morth n W /\
      (forall r, (i <= r < n)%nat -> V r r = td r) /\
      (forall c, (c < i)%nat -> V (n - 1)%nat c = td c) /\
      (forall c r, (i < c < n)%nat -> (r < c)%nat -> V r c = us c r) /\
      (forall r c, (i <= r < n - 1)%nat -> (c < r)%nat -> V r c = 0) /\
      (forall r, (r < i)%nat -> V r i = 0) /\
      (forall r, (i < r < n)%nat -> d r = hs r).

  Lemma Inv2_step i s : (S i < n)%nat -> Inv2 i s -> Inv2 (S i) (t2_accum ROps n i s).
  Proof.
    intros Hi. destruct s as [V d].
    intros (W & Ha & Ha' & Hsim & Horth & Hb & Hc & Hd & He1 & He2 & Hf).
    pose proof (t2_accum_spec n i V d) as Hs.
    destruct (t2_accum ROps n i (V, d)) as [V' d']. destruct Hs as [HV' Hd'].
    set (V2 := acc_V2 n i V) in *.
    destruct (Hchain (S i) ltac:(lia)) as [Hok Hrel].
    replace (S i - 1)%nat with i in Hrel by lia.
    set (u := us (S i)) in *. set (H := hs (S i)) in *.
    assert (EH : d (S i) = H) by (apply Hf; lia).
    rewrite EH in HV'.
    set (P := refl u H) in *.
    assert (Hu0 : forall k, (S i <= k)%nat -> u k = 0) by (destruct Hok as [Hz _]; exact Hz).
    (* V2 restricted to rows/columns <= i is W *)
    assert (EV2W : forall r c, (r <= i)%nat -> (c <= i)%nat -> V2 r c = W r c).
    { intros r c Hr Hc'. unfold V2, acc_V2.
      destruct (Nat.eqb_spec r i) as [->|Hri]; destruct (Nat.eqb_spec c i) as [->|Hci]; cbn [andb].
      - rewrite Ha' by lia. unfold mid. rewrite Nat.eqb_refl. reflexivity.
      - replace (i =? n - 1) with false by (symmetry; apply Nat.eqb_neq; lia). cbn [andb].
        rewrite He1 by lia. rewrite Ha' by lia. unfold mid. bool_lia.
      - replace (r =? n - 1) with false by (symmetry; apply Nat.eqb_neq; lia). cbn [andb].
        rewrite He2 by lia. rewrite Ha' by lia. unfold mid. bool_lia.
      - replace ((r =? n - 1) && false) with false by (destruct (r =? n - 1); reflexivity).
        apply Ha; lia. }
    assert (EV2u : forall k, (k <= i)%nat -> V2 k (S i) = u k).
    { intros k Hk. unfold V2, acc_V2. replace (S i =? i) with false by (symmetry; apply Nat.eqb_neq; lia).
      rewrite !andb_false_r. apply Hd; lia. }
    (* the product P W *)
    assert (EPW : forall r c, (r < n)%nat -> (c < n)%nat ->
               mmul n P W r c = W r c - u r / H * rsum (S i) (fun k => u k * W k c)).
    { intros r c Hr Hc'. unfold P. rewrite refl_mul_l by exact Hr.
      rewrite (rsum_trunc n (S i)) by (try lia; intros k Hk; rewrite Hu0 by lia; ring). reflexivity. }
    set (W' := fun r c => if (r <=? i) && (c <=? i) then V' r c else mid r c).
    assert (HW' : meq n W' (mmul n P W)).
    { intros r c Hr Hc'. rewrite EPW by assumption. unfold W'.
      destruct (Nat.leb_spec r i) as [Hri|Hri]; destruct (Nat.leb_spec c i) as [Hci|Hci]; cbn [andb].
      - rewrite HV'. replace ((c =? S i) && (r <? S i)) with false by (symmetry; apply andb_false_iff; left; apply Nat.eqb_neq; lia).
        replace ((c <=? i) && (r <=? i)) with true
          by (symmetry; apply andb_true_iff; split; apply Nat.leb_le; lia).
        destruct (Reqb H 0) eqn:EH0.
        + apply Reqb_true in EH0. destruct Hok as [_ [[Hne _]|Hz]]; [contradiction|].
          rewrite EV2W by lia. rewrite (Hz r). unfold Rdiv. ring.
        + rewrite EV2W by lia. rewrite EV2u by lia.
          rewrite (rsum_ext (S i) (fun k => V2 k (S i) * V2 k c) (fun k => u k * W k c))
            by (intros k Hk; rewrite EV2u by lia; rewrite EV2W by lia; reflexivity).
          unfold Rdiv. ring.
      - rewrite Ha' by lia.
        rewrite (rsum_ext (S i) (fun k => u k * W k c) (fun k => u k * (if k =? c then 1 else 0)))
          by (intros k Hk; rewrite Ha' by lia; reflexivity).
        rewrite (rsum_0 (S i)) by (intros k Hk; replace (k =? c) with false by (symmetry; apply Nat.eqb_neq; lia); ring).
        ring.
      - rewrite (Hu0 r) by lia. rewrite Ha' by lia. unfold Rdiv. ring.
      - rewrite (Hu0 r) by lia. rewrite Ha' by lia. unfold Rdiv. ring. }
    assert (HPP : meq n (mmul n P P) mid) by (apply (refl_invol n (S i)); exact Hok).
    exists W'. split; [|split; [|split; [|split; [|split; [|split; [|split; [|split; [|split]]]]]]]].
    - intros r c Hr Hc'. unfold W'.
      replace ((r <=? i) && (c <=? i)) with true
        by (symmetry; apply andb_true_iff; split; apply Nat.leb_le; lia). reflexivity.
    - intros r c Hrc. unfold W'.
      replace ((r <=? i) && (c <=? i)) with false
        by (symmetry; apply andb_false_iff; destruct Hrc; [left|right]; apply Nat.leb_gt; lia). reflexivity.
    - rewrite HW'. apply (accum_similarity n P (Ac i) (Ac (S i)) W Tm HPP Hrel Hsim).
    - apply (morth_meq n (mmul n P W) W' HW'). apply accum_orth; [intros; apply refl_sym|exact HPP|exact Horth].
    - intros r Hr. rewrite HV'. unfold V2, acc_V2. bool_lia; destruct (Reqb H 0); apply Hb; lia.
    - intros c Hc'. rewrite HV'. unfold V2, acc_V2. destruct (Nat.eq_dec c i) as [->|Hci].
      + bool_lia; destruct (Reqb H 0); apply Hb; lia.
      + bool_lia; destruct (Reqb H 0); apply Hc; lia.
    - intros c r Hc' Hr. rewrite HV'. unfold V2, acc_V2. bool_lia; destruct (Reqb H 0); apply Hd; lia.
    - intros r c Hr Hc'. rewrite HV'. unfold V2, acc_V2. bool_lia; destruct (Reqb H 0); apply He1; lia.
    - intros r Hr. rewrite HV'. bool_lia.
    - intros r Hr. rewrite Hd' by lia. apply Hf. lia.
  Qed.

  Lemma Inv2_loop s : Inv2 0 s -> Inv2 (n - 1) (forn 0 (n - 1) (t2_accum ROps n) s).
  Proof.
    intros H. apply (forn_ind Inv2 (n - 1) 0%nat).
    - exact H.
    - intros k s' Hk HI. apply Inv2_step; [lia|exact HI].
  Qed.
End Accum.

(* ------------------------------------------------------------------------------------------ *)
(* finish                                                                                       *)
(* ------------------------------------------------------------------------------------------ *)
Lemma t2_finish_spec n (V : nat -> nat -> R) (d e : nat -> R) :
  let '(V', d', e') := t2_finish ROps n V d e in
  (forall r c, V' r c = if (r =? n - 1) && (c =? n - 1) then 1
                        else if (r =? n - 1) && (c <? n) then 0 else V r c) /\
  (forall k, d' k = if k <? n then V (n - 1)%nat k else d k) /\
  (forall k, e' k = if k =? 0 then 0 else e k).
Proof.
  unfold t2_finish. rops.
  match goal with |- context [forn 0 n ?body (V, d)] => set (bd := body) end.
  assert (H : (forall r c, fst (forn 0 n bd (V, d)) r c = if (r =? n - 1) && (c <? n) then 0 else V r c) /\
              (forall k, snd (forn 0 n bd (V, d)) k = if k <? n then V (n - 1)%nat k else d k)).
  { apply (forn_ind (fun k' (s : (nat -> nat -> R) * (nat -> R)) =>
             (forall r c, fst s r c = if (r =? n - 1) && (c <? k') then 0 else V r c) /\
             (forall k, snd s k = if k <? k' then V (n - 1)%nat k else d k)) n 0%nat).
    - split; intros; bool_lia.
    - intros j [V' d'] Hj [IH1 IH2]. subst bd. cbn [fst snd] in *. split.
      + intros r c. unfold mupd. rewrite (IH1 r c). bool_lia.
      + intros k. unfold vupd. rewrite (IH2 k), (IH1 (n - 1)%nat j). bool_lia. subst k. reflexivity. }
  destruct (forn 0 n bd (V, d)) as [V' d']. cbn [fst snd] in H. destruct H as [H1 H2].
  split; [|split].
  - intros r c. unfold mupd. rewrite H1. bool_lia.
  - exact H2.
  - intros k. unfold vupd. reflexivity.
Qed.

(* ------------------------------------------------------------------------------------------ *)
(* tred2                                                                                        *)
(* ------------------------------------------------------------------------------------------ *)
Lemma tred2_correct n (A : mat) : (1 <= n)%nat -> msym n A ->
  let '(V, d, e) := tred2 ROps n A in
  morth n V /\ meq n (mmul n A V) (mmul n V (tridiag d e)) /\ e 0%nat = 0.
Proof.
  intros Hn Hsym. unfold tred2.
  pose proof (t2_reduce_inv n A (fun _ => 0) (fun _ => 0) Hn Hsym) as H1. rops.
  destruct (t2_reduce ROps n A (fun _ => 0) (fun _ => 0)) as [[V1 d1] e1].
  destruct H1 as (_ & Hzero & Ac & us & hs & HA & Hcur & Hst).
  set (td := fun r => V1 r r).
  assert (HT : meq n (Ac 0%nat) (tridiag td e1)).
  { rewrite Hcur. exact (cur0_tridiag n V1 e1). }
  assert (Hchain : forall i, (0 < i < n)%nat ->
     reflok n i (us i) (hs i) /\
     meq n (Ac (i - 1)%nat) (mmul n (refl (us i) (hs i)) (mmul n (Ac i) (refl (us i) (hs i))))).
  { intros i Hi. destruct (Hst i Hi) as (Ha & Hb & _). split; assumption. }
  assert (HI0 : Inv2 n Ac us hs td e1 0 (V1, d1)).
  { exists mid. split; [|split; [|split; [|split; [|split; [|split; [|split; [|split; [|split]]]]]]]].
    - intros r c Hr. lia.
    - intros r c _. reflexivity.
    - rewrite (mmul_id_r n (Ac 0%nat)), (mmul_id_l n (tridiag td e1)). exact HT.
    - unfold morth. rewrite (mmul_id_r n (mtr mid)). intros r c _ _. unfold mtr, mid. rewrite (Nat.eqb_sym c r). reflexivity.
    - intros r Hr. reflexivity.
    - intros c Hc. lia.
    - intros c r Hc Hr. destruct (Hst c Hc) as (_ & _ & _ & H4). apply H4. exact Hr.
    - intros r c Hr Hc. destruct (Nat.eq_dec r 0) as [->|Hne]; [lia|]. apply Hzero; lia.
    - intros r Hr. lia.
    - intros r Hr. destruct (Hst r Hr) as (_ & _ & H3 & _). exact H3. }
  assert (H2 : Inv2 n Ac us hs td e1 (n - 1) (forn 0 (n - 1) (t2_accum ROps n) (V1, d1)))
    by (apply Inv2_loop; assumption).
  destruct (forn 0 (n - 1) (t2_accum ROps n) (V1, d1)) as [V2 d2].
  destruct H2 as (W & Ha & Ha' & Hsim & Horth & Hb & Hc & _ & _ & He2 & _).
  pose proof (t2_finish_spec n V2 d2 e1) as H3.
  destruct (t2_finish ROps n V2 d2 e1) as [[V d] e]. destruct H3 as (HV & Hd & He).
  assert (EVW : meq n V W).
  { intros r c Hr Hc'. rewrite HV.
    destruct (Nat.eqb_spec r (n - 1)) as [->|Hr1]; destruct (Nat.eqb_spec c (n - 1)) as [->|Hc1]; cbn [andb].
    - rewrite Ha' by lia. unfold mid. rewrite Nat.eqb_refl. reflexivity.
    - replace (c <? n) with true by (symmetry; apply Nat.ltb_lt; lia).
      rewrite Ha' by lia. unfold mid. bool_lia.
    - rewrite He2 by lia. rewrite Ha' by lia. unfold mid. bool_lia.
    - apply Ha; lia. }
  assert (ET : meq n (tridiag d e) (tridiag td e1)).
  { intros r c Hr Hc'. unfold tridiag. rewrite !Hd, !He.
    replace (r <? n) with true by (symmetry; apply Nat.ltb_lt; lia).
    replace (c <? n) with true by (symmetry; apply Nat.ltb_lt; lia).
    assert (Etd : forall k, (k < n)%nat -> V2 (n - 1)%nat k = td k).
    { intros k Hk. destruct (Nat.eq_dec k (n - 1)) as [->|Hne]; [apply Hb; lia|apply Hc; lia]. }
    rewrite !Etd by lia. bool_lia. }
  split; [|split].
  - apply (morth_meq n W V EVW Horth).
  - rewrite EVW, ET. rewrite <- Hsim. rewrite HA. reflexivity.
  - rewrite He. reflexivity.
Qed.
