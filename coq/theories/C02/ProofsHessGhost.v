(* C02 — what elmhes leaves in place, against a GHOST version of the reduction that performs the full
   similarity transformations and keeps the multipliers apart:
     - interchanges whole rows and whole columns (the code starts the row interchange at column m-1),
     - subtracts y * (row m) from the WHOLE row i (the code starts at column m and overwrites the entry
       of column m-1, which the subtraction makes 0, by the multiplier y),
     - records y in a separate matrix Y.
   Theorem `elmhes_ghost_spec`: the ghost's matrix is the upper Hessenberg part of the in-place result,
   its Y is the strictly-below-sub-diagonal part of the in-place result, and the perms agree. *)
From Coq Require Import List Arith Bool Lia Reals Lra Psatz Setoid Morphisms.
From SC Require Import Base.Num C02.FunMat C02.ModelHess C02.ProofsHessAlg C02.ProofsHessLoops C02.ProofsHessStep C02.ProofsHess.
Local Open Scope R_scope.

(* ---- the ghost algorithm (over R) ---- *)
(* for j in 0..n { R[i][j] -= y * R[m][j]; } *)
Definition g_row (n m i : nat) (y : R) (A : mat) : mat :=
  forn 0 n (fun j A => let v := A i j - y * A m j in mupd A i j v) A.

Definition g_body (n m : nat) (x : R) (i : nat) (s : mat * mat) : mat * mat :=
  let y := fst s i (m - 1)%nat in
  if negb (Reqb y 0) then
    let y := y / x in
    (elm_elim_col ROps n m i y (g_row n m i y (fst s)), mupd (snd s) i (m - 1)%nat y)
  else s.

Definition g_elim (n m : nat) (x : R) (s : mat * mat) : mat * mat :=
  forn (m + 1) (n - (m + 1)) (g_body n m x) s.

Definition g_step (n m : nat) (s : mat * mat * (nat -> nat)) : mat * mat * (nat -> nat) :=
  let Rm := fst (fst s) in
  let Y := snd (fst s) in
  let xi := elm_pivot ROps n m Rm in
  let x := fst xi in
  let i := snd xi in
  let perm := vupd (snd s) m i in
  let Rm := if negb (i =? m) then swap_cols n i m (swap_rows 0 n i m Rm) else Rm in
  let RY := if negb (Reqb x 0) then g_elim n m x (Rm, Y) else (Rm, Y) in
  (RY, perm).

Definition elmhes_ghost (n : nat) (A : mat) : mat * mat * (nat -> nat) :=
  forn 1 (n - 2) (g_step n) (A, fun _ _ => 0, fun _ => 0%nat).

(* ---- two loops in lockstep; loops with bodies that agree ---- *)
Lemma forn_ind2 {S1 S2 : Type} (P : nat -> S1 -> S2 -> Prop) : forall len lo b1 b2 s1 s2,
  P lo s1 s2 ->
  (forall k s1 s2, (lo <= k < lo + len)%nat -> P k s1 s2 -> P (S k) (b1 k s1) (b2 k s2)) ->
  P (lo + len)%nat (forn lo len b1 s1) (forn lo len b2 s2).
Proof.
  induction len as [|l IH]; intros lo b1 b2 s1 s2 H0 Hs; cbn [forn].
  - rewrite Nat.add_0_r. exact H0.
  - replace (lo + S l)%nat with (S lo + l)%nat by lia. apply IH.
    + apply Hs; [lia|exact H0].
    + intros k t1 t2 Hk. apply Hs. lia.
Qed.

Lemma forn_ext {St : Type} : forall len lo (b1 b2 : nat -> St -> St) s,
  (forall k s, (lo <= k < lo + len)%nat -> b1 k s = b2 k s) ->
  forn lo len b1 s = forn lo len b2 s.
Proof.
  induction len as [|l IH]; intros lo b1 b2 s H; cbn [forn]; [reflexivity|].
  rewrite (H lo s) by lia. apply IH. intros k s' Hk. apply H. lia.
Qed.

(* the pivot search only reads column m-1 in rows m .. n-1 *)
Lemma pivot_ext n m (A1 A2 : mat) :
  (forall j, (m <= j < n)%nat -> A1 j (m - 1)%nat = A2 j (m - 1)%nat) ->
  elm_pivot ROps n m A1 = elm_pivot ROps n m A2.
Proof.
  intros H. unfold elm_pivot. apply forn_ext. intros k s Hk. rewrite H by lia. reflexivity.
Qed.

(* ---- closed forms of the ghost's loops ---- *)
Lemma g_row_spec n m i y (A : mat) r c :
  i <> m ->
  g_row n m i y A r c = if (r =? i) && (c <? n) then A i c - y * A m c else A r c.
Proof.
  intros Him. revert r c. unfold g_row. change n with (0 + n)%nat at 2.
  apply (forn_ind (fun k (S : mat) => forall r c,
           S r c = if (r =? i) && (c <? k) then A i c - y * A m c else A r c)).
  - intros r c. bd; reflexivity.
  - intros k S Hk IH r c. cbv zeta. unfold mupd. rewrite !IH.
    bd; try reflexivity; try (subst; reflexivity).
Qed.

Lemma g_body_fst n m x i (s : mat * mat) r c :
  i <> m -> (i < n)%nat -> (m < n)%nat -> (r < n)%nat -> (c < n)%nat ->
  fst (g_body n m x i s) r c = simE i m (fst s i (m - 1)%nat / x) (fst s) r c.
Proof.
  intros Him Hi Hm Hr Hc. unfold g_body.
  destruct (Reqb (fst s i (m - 1)%nat) 0) eqn:E; cbn [negb].
  - apply Reqb_true in E. rewrite E. replace (0 / x) with 0 by (unfold Rdiv; ring).
    unfold simE. bd; subst; ring.
  - cbn [fst]. rewrite elim_col_spec, !g_row_spec by exact Him. unfold simE.
    bd; subst; reflexivity.
Qed.

Lemma g_body_snd n m x i (s : mat * mat) r c :
  snd (g_body n m x i s) r c =
  if (r =? i) && (c =? m - 1) && negb (Reqb (fst s i (m - 1)%nat) 0)
  then fst s i (m - 1)%nat / x else snd s r c.
Proof.
  unfold g_body. destruct (Reqb (fst s i (m - 1)%nat) 0); cbn [negb snd].
  - rewrite andb_false_r. reflexivity.
  - rewrite andb_true_r. unfold mupd. reflexivity.
Qed.

Lemma simE_ext n i m y (A1 A2 : mat) r c :
  (forall r c, (r < n)%nat -> (c < n)%nat -> A1 r c = A2 r c) ->
  (i < n)%nat -> (m < n)%nat -> (r < n)%nat -> (c < n)%nat ->
  simE i m y A1 r c = simE i m y A2 r c.
Proof. intros H Hi Hm Hr Hc. unfold simE. rewrite !H by lia. reflexivity. Qed.

(* ---- the simulation ---- *)
(* in-place matrix C and ghost pair (Rg, Y), inside iteration m before the elimination of row i *)
Definition gsim (n m i : nat) (C : mat) (g : mat * mat) : Prop :=
  (forall r c, (r < n)%nat -> (c < n)%nat -> fst g r c = red' m i C r c) /\
  (forall r c, (r < n)%nat -> (c < n)%nat ->
     snd g r c = if (c + 1 <? r) && ((c + 1 <? m) || ((c + 1 =? m) && (r <? i))) then C r c else 0).

Lemma gsim_elim n m x (B : mat) (g : mat * mat) :
  (1 <= m)%nat -> (m + 1 < n)%nat -> x = B m (m - 1)%nat -> x <> 0 ->
  gsim n m (m + 1) B g ->
  gsim n m n (elm_elim ROps n m x B) (g_elim n m x g).
Proof.
  intros Hm Hmn Hx Hx0 Hg.
  pose (P := fun k (C : mat) (g : mat * mat) => C m (m - 1)%nat = x /\ gsim n m k C g).
  assert (HI : P (m + 1 + (n - (m + 1)))%nat (elm_elim ROps n m x B) (g_elim n m x g)).
  { unfold elm_elim, g_elim. apply (forn_ind2 P); unfold P.
    - split; [symmetry; exact Hx|exact Hg].
    - intros i C [Rg Y] Hi (H1 & HR & HY). cbn [fst snd] in HR, HY.
      assert (Hyi : Rg i (m - 1)%nat = C i (m - 1)%nat).
      { rewrite HR by lia. unfold red'. bd; reflexivity. }
      assert (Hb : forall r c, elm_elim_body ROps n m x i C r c = elimF n m i (C i (m - 1)%nat / x) C r c).
      { intros r c. apply elim_body_spec; lia. }
      assert (Hlow : forall r c, (c < m)%nat ->
                elm_elim_body ROps n m x i C r c = if (r =? i) && (c =? m - 1) then C i (m - 1)%nat / x else C r c).
      { intros r c Hc. rewrite Hb. apply elimF_low. exact Hc. }
      split; [|split].
      + rewrite Hlow by lia. bd. exact H1.
      + intros r c Hr Hc. rewrite g_body_fst by lia. cbn [fst]. rewrite Hyi.
        rewrite (simE_ext n i m _ Rg (red' m i C)) by (try lia; exact HR).
        transitivity (red' m (S i) (elimF n m i (C i (m - 1)%nat / x) C) r c).
        * rewrite <- H1. symmetry. apply elimF_red; try lia. rewrite H1. exact Hx0.
        * unfold red'. rewrite Hb. reflexivity.
      + intros r c Hr Hc. rewrite g_body_snd. cbn [fst snd]. rewrite Hyi. rewrite HY by assumption.
        destruct (Reqb (C i (m - 1)%nat) 0) eqn:E; cbn [negb].
        * apply Reqb_true in E. rewrite andb_false_r.
          bd; try reflexivity; try (rewrite Hlow by lia; bd; reflexivity).
          rewrite Hlow by lia. bd. subst. rewrite E. unfold Rdiv. ring.
        * rewrite andb_true_r.
          bd; try reflexivity; try (rewrite Hlow by lia; bd; reflexivity). }
  unfold P in HI. replace (m + 1 + (n - (m + 1)))%nat with n in HI by lia. exact (proj2 HI).
Qed.

(* in-place state s = (A, perm) and ghost state g = ((Rg, Y), perm) before iteration m *)
Definition Gsim (n m : nat) (s : mat * (nat -> nat)) (g : mat * mat * (nat -> nat)) : Prop :=
  gsim n (m - 1) n (fst s) (fst g) /\ (forall k, snd g k = snd s k).

(* gsim n (m-1) n is "level m": columns with c + 1 < m are reduced *)
Lemma gsim_level n m i C g :
  (1 <= m)%nat -> (m <= i)%nat -> (i <= m + 1)%nat ->
  gsim n (m - 1) n C g -> gsim n m i C g.
Proof.
  intros Hm Hi Hi' [HR HY]. split.
  - intros r c Hr Hc. rewrite HR by assumption. unfold red'. bd; reflexivity.
  - intros r c Hr Hc. rewrite HY by assumption. bd; reflexivity.
Qed.
Lemma gsim_level' n m C g :
  gsim n m n C g -> gsim n (m + 1 - 1) n C g.
Proof.
  intros [HR HY]. split.
  - intros r c Hr Hc. rewrite HR by assumption. unfold red'. bd; reflexivity.
  - intros r c Hr Hc. rewrite HY by assumption. bd; reflexivity.
Qed.

Lemma Gsim_step n m s g :
  (1 <= m)%nat -> (m + 1 < n)%nat ->
  Gsim n m s g -> Gsim n (m + 1) (elm_step ROps n m s) (g_step n m g).
Proof.
  intros Hm Hmn [Hg Hp]. destruct s as [A perm]. destruct g as [[Rg Y] gperm]. cbn [fst snd] in *.
  apply (gsim_level n m (m + 1)) in Hg; try lia. destruct Hg as [HR HY]. cbn [fst snd] in HR, HY.
  unfold Gsim, elm_step, g_step. cbn [fst snd].
  assert (Hpe : elm_pivot ROps n m Rg = elm_pivot ROps n m A).
  { apply pivot_ext. intros j Hj. rewrite HR by lia. unfold red'. bd; reflexivity. }
  rewrite Hpe.
  pose proof (pivot_spec n m A ltac:(lia)) as Hpiv. cbv zeta in Hpiv.
  set (x := fst (elm_pivot ROps n m A)) in *.
  set (p := snd (elm_pivot ROps n m A)) in *.
  destruct Hpiv as (Hpr & Hxp & Hx0).
  split; [|intros k; unfold vupd; rewrite Hp; reflexivity].
  set (B := if negb (p =? m) then swap_cols n p m (swap_rows (m - 1) (n - (m - 1)) p m A) else A).
  set (Bg := if negb (p =? m) then swap_cols n p m (swap_rows 0 n p m Rg) else Rg).
  assert (HB : (forall r c, (c + 1 < m)%nat -> B r c = A r c) /\
               (forall r, (r < n)%nat -> B r (m - 1)%nat = A (tau m p r) (m - 1)%nat) /\
               (forall r c, (r < n)%nat -> (c < n)%nat -> red m B r c = red m A (tau m p r) (tau m p c))).
  { unfold B. destruct (Nat.eqb_spec p m) as [E|E]; cbn [negb].
    - rewrite E. repeat split; intros; rewrite ?tau_same; reflexivity.
    - apply swap_phase; lia. }
  destruct HB as (HB1 & HB2 & HB3).
  assert (HBg : forall r c, (r < n)%nat -> (c < n)%nat -> Bg r c = Rg (tau m p r) (tau m p c)).
  { intros r c Hr Hc. unfold Bg. destruct (Nat.eqb_spec p m) as [E|E]; cbn [negb].
    - rewrite E, !tau_same. reflexivity.
    - rewrite swap_cols_spec, !swap_rows_spec. unfold tau.
      bd; try reflexivity; try (f_equal; lia). }
  assert (HxB : x = B m (m - 1)%nat).
  { rewrite HB2 by lia. unfold tau. rewrite Nat.eqb_refl. exact Hxp. }
  assert (HgB : gsim n m (m + 1) B (Bg, Y)).
  { split; cbn [fst snd].
    - intros r c Hr Hc. rewrite HBg by assumption.
      rewrite HR by (apply tau_lt; lia). rewrite !red'_start. symmetry. apply HB3; assumption.
    - intros r c Hr Hc. rewrite HY by assumption. bd; try reflexivity.
      all: symmetry; apply HB1; lia. }
  apply gsim_level'. rops.
  destruct (Reqb x 0) eqn:E; cbn [negb].
  - apply Reqb_true in E. cbn [fst].
    assert (HB0 : forall r, (m <= r < n)%nat -> B r (m - 1)%nat = 0).
    { intros r Hr. rewrite HB2 by lia. apply Hx0; [exact E|]. unfold tau. bd; lia. }
    destruct HgB as [HR' HY']. cbn [fst snd] in HR', HY'. split; cbn [fst snd].
    + intros r c Hr Hc. rewrite HR' by assumption. unfold red'. bd; try reflexivity.
      replace c with (m - 1)%nat by lia. apply HB0. lia.
    + intros r c Hr Hc. rewrite HY' by assumption. bd; try reflexivity.
      replace c with (m - 1)%nat by lia. symmetry. apply HB0. lia.
  - apply Reqb_false in E. cbn [fst]. apply gsim_elim; assumption.
Qed.

(* the ghost's matrix is the Hessenberg part of what elmhes leaves in place; the ghost's multipliers are
   what elmhes leaves below the sub-diagonal; same perm *)
Lemma elmhes_ghost_spec n (A : mat) :
  (1 <= n)%nat ->
  let A' := fst (elmhes ROps n A) in
  let perm := snd (elmhes ROps n A) in
  let Rg := fst (fst (elmhes_ghost n A)) in
  let Y := snd (fst (elmhes_ghost n A)) in
  let gperm := snd (elmhes_ghost n A) in
  (forall r c, (r < n)%nat -> (c < n)%nat -> Rg r c = hess A' r c) /\
  (forall r c, (r < n)%nat -> (c < n)%nat -> (c + 1 < r)%nat -> A' r c = Y r c) /\
  (forall r c, (r < n)%nat -> (c < n)%nat -> (r <= c + 1)%nat -> Y r c = 0) /\
  (forall k, gperm k = perm k).
Proof.
  intros Hn. cbv zeta.
  assert (HI : Gsim n (1 + (n - 2))%nat (elmhes ROps n A) (elmhes_ghost n A)).
  { unfold elmhes, elmhes_upto, elmhes_ghost. apply (forn_ind2 (Gsim n)).
    - split; cbn [fst snd]; [|reflexivity]. split; cbn [fst snd].
      + intros r c Hr Hc. unfold red'. bd; reflexivity.
      + intros r c Hr Hc. bd; reflexivity.
    - intros k s g Hk HG. replace (S k) with (k + 1)%nat by lia. apply Gsim_step; try lia. exact HG. }
  destruct HI as [[HR HY] Hp].
  split; [|split; [|split]].
  - intros r c Hr Hc. rewrite HR by assumption. unfold red', hess. bd; reflexivity.
  - intros r c Hr Hc Hrc. rewrite HY by assumption. bd; reflexivity.
  - intros r c Hr Hc Hrc. rewrite HY by assumption. bd; reflexivity.
  - exact Hp.
Qed.

(* A Z = Z R with R the matrix of the ghost (the true reduced matrix), Z = eltran of the in-place result *)
Lemma hess_similarity_ghost n (A : mat) :
  (1 <= n)%nat ->
  let A' := fst (elmhes ROps n A) in
  let perm := snd (elmhes ROps n A) in
  let Z := eltran ROps n A' perm (eye ROps) in
  let Rg := fst (fst (elmhes_ghost n A)) in
  meq n (mmul n A Z) (mmul n Z Rg) /\
  (forall i j, (i < n)%nat -> (j < n)%nat -> (j + 1 < i)%nat -> Rg i j = 0).
Proof.
  intros Hn. cbv zeta.
  destruct (elmhes_ghost_spec n A Hn) as (HR & _). cbv zeta in HR.
  split.
  - assert (HM : meq n (fst (fst (elmhes_ghost n A))) (hess (fst (elmhes ROps n A)))).
    { intros r c Hr Hc. apply HR; assumption. }
    rewrite HM. exact (hess_similarity n A Hn).
  - intros i j Hi Hj Hij. rewrite HR by assumption. apply hess_upper_hessenberg. exact Hij.
Qed.
