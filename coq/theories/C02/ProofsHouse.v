(* C02 — algebra of Householder reflectors P = I - u u^T / H over R (matrices as functions, FunMat.v):
   P is symmetric and an involution when u^T u = 2H (or u = 0, P = I), the conjugation formula
   P M P = M - (w u^T + u w^T)/H + u u^T (u.w)/H^2 with w = M u for symmetric M, and the two
   propagation lemmas the accumulation phase of tred2 uses. *)
From Coq Require Import List Arith Bool Lia Reals Lra Psatz Setoid Morphisms.
From SC Require Import Base.Num C02.FunMat.
Local Open Scope R_scope.

(* ---------- meq n is an equivalence, mmul n a morphism ---------- *)
Global Instance meq_Equivalence n : Equivalence (meq n).
Proof.
  split.
  - intros A. apply meq_refl.
  - intros A B. apply meq_sym.
  - intros A B C. apply meq_trans.
Qed.
Global Instance mmul_Proper n : Proper (meq n ==> meq n ==> meq n) (mmul n).
Proof. intros A A' HA B B' HB. apply mmul_ext; assumption. Qed.

Lemma mmul_assoc_meq n A B C : meq n (mmul n (mmul n A B) C) (mmul n A (mmul n B C)).
Proof. intros i j _ _. apply mmul_assoc. Qed.

(* ---------- reflectors ---------- *)
Definition refl (u : nat -> R) (H : R) : mat := fun r c => mid r c - u r * u c / H.

(* u vanishes from index i on, and either u^T u = 2H <> 0 or u = 0 *)
Definition reflok (n i : nat) (u : nat -> R) (H : R) : Prop :=
  (forall k, (i <= k)%nat -> u k = 0) /\
  ((H <> 0 /\ rsum n (fun k => u k * u k) = 2 * H) \/ (forall k, u k = 0)).

Lemma refl_sym u H r c : refl u H r c = refl u H c r.
Proof. unfold refl, mid, Rdiv. rewrite (Nat.eqb_sym c r). ring. Qed.

(* (P X)_rc = X_rc - u_r/H * sum_k u_k X_kc *)
Lemma refl_mul_l n u H (X : mat) r c : (r < n)%nat ->
  mmul n (refl u H) X r c = X r c - u r / H * rsum n (fun k => u k * X k c).
Proof.
  intros Hr. unfold mmul, refl.
  rewrite (rsum_ext n _ (fun k => (if k =? r then 1 else 0) * X k c - u r / H * (u k * X k c))).
  - rewrite rsum_minus, rsum_scal. rewrite (rsum_delta n r (fun k => X k c)) by exact Hr. reflexivity.
  - intros k _. unfold mid, Rdiv. rewrite (Nat.eqb_sym r k). ring.
Qed.
Lemma refl_mul_r n u H (X : mat) r c : (c < n)%nat ->
  mmul n X (refl u H) r c = X r c - rsum n (fun k => X r k * u k) * (u c / H).
Proof.
  intros Hc. unfold mmul, refl.
  rewrite (rsum_ext n _ (fun k => X r k * (if k =? c then 1 else 0) - (X r k * u k) * (u c / H))).
  - rewrite rsum_minus, rsum_scal_r. rewrite (rsum_delta_r n c (fun k => X r k)) by exact Hc. reflexivity.
  - intros k _. unfold mid, Rdiv. ring.
Qed.

Lemma refl_invol n i u H : reflok n i u H -> meq n (mmul n (refl u H) (refl u H)) mid.
Proof.
  intros [_ Hok] r c Hr Hc. rewrite refl_mul_l by exact Hr.
  destruct Hok as [[HH Huu]|Hz].
  - rewrite (rsum_ext n _ (fun k => (if k =? c then 1 else 0) * u k - (u k * u k) * (u c / H))).
    + rewrite rsum_minus, rsum_scal_r, Huu. rewrite (rsum_delta n c u) by exact Hc.
      unfold refl. field. exact HH.
    + intros k _. unfold refl, mid, Rdiv. ring.
  - unfold refl. rewrite (rsum_0 n) by (intros k _; rewrite Hz; ring). rewrite (Hz r). unfold Rdiv. ring.
Qed.

(* conjugation of a symmetric matrix *)
Lemma refl_conj n u H (M : mat) r c : msym n M -> (r < n)%nat -> (c < n)%nat ->
  let w := fun k => rsum n (fun l => M k l * u l) in
  mmul n (refl u H) (mmul n M (refl u H)) r c =
  M r c - w r * (u c / H) - u r / H * w c + u r / H * (u c / H) * rsum n (fun k => u k * w k).
Proof.
  intros Hsym Hr Hc w. rewrite refl_mul_l by exact Hr.
  rewrite (rsum_ext n (fun k => u k * mmul n M (refl u H) k c)
                      (fun k => u k * M k c - (u k * w k) * (u c / H))).
  - rewrite rsum_minus, rsum_scal_r. rewrite refl_mul_r by exact Hc. fold (w r).
    assert (Hwc : rsum n (fun k => u k * M k c) = w c).
    { unfold w. apply rsum_ext. intros k Hk. rewrite (Hsym k c Hk Hc). ring. }
    rewrite Hwc. unfold Rdiv. ring.
  - intros k Hk. rewrite refl_mul_r by exact Hc. fold (w k). ring.
Qed.

(* ---------- propagation through the accumulation ---------- *)
(* A_prev = P A_next P, P P = I, A_prev W = W T   ==>   A_next (P W) = (P W) T *)
Lemma accum_similarity n (P Aprev Anext W Tm : mat) :
  meq n (mmul n P P) mid ->
  meq n Aprev (mmul n P (mmul n Anext P)) ->
  meq n (mmul n Aprev W) (mmul n W Tm) ->
  meq n (mmul n Anext (mmul n P W)) (mmul n (mmul n P W) Tm).
Proof.
  intros HPP Hrel Hinv.
  assert (H1 : meq n Anext (mmul n P (mmul n Aprev P))).
  { rewrite Hrel.
    rewrite <- (mmul_assoc_meq n P (mmul n P (mmul n Anext P)) P).
    rewrite <- (mmul_assoc_meq n P P (mmul n Anext P)).
    rewrite HPP. rewrite (mmul_id_l n (mmul n Anext P)).
    rewrite (mmul_assoc_meq n Anext P P). rewrite HPP. rewrite (mmul_id_r n Anext). reflexivity. }
  rewrite H1.
  rewrite (mmul_assoc_meq n P (mmul n Aprev P) (mmul n P W)).
  rewrite (mmul_assoc_meq n Aprev P (mmul n P W)).
  rewrite <- (mmul_assoc_meq n P P W). rewrite HPP. rewrite (mmul_id_l n W).
  rewrite Hinv. rewrite (mmul_assoc_meq n P W Tm). reflexivity.
Qed.

Lemma accum_orth n (P W : mat) :
  (forall r c, P r c = P c r) ->
  meq n (mmul n P P) mid -> morth n W -> morth n (mmul n P W).
Proof.
  unfold morth. intros Hsym HPP HW.
  assert (H1 : meq n (mtr (mmul n P W)) (mmul n (mtr W) P)).
  { intros i j _ _. rewrite mtr_mmul. unfold mmul. apply rsum_ext. intros k _.
    unfold mtr at 2. rewrite (Hsym j k). reflexivity. }
  rewrite H1. rewrite (mmul_assoc_meq n (mtr W) P (mmul n P W)).
  rewrite <- (mmul_assoc_meq n P P W). rewrite HPP. rewrite (mmul_id_l n W). exact HW.
Qed.
