(* C02 — `ConjPaired` (Validator.v: the list of (re, im) can be exhausted by deleting real values and
   conjugate pairs) is invariant under permutation.  Route: ConjPaired l  <->  for every non-real
   value its number of occurrences equals that of its conjugate. *)
From Coq Require Import List Arith Lia Reals Lra Permutation.
From SC Require Import C02.Validator.
Import ListNotations.
Local Open Scope R_scope.

Definition rp_dec (p q : R * R) : {p = q} + {p <> q}.
Proof.
  destruct p as [a b]; destruct q as [c d].
  destruct (Req_EM_T a c) as [->|Hac]; [|right; intros H; injection H; intros; contradiction].
  destruct (Req_EM_T b d) as [->|Hbd]; [left; reflexivity|right; intros H; injection H; intros; contradiction].
Defined.

Definition cnt (p : R * R) (l : list (R * R)) : nat := count_occ rp_dec l p.
Definition ind (q p : R * R) : nat := if rp_dec q p then 1%nat else 0%nat.
Definition balanced (l : list (R * R)) : Prop :=
  forall a y, y <> 0 -> cnt (a, y) l = cnt (a, - y) l.

Lemma cnt_cons p q l : cnt p (q :: l) = (ind q p + cnt p l)%nat.
Proof. unfold cnt, ind. cbn [count_occ]. destruct (rp_dec q p); reflexivity. Qed.
Lemma cnt_app p l1 l2 : cnt p (l1 ++ l2) = (cnt p l1 + cnt p l2)%nat.
Proof. unfold cnt. apply count_occ_app. Qed.

(* the two indicator sums of a conjugate pair agree on conjugate arguments *)
Lemma ind_pair x y0 a y :
  (ind (x, y0) (a, y) + ind (x, - y0) (a, y) = ind (x, y0) (a, - y) + ind (x, - y0) (a, - y))%nat.
Proof.
  unfold ind.
  destruct (rp_dec (x, y0) (a, y)) as [E1|N1]; destruct (rp_dec (x, - y0) (a, y)) as [E2|N2];
  destruct (rp_dec (x, y0) (a, - y)) as [E3|N3]; destruct (rp_dec (x, - y0) (a, - y)) as [E4|N4];
  try reflexivity; exfalso;
  repeat match goal with
  | E : (_, _) = (_, _) |- _ => injection E; clear E; intros
  end; subst;
  repeat match goal with
  | N : (?p, ?q) <> (?r, ?s) |- _ =>
      first [ apply N; f_equal; lra
            | assert (q <> s) by (intros HH; apply N; f_equal; exact HH); clear N ]
  end; lra.
Qed.

Lemma ind_real x a y : y <> 0 -> ind (x, 0) (a, y) = 0%nat /\ ind (x, 0) (a, - y) = 0%nat.
Proof.
  intros Hy. unfold ind. split.
  - destruct (rp_dec (x, 0) (a, y)) as [E|_]; [|reflexivity]. injection E; intros; exfalso; lra.
  - destruct (rp_dec (x, 0) (a, - y)) as [E|_]; [|reflexivity]. injection E; intros; exfalso; lra.
Qed.

Lemma ConjPaired_balanced l : ConjPaired l -> balanced l.
Proof.
  induction 1 as [|x l H IH|x y0 l1 l2 Hy0 H IH]; intros a y Hy.
  - reflexivity.
  - rewrite !cnt_cons. destruct (ind_real x a y Hy) as [-> ->]. rewrite (IH a y Hy). reflexivity.
  - rewrite !cnt_cons, !cnt_app, !cnt_cons.
    pose proof (IH a y Hy) as E. rewrite !cnt_app in E.
    pose proof (ind_pair x y0 a y). lia.
Qed.

Lemma balanced_ConjPaired : forall n l, (length l <= n)%nat -> balanced l -> ConjPaired l.
Proof.
  induction n as [|n IHn]; intros l Hl Hb.
  - destruct l; [constructor|cbn in Hl; lia].
  - destruct l as [|[a y] t]; [constructor|]. cbn [length] in Hl.
    destruct (Req_EM_T y 0) as [->|Hy].
    + apply CP_real. apply IHn; [lia|]. intros b z Hz.
      pose proof (Hb b z Hz) as E. rewrite !cnt_cons in E.
      destruct (ind_real a b z Hz) as [E1 E2]. rewrite E1, E2 in E. exact E.
    + assert (Hin : In (a, - y) t).
      { pose proof (Hb a y Hy) as E. rewrite !cnt_cons in E.
        assert (E1 : ind (a, y) (a, y) = 1%nat) by (unfold ind; destruct (rp_dec (a, y) (a, y)); [reflexivity|contradiction]).
        assert (E2 : ind (a, y) (a, - y) = 0%nat).
        { unfold ind. destruct (rp_dec (a, y) (a, - y)) as [E'|_]; [|reflexivity]. injection E'; intros; exfalso; lra. }
        rewrite E1, E2 in E.
        apply (count_occ_In rp_dec). unfold cnt in E. lia. }
      apply in_split in Hin. destruct Hin as (l1 & l2 & ->).
      apply CP_pair; [exact Hy|]. apply IHn.
      * rewrite app_length in *. cbn [length] in Hl. lia.
      * intros b z Hz. pose proof (Hb b z Hz) as E.
        rewrite !cnt_cons, !cnt_app, !cnt_cons in E. rewrite !cnt_app.
        pose proof (ind_pair a y b z). lia.
Qed.

Lemma balanced_perm l l' : Permutation l l' -> balanced l -> balanced l'.
Proof.
  intros HP Hb a y Hy. unfold cnt.
  pose proof (proj1 (Permutation_count_occ rp_dec l l') HP) as E.
  rewrite <- !E. apply (Hb a y Hy).
Qed.

Lemma ConjPaired_perm l l' : Permutation l l' -> ConjPaired l -> ConjPaired l'.
Proof.
  intros HP H. apply (balanced_ConjPaired (length l')); [lia|].
  apply (balanced_perm l l' HP). apply ConjPaired_balanced. exact H.
Qed.
