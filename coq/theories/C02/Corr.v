(* C02 — correspondence interface (used by harness/src/bin/c02.rs through `Eval vm_compute`):
   the models of C02/Model.v instantiated at binary64 and compared with what src/linalg/evd.rs
   returned on the same input, and the Coq validators of C02/Validator.v re-deciding outputs of the
   implementation that the Rust twin of the validator has already judged. *)
From Coq Require Import List ZArith Bool Floats.
From SC Require Import Base.FloatUtil Base.Num C02.Model C02.Validator.
From SC Require Import C02.FunMat C02.ModelTred2 C02.ModelTql2 C02.ModelSymEvd C02.ModelHqr2 C02.ModelGenEvd.
From SC Require Export C02.CorrHess C02.CorrTql2.
Import ListNotations.

(* bit pattern equality up to the sign of zero, NaN = NaN *)
Definition fcols_eq := fmat_eq.

(* ---- evd.rs `sort` : d, e, columns of V ---- *)
Definition corr_sort (d e : list float) (Vc : list (list float)) (xd xe : list float) (xVc : list (list float)) : bool :=
  let '(d', e', V') := evd_sort FOps d e Vc in
  flist_eq d' xd && flist_eq e' xe && fcols_eq V' xVc.

(* ---- tail of tql2 (reached through tql2 with e = 0): d, columns of V ---- *)
Definition corr_tql2_sort (d : list float) (Vc : list (list float)) (xd : list float) (xVc : list (list float)) : bool :=
  let '(d', V') := tql2_sort_ops FOps d Vc in
  flist_eq d' xd && fcols_eq V' xVc.

(* ---- balance : rows of A -> rows of the balanced matrix, scale ---- *)
Definition t095_f64 : float := 0x1.e666666666666p-1%float.
Definition bal_sweeps : nat := 200.
Definition bal_fuel : nat := 1300.
Definition corr_balance (A : list (list float)) (xA : list (list float)) (xs : list float) : bool :=
  match balance FOps t095_f64 bal_sweeps bal_fuel A with
  | Some (A', s) => fmat_eq A' xA && flist_eq s xs
  | None => false
  end.

(* ---- balbak : rows of V, scale -> rows of V ---- *)
Definition corr_balbak (V : list (list float)) (s : list float) (xV : list (list float)) : bool :=
  fmat_eq (balbak FOps V s) xV.

(* ---- hqr2 on a 2x2 matrix: eigenvalues (d, e) ---- *)
Definition fcopysign (z p : float) : float :=
  let neg := match Prim2SF p with
             | S754_zero s => s | S754_infinity s => s | S754_finite s _ _ => s | S754_nan => false
             end in
  if neg then PrimFloat.opp (PrimFloat.abs z) else PrimFloat.abs z.
Definition eps_f64 : float := 0x1p-52%float.
Definition corr_hqr2_2x2 (a00 a01 a10 a11 : float) (xd xe : list float) : bool :=
  let '(d, e) := hqr2_eig2 FOps fcopysign eps_f64 a00 a01 a10 a11 in
  flist_eq d xd && flist_eq e xe.
Definition corr_block2 (x y w t : float) (xd0 xe0 xd1 xe1 : float) : bool :=
  let '((d0, e0), (d1, e1)) := block2 FOps fcopysign x y w t in
  feq d0 xd0 && feq e0 xe0 && feq d1 xd1 && feq e1 xe1.

(* ---- validators: the Coq checker must return the verdict the Rust twin returned ---- *)
Definition corr_check_sym (tol : float) (A V : list (list float)) (d e : list float) (verdict : bool) : bool :=
  Bool.eqb (check_evd_sym tol A V d e) verdict.
Definition corr_check_gen (tol1 tol2 tolv : float) (A V : list (list float)) (d e : list float) (verdict : bool) : bool :=
  Bool.eqb (check_evd_gen tol1 tol2 tolv A V d e) verdict.

(* ---- tred2 : rows of A -> rows of V, d, e.  Bit-exact: the routine only uses + - * / sqrt |.| and the
        model performs them in the code's order ---- *)
Definition corr_tred2 (A xV : list (list float)) (xd xe : list float) : bool :=
  match tred2_rows FOps A with
  | Some (V, d, e) => fmat_eq V xV && flist_eq d xd && flist_eq e xe
  | None => false
  end.

(* ---- tql2 as a whole (QL sweeps of ModelTql2.v, then the final sort) on (V, d, e) as tred2 left them.
        The implementation calls libm's hypot, the model sqrt(a*a+b*b): agreement is by tolerance
        (relative to max|d|,|e| for the eigenvalues, to max|V| for the vectors) and up to the sign of each
        column (one more or one fewer sweep on a converged block may negate two columns).  The harness
        only sends inputs whose eigenvalues are well separated, so that order and vectors are determined.
        The model must also report e = 0 and the ghost flag `ok` (no rotation with r = 0). ---- *)
Definition fcol_eq_sign (tol scale : float) (c x : list float) : bool :=
  flist_eq_abs tol scale c x || flist_eq_abs tol scale (map PrimFloat.opp c) x.
Definition corr_tql2 (tol : float) (V : list (list float)) (d e : list float)
    (xV : list (list float)) (xd : list float) : bool :=
  match tql2_ql_f64 V d e with
  | None => false
  | Some (V', d', e', ok) =>
      let n := length d in
      let '(d'', C) := tql2_sort_ops FOps d' (transpose_rows 0%float n V') in
      ok && forallb (fun x => PrimFloat.eqb x 0%float) e' &&
      flist_eq_abs tol (fmax (fmaxabs d) (fmaxabs e)) d'' xd &&
      list_eqb (fcol_eq_sign tol (fmaxabs_mat V)) C (transpose_rows 0%float n xV)
  end.

(* ---- hqr2 as a whole (QR sweeps + back-substitution + final product), rows of A and V on entry;
        d, e enter as zeros.  Bit-exact on everything the routine leaves: the working array, V, d, e
        (the routine only uses + - * / sqrt |.| copysign and comparisons; `x.powf(2)` is x*x, complex
        division is num-complex's formula).  A panic ("Too many iterations in hqr") is `None`. ---- *)
Definition corr_hqr2 (A V xA xV : list (list float)) (xd xe : list float) : bool :=
  match hqr2_rows FOps fcopysign eps_f64 A V with
  | Some (A', V', d', e', _) => fmat_eq A' xA && fmat_eq V' xV && flist_eq d' xd && flist_eq e' xe
  | None => false
  end.
Definition corr_hqr2_panics (A V : list (list float)) : bool :=
  match hqr2_rows FOps fcopysign eps_f64 A V with
  | Some _ => false
  | None => true
  end.

(* ---- evd(false) end to end: balance ; elmhes ; eltran ; hqr2 ; balbak ; sort (ModelGenEvd.v) against
        what evd(false) returns (rows of V, d, e), bit-exact; a panic is `None` ---- *)
Definition evd_gen_f64 (A : list (list float)) :=
  evd_gen_model FOps fcopysign t095_f64 eps_f64 bal_sweeps bal_fuel A.
Definition corr_evd_gen (A xV : list (list float)) (xd xe : list float) : bool :=
  match evd_gen_f64 A with
  | Some (V, d, e, _) => fmat_eq V xV && flist_eq d xd && flist_eq e xe
  | None => false
  end.
Definition corr_evd_gen_panics (A : list (list float)) : bool :=
  match evd_gen_f64 A with Some _ => false | None => true end.
