(* C02 — correspondence interface for the first half of hqr2 (ModelHqr2Sweep.v): the model at
   binary64 (copysign := fcopysign of C02/Corr.v, eps := 2^-52) against an INDEPENDENT python3
   re-implementation of lines 422-624 of src/linalg/evd.rs in IEEE doubles (math.sqrt, math.copysign),
   itself validated on (d, e) against the real code through evd::verif_hqr2.  Bit-exact comparison of
   (A', V', d, e, anorm). *)
From Coq Require Import List ZArith Bool Floats.
From SC Require Import Base.FloatUtil Base.Num C02.FunMat C02.Corr C02.ModelHqr2Spec C02.ModelHqr2Sweep.
Import ListNotations.

Definition hqr2_sweeps_f64 (A V : list (list float)) (d e : list float) :=
  hqr2_sweeps_rows FOps fcopysign eps_f64 A V d e.

(* rows of A and V on entry of hqr2 (d = e = 0, as evd.rs allocates them); expected rows of A, V and
   d, e, anorm at the end of `'outer: loop` *)
Definition corr_hqr2_sweeps (A V xA xV : list (list float)) (xd xe : list float) (xanorm : float) : bool :=
  let z := map (fun _ => 0%float) A in
  match hqr2_sweeps_f64 A V z z with
  | None => false
  | Some (A', V', d', e', an) =>
      fmat_eq A' xA && fmat_eq V' xV && flist_eq d' xd && flist_eq e' xe && feq an xanorm
  end.

(* r2: n = 2, max sweeps before a deflation = 0 *)
Definition r2_A : list (list float) :=
  [[(0x1.0000000000000p+1)%float; (0x1.0000000000000p+0)%float];
    [(0x1.0000000000000p+0)%float; (0x1.8000000000000p+1)%float]].
Definition r2_V : list (list float) :=
  [[(0x1.0000000000000p+0)%float; (0x0.0p+0)%float];
    [(0x0.0p+0)%float; (0x1.0000000000000p+0)%float]].
Definition r2_xA : list (list float) :=
  [[(0x1.61c8864680b58p+0)%float; (-0x1.0000000000000p-53)%float];
    [(0x1.0000000000000p-52)%float; (0x1.cf1bbcdcbfa55p+1)%float]].
Definition r2_xV : list (list float) :=
  [[(-0x1.b38880b4603e5p-1)%float; (-0x1.0d2ca0da1530dp-1)%float];
    [(0x1.0d2ca0da1530dp-1)%float; (-0x1.b38880b4603e5p-1)%float]].
Definition r2_xd : list float := [(0x1.61c8864680b58p+0)%float; (0x1.cf1bbcdcbfa54p+1)%float].
Definition r2_xe : list float := [(0x0.0p+0)%float; (0x0.0p+0)%float].
Definition r2_xanorm : float := (0x1.c000000000000p+2)%float.
Example corr_r2 : corr_hqr2_sweeps r2_A r2_V r2_xA r2_xV r2_xd r2_xe r2_xanorm = true.
Proof. vm_compute. reflexivity. Qed.

(* c2: n = 2, max sweeps before a deflation = 0 *)
Definition c2_A : list (list float) :=
  [[(0x1.0000000000000p+0)%float; (-0x1.0000000000000p+1)%float];
    [(0x1.8000000000000p+1)%float; (0x1.0000000000000p+0)%float]].
Definition c2_V : list (list float) :=
  [[(0x1.0000000000000p+0)%float; (0x0.0p+0)%float];
    [(0x0.0p+0)%float; (0x1.0000000000000p+0)%float]].
Definition c2_xA : list (list float) :=
  [[(0x1.0000000000000p+0)%float; (-0x1.0000000000000p+1)%float];
    [(0x1.8000000000000p+1)%float; (0x1.0000000000000p+0)%float]].
Definition c2_xV : list (list float) :=
  [[(0x1.0000000000000p+0)%float; (0x0.0p+0)%float];
    [(0x0.0p+0)%float; (0x1.0000000000000p+0)%float]].
Definition c2_xd : list float := [(0x1.0000000000000p+0)%float; (0x1.0000000000000p+0)%float].
Definition c2_xe : list float := [(0x1.3988e1409212ep+1)%float; (-0x1.3988e1409212ep+1)%float].
Definition c2_xanorm : float := (0x1.c000000000000p+2)%float.
Example corr_c2 : corr_hqr2_sweeps c2_A c2_V c2_xA c2_xV c2_xd c2_xe c2_xanorm = true.
Proof. vm_compute. reflexivity. Qed.

(* h3: n = 3, max sweeps before a deflation = 6 *)
Definition h3_A : list (list float) :=
  [[(-0x1.0000000000000p-1)%float; (-0x1.0000000000000p+2)%float; (0x1.e000000000000p+1)%float];
    [(0x1.c000000000000p+2)%float; (-0x1.8000000000000p+2)%float; (-0x1.f000000000000p+2)%float];
    [(0x0.0p+0)%float; (0x1.c000000000000p+2)%float; (0x1.0000000000000p-2)%float]].
Definition h3_V : list (list float) :=
  [[(0x1.0000000000000p+0)%float; (0x0.0p+0)%float; (0x0.0p+0)%float];
    [(0x0.0p+0)%float; (0x1.0000000000000p+0)%float; (0x0.0p+0)%float];
    [(0x0.0p+0)%float; (0x0.0p+0)%float; (0x1.0000000000000p+0)%float]].
Definition h3_xA : list (list float) :=
  [[(0x1.b17a83d524eecp+0)%float; (-0x1.23676f6c54a20p+0)%float; (0x1.d736d9bfea430p-1)%float];
    [(0x0.0p+0)%float; (-0x1.115e0c7d7fe4cp+1)%float; (-0x1.627cc2d4529d4p+3)%float];
    [(-0x1.482c000000000p-76)%float; (0x1.e92e25db0cbfbp+2)%float; (-0x1.73af9ab68949dp+2)%float]].
Definition h3_xV : list (list float) :=
  [[(0x1.968c3436e0bd2p-1)%float; (0x1.ad3af21a29d7ep-2)%float; (-0x1.c2cabad6516fep-2)%float];
    [(0x1.f6c8396b3b62ap-4)%float; (0x1.328c2fc1b8977p-1)%float; (0x1.953e78d7c44bdp-1)%float];
    [(0x1.30d10b8c8818cp-1)%float; (-0x1.5d72532adcf5ap-1)%float; (0x1.b222221c633a4p-2)%float]].
Definition h3_xd : list float := [(0x1.b17a83d524eecp+0)%float; (-0x1.fc5ea0f5493c3p+1)%float; (-0x1.fc5ea0f5493c3p+1)%float].
Definition h3_xe : list float := [(0x0.0p+0)%float; (0x1.2088f968c77a3p+3)%float; (-0x1.2088f968c77a3p+3)%float].
Definition h3_xanorm : float := (0x1.2200000000000p+5)%float.
Example corr_h3 : corr_hqr2_sweeps h3_A h3_V h3_xA h3_xV h3_xd h3_xe h3_xanorm = true.
Proof. vm_compute. reflexivity. Qed.

(* h5: n = 5, max sweeps before a deflation = 5 *)
Definition h5_A : list (list float) :=
  [[(-0x1.9000000000000p+2)%float; (-0x1.5000000000000p+2)%float; (-0x1.6000000000000p+2)%float; (0x1.c000000000000p+1)%float; (-0x1.6000000000000p+1)%float];
    [(0x1.c000000000000p+0)%float; (0x0.0p+0)%float; (-0x1.4000000000000p+0)%float; (-0x1.c000000000000p+2)%float; (-0x1.8000000000000p+1)%float];
    [(0x0.0p+0)%float; (0x1.7000000000000p+2)%float; (0x1.2000000000000p+2)%float; (0x1.e000000000000p+1)%float; (0x1.8000000000000p+2)%float];
    [(0x0.0p+0)%float; (0x0.0p+0)%float; (0x1.0000000000000p+3)%float; (0x1.0000000000000p-1)%float; (-0x1.c000000000000p+2)%float];
    [(0x0.0p+0)%float; (0x0.0p+0)%float; (0x0.0p+0)%float; (-0x1.d000000000000p+2)%float; (0x1.c000000000000p+1)%float]].
Definition h5_V : list (list float) :=
  [[(0x1.0000000000000p+0)%float; (0x0.0p+0)%float; (0x0.0p+0)%float; (0x0.0p+0)%float; (0x0.0p+0)%float];
    [(0x0.0p+0)%float; (0x1.0000000000000p+0)%float; (0x0.0p+0)%float; (0x0.0p+0)%float; (0x0.0p+0)%float];
    [(0x0.0p+0)%float; (0x0.0p+0)%float; (0x1.0000000000000p+0)%float; (0x0.0p+0)%float; (0x0.0p+0)%float];
    [(0x0.0p+0)%float; (0x0.0p+0)%float; (0x0.0p+0)%float; (0x1.0000000000000p+0)%float; (0x0.0p+0)%float];
    [(0x0.0p+0)%float; (0x0.0p+0)%float; (0x0.0p+0)%float; (0x0.0p+0)%float; (0x1.0000000000000p+0)%float]].
Definition h5_xA : list (list float) :=
  [[(-0x1.3d56052871c12p+3)%float; (0x1.09e1d019c4367p+2)%float; (-0x1.b96d308f5fdccp+0)%float; (0x1.d99c5483b71eap+1)%float; (0x1.1d9ba89339d15p-1)%float];
    [(0x0.0p+0)%float; (0x1.57a520aa7f3cbp+2)%float; (0x1.333a3fa7d29fbp+2)%float; (-0x1.e5e93d7161cf9p+1)%float; (0x1.06481b5abab6ap+3)%float];
    [(-0x1.6910000000000p-75)%float; (-0x1.0db173655a310p+2)%float; (0x1.0ffd033b4f201p+3)%float; (0x1.81edbac5ce9a0p+2)%float; (0x1.d45ac5acfba34p+0)%float];
    [(0x1.aac46e5a8afe0p-35)%float; (-0x1.4a6b60eb414b0p-33)%float; (0x0.0p+0)%float; (0x1.d0964d46848a6p+1)%float; (-0x1.358d5ca7d5220p+2)%float];
    [(0x0.0p+0)%float; (0x1.459b72e77b731p-35)%float; (-0x1.405cbec374e00p-44)%float; (0x0.0p+0)%float; (-0x1.553e43737c3e7p+2)%float]].
Definition h5_xV : list (list float) :=
  [[(0x1.478aeeb91ad16p-2)%float; (-0x1.8d313a461a7e0p-2)%float; (-0x1.160573d401ab2p-2)%float; (0x1.19aca2c7a7dc2p-2)%float; (0x1.8be213f786f8dp-1)%float];
    [(-0x1.fb54c853518fap-2)%float; (-0x1.2e93da7dde146p-2)%float; (0x1.9b7ec779f327fp-2)%float; (-0x1.2b1264684dd39p-1)%float; (0x1.9f5f2b9d811a2p-2)%float];
    [(0x1.e769806ada380p-2)%float; (0x1.56a9029704cd4p-1)%float; (0x1.4432e16d9bd54p-4)%float; (-0x1.d5c972a3c2251p-2)%float; (0x1.51bf1144f1b04p-2)%float];
    [(-0x1.25e146e6b8818p-1)%float; (0x1.73ba1564d88dcp-2)%float; (-0x1.6a174eca31469p-1)%float; (-0x1.a7285c66fbe3bp-5)%float; (0x1.844ed9d7f8b6ep-3)%float];
    [(-0x1.3d9b8169ea729p-2)%float; (0x1.b582e82ed3f46p-2)%float; (0x1.0442ce8c26592p-1)%float; (0x1.376eda31929bbp-1)%float; (0x1.380ed487e363ep-2)%float]].
Definition h5_xd : list float := [(-0x1.3d56052871c12p+3)%float; (0x1.bbcf93908ebe6p+2)%float; (0x1.bbcf93908ebe6p+2)%float; (0x1.d0964d46848a6p+1)%float; (-0x1.553e43737c3e7p+2)%float].
Definition h5_xe : list float := [(0x0.0p+0)%float; (0x1.0ddbf3172cf8fp+2)%float; (-0x1.0ddbf3172cf8fp+2)%float; (0x0.0p+0)%float; (0x0.0p+0)%float].
Definition h5_xanorm : float := (0x1.4a00000000000p+6)%float.
Example corr_h5 : corr_hqr2_sweeps h5_A h5_V h5_xA h5_xV h5_xd h5_xe h5_xanorm = true.
Proof. vm_compute. reflexivity. Qed.

(* h8: n = 8, max sweeps before a deflation = 7 *)
Definition h8_A : list (list float) :=
  [[(-0x1.e000000000000p+1)%float; (-0x1.8000000000000p+2)%float; (0x0.0p+0)%float; (-0x1.1000000000000p+2)%float; (0x1.f000000000000p+2)%float; (0x1.9000000000000p+2)%float; (0x1.c000000000000p+2)%float; (0x1.0000000000000p+2)%float];
    [(-0x1.8000000000000p+0)%float; (-0x1.4000000000000p+2)%float; (0x1.e000000000000p+2)%float; (-0x1.d000000000000p+2)%float; (0x1.1000000000000p+2)%float; (0x1.7000000000000p+2)%float; (-0x1.0000000000000p+3)%float; (0x1.9000000000000p+2)%float];
    [(0x0.0p+0)%float; (0x1.0000000000000p-1)%float; (-0x1.8000000000000p-1)%float; (-0x1.3000000000000p+2)%float; (0x1.0000000000000p+1)%float; (-0x1.d000000000000p+2)%float; (-0x1.e000000000000p+2)%float; (-0x1.d000000000000p+2)%float];
    [(0x0.0p+0)%float; (0x0.0p+0)%float; (-0x1.f000000000000p+2)%float; (0x1.0000000000000p+2)%float; (-0x1.4000000000000p+0)%float; (0x1.6000000000000p+2)%float; (-0x1.d000000000000p+2)%float; (-0x1.0000000000000p+0)%float];
    [(0x0.0p+0)%float; (0x0.0p+0)%float; (0x0.0p+0)%float; (0x1.8000000000000p+2)%float; (0x1.f000000000000p+2)%float; (-0x1.8000000000000p-1)%float; (0x1.8000000000000p+1)%float; (-0x1.8000000000000p-1)%float];
    [(0x0.0p+0)%float; (0x0.0p+0)%float; (0x0.0p+0)%float; (0x0.0p+0)%float; (-0x1.0000000000000p+0)%float; (0x1.a000000000000p+2)%float; (0x1.4000000000000p+0)%float; (-0x1.e000000000000p+2)%float];
    [(0x0.0p+0)%float; (0x0.0p+0)%float; (0x0.0p+0)%float; (0x0.0p+0)%float; (0x0.0p+0)%float; (0x1.5000000000000p+2)%float; (-0x1.4000000000000p+2)%float; (-0x1.2000000000000p+1)%float];
    [(0x0.0p+0)%float; (0x0.0p+0)%float; (0x0.0p+0)%float; (0x0.0p+0)%float; (0x0.0p+0)%float; (0x0.0p+0)%float; (0x1.4000000000000p+0)%float; (-0x1.1000000000000p+2)%float]].
Definition h8_V : list (list float) :=
  [[(0x1.0000000000000p+0)%float; (0x0.0p+0)%float; (0x0.0p+0)%float; (0x0.0p+0)%float; (0x0.0p+0)%float; (0x0.0p+0)%float; (0x0.0p+0)%float; (0x0.0p+0)%float];
    [(0x0.0p+0)%float; (0x1.0000000000000p+0)%float; (0x0.0p+0)%float; (0x0.0p+0)%float; (0x0.0p+0)%float; (0x0.0p+0)%float; (0x0.0p+0)%float; (0x0.0p+0)%float];
    [(0x0.0p+0)%float; (0x0.0p+0)%float; (0x1.0000000000000p+0)%float; (0x0.0p+0)%float; (0x0.0p+0)%float; (0x0.0p+0)%float; (0x0.0p+0)%float; (0x0.0p+0)%float];
    [(0x0.0p+0)%float; (0x0.0p+0)%float; (0x0.0p+0)%float; (0x1.0000000000000p+0)%float; (0x0.0p+0)%float; (0x0.0p+0)%float; (0x0.0p+0)%float; (0x0.0p+0)%float];
    [(0x0.0p+0)%float; (0x0.0p+0)%float; (0x0.0p+0)%float; (0x0.0p+0)%float; (0x1.0000000000000p+0)%float; (0x0.0p+0)%float; (0x0.0p+0)%float; (0x0.0p+0)%float];
    [(0x0.0p+0)%float; (0x0.0p+0)%float; (0x0.0p+0)%float; (0x0.0p+0)%float; (0x0.0p+0)%float; (0x1.0000000000000p+0)%float; (0x0.0p+0)%float; (0x0.0p+0)%float];
    [(0x0.0p+0)%float; (0x0.0p+0)%float; (0x0.0p+0)%float; (0x0.0p+0)%float; (0x0.0p+0)%float; (0x0.0p+0)%float; (0x1.0000000000000p+0)%float; (0x0.0p+0)%float];
    [(0x0.0p+0)%float; (0x0.0p+0)%float; (0x0.0p+0)%float; (0x0.0p+0)%float; (0x0.0p+0)%float; (0x0.0p+0)%float; (0x0.0p+0)%float; (0x1.0000000000000p+0)%float]].
Definition h8_xA : list (list float) :=
  [[(0x1.16aa6371e2176p+3)%float; (0x1.37a2d9a152e5fp+2)%float; (-0x1.278b3e856c68fp-2)%float; (0x1.92c814d7c43f6p+2)%float; (0x1.61f8ecbd33ceap+1)%float; (-0x1.1fd0b6ca8a677p+1)%float; (0x1.7cdc576b64b4ep+1)%float; (-0x1.b5c02228bac6cp-2)%float];
    [(-0x1.b9fa9d5d61ea8p+1)%float; (0x1.38273be1e843bp+3)%float; (-0x1.cad69f55c4067p+2)%float; (0x1.6534069325e7dp+1)%float; (-0x1.a307a57e95402p+2)%float; (-0x1.ef617e677cb35p+0)%float; (-0x1.58594c390bdaep-1)%float; (0x1.188e17c40a34ep+1)%float];
    [(0x1.af43e88bc3162p-28)%float; (0x0.0p+0)%float; (0x1.1bf329ac86059p+2)%float; (-0x1.9a6d9ed6102e5p+1)%float; (-0x1.b914409526b45p+3)%float; (0x1.18a6b9e38c0bfp+2)%float; (0x1.a9794add10496p+0)%float; (0x1.1195dab58e257p+1)%float];
    [(-0x1.ca8f9f0075914p-74)%float; (0x1.8d88680000000p-102)%float; (0x0.0p+0)%float; (-0x1.29e8774e4b8f6p+0)%float; (-0x1.5a733b44ce905p+1)%float; (-0x1.4be3b869dcfd8p+1)%float; (-0x1.07cefc86230aap+3)%float; (-0x1.4137caaa8091cp+0)%float];
    [(0x0.0p+0)%float; (-0x1.0ae60951231abp-58)%float; (0x1.35ac84a1adc6dp-45)%float; (0x0.0p+0)%float; (-0x1.c0bf51f6c8b2bp+2)%float; (-0x1.9cb5777c004f5p+1)%float; (0x1.0a49089dab4fdp+2)%float; (0x1.5e4c3b5af1962p+3)%float];
    [(0x0.0p+0)%float; (0x0.0p+0)%float; (-0x1.5b3ea9278ca0dp-53)%float; (0x1.d80ab18800000p-56)%float; (0x1.fe7e53db6a480p-7)%float; (-0x1.c6c6f0618e3d2p+2)%float; (0x1.709a00cda6259p+3)%float; (-0x1.356bfcdf8512cp+2)%float];
    [(0x0.0p+0)%float; (0x0.0p+0)%float; (0x0.0p+0)%float; (0x1.fe5e727bd3ccbp-48)%float; (0x1.1dc09c82b0ed8p-47)%float; (0x0.0p+0)%float; (-0x1.6566d5679cad8p+1)%float; (-0x1.57665ac6d9469p+1)%float];
    [(0x0.0p+0)%float; (0x0.0p+0)%float; (0x0.0p+0)%float; (0x0.0p+0)%float; (0x1.5e03bfc6750a7p-50)%float; (0x1.f4c0000000000p-85)%float; (0x0.0p+0)%float; (-0x1.54e29d7462917p+2)%float]].
Definition h8_xV : list (list float) :=
  [[(-0x1.b02b4f3bb6b8ep-2)%float; (0x1.c648421b3c124p-4)%float; (0x1.16dccb334855ap-1)%float; (0x1.57063056ae32fp-1)%float; (0x1.de93082f46af3p-3)%float; (0x1.888e71123a441p-4)%float; (0x1.d768a0749ee5dp-7)%float; (0x1.20bd6fc2d585cp-7)%float];
    [(0x1.01de0203d9270p-3)%float; (0x1.0c3e0a1f910ccp-1)%float; (0x1.315513ec843e9p-2)%float; (-0x1.ecf3a2c7e121bp-2)%float; (0x1.3847890f5be98p-1)%float; (0x1.0a1179fbf9386p-3)%float; (0x1.aed39b208a319p-8)%float; (0x1.2f6eebf5ea923p-7)%float];
    [(0x1.421b8a736ea0cp-4)%float; (0x1.00df8887723acp-1)%float; (-0x1.732fa5e07aac1p-2)%float; (0x1.e98d0b158238ap-3)%float; (-0x1.d74691a6ee10dp-3)%float; (0x1.5e1b08dd362bap-1)%float; (0x1.373f97fc42260p-3)%float; (0x1.985ae2a7c10d9p-4)%float];
    [(-0x1.13c37b52b8d40p-2)%float; (-0x1.323639b677827p-1)%float; (-0x1.cf4bce22f7b28p-3)%float; (-0x1.03e0bbc5c6f38p-3)%float; (0x1.dd9766cb63540p-2)%float; (0x1.0bed2cab657a9p-1)%float; (0x1.4b73b4ca16d17p-4)%float; (0x1.15d644c35608cp-4)%float];
    [(-0x1.b2d7c03b20456p-1)%float; (0x1.ea5e87a5669c2p-3)%float; (-0x1.0e385f3f6d68ep-3)%float; (-0x1.7b7ba637373dap-2)%float; (-0x1.e551c99ba5a7dp-3)%float; (-0x1.9b9e0e0c0c5dcp-4)%float; (0x1.0e8fa0c3d2ceap-6)%float; (-0x1.29830e476bdfdp-7)%float];
    [(0x1.3a635b1bac224p-4)%float; (-0x1.9e2912a4c0985p-3)%float; (0x1.2c8351f528f78p-1)%float; (-0x1.30aa63990097ap-2)%float; (-0x1.b9dad7c0db0f8p-2)%float; (0x1.23e400761b302p-2)%float; (0x1.f7c66c06989fcp-2)%float; (0x1.a808b5527d835p-4)%float];
    [(0x1.5fc811c8e84ecp-7)%float; (-0x1.313be9489906dp-4)%float; (0x1.0ccfb89149fbbp-2)%float; (-0x1.21d72711e9c52p-3)%float; (-0x1.f6360969726c7p-3)%float; (0x1.7a43ee67f2bf0p-2)%float; (-0x1.a41bfa4f2e163p-1)%float; (-0x1.8214f0dc48a26p-3)%float];
    [(-0x1.6186959162e88p-11)%float; (-0x1.a488ec702d202p-8)%float; (0x1.09e207e1d906bp-5)%float; (-0x1.0d0ee4f990d7bp-6)%float; (-0x1.540a28bc8d85dp-6)%float; (-0x1.19186ee9e4bebp-4)%float; (-0x1.de458def92d90p-3)%float; (0x1.f020928b837f3p-1)%float]].
Definition h8_xd : list float := [(0x1.2768cfa9e52d8p+3)%float; (0x1.2768cfa9e52d8p+3)%float; (0x1.1bf329ac86059p+2)%float; (-0x1.29e8774e4b8f6p+0)%float; (-0x1.c3c3212c2b77ep+2)%float; (-0x1.c3c3212c2b77ep+2)%float; (-0x1.6566d5679cad9p+1)%float; (-0x1.54e29d7462918p+2)%float].
Definition h8_xe : list float := [(0x1.044845bdbea5ap+2)%float; (-0x1.044845bdbea5ap+2)%float; (0x0.0p+0)%float; (0x0.0p+0)%float; (0x1.c0c04605c31dfp-3)%float; (-0x1.c0c04605c31dfp-3)%float; (0x0.0p+0)%float; (0x0.0p+0)%float].
Definition h8_xanorm : float := (0x1.8380000000000p+7)%float.
Example corr_h8 : corr_hqr2_sweeps h8_A h8_V h8_xA h8_xV h8_xd h8_xe h8_xanorm = true.
Proof. vm_compute. reflexivity. Qed.

(* zsub: n = 5, max sweeps before a deflation = 6 *)
Definition zsub_A : list (list float) :=
  [[(0x1.2000000000000p+1)%float; (-0x1.a000000000000p+1)%float; (0x1.2000000000000p+2)%float; (-0x1.a000000000000p+2)%float; (-0x1.7000000000000p+2)%float];
    [(-0x1.4000000000000p+2)%float; (0x1.c000000000000p+1)%float; (-0x1.9000000000000p+2)%float; (0x1.0000000000000p+3)%float; (-0x1.4000000000000p+0)%float];
    [(0x0.0p+0)%float; (0x0.0p+0)%float; (-0x1.5000000000000p+2)%float; (0x1.7000000000000p+2)%float; (0x1.5000000000000p+2)%float];
    [(0x0.0p+0)%float; (0x0.0p+0)%float; (-0x1.8000000000000p+2)%float; (-0x1.0000000000000p-1)%float; (-0x1.5000000000000p+2)%float];
    [(0x0.0p+0)%float; (0x0.0p+0)%float; (0x0.0p+0)%float; (0x1.6000000000000p+2)%float; (-0x1.9000000000000p+2)%float]].
Definition zsub_V : list (list float) :=
  [[(0x1.0000000000000p+0)%float; (0x0.0p+0)%float; (0x0.0p+0)%float; (0x0.0p+0)%float; (0x0.0p+0)%float];
    [(0x0.0p+0)%float; (0x1.0000000000000p+0)%float; (0x0.0p+0)%float; (0x0.0p+0)%float; (0x0.0p+0)%float];
    [(0x0.0p+0)%float; (0x0.0p+0)%float; (0x1.0000000000000p+0)%float; (0x0.0p+0)%float; (0x0.0p+0)%float];
    [(0x0.0p+0)%float; (0x0.0p+0)%float; (0x0.0p+0)%float; (0x1.0000000000000p+0)%float; (0x0.0p+0)%float];
    [(0x0.0p+0)%float; (0x0.0p+0)%float; (0x0.0p+0)%float; (0x0.0p+0)%float; (0x1.0000000000000p+0)%float]].
Definition zsub_xA : list (list float) :=
  [[(-0x1.344c7eab39568p+0)%float; (0x1.bfffffffffffep+0)%float; (-0x1.c59c4a38a0e5ep+1)%float; (0x1.5f4cf8b7611ccp+0)%float; (0x1.cfbc161881b5bp+1)%float];
    [(0x1.0000000000000p-51)%float; (0x1.bd131faace55ap+2)%float; (-0x1.1030aa7690889p+1)%float; (0x1.88027a75e816dp+3)%float; (-0x1.0fbdd08b2e577p+2)%float];
    [(0x0.0p+0)%float; (0x0.0p+0)%float; (-0x1.830b529ada232p+1)%float; (0x1.1a88e7d51b7f6p+3)%float; (-0x1.a66059efc79e3p-1)%float];
    [(0x0.0p+0)%float; (0x0.0p+0)%float; (-0x1.e43f058dc650fp+2)%float; (-0x1.00861ce89cf20p+0)%float; (0x1.b5b0642c15381p+1)%float];
    [(0x0.0p+0)%float; (0x0.0p+0)%float; (-0x1.b8cbce359db50p-32)%float; (0x0.0p+0)%float; (-0x1.fe58cf786bb27p+2)%float]].
Definition zsub_xV : list (list float) :=
  [[(-0x1.5ed8058e2d703p-1)%float; (0x1.74e5c7aa55c2cp-1)%float; (0x0.0p+0)%float; (0x0.0p+0)%float; (0x0.0p+0)%float];
    [(-0x1.74e5c7aa55c2cp-1)%float; (-0x1.5ed8058e2d703p-1)%float; (0x0.0p+0)%float; (0x0.0p+0)%float; (0x0.0p+0)%float];
    [(-0x0.0p+0)%float; (0x0.0p+0)%float; (-0x1.9edf1976b179ap-1)%float; (0x1.35ca687723b38p-2)%float; (-0x1.00f8136181c86p-1)%float];
    [(-0x0.0p+0)%float; (0x0.0p+0)%float; (-0x1.b554e2f581c73p-3)%float; (-0x1.e6649ab8e2b29p-1)%float; (-0x1.d2af5c8bbf714p-3)%float];
    [(-0x0.0p+0)%float; (0x0.0p+0)%float; (-0x1.1769e2f90227ap-1)%float; (-0x1.3d519e89de67ap-4)%float; (0x1.ab32ddf3c51c6p-1)%float]].
Definition zsub_xd : list float := [(-0x1.344c7eab39568p+0)%float; (0x1.bd131faace55ap+2)%float; (-0x1.01a73087944e1p+1)%float; (-0x1.01a73087944e1p+1)%float; (-0x1.fe58cf786bb27p+2)%float].
Definition zsub_xe : list float := [(0x0.0p+0)%float; (0x0.0p+0)%float; (0x1.038aa309043c3p+3)%float; (-0x1.038aa309043c3p+3)%float; (0x0.0p+0)%float].
Definition zsub_xanorm : float := (0x1.5800000000000p+6)%float.
Example corr_zsub : corr_hqr2_sweeps zsub_A zsub_V zsub_xA zsub_xV zsub_xd zsub_xe zsub_xanorm = true.
Proof. vm_compute. reflexivity. Qed.

(* utri: n = 4, max sweeps before a deflation = 0 *)
Definition utri_A : list (list float) :=
  [[(0x1.b000000000000p+2)%float; (0x1.e000000000000p+1)%float; (0x1.0000000000000p-1)%float; (-0x1.e000000000000p+1)%float];
    [(0x0.0p+0)%float; (-0x1.0000000000000p+3)%float; (0x1.6000000000000p+1)%float; (0x1.0000000000000p+3)%float];
    [(0x0.0p+0)%float; (0x0.0p+0)%float; (-0x1.6000000000000p+2)%float; (0x1.4000000000000p+1)%float];
    [(0x0.0p+0)%float; (0x0.0p+0)%float; (0x0.0p+0)%float; (0x1.0000000000000p+2)%float]].
Definition utri_V : list (list float) :=
  [[(0x1.0000000000000p+0)%float; (0x0.0p+0)%float; (0x0.0p+0)%float; (0x0.0p+0)%float];
    [(0x0.0p+0)%float; (0x1.0000000000000p+0)%float; (0x0.0p+0)%float; (0x0.0p+0)%float];
    [(0x0.0p+0)%float; (0x0.0p+0)%float; (0x1.0000000000000p+0)%float; (0x0.0p+0)%float];
    [(0x0.0p+0)%float; (0x0.0p+0)%float; (0x0.0p+0)%float; (0x1.0000000000000p+0)%float]].
Definition utri_xA : list (list float) :=
  [[(0x1.b000000000000p+2)%float; (0x1.e000000000000p+1)%float; (0x1.0000000000000p-1)%float; (-0x1.e000000000000p+1)%float];
    [(0x0.0p+0)%float; (-0x1.0000000000000p+3)%float; (0x1.6000000000000p+1)%float; (0x1.0000000000000p+3)%float];
    [(0x0.0p+0)%float; (0x0.0p+0)%float; (-0x1.6000000000000p+2)%float; (0x1.4000000000000p+1)%float];
    [(0x0.0p+0)%float; (0x0.0p+0)%float; (0x0.0p+0)%float; (0x1.0000000000000p+2)%float]].
Definition utri_xV : list (list float) :=
  [[(0x1.0000000000000p+0)%float; (0x0.0p+0)%float; (0x0.0p+0)%float; (0x0.0p+0)%float];
    [(0x0.0p+0)%float; (0x1.0000000000000p+0)%float; (0x0.0p+0)%float; (0x0.0p+0)%float];
    [(0x0.0p+0)%float; (0x0.0p+0)%float; (0x1.0000000000000p+0)%float; (0x0.0p+0)%float];
    [(0x0.0p+0)%float; (0x0.0p+0)%float; (0x0.0p+0)%float; (0x1.0000000000000p+0)%float]].
Definition utri_xd : list float := [(0x1.b000000000000p+2)%float; (-0x1.0000000000000p+3)%float; (-0x1.6000000000000p+2)%float; (0x1.0000000000000p+2)%float].
Definition utri_xe : list float := [(0x0.0p+0)%float; (0x0.0p+0)%float; (0x0.0p+0)%float; (0x0.0p+0)%float].
Definition utri_xanorm : float := (0x1.6c00000000000p+5)%float.
Example corr_utri : corr_hqr2_sweeps utri_A utri_V utri_xA utri_xV utri_xd utri_xe utri_xanorm = true.
Proof. vm_compute. reflexivity. Qed.

(* cyc4: n = 4, max sweeps before a deflation = 15 *)
Definition cyc4_A : list (list float) :=
  [[(0x0.0p+0)%float; (0x0.0p+0)%float; (0x0.0p+0)%float; (0x1.0000000000000p+0)%float];
    [(0x1.0000000000000p+0)%float; (0x0.0p+0)%float; (0x0.0p+0)%float; (0x0.0p+0)%float];
    [(0x0.0p+0)%float; (0x1.0000000000000p+0)%float; (0x0.0p+0)%float; (0x0.0p+0)%float];
    [(0x0.0p+0)%float; (0x0.0p+0)%float; (0x1.0000000000000p+0)%float; (0x0.0p+0)%float]].
Definition cyc4_V : list (list float) :=
  [[(0x1.0000000000000p+0)%float; (0x0.0p+0)%float; (0x0.0p+0)%float; (0x0.0p+0)%float];
    [(0x0.0p+0)%float; (0x1.0000000000000p+0)%float; (0x0.0p+0)%float; (0x0.0p+0)%float];
    [(0x0.0p+0)%float; (0x0.0p+0)%float; (0x1.0000000000000p+0)%float; (0x0.0p+0)%float];
    [(0x0.0p+0)%float; (0x0.0p+0)%float; (0x0.0p+0)%float; (0x1.0000000000000p+0)%float]].
Definition cyc4_xA : list (list float) :=
  [[(-0x1.0000000000000p+0)%float; (0x1.324a9eec86490p-54)%float; (0x1.0cefbfcbfe5f3p-51)%float; (0x1.2748ed5f14c29p-54)%float];
    [(0x0.0p+0)%float; (-0x1.8000000000000p-52)%float; (-0x1.ffffffffffff9p-1)%float; (-0x1.75a7f2b441650p-52)%float];
    [(-0x1.0176000000000p-56)%float; (0x1.ffffffffffff8p-1)%float; (-0x1.0000000000000p-53)%float; (0x1.e7f927dae57bep-54)%float];
    [(0x1.c16b42ddc3ae8p-25)%float; (-0x1.f0cc3ca60858dp-25)%float; (0x0.0p+0)%float; (0x1.fffffffffffffp-1)%float]].
Definition cyc4_xV : list (list float) :=
  [[(-0x1.0000000000001p-1)%float; (0x1.61a0a227393b8p-1)%float; (-0x1.365835a309b22p-3)%float; (0x1.0000000000001p-1)%float];
    [(0x1.0000000000000p-1)%float; (0x1.365835a309b1cp-3)%float; (0x1.61a0a227393b4p-1)%float; (0x1.ffffffffffffbp-2)%float];
    [(-0x1.ffffffffffffcp-2)%float; (-0x1.61a0a227393b0p-1)%float; (0x1.365835a309b2ap-3)%float; (0x1.ffffffffffffep-2)%float];
    [(0x1.0000000000000p-1)%float; (-0x1.365835a309b1cp-3)%float; (-0x1.61a0a227393b2p-1)%float; (0x1.ffffffffffffcp-2)%float]].
Definition cyc4_xd : list float := [(-0x1.0000000000000p+0)%float; (-0x1.0000000000000p-52)%float; (-0x1.0000000000000p-52)%float; (0x1.fffffffffffffp-1)%float].
Definition cyc4_xe : list float := [(0x0.0p+0)%float; (0x1.ffffffffffff8p-1)%float; (-0x1.ffffffffffff8p-1)%float; (0x0.0p+0)%float].
Definition cyc4_xanorm : float := (0x1.0000000000000p+2)%float.
Example corr_cyc4 : corr_hqr2_sweeps cyc4_A cyc4_V cyc4_xA cyc4_xV cyc4_xd cyc4_xe cyc4_xanorm = true.
Proof. vm_compute. reflexivity. Qed.

(* junk5: n = 5, max sweeps before a deflation = 5 *)
Definition junk5_A : list (list float) :=
  [[(0x0.0p+0)%float; (0x1.a000000000000p+1)%float; (-0x1.d000000000000p+2)%float; (0x1.b000000000000p+2)%float; (-0x1.0000000000000p-2)%float];
    [(-0x1.a000000000000p+2)%float; (-0x1.8000000000000p+1)%float; (-0x1.2000000000000p+2)%float; (0x1.e000000000000p+1)%float; (0x1.c000000000000p+2)%float];
    [(0x1.0000000000000p-1)%float; (-0x1.0000000000000p-2)%float; (0x1.0000000000000p+2)%float; (-0x1.3000000000000p+2)%float; (-0x1.0000000000000p-2)%float];
    [(-0x1.8000000000000p-2)%float; (-0x1.8000000000000p-1)%float; (-0x1.f000000000000p+2)%float; (-0x1.4000000000000p+0)%float; (0x1.4000000000000p+2)%float];
    [(-0x1.0000000000000p-1)%float; (0x1.8000000000000p-1)%float; (-0x1.0000000000000p-1)%float; (0x1.8000000000000p-1)%float; (-0x1.2000000000000p+1)%float]].
Definition junk5_V : list (list float) :=
  [[(-0x1.0000000000000p-1)%float; (-0x1.0000000000000p+0)%float; (-0x1.0000000000000p+0)%float; (-0x1.0000000000000p-2)%float; (-0x1.0000000000000p-2)%float];
    [(-0x1.8000000000000p-2)%float; (-0x1.8000000000000p-2)%float; (0x1.0000000000000p-3)%float; (0x1.0000000000000p-2)%float; (-0x1.0000000000000p-2)%float];
    [(-0x1.0000000000000p-2)%float; (-0x1.8000000000000p-2)%float; (-0x1.0000000000000p-2)%float; (0x1.0000000000000p-1)%float; (0x1.0000000000000p-3)%float];
    [(-0x1.0000000000000p+0)%float; (0x1.8000000000000p-2)%float; (0x1.4000000000000p-1)%float; (-0x1.8000000000000p-2)%float; (-0x1.0000000000000p-1)%float];
    [(0x0.0p+0)%float; (-0x1.8000000000000p-1)%float; (0x1.0000000000000p-2)%float; (0x1.0000000000000p-3)%float; (-0x1.0000000000000p+0)%float]].
Definition junk5_xA : list (list float) :=
  [[(0x1.028695eace072p+3)%float; (-0x1.5f2bf09e202e4p+2)%float; (-0x1.f2c3d4645849ap+2)%float; (-0x1.20cd53f2b724dp+1)%float; (-0x1.aa51d1c08ff70p-3)%float];
    [(0x0.0p+0)%float; (-0x1.c96f423b71808p-1)%float; (0x1.3cdee3b6f262ap+3)%float; (0x1.703f320f49fdbp+1)%float; (0x1.a6ecbe748db6ep+2)%float];
    [(-0x1.a999d40000000p-58)%float; (-0x1.c5be1bc92ebfcp+0)%float; (-0x1.168265f7c7de8p+1)%float; (0x1.75cca46087330p+1)%float; (0x1.652a2548894e8p-1)%float];
    [(0x1.28ca523e54fe0p-46)%float; (0x1.3cb2be69d2100p-44)%float; (0x0.0p+0)%float; (-0x1.76f59bbfdd71bp+2)%float; (-0x1.70082f1b8d136p+1)%float];
    [(-0x1.0000000000000p-1)%float; (0x1.4c4ac26dd8c78p-76)%float; (0x1.2280000000000p-119)%float; (0x0.0p+0)%float; (-0x1.a6a1d349b1f86p+0)%float]].
Definition junk5_xV : list (list float) :=
  [[(0x1.48c7019745122p-4)%float; (0x1.935aee71f5424p-1)%float; (-0x1.d65edad277344p-1)%float; (-0x1.a528082b6c4edp-1)%float; (0x1.e834f3a8e9a3dp-2)%float];
    [(-0x1.ba5a11100663ep-3)%float; (0x1.4a3443faf119ap-2)%float; (-0x1.8606b7fc09136p-2)%float; (0x1.2e9a022ae9b87p-2)%float; (0x1.939d64a0a8ce9p-3)%float];
    [(0x1.6f50c99b7b724p-3)%float; (0x1.cf4fe7033fb7cp-3)%float; (-0x1.47300b0caf950p-1)%float; (0x1.35c5bf315ffeap-3)%float; (-0x1.084e6d6a0a03ep-3)%float];
    [(-0x1.44c08f36dd5a7p+0)%float; (-0x1.1e2f06140b8e6p-2)%float; (-0x1.82fe46b540188p-6)%float; (0x1.ccd29c1862033p-3)%float; (0x1.b6718f52bf730p-2)%float];
    [(-0x1.3413b1211da95p-5)%float; (0x1.89ecea77a87cep-1)%float; (-0x1.e7232cf61ccb0p-5)%float; (0x1.d2b5b37f27548p-2)%float; (0x1.d42299869ab37p-1)%float]].
Definition junk5_xd : list float := [(0x1.028695eace072p+3)%float; (-0x1.88de3686a43eap+0)%float; (-0x1.88de3686a43eap+0)%float; (-0x1.76f59bbfdd71bp+2)%float; (-0x1.a6a1d349b1f86p+0)%float].
Definition junk5_xe : list float := [(0x0.0p+0)%float; (0x1.08f63a4ab7b6ep+2)%float; (-0x1.08f63a4ab7b6ep+2)%float; (0x0.0p+0)%float; (0x0.0p+0)%float].
Definition junk5_xanorm : float := (0x1.1200000000000p+6)%float.
Example corr_junk5 : corr_hqr2_sweeps junk5_A junk5_V junk5_xA junk5_xV junk5_xd junk5_xe junk5_xanorm = true.
Proof. vm_compute. reflexivity. Qed.

