(* C02 — tql2 over R (eps := 0, hypot a b := sqrt (a^2 + b^2)): PARTIAL correctness of the QL part
   (everything before the final sort).  If `tql2_ql` returns Some (V, d, e, ok) with the ghost flag
   ok = true (no rotation divided by r = 0), from V0 orthogonal and A V0 = V0 * tridiag d0 e0, then
   e = 0, V is orthogonal and A V = V diag(d).  That a result is returned (convergence within 29
   sweeps per eigenvalue) is NOT proved. *)
From Coq Require Import List Arith Bool Lia Reals Lra Psatz.
From SC Require Import Base.Num C02.FunMat C02.ModelTql2 C02.ProofsTql2Rot C02.ProofsTql2SweepAlg C02.ProofsTql2Sweep C02.ProofsTql2Pass.
Import ListNotations.
Local Open Scope R_scope.

Definition mdiag (d : nat -> R) : mat := fun a b => if a =? b then d a else 0.

Section Outer.
  Variables (n : nat) (A : mat).

  (* the search of the negligible off-diagonal element, eps = 0 *)
  Lemma find_m_spec e tst1 : forall fuel m0, (n - m0 < fuel)%nat ->
    let m := find_m ROps 0 n e tst1 fuel m0 in
    (m0 <= m)%nat /\ ((m < n)%nat -> e m = 0) /\ (forall a, (m0 <= a < m)%nat -> e a <> 0) /\
    (m <= Nat.max m0 n)%nat.
  Proof.
    induction fuel as [|k IH]; intros m0 Hf; [lia|]. cbn [find_m]. rops.
    destruct (Nat.ltb_spec m0 n) as [Hlt|Hge].
    - destruct (Rleb (Rabs (e m0)) (tst1 * 0)) eqn:E.
      + apply Rleb_true in E. rewrite Rmult_0_r in E.
        split; [lia|]. split; [|split; [intros a Ha; lia|lia]].
        intros _. destruct (Req_dec (e m0) 0) as [H0|H0]; [exact H0|].
        pose proof (Rabs_pos_lt _ H0). lra.
      + apply Rleb_false in E. rewrite Rmult_0_r in E.
        assert (Hne : e m0 <> 0). { intros H0. rewrite H0, Rabs_R0 in E. lra. }
        destruct (IH (S m0) ltac:(lia)) as (H1 & H2 & H3 & H4).
        split; [lia|]. split; [exact H2|]. split; [|lia].
        intros a Ha. destruct (Nat.eq_dec a m0) as [->|Hne']; [exact Hne|]. apply H3. lia.
    - split; [lia|]. split; [lia|]. split; [intros a Ha; lia|lia].
  Qed.

  (* e[n-1] = 0 makes the search stop at m <= n - 1 *)
  Lemma find_m_lt e tst1 l : (l < n)%nat -> e (n - 1)%nat = 0 ->
    (find_m ROps 0%R n e tst1 (n - l + 1) l < n)%nat.
  Proof.
    intros Hl He. destruct (find_m_spec e tst1 (n - l + 1) l ltac:(lia)) as (H1 & _ & H3 & H4).
    destruct (Nat.lt_ge_cases (find_m ROps 0%R n e tst1 (n - l + 1) l) n) as [H|H]; [exact H|].
    exfalso. apply (H3 (n - 1)%nat); [lia|exact He].
  Qed.

  (* invariant of `for l in 0..n` *)
  Definition OInv (l : nat) (q : qstate) : Prop :=
    morth n (qV q) /\
    meq n (mmul n A (qV q)) (mmul n (qV q) (tri (dt l (qf q) (qd q)) (qe q))) /\
    (forall a, (a < l)%nat -> qe q a = 0) /\
    qe q (n - 1) = 0.

  Lemma outer_finish l q1 : (l < n)%nat -> OInv l q1 -> qe q1 l = 0 ->
    OInv (S l) (mkQS (qV q1) (vupd (qd q1) l (qd q1 l + qf q1)) (vupd (qe q1) l 0) (qf q1) (qok q1)).
  Proof.
    intros Hl (HVo & HAV & Hz & Hen) Hel. unfold OInv. cbn [qV qd qe qf].
    split; [exact HVo|]. split; [|split].
    - eapply sim_ext; [apply meq_refl| |exact HAV].
      apply tri_ext; intros a Ha.
      + unfold dt. destruct (Nat.eq_dec a l) as [->|Hne].
        * rewrite vupd_eq. destruct (Nat.ltb_spec l l); [lia|]. destruct (Nat.ltb_spec l (S l)); [|lia].
          reflexivity.
        * rewrite vupd_neq by exact Hne.
          destruct (Nat.ltb_spec a l); destruct (Nat.ltb_spec a (S l)); try reflexivity; lia.
      + destruct (Nat.eq_dec a l) as [->|Hne]; [rewrite vupd_eq; exact Hel|].
        rewrite vupd_neq by exact Hne. reflexivity.
    - intros a Ha. destruct (Nat.eq_dec a l) as [->|Hne]; [apply vupd_eq|].
      rewrite vupd_neq by exact Hne. apply Hz. lia.
    - destruct (Nat.eq_dec (n - 1)%nat l) as [->|Hne]; [apply vupd_eq|].
      rewrite vupd_neq by exact Hne. exact Hen.
  Qed.

  Lemma ql_outer_step l q t q' t' : (l < n)%nat ->
    ql_outer ROps hypR 0 n l (Some (q, t)) = Some (q', t') -> qok q' = true ->
    (qok q = true) /\ (OInv l q -> OInv (S l) q').
  Proof.
    intros Hl Hrun Hok. unfold ql_outer in Hrun. revert Hrun.
    set (tst1 := omax ROps t _). set (m := find_m ROps 0 n (qe q) tst1 (n - l + 1) l).
    destruct (find_m_spec (qe q) tst1 (n - l + 1) l ltac:(lia)) as (Hm1 & Hm2 & Hm3 & _).
    fold m in Hm1, Hm2, Hm3.
    destruct (Nat.ltb_spec l m) as [Hlm|Hlm].
    - destruct (Nat.leb_spec n m) as [Hnm|Hnm]; [discriminate|].
      destruct (ql_loop ROps hypR 0 n tst1 l m ql_fuel q) as [q1|] eqn:Hloop; [|discriminate].
      intros Hrun. injection Hrun as <- _. cbn [qok] in Hok.
      split; [eapply ql_loop_ok_mono; eassumption|].
      intros (HVo & HAV & Hz & Hen).
      assert (HQ : QInv n l m A q).
      { unfold QInv. repeat (split; try assumption). apply Hm2. exact Hnm. }
      destruct (ql_loop_inv n l m A Hlm Hnm tst1 ql_fuel q q1 (Hm3 l ltac:(lia)) HQ Hloop Hok)
        as ((HVo1 & HAV1 & Hz1 & _ & Hen1) & Hel1).
      apply outer_finish; [exact Hl| |exact Hel1].
      unfold OInv. repeat (split; try assumption).
    - intros Hrun. injection Hrun as <- _. cbn [qok] in Hok. split; [exact Hok|].
      intros HO. apply outer_finish; [exact Hl|exact HO|].
      replace l with m by lia. apply Hm2. lia.
  Qed.

  (* the shift of e at the start *)
  Lemma e_shift_spec (e : nat -> R) a : (0 < n)%nat ->
    e_shift ROps n e a = if a =? n - 1 then 0 else if (S a <? n)%nat then e (S a) else e a.
  Proof.
    intros Hn. unfold e_shift. rops.
    destruct (Nat.eqb_spec a (n - 1)) as [->|Hne]; [apply vupd_eq|].
    rewrite vupd_neq by exact Hne.
    assert (H : forall a, forn 1 (n - 1) (fun i e => vupd e (i - 1) (e i)) e a
                          = if (S a <? 1 + (n - 1))%nat then e (S a) else e a).
    { apply (forn_ind (fun k (e' : nat -> R) => forall a, e' a = if (S a <? k)%nat then e (S a) else e a)).
      - intros b. destruct (Nat.ltb_spec (S b) 1); [lia|reflexivity].
      - intros k e' Hk IH b. destruct (Nat.eq_dec b (k - 1)) as [->|Hb].
        + rewrite vupd_eq. rewrite IH. destruct (Nat.ltb_spec (S k) k); [lia|].
          destruct (Nat.ltb_spec (S (k - 1)) (S k)); [|lia]. f_equal. lia.
        + rewrite vupd_neq by exact Hb. rewrite IH.
          destruct (Nat.ltb_spec (S b) k); destruct (Nat.ltb_spec (S b) (S k)); try reflexivity; lia. }
    rewrite H. replace (1 + (n - 1))%nat with n by lia. reflexivity.
  Qed.

  Lemma tridiag_shift (d e : nat -> R) : (0 < n)%nat ->
    meq n (tridiag d e) (tri (dt 0 0 d) (e_shift ROps n e)).
  Proof.
    intros Hn a b Ha Hb. unfold tridiag, tri, dt.
    destruct (Nat.ltb_spec a 0); [lia|].
    destruct (Nat.eqb_spec a b) as [->|Hab]; [ring|].
    destruct (Nat.eqb_spec a (S b)) as [->|Hab1].
    - destruct (Nat.eqb_spec b (S (S b))); [lia|]. rewrite e_shift_spec by exact Hn.
      destruct (Nat.eqb_spec b (n - 1)); [lia|]. destruct (Nat.ltb_spec (S b) n); [reflexivity|lia].
    - destruct (Nat.eqb_spec b (S a)) as [->|Hba1]; [|reflexivity].
      rewrite e_shift_spec by exact Hn.
      destruct (Nat.eqb_spec a (n - 1)); [lia|]. destruct (Nat.ltb_spec (S a) n); [reflexivity|lia].
  Qed.

  (* (iii) *)
  Lemma tql2_ql_partial_correct (V0 : mat) (d0 e0 : nat -> R) (V : mat) (d e : nat -> R) :
    morth n V0 ->
    meq n (mmul n A V0) (mmul n V0 (tridiag d0 e0)) ->
    tql2_ql ROps hypR 0 n V0 d0 e0 = Some (V, d, e, true) ->
    (forall a, (a < n)%nat -> e a = 0) /\
    morth n V /\
    meq n (mmul n A V) (mmul n V (mdiag d)).
  Proof.
    intros HV0 HAV0 Hrun. unfold tql2_ql in Hrun.
    destruct (Nat.eqb_spec n 0) as [Hn0|Hn0]; [discriminate|].
    assert (Hn : (0 < n)%nat) by lia.
    set (q0 := mkQS V0 d0 (e_shift ROps n e0) (o0 ROps) true) in Hrun.
    assert (H : forall q t, forn 0 n (ql_outer ROps hypR 0 n) (Some (q0, o0 ROps)) = Some (q, t) ->
                qok q = true -> OInv (0 + n) q).
    { apply (forn_ind (fun k s => forall q t, s = Some (q, t) -> qok q = true -> OInv k q)).
      - intros q t Hq _. injection Hq as <- _. unfold OInv, q0. cbn [qV qd qe qf]. rops.
        split; [exact HV0|]. split; [|split].
        + eapply sim_ext; [apply meq_refl|apply tridiag_shift; exact Hn|exact HAV0].
        + intros a Ha. lia.
        + rewrite e_shift_spec by exact Hn. rewrite Nat.eqb_refl. reflexivity.
      - intros k s Hk IH q' t' Hq' Hok'. destruct s as [[q t]|]; [|discriminate].
        destruct (ql_outer_step k q t q' t' ltac:(lia) Hq' Hok') as [Hokq Hstep].
        apply Hstep. eapply IH; [reflexivity|exact Hokq]. }
    destruct (forn 0 n (ql_outer ROps hypR 0 n) (Some (q0, o0 ROps))) as [[q t]|] eqn:Hf; [|discriminate].
    injection Hrun as <- <- <- Hok.
    destruct (H q t eq_refl Hok) as (HVo & HAV & Hz & _).
    split; [intros a Ha; apply Hz; lia|]. split; [exact HVo|].
    eapply sim_ext; [apply meq_refl| |exact HAV].
    intros a b Ha Hb. unfold tri, dt, mdiag.
    destruct (Nat.ltb_spec a (0 + n)); [|lia].
    destruct (Nat.eqb_spec a b); [reflexivity|].
    destruct (Nat.eqb_spec b (S a)); [apply Hz; lia|].
    destruct (Nat.eqb_spec a (S b)); [apply Hz; lia|reflexivity].
  Qed.

  (* reading of the conclusion: column j of V is a unit eigenvector of A for d j *)
  Corollary tql2_ql_eigenpairs (V0 : mat) (d0 e0 : nat -> R) (V : mat) (d e : nat -> R) :
    morth n V0 ->
    meq n (mmul n A V0) (mmul n V0 (tridiag d0 e0)) ->
    tql2_ql ROps hypR 0 n V0 d0 e0 = Some (V, d, e, true) ->
    forall j, (j < n)%nat ->
      (forall i, (i < n)%nat -> rsum n (fun k => A i k * V k j) = d j * V i j) /\
      rsum n (fun k => V k j * V k j) = 1 /\
      (forall j', (j' < n)%nat -> j' <> j -> rsum n (fun k => V k j' * V k j) = 0).
  Proof.
    intros HV0 HAV0 Hrun j Hj.
    destruct (tql2_ql_partial_correct V0 d0 e0 V d e HV0 HAV0 Hrun) as (_ & HVo & HAV).
    split; [|split].
    - intros i Hi. pose proof (HAV i j Hi Hj) as H. unfold mmul in H. rewrite H.
      rewrite (rsum_single n j).
      + unfold mdiag. rewrite Nat.eqb_refl. ring.
      + exact Hj.
      + intros k Hk Hkj. unfold mdiag. destruct (Nat.eqb_spec k j) as [E|E]; [contradiction|ring].
    - pose proof (HVo j j Hj Hj) as H. unfold mmul, mtr, mid in H. rewrite Nat.eqb_refl in H. exact H.
    - intros j' Hj' Hne. pose proof (HVo j' j Hj' Hj) as H. unfold mmul, mtr, mid in H.
      destruct (Nat.eqb_spec j' j); [contradiction|exact H].
  Qed.
End Outer.

(* the same on the list wrapper used by the correspondence (rows of V, d, e; n = length d) *)
Corollary tql2_ql_rows_partial_correct (A : mat) (V0 : list (list R)) (d0 e0 : list R)
    (V : list (list R)) (d e : list R) :
  let n := length d0 in
  morth n (mfun 0 V0) ->
  meq n (mmul n A (mfun 0 V0)) (mmul n (mfun 0 V0) (tridiag (vfun 0 d0) (vfun 0 e0))) ->
  tql2_ql_rows ROps hypR 0 V0 d0 e0 = Some (V, d, e, true) ->
  length d = n /\ (forall x, In x e -> x = 0) /\
  morth n (mfun 0 V) /\
  meq n (mmul n A (mfun 0 V)) (mmul n (mfun 0 V) (mdiag (vfun 0 d))).
Proof.
  intros n HV0 HAV0 Hrun. unfold tql2_ql_rows in Hrun. fold n in Hrun. cbn [ROps o0] in Hrun.
  destruct (tql2_ql ROps hypR 0 n (mfun 0 V0) (vfun 0 d0) (vfun 0 e0)) as [[[[V' d'] e'] ok]|] eqn:E;
    [|discriminate].
  injection Hrun as <- <- <- ->.
  destruct (tql2_ql_partial_correct n A _ _ _ V' d' e' HV0 HAV0 E) as (Hz & HVo & HAV).
  assert (HVV : meq n V' (mfun 0 (mrows n V'))).
  { intros a b Ha Hb. symmetry. apply mfun_mrows; assumption. }
  split; [apply vlist_length|]. split; [|split].
  - intros x Hx. unfold vlist in Hx. apply in_map_iff in Hx. destruct Hx as (a & <- & Ha).
    apply in_seq in Ha. apply Hz. lia.
  - eapply morth_ext; eassumption.
  - eapply sim_ext; [exact HVV| |exact HAV].
    intros a b Ha Hb. unfold mdiag, vfun. rewrite nth_vlist by exact Ha. reflexivity.
Qed.
