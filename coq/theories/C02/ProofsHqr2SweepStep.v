(* C02 — hqr2, first half, over R: the loops of one step k of the model compute the pointwise
   operations srow / scol / fcol of ProofsHqr2SweepAlg.v. *)
From Coq Require Import List Arith Bool Lia Reals Lra Psatz.
From SC Require Import Base.Num C02.FunMat C02.Model C02.ModelTql2 C02.ModelHqr2Spec C02.ModelHqr2Sweep
  C02.ProofsHouse C02.ProofsHqr2SweepAlg C02.ProofsHqr2SweepJ C02.ProofsHqr2SweepRel.
Local Open Scope R_scope.

Ltac rops := cbn [ROps o0 o1 oadd osub omul odiv oneg oabs osqrt oltb oleb oeqb oofZ].

Section Loops.
  Variables (n k : nat) (last : bool) (x y z q r : R).
  Hypothesis Hlast : last = true -> z = 0 /\ r = 0.

  Lemma h_rows_spec (A : mat) i c :
    h_rows ROps n k last x y z q r A i c =
    if (k <=? c)%nat && (c <? k + (n - k))%nat then frow k x y z q r A i c else A i c.
  Proof.
    unfold h_rows.
    apply (forn_ind (fun j (W : mat) => forall i c,
      W i c = if (k <=? c)%nat && (c <? j)%nat then frow k x y z q r A i c else A i c)).
    - intros i' c'. cmp; reflexivity.
    - intros j W Hj IH i' c'. rops. destruct last eqn:El.
      + destruct (Hlast eq_refl) as [-> ->].
        unfold mupd. rewrite !IH. unfold frow, uu, vec3. cmp; try ring.
      + unfold mupd. rewrite !IH. unfold frow, uu, vec3. cmp; try ring.
  Qed.

  Lemma h_cols_spec cnt (M : mat) i c :
    h_cols ROps cnt k last x y z q r M i c =
    if (i <? 0 + cnt)%nat then fcol k x y z q r M i c else M i c.
  Proof.
    unfold h_cols.
    apply (forn_ind (fun j (W : mat) => forall i c,
      W i c = if (i <? j)%nat then fcol k x y z q r M i c else M i c)).
    - intros i' c'. cmp; reflexivity.
    - intros j W Hj IH i' c'. rops. destruct last eqn:El.
      + destruct (Hlast eq_refl) as [-> ->].
        unfold mupd. rewrite !IH. unfold fcol, vv, vec3. cmp; try ring.
      + unfold mupd. rewrite !IH. unfold fcol, vv, vec3. cmp; try ring.
  Qed.
End Loops.

(* ---------- Rcopysign ---------- *)
Lemma Rcs_sq z p : Rcopysign z p * Rcopysign z p = z * z.
Proof.
  unfold Rcopysign. destruct (Rltb p 0).
  - replace (- Rabs z * - Rabs z) with (Rabs z * Rabs z) by ring.
    unfold Rabs. destruct (Rcase_abs z); ring.
  - unfold Rabs. destruct (Rcase_abs z); ring.
Qed.
Lemma Rcs_ps z p : Rcopysign z p <> 0 -> p + Rcopysign z p <> 0.
Proof.
  unfold Rcopysign. destruct (Rltb p 0) eqn:E; intros H.
  - apply Rltb_true in E. pose proof (Rabs_pos z). lra.
  - apply Rltb_false in E. pose proof (Rabs_pos z). lra.
Qed.
Lemma sq3_zero p q r : p * p + q * q + r * r = 0 -> p = 0 /\ q = 0 /\ r = 0.
Proof. intros H. repeat split; nra. Qed.

Lemma Rel_ext n nn first k M A A' :
  (forall i j, (i < n)%nat -> (j < n)%nat -> A i j = A' i j) ->
  Rel n nn first k M A -> Rel n nn first k M A'.
Proof.
  intros HA (Ha & Hb & Hd & He). unfold Rel. split; [|split; [|split]].
  - intros i c Hi Hc Hic. rewrite <- HA by assumption. apply Ha; assumption.
  - intros i c Hi Hc Hic. rewrite <- HA by assumption. apply Hb; assumption.
  - intros i c Hi Hc Hic H1 H2 H3 H4. rewrite <- HA by assumption. apply Hd; assumption.
  - intros H. rewrite <- HA by lia. apply He. exact H.
Qed.

(* when nothing is done at step k (s = 0: column k-1 is already zero below the sub-diagonal) *)
Lemma Rel_skip n nn first k M A : (S k <= nn)%nat -> (nn < n)%nat ->
  Rel n nn first k M A ->
  (first = false -> exists k1, k = S k1 /\ A (S k) k1 = 0 /\ ((S (S k) <= nn)%nat -> A (S (S k)) k1 = 0)) ->
  Rel n nn false (S k) M A.
Proof.
  intros Hk Hnn (Ha & Hb & Hd & He) Hz. unfold Rel. split; [exact Ha|]. split; [|split; [|exact He]].
  - intros i c Hi Hc Hic. rewrite Hb by assumption.
    destruct (bulge nn false (S k) i c) eqn:E2.
    + assert (Hcase : (i <= nn)%nat /\ ((i = S (S k) /\ c = k) \/ (i = S (S (S k)) /\ c = k) \/ (i = S (S (S k)) /\ c = S k))).
      { unfold bulge in E2. cbn [negb andb] in E2.
        apply andb_true_iff in E2. destruct E2 as [E0 E2]. apply Nat.leb_le in E0. split; [exact E0|].
        apply orb_true_iff in E2. destruct E2 as [E2|E2]; [apply orb_true_iff in E2; destruct E2 as [E2|E2]|];
          apply andb_true_iff in E2; destruct E2 as [E3 E4];
          apply Nat.eqb_eq in E3; apply Nat.eqb_eq in E4; lia. }
      destruct Hcase as [Hin [[-> ->]|[[-> ->]|[-> ->]]]].
      * destruct (bulge nn first k (S (S k)) k) eqn:E1; [reflexivity|].
        symmetry. apply Hd; try lia.
        destruct first; [left; reflexivity|]. exfalso.
        unfold bulge in E1. cbn [negb andb] in E1.
        replace ((S (S k) <=? nn)%nat) with true in E1 by (symmetry; apply Nat.leb_le; lia).
        rewrite !Nat.eqb_refl in E1. cbn [andb orb] in E1. rewrite !orb_true_r in E1. discriminate.
      * rewrite bulge_row_false by lia. symmetry. apply Hd; try lia; right; lia.
      * rewrite bulge_row_false by lia. symmetry. apply Hd; try lia; right; lia.
    + destruct (bulge nn first k i c) eqn:E1; [|reflexivity].
      destruct first; [unfold bulge in E1; cbn in E1; discriminate|].
      destruct (Hz eq_refl) as (k1 & Hk1 & Hz1 & Hz2).
      assert (Hcase : (i <= nn)%nat /\ ((i = S k /\ c = k1) \/ (i = S (S k) /\ c = k1) \/ (i = S (S k) /\ c = k))).
      { unfold bulge in E1. cbn [negb andb] in E1.
        apply andb_true_iff in E1. destruct E1 as [E0 E1]. apply Nat.leb_le in E0. split; [exact E0|].
        apply orb_true_iff in E1. destruct E1 as [E1|E1]; [apply orb_true_iff in E1; destruct E1 as [E1|E1]|];
          apply andb_true_iff in E1; destruct E1 as [E3 E4];
          apply Nat.eqb_eq in E3; apply Nat.eqb_eq in E4; lia. }
      destruct Hcase as [Hin [[-> ->]|[[-> ->]|[-> ->]]]].
      * exact Hz1.
      * apply Hz2. exact Hin.
      * exfalso. unfold bulge in E2. cbn [negb andb] in E2.
        replace ((S (S k) <=? nn)%nat) with true in E2 by (symmetry; apply Nat.leb_le; lia).
        rewrite !Nat.eqb_refl in E2. cbn [andb orb] in E2. discriminate.
  - intros i c Hi Hc Hic H1 H2 H3 H4. apply Hd; first [lia | right; destruct H4 as [H4|H4]; [discriminate|lia]].
Qed.

Lemma frow_fcol_comm k x y z q r (M : mat) i j :
  fcol k x y z q r (frow k x y z q r M) i j = frow k x y z q r (fcol k x y z q r M) i j.
Proof. unfold frow, fcol. ring. Qed.

(* ---------- one step of the sweep, canonical form ---------- *)
Section StepRel.
  Variables (n nn k : nat) (first : bool) (p q r xs : R) (A V M : mat).
  Hypothesis Hk : (S k <= nn)%nat.
  Hypothesis Hnn : (nn < n)%nat.
  Hypothesis HRel : Rel n nn first k M A.
  Hypothesis Hr0 : (S k =? nn) = true -> r = 0.
  Hypothesis Hcol : first = false -> exists k1, k = S k1 /\
    A k k1 = xs * p /\ A (S k) k1 = xs * q /\ ((S (S k) <= nn)%nat -> A (S (S k)) k1 = xs * r).
  Hypothesis Hfirst : first = true -> forall c, S c = k -> A k c = 0.

  Definition ks : R := Rcopysign (sqrt (p * p + q * q + r * r)) p.
  Definition A1m : mat := if first then A else mupd A k (pred k) (- ks * xs).
  Definition kform : mat * mat :=
    let last := S k =? nn in
    let s := ks in
    if negb (Reqb s 0) then
      let x := (p + s) / s in let y := q / s in let z := r / s in
      let q' := q / (p + s) in let r' := r / (p + s) in
      (h_cols ROps (S (mmin nn k)) k last x y z q' r' (h_rows ROps n k last x y z q' r' A1m),
       h_cols ROps n k last x y z q' r' V)
    else (A, V).

  Lemma ks_sq : ks * ks = p * p + q * q + r * r.
  Proof. unfold ks. rewrite Rcs_sq. apply sqrt_sqrt. nra. Qed.

  Lemma step_rel : exists M' P,
    Rel n nn false (S k) M' (fst kform) /\ (forall i j, P i j = P j i) /\
    meq n (mmul n P P) mid /\ meq n M' (mmul n P (mmul n M P)) /\
    (forall i j, (i < n)%nat -> (j < n)%nat -> snd kform i j = mmul n V P i j) /\
    Jcomm n nn P /\
    (forall i j, (nn < i)%nat -> fst kform i j = A i j).
  Proof.
    unfold kform. cbv zeta. destruct (Reqb ks 0) eqn:Es; cbn [negb fst snd].
    - (* s = 0: nothing done *)
      apply Reqb_true in Es. pose proof ks_sq as Hss. rewrite Es in Hss.
      destruct (sq3_zero p q r) as (Hp & Hq & Hr); [lra|].
      exists M, mid. split; [|split; [|split; [|split; [|split; [|split]]]]].
      + apply (Rel_skip n nn first k M A Hk Hnn HRel). intros Hf. destruct (Hcol Hf) as (k1 & Hk1 & _ & Hq1 & Hr1).
        exists k1. split; [exact Hk1|]. split.
        * rewrite Hq1, Hq. ring.
        * intros Hl. rewrite (Hr1 Hl), Hr. ring.
      + apply mid_sym.
      + apply mmul_id_l.
      + rewrite (mmul_id_r n M). rewrite (mmul_id_l n M). reflexivity.
      + intros i j Hi Hj. symmetry. apply (mmul_id_r n V); assumption.
      + apply Jcomm_mid.
      + intros i j _. reflexivity.
    - apply Reqb_false in Es. pose proof ks_sq as Hss. pose proof (Rcs_ps _ _ Es) as Hps. fold ks in Hps.
      set (s := ks) in *.
      set (x := (p + s) / s). set (y := q / s). set (z := r / s).
      set (q' := q / (p + s)). set (r' := r / (p + s)).
      assert (Hlast : (nn < S (S k))%nat -> z = 0 /\ r' = 0).
      { intros Hl. assert (E : (S k =? nn) = true) by (apply Nat.eqb_eq; lia).
        pose proof (Hr0 E) as Hrz. unfold z, r'. rewrite Hrz. unfold Rdiv. split; ring. }
      assert (Hlast' : (S k =? nn) = true -> z = 0 /\ r' = 0).
      { intros E. apply Hlast. apply Nat.eqb_eq in E. lia. }
      assert (Hn2 : (S (S k) < n)%nat \/ (z = 0 /\ r' = 0)).
      { destruct (Nat.le_gt_cases (S (S k)) nn); [left; lia|right; apply Hlast; assumption]. }
      assert (Hcol' : first = false -> exists k1, k = S k1 /\
        A k k1 = xs * p /\ A (S k) k1 = xs * q /\ ((S (S k) <= nn)%nat -> A (S (S k)) k1 = xs * r) /\
        ((nn < S (S k))%nat -> r = 0)).
      { intros Hf. destruct (Hcol Hf) as (k1 & H1 & H2 & H3 & H4). exists k1. repeat (split; try assumption).
        intros Hl. apply Hr0. apply Nat.eqb_eq. lia. }
      pose proof (row_step n nn Hnn k first p q r s xs x y z q' r' M A Hk HRel
                    (par_vc p q r s Hss Hps)
                    ltac:(unfold x; field; exact Es) ltac:(unfold y; field; exact Es)
                    ltac:(unfold z; field; exact Es) Hlast Hcol' Hfirst) as HMid.
      pose proof (col_step n nn Hnn k x y z q' r' _ _ Hk HMid Hlast) as HR.
      set (P := hous (uu k x y z) (vv k q' r')).
      exists (fcol k x y z q' r' (frow k x y z q' r' M)), P.
      split; [|split; [|split; [|split; [|split; [|split]]]]].
      + (* the stored array *)
        eapply Rel_ext; [|exact HR]. intros i j Hi Hj.
        rewrite h_cols_spec by exact Hlast'.
        assert (HB : forall a b, (b < n)%nat ->
                  h_rows ROps n k (S k =? nn) x y z q' r' A1m a b
                  = srow k x y z q' r' (A1 k first s xs A) a b).
        { intros a b Hb. rewrite h_rows_spec by exact Hlast'.
          assert (HA1 : forall a' b', A1m a' b' = A1 k first s xs A a' b').
          { intros a' b'. unfold A1m, A1. destruct first eqn:Ef; [reflexivity|].
            destruct (Hcol eq_refl) as (k1 & Hk1 & _). rewrite Hk1. cbn [pred]. unfold mupd. fold s. cmp; reflexivity. }
          unfold srow. destruct (Nat.leb_spec k b) as [Hkb|Hkb]; cbn [andb].
          - destruct (Nat.ltb_spec b (k + (n - k))) as [_|]; [|lia].
            unfold frow. rewrite !HA1. reflexivity.
          - apply HA1. }
        unfold scol. fold (mmin nn k).
        assert (Hfc : forall a, fcol k x y z q' r' (h_rows ROps n k (S k =? nn) x y z q' r' A1m) a j
                      = fcol k x y z q' r' (srow k x y z q' r' (A1 k first s xs A)) a j).
        { intros a. unfold fcol. rewrite !HB by lia.
          destruct Hn2 as [H2|[Hz0 _]].
          - rewrite (HB a (S (S k))) by exact H2. reflexivity.
          - rewrite Hz0. ring. }
        destruct (Nat.leb_spec i (mmin nn k)); destruct (Nat.ltb_spec i (0 + S (mmin nn k))); try lia.
        * symmetry. apply Hfc.
        * symmetry. apply HB. exact Hj.
      + apply hous_sym. intros i j. apply (par_sym k p q r s Es Hps).
      + apply (par_invol k p q r s Es Hss Hps n); [lia|].
        destruct (Nat.le_gt_cases (S (S k)) nn); [left; lia|right; apply Hr0; apply Nat.eqb_eq; lia].
      + assert (H1 : meq n (mmul n M P) (fcol k x y z q' r' M)) by (apply fcol_mmul; [lia|exact Hn2]).
        rewrite H1.
        assert (H2 : meq n (mmul n P (fcol k x y z q' r' M)) (frow k x y z q' r' (fcol k x y z q' r' M)))
          by (apply frow_mmul; [lia|exact Hn2]).
        rewrite H2. intros i j _ _. apply frow_fcol_comm.
      + intros i j Hi Hj. rewrite h_cols_spec by exact Hlast'.
        destruct (Nat.ltb_spec i (0 + n)); [|lia].
        symmetry. apply fcol_mmul; [lia|exact Hn2|exact Hi|exact Hj].
      + apply Jcomm_hous. destruct (Nat.le_gt_cases (S (S k)) nn) as [Hl|Hl]; [left; exact Hl|right].
        split; [exact Hk|apply Hlast; exact Hl].
      + intros i j Hi. rewrite h_cols_spec by exact Hlast'.
        assert (Hm : (mmin nn k <= nn)%nat) by (unfold mmin; destruct (Nat.ltb_spec nn (S (S (S k)))); lia).
        destruct (Nat.ltb_spec i (0 + S (mmin nn k))); [lia|].
        rewrite h_rows_spec by exact Hlast'.
        assert (HA1 : A1m i j = A i j).
        { unfold A1m. destruct first; [reflexivity|]. apply mupd_neq. lia. }
        destruct ((k <=? j)%nat && (j <? k + (n - k))%nat); [|exact HA1].
        unfold frow, uu. destruct (Nat.eq_dec i (S (S k))) as [->|Hne].
        * rewrite vec3_2. destruct (Hlast ltac:(lia)) as [-> _]. rewrite HA1. ring.
        * rewrite vec3_out by lia. rewrite HA1. ring.
  Qed.
End StepRel.
