(* C02 — closed forms (entry by entry) of the loops of the models of elmhes/eltran (ModelHess.v) over the
   reals, and the specification of the pivot search. *)
From Coq Require Import List Arith Bool Lia Reals Lra Psatz.
From SC Require Import Base.Num C02.FunMat C02.ModelHess C02.ProofsHessAlg.
Local Open Scope R_scope.

Ltac rops := cbn [o0 o1 oadd osub omul odiv oneg oabs oltb oleb oeqb ROps].

Lemma forn_snoc {St : Type} (body : nat -> St -> St) : forall len lo s,
  forn lo (S len) body s = body (lo + len)%nat (forn lo len body s).
Proof.
  induction len as [|l IH]; intros lo s.
  - cbn [forn]. rewrite Nat.add_0_r. reflexivity.
  - change (forn lo (S (S l)) body s) with (forn (S lo) (S l) body (body lo s)).
    rewrite IH. cbn [forn]. replace (S lo + l)%nat with (lo + S l)%nat by lia. reflexivity.
Qed.

(* ------------------------------------------------------------------------------------------ *)
(* swaps (any element type)                                                                     *)
(* ------------------------------------------------------------------------------------------ *)
Lemma swap_rows_spec {T : Type} lo len i m (A : nat -> nat -> T) r c :
  swap_rows lo len i m A r c =
  if (lo <=? c) && (c <? lo + len)
  then (if r =? m then A i c else if r =? i then A m c else A r c)
  else A r c.
Proof.
  revert r c. unfold swap_rows.
  apply (forn_ind (fun k (S : nat -> nat -> T) => forall r c,
           S r c = if (lo <=? c) && (c <? k)
                   then (if r =? m then A i c else if r =? i then A m c else A r c)
                   else A r c)).
  - intros r c. bd; reflexivity.
  - intros k S Hk IH r c. cbv zeta. unfold mupd. rewrite !IH.
    bd; try reflexivity; try (f_equal; lia).
Qed.

Lemma swap_cols_spec {T : Type} n i m (A : nat -> nat -> T) r c :
  swap_cols n i m A r c =
  if r <? n
  then (if c =? m then A r i else if c =? i then A r m else A r c)
  else A r c.
Proof.
  revert r c. unfold swap_cols.
  change n with (0 + n)%nat at 2.
  apply (forn_ind (fun k (S : nat -> nat -> T) => forall r c,
           S r c = if r <? k
                   then (if c =? m then A r i else if c =? i then A r m else A r c)
                   else A r c)).
  - intros r c. bd; reflexivity.
  - intros k S Hk IH r c. cbv zeta. unfold mupd. rewrite !IH.
    bd; try reflexivity; try (f_equal; lia).
Qed.

(* ------------------------------------------------------------------------------------------ *)
(* pivot search over R                                                                          *)
(* ------------------------------------------------------------------------------------------ *)
Lemma Rabs_le_0 a : Rabs a <= Rabs 0 -> a = 0.
Proof.
  intros H. rewrite Rabs_R0 in H. destruct (Req_dec a 0) as [E|E]; [exact E|].
  pose proof (Rabs_pos_lt a E). lra.
Qed.

Lemma pivot_spec n m (A : mat) :
  (m < n)%nat ->
  let xp := elm_pivot ROps n m A in
  (m <= snd xp < n)%nat /\
  fst xp = A (snd xp) (m - 1)%nat /\
  (fst xp = 0 -> forall j, (m <= j < n)%nat -> A j (m - 1)%nat = 0).
Proof.
  intros Hm.
  assert (HI : (fun k (s : R * nat) =>
     (m <= snd s)%nat /\ ((snd s < k)%nat \/ snd s = m) /\
     (forall j, (m <= j < k)%nat -> Rabs (A j (m - 1)%nat) <= Rabs (fst s)) /\
     (fst s = A (snd s) (m - 1)%nat \/ (fst s = 0 /\ snd s = m))) (m + (n - m))%nat (elm_pivot ROps n m A)).
  { unfold elm_pivot. apply forn_ind.
    - cbn [fst snd]. rops. split; [lia|]. split; [right; reflexivity|].
      split; [intros j Hj; exfalso; lia|]. right. split; reflexivity.
    - intros k [x p] Hk (H1 & H2 & H3 & H4). cbn [fst snd] in *. rops.
      destruct (Rltb (Rabs x) (Rabs (A k (m - 1)%nat))) eqn:E; cbn [fst snd].
      + apply Rltb_true in E. clear H4.
        split; [lia|]. split; [left; lia|]. split; [|left; reflexivity].
        intros j Hj. destruct (Nat.eq_dec j k) as [->|Hne]; [apply Rle_refl|].
        pose proof (H3 j ltac:(lia)) as H3j. clear - H3j E. lra.
      + apply Rltb_false in E.
        split; [exact H1|]. split; [|split; [|exact H4]]; clear H4.
        * lia.
        * intros j Hj. destruct (Nat.eq_dec j k) as [->|Hne]; [exact E|].
          apply H3. lia. }
  cbv beta in HI. replace (m + (n - m))%nat with n in HI by lia.
  destruct HI as (H1 & H2 & H3 & H4). cbv zeta.
  assert (Hx : fst (elm_pivot ROps n m A) = A (snd (elm_pivot ROps n m A)) (m - 1)%nat).
  { destruct H4 as [H4|[H4 H5]]; [exact H4|].
    rewrite H5, H4. symmetry. apply Rabs_le_0. rewrite <- H4. apply H3. clear - Hm. lia. }
  clear H4.
  split; [lia|]. split; [exact Hx|].
  intros H0 j Hj. apply Rabs_le_0. rewrite <- H0. apply H3. exact Hj.
Qed.

(* ------------------------------------------------------------------------------------------ *)
(* the elimination loops over R                                                                 *)
(* ------------------------------------------------------------------------------------------ *)
Lemma elim_row_spec n m i y (A : mat) r c :
  i <> m ->
  elm_elim_row ROps n m i y A r c =
  if (r =? i) && (m <=? c) && (c <? m + (n - m)) then A i c - y * A m c else A r c.
Proof.
  intros Him. revert r c. unfold elm_elim_row.
  apply (forn_ind (fun k (S : mat) => forall r c,
           S r c = if (r =? i) && (m <=? c) && (c <? k) then A i c - y * A m c else A r c)).
  - intros r c. bd; reflexivity.
  - intros k S Hk IH r c. cbv zeta. rops. unfold mupd. rewrite !IH.
    bd; try reflexivity; try (subst; reflexivity).
Qed.

Lemma elim_col_spec n m i y (A : mat) r c :
  i <> m ->
  elm_elim_col ROps n m i y A r c =
  if (c =? m) && (r <? n) then A r m + y * A r i else A r c.
Proof.
  intros Him. revert r c. unfold elm_elim_col.
  change n with (0 + n)%nat at 2.
  apply (forn_ind (fun k (S : mat) => forall r c,
           S r c = if (c =? m) && (r <? k) then A r m + y * A r i else A r c)).
  - intros r c. bd; reflexivity.
  - intros k S Hk IH r c. cbv zeta. rops. unfold mupd. rewrite !IH.
    bd; try reflexivity; try (subst; reflexivity).
Qed.

(* one iteration of `for i in (m+1)..n`, entry by entry, with y = C[i][m-1] / x (for y = 0 the
   iteration is skipped by the code, and the formula gives C back) *)
Definition elimF (n m i : nat) (y : R) (C : mat) : mat :=
  fun r c =>
    let C1 := mupd C i (m - 1)%nat y in
    let C2 := fun r c => if (r =? i) && (m <=? c) && (c <? n) then C1 i c - y * C1 m c else C1 r c in
    if (c =? m) && (r <? n) then C2 r m + y * C2 r i else C2 r c.

Lemma elim_body_spec n m x i (C : mat) r c :
  i <> m -> (1 <= m <= n)%nat ->
  elm_elim_body ROps n m x i C r c = elimF n m i (C i (m - 1)%nat / x) C r c.
Proof.
  intros Him Hmn. unfold elm_elim_body. rops.
  destruct (Reqb (C i (m - 1)%nat) 0) eqn:E; cbn [negb].
  - apply Reqb_true in E. unfold elimF. rewrite E. unfold mupd.
    replace (0 / x) with 0 by (unfold Rdiv; ring).
    bd; subst; rewrite ?E; ring.
  - rewrite elim_col_spec, !elim_row_spec by exact Him.
    replace (m + (n - m))%nat with n by lia. unfold elimF. reflexivity.
Qed.

(* below column m the iteration only writes the multiplier *)
Lemma elimF_low n m i y (C : mat) r c :
  (c < m)%nat -> elimF n m i y C r c = if (r =? i) && (c =? m - 1) then y else C r c.
Proof. intros Hc. unfold elimF, mupd. bd; reflexivity. Qed.

(* ------------------------------------------------------------------------------------------ *)
(* eltran loops over R                                                                          *)
(* ------------------------------------------------------------------------------------------ *)
Lemma elt_col_spec n mp (A V : mat) r c :
  elt_col n mp A V r c =
  if (c =? mp) && (mp + 1 <=? r) && (r <? mp + 1 + (n - (mp + 1))) then A r (mp - 1)%nat else V r c.
Proof.
  revert r c. unfold elt_col.
  apply (forn_ind (fun k (S : mat) => forall r c,
           S r c = if (c =? mp) && (mp + 1 <=? r) && (r <? k) then A r (mp - 1)%nat else V r c)).
  - intros r c. bd; reflexivity.
  - intros k S Hk IH r c. cbv zeta. unfold mupd. rewrite !IH.
    bd; try reflexivity; try (subst; reflexivity).
Qed.

Lemma elt_swap_spec n mp i (V : mat) r c :
  i <> mp ->
  elt_swap ROps n mp i V r c =
  if (r =? i) && (c =? mp) then 1
  else if (mp <=? c) && (c <? mp + (n - mp))
       then (if r =? i then 0 else if r =? mp then V i c else V r c)
       else V r c.
Proof.
  intros Hi. unfold elt_swap. rops. unfold mupd at 1.
  destruct ((r =? i) && (c =? mp)); [reflexivity|].
  revert r c.
  apply (forn_ind (fun k (S : mat) => forall r c,
           S r c = if (mp <=? c) && (c <? k)
                   then (if r =? i then 0 else if r =? mp then V i c else V r c)
                   else V r c)).
  - intros r c. bd; reflexivity.
  - intros k S Hk IH r c. cbv zeta. unfold mupd. rewrite !IH.
    bd; try reflexivity; try (subst; reflexivity).
Qed.
