(* C02 — the general clause as an unconditional partial-correctness lemma: both halves of hqr2 satisfy
   their contracts (ProofsHqr2SweepFinal.v, ProofsGenEvdVec.v), composed by ProofsGenEvd.v. *)
From Coq Require Import List Arith Bool Reals.
From SC Require Import Base.Num C02.Model C02.Validator C02.FunMat C02.ModelGenEvd
  C02.ProofsHqr2SweepFinal C02.ProofsGenEvd C02.ProofsGenEvdVec.
Local Open Scope R_scope.

Lemma sweeps_contract_holds : sweeps_contract.
Proof. exact hqr2_sweeps_partial_correct. Qed.

Lemma evd_gen_partial_correct (t095 : R) (sweeps fuel : nat) (A : list (list R)) V d e :
  let n := length A in
  square n A ->
  evd_gen_model ROps Rcopysign t095 0 sweeps fuel A = Some (V, d, e, true) ->
  evd_gen_ok 0 0 0 A V d e.
Proof. exact (evd_gen_partial_correct_from sweeps_contract_holds vectors_contract_holds t095 sweeps fuel A V d e). Qed.
