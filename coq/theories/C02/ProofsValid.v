(* C02 — soundness of the validators: `check_evd_sym ... = true` / `check_evd_gen ... = true`
   imply the real-number statements `evd_sym_ok` / `evd_gen_ok` about the exact values of the floats. *)
From Coq Require Import List Arith ZArith QArith Qabs Qreals Reals Bool Floats Lia Lra.
From SC Require Import C02.Validator.
Import ListNotations.
Close Scope Q_scope.
Local Open Scope R_scope.

(* ---------- scalars ---------- *)
Lemma Q2R_zero : Q2R 0%Q = 0.
Proof. unfold Q2R; cbn; lra. Qed.
Lemma Q2R_one : Q2R 1%Q = 1.
Proof. unfold Q2R; cbn; lra. Qed.
Lemma Q2R_qadd a b : Q2R (qadd a b) = Q2R a + Q2R b.
Proof. unfold qadd. rewrite (Qeq_eqR _ _ (Qred_correct _)). apply Q2R_plus. Qed.
Lemma Q2R_qsub a b : Q2R (qsub a b) = Q2R a - Q2R b.
Proof. unfold qsub. rewrite (Qeq_eqR _ _ (Qred_correct _)). apply Q2R_minus. Qed.
Lemma Q2R_qmul a b : Q2R (qmul a b) = Q2R a * Q2R b.
Proof. unfold qmul. rewrite (Qeq_eqR _ _ (Qred_correct _)). apply Q2R_mult. Qed.
Lemma Q2R_Qabs a : Q2R (Qabs a) = Rabs (Q2R a).
Proof.
  apply Qabs_case; intros H.
  - apply Qle_Rle in H. rewrite Q2R_zero in H. rewrite Rabs_right; lra.
  - apply Qle_Rle in H. rewrite Q2R_zero in H. rewrite Q2R_opp. rewrite Rabs_left1; lra.
Qed.
Lemma Qle_bool_R a b : Qle_bool a b = true -> Q2R a <= Q2R b.
Proof. intros H. apply Qle_Rle. apply Qle_bool_iff. exact H. Qed.
Lemma Qle_bool_R_false a b : Qle_bool a b = false -> Q2R b < Q2R a.
Proof.
  intros H. apply Qlt_Rlt. apply Qnot_le_lt. intros C. apply Qle_bool_iff in C. congruence.
Qed.
Lemma Q2R_qmax a b : Q2R (qmax a b) = Rmax (Q2R a) (Q2R b).
Proof.
  unfold qmax. destruct (Qle_bool a b) eqn:E.
  - apply Qle_bool_R in E. rewrite Rmax_right; auto.
  - apply Qle_bool_R_false in E. rewrite Rmax_left; lra.
Qed.
Lemma Qeq_bool_R a b : Qeq_bool a b = true -> Q2R a = Q2R b.
Proof. intros H. apply Qeq_eqR. apply Qeq_bool_iff. exact H. Qed.
Lemma Qeq_bool_R_false a b : Qeq_bool a b = false -> Q2R a <> Q2R b.
Proof. intros H C. apply eqR_Qeq in C. apply Qeq_bool_iff in C. congruence. Qed.
Lemma R_Qeq_bool a b : Q2R a = Q2R b -> Qeq_bool a b = true.
Proof. intros H. apply Qeq_bool_iff. apply eqR_Qeq. exact H. Qed.

(* ---------- vectors and matrices ---------- *)
Notation M := (map Q2R).
Notation MM := (map (map Q2R)).

Lemma nth_M (l : list Q) j : nth j (M l) 0 = Q2R (nth j l 0%Q).
Proof. rewrite <- Q2R_zero. apply map_nth. Qed.
Lemma nth_MM (A : list (list Q)) i : nth i (MM A) [] = M (nth i A []).
Proof. change (@nil R) with (M []). apply map_nth. Qed.

Lemma dot_M u v : rdot (M u) (M v) = Q2R (qdot u v).
Proof.
  unfold rdot, qdot. revert v; induction u as [|a u IH]; intros [|b v]; cbn [map dot]; try (symmetry; apply Q2R_zero).
  rewrite Q2R_qadd, Q2R_qmul, IH. reflexivity.
Qed.
Lemma col_M j (A : list (list Q)) : rcol j (MM A) = M (qcol j A).
Proof.
  unfold rcol, qcol, col. rewrite !map_map. apply map_ext. intros r. apply nth_M.
Qed.
Lemma vmax_M v : rvmax (M v) = Q2R (qvmax v).
Proof.
  unfold rvmax, qvmax, vmax. induction v as [|a v IH]; cbn [map fold_right]; [symmetry; apply Q2R_zero|].
  rewrite Q2R_qmax, Q2R_Qabs, IH. reflexivity.
Qed.
Lemma mmax_M (A : list (list Q)) : rmmax (MM A) = Q2R (qmmax A).
Proof.
  unfold rmmax, qmmax, mmax. induction A as [|r A IH]; cbn [map fold_right]; [symmetry; apply Q2R_zero|].
  rewrite Q2R_qmax. f_equal; [apply vmax_M | apply IH].
Qed.
Lemma lsum_M v : rlsum (M v) = Q2R (qlsum v).
Proof.
  unfold rlsum, qlsum, lsum. induction v as [|a v IH]; cbn [map fold_right]; [symmetry; apply Q2R_zero|].
  rewrite Q2R_qadd, IH. reflexivity.
Qed.
Lemma trace_M (A : list (list Q)) : rtrace (MM A) = Q2R (qtrace A).
Proof.
  unfold rtrace, qtrace, trace. fold rlsum. fold qlsum. rewrite <- lsum_M.
  rewrite map_length, map_map. f_equal. apply map_ext. intros i.
  rewrite nth_MM. apply nth_M.
Qed.
Lemma trace2_M (A : list (list Q)) : rtrace2 (MM A) = Q2R (qtrace2 A).
Proof.
  unfold rtrace2, qtrace2, trace2. fold rlsum. fold qlsum. rewrite <- lsum_M.
  rewrite map_length, map_map. f_equal. apply map_ext. intros i.
  fold rdot. fold qdot. fold rcol. fold qcol.
  rewrite nth_MM, col_M. apply dot_M.
Qed.
Lemma resid_M (A : list (list Q)) v lam i :
  rresid (MM A) (M v) (Q2R lam) i = Q2R (qresid A v lam i).
Proof.
  unfold rresid, qresid, resid. fold rdot. fold qdot.
  rewrite Q2R_qsub, Q2R_qmul, nth_MM, dot_M, nth_M. reflexivity.
Qed.
Lemma gram_M (V : list (list Q)) i j : rgram (MM V) i j = Q2R (qgram V i j).
Proof.
  unfold rgram, qgram, gram. fold rdot. fold qdot. fold rcol. fold qcol.
  rewrite Q2R_qsub, !col_M, dot_M. destruct (i =? j)%nat; [rewrite Q2R_one|rewrite Q2R_zero]; reflexivity.
Qed.
Lemma combine_M d e :
  combine (M d) (M e) = map (fun p => (Q2R (fst p), Q2R (snd p))) (combine d e).
Proof. revert e; induction d as [|a d IH]; intros [|b e]; cbn; auto. f_equal. apply IH. Qed.
Lemma sqsum_M d e : rsqsum (M d) (M e) = Q2R (qsqsum d e).
Proof.
  unfold rsqsum, qsqsum, sqsum. fold rlsum. fold qlsum. rewrite <- lsum_M.
  rewrite combine_M, !map_map. f_equal. apply map_ext. intros [a b]. cbn [fst snd].
  rewrite Q2R_qsub, !Q2R_qmul. reflexivity.
Qed.

Lemma square_M n (A : list (list Q)) : square_b n A = true -> square n (MM A).
Proof.
  unfold square_b, square. intros H. apply andb_prop in H. destruct H as [H1 H2].
  apply Nat.eqb_eq in H1. split; [rewrite map_length; exact H1|].
  intros r Hr. apply in_map_iff in Hr. destruct Hr as (r0 & <- & Hr0).
  rewrite map_length. rewrite forallb_forall in H2. apply Nat.eqb_eq. apply H2. exact Hr0.
Qed.

Lemma forallb_seq (f : nat -> bool) n : forallb f (seq 0 n) = true -> forall i, (i < n)%nat -> f i = true.
Proof. intros H i Hi. rewrite forallb_forall in H. apply H. apply in_seq. lia. Qed.

(* ---------- symmetric validator ---------- *)
Lemma check_sym_q_sound : forall tol A V d e,
  check_sym_q tol A V d e = true ->
  evd_sym_ok (Q2R tol) (MM A) (MM V) (M d) (M e).
Proof.
  intros tol A V d e H. unfold check_sym_q in H.
  apply andb_prop in H; destruct H as [H Cz].
  apply andb_prop in H; destruct H as [H Co].
  apply andb_prop in H; destruct H as [H Cg].
  apply andb_prop in H; destruct H as [H Cr].
  apply andb_prop in H; destruct H as [H Cle].
  apply andb_prop in H; destruct H as [H Cld].
  apply andb_prop in H; destruct H as [CA CV].
  unfold evd_sym_ok. rewrite !map_length.
  apply Nat.eqb_eq in Cld. apply Nat.eqb_eq in Cle.
  split; [apply square_M; exact CA|]. split; [apply square_M; exact CV|].
  split; [exact Cld|]. split; [exact Cle|]. split; [|split; [|split]].
  - intros i j Hi Hj.
    pose proof (forallb_seq _ _ (forallb_seq _ _ Cr j Hj) i Hi) as G. cbv beta in G.
    apply Qle_bool_R in G. rewrite Q2R_Qabs, Q2R_qmul in G.
    rewrite col_M, nth_M, resid_M, mmax_M. exact G.
  - intros i j Hi Hj.
    pose proof (forallb_seq _ _ (forallb_seq _ _ Cg i Hi) j Hj) as G. cbv beta in G.
    apply Qle_bool_R in G. rewrite Q2R_Qabs in G. rewrite gram_M. exact G.
  - intros j Hj.
    assert (Hj' : (j < length A - 1)%nat) by lia.
    pose proof (forallb_seq _ _ Co j Hj') as G. cbv beta in G.
    apply Qle_bool_R in G. rewrite !nth_M. exact G.
  - intros x Hx. apply in_map_iff in Hx. destruct Hx as (q & <- & Hq).
    rewrite forallb_forall in Cz. specialize (Cz q Hq). apply Qeq_bool_R in Cz.
    rewrite Cz. apply Q2R_zero.
Qed.

(* ---------- conjugate pairing ---------- *)
Lemma remove_first_spec {A} (p : A -> bool) : forall l l',
  remove_first p l = Some l' -> exists l1 a l2, l = l1 ++ a :: l2 /\ p a = true /\ l' = l1 ++ l2.
Proof.
  induction l as [|a l IH]; intros l' H; cbn in H; [discriminate|].
  destruct (p a) eqn:E.
  - inversion H; subst. exists [], a, l'. auto.
  - destruct (remove_first p l) as [t|] eqn:R; [|discriminate]. inversion H; subst.
    destruct (IH t eq_refl) as (l1 & b & l2 & H1 & H2 & H3). subst.
    exists (a :: l1), b, l2. auto.
Qed.

Definition MP (p : Q * Q) : R * R := (Q2R (fst p), Q2R (snd p)).

Lemma conj_paired_sound : forall fuel l, conj_paired_b fuel l = true -> ConjPaired (map MP l).
Proof.
  induction fuel as [|k IH]; intros l H; cbn in H; [discriminate|].
  destruct l as [|[x y] t]; [constructor|].
  destruct (Qeq_bool y 0%Q) eqn:Ey.
  - apply Qeq_bool_R in Ey. rewrite Q2R_zero in Ey.
    cbn [map]. unfold MP at 1. cbn [fst snd]. rewrite Ey. constructor. apply IH. exact H.
  - apply Qeq_bool_R_false in Ey. rewrite Q2R_zero in Ey.
    destruct (remove_first _ t) as [t'|] eqn:R; [|discriminate].
    apply remove_first_spec in R. destruct R as (l1 & a & l2 & H1 & H2 & H3). subst t t'.
    apply andb_prop in H2. destruct H2 as [Ha Hb].
    apply Qeq_bool_R in Ha. apply Qeq_bool_R in Hb. rewrite Q2R_opp in Hb.
    cbn [map]. rewrite map_app. cbn [map]. unfold MP at 1 3. cbn [fst snd].
    rewrite Ha, Hb. apply CP_pair; [exact Ey|]. rewrite <- map_app. apply IH. exact H.
Qed.

(* ---------- general validator ---------- *)
Lemma check_gen_q_sound : forall tol1 tol2 tolv A V d e,
  check_gen_q tol1 tol2 tolv A V d e = true ->
  evd_gen_ok (Q2R tol1) (Q2R tol2) (Q2R tolv) (MM A) (MM V) (M d) (M e).
Proof.
  intros tol1 tol2 tolv A V d e H. unfold check_gen_q in H.
  apply andb_prop in H; destruct H as [H Cv].
  apply andb_prop in H; destruct H as [H Ct2].
  apply andb_prop in H; destruct H as [H Ct1].
  apply andb_prop in H; destruct H as [H Cp].
  apply andb_prop in H; destruct H as [H Cle].
  apply andb_prop in H; destruct H as [H Cld].
  apply andb_prop in H; destruct H as [CA CV].
  unfold evd_gen_ok. rewrite !map_length.
  apply Nat.eqb_eq in Cld. apply Nat.eqb_eq in Cle.
  split; [apply square_M; exact CA|]. split; [apply square_M; exact CV|].
  split; [exact Cld|]. split; [exact Cle|]. split; [|split; [|split]].
  - rewrite combine_M. apply (conj_paired_sound _ _ Cp).
  - apply Qle_bool_R in Ct1. rewrite Q2R_Qabs, Q2R_qsub, Q2R_qmul in Ct1.
    rewrite lsum_M, trace_M, mmax_M. exact Ct1.
  - apply Qle_bool_R in Ct2. rewrite Q2R_Qabs, Q2R_qsub, !Q2R_qmul in Ct2.
    rewrite sqsum_M, trace2_M, mmax_M. exact Ct2.
  - intros j Hj Hej.
    pose proof (forallb_seq _ _ Cv j Hj) as G. cbv beta in G.
    rewrite nth_M in Hej. rewrite <- Q2R_zero in Hej. apply R_Qeq_bool in Hej. rewrite Hej in G.
    apply andb_prop in G. destruct G as [G1 G2].
    rewrite col_M, vmax_M. split.
    + apply negb_true_iff in G1. apply Qle_bool_R_false in G1. rewrite Q2R_zero in G1. exact G1.
    + intros i Hi. pose proof (forallb_seq _ _ G2 i Hi) as G. cbv beta in G.
      apply Qle_bool_R in G. rewrite Q2R_Qabs, !Q2R_qmul in G.
      rewrite nth_M, resid_M, mmax_M. exact G.
Qed.

(* ---------- floats ---------- *)
Lemma flistQ_sound : forall l q, flistQ l = Some q -> map F2R l = M q /\ Forall ffinite l.
Proof.
  induction l as [|x l IH]; intros q H; cbn in H.
  - inversion H; subst. split; constructor.
  - destruct (F2Q x) as [a|] eqn:E; [|discriminate].
    destruct (flistQ l) as [r|] eqn:E2; [|discriminate]. inversion H; subst.
    destruct (IH r eq_refl) as [H1 H2]. split.
    + cbn. unfold F2R at 1. rewrite E, H1. reflexivity.
    + constructor; auto. unfold ffinite. rewrite E. discriminate.
Qed.

Lemma fmatQ_sound : forall A q, fmatQ A = Some q ->
  map (map F2R) A = MM q /\ Forall (Forall ffinite) A.
Proof.
  induction A as [|r A IH]; intros q H; cbn in H.
  - inversion H; subst. split; constructor.
  - destruct (flistQ r) as [a|] eqn:E; [|discriminate].
    destruct (fmatQ A) as [m|] eqn:E2; [|discriminate]. inversion H; subst.
    destruct (IH m eq_refl) as [H1 H2]. destruct (flistQ_sound _ _ E) as [H3 H4]. split.
    + cbn. rewrite H3, H1. reflexivity.
    + constructor; auto.
Qed.

Lemma F2R_some x q : F2Q x = Some q -> F2R x = Q2R q.
Proof. intros H. unfold F2R. rewrite H. reflexivity. Qed.

Definition all_finite (A V : list (list float)) (d e : list float) : Prop :=
  Forall (Forall ffinite) A /\ Forall (Forall ffinite) V /\ Forall ffinite d /\ Forall ffinite e.

Lemma check_evd_sym_sound : forall tol A V d e,
  check_evd_sym tol A V d e = true ->
  all_finite A V d e /\
  evd_sym_ok (F2R tol) (map (map F2R) A) (map (map F2R) V) (map F2R d) (map F2R e).
Proof.
  intros tol A V d e H. unfold check_evd_sym in H.
  destruct (F2Q tol) as [t|] eqn:Et; [|discriminate].
  destruct (fmatQ A) as [a|] eqn:EA; [|discriminate].
  destruct (fmatQ V) as [v|] eqn:EV; [|discriminate].
  destruct (flistQ d) as [dq|] eqn:Ed; [|discriminate].
  destruct (flistQ e) as [eq|] eqn:Ee; [|discriminate].
  destruct (fmatQ_sound _ _ EA) as [A1 A2]. destruct (fmatQ_sound _ _ EV) as [V1 V2].
  destruct (flistQ_sound _ _ Ed) as [D1 D2]. destruct (flistQ_sound _ _ Ee) as [E1 E2].
  split; [repeat split; assumption|].
  rewrite A1, V1, D1, E1, (F2R_some _ _ Et). apply check_sym_q_sound. exact H.
Qed.

Lemma check_evd_gen_sound : forall tol1 tol2 tolv A V d e,
  check_evd_gen tol1 tol2 tolv A V d e = true ->
  all_finite A V d e /\
  evd_gen_ok (F2R tol1) (F2R tol2) (F2R tolv)
             (map (map F2R) A) (map (map F2R) V) (map F2R d) (map F2R e).
Proof.
  intros tol1 tol2 tolv A V d e H. unfold check_evd_gen in H.
  destruct (F2Q tol1) as [t1|] eqn:Et1; [|discriminate].
  destruct (F2Q tol2) as [t2|] eqn:Et2; [|discriminate].
  destruct (F2Q tolv) as [tv|] eqn:Etv; [|discriminate].
  destruct (fmatQ A) as [a|] eqn:EA; [|discriminate].
  destruct (fmatQ V) as [v|] eqn:EV; [|discriminate].
  destruct (flistQ d) as [dq|] eqn:Ed; [|discriminate].
  destruct (flistQ e) as [eq|] eqn:Ee; [|discriminate].
  destruct (fmatQ_sound _ _ EA) as [A1 A2]. destruct (fmatQ_sound _ _ EV) as [V1 V2].
  destruct (flistQ_sound _ _ Ed) as [D1 D2]. destruct (flistQ_sound _ _ Ee) as [E1 E2].
  split; [repeat split; assumption|].
  rewrite A1, V1, D1, E1, (F2R_some _ _ Et1), (F2R_some _ _ Et2), (F2R_some _ _ Etv).
  apply check_gen_q_sound. exact H.
Qed.

(* ---------- what the statements mean ---------- *)
(* a positive max-norm exhibits a non-zero entry *)
Lemma rvmax_pos_nonzero : forall v, 0 < rvmax v -> exists i, nth i v 0 <> 0.
Proof.
  unfold rvmax, vmax. induction v as [|a v IH]; cbn; intros H; [lra|].
  destruct (Rle_dec (Rabs a) 0) as [Ha|Ha].
  - rewrite Rmax_right in H.
    + destruct (IH H) as [i Hi]. exists (S i). exact Hi.
    + eapply Rle_trans; [exact Ha|]. clear. induction v as [|b v IH]; cbn; [lra|].
      eapply Rle_trans; [exact IH|]. apply Rmax_r.
  - exists 0%nat. cbn. intros C. subst a. rewrite Rabs_R0 in Ha. lra.
Qed.

(* with tolerance zero the symmetric statement is an exact orthonormal eigen-decomposition *)
Lemma evd_sym_ok_exact : forall A V d e,
  evd_sym_ok 0 A V d e ->
  forall i j, (i < length A)%nat -> (j < length A)%nat ->
    rdot (nth i A []) (rcol j V) = nth j d 0 * nth i (rcol j V) 0 /\
    rdot (rcol i V) (rcol j V) = (if (i =? j)%nat then 1 else 0).
Proof.
  intros A V d e (_ & _ & _ & _ & H1 & H2 & _) i j Hi Hj.
  specialize (H1 i j Hi Hj). specialize (H2 i j Hi Hj).
  unfold rresid, resid in H1. unfold rgram, gram in H2. fold rdot in *. fold rcol in *.
  rewrite Rmult_0_l in H1.
  pose proof (Rabs_pos (rdot (nth i A []) (rcol j V) - nth j d 0 * nth i (rcol j V) 0)) as P1.
  pose proof (Rabs_pos (rdot (rcol i V) (rcol j V) - (if (i =? j)%nat then 1 else 0))) as P2.
  assert (Z : forall x, Rabs x <= 0 -> x = 0).
  { intros x Hx. destruct (Req_dec x 0) as [E|E]; auto. pose proof (Rabs_pos_lt x E). lra. }
  split.
  - apply Rminus_diag_uniq. apply Z. lra.
  - apply Rminus_diag_uniq. apply Z. lra.
Qed.

(* the conjugate-pair structure forces the imaginary parts to cancel *)
Lemma conj_paired_im_sum : forall l, ConjPaired l -> rlsum (map snd l) = 0.
Proof.
  unfold rlsum, lsum.
  assert (G : forall (a b : list R) c, fold_right Rplus 0 (a ++ c :: b) = c + fold_right Rplus 0 (a ++ b)).
  { induction a as [|x a IH]; intros b c; cbn; [lra|]. rewrite IH. lra. }
  induction 1 as [|x l H IH|x y l1 l2 Hy H IH].
  - reflexivity.
  - cbn. lra.
  - cbn [map fold_right snd]. rewrite map_app. cbn [map snd]. rewrite G.
    rewrite map_app in IH. lra.
Qed.
