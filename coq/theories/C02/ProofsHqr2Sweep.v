(* C02 — hqr2, first half, over R (copysign := Rcopysign, eps := 0): PARTIAL correctness of
   `hqr2_sweeps` — if it returns, the working array is quasi-triangular as recorded in (d, e) and is
   orthogonally similar to the upper Hessenberg part of the input, the transformation being accumulated
   in V.  Convergence (that a result is returned within 30 sweeps per deflation) is NOT proved.
   Here the real-pair deflation enters as the hypothesis `real_pair_deflation_statement`
   (ProofsHqr2SweepDefl.v); it is proved in ProofsHqr2SweepReal.v and the unconditional lemma
   `hqr2_sweeps_partial_correct` is in ProofsHqr2SweepFinal.v. *)
From Coq Require Import List Arith Bool Lia Reals Lra Psatz Setoid Morphisms.
From SC Require Import Base.Num C02.FunMat C02.Model C02.ModelTql2 C02.ModelHqr2Spec C02.ModelHqr2Sweep
  C02.ProofsHouse C02.ProofsHqr2SweepAlg C02.ProofsHqr2SweepJ C02.ProofsHqr2SweepStep
  C02.ProofsHqr2SweepLoop C02.ProofsHqr2SweepSpecs C02.ProofsHqr2SweepPass C02.ProofsHqr2SweepDefl.
Local Open Scope R_scope.

Lemma vtab_eqR n (v : nat -> R) a : (a < n)%nat -> vtab ROps n v a = v a.
Proof. intros Ha. unfold vtab, vfun. apply nth_vlist. exact Ha. Qed.

Lemma GoodC_ext n U0 V0 na A V d e t A' V' d' e' :
  GoodC n U0 V0 na A V d e t ->
  (forall i j, (i < n)%nat -> (j < n)%nat -> A' i j = A i j) -> meqv n V' V ->
  (forall i, (i < n)%nat -> d' i = d i) -> (forall i, (i < n)%nat -> e' i = e i) ->
  GoodC n U0 V0 na A' V' d' e' t.
Proof.
  intros [HS HT] HA HV Hd He. split.
  - eapply Sim_same; [exact HS|exact HV|]. apply hlog_ext. intros r c Hr Hc _. symmetry. apply HA; assumption.
  - apply (Tail_frame n na A d e); try assumption.
    + intros; apply HA; assumption.
    + intros i Hi _. split; [apply Hd|apply He]; assumption.
    + intros i H1 H2. rewrite He by assumption. destruct HT as (T1 & _). apply T1; assumption.
Qed.

Section Final.
  Hypothesis RP : real_pair_deflation_statement.
  Variables (n : nat) (U0 V0 : mat).

  Definition Good (na : nat) (st : hstate) : Prop :=
    GoodC n U0 V0 na (hA st) (hV st) (hd st) (he st) (ht st).

  Lemma Good_tab na st : Good na st -> Good na (htab ROps n st).
  Proof.
    intros H. unfold Good, htab. cbn [hA hV hd he ht].
    eapply GoodC_ext; [exact H| | | |].
    - intros; apply mtab_eqR; assumption.
    - intros i j Hi Hj. apply mtab_eqR; assumption.
    - intros; apply vtab_eqR; assumption.
    - intros; apply vtab_eqR; assumption.
  Qed.

  Definition pass_post (res : pass_result) : Prop :=
    match res with
    | PPanic => True
    | PDone st' => Good 0 st'
    | PNext st' _ => (hnn st' < n)%nat /\ Good (S (hnn st')) st'
    end.

  Lemma pass_good anorm its st : (hnn st < n)%nat -> Good (S (hnn st)) st ->
    pass_post (fst (pass ROps Rcopysign 0 n anorm its st)).
  Proof.
    intros Hnn HG. unfold pass.
    destruct st as [A V d e nn t]. cbn [hA hV hd he hnn ht] in *. unfold Good in HG. cbn [hA hV hd he hnn ht] in HG.
    pose proof (l_search_spec anorm A nn) as Hls. cbv zeta in Hls.
    destruct (l_search ROps 0 anorm A nn) as [l A1]. cbn [fst snd] in Hls.
    destruct Hls as (Hl1 & Hl2 & Hl3 & Hl4).
    assert (HG1 : GoodC n U0 V0 (S nn) A1 V d e t).
    { eapply GoodC_ext; [exact HG| | | |]; try (intros; reflexivity). intros; apply Hl4. }
    rewrite <- (Hl4 l (pred l)) in Hl2.
    assert (Hl3' : forall i, (l < i)%nat -> (i <= nn)%nat -> A1 i (pred i) <> 0).
    { intros i H1 H2. rewrite Hl4. apply Hl3; assumption. }
    clear Hl3 Hl4 HG.
    assert (Hsn : (S nn < n)%nat -> A1 (S nn) nn = 0).
    { intros H. destruct HG1 as [_ (T1 & T2 & _)]. apply T2; [lia|exact H|]. rewrite T1 by lia. lra. }
    destruct (Nat.eqb_spec l nn) as [->|Hlnn].
    - (* one root *)
      rops. pose proof (one_root_good n U0 V0 nn A1 V d e t Hnn Hl2 HG1) as H1.
      destruct (Nat.eqb_spec nn 0) as [->|Hn0]; cbn [fst pass_post].
      + exact H1.
      + cbn [hnn]. split; [lia|]. replace (S (pred nn)) with nn by lia. exact H1.
    - destruct (Nat.eqb_spec l (pred nn)) as [Hlp|Hlp].
      + (* two roots *)
        destruct nn as [|na]; [lia|]. cbn [pred] in *. subst l.
        set (x := A1 (S na) (S na)). set (y := A1 na na). set (w := A1 (S na) na * A1 na (S na)).
        set (q := 1 / 2 * (y - x) * (1 / 2 * (y - x)) + w).
        assert (Hsub : A1 (S na) na <> 0) by (apply (Hl3' (S na)); lia).
        assert (HGn : GoodC n U0 V0 na (fst (fst (fst (two_roots ROps Rcopysign n (S na) x A1 V d e t))))
                        (snd (fst (fst (two_roots ROps Rcopysign n (S na) x A1 V d e t))))
                        (snd (fst (two_roots ROps Rcopysign n (S na) x A1 V d e t)))
                        (snd (two_roots ROps Rcopysign n (S na) x A1 V d e t)) t).
        { destruct (Rleb 0 q) eqn:Eq.
          - apply Rleb_true in Eq.
            pose proof (RP n U0 V0 na A1 V d e t Hnn Hl2 Hsub Eq HG1) as H1.
            unfold x. destruct (two_roots ROps Rcopysign n (S na) (A1 (S na) (S na)) A1 V d e t) as [[[A' V'] d'] e'].
            exact H1.
          - pose proof Eq as Eq'. apply Rleb_false in Eq'.
            unfold two_roots. rops. unfold h_half. rops. cbn [pred]. fold x y w.
            match goal with |- context[Rleb 0 ?qq] => change qq with q end.
            rewrite Eq. cbn [fst snd].
            exact (complex_pair_good n U0 V0 na A1 V d e t Hnn Hl2 Eq' HG1). }
        destruct (two_roots ROps Rcopysign n (S na) x A1 V d e t) as [[[A' V'] d'] e']. cbn [fst snd] in HGn.
        destruct (Nat.leb_spec (S na) 1) as [H1|H1]; cbn [fst pass_post hnn].
        * replace na with 0%nat in HGn by lia. exact HGn.
        * split; [lia|]. replace (S (pred na)) with na by lia. exact HGn.
      + (* sweep *)
        destruct (Nat.eqb_spec its 30); [exact I|].
        destruct (sweep ROps Rcopysign 0 n l nn its (A1 nn nn) A1 V t) as [[A' V'] t'] eqn:Es.
        cbn [fst pass_post hnn]. split; [exact Hnn|].
        destruct (sweep_case n nn l Hnn ltac:(lia) its (A1 nn nn) A1 V t A' V' t' Hl2 Hl3' Hsn Es)
          as (G & HG & HV & Hsim & Hfr).
        destruct HG1 as [HS HT]. unfold Good. cbn [hA hV hd he ht]. split.
        * exact (Sim_step n U0 V0 (S nn) (S nn) A1 V t A' V' t' G HS HG HV Hsim).
        * apply (Tail_frame n (S nn) A1 d e); try assumption.
          -- intros; split; reflexivity.
          -- destruct HT as (T1 & _). exact T1.
  Qed.

  Lemma inner_good anorm : forall fuel its st, (hnn st < n)%nat -> Good (S (hnn st)) st ->
    match inner_loop ROps Rcopysign 0 n anorm fuel its st with
    | None => True
    | Some (inl st') => Good 0 st'
    | Some (inr st') => (hnn st' < n)%nat /\ Good (S (hnn st')) st'
    end.
  Proof.
    induction fuel as [|f IH]; intros its st Hnn HG; cbn [inner_loop]; [exact I|].
    pose proof (pass_good anorm its (htab ROps n st) Hnn (Good_tab _ _ HG)) as HP.
    destruct (pass ROps Rcopysign 0 n anorm its (htab ROps n st)) as [res swept]. cbn [fst] in HP.
    destruct res as [st'|st' l|]; cbn [pass_post] in HP.
    - exact HP.
    - destruct (Nat.leb_spec (hnn st') (S l)); [exact HP|]. apply IH; tauto.
    - exact I.
  Qed.

  Lemma outer_good anorm : forall fuel st, (hnn st < n)%nat -> Good (S (hnn st)) st ->
    match outer_loop ROps Rcopysign 0 n anorm fuel st with
    | None => True
    | Some st' => Good 0 st'
    end.
  Proof.
    induction fuel as [|f IH]; intros st Hnn HG; cbn [outer_loop]; [exact I|].
    pose proof (inner_good anorm 31 0 st Hnn HG) as HI.
    destruct (inner_loop ROps Rcopysign 0 n anorm 31 0 st) as [[st'|st']|]; [exact HI| |exact I].
    apply IH; tauto.
  Qed.
End Final.

(* (iv), conditional on the real-pair deflation *)
Lemma hqr2_sweeps_partial_correct_from : real_pair_deflation_statement ->
  forall n (A0 V0 A V : mat) (d e : nat -> R) (an : R),
    hqr2_sweeps ROps Rcopysign 0 n A0 V0 (fun _ => 0) (fun _ => 0) = Some (A, V, d, e, an) ->
    qtri n (uhess A) d e /\
    exists Q, morth n Q /\ meq n (mmul n Q (mtr Q)) mid /\ meq n V (mmul n V0 Q) /\
              meq n (mmul n (uhess A0) Q) (mmul n Q (uhess A)).
Proof.
  intros RP n A0 V0 A V d e an Hrun. unfold hqr2_sweeps in Hrun.
  destruct (Nat.eqb_spec n 0) as [Hn0|Hn0]; [discriminate|].
  set (st0 := mkHS A0 V0 (fun _ => 0) (fun _ => 0) (pred n) (o0 ROps)) in Hrun.
  assert (HG0 : Good n (uhess A0) V0 (S (hnn st0)) st0).
  { unfold Good, st0. cbn [hA hV hd he hnn ht]. replace (S (pred n)) with n by lia. rops. split.
    - exists mid. split; [apply orth2_mid|]. split.
      + intros i j Hi Hj. symmetry. apply (mmul_id_r n V0); assumption.
      + rewrite (mmul_id_r n (uhess A0)). rewrite (mmul_id_l n (hlog n 0 A0)).
        intros r c _ _. unfold hlog. cmp; ring.
    - unfold Tail. refine (conj _ (conj _ (conj _ (conj _ _)))); intros; try reflexivity; lia. }
  pose proof (outer_good RP n (uhess A0) V0 (hqr2_anorm ROps n A0) n st0 ltac:(unfold st0; cbn [hnn]; lia) HG0) as HO.
  destruct (outer_loop ROps Rcopysign 0 n (hqr2_anorm ROps n A0) n st0) as [st'|]; [|discriminate].
  injection Hrun as <- <- <- <- _.
  destruct HO as [(Q & [HQ1 HQ2] & HV & HU) HT].
  split; [apply qtri_of_Tail; exact HT|].
  exists Q. split; [exact HQ1|]. split; [exact HQ2|]. split; [exact HV|].
  assert (HH : meq n (hlog 0 (ht st') (hA st')) (uhess (hA st'))).
  { intros r c _ _. unfold hlog. cmp; ring. }
  rewrite <- HH. exact HU.
Qed.
