(* C02 — second half of hqr2 over the reals: ONE real-eigenvalue iteration (e[nn] = 0, p = d[nn]).
   The column nn of the working array ends up holding a vector x (rows <= nn) with x[nn] <> 0 and
   (H - p I) x = 0 in rows < nn, where H is the quasi-triangular matrix (qtri) the iteration reads;
   nothing else of the array is written.  Covered: 1x1 rows, 2x2 blocks (both ways of getting the second
   component), and the overflow guard (division of the whole computed part by t <> 0). *)
From Coq Require Import List Arith Bool Lia Reals Lra Psatz.
From SC Require Import Base.Num C02.FunMat C02.ModelHqr2Spec C02.ModelHqr2Vec
                       C02.ProofsHessAlg C02.ProofsHessLoops C02.ProofsHqr2VecSum.
Local Open Scope R_scope.

Section RealColumn.
  Variables (n : nat) (eps anorm : R) (H : mat) (d e : nat -> R).
  Hypothesis Hq : qtri n H d e.
  Variable nn : nat.
  Hypothesis Hnn : (nn < n)%nat.
  Hypothesis Henn : e nn = 0.
  (* the array on entry to the iteration: it still holds H where the iteration reads *)
  Variable A0 : mat.
  Hypothesis HA0 : forall r c, (c <= nn)%nat -> (r <= c + 1)%nat -> A0 r c = H r c.

  Let p := d nn.

  Lemma q_low r c : (r < n)%nat -> (c < n)%nat -> (c + 1 < r)%nat -> H r c = 0.
  Proof. destruct Hq as (H1 & _). apply H1. Qed.
  Lemma q_sub i : (S i < n)%nat -> ~ (0 < e i) -> H (S i) i = 0.
  Proof. destruct Hq as (_ & H2 & _). apply H2. Qed.
  Lemma q_diag i : (i < n)%nat -> e i = 0 -> H i i = d i.
  Proof. destruct Hq as (_ & _ & H3 & _). apply H3. Qed.
  Lemma q_blk i : (i < n)%nat -> 0 < e i ->
     (S i < n)%nat /\ e (S i) = - e i /\ d (S i) = d i /\
     H i i + H (S i) (S i) = 2 * d i /\
     H i i * H (S i) (S i) - H i (S i) * H (S i) i = d i * d i + e i * e i.
  Proof. destruct Hq as (_ & _ & _ & H4 & _). apply H4. Qed.
  Lemma q_neg i : (i < n)%nat -> e i < 0 -> exists j, i = S j /\ 0 < e j.
  Proof. destruct Hq as (_ & _ & _ & _ & H5). apply H5. Qed.

  (* rows m..nn of column nn hold the computed part of the vector *)
  Definition Frame (m : nat) (Ac : mat) : Prop :=
    forall r c, ~ (c = nn /\ (m <= r <= nn)%nat) -> Ac r c = A0 r c.
  Definition Eqs (m : nat) (Ac : mat) : Prop :=
    forall i, (m <= i < nn)%nat -> rgs m (nn + 1 - m) (fun j => H i j * Ac j nn) = p * Ac i nn.
  Definition Good (m : nat) (Ac : mat) : Prop :=
    (m <= nn)%nat /\ Frame m Ac /\ Ac nn nn <> 0 /\ Eqs m Ac.

  Lemma Good_H m Ac r c :
    Good m Ac -> (c <= nn)%nat -> (r <= c + 1)%nat -> ~ (c = nn /\ (m <= r)%nat) -> Ac r c = H r c.
  Proof.
    intros (Hm & HF & _) Hc Hr Hn. rewrite HF by lia. apply HA0; assumption.
  Qed.

  Lemma dot_H m Ac k :
    Good m Ac -> (k < m)%nat ->
    vec_dot ROps Ac k m nn nn = rgs m (nn + 1 - m) (fun j => H k j * Ac j nn).
  Proof.
    intros HG Hk. rewrite vec_dot_spec. apply rgs_ext. intros j Hj.
    pose proof HG as (Hm & _). rewrite (Good_H m Ac k j HG) by lia. reflexivity.
  Qed.

  (* the overflow guard: dividing the computed part by t <> 0 keeps everything (homogeneous equations) *)
  Lemma good_scale m Ac t : Good m Ac -> t <> 0 -> Good m (vec_scale_col ROps Ac m nn nn t).
  Proof.
    intros (Hm & HF & HX & HE) Ht.
    assert (HS : forall r c, vec_scale_col ROps Ac m nn nn t r c =
                   if (c =? nn) && (m <=? r) && (r <=? nn) then Ac r nn / t else Ac r c).
    { intros r c. rewrite vec_scale_col_spec. bd; reflexivity. }
    split; [exact Hm|]. split; [|split].
    - intros r c Hrc. rewrite HS. bd; apply HF; exact Hrc.
    - rewrite HS. bd. unfold Rdiv. apply Rmult_integral_contrapositive_currified; [exact HX|].
      apply Rinv_neq_0_compat. exact Ht.
    - intros i Hi.
      rewrite (rgs_ext _ _ _ (fun j => H i j * Ac j nn * / t)).
      + rewrite rgs_scal_r, HE by exact Hi. rewrite HS. bd. unfold Rdiv. ring.
      + intros j Hj. rewrite HS. bd. unfold Rdiv. ring.
  Qed.

  Lemma good_guard k A1 :
    Good k A1 ->
    Good k (if Rltb 1 (eps * Rabs (A1 k nn) * Rabs (A1 k nn))
            then vec_scale_col ROps A1 k nn nn (Rabs (A1 k nn)) else A1).
  Proof.
    intros HG. destruct (Rltb 1 (eps * Rabs (A1 k nn) * Rabs (A1 k nn))) eqn:E; [|exact HG].
    apply good_scale; [exact HG|]. apply Rltb_true in E. intros H0. rewrite H0 in E. lra.
  Qed.

  (* a 1x1 row *)
  Lemma good_row1 k Ac :
    Good (S k) Ac -> (k < nn)%nat -> e k = 0 -> H k k - p <> 0 ->
    Good k (mupd Ac k nn (- rgs (S k) (nn + 1 - S k) (fun j => H k j * Ac j nn) / (H k k - p))).
  Proof.
    intros (Hm & HF & HX & HE) Hk Hek Hw.
    set (r := rgs (S k) (nn + 1 - S k) (fun j => H k j * Ac j nn)).
    set (v := - r / (H k k - p)).
    split; [lia|]. split; [|split].
    - intros r' c' Hrc. rewrite mupd_neq by lia. apply HF. lia.
    - rewrite mupd_neq by lia. exact HX.
    - intros i Hi. replace (nn + 1 - k)%nat with (S (nn + 1 - S k)) by lia.
      rewrite rgs_S_first. rewrite mupd_eq.
      rewrite (rgs_ext _ _ _ (fun j => H i j * Ac j nn)) by (intros j Hj; rewrite mupd_neq by lia; reflexivity).
      destruct (Nat.eq_dec i k) as [->|Hik].
      + fold r. rewrite mupd_eq. unfold v. field. exact Hw.
      + rewrite mupd_neq by lia. rewrite HE by lia.
        assert (H0 : H i k = 0).
        { destruct (Nat.eq_dec i (S k)) as [->|Hne].
          - apply q_sub; [lia|]. rewrite Hek. apply Rlt_irrefl.
          - apply q_low; lia. }
        rewrite H0. ring.
  Qed.

  (* a 2x2 block in rows k, k+1 *)
  Lemma good_row2 k Ac z s :
    Good (S (S k)) Ac -> (S k < nn)%nat -> 0 < e k ->
    z = H (S k) (S k) - p ->
    s = rgs (S (S k)) (nn + 1 - S (S k)) (fun j => H (S k) j * Ac j nn) ->
    let r := rgs (S (S k)) (nn + 1 - S (S k)) (fun j => H k j * Ac j nn) in
    let w := H k k - p in
    let x := H k (S k) in
    let y := H (S k) k in
    let q := (d k - p) * (d k - p) + e k * e k in
    let t := (x * s - z * r) / q in
    let v := if Rltb (Rabs z) (Rabs x) then (- r - w * t) / x else (- s - y * t) / z in
    Good k (mupd (mupd Ac k nn t) (S k) nn v).
  Proof.
    intros (Hm & HF & HX & HE) Hk Hek Hz Hs r w x y q t v.
    destruct (q_blk k ltac:(lia) Hek) as (Hk1 & He1 & Hd1 & Htr & Hdet). fold x y in Hdet.
    assert (Hqp : 0 < q).
    { unfold q. pose proof (Rle_0_sqr (d k - p)) as H1. unfold Rsqr in H1.
      pose proof (Rmult_lt_0_compat _ _ Hek Hek) as H2. lra. }
    assert (Hq0 : q <> 0) by lra.
    assert (Hwz : w * z - x * y = q).
    { unfold w, q. rewrite Hz.
      transitivity ((H k k * H (S k) (S k) - x * y) - p * (H k k + H (S k) (S k)) + p * p); [ring|].
      rewrite Hdet, Htr. ring. }
    assert (Hxy : x * y < 0).
    { pose proof (Rle_0_sqr (H k k - H (S k) (S k))) as H1. unfold Rsqr in H1.
      pose proof (Rmult_lt_0_compat _ _ Hek Hek) as H2.
      assert (Hd : d k = (H k k + H (S k) (S k)) / 2) by lra.
      rewrite Hd in Hdet. clear - H1 H2 Hdet. lra. }
    assert (Hx0 : x <> 0) by (intros E; rewrite E in Hxy; lra).
    assert (Ht : t * q = x * s - z * r) by (unfold t; field; exact Hq0).
    (* the two equations of the block *)
    assert (HE12 : w * t + x * v + r = 0 /\ y * t + z * v + s = 0).
    { unfold v. destruct (Rltb (Rabs z) (Rabs x)) eqn:E.
      - assert (Hv : x * ((- r - w * t) / x) = - r - w * t) by (field; exact Hx0).
        split; [rewrite Hv; ring|].
        apply (Rmult_eq_reg_l x); [|exact Hx0].
        replace (x * (y * t + z * ((- r - w * t) / x) + s))
          with ((x * s - z * r) - t * (w * z - x * y) + z * (x * ((- r - w * t) / x) - (- r - w * t))) by ring.
        rewrite Hv, Hwz, <- Ht. ring.
      - apply Rltb_false in E.
        assert (Hz0 : z <> 0).
        { intros E0. rewrite E0, Rabs_R0 in E. pose proof (Rabs_pos_lt x Hx0). lra. }
        assert (Hv : z * ((- s - y * t) / z) = - s - y * t) by (field; exact Hz0).
        split; [|rewrite Hv; ring].
        apply (Rmult_eq_reg_l z); [|exact Hz0].
        replace (z * (w * t + x * ((- s - y * t) / z) + r))
          with (t * (w * z - x * y) - (x * s - z * r) + x * (z * ((- s - y * t) / z) - (- s - y * t))) by ring.
        rewrite Hv, Hwz, Ht. ring. }
    destruct HE12 as [HE1 HE2]. clearbody v.
    split; [lia|]. split; [|split].
    - intros r' c' Hrc. rewrite !mupd_neq by lia. apply HF. lia.
    - rewrite !mupd_neq by lia. exact HX.
    - intros i Hi. replace (nn + 1 - k)%nat with (S (S (nn + 1 - S (S k)))) by lia.
      rewrite !rgs_S_first.
      rewrite (rgs_ext _ _ _ (fun j => H i j * Ac j nn)) by (intros j Hj; rewrite !mupd_neq by lia; reflexivity).
      rewrite mupd_eq. rewrite (mupd_neq _ (S k) nn v k nn) by lia. rewrite mupd_eq.
      destruct (Nat.eq_dec i k) as [->|Hik]; [|destruct (Nat.eq_dec i (S k)) as [->|Hik1]].
      + rewrite (mupd_neq _ (S k) nn v k nn) by lia. rewrite mupd_eq.
        fold r x. unfold w in HE1. lra.
      + rewrite mupd_eq. rewrite <- Hs. fold y. rewrite Hz in HE2. lra.
      + rewrite !mupd_neq by lia. rewrite HE by lia.
        assert (H0 : H i k = 0) by (apply q_low; lia).
        assert (H1 : H i (S k) = 0).
        { destruct (Nat.eq_dec i (S (S k))) as [->|Hne].
          - apply q_sub; [lia|]. rewrite He1. lra.
          - apply q_low; lia. }
        rewrite H0, H1. ring.
  Qed.

  (* ---- the loop over the rows ---- *)
  Definition pend (k : nat) : bool := (k <? nn) && Rltb (e k) 0.

  Definition RInv (ok0 : bool) (k : nat) (st : rst) : Prop :=
    rok st = true ->
    ok0 = true /\
    rm st = (if pend k then S k else k) /\
    Good (rm st) (rA st) /\
    (pend k = true ->
       rz st = H k k - p /\
       rs st = rgs (S k) (nn + 1 - S k) (fun j => H k j * rA st j nn)).

  Lemma pend_lower k : (k < nn)%nat -> e k <= 0 -> pend (S k) = false.
  Proof.
    intros Hk Hek. unfold pend. destruct (Nat.ltb_spec (S k) nn) as [Hl|Hl]; [|reflexivity]. cbn [andb].
    apply Rltb_false. destruct (Rle_or_lt 0 (e (S k))) as [Hle|Hlt]; [exact Hle|].
    destruct (q_neg (S k) ltac:(lia) Hlt) as (j & Hj & Hej). injection Hj as <-. lra.
  Qed.

  Lemma real_row_step ok0 k st :
    (k < nn)%nat -> RInv ok0 (S k) st -> RInv ok0 k (vec_real_row ROps eps anorm p d e nn k st).
  Proof.
    intros Hk IH. destruct st as [Ac m z s r0 ok]. unfold RInv in *. cbn [rA rm rz rs rr rok] in IH.
    unfold vec_real_row. cbn [rA rm rz rs rr rok]. rops.
    destruct (Rltb (e k) 0) eqn:E1.
    - (* lower row of a block: save z and s *)
      cbn [rA rm rz rs rr rok]. intros Hok. destruct (IH Hok) as (H0 & Hm & HG & _).
      apply Rltb_true in E1.
      rewrite (pend_lower k Hk ltac:(lra)) in Hm. subst m.
      assert (Hp : pend k = true).
      { unfold pend. destruct (Nat.ltb_spec k nn); [|lia]. cbn [andb]. apply Rltb_true. exact E1. }
      rewrite Hp. split; [exact H0|]. split; [reflexivity|]. split; [exact HG|]. intros _. split.
      + rewrite (Good_H (S k) Ac k k HG) by lia. reflexivity.
      + apply dot_H; [exact HG|lia].
    - apply Rltb_false in E1.
      assert (Hp : pend k = false).
      { unfold pend. destruct (k <? nn); [|reflexivity]. cbn [andb]. apply Rltb_false. exact E1. }
      destruct (Reqb (e k) 0) eqn:E2.
      + (* 1x1 row *)
        apply Reqb_true in E2. cbn [fst snd rA rm rz rs rr rok].
        intros Hok. apply andb_true_iff in Hok. destruct Hok as [Hok Hw].
        destruct (IH Hok) as (H0 & Hm & HG & _).
        rewrite (pend_lower k Hk ltac:(lra)) in Hm. subst m.
        apply negb_true_iff in Hw. rewrite Hw. apply Reqb_false in Hw.
        rewrite Hp. split; [exact H0|]. split; [reflexivity|]. split; [|intros Hc; discriminate Hc].
        rewrite (dot_H (S k) Ac k HG) by lia.
        rewrite (Good_H (S k) Ac k k HG) in * by lia.
        apply good_guard. apply good_row1; assumption.
      + (* upper row of a block: solve the 2x2 system *)
        apply Reqb_false in E2. cbn [fst snd rA rm rz rs rr rok].
        assert (Hek : 0 < e k) by lra.
        destruct (q_blk k ltac:(lia) Hek) as (Hk1 & He1 & _).
        assert (Hk2 : (S k < nn)%nat).
        { destruct (Nat.eq_dec (S k) nn) as [E|E]; [|lia]. rewrite E, Henn in He1. lra. }
        assert (Hp1 : pend (S k) = true).
        { unfold pend. destruct (Nat.ltb_spec (S k) nn); [|lia]. cbn [andb]. apply Rltb_true. lra. }
        intros Hok. destruct (IH Hok) as (H0 & Hm & HG & HP). rewrite Hp1 in Hm. subst m.
        destruct (HP Hp1) as [Hz Hs].
        rewrite Hp. split; [exact H0|]. split; [reflexivity|]. split; [|intros Hc; discriminate Hc].
        rewrite (dot_H (S (S k)) Ac k HG) by lia.
        rewrite Nat.add_1_r.
        rewrite (Good_H (S (S k)) Ac k k HG) by lia.
        rewrite (Good_H (S (S k)) Ac k (S k) HG) by lia.
        rewrite (Good_H (S (S k)) Ac (S k) k HG) by lia.
        apply good_guard.
        exact (good_row2 k Ac z s HG Hk2 Hek Hz Hs).
  Qed.

  (* ---- the whole iteration ---- *)
  Lemma vec_real_spec (st : vst) :
    vA st = A0 ->
    let st' := vec_real ROps eps anorm p d e nn st in
    vok st' = true ->
    vok st = true /\
    (forall r c, ~ (c = nn /\ (r <= nn)%nat) -> vA st' r c = A0 r c) /\
    vA st' nn nn <> 0 /\
    (forall i, (i < nn)%nat -> rgs 0 (nn + 1) (fun j => H i j * vA st' j nn) = p * vA st' i nn).
  Proof.
    intros HA. cbv zeta. unfold vec_real. cbn [vA vz vs vr vok]. rops.
    set (st0 := mkR (mupd (vA st) nn nn 1) nn (vz st) (vs st) (vr st) (vok st)).
    assert (HI : RInv (vok st) 0 (ford 0 nn (vec_real_row ROps eps anorm p d e nn) st0)).
    { apply (ford_ind (RInv (vok st))).
      - cbn [Nat.add]. unfold RInv, st0. cbn [rA rm rz rs rr rok]. intros Hok.
        assert (Hp : pend nn = false) by (unfold pend; rewrite Nat.ltb_irrefl; reflexivity).
        rewrite Hp. split; [exact Hok|]. split; [reflexivity|]. split; [|intros Hc; discriminate Hc].
        split; [lia|]. split; [|split].
        + intros r c Hrc. rewrite mupd_neq by lia. rewrite HA. reflexivity.
        + rewrite mupd_eq. lra.
        + intros i Hi. lia.
      - intros k s Hk IH. apply real_row_step; [lia|exact IH]. }
    intros Hok. destruct (HI Hok) as (H0 & Hm & HG & _).
    assert (Hp : pend 0 = false).
    { unfold pend. destruct (0 <? nn)%nat eqn:E; [|reflexivity]. cbn [andb]. apply Rltb_false.
      destruct (Rle_or_lt 0 (e 0%nat)) as [Hle|Hlt]; [exact Hle|].
      destruct (q_neg 0%nat ltac:(lia) Hlt) as (j & Hj & _). discriminate Hj. }
    rewrite Hp in Hm. rewrite Hm in HG. destruct HG as (_ & HF & HX & HE).
    split; [exact H0|]. split; [|split; [exact HX|]].
    - intros r c Hrc. apply HF. lia.
    - intros i Hi. replace (nn + 1)%nat with (nn + 1 - 0)%nat by lia. apply HE. lia.
  Qed.

  (* ---- a sufficient condition for the ghost flag: p differs from the earlier real eigenvalues ---- *)
  Lemma real_row_ok ok0 k st :
    (k < nn)%nat -> RInv ok0 (S k) st -> rok st = true -> (e k = 0 -> d k <> p) ->
    rok (vec_real_row ROps eps anorm p d e nn k st) = true.
  Proof.
    intros Hk IH Hok Hd. destruct (IH Hok) as (_ & _ & HG & _).
    destruct st as [Ac m z s r0 ok]. cbn [rA rm rz rs rr rok] in *.
    unfold vec_real_row. cbn [rA rm rz rs rr rok]. rops.
    destruct (Rltb (e k) 0); cbn [rok]; [exact Hok|].
    destruct (Reqb (e k) 0) eqn:E2; cbn [fst snd]; [|exact Hok].
    apply Reqb_true in E2. rewrite Hok. cbn [andb]. apply negb_true_iff. apply Reqb_false.
    rewrite (Good_H m Ac k k HG) by lia. rewrite (q_diag k ltac:(lia) E2).
    specialize (Hd E2). lra.
  Qed.

  Lemma vec_real_ok (st : vst) :
    vA st = A0 -> vok st = true ->
    (forall i, (i < nn)%nat -> e i = 0 -> d i <> p) ->
    vok (vec_real ROps eps anorm p d e nn st) = true.
  Proof.
    intros HA Hok Hd. unfold vec_real. cbn [vA vz vs vr vok]. rops.
    set (st0 := mkR (mupd (vA st) nn nn 1) nn (vz st) (vs st) (vr st) (vok st)).
    assert (HI : (fun k s => RInv (vok st) k s /\ rok s = true) 0%nat
                   (ford 0 nn (vec_real_row ROps eps anorm p d e nn) st0)).
    { apply (ford_ind (fun k s => RInv (vok st) k s /\ rok s = true)).
      - cbn [Nat.add]. split; [|exact Hok].
        unfold RInv, st0. cbn [rA rm rz rs rr rok]. intros _.
        assert (Hp : pend nn = false) by (unfold pend; rewrite Nat.ltb_irrefl; reflexivity).
        rewrite Hp. split; [exact Hok|]. split; [reflexivity|]. split; [|intros Hc; discriminate Hc].
        split; [lia|]. split; [|split].
        + intros r c Hrc. rewrite mupd_neq by lia. rewrite HA. reflexivity.
        + rewrite mupd_eq. lra.
        + intros i Hi. lia.
      - intros k s Hk [IH1 IH2]. split.
        + apply real_row_step; [lia|exact IH1].
        + apply (real_row_ok (vok st)); try assumption; try lia. apply Hd. lia. }
    exact (proj2 HI).
  Qed.

  (* ---- from the rows < nn to (H - p I) x = 0 in all rows ---- *)
  Lemma real_vector_eig (x : nat -> R) :
    (forall j, (nn < j)%nat -> x j = 0) ->
    (forall i, (i < nn)%nat -> rgs 0 (nn + 1) (fun j => H i j * x j) = p * x i) ->
    forall i, (i < n)%nat -> rsum n (fun j => H i j * x j) = p * x i.
  Proof.
    clear HA0. intros Hx0 HE i Hi.
    rewrite (rgs_rsum n 0 (nn + 1)) by (try lia; intros j Hj Hjr; rewrite Hx0 by lia; ring).
    destruct (Nat.lt_ge_cases i nn) as [Hlt|Hge]; [apply HE; exact Hlt|].
    replace (nn + 1)%nat with (S nn) by lia. rewrite rgs_S_last. cbn [Nat.add].
    rewrite rgs_zero.
    - destruct (Nat.eq_dec i nn) as [->|Hne].
      + rewrite (q_diag nn Hnn Henn). unfold p. ring.
      + rewrite (Hx0 i) by lia.
        assert (H0 : H i nn = 0).
        { destruct (Nat.eq_dec i (S nn)) as [->|Hne2].
          - apply q_sub; [lia|]. rewrite Henn. apply Rlt_irrefl.
          - apply q_low; lia. }
        rewrite H0. ring.
    - intros j Hj.
      assert (H0 : H i j = 0).
      { destruct (Nat.eq_dec i (S j)) as [->|Hne2].
        - apply q_sub; [lia|]. intros Hej.
          destruct (q_blk j ltac:(lia) Hej) as (_ & He1 & _).
          assert (S j = nn) by lia. subst nn. rewrite Henn in He1. lra.
        - apply q_low; lia. }
      rewrite H0. ring.
  Qed.
End RealColumn.
