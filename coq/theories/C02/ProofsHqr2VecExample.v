(* C02 — second half of hqr2: the hypotheses of the real-column lemmas are satisfiable.
   An upper triangular 3 x 3 matrix with distinct diagonal entries: d = the diagonal, e = 0; qtri holds,
   the ghost flag is true (for every eps and every anorm), so each column of the result is an eigenvector
   column. *)
From Coq Require Import List Arith Bool Lia Reals Lra Psatz.
From SC Require Import Base.Num C02.FunMat C02.ModelHqr2Spec C02.ModelHqr2Vec
                       C02.ProofsHessAlg C02.ProofsHqr2VecSum C02.ProofsHqr2Vec.
Import ListNotations.
Local Open Scope R_scope.

Definition exT : mat := mfun 0 [[1; 2; 3]; [0; 2; 1]; [0; 0; 4]]%list.
Definition exd : nat -> R := fun i => exT i i.
Definition exe : nat -> R := fun _ => 0.

Lemma exT_qtri : qtri 3 (uhess exT) exd exe.
Proof.
  unfold qtri, exe. split; [|split; [|split; [|split]]].
  - intros r c Hr Hc Hrc. unfold uhess. bd. reflexivity.
  - intros i Hi _. unfold uhess. bd.
    destruct i as [|[|i]]; [reflexivity|reflexivity|lia].
  - intros i Hi _. unfold uhess, exd. bd. reflexivity.
  - intros i _ Hc. lra.
  - intros i _ Hc. lra.
Qed.

Lemma exT_distinct i nn : (i < nn)%nat -> (nn < 3)%nat -> exd i <> exd nn.
Proof.
  intros Hi Hn. unfold exd.
  destruct nn as [|[|[|nn]]]; try lia; destruct i as [|[|i]]; try lia;
    unfold exT, mfun; cbn [nth]; lra.
Qed.

Example exT_ok eps anorm (V : mat) :
  hqr2_vectors_ok ROps eps 3 anorm exT V exd exe = true.
Proof.
  apply hqr2_vectors_ok_distinct; [exact exT_qtri|].
  intros i nn Hi Hn _ _. apply exT_distinct; assumption.
Qed.

Example exT_columns eps anorm (V : mat) nn :
  anorm <> 0 -> (nn < 3)%nat ->
  let A' := fst (hqr2_vectors ROps eps 3 anorm exT V exd exe) in
  let V' := snd (hqr2_vectors ROps eps 3 anorm exT V exd exe) in
  exists x : nat -> R,
    x nn <> 0 /\
    (forall k, (nn < k)%nat -> x k = 0) /\
    (forall k, (k <= nn)%nat -> x k = A' k nn) /\
    (forall i, (i < 3)%nat -> rsum 3 (fun j => uhess exT i j * x j) = exd nn * x i) /\
    (forall i, (i < 3)%nat -> V' i nn = rsum 3 (fun k => V i k * x k)).
Proof.
  intros Han Hnn.
  exact (hqr2_vectors_real_column eps 3 anorm exT V exd exe nn exT_qtri Han (exT_ok eps anorm V) Hnn eq_refl).
Qed.

(* a 2x2 block with eigenvalues +-i above the real eigenvalue 2: the 2x2 solve is exercised *)
Definition exB : mat := mfun 0 [[0; 1; 5]; [-1; 0; 7]; [0; 0; 2]]%list.
Definition exBd : nat -> R := fun i => match i with 2%nat => 2 | _ => 0 end.
Definition exBe : nat -> R := fun i => match i with 0%nat => 1 | 1%nat => -1 | _ => 0 end.

Lemma exB_qtri : qtri 3 (uhess exB) exBd exBe.
Proof.
  unfold qtri. split; [|split; [|split; [|split]]].
  - intros r c Hr Hc Hrc. unfold uhess. bd. reflexivity.
  - intros i Hi Hne. destruct i as [|[|i]]; [|reflexivity|lia].
    exfalso. apply Hne. cbn. lra.
  - intros i Hi He. destruct i as [|[|[|i]]]; try lia; cbn in He; try lra. reflexivity.
  - intros i Hi He. destruct i as [|[|[|i]]]; try lia; cbn in He; try lra.
    split; [lia|]. unfold uhess, exB, mfun. cbn. repeat split; lra.
  - intros i Hi He. destruct i as [|[|[|i]]]; try lia; cbn in He; try lra.
    exists 0%nat. split; [reflexivity|cbn; lra].
Qed.

Example exB_ok eps anorm (V : mat) :
  hqr2_vectors_ok ROps eps 3 anorm exB V exBd exBe = true.
Proof.
  apply hqr2_vectors_ok_distinct; [exact exB_qtri|].
  intros i nn Hi Hn Hei Hen.
  destruct nn as [|[|[|nn]]]; try lia; cbn in Hen; try lra.
  destruct i as [|[|i]]; try lia; cbn in Hei; lra.
Qed.

Example exB_column2 eps anorm (V : mat) :
  anorm <> 0 ->
  let V' := snd (hqr2_vectors ROps eps 3 anorm exB V exBd exBe) in
  exists x : nat -> R,
    x 2%nat <> 0 /\
    (forall i, (i < 3)%nat -> rsum 3 (fun j => uhess exB i j * x j) = 2 * x i) /\
    (forall i, (i < 3)%nat -> V' i 2%nat = rsum 3 (fun k => V i k * x k)).
Proof.
  intros Han. cbv zeta.
  destruct (hqr2_vectors_real_column eps 3 anorm exB V exBd exBe 2 exB_qtri Han (exB_ok eps anorm V)
              ltac:(lia) eq_refl) as (x & H1 & _ & _ & H4 & H5).
  exists x. split; [exact H1|]. split; [exact H4|exact H5].
Qed.
