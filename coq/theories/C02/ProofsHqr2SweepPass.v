(* C02 — hqr2, first half, over R with eps = 0: the invariant of the passes (similarity part `Sim`,
   recorded part `Tail`), and the sweep branch of a pass. *)
From Coq Require Import List Arith Bool Lia Reals Lra Psatz Setoid Morphisms.
From SC Require Import Base.Num C02.FunMat C02.Model C02.ModelTql2 C02.ModelHqr2Spec C02.ModelHqr2Sweep
  C02.ProofsHouse C02.ProofsHqr2SweepAlg C02.ProofsHqr2SweepJ C02.ProofsHqr2SweepRel
  C02.ProofsHqr2SweepStep C02.ProofsHqr2SweepLoop C02.ProofsHqr2SweepSpecs C02.ProofsHqr2SweepSearch.
Local Open Scope R_scope.

Definition meqv (n : nat) (V W : mat) : Prop := forall i j, (i < n)%nat -> (j < n)%nat -> V i j = W i j.

(* similarity part: U0 Q = Q hlog, V = V0 Q, Q orthogonal on both sides *)
Definition Sim (n : nat) (U0 V0 : mat) (na : nat) (A V : mat) (t : R) : Prop :=
  exists Q, orth2 n Q /\ meqv n V (mmul n V0 Q) /\ meq n (mmul n U0 Q) (mmul n Q (hlog na t A)).

Lemma Sim_step n U0 V0 na na' A V t A' V' t' G :
  Sim n U0 V0 na A V t -> orth2 n G -> meqv n V' (mmul n V G) ->
  meq n (mmul n (hlog na t A) G) (mmul n G (hlog na' t' A')) ->
  Sim n U0 V0 na' A' V' t'.
Proof.
  intros (Q & HQ & HV & HU) HG HV' HH. exists (mmul n Q G).
  split; [apply orth2_mul; assumption|]. split.
  - intros i j Hi Hj. rewrite HV' by assumption. rewrite <- (mmul_assoc n V0 Q G i j).
    unfold mmul at 1 3. apply rsum_ext. intros k Hk. rewrite HV by assumption. reflexivity.
  - rewrite <- (mmul_assoc_meq n U0 Q G). rewrite HU.
    rewrite (mmul_assoc_meq n Q (hlog na t A) G). rewrite HH.
    rewrite <- (mmul_assoc_meq n Q G (hlog na' t' A')). reflexivity.
Qed.

Lemma Sim_same n U0 V0 na na' A V t A' V' t' :
  Sim n U0 V0 na A V t -> meqv n V' V -> meq n (hlog na t A) (hlog na' t' A') ->
  Sim n U0 V0 na' A' V' t'.
Proof.
  intros HS HV HH. apply (Sim_step n U0 V0 na na' A V t A' V' t' mid HS (orth2_mid n)).
  - intros i j Hi Hj. rewrite HV by assumption. symmetry. apply (mmul_id_r n V); assumption.
  - rewrite HH. rewrite (mmul_id_r n (hlog na' t' A')). rewrite (mmul_id_l n (hlog na' t' A')). reflexivity.
Qed.

(* recorded part: the qtri clauses on the indices >= na, e untouched below *)
Definition Tail (n na : nat) (A : mat) (d e : nat -> R) : Prop :=
  (forall i, (i < na)%nat -> (i < n)%nat -> e i = 0) /\
  (forall i, (na <= S i)%nat -> (S i < n)%nat -> ~ (0 < e i) -> A (S i) i = 0) /\
  (forall i, (na <= i)%nat -> (i < n)%nat -> e i = 0 -> A i i = d i) /\
  (forall i, (na <= i)%nat -> (i < n)%nat -> 0 < e i ->
     (S i < n)%nat /\ e (S i) = - e i /\ d (S i) = d i /\
     A i i + A (S i) (S i) = 2 * d i /\
     A i i * A (S i) (S i) - A i (S i) * A (S i) i = d i * d i + e i * e i) /\
  (forall i, (na <= i)%nat -> (i < n)%nat -> e i < 0 -> exists j, i = S j /\ (na <= j)%nat /\ 0 < e j).

Lemma Tail_frame n na A d e A' d' e' :
  Tail n na A d e ->
  (forall i j, (i < n)%nat -> (j < n)%nat -> (na <= i)%nat -> A' i j = A i j) ->
  (forall i, (i < n)%nat -> (na <= i)%nat -> d' i = d i /\ e' i = e i) ->
  (forall i, (i < na)%nat -> (i < n)%nat -> e' i = 0) ->
  Tail n na A' d' e'.
Proof.
  intros (T1 & T2 & T3 & T4 & T5) HA Hde He. unfold Tail.
  refine (conj He (conj _ (conj _ (conj _ _)))).
  - intros i H1 H2 H3. rewrite HA by lia. apply T2; try assumption.
    destruct (Nat.lt_ge_cases i na) as [Hl|Hl].
    + rewrite T1 by lia. lra.
    + destruct (Hde i ltac:(lia) Hl) as [_ E]. rewrite <- E. exact H3.
  - intros i H1 H2 H3. destruct (Hde i H2 H1) as [Ed Ee]. rewrite HA, Ed by lia. apply T3; try assumption.
    rewrite <- Ee. exact H3.
  - intros i H1 H2 H3. destruct (Hde i H2 H1) as [Ed Ee]. rewrite Ee in H3.
    destruct (T4 i H1 H2 H3) as (K1 & K2 & K3 & K4 & K5).
    destruct (Hde (S i) K1 ltac:(lia)) as [Ed' Ee'].
    rewrite !HA by lia. rewrite Ed, Ee, Ed', Ee'. auto.
  - intros i H1 H2 H3. destruct (Hde i H2 H1) as [Ed Ee]. rewrite Ee in H3.
    destruct (T5 i H1 H2 H3) as (j & -> & K1 & K2). exists j. split; [reflexivity|]. split; [exact K1|].
    destruct (Hde j ltac:(lia) K1) as [_ Ee']. rewrite Ee'. exact K2.
Qed.

Lemma qtri_of_Tail n A d e : Tail n 0 A d e -> qtri n (uhess A) d e.
Proof.
  intros (T1 & T2 & T3 & T4 & T5). unfold qtri.
  assert (Hu : forall r c, (r <= c + 1)%nat -> uhess A r c = A r c).
  { intros r c H. unfold uhess. destruct (Nat.ltb_spec (c + 1) r); [lia|reflexivity]. }
  refine (conj _ (conj _ (conj _ (conj _ _)))).
  - intros r c _ _ H. unfold uhess. destruct (Nat.ltb_spec (c + 1) r); [reflexivity|lia].
  - intros i H1 H2. rewrite Hu by lia. apply T2; [lia|exact H1|exact H2].
  - intros i H1 H2. rewrite Hu by lia. apply T3; [lia|exact H1|exact H2].
  - intros i H1 H2. destruct (T4 i ltac:(lia) H1 H2) as (K1 & K2 & K3 & K4 & K5).
    rewrite !Hu by lia. auto.
  - intros i H1 H2. destruct (T5 i ltac:(lia) H1 H2) as (j & E & _ & K). exists j. auto.
Qed.

(* ---------- the sweep branch ---------- *)
Section SweepCase.
  Variables (n nn l : nat).
  Hypothesis Hnn : (nn < n)%nat.
  Hypothesis Hl : (l + 2 <= nn)%nat.

  (* everything after the (possible) exceptional shift *)
  Lemma sweep_tail x y w (A2 V A' V' : mat) :
    ((0 < l)%nat -> A2 l (pred l) = 0) ->
    (forall i, (l < i)%nat -> (i <= nn)%nat -> A2 i (pred i) <> 0) ->
    ((S nn < n)%nat -> A2 (S nn) nn = 0) ->
    forall m p q r,
    m_search ROps 0 A2 x y w (pred (pred nn) - l) (pred (pred nn)) = (m, (p, q, r)) ->
    forn m (nn - m) (k_step ROps Rcopysign n l m nn p q r) (zero_window ROps m nn A2, V) = (A', V') ->
    exists G, orth2 n G /\ Jcomm n nn G /\
      meq n (mmul n (uhess A2) G) (mmul n G (uhess A')) /\
      meqv n V' (mmul n V G) /\
      (forall i j, (i < n)%nat -> (j < n)%nat -> (nn < i)%nat -> A' i j = A2 i j).
  Proof.
    intros H0 Hsub He m p q r Em Hrun.
    pose proof (m_search_l A2 x y w l (pred (pred nn) - l) (pred (pred nn)) ltac:(lia)) as Hm.
    rewrite Em in Hm. cbn [fst] in Hm. rewrite Hm in Hrun.
    2:{ intros i H1 H2. replace i with (pred (S i)) at 2 by reflexivity. apply Hsub; lia. }
    set (A3 := zero_window ROps l nn A2) in *.
    assert (HA3 : forall r c, A3 r c =
              if (l <=? c)%nat && (r <=? nn)%nat && ((r =? c + 2) || (r =? c + 3)) then 0 else A2 r c)
      by (intros; apply zero_window_spec; lia).
    destruct (k_loop_sim n nn l p q r A3 V ltac:(lia) Hnn) with (A' := A') (V' := V')
      as (G & HG & HJ & Hsim & HV & Hfr).
    - intros c Hc Hcl. rewrite HA3. cmp. replace c with (pred l) by lia. apply H0. lia.
    - intros r' c' Hr Hc H1 H2 H3 H4. rewrite HA3. cmp; reflexivity.
    - intros Hn1. rewrite HA3. cmp. apply He. exact Hn1.
    - exact Hrun.
    - exists G. split; [exact HG|]. split; [exact HJ|]. split; [|split].
      + assert (HU : meq n (uhess A2) (uhess A3)).
        { intros r' c' _ _. unfold uhess. destruct (Nat.ltb_spec (c' + 1) r'); [reflexivity|].
          rewrite HA3. cmp; reflexivity. }
        rewrite HU. exact Hsim.
      + exact HV.
      + intros i j Hi Hj Hin. rewrite Hfr by assumption. rewrite HA3. cmp; reflexivity.
  Qed.

  Lemma sweep_case its x (A V : mat) t A' V' t' :
    ((0 < l)%nat -> A l (pred l) = 0) ->
    (forall i, (l < i)%nat -> (i <= nn)%nat -> A i (pred i) <> 0) ->
    ((S nn < n)%nat -> A (S nn) nn = 0) ->
    sweep ROps Rcopysign 0 n l nn its x A V t = (A', V', t') ->
    exists G, orth2 n G /\ meqv n V' (mmul n V G) /\
      meq n (mmul n (hlog (S nn) t A) G) (mmul n G (hlog (S nn) t' A')) /\
      (forall i j, (i < n)%nat -> (j < n)%nat -> (nn < i)%nat -> A' i j = A i j).
  Proof.
    intros H0 Hsub He. unfold sweep. rops.
    destruct ((its =? 10) || (its =? 20)); cbv beta iota zeta.
    - (* exceptional shift *)
      match goal with |- context[m_search ROps 0 ?B _ _ _ _ _] => set (A2 := B) end.
      match goal with |- context[m_search ROps 0 A2 ?x' ?y' ?w' ?f ?m0] =>
        destruct (m_search ROps 0 A2 x' y' w' f m0) as [m [[p q] r]] eqn:Em end.
      assert (HA2 : forall r c, A2 r c = if (r =? c) && (r <=? nn)%nat then A r c - x else A r c)
        by (intros; apply shift_loop_spec).
      match goal with |- (let '(_, _) := ?F in _) = _ -> _ => destruct F as [A3 V3] eqn:Ef end.
      cbv beta iota. intros E. injection E as <- <- <-.
      pose proof (fun h0 hs he => sweep_tail _ _ _ A2 V A3 V3 h0 hs he m p q r Em Ef) as Hst.
      destruct Hst as (G & HG & HJ & Hsim & HV & Hfr).
      + intros Hl0. rewrite HA2. cmp. apply H0. exact Hl0.
      + intros i H1 H2. rewrite HA2. cmp. apply Hsub; assumption.
      + intros Hn1. rewrite HA2. cmp. apply He. exact Hn1.
      + exists G. split; [exact HG|]. split; [exact HV|]. split.
        * assert (HH : meq n (hlog (S nn) t A) (hlog (S nn) (t + x) A2)).
          { intros r' c' _ _. unfold hlog, uhess. rewrite HA2. cmp; ring. }
          rewrite HH. apply sim_hlog; assumption.
        * intros i j Hi Hj Hin. rewrite Hfr by assumption. rewrite HA2. cmp; reflexivity.
    - match goal with |- context[m_search ROps 0 ?B ?x' ?y' ?w' ?f ?m0] =>
        destruct (m_search ROps 0 B x' y' w' f m0) as [m [[p q] r]] eqn:Em end.
      match goal with |- (let '(_, _) := ?F in _) = _ -> _ => destruct F as [A3 V3] eqn:Ef end.
      cbv beta iota. intros E. injection E as <- <- <-.
      destruct (sweep_tail _ _ _ A V A3 V3 H0 Hsub He m p q r Em Ef) as (G & HG & HJ & Hsim & HV & Hfr).
      exists G. split; [exact HG|]. split; [exact HV|]. split; [apply sim_hlog; assumption|exact Hfr].
  Qed.
End SweepCase.
