(* C02 — tql2: the shape of the ghost matrix in the middle of a QL sweep and its preservation by one
   rotation (pure algebra over R, no reference to the model).

   Convention after the initial shift of e:  e a couples a and a+1:  `tri d e`.
   `dt l f d` is the true diagonal: entries a >= l are stored minus the accumulated shift f. *)
From Coq Require Import List Arith Bool Lia Reals Lra Psatz.
From SC Require Import Base.Num C02.FunMat C02.ModelTql2 C02.ProofsTql2Rot.
Import ListNotations.
Local Open Scope R_scope.

Definition tri (d e : nat -> R) : mat := fun a b =>
  if a =? b then d a else if b =? S a then e a else if a =? S b then e b else 0.
Definition dt (l : nat) (f : R) (d : nat -> R) : nat -> R := fun a => if a <? l then d a else d a + f.

Lemma tri_sym d e a b : tri d e a b = tri d e b a.
Proof. unfold tri. eqbs; reflexivity. Qed.

Lemma tri_ext n d e d' e' :
  (forall a, (a < n)%nat -> d a = d' a) -> (forall a, (a < n)%nat -> e a = e' a) ->
  meq n (tri d e) (tri d' e').
Proof.
  intros Hd He a b Ha Hb. unfold tri. eqbs; auto.
Qed.

(* ---- entries of rotM ---- *)
Section RotEntries.
  Variables (i : nat) (c s : R) (M : mat).
  Lemma rotM_oo a b : a <> i -> a <> S i -> b <> i -> b <> S i -> rotM i c s M a b = M a b.
  Proof. intros. unfold rotM, rowrot, colrot. eqbs. reflexivity. Qed.
  Lemma rotM_oi a : a <> i -> a <> S i -> rotM i c s M a i = c * M a i - s * M a (S i).
  Proof. intros. unfold rotM, rowrot, colrot. eqbs. reflexivity. Qed.
  Lemma rotM_oj a : a <> i -> a <> S i -> rotM i c s M a (S i) = s * M a i + c * M a (S i).
  Proof. intros. unfold rotM, rowrot, colrot. eqbs. reflexivity. Qed.
  Lemma rotM_io b : b <> i -> b <> S i -> rotM i c s M i b = c * M i b - s * M (S i) b.
  Proof. intros. unfold rotM, rowrot, colrot. eqbs. reflexivity. Qed.
  Lemma rotM_jo b : b <> i -> b <> S i -> rotM i c s M (S i) b = s * M i b + c * M (S i) b.
  Proof. intros. unfold rotM, rowrot, colrot. eqbs. reflexivity. Qed.
  Lemma rotM_ii : rotM i c s M i i = c * (c * M i i - s * M i (S i)) - s * (c * M (S i) i - s * M (S i) (S i)).
  Proof. unfold rotM, rowrot, colrot. eqbs. reflexivity. Qed.
  Lemma rotM_ij : rotM i c s M i (S i) = c * (s * M i i + c * M i (S i)) - s * (s * M (S i) i + c * M (S i) (S i)).
  Proof. unfold rotM, rowrot, colrot. eqbs. reflexivity. Qed.
  Lemma rotM_jj : rotM i c s M (S i) (S i) = s * (s * M i i + c * M i (S i)) + c * (s * M (S i) i + c * M (S i) (S i)).
  Proof. unfold rotM, rowrot, colrot. eqbs. reflexivity. Qed.
End RotEntries.

Lemma rotM_sym n i c s M : (S i < n)%nat -> msym n M -> msym n (rotM i c s M).
Proof.
  intros Hi HM a b Ha Hb.
  assert (E1 : M (S i) i = M i (S i)) by (apply HM; lia).
  assert (E2 : M a i = M i a) by (apply HM; lia).
  assert (E3 : M a (S i) = M (S i) a) by (apply HM; lia).
  assert (E4 : M b i = M i b) by (apply HM; lia).
  assert (E5 : M b (S i) = M (S i) b) by (apply HM; lia).
  assert (E6 : M a b = M b a) by (apply HM; lia).
  unfold rotM, rowrot, colrot. eqbs; try rewrite E1; try rewrite E2; try rewrite E3; try rewrite E4;
    try rewrite E5; try rewrite E6; try ring.
Qed.

Section Shape.
  Variables (n l : nat) (f : R) (d0 e0 : nat -> R).

  (* the ghost matrix when the rotations m-1, ..., i have been applied *)
  Definition Sw (i : nat) (M : mat) (c s p : R) (d e : nat -> R) : Prop :=
    msym n M /\
    (forall a b, (a <= b)%nat -> (b < i)%nat -> (b < n)%nat -> M a b = tri (dt l f d0) e0 a b) /\
    (forall a b, (a < i)%nat -> (i <= b)%nat -> (b < n)%nat ->
       M a b = if S a =? i then (if b =? i then c * e0 a else if b =? S i then s * e0 a else 0) else 0) /\
    (forall b, (i <= b)%nat -> (b < n)%nat ->
       M i b = if b =? i then c * p + f else if b =? S i then s * p else 0) /\
    (forall a b, (i < a)%nat -> (a <= b)%nat -> (b < n)%nat ->
       M a b = if a =? b then d a + f else if b =? S a then e a else 0).

  (* start of the sweep: no rotation yet *)
  Lemma Sw_init m : (l < m)%nat -> (m < n)%nat -> e0 m = 0 ->
    Sw m (tri (dt l f d0) e0) 1 0 (d0 m) d0 e0.
  Proof.
    intros Hlm Hmn Hem. unfold Sw. split; [|split; [|split; [|split]]].
    - intros a b _ _. apply tri_sym.
    - intros a b Hab Hb _. reflexivity.
    - intros a b Ha Hb Hbn. unfold tri. eqbs; try ring.
    - intros b Hb Hbn. unfold tri, dt.
      destruct (Nat.ltb_spec m l); [lia|]. eqbs; try ring. rewrite Hem. ring.
    - intros a b Ha Hab Hbn. unfold tri, dt.
      destruct (Nat.ltb_spec a l); [lia|]. eqbs; reflexivity.
  Qed.

  (* one rotation *)
  Lemma Sw_step i M c s p d e r c' s' :
    (l <= i)%nat -> (S i < n)%nat ->
    Sw (S i) M c s p d e ->
    r <> 0 -> r * r = p * p + e0 i * e0 i -> c' = p / r -> s' = e0 i / r ->
    Sw i (rotM i c' s' M) c' s' (c' * d0 i - s' * (c * e0 i))
       (vupd d (S i) (c * p + s' * (c' * (c * e0 i) + s' * d0 i)))
       (vupd e (S i) (s * r)).
  Proof.
    intros Hli Hin (Hsym & H1 & H2 & H3 & H4) Hr Hrr Hc' Hs'.
    set (x := e0 i) in *.
    assert (K1 : c' * c' + s' * s' = 1).
    { subst c' s'. field_simplify_eq; [|exact Hr]. nra. }
    assert (K2 : c' * x = s' * p) by (subst c' s'; field; exact Hr).
    assert (K3 : s' * x + c' * p = r).
    { subst c' s'. field_simplify_eq; [|exact Hr]. nra. }
    (* the entries of M around the rotation plane *)
    assert (Mii : M i i = d0 i + f).
    { rewrite H1 by lia. unfold tri, dt. rewrite Nat.eqb_refl.
      destruct (Nat.ltb_spec i l); [lia|reflexivity]. }
    assert (Mij : M i (S i) = c * x).
    { rewrite H2 by lia. rewrite !Nat.eqb_refl. reflexivity. }
    assert (Mji : M (S i) i = c * x) by (rewrite Hsym by lia; exact Mij).
    assert (Mjj : M (S i) (S i) = c * p + f).
    { rewrite H3 by lia. rewrite Nat.eqb_refl. reflexivity. }
    unfold Sw. split; [|split; [|split; [|split]]].
    - apply rotM_sym; assumption.
    - intros a b Hab Hb Hbn. rewrite rotM_oo by lia. apply H1; lia.
    - intros a b Ha Hb Hbn.
      destruct (Nat.eq_dec b i) as [->|Hbi]; [|destruct (Nat.eq_dec b (S i)) as [->|Hbi1]].
      + rewrite rotM_oi by lia. rewrite (H1 a i) by lia. rewrite (H2 a (S i)) by lia.
        unfold tri. eqbs; ring.
      + rewrite rotM_oj by lia. rewrite (H1 a i) by lia. rewrite (H2 a (S i)) by lia.
        unfold tri. eqbs; ring.
      + rewrite rotM_oo by lia. rewrite (H2 a b) by lia. eqbs; reflexivity.
    - intros b Hb Hbn.
      destruct (Nat.eq_dec b i) as [->|Hbi]; [|destruct (Nat.eq_dec b (S i)) as [->|Hbi1]].
      + rewrite rotM_ii, Mii, Mij, Mji, Mjj. rewrite Nat.eqb_refl.
        replace (c' * (c' * (d0 i + f) - s' * (c * x)) - s' * (c' * (c * x) - s' * (c * p + f)))
          with (c' * (c' * d0 i - s' * (c * x)) + f + f * (c' * c' + s' * s' - 1) - s' * c * (c' * x - s' * p)) by ring.
        rewrite K1, K2. ring.
      + rewrite rotM_ij, Mii, Mij, Mji, Mjj. eqbs.
        replace (c' * (s' * (d0 i + f) + c' * (c * x)) - s' * (s' * (c * x) + c' * (c * p + f)))
          with (s' * (c' * d0 i - s' * (c * x)) + c' * c * (c' * x - s' * p)) by ring.
        rewrite K2. ring.
      + rewrite rotM_io by lia. rewrite (H2 i b) by lia. rewrite (H3 b) by lia.
        eqbs; try ring.
        replace (c' * (s * e0 i) - s' * (s * p)) with (s * (c' * x - s' * p)) by (unfold x; ring).
        rewrite K2. ring.
    - intros a b Ha Hab Hbn.
      destruct (Nat.eq_dec a (S i)) as [->|Hai].
      + destruct (Nat.eq_dec b (S i)) as [->|Hbi1].
        * rewrite rotM_jj, Mii, Mij, Mji, Mjj. rewrite Nat.eqb_refl, vupd_eq.
          replace (s' * (s' * (d0 i + f) + c' * (c * x)) + c' * (s' * (c * x) + c' * (c * p + f)))
            with (c * p + s' * (c' * (c * x) + s' * d0 i) + f
                  + (f + c * p) * (c' * c' + s' * s' - 1) + s' * c * (c' * x - s' * p)) by ring.
          rewrite K1, K2. ring.
        * rewrite rotM_jo by lia. rewrite (H2 i b) by lia. rewrite (H3 b) by lia.
          rewrite !vupd_eq. eqbs; try ring.
          replace (s' * (s * e0 i) + c' * (s * p)) with (s * (s' * x + c' * p)) by (unfold x; ring).
          rewrite K3. reflexivity.
      + rewrite rotM_oo by lia. rewrite (H4 a b) by lia.
        rewrite !vupd_neq by lia. reflexivity.
  Qed.

  (* end of the sweep: with e0 = 0 in front of l the ghost matrix is tridiagonal again *)
  Lemma Sw_final M c s p d e d' e' :
    (l < n)%nat ->
    (forall a, (a < l)%nat -> e0 a = 0) ->
    Sw l M c s p d e ->
    (forall a, (a < l)%nat -> d' a = d0 a /\ e' a = e0 a) ->
    d' l = c * p -> e' l = s * p ->
    (forall a, (l < a)%nat -> d' a = d a /\ e' a = e a) ->
    meq n M (tri (dt l f d') e').
  Proof.
    intros Hln He0 (Hsym & H1 & H2 & H3 & H4) Hlo Hdl Hel Hhi.
    assert (Hup : forall a b, (a <= b)%nat -> (b < n)%nat -> M a b = tri (dt l f d') e' a b).
    { intros a b Hab Hbn.
      destruct (Nat.lt_ge_cases b l) as [Hbl|Hbl].
      - rewrite H1 by lia. unfold tri, dt.
        destruct (Nat.ltb_spec a l); [|lia]. destruct (Nat.ltb_spec b l); [|lia].
        destruct (Hlo a ltac:(lia)) as [-> ->]. destruct (Hlo b ltac:(lia)) as [_ ->].
        reflexivity.
      - destruct (Nat.lt_ge_cases a l) as [Hal|Hal].
        + rewrite H2 by lia. rewrite (He0 a) by lia. unfold tri.
          destruct (Hlo a ltac:(lia)) as [_ Hea]. rewrite Hea, (He0 a) by lia.
          eqbs; ring.
        + destruct (Nat.eq_dec a l) as [->|Hal'].
          * rewrite H3 by lia. unfold tri, dt. destruct (Nat.ltb_spec l l); [lia|].
            rewrite Hdl, Hel. eqbs; reflexivity.
          * rewrite H4 by lia. unfold tri, dt. destruct (Nat.ltb_spec a l); [lia|].
            destruct (Hhi a ltac:(lia)) as [-> ->]. eqbs; reflexivity. }
    intros a b Ha Hb. destruct (Nat.le_ge_cases a b) as [Hab|Hab].
    - apply Hup; assumption.
    - rewrite Hsym by assumption. rewrite tri_sym. apply Hup; assumption.
  Qed.
End Shape.
