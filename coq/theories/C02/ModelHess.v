(* C02 — executable models of `elmhes` and `eltran` of src/linalg/evd.rs (reduction of a general square
   matrix to upper Hessenberg form by stabilised elementary similarity transformations, and the
   accumulation of the transformation).  Definitions only; generic in `Ops T`; arrays and loops in the
   vocabulary of C02/FunMat.v.  Same loop order, operation order, comparison direction and tie-breaking
   as the Rust code.

   The order n of the matrix is a parameter.  The Rust code evaluates `n - 1` on `usize`, which
   underflows for n = 0 (panic in a debug build; in a release build the wrapped bound makes both loops
   empty): the model is only meant for n >= 1 (hypothesis of every theorem in ProofsHess.v; for n = 0
   the `nat` subtraction below simply makes both loops empty). *)
From Coq Require Import List Arith Bool.
From SC Require Import Base.Num C02.FunMat.
Import ListNotations.

Section HessModel.
  Context {T : Type} (O : Ops T).

  (* ---- elmhes ---- *)

  (* let mut x = 0; let mut i = m;
     for j in m..n { if A[j][m-1].abs() > x.abs() { x = A[j][m-1]; i = j; } }      (first maximal |.|) *)
  Definition elm_pivot (n m : nat) (A : nat -> nat -> T) : T * nat :=
    forn m (n - m) (fun j (s : T * nat) =>
      let a := A j (m - 1) in
      if O.(oltb) (O.(oabs) (fst s)) (O.(oabs) a) then (a, j) else s) (O.(o0), m).

  (* for j in lo..lo+len { let swap = A[i][j]; A[i][j] = A[m][j]; A[m][j] = swap; } *)
  Definition swap_rows (lo len i m : nat) (A : nat -> nat -> T) : nat -> nat -> T :=
    forn lo len (fun j A =>
      let s := A i j in
      let am := A m j in
      mupd (mupd A i j am) m j s) A.

  (* for j in 0..n { let swap = A[j][i]; A[j][i] = A[j][m]; A[j][m] = swap; } *)
  Definition swap_cols (n i m : nat) (A : nat -> nat -> T) : nat -> nat -> T :=
    forn 0 n (fun j A =>
      let s := A j i in
      let am := A j m in
      mupd (mupd A j i am) j m s) A.

  (* for j in m..n { A[i][j] -= y * A[m][j]; } *)
  Definition elm_elim_row (n m i : nat) (y : T) (A : nat -> nat -> T) : nat -> nat -> T :=
    forn m (n - m) (fun j A =>
      let v := O.(osub) (A i j) (O.(omul) y (A m j)) in
      mupd A i j v) A.

  (* for j in 0..n { A[j][m] += y * A[j][i]; } *)
  Definition elm_elim_col (n m i : nat) (y : T) (A : nat -> nat -> T) : nat -> nat -> T :=
    forn 0 n (fun j A =>
      let v := O.(oadd) (A j m) (O.(omul) y (A j i)) in
      mupd A j m v) A.

  (* body of `for i in (m+1)..n` *)
  Definition elm_elim_body (n m : nat) (x : T) (i : nat) (A : nat -> nat -> T) : nat -> nat -> T :=
    let y := A i (m - 1) in
    if negb (O.(oeqb) y O.(o0)) then
      let y := O.(odiv) y x in
      let A := mupd A i (m - 1) y in
      let A := elm_elim_row n m i y A in
      elm_elim_col n m i y A
    else A.

  Definition elm_elim (n m : nat) (x : T) (A : nat -> nat -> T) : nat -> nat -> T :=
    forn (m + 1) (n - (m + 1)) (elm_elim_body n m x) A.

  (* body of `for m in 1..n-1`; state = (A, perm) *)
  Definition elm_step (n m : nat) (s : (nat -> nat -> T) * (nat -> nat)) : (nat -> nat -> T) * (nat -> nat) :=
    let A := fst s in
    let perm := snd s in
    let xi := elm_pivot n m A in
    let x := fst xi in
    let i := snd xi in
    let perm := vupd perm m i in
    let A := if negb (i =? m) then swap_cols n i m (swap_rows (m - 1) (n - (m - 1)) i m A) else A in
    let A := if negb (O.(oeqb) x O.(o0)) then elm_elim n m x A else A in
    (A, perm).

  (* the state after the iterations m = 1 .. k of the outer loop *)
  Definition elmhes_upto (n : nat) (A : nat -> nat -> T) (k : nat) : (nat -> nat -> T) * (nat -> nat) :=
    forn 1 k (elm_step n) (A, fun _ => 0).

  (* let mut perm = vec![0; n]; for m in 1..n-1 { .. }; perm *)
  Definition elmhes (n : nat) (A : nat -> nat -> T) : (nat -> nat -> T) * (nat -> nat) :=
    elmhes_upto n A (n - 2).

  (* ---- eltran ---- *)

  (* for k in mp+1..n { V[k][mp] = A[k][mp-1]; } *)
  Definition elt_col (n mp : nat) (A V : nat -> nat -> T) : nat -> nat -> T :=
    forn (mp + 1) (n - (mp + 1)) (fun k V => let a := A k (mp - 1) in mupd V k mp a) V.

  (* for j in mp..n { V[mp][j] = V[i][j]; V[i][j] = 0; }  V[i][mp] = 1; *)
  Definition elt_swap (n mp i : nat) (V : nat -> nat -> T) : nat -> nat -> T :=
    let V := forn mp (n - mp) (fun j V =>
               let v := V i j in
               mupd (mupd V mp j v) i j O.(o0)) V in
    mupd V i mp O.(o1).

  (* body of `for mp in (1..n-1).rev()` *)
  Definition elt_step (n : nat) (A : nat -> nat -> T) (perm : nat -> nat) (mp : nat)
             (V : nat -> nat -> T) : nat -> nat -> T :=
    let V := elt_col n mp A V in
    let i := perm mp in
    if negb (i =? mp) then elt_swap n mp i V else V.

  Definition eltran (n : nat) (A : nat -> nat -> T) (perm : nat -> nat) (V : nat -> nat -> T)
    : nat -> nat -> T :=
    ford 1 (n - 2) (elt_step n A perm) V.

  (* the identity as evd_mut builds it (DenseMatrix::eye) *)
  Definition eye : nat -> nat -> T := fun i j => if i =? j then O.(o1) else O.(o0).

  (* ---- wrappers on lists of rows (n = number of rows; the matrix is assumed square) ---- *)
  Definition elmhes_rows (A : list (list T)) : list (list T) * list nat :=
    let n := length A in
    let r := elmhes n (mfun O.(o0) A) in
    (mrows n (fst r), vlist n (snd r)).

  Definition eltran_rows (A : list (list T)) (perm : list nat) : list (list T) :=
    let n := length A in
    mrows n (eltran n (mfun O.(o0) A) (vfun 0 perm) eye).
End HessModel.
