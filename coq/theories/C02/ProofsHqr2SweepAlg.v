(* C02 — hqr2, first half, over R: algebra of one step k of the double-shift sweep.
   P = I - u v^T, u = (x, y, z), v = (1, q, r) on the coordinates k, k+1, k+2:
     frow = P * M (all columns),  fcol = M * P (all rows): the ghost (logical) matrix;
     srow / scol: what the code stores (columns >= k; rows <= mmin; entry (k, k-1) assigned).
   `Rel` relates the ghost matrix M and the stored array A before step k (upper Hessenberg part equal,
   bulge entries stored, everything else below the sub-diagonal logically zero, storage ahead of the bulge
   clean); `row_step` and `col_step` show it is preserved. *)
From Coq Require Import List Arith Bool Lia Reals Lra Psatz.
From SC Require Import Base.Num C02.FunMat C02.ProofsHouse.
Local Open Scope R_scope.

Ltac cmp :=
  repeat (match goal with
          | |- context[Nat.eqb ?x ?y] =>
              let E := fresh "E" in destruct (Nat.eqb_spec x y) as [E|E]; [try (first [subst x | subst y])|]; try lia
          | |- context[Nat.leb ?x ?y] =>
              let E := fresh "E" in destruct (Nat.leb_spec x y) as [E|E]; try lia
          | |- context[Nat.ltb ?x ?y] =>
              let E := fresh "E" in destruct (Nat.ltb_spec x y) as [E|E]; try lia
          end); cbn [andb orb negb].

(* ---------- vectors on three consecutive coordinates ---------- *)
Definition vec3 (k : nat) (a b c : R) : nat -> R :=
  fun i => if i =? k then a else if i =? S k then b else if i =? S (S k) then c else 0.

Lemma vec3_0 k a b c : vec3 k a b c k = a.
Proof. unfold vec3. cmp. reflexivity. Qed.
Lemma vec3_1 k a b c : vec3 k a b c (S k) = b.
Proof. unfold vec3. cmp. reflexivity. Qed.
Lemma vec3_2 k a b c : vec3 k a b c (S (S k)) = c.
Proof. unfold vec3. cmp. reflexivity. Qed.
Lemma vec3_out k a b c i : i <> k -> i <> S k -> i <> S (S k) -> vec3 k a b c i = 0.
Proof. intros. unfold vec3. cmp. reflexivity. Qed.

Lemma rsum_supp3 n k f :
  (forall j, (j < n)%nat -> j <> k -> j <> S k -> j <> S (S k) -> f j = 0) ->
  rsum n f = (if (k <? n)%nat then f k else 0) + (if (S k <? n)%nat then f (S k) else 0)
             + (if (S (S k) <? n)%nat then f (S (S k)) else 0).
Proof.
  induction n as [|n IH]; intros H; cbn [rsum].
  - cmp. ring.
  - rewrite IH by (intros; apply H; lia).
    destruct (Nat.eq_dec n k) as [->|H0]; [cmp; ring|].
    destruct (Nat.eq_dec n (S k)) as [->|H1]; [cmp; ring|].
    destruct (Nat.eq_dec n (S (S k))) as [->|H2]; [cmp; ring|].
    rewrite (H n) by lia. cmp; ring.
Qed.

Lemma rsum_vec3 n k a b c (f : nat -> R) : (S k < n)%nat -> ((S (S k) < n)%nat \/ c = 0) ->
  rsum n (fun j => vec3 k a b c j * f j) = a * f k + b * f (S k) + c * f (S (S k)).
Proof.
  intros Hk Hc. rewrite (rsum_supp3 n k).
  - rewrite vec3_0, vec3_1, vec3_2. destruct Hc as [Hc| ->]; cmp; ring.
  - intros j _ H0 H1 H2. rewrite vec3_out by assumption. ring.
Qed.
Lemma rsum_vec3_r n k a b c (f : nat -> R) : (S k < n)%nat -> ((S (S k) < n)%nat \/ c = 0) ->
  rsum n (fun j => f j * vec3 k a b c j) = f k * a + f (S k) * b + f (S (S k)) * c.
Proof.
  intros Hk Hc. rewrite (rsum_ext n _ (fun j => vec3 k a b c j * f j)) by (intros; ring).
  rewrite rsum_vec3 by assumption. ring.
Qed.

(* ---------- P = I - u v^T ---------- *)
Definition hous (u v : nat -> R) : mat := fun i j => mid i j - u i * v j.

Lemma hous_mul_l n u v (X : mat) r c : (r < n)%nat ->
  mmul n (hous u v) X r c = X r c - u r * rsum n (fun j => v j * X j c).
Proof.
  intros Hr. unfold mmul, hous.
  rewrite (rsum_ext n _ (fun j => (if j =? r then 1 else 0) * X j c - u r * (v j * X j c))).
  - rewrite rsum_minus, rsum_scal. rewrite (rsum_delta n r (fun j => X j c)) by exact Hr. reflexivity.
  - intros j _. unfold mid. rewrite (Nat.eqb_sym r j). ring.
Qed.
Lemma hous_mul_r n u v (X : mat) r c : (c < n)%nat ->
  mmul n X (hous u v) r c = X r c - rsum n (fun j => X r j * u j) * v c.
Proof.
  intros Hc. unfold mmul, hous.
  rewrite (rsum_ext n _ (fun j => X r j * (if j =? c then 1 else 0) - (X r j * u j) * v c)).
  - rewrite rsum_minus, rsum_scal_r. rewrite (rsum_delta_r n c (fun j => X r j)) by exact Hc. reflexivity.
  - intros j _. unfold mid. ring.
Qed.
Lemma hous_invol n u v : rsum n (fun j => v j * u j) = 2 -> meq n (mmul n (hous u v) (hous u v)) mid.
Proof.
  intros H r c Hr Hc. rewrite hous_mul_l by exact Hr. unfold hous at 1 2.
  rewrite (rsum_ext n _ (fun j => (if j =? c then 1 else 0) * v j - (v j * u j) * v c))
    by (intros j _; unfold mid; ring).
  rewrite rsum_minus, rsum_scal_r, H. rewrite (rsum_delta n c v) by exact Hc. ring.
Qed.
Lemma hous_sym u v : (forall i j, u i * v j = u j * v i) -> forall i j, hous u v i j = hous u v j i.
Proof. intros H i j. unfold hous, mid. rewrite (Nat.eqb_sym j i), (H i j). reflexivity. Qed.

(* a symmetric involution is orthogonal and acts as a similarity *)
Lemma invol_orth n (P : mat) : (forall i j, P i j = P j i) -> meq n (mmul n P P) mid -> morth n P.
Proof.
  intros Hs HPP. unfold morth. intros i j Hi Hj. rewrite <- (HPP i j Hi Hj).
  unfold mmul, mtr. apply rsum_ext. intros k _. rewrite (Hs k i). reflexivity.
Qed.
Lemma morth_mul n (Q P : mat) : morth n Q -> morth n P -> morth n (mmul n Q P).
Proof.
  unfold morth. intros HQ HP.
  assert (H1 : meq n (mtr (mmul n Q P)) (mmul n (mtr P) (mtr Q))) by (intros i j _ _; apply mtr_mmul).
  rewrite H1. rewrite (mmul_assoc_meq n (mtr P) (mtr Q) (mmul n Q P)).
  rewrite <- (mmul_assoc_meq n (mtr Q) Q P). rewrite HQ. rewrite (mmul_id_l n P). exact HP.
Qed.
(* U Q = Q H,  P P = I,  H' = P H P   ==>   U (Q P) = (Q P) H' *)
Lemma sim_mul n (U Q H P H' : mat) :
  meq n (mmul n P P) mid -> meq n H' (mmul n P (mmul n H P)) ->
  meq n (mmul n U Q) (mmul n Q H) ->
  meq n (mmul n U (mmul n Q P)) (mmul n (mmul n Q P) H').
Proof.
  intros HPP HH' HUQ.
  rewrite <- (mmul_assoc_meq n U Q P). rewrite HUQ. rewrite HH'.
  rewrite (mmul_assoc_meq n Q P (mmul n P (mmul n H P))).
  rewrite <- (mmul_assoc_meq n P P (mmul n H P)). rewrite HPP. rewrite (mmul_id_l n (mmul n H P)).
  rewrite (mmul_assoc_meq n Q H P). reflexivity.
Qed.

(* ---------- the row and column operations, pointwise ---------- *)
Section Ops.
  Variables (k : nat) (x y z q r : R).
  Definition uu : nat -> R := vec3 k x y z.
  Definition vv : nat -> R := vec3 k 1 q r.
  (* ghost *)
  Definition frow (M : mat) : mat := fun i j => M i j - uu i * (M k j + q * M (S k) j + r * M (S (S k)) j).
  Definition fcol (M : mat) : mat := fun i j => M i j - (x * M i k + y * M i (S k) + z * M i (S (S k))) * vv j.
  (* stored *)
  Definition srow (A : mat) : mat := fun i j => if (k <=? j)%nat then frow A i j else A i j.
  Definition scol (mmin : nat) (A : mat) : mat := fun i j => if (i <=? mmin)%nat then fcol A i j else A i j.

  Lemma frow_mmul n M : (S k < n)%nat -> ((S (S k) < n)%nat \/ (z = 0 /\ r = 0)) ->
    meq n (mmul n (hous uu vv) M) (frow M).
  Proof.
    intros Hk Hc i j Hi Hj. rewrite hous_mul_l by exact Hi. unfold frow, vv.
    rewrite rsum_vec3 by (try exact Hk; tauto). ring.
  Qed.
  Lemma fcol_mmul n M : (S k < n)%nat -> ((S (S k) < n)%nat \/ (z = 0 /\ r = 0)) ->
    meq n (mmul n M (hous uu vv)) (fcol M).
  Proof.
    intros Hk Hc i j Hi Hj. rewrite hous_mul_r by exact Hj. unfold fcol, uu.
    rewrite rsum_vec3_r by (try exact Hk; tauto). ring.
  Qed.
End Ops.

(* the step parameters from (p, q, r) and s *)
Section Params.
  Variables (k : nat) (p q r s : R).
  Hypothesis Hs : s <> 0.
  Hypothesis Hss : s * s = p * p + q * q + r * r.
  Hypothesis Hps : p + s <> 0.
  Let x := (p + s) / s.
  Let y := q / s.
  Let z := r / s.
  Let q' := q / (p + s).
  Let r' := r / (p + s).

  Lemma par_vu : 1 * x + q' * y + r' * z = 2.
  Proof. unfold x, y, z, q', r'. field_simplify_eq; [|split; assumption]. nra. Qed.
  Lemma par_sym i j : uu k x y z i * vv k q' r' j = uu k x y z j * vv k q' r' i.
  Proof. unfold uu, vv, vec3, x, y, z, q', r'. cmp; field; auto. Qed.
  (* v . (p, q, r) = s *)
  Lemma par_vc : p + q' * q + r' * r = s.
  Proof. unfold q', r'. field_simplify_eq; [|assumption]. nra. Qed.
  Lemma par_invol n : (S k < n)%nat -> ((S (S k) < n)%nat \/ r = 0) ->
    meq n (mmul n (hous (uu k x y z) (vv k q' r')) (hous (uu k x y z) (vv k q' r'))) mid.
  Proof.
    intros Hk Hc. apply hous_invol. unfold vv.
    rewrite rsum_vec3.
    - unfold uu. rewrite vec3_0, vec3_1, vec3_2. apply par_vu.
    - exact Hk.
    - destruct Hc as [Hc| ->]; [left; exact Hc|right]. unfold r'. unfold Rdiv. ring.
  Qed.
End Params.
