(* C02 — tql2 over R: one whole pass of the inner `loop` (shift step, QL sweep, closing formulas) keeps
   V orthogonal and A V = V T where T = tri (true diagonal) e. *)
From Coq Require Import List Arith Bool Lia Reals Lra Psatz.
From SC Require Import Base.Num C02.FunMat C02.ModelTql2 C02.ProofsTql2Rot C02.ProofsTql2SweepAlg C02.ProofsTql2Sweep.
Import ListNotations.
Local Open Scope R_scope.

Lemma forn_sub_spec h : forall len lo (d : nat -> R) a,
  forn lo len (fun i d => vupd d i (d i - h)) d a =
  if (lo <=? a)%nat && (a <? lo + len)%nat then d a - h else d a.
Proof.
  induction len as [|len IH]; intros lo d a; cbn [forn].
  - destruct (Nat.leb_spec lo a); destruct (Nat.ltb_spec a (lo + 0)); cbn [andb]; try reflexivity; lia.
  - rewrite IH. destruct (Nat.eq_dec a lo) as [->|Hne].
    + rewrite vupd_eq.
      destruct (Nat.leb_spec (S lo) lo); [lia|]. cbn [andb].
      destruct (Nat.leb_spec lo lo); [|lia]. destruct (Nat.ltb_spec lo (lo + S len)); [|lia].
      reflexivity.
    + rewrite vupd_neq by exact Hne.
      destruct (Nat.leb_spec (S lo) a); destruct (Nat.ltb_spec a (S lo + len));
      destruct (Nat.leb_spec lo a); destruct (Nat.ltb_spec a (lo + S len)); cbn [andb]; try reflexivity; lia.
Qed.

(* the shift: r has the sign of p and |r| >= 1, (p + r)(r - p) = 1 *)
Lemma shift_facts g d1 el : el <> 0 ->
  let p := (d1 - g) / (2 * el) in
  let r0 := hypR p 1 in
  let r := if Rltb p 0 then - r0 else r0 in
  p + r <> 0 /\ el * (p + r) - el / (p + r) = d1 - g.
Proof.
  intros Hel p r0 r.
  assert (H0 : r0 * r0 = p * p + 1) by (unfold r0; rewrite hypR_sq; ring).
  assert (H0p : 0 <= r0) by apply hypR_nonneg.
  assert (Hrr : r * r = p * p + 1).
  { unfold r. destruct (Rltb p 0); [|exact H0]. rewrite <- H0. ring. }
  assert (Hne : p + r <> 0).
  { unfold r. destruct (Rltb p 0) eqn:E.
    - apply Rltb_true in E. nra.
    - apply Rltb_false in E. nra. }
  split; [exact Hne|].
  assert (Hinv : / (p + r) = r - p).
  { apply Rmult_eq_reg_l with (p + r); [|exact Hne]. rewrite Rinv_r by exact Hne. nra. }
  unfold Rdiv at 1. rewrite Hinv. unfold p. field. exact Hel.
Qed.

Section Pass.
  Variables (n l m : nat) (A : mat).
  Hypothesis Hlm : (l < m)%nat.
  Hypothesis Hmn : (m < n)%nat.

  Definition QInv (q : qstate) : Prop :=
    morth n (qV q) /\
    meq n (mmul n A (qV q)) (mmul n (qV q) (tri (dt l (qf q) (qd q)) (qe q))) /\
    (forall a, (a < l)%nat -> qe q a = 0) /\
    qe q m = 0 /\
    qe q (n - 1) = 0.

  (* the quantities of the shift step *)
  Definition sh_p (q : qstate) : R := (qd q (S l) - qd q l) / (2 * qe q l).
  Definition sh_r (q : qstate) : R :=
    let r0 := hypR (sh_p q) 1 in if Rltb (sh_p q) 0 then - r0 else r0.
  Definition sh_dl (q : qstate) : R := qe q l / (sh_p q + sh_r q).
  Definition sh_dl1 (q : qstate) : R := qe q l * (sh_p q + sh_r q).
  Definition sh_d2 (q : qstate) : nat -> R := vupd (vupd (qd q) l (sh_dl q)) (S l) (sh_dl1 q).
  Definition sh_h (q : qstate) : R := qd q l - sh_d2 q l.
  Definition sh_d3 (q : qstate) : nat -> R :=
    forn (S (S l)) (n - S (S l)) (fun i d => vupd d i (d i - sh_h q)) (sh_d2 q).

  Lemma ql_sweep_core_eq q :
    let st := rfinal n l m (sh_d3 q) (qe q) (qV q) (qok q) in
    let pn := - rs st * rs2 st * rc3 st * qe q (S l) * re st l / sh_dl1 q in
    ql_sweep_core ROps hypR n l m q =
      mkQS (rV st) (vupd (rd st) l (rc st * pn)) (vupd (re st) l (rs st * pn)) (qf q + sh_h q) (rok st).
  Proof. reflexivity. Qed.

  Lemma ql_sweep_core_ok_mono q : qok (ql_sweep_core ROps hypR n l m q) = true -> qok q = true.
  Proof. rewrite ql_sweep_core_eq. cbv zeta. cbn [qok]. apply rfinal_ok_mono. Qed.

  Lemma sh_d2_l q : sh_d2 q l = sh_dl q.
  Proof. unfold sh_d2. rewrite vupd_neq by lia. apply vupd_eq. Qed.

  Lemma sh_d3_spec q a : (a < n)%nat ->
    sh_d3 q a = if (a <? l)%nat then qd q a
                else if a =? l then sh_dl q
                else if a =? S l then sh_dl1 q
                else qd q a - sh_h q.
  Proof.
    intros Ha. unfold sh_d3. rewrite forn_sub_spec. unfold sh_d2.
    destruct (Nat.ltb_spec a l).
    - destruct (Nat.leb_spec (S (S l)) a); [lia|]. cbn [andb]. rewrite !vupd_neq by lia. reflexivity.
    - destruct (Nat.eqb_spec a l) as [->|Hal].
      + destruct (Nat.leb_spec (S (S l)) l); [lia|]. cbn [andb]. rewrite vupd_neq by lia. apply vupd_eq.
      + destruct (Nat.eqb_spec a (S l)) as [->|Hal1].
        * destruct (Nat.leb_spec (S (S l)) (S l)); [lia|]. cbn [andb]. apply vupd_eq.
        * destruct (Nat.leb_spec (S (S l)) a); [|lia].
          destruct (Nat.ltb_spec a (S (S l) + (n - S (S l)))); [|lia]. cbn [andb].
          rewrite !vupd_neq by lia. reflexivity.
  Qed.

  (* (ii)(a): the shift step subtracts h from every stored d[a], a >= l, and adds it to f *)
  Lemma shift_dt q : qe q l <> 0 ->
    forall a, (a < n)%nat -> dt l (qf q + sh_h q) (sh_d3 q) a = dt l (qf q) (qd q) a.
  Proof.
    intros Hel a Ha.
    destruct (shift_facts (qd q l) (qd q (S l)) (qe q l) Hel) as [Hne Hdiff].
    fold (sh_p q) in Hne, Hdiff. fold (sh_r q) in Hne, Hdiff.
    fold (sh_dl1 q) in Hdiff. fold (sh_dl q) in Hdiff.
    unfold dt. rewrite sh_d3_spec by exact Ha. unfold sh_h. rewrite sh_d2_l.
    destruct (Nat.ltb_spec a l); [reflexivity|].
    destruct (Nat.eqb_spec a l) as [->|Hal]; [ring|].
    destruct (Nat.eqb_spec a (S l)) as [->|Hal1]; [lra|ring].
  Qed.

  Lemma sweep_core_inv q : qe q l <> 0 -> QInv q ->
    qok (ql_sweep_core ROps hypR n l m q) = true -> QInv (ql_sweep_core ROps hypR n l m q).
  Proof.
    intros Hel (HVo & HAV & Helo & Hem & Hen).
    destruct (shift_facts (qd q l) (qd q (S l)) (qe q l) Hel) as [Hne _].
    fold (sh_p q) in Hne. fold (sh_r q) in Hne.
    rewrite ql_sweep_core_eq. cbv zeta.
    set (d0 := sh_d3 q). set (e0 := qe q). set (f := qf q + sh_h q).
    set (st := rfinal n l m d0 e0 (qV q) (qok q)).
    cbn [qok qV qd qe qf]. intros Hok.
    assert (HAV0 : meq n (mmul n A (qV q)) (mmul n (qV q) (tri (dt l f d0) e0))).
    { eapply sim_ext; [apply meq_refl| |exact HAV].
      apply tri_ext; [|reflexivity]. intros a Ha. symmetry. apply shift_dt; assumption. }
    destruct (rfinal_good n l m A f d0 e0 Hlm Hmn Hem (qV q) (qok q) HVo HAV0 Hok)
      as (M & HSw & HAVf & HVf & Hd & He & Hdm & Hem' & _ & HLS).
    fold st in HSw, HAVf, HVf, Hd, He, Hdm, Hem', HLS.
    assert (Hdl1 : sh_dl1 q <> 0).
    { unfold sh_dl1. apply Rmult_integral_contrapositive_currified; assumption. }
    assert (Hd0l : d0 l = sh_dl q).
    { unfold d0. rewrite sh_d3_spec by lia. destruct (Nat.ltb_spec l l); [lia|].
      rewrite Nat.eqb_refl. reflexivity. }
    assert (Hd0l1 : d0 (S l) = sh_dl1 q).
    { unfold d0. rewrite sh_d3_spec by lia. destruct (Nat.ltb_spec (S l) l); [lia|].
      destruct (Nat.eqb_spec (S l) l); [lia|]. rewrite Nat.eqb_refl. reflexivity. }
    assert (Hprod : d0 l * sh_dl1 q = e0 l * e0 l).
    { rewrite Hd0l. unfold sh_dl, sh_dl1, e0. field. exact Hne. }
    assert (Hp : - rs st * rs2 st * rc3 st * e0 (S l) * re st l / sh_dl1 q = rp st).
    { rewrite (He l) by lia. apply (closing_p l m d0 e0 (sh_dl1 q) st); try assumption. apply HLS. lia. }
    rewrite Hp.
    unfold QInv. cbn [qok qV qd qe qf].
    split; [exact HVf|]. split.
    - eapply sim_ext; [apply meq_refl| |exact HAVf].
      eapply (Sw_final n l f d0 e0 M (rc st) (rs st) (rp st) (rd st) (re st)); try lia; try exact HSw.
      + exact Helo.
      + intros a Ha. rewrite !vupd_neq by lia. split; [apply Hd|apply He]; lia.
      + apply vupd_eq.
      + apply vupd_eq.
      + intros a Ha. rewrite !vupd_neq by lia. split; reflexivity.
    - split; [|split].
      + intros a Ha. rewrite vupd_neq by lia. rewrite He by lia. apply Helo. exact Ha.
      + rewrite vupd_neq by lia. rewrite Hem' by lia. exact Hem.
      + rewrite vupd_neq by lia. rewrite Hem' by lia. exact Hen.
  Qed.

  (* re-tabulation *)
  Lemma vtab_eq (v : nat -> R) a : (a < n)%nat -> vtab ROps n v a = v a.
  Proof. intros Ha. unfold vtab, vfun. apply nth_vlist. exact Ha. Qed.
  Lemma mtab_eq (M : mat) a b : (a < n)%nat -> (b < n)%nat -> mtab ROps n M a b = M a b.
  Proof. intros Ha Hb. unfold mtab. apply mfun_mrows; assumption. Qed.

  Lemma qtab_inv q : QInv q -> QInv (qtab ROps n q).
  Proof.
    intros (HVo & HAV & Helo & Hem & Hen). unfold QInv, qtab. cbn [qV qd qe qf].
    assert (HVV : meq n (qV q) (mtab ROps n (qV q))).
    { intros a b Ha Hb. symmetry. apply mtab_eq; assumption. }
    split; [eapply morth_ext; eassumption|]. split.
    - eapply sim_ext; [exact HVV| |exact HAV].
      apply tri_ext; intros a Ha.
      + unfold dt. rewrite vtab_eq by exact Ha. reflexivity.
      + symmetry. apply vtab_eq. exact Ha.
    - split; [|split].
      + intros a Ha. rewrite vtab_eq by lia. apply Helo. exact Ha.
      + rewrite vtab_eq by lia. exact Hem.
      + rewrite vtab_eq by lia. exact Hen.
  Qed.

  (* (ii)(b) + (ii)(a): one pass of the inner loop *)
  Lemma ql_sweep_inv q : qe q l <> 0 -> QInv q ->
    qok (ql_sweep ROps hypR n l m q) = true -> QInv (ql_sweep ROps hypR n l m q).
  Proof.
    intros Hel HQ. unfold ql_sweep. apply sweep_core_inv.
    - unfold qtab. cbn [qe]. rewrite vtab_eq by lia. exact Hel.
    - apply qtab_inv. exact HQ.
  Qed.
  Lemma ql_sweep_ok_mono q : qok (ql_sweep ROps hypR n l m q) = true -> qok q = true.
  Proof. unfold ql_sweep. intros H. apply ql_sweep_core_ok_mono in H. exact H. Qed.

  (* the inner `loop`: on return e[l] = 0 *)
  Lemma ql_loop_ok_mono tst1 : forall fuel q q',
    ql_loop ROps hypR 0 n tst1 l m fuel q = Some q' -> qok q' = true -> qok q = true.
  Proof.
    induction fuel as [|k IH]; intros q q' Hrun Hok; cbn [ql_loop] in Hrun; [discriminate|].
    revert Hrun. set (q1 := ql_sweep ROps hypR n l m q).
    destruct (oleb ROps (oabs ROps (qe q1 l)) (omul ROps tst1 0)); intros Hrun.
    - injection Hrun as <-. apply ql_sweep_ok_mono. exact Hok.
    - apply ql_sweep_ok_mono. fold q1. eapply IH; eassumption.
  Qed.

  Lemma ql_loop_inv tst1 : forall fuel q q',
    qe q l <> 0 -> QInv q ->
    ql_loop ROps hypR 0 n tst1 l m fuel q = Some q' -> qok q' = true ->
    QInv q' /\ qe q' l = 0.
  Proof.
    induction fuel as [|k IH]; intros q q' Hel HQ Hrun Hok; cbn [ql_loop] in Hrun; [discriminate|].
    revert Hrun. rops. set (q1 := ql_sweep ROps hypR n l m q).
    destruct (Rleb (Rabs (qe q1 l)) (tst1 * 0)) eqn:E; intros Hrun.
    - injection Hrun as <-. apply Rleb_true in E.
      assert (He0 : qe q1 l = 0).
      { rewrite Rmult_0_r in E. pose proof (Rabs_pos (qe q1 l)).
        destruct (Req_dec (qe q1 l) 0) as [H0|H0]; [exact H0|].
        pose proof (Rabs_pos_lt _ H0). lra. }
      split; [apply ql_sweep_inv; assumption|exact He0].
    - apply Rleb_false in E. rewrite Rmult_0_r in E.
      assert (Hne : qe q1 l <> 0). { intros H0. rewrite H0, Rabs_R0 in E. lra. }
      apply (IH q1 q' Hne); try assumption.
      apply ql_sweep_inv; try assumption.
      eapply ql_loop_ok_mono; eassumption.
  Qed.
End Pass.
