(* C02 — the symmetric clause as a PARTIAL-CORRECTNESS theorem over the reals.
   `tred2_rows_correct`: tred2 on lists (V orthogonal, A V = V tridiag(d,e)), for every order and
   every symmetric A.
   `evd_sym_partial_correct`: if the exact-arithmetic model of evd(true) (ModelSymEvd.v, eps := 0, i.e.
   'negligible' means 'exactly zero') returns, with the ghost flag true, then the result satisfies
   `evd_sym_ok 0`: A V = V diag(d) and V^T V = I exactly, d non-increasing, e = 0.
   NOT proved: that the model returns (convergence of the QL iteration within 29 sweeps per
   eigenvalue), and nothing about rounding. *)
From Coq Require Import List Arith Bool Lia Reals Lra Permutation FinFun.
From SC Require Import Base.Num C02.Model C02.Validator C02.ProofsSort C02.ProofsSpec C02.FunMat
  C02.ModelTred2 C02.ProofsHouse C02.ProofsTred2 C02.ModelTql2 C02.ProofsTql2Rot C02.ProofsTql2Sweep C02.ProofsTql2
  C02.ModelSymEvd.
Import ListNotations.
Local Open Scope R_scope.

(* ---------- lists <-> functions ---------- *)
Lemma rsum_shift n f : rsum (S n) f = f 0%nat + rsum n (fun k => f (S k)).
Proof. induction n as [|n IH]; cbn [rsum] in *; [ring|]. rewrite IH. ring. Qed.

Lemma rdot_rsum : forall n (u v : list R), length u = n -> length v = n ->
  rdot u v = rsum n (fun k => nth k u 0 * nth k v 0).
Proof.
  unfold rdot. induction n as [|n IH]; intros u v Hu Hv.
  - destruct u; destruct v; cbn in *; try lia. reflexivity.
  - destruct u as [|a u]; destruct v as [|b v]; cbn [length] in *; try lia.
    rewrite rsum_shift. cbn [dot nth]. rewrite (IH u v) by lia. reflexivity.
Qed.

Lemma square_mrows n (M : nat -> nat -> R) : square n (mrows n M).
Proof. split; [apply mrows_length|apply mrows_row_length]. Qed.

Lemma mfun_mrows_meq n (M : mat) : meq n (mfun 0 (mrows n M)) M.
Proof. intros i j Hi Hj. apply mfun_mrows; assumption. Qed.

Lemma nth_rcol_mfun j i (M : list (list R)) : nth i (rcol j M) 0 = mfun 0 M i j.
Proof. rewrite nth_rcol. reflexivity. Qed.

(* the two products of the symmetric clause in the list vocabulary of Validator.v *)
Lemma rdot_cols n (V : list (list R)) i j : square n V ->
  rdot (rcol i V) (rcol j V) = mmul n (mtr (mfun 0 V)) (mfun 0 V) i j.
Proof.
  intros [HV _]. rewrite (rdot_rsum n) by (rewrite rcol_length; exact HV).
  unfold mmul, mtr. apply rsum_ext. intros k _. rewrite !nth_rcol_mfun. reflexivity.
Qed.
Lemma rdot_row_col n (A V : list (list R)) i j : square n A -> square n V -> (i < n)%nat ->
  rdot (nth i A []) (rcol j V) = mmul n (mfun 0 A) (mfun 0 V) i j.
Proof.
  intros HA [HV _] Hi. rewrite (rdot_rsum n).
  - unfold mmul. apply rsum_ext. intros k _. rewrite nth_rcol_mfun. reflexivity.
  - apply (square_row i HA Hi).
  - rewrite rcol_length. exact HV.
Qed.

(* ---------- tred2 on lists ---------- *)
Lemma tred2_rows_fun (A : list (list R)) V d e :
  tred2_rows ROps A = Some (V, d, e) ->
  let n := length A in
  (1 <= n)%nat /\
  exists Vf df ef, tred2 ROps n (mfun 0 A) = (Vf, df, ef) /\
                   V = mrows n Vf /\ d = vlist n df /\ e = vlist n ef.
Proof.
  unfold tred2_rows. cbn [ROps o0]. destruct (length A) as [|n'] eqn:En; [discriminate|].
  destruct (tred2 ROps (S n') (mfun 0 A)) as [[Vf df] ef] eqn:Et. intros H. injection H as <- <- <-.
  cbv zeta. split; [lia|]. exists Vf, df, ef. repeat split; reflexivity.
Qed.

Lemma tridiag_vlist n (d e : nat -> R) : meq n (tridiag (vfun 0 (vlist n d)) (vfun 0 (vlist n e))) (tridiag d e).
Proof.
  intros i j Hi Hj. unfold tridiag, vfun. rewrite !nth_vlist by assumption. reflexivity.
Qed.

Lemma tred2_rows_correct (A : list (list R)) V d e :
  let n := length A in
  square n A ->
  (forall i j, (i < n)%nat -> (j < n)%nat -> nth j (nth i A []) 0 = nth i (nth j A []) 0) ->
  tred2_rows ROps A = Some (V, d, e) ->
  square n V /\ length d = n /\ length e = n /\ nth 0 e 0 = 0 /\
  morth n (mfun 0 V) /\
  meq n (mmul n (mfun 0 A) (mfun 0 V)) (mmul n (mfun 0 V) (tridiag (vfun 0 d) (vfun 0 e))).
Proof.
  intros n HA Hsym Hrun. destruct (tred2_rows_fun A V d e Hrun) as (Hn & Vf & df & ef & Et & -> & -> & ->).
  fold n in Hn, Et |- *.
  pose proof (tred2_correct n (mfun 0 A) Hn Hsym) as H. rewrite Et in H. destruct H as (Ho & Hs & He0).
  split; [apply square_mrows|]. split; [apply vlist_length|]. split; [apply vlist_length|].
  split; [rewrite nth_vlist by lia; exact He0|]. split.
  - apply (morth_meq n Vf _ (mfun_mrows_meq n Vf) Ho).
  - rewrite (mfun_mrows_meq n Vf), (tridiag_vlist n df ef). exact Hs.
Qed.

(* the same in the vocabulary of Validator.v *)
Lemma tred2_rows_correct_lists (A : list (list R)) V d e :
  let n := length A in
  square n A ->
  (forall i j, (i < n)%nat -> (j < n)%nat -> nth j (nth i A []) 0 = nth i (nth j A []) 0) ->
  tred2_rows ROps A = Some (V, d, e) ->
  square n V /\ length d = n /\ length e = n /\ nth 0 e 0 = 0 /\
  (forall i j, (i < n)%nat -> (j < n)%nat -> rdot (rcol i V) (rcol j V) = if i =? j then 1 else 0) /\
  (forall i j, (i < n)%nat -> (j < n)%nat ->
     rdot (nth i A []) (rcol j V)
     = rsum n (fun k => nth k (nth i V []) 0 * tridiag (vfun 0 d) (vfun 0 e) k j)).
Proof.
  intros n HA Hsym Hrun.
  destruct (tred2_rows_correct A V d e HA Hsym Hrun) as (HV & Hd & He & He0 & Ho & Hs).
  split; [exact HV|]. split; [exact Hd|]. split; [exact He|]. split; [exact He0|]. split.
  - intros i j Hi Hj. rewrite (rdot_cols n) by exact HV. apply Ho; assumption.
  - intros i j Hi Hj. rewrite (rdot_row_col n) by assumption. apply Hs; assumption.
Qed.

(* ---------- the whole symmetric solver ---------- *)
Lemma nth_transpose_rows n (M : list (list R)) i j : (i < n)%nat -> (j < n)%nat ->
  nth j (nth i (transpose_rows 0 n M) []) 0 = nth i (nth j M []) 0.
Proof. intros Hi Hj. unfold transpose_rows. exact (mfun_mrows n (fun j i => mfun 0 M i j) 0 i j Hi Hj). Qed.

Lemma evd_sym_partial_correct (A : list (list R)) V d e :
  let n := length A in
  square n A ->
  (forall i j, (i < n)%nat -> (j < n)%nat -> nth j (nth i A []) 0 = nth i (nth j A []) 0) ->
  evd_sym_model ROps hypR 0 A = Some (V, d, e, true) ->
  evd_sym_ok 0 A V d e.
Proof.
  intros n HA Hsym Hrun. unfold evd_sym_model in Hrun. fold n in Hrun.
  destruct (tred2_rows ROps A) as [[[V1 d1] e1]|] eqn:E1; [|discriminate].
  destruct (tql2_ql_rows ROps hypR 0 V1 d1 e1) as [[[[V2 d2] e2] ok]|] eqn:E2; [|discriminate].
  cbn [ROps o0] in Hrun.
  destruct (tql2_sort_ops ROps d2 (transpose_rows 0 n V2)) as [d3 C3] eqn:E3.
  injection Hrun as <- <- <- ->.
  destruct (tred2_rows_correct A V1 d1 e1 HA Hsym E1) as (HV1 & Hd1 & He1 & _ & Ho1 & Hs1). fold n in HV1, Hd1, He1, Ho1, Hs1.
  pose proof (tql2_ql_rows_partial_correct (mfun 0 A) V1 d1 e1 V2 d2 e2) as H2. cbv zeta in H2.
  rewrite Hd1 in H2. destruct (H2 Ho1 Hs1 E2) as (Hd2 & He2 & Ho2 & Hs2). clear H2.
  assert (HC : length (transpose_rows 0 n V2) = length d2).
  { unfold transpose_rows. rewrite mrows_length. symmetry. exact Hd2. }
  destruct (tql2_sort_desc_R d2 (transpose_rows 0 n V2) d3 C3 HC E3) as (Hd3 & HC3 & Hperm & Hsorted).
  rewrite Hd2 in Hd3, HC3, Hsorted.
  (* the permutation as a function on indices *)
  apply Permutation_sym in Hperm.
  apply (Permutation_nth _ _ (0, [])) in Hperm. cbv zeta in Hperm.
  rewrite !combine_length, HC, Hd2, Hd3, HC3, !Nat.min_id in Hperm.
  destruct Hperm as (_ & f & Hf & Hinj & Hnth).
  assert (Hd3f : forall x, (x < n)%nat -> nth x d3 0 = nth (f x) d2 0).
  { intros x Hx. pose proof (Hnth x Hx) as H. rewrite !combine_nth in H by lia.
    injection H as H _. exact H. }
  assert (HC3f : forall x, (x < n)%nat -> nth x C3 [] = nth (f x) (transpose_rows 0 n V2) []).
  { intros x Hx. pose proof (Hnth x Hx) as H. rewrite !combine_nth in H by lia.
    injection H as _ H. exact H. }
  set (Vf := mfun 0 (transpose_rows 0 n C3)).
  assert (EVf : forall i x, (i < n)%nat -> (x < n)%nat -> Vf i x = mfun 0 V2 i (f x)).
  { intros i x Hi Hx. unfold Vf, mfun. rewrite nth_transpose_rows by assumption.
    rewrite HC3f by exact Hx. rewrite nth_transpose_rows by (try apply Hf; assumption). reflexivity. }
  assert (HVsq : square n (transpose_rows 0 n C3)) by apply square_mrows.
  unfold evd_sym_ok. fold n.
  split; [exact HA|]. split; [exact HVsq|]. split; [exact Hd3|].
  split; [rewrite <- Hd1; clear - E2; unfold tql2_ql_rows in E2;
          destruct (tql2_ql ROps hypR 0 (length d1) (mfun (o0 ROps) V1) (vfun (o0 ROps) d1) (vfun (o0 ROps) e1)) as [[[[a b] c] k]|];
          [injection E2 as _ _ <- _; rewrite vlist_length; reflexivity|discriminate]|].
  split; [|split; [|split]].
  - intros i j Hi Hj. rewrite Rmult_0_l.
    replace (rresid A (rcol j (transpose_rows 0 n C3)) (nth j d3 0) i) with 0; [rewrite Rabs_R0; lra|].
    unfold rresid, resid. fold rdot. rewrite (rdot_row_col n A (transpose_rows 0 n C3) i j HA HVsq Hi).
    rewrite nth_rcol_mfun. fold Vf. rewrite Hd3f by exact Hj.
    rewrite (EVf i j Hi Hj).
    assert (E : mmul n (mfun 0 A) Vf i j = mmul n (mfun 0 A) (mfun 0 V2) i (f j)).
    { unfold mmul. apply rsum_ext. intros k Hk. rewrite EVf by assumption. reflexivity. }
    rewrite E. rewrite (Hs2 i (f j) Hi (Hf j Hj)).
    unfold mmul. rewrite (rsum_single n (f j)).
    + unfold mdiag, vfun. rewrite Nat.eqb_refl. ring.
    + apply Hf. exact Hj.
    + intros k Hk Hne. unfold mdiag. destruct (Nat.eqb_spec k (f j)); [contradiction|ring].
  - intros i j Hi Hj.
    replace (rgram (transpose_rows 0 n C3) i j) with 0; [rewrite Rabs_R0; lra|].
    unfold rgram, gram. fold rdot rcol. rewrite (rdot_cols n (transpose_rows 0 n C3) i j HVsq). fold Vf.
    assert (E : mmul n (mtr Vf) Vf i j = mmul n (mtr (mfun 0 V2)) (mfun 0 V2) (f i) (f j)).
    { unfold mmul, mtr. apply rsum_ext. intros k Hk. rewrite !EVf by assumption. reflexivity. }
    rewrite E. rewrite (Ho2 (f i) (f j) (Hf i Hi) (Hf j Hj)). unfold mid.
    destruct (Nat.eqb_spec i j) as [->|Hne].
    + rewrite Nat.eqb_refl. ring.
    + destruct (Nat.eqb_spec (f i) (f j)) as [Heq|_]; [|ring].
      exfalso. apply Hne. apply Hinj; assumption.
  - intros j Hj. apply Hsorted; lia.
  - exact He2.
Qed.

(* ---------- one plane rotation of the QL sweep preserves the invariant ---------- *)
(* r = p.hypot(e_i) <> 0, c = p / r, s = e_i / r (the code's formulas): the update of columns i, i+1 of V
   keeps V orthogonal and turns A V = V M into A V' = V' (G^T M G). *)
Lemma ql_rotation_invariant n (A V M : mat) i p ei :
  (S i < n)%nat -> hypR p ei <> 0 ->
  let r := hypR p ei in
  let c := p / r in
  let s := ei / r in
  let V' := rot_cols ROps n i c s V in
  morth n V -> meq n (mmul n A V) (mmul n V M) ->
  morth n V' /\ meq n (mmul n A V') (mmul n V' (ProofsTql2Rot.rotM i c s M)).
Proof.
  intros Hi Hr r c s V' Ho Hs.
  assert (Hcs : c * c + s * s = 1).
  { unfold c, s. pose proof (hypR_sq p ei) as Hsq. fold r in Hsq, Hr.
    replace (p / r * (p / r) + ei / r * (ei / r)) with ((p * p + ei * ei) / (r * r)) by (field; exact Hr).
    rewrite <- Hsq. field. exact Hr. }
  assert (HV' : meq n (ProofsTql2Rot.colrot i c s V) V').
  { intros a b Ha Hb. unfold V'. symmetry. apply ProofsTql2Rot.rot_cols_spec; [lia|exact Ha]. }
  split.
  - apply (morth_ext n _ _ HV'). apply ProofsTql2Rot.morth_colrot; assumption.
  - apply (sim_ext n A _ _ _ _ HV' (meq_refl n _)). apply ProofsTql2Rot.sim_colrot; assumption.
Qed.
