(* C02 — elmhes + eltran over the reals, for every order n >= 1 and every matrix A:
   with (A', perm) = elmhes A, H = the upper Hessenberg part of A' and Z = eltran (A', I, perm):
     A Z = Z H,   Z is invertible,   Z = (P_1 L_1) (P_2 L_2) ... (P_{n-2} L_{n-2})
   where P_m is the transposition m <-> perm[m] and L_m = I + sum_{r>m} A'[r][m-1] e_r e_m^T is unit lower
   triangular with the multipliers STORED in A' below the sub-diagonal; first row and column of Z are
   those of the identity. *)
From Coq Require Import List Arith Bool Lia Reals Lra Psatz Setoid Morphisms.
Import ListNotations.
From SC Require Import Base.Num C02.FunMat C02.ModelHess C02.ProofsHessAlg C02.ProofsHessLoops C02.ProofsHessStep.
Local Open Scope R_scope.

(* the product (P_lo L_lo) (P_{lo+1} L_{lo+1}) ... (P_{lo+len-1} L_{lo+len-1}) read off (A', perm) *)
Fixpoint Zprod (n : nat) (A : mat) (perm : nat -> nat) (lo len : nat) : mat :=
  match len with
  | 0%nat => mid
  | S l => mmul n (Nmat n lo (perm lo) A) (Zprod n A perm (S lo) l)
  end.

(* ---- the sequence of states of the outer loop of elmhes ---- *)
Lemma upto_succ n (A : mat) k :
  elmhes_upto ROps n A (S k) = elm_step ROps n (1 + k) (elmhes_upto ROps n A k).
Proof. unfold elmhes_upto. apply forn_snoc. Qed.

(* what iteration k wrote in columns < k and in perm[1..k] is final *)
Lemma upto_frame n (A : mat) k d :
  (k + d + 2 <= n)%nat ->
  (forall r c, (c < k)%nat -> fst (elmhes_upto ROps n A (k + d)) r c = fst (elmhes_upto ROps n A k) r c) /\
  (forall j, (j <= k)%nat -> snd (elmhes_upto ROps n A (k + d)) j = snd (elmhes_upto ROps n A k) j).
Proof.
  induction d as [|d IH]; intros Hd.
  - rewrite Nat.add_0_r. split; intros; reflexivity.
  - destruct (IH ltac:(lia)) as [IH1 IH2].
    replace (k + S d)%nat with (S (k + d)) by lia. rewrite upto_succ.
    pose proof (elm_step_spec n (1 + (k + d)) (elmhes_upto ROps n A (k + d)) ltac:(lia) ltac:(lia)) as HS.
    cbv zeta in HS. destruct HS as (_ & HS2 & HS3 & _).
    split.
    + intros r c Hc. rewrite HS3 by lia. apply IH1. exact Hc.
    + intros j Hj. rewrite HS2 by lia. apply IH2. exact Hj.
Qed.

(* iteration m, expressed with the FINAL matrix and perm *)
Lemma upto_step n (A : mat) m :
  (1 <= m)%nat -> (m + 1 < n)%nat ->
  let A' := fst (elmhes ROps n A) in
  let perm := snd (elmhes ROps n A) in
  (m <= perm m < n)%nat /\
  simrel n (red m (fst (elmhes_upto ROps n A (m - 1)))) (Nmat n m (perm m) A')
           (red (m + 1) (fst (elmhes_upto ROps n A m))).
Proof.
  intros Hm Hmn. cbv zeta. unfold elmhes.
  pose proof (elm_step_spec n m (elmhes_upto ROps n A (m - 1)) Hm Hmn) as HS. cbv zeta in HS.
  replace (elm_step ROps n m (elmhes_upto ROps n A (m - 1))) with (elmhes_upto ROps n A m) in HS
    by (replace m with (S (m - 1)) at 1 by lia; rewrite upto_succ; f_equal; lia).
  destruct HS as (HS1 & _ & _ & HS4).
  destruct (upto_frame n A m (n - 2 - m) ltac:(lia)) as [HF1 HF2].
  replace (m + (n - 2 - m))%nat with (n - 2)%nat in * by lia.
  rewrite HF2 by lia. split; [exact HS1|].
  assert (HL : meq n (Nmat n m (snd (elmhes_upto ROps n A m) m) (fst (elmhes_upto ROps n A (n - 2))))
                     (Nmat n m (snd (elmhes_upto ROps n A m) m) (fst (elmhes_upto ROps n A m)))).
  { unfold Nmat. apply mmul_ext; [apply meq_refl|]. unfold Lmat. apply colE_ext.
    intros r Hr. rewrite HF1 by lia. reflexivity. }
  rewrite HL. exact HS4.
Qed.

(* ---- the main induction (downwards, along eltran) ---- *)
Lemma eye_mid r c : eye ROps r c = mid r c.
Proof. reflexivity. Qed.

Lemma hess_main n (A : mat) :
  (1 <= n)%nat ->
  let A' := fst (elmhes ROps n A) in
  let perm := snd (elmhes ROps n A) in
  let Z := eltran ROps n A' perm (eye ROps) in
  simrel n A Z (hess A') /\
  (exists W, minv n Z W) /\
  meq n Z (Zprod n A' perm 1 (n - 2)) /\
  (forall r c, (r < n)%nat -> (c < n)%nat -> (r < 1 \/ c < 1)%nat -> Z r c = mid r c).
Proof.
  intros Hn. cbv zeta.
  set (A' := fst (elmhes ROps n A)). set (perm := snd (elmhes ROps n A)).
  pose (P := fun k (V : mat) =>
      (forall r c, (r < n)%nat -> (c < n)%nat -> (r < k \/ c < k)%nat -> V r c = mid r c) /\
      simrel n (red k (fst (elmhes_upto ROps n A (k - 1)))) V (hess A') /\
      (exists W, minv n V W) /\
      meq n V (Zprod n A' perm k (1 + (n - 2) - k))).
  assert (HI : P 1%nat (eltran ROps n A' perm (eye ROps))).
  { unfold eltran. apply (ford_ind P); unfold P.
    - split; [intros; apply eye_mid|]. split; [|split].
      + apply simrel_id. replace (1 + (n - 2) - 1)%nat with (n - 2)%nat by lia.
        apply red_hess.
      + exists mid. apply minv_id.
      + replace (1 + (n - 2) - (1 + (n - 2)))%nat with 0%nat by lia. intros r c _ _. apply eye_mid.
    - intros k V Hk (HF & HS & [W HW] & HZ).
      destruct (upto_step n A k ltac:(lia) ltac:(lia)) as [Hp HN]. fold A' perm in Hp, HN.
      pose proof (elt_step_spec n A' perm k V ltac:(lia) ltac:(lia) Hp
                    ltac:(intros r c Hr Hc Hrc; apply HF; lia)) as HE.
      cbv zeta in HE. destruct HE as [HE1 HE2].
      split; [exact HE2|]. split; [rewrite HE1|split; [|rewrite HE1]].
      + replace (S k - 1)%nat with k in HS by lia. replace (k + 1)%nat with (S k) in HN by lia.
        exact (simrel_trans n _ _ _ _ _ HN HS).
      + destruct (Pmat_minv n k (perm k) ltac:(lia) ltac:(lia)) as [HP1 HP2].
        exists (mmul n W (mmul n (Lmat k (fun r c => - A' r c)) (Pmat k (perm k)))).
        rewrite HE1. apply minv_mul; [|exact HW]. unfold Nmat. apply minv_mul; [split; assumption|].
        assert (HLi : meq n (Lmat k (fun r c => - A' r c))
                            (colE k (fun r => - (if k <? r then A' r (k - 1)%nat else 0)))).
        { apply colE_ext. intros r _. bd; ring. }
        rewrite HLi. apply colE_minv; [lia|]. bd. reflexivity.
      + replace (1 + (n - 2) - k)%nat with (S (1 + (n - 2) - S k)) by lia.
        cbn [Zprod]. rewrite HZ. reflexivity. }
  unfold P in HI. destruct HI as (HF & HS & HW & HZ).
  split; [|split; [exact HW|split; [|exact HF]]].
  - assert (HA : meq n (red 1 (fst (elmhes_upto ROps n A (1 - 1)))) A).
    { intros r c _ _. rewrite red_1. reflexivity. }
    rewrite <- HA. exact HS.
  - replace (1 + (n - 2) - 1)%nat with (n - 2)%nat in HZ by lia. exact HZ.
Qed.

(* ---- the statements ---- *)

(* (a) H is upper Hessenberg; the entries of A' it drops are those below the sub-diagonal, and they are
   exactly the multipliers defining the factors L_m of Z (hess_Z_product below) *)
Lemma hess_upper_hessenberg (A' : mat) i j : (j + 1 < i)%nat -> hess A' i j = 0.
Proof. intros H. unfold hess. bd. reflexivity. Qed.
Lemma hess_keeps (A' : mat) i j : (i <= j + 1)%nat -> hess A' i j = A' i j.
Proof. intros H. unfold hess. bd. reflexivity. Qed.

(* (b)  A Z = Z H *)
Lemma hess_similarity n (A : mat) :
  (1 <= n)%nat ->
  let A' := fst (elmhes ROps n A) in
  let perm := snd (elmhes ROps n A) in
  let Z := eltran ROps n A' perm (eye ROps) in
  meq n (mmul n A Z) (mmul n Z (hess A')).
Proof. intros Hn. exact (proj1 (hess_main n A Hn)). Qed.

(* (c)  Z has a two-sided inverse *)
Lemma hess_Z_invertible n (A : mat) :
  (1 <= n)%nat ->
  let A' := fst (elmhes ROps n A) in
  let perm := snd (elmhes ROps n A) in
  let Z := eltran ROps n A' perm (eye ROps) in
  exists W, meq n (mmul n Z W) mid /\ meq n (mmul n W Z) mid.
Proof. intros Hn. exact (proj1 (proj2 (hess_main n A Hn))). Qed.

(* hence H = Z^{-1} A Z *)
Lemma hess_conjugate n (A : mat) :
  (1 <= n)%nat ->
  let A' := fst (elmhes ROps n A) in
  let perm := snd (elmhes ROps n A) in
  let Z := eltran ROps n A' perm (eye ROps) in
  exists W, minv n Z W /\ meq n (hess A') (mmul n W (mmul n A Z)).
Proof.
  intros Hn. cbv zeta. destruct (hess_main n A Hn) as (HS & [W HW] & _). cbv zeta in HS.
  exists W. split; [exact HW|]. unfold simrel in HS. rewrite HS.
  rewrite <- mmul_assoc_meq. rewrite (proj2 HW). rewrite mmul_id_l. reflexivity.
Qed.

(* structure of Z: the product of the P_m L_m built from perm and the stored multipliers *)
Lemma hess_Z_product n (A : mat) :
  (1 <= n)%nat ->
  let A' := fst (elmhes ROps n A) in
  let perm := snd (elmhes ROps n A) in
  let Z := eltran ROps n A' perm (eye ROps) in
  meq n Z (Zprod n A' perm 1 (n - 2)) /\
  (forall m, (1 <= m)%nat -> (m + 1 < n)%nat -> (m <= perm m < n)%nat) /\
  (forall c, (c < n)%nat -> Z 0%nat c = mid 0%nat c) /\
  (forall r, (r < n)%nat -> Z r 0%nat = mid r 0%nat).
Proof.
  intros Hn. cbv zeta. destruct (hess_main n A Hn) as (_ & _ & HZ & HF). cbv zeta in HZ, HF.
  split; [exact HZ|]. split; [|split].
  - intros m Hm Hmn. exact (proj1 (upto_step n A m Hm Hmn)).
  - intros c Hc. apply HF; lia.
  - intros r Hr. apply HF; lia.
Qed.

(* each factor: P_m is a transposition matrix (its own inverse) and L_m is unit lower triangular *)
Lemma Lmat_unit_lower m (A : mat) r c :
  (Lmat m A r r = 1) /\ ((r < c)%nat -> Lmat m A r c = 0).
Proof.
  unfold Lmat, colE, mid. split.
  - bd; ring.
  - intros H. bd; ring.
Qed.

(* ---- satisfiability: the only hypothesis is n >= 1.  A 3 x 3 instance in which the pivot search
   selects row 2 (|2| > |1|), so rows/columns 1 and 2 are interchanged ---- *)
Definition ex3 : mat := mfun 0 [[1; 2; 3]; [1; 1; 1]; [2; 0; 1]]%list.

Example ex3_swap : snd (elmhes ROps 3 ex3) 1%nat = 2%nat.
Proof.
  unfold elmhes, elmhes_upto. cbn [Nat.sub forn]. unfold elm_step. cbn [fst snd]. rewrite vupd_eq.
  unfold elm_pivot. cbn [Nat.sub forn fst snd]. rops.
  change (ex3 1%nat 0%nat) with 1. change (ex3 2%nat 0%nat) with 2.
  assert (H1 : Rltb (Rabs 0) (Rabs 1) = true).
  { apply Rltb_true. rewrite Rabs_R0, Rabs_R1. lra. }
  rewrite H1. cbn [fst snd].
  assert (H2 : Rltb (Rabs 1) (Rabs 2) = true).
  { apply Rltb_true. rewrite Rabs_R1, (Rabs_pos_eq 2) by lra. lra. }
  rewrite H2. reflexivity.
Qed.

Example ex3_similarity :
  let A' := fst (elmhes ROps 3 ex3) in
  let perm := snd (elmhes ROps 3 ex3) in
  let Z := eltran ROps 3 A' perm (eye ROps) in
  meq 3 (mmul 3 ex3 Z) (mmul 3 Z (hess A')) /\
  (exists W, meq 3 (mmul 3 Z W) mid /\ meq 3 (mmul 3 W Z) mid) /\
  perm 1%nat = 2%nat.
Proof.
  cbv zeta. split; [exact (hess_similarity 3 ex3 ltac:(lia))|].
  split; [exact (hess_Z_invertible 3 ex3 ltac:(lia))|exact ex3_swap].
Qed.
