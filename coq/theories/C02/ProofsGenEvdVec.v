(* C02 — the contract of the second half of hqr2 (ProofsGenEvd.v `vectors_contract`) holds. *)
From Coq Require Import List Arith Bool Lia Reals Lra.
From SC Require Import Base.Num C02.FunMat C02.ModelHqr2Spec C02.ModelHqr2Vec C02.ProofsHqr2Vec C02.ProofsGenEvd.
Local Open Scope R_scope.

Lemma vectors_contract_holds : vectors_contract.
Proof.
  intros eps n an A V d e Hn Han HQ Hok nn Hnn He.
  destruct (hqr2_vectors_real_column eps n an A V d e nn HQ Han Hok Hnn He) as (x & H1 & H2 & _ & H4 & H5).
  exists x. repeat split; assumption.
Qed.
