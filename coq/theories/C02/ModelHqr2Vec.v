(* C02 — executable model of the SECOND HALF of `hqr2` (src/linalg/evd.rs, `if anorm != 0 { .. }`):
   back-substitution for the eigenvectors of the quasi-triangular matrix the QR sweeps leave in A
   (real eigenvalue: column nn; complex pair: columns nn-1, nn) and the final product V := V * A.
   Definitions only; generic in `Ops T`; arrays and loops in the vocabulary of C02/FunMat.v; same loop
   order, operation order and comparison direction as the Rust code.

   Conventions.
   - `eps` is T::epsilon(); `anorm` is the norm computed at the start of hqr2 (ModelHqr2Spec.hqr2_anorm).
   - `x.powf(T::two())` is modelled as x * x (validated bit for bit against the implementation).
   - Complex division is num-complex 0.4.6: (a+ib)/(c+id) = ((a c + b d)/(c c + d d), (b c - a d)/(c c + d d)).
   - The function-level variables z, s, r of hqr2 are carried from row to row and from one nn to the
     next, as in the Rust code (at the LOWER row of a 2x2 block, e[i] < 0, the code only saves z and the
     partial sums; the 2x2 system is solved at the next row i-1).  They enter the second half with the
     values the first half left; with a well-formed (d, e) they are always written before being read, so
     `hqr2_vectors` starts them at 0 (`hqr2_vectors_from` takes them as arguments).
   - `let na = nn.wrapping_sub(1)`: for nn = 0 with e[0] < 0 the Rust code would index out of bounds
     (panic); the model uses na = 0 there.  The first half never produces e[0] < 0 (and `qtri` excludes it).
   - GHOST `ok` (computed alongside, never read): "the perturbation `if t == 0 { t = eps * anorm }` was
     never taken in a real-eigenvalue column". *)
From Coq Require Import List Arith Bool.
From SC Require Import Base.Num C02.FunMat.
Import ListNotations.

Section Hqr2Vec.
  Context {T : Type} (O : Ops T).
  Variable eps : T.

  Local Notation "a +! b" := (O.(oadd) a b) (at level 50, left associativity).
  Local Notation "a -! b" := (O.(osub) a b) (at level 50, left associativity).
  Local Notation "a *! b" := (O.(omul) a b) (at level 40, left associativity).
  Local Notation "a /! b" := (O.(odiv) a b) (at level 40, left associativity).
  Local Notation "-! a" := (O.(oneg) a) (at level 35, right associativity).
  Local Notation zero := (O.(o0)).
  Local Notation one := (O.(o1)).
  Local Notation two := (O.(o1) +! O.(o1)).
  Local Notation absT := (O.(oabs)).
  (* Rust `a > b` *)
  Local Notation "a >! b" := (O.(oltb) b a) (at level 70).
  Local Notation "a <! b" := (O.(oltb) a b) (at level 70).
  Local Notation "a ==! b" := (O.(oeqb) a b) (at level 70).

  (* Complex::new(a, b) / Complex::new(c, d) *)
  Definition cdiv (a b c d : T) : T * T :=
    let ns := c *! c +! d *! d in
    let re := a *! c +! b *! d in
    let im := b *! c -! a *! d in
    (re /! ns, im /! ns).

  (* state carried by the back-substitution: the working array, the function-level z, s, r, ghost ok *)
  Record vst := mkV { vA : nat -> nat -> T; vz : T; vs : T; vr : T; vok : bool }.
  (* ... and inside one nn-iteration also `m` *)
  Record rst := mkR { rA : nat -> nat -> T; rm : nat; rz : T; rs : T; rr : T; rok : bool }.

  (* r = 0; for j in m..=nn { r += A[i][j] * A[j][c]; } *)
  Definition vec_dot (A : nat -> nat -> T) (i m nn c : nat) : T :=
    forn m (nn + 1 - m) (fun j r => r +! A i j *! A j c) zero.

  (* if eps * t * t > 1 { for j in i..=nn { A[j][c] /= t; } } -- the loop only *)
  Definition vec_scale_col (A : nat -> nat -> T) (i nn c : nat) (t : T) : nat -> nat -> T :=
    forn i (nn + 1 - i) (fun j A => let v := A j c /! t in mupd A j c v) A.

  (* ---- real eigenvalue: one row i of `loop { .. }` (i = nn-1 downto 0) ---- *)
  Definition vec_real_row (anorm p : T) (d e : nat -> T) (nn i : nat) (st : rst) : rst :=
    let A := rA st in
    let w := A i i -! p in
    let r := vec_dot A i (rm st) nn nn in
    if e i <! zero then
      mkR A (rm st) w r r (rok st)                       (* z = w; s = r; *)
    else
      let m := i in
      let Aok :=
        if e i ==! zero then
          let t := w in
          let pert := t ==! zero in
          let t := if pert then eps *! anorm else t in
          let v := (-! r) /! t in
          (mupd A i nn v, rok st && negb pert)
        else
          let x := A i (i + 1) in
          let y := A (i + 1) i in
          let q := (d i -! p) *! (d i -! p) +! e i *! e i in
          let t := (x *! rs st -! rz st *! r) /! q in
          let A := mupd A i nn t in
          let v := if absT x >! absT (rz st)
                   then ((-! r) -! w *! t) /! x
                   else ((-! rs st) -! y *! t) /! rz st in
          (mupd A (i + 1) nn v, rok st) in
      let A := fst Aok in
      let t := absT (A i nn) in
      let A := if eps *! t *! t >! one then vec_scale_col A i nn nn t else A in
      mkR A m (rz st) (rs st) r (snd Aok).

  Definition vec_real (anorm p : T) (d e : nat -> T) (nn : nat) (st : vst) : vst :=
    let A := mupd (vA st) nn nn one in
    let r := ford 0 nn (vec_real_row anorm p d e nn) (mkR A nn (vz st) (vs st) (vr st) (vok st)) in
    mkV (rA r) (rz r) (rs r) (rr r) (rok r).

  (* ---- complex pair (q = e[nn] < 0): one row i of `for i in (0..nn-1).rev()` ---- *)
  Definition vec_cplx_row (anorm p q : T) (d e : nat -> T) (nn na i : nat) (st : rst) : rst :=
    let A := rA st in
    let w := A i i -! p in
    let ra := vec_dot A i (rm st) nn na in
    let sa := vec_dot A i (rm st) nn nn in
    let st1 :=
      if e i <! zero then
        mkR A (rm st) w sa ra (rok st)                   (* z = w; r = ra; s = sa; *)
      else
        let m := i in
        if e i ==! zero then
          let c := cdiv (-! ra) (-! sa) w q in
          let A := mupd A i na (fst c) in
          let A := mupd A i nn (snd c) in
          mkR A m (rz st) (rs st) (rr st) (rok st)
        else
          let x := A i (i + 1) in
          let y := A (i + 1) i in
          let vr0 := (d i -! p) *! (d i -! p) +! e i *! e i -! q *! q in
          let vi := two *! q *! (d i -! p) in
          let vr1 := if (vr0 ==! zero) && (vi ==! zero)
                     then eps *! anorm *! (absT w +! absT q +! absT x +! absT y +! absT (rz st))
                     else vr0 in
          let c := cdiv (x *! rr st -! rz st *! ra +! q *! sa) (x *! rs st -! rz st *! sa -! q *! ra) vr1 vi in
          let A := mupd A i na (fst c) in
          let A := mupd A i nn (snd c) in
          let A :=
            if absT x >! (absT (rz st) +! absT q) then
              let v1 := ((-! ra) -! w *! A i na +! q *! A i nn) /! x in
              let A := mupd A (i + 1) na v1 in
              let v2 := ((-! sa) -! w *! A i nn -! q *! A i na) /! x in
              mupd A (i + 1) nn v2
            else
              let c := cdiv ((-! rr st) -! y *! A i na) ((-! rs st) -! y *! A i nn) (rz st) q in
              let A := mupd A (i + 1) na (fst c) in
              mupd A (i + 1) nn (snd c) in
          mkR A m (rz st) (rs st) (rr st) (rok st) in
    let A := rA st1 in
    let t := omax O (absT (A i na)) (absT (A i nn)) in
    let A := if eps *! t *! t >! one
             then forn i (nn + 1 - i) (fun j A =>
                    let v1 := A j na /! t in
                    let A := mupd A j na v1 in
                    let v2 := A j nn /! t in
                    mupd A j nn v2) A
             else A in
    mkR A (rm st1) (rz st1) (rs st1) (rr st1) (rok st1).

  Definition vec_cplx (anorm p q : T) (d e : nat -> T) (nn : nat) (st : vst) : vst :=
    let na := nn - 1 in
    let A := vA st in
    let A :=
      if absT (A nn na) >! absT (A na nn) then
        let v1 := q /! A nn na in
        let A := mupd A na na v1 in
        let v2 := (-! (A nn nn -! p)) /! A nn na in
        mupd A na nn v2
      else
        let c := cdiv zero (-! A na nn) (A na na -! p) q in
        let A := mupd A na na (fst c) in
        mupd A na nn (snd c) in
    let A := mupd A nn na zero in
    let A := mupd A nn nn one in
    let r := ford 0 (nn - 1) (vec_cplx_row anorm p q d e nn na)
                  (mkR A na (vz st) (vs st) (vr st) (vok st)) in
    mkV (rA r) (rz r) (rs r) (rr r) (rok r).

  (* ---- body of `for nn in (0..n).rev()` ---- *)
  Definition vec_iter (anorm : T) (d e : nat -> T) (nn : nat) (st : vst) : vst :=
    let p := d nn in
    let q := e nn in
    if q ==! zero then vec_real anorm p d e nn st
    else if q <! zero then vec_cplx anorm p q d e nn st
    else st.

  Definition vec_backsub (n : nat) (anorm : T) (d e : nat -> T) (st : vst) : vst :=
    ford 0 n (vec_iter anorm d e) st.

  (* for j in (0..n).rev() { for i in 0..n { z = 0; for k in 0..=j { z += V[i][k]*A[k][j]; } V[i][j] = z; } } *)
  Definition vec_product (n : nat) (A V : nat -> nat -> T) : nat -> nat -> T :=
    ford 0 n (fun j V =>
      forn 0 n (fun i V =>
        let z := forn 0 (j + 1) (fun k z => z +! V i k *! A k j) zero in
        mupd V i j z) V) V.

  (* ---- the second half: ((A', V'), ok) ---- *)
  Definition hqr2_vectors_from (n : nat) (anorm : T) (A V : nat -> nat -> T) (d e : nat -> T)
             (z s r : T) : ((nat -> nat -> T) * (nat -> nat -> T)) * bool :=
    if negb (anorm ==! zero) then
      let st := vec_backsub n anorm d e (mkV A z s r true) in
      ((vA st, vec_product n (vA st) V), vok st)
    else ((A, V), true).

  Definition hqr2_vectors_full (n : nat) (anorm : T) (A V : nat -> nat -> T) (d e : nat -> T) :=
    hqr2_vectors_from n anorm A V d e zero zero zero.
  Definition hqr2_vectors (n : nat) (anorm : T) (A V : nat -> nat -> T) (d e : nat -> T)
    : (nat -> nat -> T) * (nat -> nat -> T) := fst (hqr2_vectors_full n anorm A V d e).
  Definition hqr2_vectors_ok (n : nat) (anorm : T) (A V : nat -> nat -> T) (d e : nat -> T) : bool :=
    snd (hqr2_vectors_full n anorm A V d e).

  (* ---- wrapper on lists of rows (n = number of rows of A) ---- *)
  Definition hqr2_vectors_rows (anorm : T) (A V : list (list T)) (d e : list T)
    : (list (list T) * list (list T)) * bool :=
    let n := length A in
    let r := hqr2_vectors_full n anorm (mfun zero A) (mfun zero V) (vfun zero d) (vfun zero e) in
    ((mrows n (fst (fst r)), mrows n (snd (fst r))), snd r).
End Hqr2Vec.
