(* C15 — evaluation metrics.  Executable model of src/metrics/{accuracy,precision,recall,f1,auc,
   mean_squared_error,mean_absolute_error,r2,cluster_hcv,cluster_helpers}.rs, generic in the scalar
   operations `Ops T` (ROps: theorems, FOps: execution against the f64 code).  Definitions only.

   Conventions: a panic of the Rust code is `None`.  Integer (usize / i64) bookkeeping of the code is
   modelled by `nat` / `Z` values (no overflow for the vector lengths of the property); every floating
   point operation is kept, in the order in which the code performs it.  Cluster labels are the `i64`
   values the code obtains with `to_i64()` (the property's domain: integer-valued labels). *)
From Coq Require Import List ZArith Bool Arith.
From SC Require Import Base.Num.
Import ListNotations.

Definition countb {A} (f : A -> bool) (l : list A) : nat := length (filter f l).
Definition nsum (l : list nat) : nat := fold_right Nat.add 0 l.

Section Metrics.
  Context {T : Type} (O : Ops T).
  Let zero := O.(o0).
  Let one := O.(o1).
  Definition ofn (n : nat) : T := oofnat O n.
  Definition two : T := O.(oofZ) 2%Z.

  (* ---------------------------------------------------------------- accuracy.rs *)
  Definition accuracy (yt yp : list T) : option T :=
    if Nat.eqb (length yt) (length yp) then
      let positive := countb (fun p => O.(oeqb) (fst p) (snd p)) (combine yt yp) in
      Some (O.(odiv) (ofn positive) (ofn (length yt)))
    else None.

  (* ---------------------------------------------------------------- precision.rs / recall.rs *)
  (* `y != 0 && y != 1` panics *)
  Definition is_label (y : T) : bool := O.(oeqb) y zero || O.(oeqb) y one.
  Definition is_one (y : T) : bool := O.(oeqb) y one.

  Definition precision (yt yp : list T) : option T :=
    if Nat.eqb (length yt) (length yp) then
      if forallb is_label yt && forallb is_label yp then
        let p := countb (fun q => is_one (snd q)) (combine yt yp) in
        let tp := countb (fun q => is_one (snd q) && is_one (fst q)) (combine yt yp) in
        Some (O.(odiv) (ofn tp) (ofn p))
      else None
    else None.

  Definition recall (yt yp : list T) : option T :=
    if Nat.eqb (length yt) (length yp) then
      if forallb is_label yt && forallb is_label yp then
        let p := countb (fun q => is_one (fst q)) (combine yt yp) in
        let tp := countb (fun q => is_one (fst q) && is_one (snd q)) (combine yt yp) in
        Some (O.(odiv) (ofn tp) (ofn p))
      else None
    else None.

  (* ---------------------------------------------------------------- f1.rs *)
  (* (1 + beta^2) * (p * r) / (beta^2 * p + r) *)
  Definition f_beta (beta : T) (yt yp : list T) : option T :=
    if Nat.eqb (length yt) (length yp) then
      let beta2 := O.(omul) beta beta in
      match precision yt yp, recall yt yp with
      | Some p, Some r =>
          Some (O.(odiv) (O.(omul) (O.(oadd) one beta2) (O.(omul) p r))
                         (O.(oadd) (O.(omul) beta2 p) r))
      | _, _ => None
      end
    else None.

  (* ---------------------------------------------------------------- mean_squared_error.rs etc. *)
  Definition mean_squared_error (yt yp : list T) : option T :=
    if Nat.eqb (length yt) (length yp) then
      let rss := fold_left (fun acc p => O.(oadd) acc (osq O (O.(osub) (fst p) (snd p)))) (combine yt yp) zero in
      Some (O.(odiv) rss (ofn (length yt)))
    else None.

  Definition mean_absolute_error (yt yp : list T) : option T :=
    if Nat.eqb (length yt) (length yp) then
      let ras := fold_left (fun acc p => O.(oadd) acc (O.(oabs) (O.(osub) (fst p) (snd p)))) (combine yt yp) zero in
      Some (O.(odiv) ras (ofn (length yt)))
    else None.

  Definition r2 (yt yp : list T) : option T :=
    if Nat.eqb (length yt) (length yp) then
      let mean := O.(odiv) (fold_left O.(oadd) yt zero) (ofn (length yt)) in
      let ss_tot := fold_left (fun acc y => O.(oadd) acc (osq O (O.(osub) y mean))) yt zero in
      let ss_res := fold_left (fun acc p => O.(oadd) acc (osq O (O.(osub) (fst p) (snd p)))) (combine yt yp) zero in
      Some (O.(osub) one (O.(odiv) ss_res ss_tot))
    else None.

  (* ---------------------------------------------------------------- auc.rs *)
  (* first loop: pos / neg are accumulated in T; any other label panics *)
  Fixpoint auc_counts (yt : list T) (pos neg : T) : option (T * T) :=
    match yt with
    | [] => Some (pos, neg)
    | y :: t =>
        if O.(oeqb) y zero then auc_counts t pos (O.(oadd) neg one)
        else if O.(oeqb) y one then auc_counts t (O.(oadd) pos one) neg
        else None
    end.

  (* number of leading elements of `l` equal to y (inner `while j < n && y_pred[j] == y_pred[i]`) *)
  Fixpoint run_len (y : T) (l : list T) : nat :=
    match l with
    | x :: t => if O.(oeqb) x y then S (run_len y t) else 0
    | [] => 0
    end.

  (* the rank loop over the sorted scores; `i` is the 0-based position of the head of `ys`.
     One unit of fuel per group of tied scores (fuel = length suffices). *)
  Fixpoint ranks (fuel i : nat) (ys : list T) : option (list T) :=
    match ys with
    | [] => Some []
    | y :: rest =>
        match fuel with
        | 0 => None
        | S f =>
            match rest with
            | [] => (* i == n - 1 *) Some [ofn (i + 1)]
            | y' :: _ =>
                if negb (O.(oeqb) y y') then
                  option_map (cons (ofn (i + 1))) (ranks f (i + 1) rest)
                else
                  let j := i + 1 + run_len y rest in
                  let r := O.(odiv) (ofn (i + 1 + j)) two in
                  option_map (app (repeat r (j - i))) (ranks f j (skipn (run_len y rest) rest))
            end
        end
    end.

  (* everything after the sort: `sorted` is y_pred after quick_argsort_mut, `idx` the returned
     index vector *)
  Definition auc_core (yt sorted : list T) (idx : list nat) : option T :=
    match auc_counts yt zero zero with
    | None => None
    | Some (pos, neg) =>
        match ranks (length sorted) 0 sorted with
        | None => None
        | Some rank =>
            let auc := fold_left (fun acc p => if O.(oeqb) (nth (fst p) yt zero) one
                                               then O.(oadd) acc (snd p) else acc)
                                 (combine idx rank) zero in
            Some (O.(odiv) (O.(osub) auc (O.(odiv) (O.(omul) pos (O.(oadd) pos one)) two))
                           (O.(omul) pos neg))
        end
    end.

  (* The sort is abstract: `idx` is any index vector; the sorted scores are the scores read through
     it (quick_argsort_mut moves values and indices in lockstep).  The theorems assume that idx is a
     permutation of 0..n-1 that sorts the scores, ties in any order.  Vectors of different length are
     outside the property's claim for AUC and are not modelled (None). *)
  Definition auc_with (yt scores : list T) (idx : list nat) : option T :=
    if Nat.eqb (length yt) (length scores) && Nat.eqb (length idx) (length scores)
       && negb (Nat.eqb (length scores) 0)
    then auc_core yt (map (fun k => nth k scores zero) idx) idx
    else None.

  (* a concrete sorting permutation (stable insertion sort) for executing the model on its own *)
  Fixpoint ins_by (x : T * nat) (l : list (T * nat)) : list (T * nat) :=
    match l with
    | [] => [x]
    | y :: t => if O.(oleb) (fst x) (fst y) then x :: l else y :: ins_by x t
    end.
  Definition argsort (s : list T) : list nat :=
    map snd (fold_right ins_by [] (combine s (seq 0 (length s)))).
  Definition auc (yt scores : list T) : option T := auc_with yt scores (argsort scores).

  (* checks on an index vector returned by the implementation (hypotheses of the AUC theorem) *)
  Fixpoint sorted_b (l : list T) : bool :=
    match l with
    | a :: ((b :: _) as t) => O.(oleb) a b && sorted_b t
    | _ => true
    end.
  Definition is_perm_b (idx : list nat) : bool :=
    forallb (fun k => Nat.eqb (countb (Nat.eqb k) idx) 1) (seq 0 (length idx)).
  Definition sorting_perm_b (scores : list T) (idx : list nat) : bool :=
    Nat.eqb (length idx) (length scores) && is_perm_b idx
    && sorted_b (map (fun k => nth k scores zero) idx).

  (* ---------------------------------------------------------------- cluster_helpers.rs *)
  (* math/vector.rs unique_with_indices: sorted distinct values, and for every element the position
     of its value among them (looked up through a HashMap keyed by to_i64) *)
  Fixpoint insert_uniq (z : Z) (l : list Z) : list Z :=
    match l with
    | [] => [z]
    | x :: t => if (z <? x)%Z then z :: l else if (z =? x)%Z then l else x :: insert_uniq z t
    end.
  Definition usort (l : list Z) : list Z := fold_right insert_uniq [] l.
  Fixpoint index_of (z : Z) (l : list Z) : nat :=
    match l with
    | [] => 0
    | x :: t => if (z =? x)%Z then 0 else S (index_of z t)
    end.
  Definition unique_with_indices (l : list Z) : list Z * list nat :=
    let u := usort l in (u, map (fun z => index_of z u) l).

  Definition count_pair (r c : nat) (l : list (nat * nat)) : nat :=
    countb (fun p => Nat.eqb (fst p) r && Nat.eqb (snd p) c) l.

  (* classes x clusters table, zero-initialised, then `m[class_idx[i]][cluster_idx[i]] += 1` for
     i in 0..class_idx.len().  The loop runs over class_idx and indexes cluster_idx, so a shorter
     second vector panics and a longer one is silently truncated.  (An index outside the table would
     panic in the code and is ignored here; the indices come from unique_with_indices and are always
     inside — proved in ProofsCM.v together with the closed form cell (r,c) = #{i : idx pair = (r,c)}.) *)
  Fixpoint incr_at (l : list nat) (c : nat) : list nat :=
    match l, c with
    | [], _ => []
    | x :: t, 0 => S x :: t
    | x :: t, S c' => x :: incr_at t c'
    end.
  Fixpoint incr2 (m : list (list nat)) (r c : nat) : list (list nat) :=
    match m, r with
    | [], _ => []
    | row :: t, 0 => incr_at row c :: t
    | row :: t, S r' => row :: incr2 t r' c
    end.
  Definition contingency_matrix (a b : list Z) : option (list (list nat)) :=
    if Nat.ltb (length b) (length a) then None
    else
      let '(ua, ia) := unique_with_indices a in
      let '(ub, ib) := unique_with_indices b in
      Some (fold_left (fun m p => incr2 m (fst p) (snd p)) (combine ia ib)
                      (repeat (repeat 0 (length ub)) (length ua))).

  (* HashMap of bin counts; iteration order is unspecified and only changes the order of the
     floating-point summation: the model iterates in increasing key order *)
  Definition bincounts (l : list Z) : list nat := map (count_occ Z.eq_dec l) (usort l).

  (* the loop over `bincounts.values()` for a given iteration order *)
  Definition entropy_of_counts (cs : list nat) : option T :=
    let sum := ofn (nsum cs) in
    let e := fold_left (fun e c =>
                 if Nat.ltb 0 c then
                   let pi := ofn c in
                   O.(osub) e (O.(omul) (O.(odiv) pi sum) (O.(osub) (O.(oln) pi) (O.(oln) sum)))
                 else e) cs zero in
    if O.(oeqb) e zero then None else Some e.
  Definition entropy (l : list Z) : option T := entropy_of_counts (bincounts l).

  Definition mi_term (cs csl pisl pjsl : T) (acc : T) (vo : nat * nat) : T :=
    let nm := O.(odiv) (ofn (fst vo)) cs in
    let lnm := O.(oln) (ofn (fst vo)) in
    let lo := O.(oadd) (O.(oadd) (O.(oneg) (O.(oln) (ofn (snd vo)))) pisl) pjsl in
    O.(oadd) acc (O.(oadd) (O.(omul) nm (O.(osub) lnm csl)) (O.(omul) nm lo)).

  (* nz entries in row-major order, each with outer = pi[r] * pj[c] *)
  Definition nz_entries (m : list (list nat)) (pi pj : list nat) : list (nat * nat) :=
    flat_map (fun rp => flat_map (fun vc => if Nat.ltb 0 (fst vc) then [(fst vc, snd rp * snd vc)] else [])
                                 (combine (fst rp) pj))
             (combine m pi).

  Definition mutual_info_score (m : list (list nat)) : option T :=
    match m with
    | [] => None                                   (* contingency[0] *)
    | row0 :: _ =>
        let nc := length row0 in
        let pi := map (fun row => nsum (firstn nc row)) m in
        let pj := map (fun c => nsum (map (fun row => nth c row 0) m)) (seq 0 nc) in
        let cs := ofn (nsum pi) in
        let csl := O.(oln) cs in
        let pisl := O.(oln) (ofn (nsum pi)) in
        let pjsl := O.(oln) (ofn (nsum pj)) in
        let result := fold_left (mi_term cs csl pisl pjsl) (nz_entries m pi pj) zero in
        (* result.max(0) *)
        Some (if O.(oleb) zero result then result else zero)
    end.

  (* ---------------------------------------------------------------- cluster_hcv.rs *)
  Definition hcv (a b : list Z) : option (T * T * T) :=
    match contingency_matrix a b with
    | None => None
    | Some m =>
        match mutual_info_score m with
        | None => None
        | Some mi =>
            let h := match entropy a with Some e => O.(odiv) mi e | None => one end in
            let c := match entropy b with Some e => O.(odiv) mi e | None => one end in
            let v := if O.(oeqb) (O.(oadd) h c) zero then zero
                     else O.(odiv) (O.(omul) (O.(omul) two h) c) (O.(oadd) (O.(omul) one h) c) in
            Some (h, c, v)
        end
    end.
End Metrics.
