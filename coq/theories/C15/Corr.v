(* C15 — correspondence interface: the model at binary64 (FOps) against what the implementation
   returned on the same input.  Used by harness/src/bin/c15.rs through `Eval vm_compute`.
   Count-and-divide metrics and the AUC are compared bit for bit (only + - * / abs on the same values
   in the same order); the log-based cluster scores with a tolerance (software ln, hash-order sums). *)
From Coq Require Import List ZArith NArith Bool Floats.
From SC Require Import Base.FloatUtil Base.Num C15.Model.
Import ListNotations.

Definition to_nats := map N.to_nat.
Definition ofeq := option_eqb feq.
Definition ofeq_tol (tol : float) := option_eqb (feq_tol tol).

Definition corr_accuracy (yt yp : list float) (e : option float) : bool := ofeq (accuracy FOps yt yp) e.
Definition corr_precision (yt yp : list float) (e : option float) : bool := ofeq (precision FOps yt yp) e.
Definition corr_recall (yt yp : list float) (e : option float) : bool := ofeq (recall FOps yt yp) e.
Definition corr_fbeta (beta : float) (yt yp : list float) (e : option float) : bool :=
  ofeq (f_beta FOps beta yt yp) e.
Definition corr_mse (yt yp : list float) (e : option float) : bool := ofeq (mean_squared_error FOps yt yp) e.
Definition corr_mae (yt yp : list float) (e : option float) : bool := ofeq (mean_absolute_error FOps yt yp) e.
Definition corr_r2 (yt yp : list float) (e : option float) : bool := ofeq (r2 FOps yt yp) e.

(* AUC: `idx` / `sorted` are what the implementation's own quick_argsort_mut returned on the scores.
   Checked: idx is a permutation that sorts the scores (the hypothesis of the AUC theorem), values and
   indices moved in lockstep, and the model run (a) on that index vector and (b) on its own insertion
   sort both give the implementation's score. *)
Definition corr_auc (yt scores : list float) (idx : list N) (sorted : list float) (e : option float) : bool :=
  let idx := to_nats idx in
  sorting_perm_b FOps scores idx
  && flist_eq (map (fun k => nth k scores 0%float) idx) sorted
  && ofeq (auc_with FOps yt scores idx) e
  && ofeq (auc FOps yt scores) e.
(* panicking inputs (non-binary label): no index vector *)
Definition corr_auc_plain (yt scores : list float) (e : option float) : bool := ofeq (auc FOps yt scores) e.

Definition nmat_eqb := list_eqb nlist_eqb.
Definition corr_unique (l : list Z) (eu : list Z) (ei : list N) : bool :=
  let '(u, i) := unique_with_indices l in zlist_eqb u eu && nlist_eqb (map N.of_nat i) ei.
Definition corr_contingency (a b : list Z) (e : option (list (list N))) : bool :=
  option_eqb nmat_eqb (option_map (map (map N.of_nat)) (contingency_matrix a b)) e.
Definition corr_entropy (tol : float) (l : list Z) (e : option float) : bool :=
  ofeq_tol tol (entropy FOps l) e.
Definition corr_mi (tol : float) (m : list (list N)) (e : option float) : bool :=
  ofeq_tol tol (mutual_info_score FOps (map to_nats m)) e.
Definition corr_hcv (tol : float) (a b : list Z) (e : option (float * float * float)) : bool :=
  match hcv FOps a b, e with
  | None, None => true
  | Some (h, c, v), Some (eh, ec, ev) => feq_tol tol h eh && feq_tol tol c ec && feq_tol tol v ev
  | _, _ => false
  end.
