(* More rounding theorems for the binary64 instance of C15's metrics (SC.C15.Model at FOps), on top of
   Base/FloatError.v, C17/ProofsFloat.v (squared-distance loop) and C15/ProofsFloat.v (MAE, MSE):
     accuracy / precision / recall : the counters are machine integers converted at the end (the model's
       `ofn`), so below 2^53 both conversions are exact and the result is the CORRECTLY ROUNDED quotient
       of the exact counts (one rounding, relative error u64; a NaN exactly when the denominator is 0);
     F-beta : the straight-line expression (1+b^2)(P R)/(b^2 P + R) on the two rounded quotients: all
       quantities are non-negative, nothing cancels, 11 roundings in sequence at most => relative error
       (1+u64)^11 - 1 with respect to the exact F-beta of the confusion counts (beta = the float given);
       finite result <=> TP > 0 (the code has no 0/0 guard: TP = 0 gives NaN);
     R^2 = 1 - ss_res/ss_tot : both sums are squared-distance loops (ss_tot against the constant vector
       of the COMPUTED mean), relative error (1+u64)^(n+2)-1 each under the decidable no-underflow check;
       the quotient and the final subtraction (which cancels) give an ABSOLUTE bound in terms of S/T;
       the computed mean is within Eu n * mean|y| + eta64 of the exact mean, and replacing the exact mean
       by any mu adds exactly n (mu - mean)^2 to the total sum of squares.
   Vocabulary: FR (real value), ffin (finite), rnd64, u64 = 2^-53, eta64 = 2^-1075, RV (vector of real
   values), sigma / comp (C17.Spec).  `near k x' x` is x/(1+u)^k <= x' <= x(1+u)^k for non-negative
   quantities; it composes through * / + and one rounding (sharp bound u/(1+u) of round-to-nearest). *)
From Coq Require Import List Arith ZArith Bool Reals Floats Lra Lia Psatz.
From Flocq Require Import Core BinarySingleNaN PrimFloat Relative Plus_error.
From SC Require Import Base.FloatUtil Base.Num Base.FloatError C17.Model C17.Spec C17.ProofsSum C17.ProofsDist C17.ProofsFloat C15.Model C15.ProofsBasic.
Import ListNotations.
Local Open Scope R_scope.
Local Existing Instance Hprec.
Local Existing Instance Hmax.

Lemma FR_one : FR 1%float = 1.
Proof. change 1%float with (float_of_Z 1). apply (float_of_Z_exact 1). lia. Qed.

Lemma feqb_true_fin x c : ffin c -> PrimFloat.eqb x c = true -> ffin x /\ FR x = FR c.
Proof.
  intros Hc H. rewrite eqb_equiv in H.
  assert (Hx : ffin x).
  { rewrite ffin_B in *. unfold Beqb, SFeqb in H.
    destruct (Prim2B x) as [sx|sx| |sx mx ex Bx], (Prim2B c) as [sy|sy| |sy my ey By];
      try reflexivity; try discriminate Hc; simpl in H; try discriminate H; destruct sx; discriminate H. }
  split; [exact Hx|].
  rewrite (Beqb_correct prec emax) in H by (apply ffin_B; assumption).
  destruct (Req_bool_spec (B2R (Prim2B x)) (B2R (Prim2B c))) as [E|E]; [exact E | discriminate H].
Qed.

Lemma feqb_FR x y : ffin x -> ffin y -> PrimFloat.eqb x y = Reqb (FR x) (FR y).
Proof.
  intros Hx Hy. rewrite eqb_equiv, (Beqb_correct prec emax) by (apply ffin_B; assumption).
  unfold FR. destruct (Req_bool_spec (B2R (Prim2B x)) (B2R (Prim2B y))) as [E|E]; symmetry.
  - apply Reqb_true, E.
  - apply Reqb_false, E.
Qed.
(* ---------------- sharp relative error of one rounding: u/(1+u) ---------------- *)
Definition v64 : R := u64 / (1 + u64).
Lemma v64_pos : 0 < v64. Proof. unfold v64. pose proof u64_pos. apply Rdiv_lt_0_compat; lra. Qed.
Lemma v64_le : v64 <= u64.
Proof. unfold v64. pose proof u64_pos. apply (Rmult_le_reg_r (1 + u64)); [lra|].
  unfold Rdiv. rewrite Rmult_assoc, Rinv_l by lra. nra. Qed.
Lemma v64_eq : 1 - v64 = / (1 + u64).
Proof. unfold v64. pose proof u64_pos. field. lra. Qed.

Lemma rnd64_sharp a : bpow radix2 (-1022) <= Rabs a -> Rabs (rnd64 a - a) <= v64 * Rabs a.
Proof.
  intros H. unfold rnd64.
  rewrite (round_FLT_FLX radix2 (-1074) 53) by exact H.
  pose proof (relative_error_N_FLX' radix2 53 eq_refl (fun x => negb (Z.even x)) a) as G.
  change (u_ro radix2 53) with (/ 2 * bpow radix2 (- 53 + 1)) in G. rewrite <- u64_val in G. exact G.
Qed.
Lemma rnd64_add_sharp a b : fmt64 a -> fmt64 b -> Rabs (rnd64 (a + b) - (a + b)) <= v64 * Rabs (a + b).
Proof.
  intros Fa Fb.
  destruct (FLT_plus_error_N_ex radix2 (-1074) 53 (fun x => negb (Z.even x)) a b Fa Fb) as (e & He & E).
  unfold rnd64. rewrite E.
  replace ((a + b) * (1 + e) - (a + b)) with ((a + b) * e) by ring.
  rewrite Rabs_mult, Rmult_comm. apply Rmult_le_compat_r; [apply Rabs_pos|].
  change (u_ro radix2 53) with (/ 2 * bpow radix2 (- 53 + 1)) in He. rewrite <- u64_val in He. exact He.
Qed.

(* ---------------- multiplicative closeness: x/(1+u)^k <= x' <= x (1+u)^k ---------------- *)
Definition Pu (k : nat) : R := (1 + u64) ^ k.
Lemma Pu_ge1 k : 1 <= Pu k.
Proof. unfold Pu. pose proof (Eu_nonneg k) as H. unfold Eu in H. lra. Qed.
Lemma Pu_plus k m : Pu (k + m) = Pu k * Pu m. Proof. apply pow_add. Qed.
Lemma Pu_le k m : (k <= m)%nat -> Pu k <= Pu m.
Proof. intros H. pose proof (Eu_le k m H) as G. unfold Eu in G. unfold Pu. lra. Qed.
Lemma Pu_S k : Pu (S k) = (1 + u64) * Pu k. Proof. reflexivity. Qed.

Definition near (k : nat) (x' x : R) : Prop := 0 <= x /\ 0 <= x' /\ x <= x' * Pu k /\ x' <= x * Pu k.

Lemma near_refl k x : 0 <= x -> near k x x.
Proof. intros H. pose proof (Pu_ge1 k). unfold near. repeat split; try assumption; nra. Qed.
Lemma near_weaken k m x' x : (k <= m)%nat -> near k x' x -> near m x' x.
Proof. intros H (A & B & C & D). pose proof (Pu_le k m H). pose proof (Pu_ge1 k). unfold near. repeat split; try assumption; nra. Qed.
Lemma near_mul k m a' a b' b : near k a' a -> near m b' b -> near (k + m) (a' * b') (a * b).
Proof.
  intros (A1 & A2 & A3 & A4) (B1 & B2 & B3 & B4). pose proof (Pu_ge1 k). pose proof (Pu_ge1 m).
  unfold near. rewrite Pu_plus. split; [nra|]. split; [nra|]. split.
  - apply Rle_trans with ((a' * Pu k) * (b' * Pu m)); [|right; ring]. apply Rmult_le_compat; assumption.
  - apply Rle_trans with ((a * Pu k) * (b * Pu m)); [|right; ring]. apply Rmult_le_compat; assumption.
Qed.
Lemma near_add k a' a b' b : near k a' a -> near k b' b -> near k (a' + b') (a + b).
Proof. intros (A1 & A2 & A3 & A4) (B1 & B2 & B3 & B4). unfold near. repeat split; lra. Qed.
Lemma near_pos k x' x : near k x' x -> 0 < x -> 0 < x'.
Proof. intros (A1 & A2 & A3 & A4) H. pose proof (Pu_ge1 k). destruct A2 as [A2|A2]; [exact A2|]. subst x'. lra. Qed.
Lemma near_div k m a' a b' b : near k a' a -> near m b' b -> 0 < b -> near (k + m) (a' / b') (a / b).
Proof.
  intros Ha Hb Hb0. pose proof (near_pos _ _ _ Hb Hb0) as Hb'0.
  destruct Ha as (A1 & A2 & A3 & A4). destruct Hb as (B1 & B2 & B3 & B4).
  pose proof (Pu_ge1 k). pose proof (Pu_ge1 m).
  assert (I1 : 0 < / b) by (apply Rinv_0_lt_compat; lra).
  assert (I2 : 0 < / b') by (apply Rinv_0_lt_compat; lra).
  assert (J1 : / b <= / b' * Pu m).
  { apply (Rmult_le_reg_r b); [lra|]. rewrite Rinv_l by lra.
    apply (Rmult_le_reg_r b'); [lra|]. replace (/ b' * Pu m * b * b') with (b * Pu m * (/ b' * b')) by ring.
    rewrite Rinv_l by lra. lra. }
  assert (J2 : / b' <= / b * Pu m).
  { apply (Rmult_le_reg_r b'); [lra|]. rewrite Rinv_l by lra.
    apply (Rmult_le_reg_r b); [lra|]. replace (/ b * Pu m * b' * b) with (b' * Pu m * (/ b * b)) by ring.
    rewrite Rinv_l by lra. lra. }
  unfold near, Rdiv. rewrite Pu_plus. repeat split.
  - apply Rmult_le_pos; lra.
  - apply Rmult_le_pos; lra.
  - apply Rle_trans with ((a' * Pu k) * (/ b' * Pu m)); [|right; ring]. apply Rmult_le_compat; lra.
  - apply Rle_trans with ((a * Pu k) * (/ b * Pu m)); [|right; ring]. apply Rmult_le_compat; lra.
Qed.
Lemma near_rnd k y x r : near k y x -> Rabs (r - y) <= v64 * Rabs y -> near (S k) r x.
Proof.
  intros (A1 & A2 & A3 & A4) H. rewrite (Rabs_pos_eq y) in H by exact A2.
  apply Rabs_le_inv in H. pose proof v64_eq as Ev. pose proof v64_le. pose proof v64_pos. pose proof u64_pos.
  pose proof (Pu_ge1 k).
  assert (L : y <= r * (1 + u64)).
  { assert (y * / (1 + u64) <= r) by (rewrite <- Ev; lra).
    apply (Rmult_le_reg_r (/ (1 + u64))); [apply Rinv_0_lt_compat; lra|].
    rewrite Rmult_assoc, Rinv_r by lra. lra. }
  assert (U : r <= y * (1 + u64)) by nra.
  assert (0 <= r). { assert (0 <= y * / (1 + u64)) by (apply Rmult_le_pos; [lra | apply Rlt_le, Rinv_0_lt_compat; lra]). rewrite <- Ev in *. lra. }
  unfold near. rewrite Pu_S. repeat split; try assumption; nra.
Qed.
Lemma near_error k x' x : near k x' x -> Rabs (x' - x) <= Eu k * x.
Proof.
  intros (A1 & A2 & A3 & A4). pose proof (Pu_ge1 k). unfold Eu. fold (Pu k). apply Rabs_le. split; [|lra].
  (* x' >= x / P >= x (2 - P) *)
  assert (x <= x' * Pu k) by exact A3. nra.
Qed.

(* ---------------- quotient of two exactly represented counts ---------------- *)
Lemma fmt64_one : fmt64 1. Proof. apply (fmt64_IZR 1). lia. Qed.
Lemma bpow_m53_INR n : (0 < n)%nat -> (Z.of_nat n < 2 ^ 53)%Z -> bpow radix2 (-53) <= / INR n.
Proof.
  intros Hn Hlt. assert (Hn0 : 0 < INR n) by (apply lt_0_INR; exact Hn).
  assert (INR n <= bpow radix2 53).
  { change (bpow radix2 53) with (IZR (2 ^ 53)). rewrite INR_IZR_INZ. apply IZR_le. lia. }
  change (-53)%Z with (- (53))%Z. rewrite bpow_opp. apply Rinv_le_contravar; assumption.
Qed.

Lemma count_quot_float (k n : nat) : (0 < n)%nat -> (k <= n)%nat -> (Z.of_nat n < 2 ^ 53)%Z ->
  let d := PrimFloat.div (ofn FOps k) (ofn FOps n) in
  let q := INR k / INR n in
  ffin d /\ FR d = rnd64 q /\ Rabs (FR d - q) <= u64 * q /\ 0 <= FR d <= 1 /\ (k = 0%nat -> FR d = 0) /\
  near 1 (FR d) q /\ 0 <= q <= 1 /\ ((0 < k)%nat -> bpow radix2 (-53) <= q).
Proof.
  intros Hn Hc Hlt d q. unfold d, ofn, oofnat. cbn [FOps oofZ].
  destruct (float_of_Z_exact (Z.of_nat k)) as [Fc Ec]; [lia|].
  destruct (float_of_Z_exact (Z.of_nat n)) as [Fn En]; [lia|].
  rewrite <- INR_IZR_INZ in Ec, En.
  assert (Hn0 : 0 < INR n) by (apply lt_0_INR; exact Hn).
  assert (Hc0 : 0 <= INR k) by apply pos_INR.
  assert (Hcn : INR k <= INR n) by (apply le_INR; exact Hc).
  assert (Hi : 0 < / INR n) by (apply Rinv_0_lt_compat, Hn0).
  assert (Hq : 0 <= q <= 1).
  { unfold q. split.
    - apply Rmult_le_pos; lra.
    - apply (Rmult_le_reg_r (INR n)); [exact Hn0|]. unfold Rdiv. rewrite Rmult_assoc, Rinv_l by lra. lra. }
  destruct (fdiv_small (float_of_Z (Z.of_nat k)) (float_of_Z (Z.of_nat n))) as [Fd Ed]; try assumption.
  { rewrite En. lra. }
  { rewrite Ec, En. fold q. rewrite Rabs_pos_eq; lra. }
  rewrite Ec, En in Ed. fold q in Ed.
  assert (Hlow : (0 < k)%nat -> bpow radix2 (-53) <= q).
  { intros Hk. assert (1 <= INR k) by (change 1 with (INR 1); apply le_INR; lia).
    pose proof (bpow_m53_INR n Hn Hlt). unfold q, Rdiv. nra. }
  assert (H01 : 0 <= FR (float_of_Z (Z.of_nat k) / float_of_Z (Z.of_nat n))%float <= 1).
  { rewrite Ed. split; [apply rnd64_ge_0; lra|]. rewrite <- (rnd64_id 1) by exact fmt64_one. apply rnd64_le. lra. }
  split; [exact Fd|]. split; [exact Ed|].
  destruct (Nat.eq_dec k 0) as [Z|NZ].
  - assert (Eq0 : q = 0) by (unfold q; rewrite Z; cbn [INR]; lra).
    rewrite Ed, Eq0, rnd64_0, Rminus_0_r, Rabs_R0.
    split; [lra|]. split; [lra|]. split; [reflexivity|]. split; [apply near_refl; lra|]. split; [lra|].
    intros; lia.
  - assert (Hq53 : bpow radix2 (-53) <= q) by (apply Hlow; lia).
    assert (Hnorm : bpow radix2 (-1022) <= Rabs q).
    { rewrite Rabs_pos_eq by lra. apply Rle_trans with (bpow radix2 (-53)); [apply bpow_le; lia | exact Hq53]. }
    pose proof (rnd64_sharp q Hnorm) as Hs. rewrite (Rabs_pos_eq q) in Hs by lra.
    split; [rewrite Ed; pose proof v64_le; nra|]. split; [exact H01|]. split; [intros; contradiction|].
    split; [|split; [exact Hq | exact Hlow]].
    rewrite Ed. apply (near_rnd 0 q q); [apply near_refl; lra|]. rewrite (Rabs_pos_eq q) by lra. exact Hs.
Qed.

Lemma zero_div_zero_nan : ffin (PrimFloat.div (ofn FOps 0) (ofn FOps 0)) -> False.
Proof. vm_compute. discriminate. Qed.

(* ---------------- the float vectors and their real values ---------------- *)
Lemma combine_RV (yt yp : list PrimFloat.float) :
  combine (RV yt) (RV yp) = map (fun p => (FR (fst p), FR (snd p))) (combine yt yp).
Proof.
  revert yp. induction yt as [|a t IH]; intros [|b u]; cbn [RV map combine]; try reflexivity.
  f_equal. apply IH.
Qed.

Lemma n_equal_combine (yt yp : list R) : length yt = length yp ->
  n_equal yt yp = countb (fun p => Reqb (fst p) (snd p)) (combine yt yp).
Proof.
  intros H. rewrite (combine_as_map_seq 0 0 yt yp H), countb_map. reflexivity.
Qed.

Lemma accuracy_float_exact yt yp a :
  accuracy FOps yt yp = Some a -> ffin a -> (Z.of_nat (length yt) < 2 ^ 53)%Z ->
  let n := length yt in
  let k := countb (fun p => PrimFloat.eqb (fst p) (snd p)) (combine yt yp) in
  let q := INR k / INR n in
  (0 < n)%nat /\ (k <= n)%nat /\ FR a = rnd64 q /\ Rabs (FR a - q) <= u64 * q /\ 0 <= FR a <= 1 /\
  (k = 0%nat -> FR a = 0) /\
  (Forall ffin yt -> Forall ffin yp ->
     k = n_equal (RV yt) (RV yp) /\ accuracy ROps (RV yt) (RV yp) = Some q).
Proof.
  intros H Hfin Hlt n k q. unfold accuracy in H.
  destruct (Nat.eqb_spec (length yt) (length yp)) as [L|]; [|discriminate].
  cbn [FOps oeqb odiv] in H. fold k n in H. injection H as <-.
  assert (Hk : (k <= n)%nat).
  { unfold k. etransitivity; [apply countb_le|]. rewrite combine_length. unfold n. lia. }
  assert (Hn : (0 < n)%nat).
  { destruct (Nat.eq_dec n 0) as [Z|]; [|lia]. exfalso. assert (k = 0%nat) by lia.
    rewrite Z, H in Hfin. exact (zero_div_zero_nan Hfin). }
  destruct (count_quot_float k n Hn Hk Hlt) as (_ & E & B & I & Z & _).
  split; [exact Hn|]. split; [exact Hk|]. split; [exact E|]. split; [exact B|]. split; [exact I|].
  split; [exact Z|].
  intros Ft Fp.
  assert (EK : k = n_equal (RV yt) (RV yp)).
  { rewrite n_equal_combine by (rewrite !RV_length; exact L). rewrite combine_RV, countb_map. cbn [fst snd].
    unfold k. apply countb_ext. intros [x y] Hxy. cbn [fst snd].
    rewrite Forall_forall in Ft, Fp.
    apply feqb_FR; [apply Ft; eapply in_combine_l; exact Hxy | apply Fp; eapply in_combine_r; exact Hxy]. }
  split; [exact EK|].
  rewrite accuracy_def by (rewrite !RV_length; exact L). rewrite RV_length, <- EK. reflexivity.
Qed.

(* ---------------- precision / recall ---------------- *)
Lemma is_label_F y : is_label FOps y = true ->
  ffin y /\ (FR y = 0 \/ FR y = 1) /\ is_one FOps y = Reqb (FR y) 1.
Proof.
  unfold is_label, is_one. cbn [FOps oeqb o0 o1]. intros H.
  assert (F1 : ffin 1%float) by reflexivity.
  assert (Hy : ffin y /\ (FR y = 0 \/ FR y = 1)).
  { apply orb_true_iff in H. destruct H as [H|H].
    - destruct (feqb_true_fin y 0%float ffin_zero H) as [A B]. rewrite FR_zero in B. tauto.
    - destruct (feqb_true_fin y 1%float F1 H) as [A B]. rewrite FR_one in B. tauto. }
  destruct Hy as [Fy Vy]. split; [exact Fy|]. split; [exact Vy|].
  rewrite (feqb_FR y 1%float Fy F1), FR_one. reflexivity.
Qed.

Lemma labels_F l : forallb (is_label FOps) l = true ->
  binary (RV l) /\ forall y, In y l -> is_one FOps y = Reqb (FR y) 1.
Proof.
  intros H. rewrite forallb_forall in H. split.
  - intros x Hx. unfold RV in Hx. apply in_map_iff in Hx as (y & <- & Hy). apply (is_label_F y (H y Hy)).
  - intros y Hy. apply (is_label_F y (H y Hy)).
Qed.

(* the counters of the code, on real label vectors, are the confusion counts *)
Lemma counts_R (yt yp : list R) : length yt = length yp -> binary yt -> binary yp ->
  countb (fun q => Reqb (snd q) 1) (combine yt yp) = (n_tp yt yp + n_fp yt yp)%nat /\
  countb (fun q => Reqb (snd q) 1 && Reqb (fst q) 1) (combine yt yp) = n_tp yt yp /\
  countb (fun q => Reqb (fst q) 1) (combine yt yp) = (n_tp yt yp + n_fn yt yp)%nat /\
  countb (fun q => Reqb (fst q) 1 && Reqb (snd q) 1) (combine yt yp) = n_tp yt yp.
Proof.
  intros H Ht Hp. rewrite <- (pred_pos_split yt yp Ht H), <- (true_pos_split yt yp Hp H).
  rewrite (combine_as_map_seq 0 0 yt yp H), !countb_map. cbn [fst snd].
  unfold n_tp, count_idx, at_. repeat split.
  apply countb_ext. intros i _. apply andb_comm.
Qed.

Lemma counts_F (yt yp : list PrimFloat.float) : length yt = length yp ->
  forallb (is_label FOps) yt = true -> forallb (is_label FOps) yp = true ->
  let rt := RV yt in let rp := RV yp in
  binary rt /\ binary rp /\
  countb (fun q => is_one FOps (snd q)) (combine yt yp) = (n_tp rt rp + n_fp rt rp)%nat /\
  countb (fun q => is_one FOps (snd q) && is_one FOps (fst q)) (combine yt yp) = n_tp rt rp /\
  countb (fun q => is_one FOps (fst q)) (combine yt yp) = (n_tp rt rp + n_fn rt rp)%nat /\
  countb (fun q => is_one FOps (fst q) && is_one FOps (snd q)) (combine yt yp) = n_tp rt rp.
Proof.
  intros L Ht Hp. cbv zeta. destruct (labels_F yt Ht) as [Bt Ot]. destruct (labels_F yp Hp) as [Bp Op].
  split; [exact Bt|]. split; [exact Bp|].
  assert (LR : length (RV yt) = length (RV yp)) by (rewrite !RV_length; exact L).
  destruct (counts_R (RV yt) (RV yp) LR Bt Bp) as (C1 & C2 & C3 & C4).
  assert (G : forall (f : PrimFloat.float * PrimFloat.float -> bool) (g : R * R -> bool),
             (forall x y, In (x, y) (combine yt yp) -> f (x, y) = g (FR x, FR y)) ->
             countb f (combine yt yp) = countb g (combine (RV yt) (RV yp))).
  { intros f g Hfg. rewrite combine_RV, countb_map. apply countb_ext. intros [x y] Hxy. apply Hfg, Hxy. }
  assert (S : forall x y, In (x, y) (combine yt yp) ->
            is_one FOps x = Reqb (FR x) 1 /\ is_one FOps y = Reqb (FR y) 1).
  { intros x y Hxy. split; [apply Ot; eapply in_combine_l; exact Hxy | apply Op; eapply in_combine_r; exact Hxy]. }
  split; [|split; [|split]].
  - etransitivity; [|exact C1]. apply G. intros x y Hxy. cbn [fst snd]. apply (S x y Hxy).
  - etransitivity; [|exact C2]. apply G. intros x y Hxy. cbn [fst snd]. destruct (S x y Hxy) as [-> ->]. reflexivity.
  - etransitivity; [|exact C3]. apply G. intros x y Hxy. cbn [fst snd]. apply (S x y Hxy).
  - etransitivity; [|exact C4]. apply G. intros x y Hxy. cbn [fst snd]. destruct (S x y Hxy) as [-> ->]. reflexivity.
Qed.

Lemma precision_float_exact yt yp p :
  precision FOps yt yp = Some p -> ffin p -> (Z.of_nat (length yt) < 2 ^ 53)%Z ->
  let tp := n_tp (RV yt) (RV yp) in let fp := n_fp (RV yt) (RV yp) in
  let q := INR tp / INR (tp + fp) in
  binary (RV yt) /\ binary (RV yp) /\ (0 < tp + fp <= length yt)%nat /\
  precision ROps (RV yt) (RV yp) = Some q /\
  FR p = rnd64 q /\ Rabs (FR p - q) <= u64 * q /\ 0 <= FR p <= 1 /\ (tp = 0%nat -> FR p = 0).
Proof.
  intros H Hfin Hlt tp fp q. unfold precision in H.
  destruct (Nat.eqb_spec (length yt) (length yp)) as [L|]; [|discriminate].
  destruct (forallb (is_label FOps) yt) eqn:Ht; [|discriminate].
  destruct (forallb (is_label FOps) yp) eqn:Hp; [|discriminate]. cbn [andb] in H.
  destruct (counts_F yt yp L Ht Hp) as (Bt & Bp & C1 & C2 & _ & _).
  rewrite C1, C2 in H. cbn [FOps odiv] in H. fold tp fp in H. injection H as <-.
  assert (LR : length (RV yt) = length (RV yp)) by (rewrite !RV_length; exact L).
  assert (Hpp : (tp + fp <= length yt)%nat).
  { unfold tp, fp. rewrite <- C1. etransitivity; [apply countb_le|]. rewrite combine_length. lia. }
  assert (Hn : (0 < tp + fp)%nat).
  { destruct (Nat.eq_dec (tp + fp) 0) as [Z|]; [|lia]. exfalso. assert (Z2 : tp = 0%nat) by lia.
    rewrite Z, Z2 in Hfin. exact (zero_div_zero_nan Hfin). }
  destruct (count_quot_float tp (tp + fp) Hn ltac:(lia) ltac:(lia)) as (_ & E & B & I & Z & _).
  split; [exact Bt|]. split; [exact Bp|]. split; [split; [exact Hn | exact Hpp]|].
  split; [exact (precision_def _ _ LR Bt Bp)|]. repeat split; try assumption; apply I.
Qed.

Lemma recall_float_exact yt yp r :
  recall FOps yt yp = Some r -> ffin r -> (Z.of_nat (length yt) < 2 ^ 53)%Z ->
  let tp := n_tp (RV yt) (RV yp) in let fn := n_fn (RV yt) (RV yp) in
  let q := INR tp / INR (tp + fn) in
  binary (RV yt) /\ binary (RV yp) /\ (0 < tp + fn <= length yt)%nat /\
  recall ROps (RV yt) (RV yp) = Some q /\
  FR r = rnd64 q /\ Rabs (FR r - q) <= u64 * q /\ 0 <= FR r <= 1 /\ (tp = 0%nat -> FR r = 0).
Proof.
  intros H Hfin Hlt tp fn q. unfold recall in H.
  destruct (Nat.eqb_spec (length yt) (length yp)) as [L|]; [|discriminate].
  destruct (forallb (is_label FOps) yt) eqn:Ht; [|discriminate].
  destruct (forallb (is_label FOps) yp) eqn:Hp; [|discriminate]. cbn [andb] in H.
  destruct (counts_F yt yp L Ht Hp) as (Bt & Bp & _ & _ & C1 & C2).
  rewrite C1, C2 in H. cbn [FOps odiv] in H. fold tp fn in H. injection H as <-.
  assert (LR : length (RV yt) = length (RV yp)) by (rewrite !RV_length; exact L).
  assert (Hpp : (tp + fn <= length yt)%nat).
  { unfold tp, fn. rewrite <- C1. etransitivity; [apply countb_le|]. rewrite combine_length. lia. }
  assert (Hn : (0 < tp + fn)%nat).
  { destruct (Nat.eq_dec (tp + fn) 0) as [Z|]; [|lia]. exfalso. assert (Z2 : tp = 0%nat) by lia.
    rewrite Z, Z2 in Hfin. exact (zero_div_zero_nan Hfin). }
  destruct (count_quot_float tp (tp + fn) Hn ltac:(lia) ltac:(lia)) as (_ & E & B & I & Z & _).
  split; [exact Bt|]. split; [exact Bp|]. split; [split; [exact Hn | exact Hpp]|].
  split; [exact (recall_def _ _ LR Bt Bp)|]. repeat split; try assumption; apply I.
Qed.

(* ---------------- more "finite result" facts: division, bounded products and sums ---------------- *)
Lemma fdiv_fin_num x y : ffin (x / y)%float -> ffin x.
Proof.
  rewrite !ffin_B, div_equiv.
  destruct (Prim2B x) as [sx|sx| |sx mx ex Bx], (Prim2B y) as [sy|sy| |sy my ey By]; simpl; intros H;
    try reflexivity; discriminate H.
Qed.
Lemma fdiv_fin_den x y : ffin (x / y)%float -> ffin y -> FR y <> 0.
Proof.
  rewrite !ffin_B. unfold FR. rewrite div_equiv.
  destruct (Prim2B x) as [sx|sx| |sx mx ex Bx], (Prim2B y) as [sy|sy| |sy my ey By]; simpl; intros H Hy;
    try discriminate H; try discriminate Hy.
  - intros Z. apply (eq_0_F2R radix2) in Z. destruct sy; discriminate Z.
  - intros Z. apply (eq_0_F2R radix2) in Z. destruct sy; discriminate Z.
Qed.
Lemma FR_lt_emax z : Rabs (FR z) < bpow radix2 1024.
Proof. unfold FR. apply (abs_B2R_lt_emax prec emax). Qed.

Lemma fmul_bounded x y z : ffin x -> ffin y -> Rabs (FR x * FR y) <= Rabs (FR z) ->
  ffin (x * y)%float /\ FR (x * y)%float = rnd64 (FR x * FR y).
Proof.
  rewrite !ffin_B. unfold FR. intros Hx Hy Hb. rewrite mul_equiv.
  generalize (Bmult_correct prec emax Hprec Hmax mode_NE (Prim2B x) (Prim2B y)).
  rewrite Rlt_bool_true.
  - intros (E & F & _). split; [rewrite F, Hx, Hy; reflexivity | exact E].
  - apply Rle_lt_trans with (Rabs (FR z)); [|apply FR_lt_emax].
    change (round radix2 (fexp prec emax) (round_mode mode_NE) (B2R (Prim2B x) * B2R (Prim2B y)))
      with (rnd64 (B2R (Prim2B x) * B2R (Prim2B y))).
    apply Rabs_le_inv in Hb. apply Rabs_le. split.
    + rewrite <- (rnd64_id (- Rabs (FR z))).
      * apply rnd64_le. apply Hb.
      * apply fmt64_opp. apply generic_format_abs, fmt64_FR.
    + rewrite <- (rnd64_id (Rabs (FR z))).
      * apply rnd64_le. apply Hb.
      * apply generic_format_abs, fmt64_FR.
Qed.

Lemma fadd_bounded x y z : ffin x -> ffin y -> Rabs (rnd64 (FR x + FR y)) <= Rabs (FR z) ->
  ffin (x + y)%float /\ FR (x + y)%float = rnd64 (FR x + FR y).
Proof.
  rewrite !ffin_B. unfold FR. intros Hx Hy Hb. rewrite add_equiv.
  generalize (Bplus_correct prec emax Hprec Hmax mode_NE _ _ Hx Hy).
  rewrite Rlt_bool_true.
  - intros (E & F & _). split; [exact F | exact E].
  - apply Rle_lt_trans with (Rabs (FR z)); [exact Hb | apply FR_lt_emax].
Qed.

(* ---------------- lower bounds by powers of two (to stay in the normal range) ---------------- *)
Lemma Pu_le_bpow k : Pu k <= bpow radix2 (Z.of_nat k).
Proof.
  induction k as [|k IH]; [unfold Pu; simpl; lra|].
  rewrite Pu_S. replace (Z.of_nat (S k)) with (1 + Z.of_nat k)%Z by lia. rewrite bpow_plus.
  change (bpow radix2 1) with 2. pose proof u64_lt_1. pose proof u64_pos. pose proof (Pu_ge1 k). nra.
Qed.
Lemma low_mul e1 e2 x y : bpow radix2 e1 <= x -> bpow radix2 e2 <= y -> bpow radix2 (e1 + e2) <= x * y.
Proof.
  intros Hx Hy. rewrite bpow_plus. pose proof (bpow_gt_0 radix2 e1). pose proof (bpow_gt_0 radix2 e2).
  apply Rmult_le_compat; lra.
Qed.
Lemma low_near k e x' x : near k x' x -> bpow radix2 e <= x -> bpow radix2 (e - Z.of_nat k) <= x'.
Proof.
  intros (A1 & A2 & A3 & A4) H. pose proof (Pu_le_bpow k) as HP. pose proof (Pu_ge1 k).
  unfold Z.sub. rewrite bpow_plus, bpow_opp.
  pose proof (bpow_gt_0 radix2 (Z.of_nat k)) as Hk. pose proof (bpow_gt_0 radix2 e).
  apply (Rmult_le_reg_r (bpow radix2 (Z.of_nat k))); [exact Hk|].
  rewrite Rmult_assoc, Rinv_l by lra. nra.
Qed.
Lemma low_weaken e e' x : (e' <= e)%Z -> bpow radix2 e <= x -> bpow radix2 e' <= x.
Proof. intros H Hx. eapply Rle_trans; [apply bpow_le, H | exact Hx]. Qed.
Lemma normal_of_low e x : (-1022 <= e)%Z -> bpow radix2 e <= x -> bpow radix2 (-1022) <= Rabs x.
Proof.
  intros He Hx. pose proof (bpow_gt_0 radix2 e). rewrite Rabs_pos_eq by lra. eapply low_weaken; eassumption.
Qed.
(* one rounding of a value that is zero or in the normal range *)
Lemma near_rnd64 k y x : near k y x -> (y = 0 \/ bpow radix2 (-1022) <= Rabs y) -> near (S k) (rnd64 y) x.
Proof.
  intros N [Z|H].
  - subst y. rewrite rnd64_0. apply (near_weaken k); [lia | exact N].
  - apply (near_rnd k y); [exact N | apply rnd64_sharp, H].
Qed.
Lemma near_rnd64_add k a b x : near k (a + b) x -> fmt64 a -> fmt64 b -> near (S k) (rnd64 (a + b)) x.
Proof. intros N Fa Fb. apply (near_rnd k (a + b)); [exact N | apply rnd64_add_sharp; assumption]. Qed.

Lemma bpow_m480 : bpow radix2 (-480) = / 2 ^ 480.
Proof.
  change (-480)%Z with (- (480))%Z. rewrite bpow_opp. f_equal.
  change (bpow radix2 480) with (IZR (2 ^ Z.of_nat 480)). rewrite <- pow_IZR. reflexivity.
Qed.

Lemma quot_low (k n : nat) : (0 < k)%nat -> (0 < n)%nat -> (Z.of_nat n < 2 ^ 53)%Z ->
  bpow radix2 (-53) <= INR k / INR n.
Proof.
  intros Hk Hn Hlt. assert (1 <= INR k) by (change 1 with (INR 1); apply le_INR; lia).
  pose proof (bpow_m53_INR n Hn Hlt). pose proof (bpow_gt_0 radix2 (-53)). unfold Rdiv. nra.
Qed.

Lemma quot_le1 (k n : nat) : (k <= n)%nat -> (0 < n)%nat -> INR k / INR n <= 1.
Proof.
  intros Hk Hn. assert (0 < INR n) by (apply lt_0_INR; exact Hn). assert (INR k <= INR n) by (apply le_INR; exact Hk).
  apply (Rmult_le_reg_r (INR n)); [lra|]. unfold Rdiv. rewrite Rmult_assoc, Rinv_l by lra. lra.
Qed.

(* ---------------- F-beta ---------------- *)
Lemma fbeta_float_error beta yt yp f :
  f_beta FOps beta yt yp = Some f -> ffin f -> (Z.of_nat (length yt) < 2 ^ 53)%Z ->
  let b := FR beta in
  let tp := n_tp (RV yt) (RV yp) in let fp := n_fp (RV yt) (RV yp) in let fn := n_fn (RV yt) (RV yp) in
  let p := INR tp / INR (tp + fp) in let r := INR tp / INR (tp + fn) in
  let F := (1 + b * b) * (p * r) / (b * b * p + r) in
  binary (RV yt) /\ binary (RV yp) /\ (0 < tp)%nat /\ ffin beta /\
  f_beta ROps b (RV yt) (RV yp) = Some F /\ 0 < F /\
  ((b = 0 \/ / 2 ^ 480 <= Rabs b) -> Rabs (FR f - F) <= ((1 + u64) ^ 11 - 1) * F).
Proof.
  intros H Hfin Hlt b tp fp fn p r F. unfold f_beta in H.
  destruct (Nat.eqb_spec (length yt) (length yp)) as [L|]; [|discriminate].
  destruct (precision FOps yt yp) as [pf|] eqn:HP; [|discriminate].
  destruct (recall FOps yt yp) as [rf|] eqn:HR; [|discriminate].
  cbn [FOps oadd omul odiv o1] in H. injection H as <-.
  set (b2 := (beta * beta)%float) in *. set (s := (1 + b2)%float) in *. set (pr := (pf * rf)%float) in *.
  set (num := (s * pr)%float) in *. set (bp := (b2 * pf)%float) in *. set (den := (bp + rf)%float) in *.
  pose proof (fdiv_fin_num _ _ Hfin) as Fnum.
  destruct (fmul_finite _ _ Fnum) as (Fs & Fpr & Enum).
  destruct (fmul_finite _ _ Fpr) as (Fp & Fr & Epr).
  destruct (fadd_finite _ _ Fs) as (_ & Fb2 & Es). rewrite FR_one in Es.
  destruct (fmul_finite _ _ Fb2) as (Fbeta & _ & Eb2). fold b in Eb2.
  fold b2 in Eb2. fold s in Es. fold pr in Epr. fold num in Enum.
  destruct (precision_float_exact yt yp pf HP Fp Hlt) as (Bt & Bp & [Hpp Hppn] & _ & EP & _ & [P0 P1] & _).
  destruct (recall_float_exact yt yp rf HR Fr Hlt) as (_ & _ & [Hrp Hrpn] & _ & ER & _ & [R0 R1] & _).
  fold tp fp p in EP, Hpp, Hppn. fold tp fn r in ER, Hrp, Hrpn.
  assert (LR : length (RV yt) = length (RV yp)) by (rewrite !RV_length; exact L).
  assert (HB0 : 0 <= FR b2) by (rewrite Eb2; apply rnd64_ge_0; nra).
  (* the denominator cannot overflow: 0 <= bp + R <= 1 + B *)
  destruct (fmul_bounded b2 pf b2 Fb2 Fp) as [Fbp Ebp].
  { rewrite Rabs_mult, (Rabs_pos_eq (FR pf)) by lra. pose proof (Rabs_pos (FR b2)). nra. }
  assert (Hbp : 0 <= FR bp <= FR b2).
  { fold bp in Ebp. rewrite Ebp. split; [apply rnd64_ge_0; nra|].
    rewrite <- (rnd64_id (FR b2)) at 2 by apply fmt64_FR. apply rnd64_le. nra. }
  destruct (fadd_bounded bp rf s Fbp Fr) as [Fden Eden].
  { rewrite Es. rewrite !Rabs_pos_eq by (apply rnd64_ge_0; lra). apply rnd64_le. lra. }
  fold den in Fden, Eden.
  pose proof (fdiv_fin_den _ _ Hfin Fden) as Hden0.
  destruct (fdiv_finite num den Fden Hden0 Hfin) as [_ Ef].
  assert (Htp : (0 < tp)%nat).
  { destruct (Nat.eq_dec tp 0) as [Z|]; [|lia]. exfalso. apply Hden0.
    assert (p = 0) by (unfold p; rewrite Z; cbn [INR]; lra).
    assert (r = 0) by (unfold r; rewrite Z; cbn [INR]; lra).
    rewrite Eden. fold bp in Ebp. rewrite Ebp, EP, ER, H, H0, rnd64_0, Rmult_0_r, rnd64_0, Rplus_0_r. apply rnd64_0. }
  assert (Hp53 : bpow radix2 (-53) <= p) by (apply quot_low; lia).
  assert (Hr53 : bpow radix2 (-53) <= r) by (apply quot_low; lia).
  pose proof (bpow_gt_0 radix2 (-53)) as H53.
  assert (Hp1 : p <= 1) by (apply quot_le1; lia).
  assert (Hr1 : r <= 1) by (apply quot_le1; lia).
  assert (Hb2 : 0 <= b * b) by nra.
  assert (HD : 0 < b * b * p + r) by nra.
  assert (HFlow : p * r <= F).
  { unfold F. apply (Rmult_le_reg_r (b * b * p + r)); [exact HD|].
    replace ((1 + b * b) * (p * r) / (b * b * p + r) * (b * b * p + r)) with ((1 + b * b) * (p * r)) by (field; lra).
    assert (0 <= p * r) by nra. assert (b * b * p + r <= 1 + b * b) by nra.
    rewrite (Rmult_comm (1 + b * b)). apply Rmult_le_compat_l; assumption. }
  assert (Hprlow : bpow radix2 (-106) <= p * r) by (apply (low_mul (-53) (-53)); assumption).
  pose proof (bpow_gt_0 radix2 (-106)) as H106.
  split; [exact Bt|]. split; [exact Bp|]. split; [exact Htp|]. split; [exact Fbeta|].
  split; [exact (fbeta_def b _ _ LR Bt Bp)|]. split; [lra|].
  intros Hb. rewrite <- bpow_m480 in Hb.
  (* P, R *)
  assert (NP : near 1 (FR pf) p).
  { rewrite EP. apply (near_rnd64 0); [apply near_refl; lra|]. right. apply (normal_of_low (-53)); [lia | exact Hp53]. }
  assert (NR : near 1 (FR rf) r).
  { rewrite ER. apply (near_rnd64 0); [apply near_refl; lra|]. right. apply (normal_of_low (-53)); [lia | exact Hr53]. }
  (* beta^2 *)
  assert (NB : near 1 (FR b2) (b * b)).
  { rewrite Eb2. apply (near_rnd64 0); [apply near_refl; lra|]. destruct Hb as [Z|Hb].
    - left. rewrite Z. ring.
    - right. rewrite Rabs_mult. replace (-1022)%Z with (-511 + -511)%Z by lia.
      apply low_mul; apply (low_weaken (-480)); try lia; exact Hb. }
  (* 1 + beta^2 *)
  assert (NS : near 2 (FR s) (1 + b * b)).
  { rewrite Es. apply near_rnd64_add; [|exact fmt64_one | apply fmt64_FR].
    apply near_add; [apply near_refl; lra | exact NB]. }
  assert (Slow : bpow radix2 (-2) <= FR s).
  { apply (low_near 2 0 _ _ NS). simpl. lra. }
  (* P * R *)
  assert (NPR0 : near 2 (FR pf * FR rf) (p * r)) by apply (near_mul 1 1 _ _ _ _ NP NR).
  assert (NPR : near 3 (FR pr) (p * r)).
  { rewrite Epr. apply near_rnd64; [exact NPR0|]. right.
    apply (normal_of_low (-106 - 2)); [lia|]. apply (low_near 2 _ _ _ NPR0 Hprlow). }
  assert (PRlow : bpow radix2 (-109) <= FR pr) by apply (low_near 3 (-106) _ _ NPR Hprlow).
  (* numerator *)
  assert (NN0 : near 5 (FR s * FR pr) ((1 + b * b) * (p * r))) by apply (near_mul 2 3 _ _ _ _ NS NPR).
  assert (NN : near 6 (FR num) ((1 + b * b) * (p * r))).
  { rewrite Enum. apply near_rnd64; [exact NN0|]. right.
    apply (normal_of_low (-2 + -109)); [lia|]. apply low_mul; assumption. }
  (* beta^2 * P *)
  assert (NBP0 : near 2 (FR b2 * FR pf) (b * b * p)) by apply (near_mul 1 1 _ _ _ _ NB NP).
  assert (NBP : near 3 (FR bp) (b * b * p)).
  { fold bp in Ebp. rewrite Ebp. apply near_rnd64; [exact NBP0|]. destruct Hb as [Z|Hb].
    - left. rewrite Eb2, Z, Rmult_0_l, rnd64_0. ring.
    - right. apply (normal_of_low ((-960 + -53) - 2)); [lia|]. apply (low_near 2 _ _ _ NBP0).
      apply low_mul; [|exact Hp53]. replace (b * b) with (Rabs b * Rabs b) by (rewrite <- Rabs_mult; apply Rabs_pos_eq; nra).
      replace (-960)%Z with (-480 + -480)%Z by lia. apply low_mul; exact Hb. }
  (* denominator *)
  assert (ND : near 4 (FR den) (b * b * p + r)).
  { rewrite Eden. apply near_rnd64_add; [|apply fmt64_FR | apply fmt64_FR].
    apply near_add; [exact NBP | apply (near_weaken 1); [lia | exact NR]]. }
  (* quotient *)
  assert (NQ0 : near 10 (FR num / FR den) F) by apply (near_div 6 4 _ _ _ _ NN ND HD).
  assert (NQ : near 11 (FR (num / den)%float) F).
  { rewrite Ef. apply near_rnd64; [exact NQ0|]. right.
    apply (normal_of_low (-106 - 10)); [lia|]. apply (low_near 10 _ _ _ NQ0). lra. }
  exact (near_error 11 _ _ NQ).
Qed.

(* ---------------- R^2 = 1 - ss_res / ss_tot ---------------- *)
Lemma Eu_small k : INR k * u64 <= / 2 -> Eu k <= 2 * INR k * u64.
Proof.
  pose proof u64_pos as Hu. induction k as [|k IH]; intros H.
  - rewrite Eu_0. cbn [INR]. lra.
  - rewrite S_INR in *. assert (Hk : 0 <= INR k) by apply pos_INR.
    assert (IH' : Eu k <= 2 * INR k * u64) by (apply IH; nra).
    rewrite Eu_S. pose proof (Eu_nonneg k). nra.
Qed.

Lemma Eu_quarter k : (Z.of_nat k <= 2 ^ 50)%Z -> Eu k <= / 4.
Proof.
  intros H. assert (Hk : INR k <= bpow radix2 50).
  { change (bpow radix2 50) with (IZR (2 ^ 50)). rewrite INR_IZR_INZ. apply IZR_le, H. }
  assert (Hku : INR k * u64 <= / 8).
  { unfold u64. replace (/ 8) with (bpow radix2 50 * bpow radix2 (-53)).
    - apply Rmult_le_compat_r; [apply bpow_ge_0 | exact Hk].
    - rewrite <- bpow_plus. change (50 + -53)%Z with (-3)%Z. simpl. unfold Z.pow_pos. simpl. lra. }
  pose proof (Eu_small k ltac:(lra)). lra.
Qed.

(* pure real arithmetic: the two sums known up to relative error E, then a rounded division and a
   rounded subtraction from 1 *)
Lemma r2_real_bound (S T s t q' r' E e : R) : 0 <= S -> 0 < T -> 0 <= E <= / 4 -> 0 <= e ->
  Rabs (s - S) <= E * S -> Rabs (t - T) <= E * T ->
  Rabs (q' - s / t) <= u64 * Rabs (s / t) + e ->
  Rabs (r' - (1 - q')) <= u64 * Rabs (1 - q') ->
  Rabs (r' - (1 - S / T)) <= u64 * Rabs (1 - S / T) + (1 + u64) * ((3 * E + 2 * u64) * (S / T) + e).
Proof.
  intros HS HT HE He Hs Ht Hq Hr. pose proof u64_pos as Hu. pose proof u64_lt_1 as Hu1.
  set (q := S / T). assert (Hq0 : 0 <= q) by (apply Rmult_le_pos; [lra | apply Rlt_le, Rinv_0_lt_compat, HT]).
  assert (ES : S = q * T) by (unfold q; field; lra).
  clearbody q. subst S.
  apply Rabs_le_inv in Ht.
  assert (Ht0 : 3 / 4 * T <= t) by nra.
  assert (Htpos : 0 < t) by nra.
  set (d := s / t - q).
  assert (Hd : Rabs d <= 3 * E * q).
  { assert (Edt : d * t = (s - q * T) - q * (t - T)) by (unfold d; field; lra).
    assert (B : Rabs d * t <= 2 * E * q * T).
    { rewrite <- (Rabs_pos_eq t) at 1 by lra. rewrite <- Rabs_mult, Edt.
      eapply Rle_trans; [apply Rabs_triang|]. rewrite Rabs_Ropp, Rabs_mult, (Rabs_pos_eq q) by lra.
      assert (Rabs (t - T) <= E * T) by (apply Rabs_le; lra). nra. }
    pose proof (Rabs_pos d) as Hd0.
    assert (B2 : Rabs d * (3 / 4 * T) <= 2 * E * q * T) by nra.
    assert (B3 : (Rabs d * (3 / 4) - 2 * E * q) * T <= 0) by lra.
    assert (Rabs d * (3 / 4) - 2 * E * q <= 0).
    { destruct (Rle_or_lt (Rabs d * (3 / 4) - 2 * E * q) 0) as [G|G]; [exact G|]. exfalso. nra. }
    assert (0 <= E * q) by nra. lra. }
  assert (Hst : Rabs (s / t) <= 2 * q).
  { replace (s / t) with (d + q) by (unfold d; ring). eapply Rle_trans; [apply Rabs_triang|].
    rewrite (Rabs_pos_eq q) by lra. nra. }
  assert (Hqq : Rabs (q' - q) <= (3 * E + 2 * u64) * q + e).
  { replace (q' - q) with ((q' - s / t) + d) by (unfold d; ring). eapply Rle_trans; [apply Rabs_triang|]. nra. }
  assert (H1q : Rabs (1 - q') <= Rabs (1 - q) + Rabs (q' - q)).
  { replace (1 - q') with ((1 - q) + - (q' - q)) by ring. eapply Rle_trans; [apply Rabs_triang|].
    rewrite Rabs_Ropp. lra. }
  replace (r' - (1 - q)) with ((r' - (1 - q')) + - (q' - q)) by ring.
  eapply Rle_trans; [apply Rabs_triang|]. rewrite Rabs_Ropp.
  pose proof (Rabs_pos (q' - q)). pose proof (Rabs_pos (1 - q)). nra.
Qed.

(* the three intermediate floats of r2 *)
Definition r2_mean_F (yt : list PrimFloat.float) : PrimFloat.float :=
  PrimFloat.div (fold_left PrimFloat.add yt 0%float) (ofn FOps (length yt)).
Definition r2_ss_tot_F (yt : list PrimFloat.float) : PrimFloat.float :=
  sq_dist_loop FOps yt (repeat (r2_mean_F yt) (length yt)).
Definition r2_ss_res_F (yt yp : list PrimFloat.float) : PrimFloat.float := sq_dist_loop FOps yt yp.
(* decidable no-underflow check for the squares of both loops (evaluate with vm_compute) *)
Definition r2_normal_b (yt yp : list PrimFloat.float) : bool :=
  diff_normal_b yt yp && diff_normal_b yt (repeat (r2_mean_F yt) (length yt)).

Lemma sq_loop_const {T} (O : Ops T) (m : T) : forall (l : list T) (acc : T),
  fold_left (fun acc y => O.(oadd) acc (osq O (O.(osub) y m))) l acc =
  fold_left (fun sum ab => let d := O.(osub) (fst ab) (snd ab) in O.(oadd) sum (O.(omul) d d))
            (combine l (repeat m (length l))) acc.
Proof.
  induction l as [|y l IH]; intros acc; cbn [length repeat combine fold_left]; [reflexivity|].
  rewrite IH. reflexivity.
Qed.

Lemma r2_F_unfold yt yp : length yt = length yp ->
  r2 FOps yt yp = Some (1 - r2_ss_res_F yt yp / r2_ss_tot_F yt)%float.
Proof.
  intros L. apply Nat.eqb_eq in L. unfold r2. rewrite L.
  rewrite (sq_loop_const FOps). reflexivity.
Qed.

Lemma comp_RV_repeat m n i : (i < n)%nat -> comp (RV (repeat m n)) i = FR m.
Proof.
  intros H. rewrite comp_RV. rewrite (nth_indep _ 0%float m) by (rewrite repeat_length; exact H).
  rewrite nth_repeat. reflexivity.
Qed.

Lemma r2_float_error yt yp r :
  r2 FOps yt yp = Some r -> ffin r -> ffin (r2_ss_tot_F yt) -> r2_normal_b yt yp = true ->
  (Z.of_nat (length yt) + 2 <= 2 ^ 50)%Z ->
  let n := length yt in
  let mu := FR (r2_mean_F yt) in
  let S := sigma n (fun i => (comp (RV yt) i - comp (RV yp) i) * (comp (RV yt) i - comp (RV yp) i)) in
  let T := sigma n (fun i => (comp (RV yt) i - mu) * (comp (RV yt) i - mu)) in
  let E := (1 + u64) ^ (n + 2) - 1 in
  r = (1 - r2_ss_res_F yt yp / r2_ss_tot_F yt)%float /\ 0 <= S /\ 0 < T /\
  Rabs (FR (r2_ss_res_F yt yp) - S) <= E * S /\ Rabs (FR (r2_ss_tot_F yt) - T) <= E * T /\
  Rabs (FR r - (1 - S / T)) <= u64 * Rabs (1 - S / T) + (1 + u64) * ((3 * E + 2 * u64) * (S / T) + eta64).
Proof.
  intros H Hfin Ftot Hnb Hn n mu S T E.
  assert (L : length yt = length yp).
  { unfold r2 in H. destruct (Nat.eqb_spec (length yt) (length yp)) as [L|]; [exact L | discriminate]. }
  rewrite (r2_F_unfold yt yp L) in H. injection H as <-.
  set (sres := r2_ss_res_F yt yp) in *. set (stot := r2_ss_tot_F yt) in *.
  destruct (fsub_finite _ _ Hfin) as (_ & Fq & Er). rewrite FR_one in Er.
  pose proof (fdiv_fin_num _ _ Fq) as Fres.
  pose proof (fdiv_fin_den _ _ Fq Ftot) as Htot0.
  pose proof (fdiv_error sres stot Ftot Htot0 Fq) as Hq.
  apply andb_prop in Hnb. destruct Hnb as [Nb1 Nb2].
  (* the two sums *)
  assert (Sres : squared_distance FOps yt yp = Some sres).
  { unfold squared_distance. rewrite (proj2 (same_len_true yt yp) L). reflexivity. }
  assert (Stot : squared_distance FOps yt (repeat (r2_mean_F yt) n) = Some stot).
  { unfold squared_distance. rewrite (proj2 (same_len_true yt (repeat (r2_mean_F yt) n))) by (rewrite repeat_length; reflexivity).
    reflexivity. }
  destruct (squared_distance_float_error yt yp sres Sres Fres) as (_ & HS0 & _ & _ & _).
  pose proof (squared_distance_float_error_checked yt yp sres Sres Fres Nb1) as BS.
  destruct (squared_distance_float_error yt _ stot Stot Ftot) as (_ & HT0 & _ & _ & _).
  pose proof (squared_distance_float_error_checked yt _ stot Stot Ftot Nb2) as BT.
  cbv zeta in HS0, BS, HT0, BT. fold n S in HS0, BS. fold n in HT0, BT.
  assert (ET : sigma n (fun i => (comp (RV yt) i - comp (RV (repeat (r2_mean_F yt) n)) i) *
                                 (comp (RV yt) i - comp (RV (repeat (r2_mean_F yt) n)) i)) = T).
  { unfold T. apply sigma_ext. intros i Hi. rewrite (comp_RV_repeat _ n i Hi). reflexivity. }
  rewrite ET in HT0, BT. fold E in BS, BT.
  assert (HTpos : 0 < T).
  { destruct HT0 as [G|G]; [exact G|]. exfalso. apply Htot0. rewrite <- G, Rmult_0_r in BT.
    pose proof (Rabs_pos (FR stot - 0)). rewrite Rminus_0_r in *. apply Rabs_eq_R0. lra. }
  split; [reflexivity|]. split; [exact HS0|]. split; [exact HTpos|]. split; [exact BS|]. split; [exact BT|].
  assert (HE : 0 <= E <= / 4).
  { unfold E. fold (Eu (n + 2)). split; [apply Eu_nonneg|]. apply Eu_quarter. unfold n. lia. }
  apply (r2_real_bound S T (FR sres) (FR stot) (FR (sres / stot)%float) _ E eta64); try assumption.
  - apply Rlt_le, eta64_pos.
  - rewrite Er. apply rnd64_sub_err; [exact fmt64_one | apply fmt64_FR].
Qed.

(* the computed mean, and what replacing the exact mean by it does to the total sum of squares *)
Lemma Rsuml_map_sigma (g : R -> R) (x : list R) : Rsuml (map g x) = sigma (length x) (fun i => g (comp x i)).
Proof.
  induction x as [|a x IH]; [reflexivity|]. cbn [map length]. rewrite sigma_S_head.
  cbn [Rsuml fold_right]. fold (Rsuml (map g x)). rewrite IH. reflexivity.
Qed.
Lemma Rsuml_sigma (x : list R) : Rsuml x = sigma (length x) (fun i => comp x i).
Proof. rewrite <- (map_id x) at 1. apply (Rsuml_map_sigma (fun v => v)). Qed.
Lemma Rsumabs_map (x : list R) : Rsumabs x = Rsuml (map Rabs x).
Proof. induction x as [|a x IH]; [reflexivity|]. cbn [Rsumabs Rsuml map fold_right]. fold (Rsumabs x) (Rsuml (map Rabs x)). rewrite IH. reflexivity. Qed.
Lemma sigma_const n c : sigma n (fun _ => c) = INR n * c.
Proof. induction n as [|n IH]; [rewrite sigma_0; cbn [INR]; lra|]. rewrite sigma_S_last, IH, S_INR. ring. Qed.

Lemma r2_mean_float_error yt :
  ffin (r2_mean_F yt) -> (Z.of_nat (length yt) < 2 ^ 53)%Z ->
  let n := length yt in
  let ybar := sigma n (comp (RV yt)) / INR n in
  let A := sigma n (fun i => Rabs (comp (RV yt) i)) / INR n in
  (0 < n)%nat /\ Rabs (FR (r2_mean_F yt) - ybar) <= ((1 + u64) ^ n - 1) * A + eta64.
Proof.
  intros Hfin Hlt n ybar A. unfold r2_mean_F in *. fold n in Hfin |- *.
  change (fold_left PrimFloat.add yt 0%float) with (fsum yt) in *.
  assert (Hn : (0 < n)%nat).
  { destruct (Nat.eq_dec n 0) as [Z|]; [|lia]. exfalso. unfold n in Z. apply length_zero_iff_nil in Z.
    subst yt. vm_compute in Hfin. discriminate Hfin. }
  split; [exact Hn|].
  unfold ofn, oofnat in *. cbn [FOps oofZ] in *.
  destruct (float_of_Z_exact (Z.of_nat n)) as [Fn En]; [unfold n; lia|]. rewrite <- INR_IZR_INZ in En.
  assert (Hn0 : 0 < INR n) by (apply lt_0_INR; exact Hn).
  assert (Hi : 0 < / INR n) by (apply Rinv_0_lt_compat, Hn0).
  destruct (fdiv_finite (fsum yt) _ Fn) as [Fs _]; [rewrite En; lra | exact Hfin |].
  pose proof (fdiv_error (fsum yt) _ Fn) as Herr. rewrite En in Herr.
  specialize (Herr ltac:(lra) Hfin).
  pose proof (fsum_signed_error yt Fs) as Hs. rewrite Rsumabs_map in Hs.
  change (map FR yt) with (RV yt) in Hs. rewrite Rsuml_sigma, Rsuml_map_sigma, RV_length in Hs. fold n in Hs.
  set (s := FR (fsum yt)) in *. set (Sg := sigma n (fun i => comp (RV yt) i)) in *.
  set (Ab := sigma n (fun i => Rabs (comp (RV yt) i))) in *.
  assert (HAb : Rabs Sg <= Ab).
  { unfold Sg, Ab. clear. induction n as [|k IH]; [rewrite !sigma_0, Rabs_R0; lra|].
    rewrite !sigma_S_last. eapply Rle_trans; [apply Rabs_triang|]. lra. }
  assert (E1 : Eu (n - 1) <= Eu n) by (apply Eu_le; lia).
  pose proof (Eu_nonneg (n - 1)) as E0. pose proof (Rabs_pos Sg) as HSg.
  assert (Hsabs : Rabs s <= (1 + Eu (n - 1)) * Ab).
  { replace s with ((s - Sg) + Sg) by ring. eapply Rle_trans; [apply Rabs_triang|]. nra. }
  fold (Eu n). unfold ybar, A. change (sigma n (comp (RV yt))) with Sg.
  replace (FR (fsum yt / float_of_Z (Z.of_nat n))%float - Sg / INR n)
    with ((FR (fsum yt / float_of_Z (Z.of_nat n))%float - s / INR n) + (s - Sg) * / INR n) by (unfold Rdiv; ring).
  eapply Rle_trans; [apply Rabs_triang|].
  rewrite (Rabs_mult (s - Sg)), (Rabs_pos_eq (/ INR n)) by lra.
  unfold Rdiv in Herr. rewrite (Rabs_mult s), (Rabs_pos_eq (/ INR n)) in Herr by lra.
  assert (EuS : Eu n = Eu (n - 1) + u64 * (1 + Eu (n - 1))).
  { replace n with (S (n - 1)) at 1 by lia. apply Eu_S. }
  pose proof u64_pos.
  assert (K1 : Rabs (s - Sg) * / INR n <= Eu (n - 1) * Ab * / INR n) by (apply Rmult_le_compat_r; lra).
  assert (K2 : u64 * (Rabs s * / INR n) <= u64 * ((1 + Eu (n - 1)) * Ab * / INR n)).
  { apply Rmult_le_compat_l; [lra|]. apply Rmult_le_compat_r; lra. }
  unfold Rdiv. rewrite EuS. lra.
Qed.

Lemma ss_tot_shift (x : list R) (mu : R) : (0 < length x)%nat ->
  let n := length x in let ybar := sigma n (comp x) / INR n in
  sigma n (fun i => (comp x i - mu) * (comp x i - mu)) =
  sigma n (fun i => (comp x i - ybar) * (comp x i - ybar)) + INR n * ((mu - ybar) * (mu - ybar)).
Proof.
  intros Hn n ybar. assert (Hn0 : 0 < INR n) by (apply lt_0_INR; exact Hn).
  rewrite (sigma_ext n _ (fun i => (comp x i - ybar) * (comp x i - ybar) +
                                   (2 * (ybar - mu) * (comp x i + - ybar) + (mu - ybar) * (mu - ybar))))
    by (intros; ring).
  rewrite sigma_plus, sigma_plus, sigma_scal, sigma_plus, !sigma_const.
  replace (sigma n (comp x)) with (INR n * ybar) by (unfold ybar; field; lra).
  ring.
Qed.
