(* C15 — proofs for the count-and-divide and residual metrics over the reals, plus the helper
   lemmas (sums over lists, combine as a map over indices) shared by the other proof files. *)
From Coq Require Import List ZArith Reals Bool Arith Lia Lra Permutation.
From SC Require Import Base.Num C15.Model.
Import ListNotations.
Local Open Scope R_scope.

(* ------------------------------------------------------------------ sums *)
Fixpoint rsum (l : list R) : R := match l with [] => 0 | x :: t => x + rsum t end.
(* sum over a list of indices / keys *)
Definition rsum_of {A} (f : A -> R) (l : list A) : R := rsum (map f l).

Lemma rsum_app l1 l2 : rsum (l1 ++ l2) = rsum l1 + rsum l2.
Proof. induction l1 as [|x t IH]; cbn [app rsum]; [lra | rewrite IH; lra]. Qed.

Lemma fold_left_Rplus_acc : forall {A} (f : A -> R) (l : list A) (acc : R),
  fold_left (fun a x => a + f x) l acc = acc + rsum (map f l).
Proof.
  intros A f l. induction l as [|x t IH]; intros acc; cbn [fold_left map rsum].
  - lra.
  - rewrite IH. lra.
Qed.

Lemma rsum_ext {A} (f g : A -> R) l : (forall x, In x l -> f x = g x) -> rsum (map f l) = rsum (map g l).
Proof.
  induction l as [|x t IH]; intros H; cbn [map rsum]; [reflexivity|].
  rewrite (H x (or_introl eq_refl)), IH; [reflexivity|]. intros y Hy. apply H. right. exact Hy.
Qed.

Lemma rsum_perm l1 l2 : Permutation l1 l2 -> rsum l1 = rsum l2.
Proof. induction 1; cbn [rsum]; lra. Qed.

Lemma rsum_map_plus {A} (f g : A -> R) l : rsum (map (fun x => f x + g x) l) = rsum (map f l) + rsum (map g l).
Proof. induction l as [|x t IH]; cbn [map rsum]; [lra | rewrite IH; lra]. Qed.

Lemma rsum_map_scal {A} (c : R) (f : A -> R) l : rsum (map (fun x => c * f x) l) = c * rsum (map f l).
Proof. induction l as [|x t IH]; cbn [map rsum]; [lra | rewrite IH; lra]. Qed.

Lemma rsum_map_const {A} (c : R) (l : list A) : rsum (map (fun _ => c) l) = INR (length l) * c.
Proof.
  induction l as [|x t IH]; [cbn; lra|]. cbn [map rsum]. rewrite IH.
  change (length (x :: t)) with (S (length t)). rewrite S_INR. lra.
Qed.

Lemma rsum_nonneg l : (forall x, In x l -> 0 <= x) -> 0 <= rsum l.
Proof.
  induction l as [|x t IH]; intros H; cbn [rsum]; [lra|].
  assert (0 <= x) by (apply H; left; reflexivity).
  assert (0 <= rsum t) by (apply IH; intros y Hy; apply H; right; exact Hy). lra.
Qed.

(* swapping a double sum *)
Lemma rsum_swap {A B} (f : A -> B -> R) (la : list A) (lb : list B) :
  rsum (map (fun a => rsum (map (fun b => f a b) lb)) la)
  = rsum (map (fun b => rsum (map (fun a => f a b) la)) lb).
Proof.
  induction la as [|a t IH]; cbn [map rsum].
  - symmetry. rewrite (rsum_map_const 0 lb). lra.
  - rewrite IH. rewrite <- rsum_map_plus. reflexivity.
Qed.

(* indicator-weighted sum = sum over the filtered list *)
Lemma rsum_filter {A} (p : A -> bool) (f : A -> R) l :
  rsum (map f (filter p l)) = rsum (map (fun x => if p x then f x else 0) l).
Proof.
  induction l as [|x t IH]; cbn [filter map rsum]; [reflexivity|].
  destruct (p x); cbn [map rsum]; rewrite IH; lra.
Qed.

Lemma countb_as_rsum {A} (p : A -> bool) l : INR (countb p l) = rsum (map (fun x => if p x then 1 else 0) l).
Proof.
  unfold countb. induction l as [|x t IH]; cbn [filter map rsum length]; [reflexivity|].
  destruct (p x); cbn [length]; [rewrite S_INR|]; rewrite IH; lra.
Qed.

Lemma countb_map {A B} (g : A -> B) (p : B -> bool) l : countb p (map g l) = countb (fun x => p (g x)) l.
Proof.
  unfold countb. induction l as [|x t IH]; cbn [map filter]; [reflexivity|].
  destruct (p (g x)); cbn [length]; rewrite IH; reflexivity.
Qed.

Lemma countb_ext {A} (p q : A -> bool) l : (forall x, In x l -> p x = q x) -> countb p l = countb q l.
Proof.
  unfold countb. induction l as [|x t IH]; intros H; cbn [filter]; [reflexivity|].
  rewrite (H x (or_introl eq_refl)). destruct (q x); cbn [length]; rewrite IH; auto; intros y Hy; apply H; right; exact Hy.
Qed.

Lemma countb_le {A} (p : A -> bool) l : (countb p l <= length l)%nat.
Proof. unfold countb. induction l as [|x t IH]; cbn [filter length]; [lia|]. destruct (p x); cbn [length]; lia. Qed.

(* ------------------------------------------------------------------ combine as a map over indices *)
Lemma combine_as_map_seq {A B} (da : A) (db : B) : forall (a : list A) (b : list B),
  length a = length b ->
  combine a b = map (fun i => (nth i a da, nth i b db)) (seq 0 (length a)).
Proof.
  induction a as [|x t IH]; intros b H; destruct b as [|y u]; try discriminate; [reflexivity|].
  cbn [combine length seq map nth]. f_equal.
  rewrite <- seq_shift, map_map. cbn [nth]. apply IH. injection H; auto.
Qed.

Lemma list_as_map_seq {A} (da : A) (a : list A) : a = map (fun i => nth i a da) (seq 0 (length a)).
Proof.
  induction a as [|x t IH]; [reflexivity|]. cbn [length seq map nth]. f_equal.
  rewrite <- seq_shift, map_map. cbn [nth]. exact IH.
Qed.

(* ------------------------------------------------------------------ scalars *)
Lemma ofn_R : forall n, ofn ROps n = INR n.
Proof. intros n. unfold ofn, oofnat. cbn [oofZ ROps]. symmetry. apply INR_IZR_INZ. Qed.
Lemma two_R : two ROps = 2.
Proof. reflexivity. Qed.

(* ------------------------------------------------------------------ specifications (textbook) *)
(* number of indices i < n with p i *)
Definition count_idx (n : nat) (p : nat -> bool) : nat := countb p (seq 0 n).
Definition at_ (l : list R) (i : nat) : R := nth i l 0.

Definition n_equal (yt yp : list R) : nat := count_idx (length yt) (fun i => Reqb (at_ yt i) (at_ yp i)).
Definition binary (l : list R) : Prop := forall x, In x l -> x = 0 \/ x = 1.
(* confusion counts: the positive class is 1 *)
Definition n_tp (yt yp : list R) := count_idx (length yt) (fun i => Reqb (at_ yt i) 1 && Reqb (at_ yp i) 1).
Definition n_fp (yt yp : list R) := count_idx (length yt) (fun i => Reqb (at_ yt i) 0 && Reqb (at_ yp i) 1).
Definition n_fn (yt yp : list R) := count_idx (length yt) (fun i => Reqb (at_ yt i) 1 && Reqb (at_ yp i) 0).
Definition sum_idx (n : nat) (f : nat -> R) : R := rsum (map f (seq 0 n)).

(* ------------------------------------------------------------------ accuracy *)
Lemma accuracy_def yt yp : length yt = length yp ->
  accuracy ROps yt yp = Some (INR (n_equal yt yp) / INR (length yt)).
Proof.
  intros H. unfold accuracy. rewrite H, Nat.eqb_refl. rewrite !ofn_R. cbn [odiv oeqb ROps].
  rewrite (combine_as_map_seq 0 0 yt yp H), countb_map. cbn [fst snd].
  unfold n_equal, count_idx, at_. rewrite H. reflexivity.
Qed.

Lemma length_mismatch yt yp : length yt <> length yp ->
  accuracy ROps yt yp = None /\ precision ROps yt yp = None /\ recall ROps yt yp = None /\
  (forall beta, f_beta ROps beta yt yp = None) /\
  mean_squared_error ROps yt yp = None /\ mean_absolute_error ROps yt yp = None /\ r2 ROps yt yp = None.
Proof.
  intros H. apply Nat.eqb_neq in H.
  unfold accuracy, precision, recall, f_beta, mean_squared_error, mean_absolute_error, r2.
  rewrite H. repeat split; reflexivity.
Qed.

(* the same for every scalar instance (in particular binary64) *)
Lemma length_mismatch_any {T} (O : Ops T) yt yp : length yt <> length yp ->
  accuracy O yt yp = None /\ precision O yt yp = None /\ recall O yt yp = None /\
  (forall beta, f_beta O beta yt yp = None) /\
  mean_squared_error O yt yp = None /\ mean_absolute_error O yt yp = None /\ r2 O yt yp = None.
Proof.
  intros H. apply Nat.eqb_neq in H.
  unfold accuracy, precision, recall, f_beta, mean_squared_error, mean_absolute_error, r2.
  rewrite H. repeat split; reflexivity.
Qed.

(* ------------------------------------------------------------------ precision / recall *)
Lemma is_label_R x : is_label ROps x = true <-> x = 0 \/ x = 1.
Proof.
  unfold is_label. cbn [oeqb ROps o0 o1]. rewrite orb_true_iff, !Reqb_true. tauto.
Qed.
Lemma forallb_label l : forallb (is_label ROps) l = true <-> binary l.
Proof.
  rewrite forallb_forall. unfold binary. split; intros H x Hx; apply is_label_R, H, Hx.
Qed.
Lemma forallb_label_false l : ~ binary l -> forallb (is_label ROps) l = false.
Proof. intros H. destruct (forallb (is_label ROps) l) eqn:E; [|reflexivity]. apply forallb_label in E. contradiction. Qed.

Lemma Reqb_01_false : Reqb 0 1 = false.
Proof. apply Reqb_false. lra. Qed.

Lemma binary_nth l i : binary l -> (i < length l)%nat -> at_ l i = 0 \/ at_ l i = 1.
Proof. intros H Hi. apply H. unfold at_. apply nth_In. exact Hi. Qed.

(* predicted positives = TP + FP when the true labels are binary *)
Lemma pred_pos_split yt yp : binary yt -> length yt = length yp ->
  count_idx (length yt) (fun i => Reqb (at_ yp i) 1) = (n_tp yt yp + n_fp yt yp)%nat.
Proof.
  intros Hb Hl. unfold n_tp, n_fp, count_idx.
  assert (G : forall l, (forall i, In i l -> (i < length yt)%nat) ->
     countb (fun i => Reqb (at_ yp i) 1) l =
     (countb (fun i => Reqb (at_ yt i) 1 && Reqb (at_ yp i) 1) l + countb (fun i => Reqb (at_ yt i) 0 && Reqb (at_ yp i) 1) l)%nat).
  { unfold countb. induction l as [|i t IH]; intros Hin; [reflexivity|]. cbn [filter].
    assert (Hi : (i < length yt)%nat) by (apply Hin; left; reflexivity).
    assert (IH' := IH (fun j Hj => Hin j (or_intror Hj))).
    destruct (binary_nth yt i Hb Hi) as [E|E]; rewrite E.
    - rewrite Reqb_01_false. replace (Reqb 0 0) with true by (symmetry; apply Reqb_true; reflexivity).
      cbn [andb]. destruct (Reqb (at_ yp i) 1); cbn [length]; lia.
    - replace (Reqb 1 0) with false by (symmetry; apply Reqb_false; lra).
      replace (Reqb 1 1) with true by (symmetry; apply Reqb_true; reflexivity).
      cbn [andb]. destruct (Reqb (at_ yp i) 1); cbn [length]; lia. }
  apply G. intros i Hi. apply in_seq in Hi. lia.
Qed.

Lemma true_pos_split yt yp : binary yp -> length yt = length yp ->
  count_idx (length yt) (fun i => Reqb (at_ yt i) 1) = (n_tp yt yp + n_fn yt yp)%nat.
Proof.
  intros Hb Hl. unfold n_tp, n_fn, count_idx.
  assert (G : forall l, (forall i, In i l -> (i < length yp)%nat) ->
     countb (fun i => Reqb (at_ yt i) 1) l =
     (countb (fun i => Reqb (at_ yt i) 1 && Reqb (at_ yp i) 1) l + countb (fun i => Reqb (at_ yt i) 1 && Reqb (at_ yp i) 0) l)%nat).
  { unfold countb. induction l as [|i t IH]; intros Hin; [reflexivity|]. cbn [filter].
    assert (Hi : (i < length yp)%nat) by (apply Hin; left; reflexivity).
    assert (IH' := IH (fun j Hj => Hin j (or_intror Hj))).
    destruct (binary_nth yp i Hb Hi) as [E|E]; rewrite E.
    - rewrite Reqb_01_false. replace (Reqb 0 0) with true by (symmetry; apply Reqb_true; reflexivity).
      rewrite andb_false_r, andb_true_r. destruct (Reqb (at_ yt i) 1); cbn [length]; lia.
    - replace (Reqb 1 0) with false by (symmetry; apply Reqb_false; lra).
      replace (Reqb 1 1) with true by (symmetry; apply Reqb_true; reflexivity).
      rewrite andb_false_r, andb_true_r. destruct (Reqb (at_ yt i) 1); cbn [length]; lia. }
  apply G. intros i Hi. apply in_seq in Hi. lia.
Qed.

Lemma precision_def yt yp : length yt = length yp -> binary yt -> binary yp ->
  precision ROps yt yp = Some (INR (n_tp yt yp) / INR (n_tp yt yp + n_fp yt yp)).
Proof.
  intros H Ht Hp. unfold precision. rewrite H, Nat.eqb_refl.
  rewrite (proj2 (forallb_label yt) Ht), (proj2 (forallb_label yp) Hp). cbn [andb].
  rewrite !ofn_R. cbn [odiv ROps].
  rewrite (combine_as_map_seq 0 0 yt yp H), !countb_map. cbn [fst snd].
  unfold is_one. cbn [oeqb o1 ROps].
  rewrite <- (pred_pos_split yt yp Ht H). unfold n_tp, count_idx, at_.
  do 3 f_equal. apply countb_ext. intros i _. apply andb_comm.
Qed.

Lemma recall_def yt yp : length yt = length yp -> binary yt -> binary yp ->
  recall ROps yt yp = Some (INR (n_tp yt yp) / INR (n_tp yt yp + n_fn yt yp)).
Proof.
  intros H Ht Hp. unfold recall. rewrite H, Nat.eqb_refl.
  rewrite (proj2 (forallb_label yt) Ht), (proj2 (forallb_label yp) Hp). cbn [andb].
  rewrite !ofn_R. cbn [odiv ROps].
  rewrite (combine_as_map_seq 0 0 yt yp H), !countb_map. cbn [fst snd].
  unfold is_one. cbn [oeqb o1 ROps].
  rewrite <- (true_pos_split yt yp Hp H). unfold n_tp, count_idx, at_. reflexivity.
Qed.

Lemma non_binary_rejected yt yp : length yt = length yp -> ~ (binary yt /\ binary yp) ->
  precision ROps yt yp = None /\ recall ROps yt yp = None /\ forall beta, f_beta ROps beta yt yp = None.
Proof.
  intros H Hn.
  assert (E : forallb (is_label ROps) yt && forallb (is_label ROps) yp = false).
  { destruct (forallb (is_label ROps) yt) eqn:E1; [|reflexivity].
    destruct (forallb (is_label ROps) yp) eqn:E2; [|reflexivity].
    exfalso. apply Hn. split; apply forallb_label; assumption. }
  assert (P : precision ROps yt yp = None) by (unfold precision; rewrite H, Nat.eqb_refl, E; reflexivity).
  assert (Q : recall ROps yt yp = None) by (unfold recall; rewrite H, Nat.eqb_refl, E; reflexivity).
  repeat split; auto. intros beta. unfold f_beta. rewrite H, Nat.eqb_refl, P. reflexivity.
Qed.

(* ------------------------------------------------------------------ F-beta *)
Lemma fbeta_def beta yt yp : length yt = length yp -> binary yt -> binary yp ->
  let p := INR (n_tp yt yp) / INR (n_tp yt yp + n_fp yt yp) in
  let r := INR (n_tp yt yp) / INR (n_tp yt yp + n_fn yt yp) in
  f_beta ROps beta yt yp = Some ((1 + beta * beta) * (p * r) / (beta * beta * p + r)).
Proof.
  intros H Ht Hp p r. unfold f_beta. rewrite H, Nat.eqb_refl.
  rewrite (precision_def yt yp H Ht Hp), (recall_def yt yp H Ht Hp). reflexivity.
Qed.

(* in confusion counts, when there is at least one true positive *)
Lemma fbeta_counts beta yt yp : length yt = length yp -> binary yt -> binary yp -> (0 < n_tp yt yp)%nat ->
  let tp := INR (n_tp yt yp) in let fp := INR (n_fp yt yp) in let fn := INR (n_fn yt yp) in
  f_beta ROps beta yt yp = Some ((1 + beta * beta) * tp / ((1 + beta * beta) * tp + beta * beta * fn + fp)).
Proof.
  intros H Ht Hp Hpos tp fp fn. rewrite (fbeta_def beta yt yp H Ht Hp). cbn zeta.
  rewrite !plus_INR. fold tp fp fn. f_equal.
  assert (0 < tp) by (unfold tp; apply lt_0_INR; exact Hpos).
  assert (0 <= fp) by (unfold fp; apply pos_INR).
  assert (0 <= fn) by (unfold fn; apply pos_INR).
  assert (Hb : 0 <= beta * beta) by nra.
  set (b2 := beta * beta) in *.
  assert (P1 : 0 <= b2 * tp) by (apply Rmult_le_pos; lra).
  assert (P2 : 0 <= b2 * fn) by (apply Rmult_le_pos; lra).
  assert (P3 : 0 < tp * tp) by (apply Rmult_lt_0_compat; lra).
  assert (P4 : 0 <= tp * fp) by (apply Rmult_le_pos; lra).
  assert (P5 : 0 <= b2 * tp * (tp + fn)) by (apply Rmult_le_pos; lra).
  field. repeat split; lra.
Qed.

(* ------------------------------------------------------------------ MSE / MAE / R^2 *)
Lemma mse_def yt yp : length yt = length yp ->
  mean_squared_error ROps yt yp
  = Some (sum_idx (length yt) (fun i => (at_ yt i - at_ yp i) * (at_ yt i - at_ yp i)) / INR (length yt)).
Proof.
  intros H. unfold mean_squared_error. rewrite H, Nat.eqb_refl.
  cbn [oadd osub odiv ROps o0]. unfold osq. cbn [omul ROps].
  rewrite (fold_left_Rplus_acc (fun p => (fst p - snd p) * (fst p - snd p))).
  rewrite ofn_R, <- H, (combine_as_map_seq 0 0 yt yp H), map_map. cbn [fst snd].
  unfold sum_idx, at_. f_equal. f_equal. lra.
Qed.

Lemma mae_def yt yp : length yt = length yp ->
  mean_absolute_error ROps yt yp
  = Some (sum_idx (length yt) (fun i => Rabs (at_ yt i - at_ yp i)) / INR (length yt)).
Proof.
  intros H. unfold mean_absolute_error. rewrite H, Nat.eqb_refl.
  cbn [oadd osub odiv oabs ROps o0].
  rewrite (fold_left_Rplus_acc (fun p => Rabs (fst p - snd p))).
  rewrite ofn_R, <- H, (combine_as_map_seq 0 0 yt yp H), map_map. cbn [fst snd].
  unfold sum_idx, at_. f_equal. f_equal. lra.
Qed.

Definition mean_of (y : list R) : R := sum_idx (length y) (at_ y) / INR (length y).

Lemma r2_def yt yp : length yt = length yp ->
  r2 ROps yt yp
  = Some (1 - sum_idx (length yt) (fun i => (at_ yt i - at_ yp i) * (at_ yt i - at_ yp i))
              / sum_idx (length yt) (fun i => (at_ yt i - mean_of yt) * (at_ yt i - mean_of yt))).
Proof.
  intros H. unfold r2. rewrite H, Nat.eqb_refl.
  cbn [oadd osub odiv ROps o0 o1]. unfold osq. cbn [omul ROps].
  rewrite (fold_left_Rplus_acc (fun p => (fst p - snd p) * (fst p - snd p))).
  rewrite (fold_left_Rplus_acc (fun y => y)), map_id.
  rewrite ofn_R, <- H.
  set (m := (0 + rsum yt) / INR (length yt)).
  rewrite (fold_left_Rplus_acc (fun y => (y - m) * (y - m))).
  rewrite (combine_as_map_seq 0 0 yt yp H), map_map. cbn [fst snd].
  assert (Em : m = mean_of yt).
  { unfold m, mean_of, sum_idx, at_. rewrite <- (list_as_map_seq 0 yt). f_equal. lra. }
  rewrite Em. unfold sum_idx.
  rewrite (list_as_map_seq 0 yt) at 2. rewrite map_map. unfold at_.
  f_equal. f_equal. f_equal; lra.
Qed.
