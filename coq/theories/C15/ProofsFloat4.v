(* R^2 in binary64 against the real-number model: C15/ProofsFloat2.v bounds the computed R^2 against
   1 - S/T with T the total sum of squares about the COMPUTED mean mu; here T is tied to the model over
   the reals: r2 ROps = 1 - S/T0 with T0 about the exact mean, T = T0 + n (mu - mean)^2, and mu is within
   Eu n * mean|y| + eta64 of the exact mean. *)
From Coq Require Import List Arith ZArith Bool Reals Floats Lra Lia Psatz.
From Flocq Require Import Core.
From SC Require Import Base.FloatUtil Base.Num Base.FloatError C17.Model C17.Spec C17.ProofsSum C17.ProofsDist
     C17.ProofsFloat C15.Model C15.ProofsBasic C15.ProofsFloat2.
Import ListNotations.
Local Open Scope R_scope.

Lemma rsum_Rsum l : rsum l = Rsum l.
Proof. induction l as [|x t IH]; [reflexivity|]. cbn [rsum Rsum fold_right]. fold (Rsum t). rewrite IH. reflexivity. Qed.
Lemma sum_idx_sigma n f : sum_idx n f = sigma n f.
Proof. unfold sum_idx, sigma. apply rsum_Rsum. Qed.

Lemma r2_R_sigma (yt yp : list R) : length yt = length yp ->
  let n := length yt in let ybar := sigma n (comp yt) / INR n in
  r2 ROps yt yp = Some (1 - sigma n (fun i => (comp yt i - comp yp i) * (comp yt i - comp yp i)) /
                            sigma n (fun i => (comp yt i - ybar) * (comp yt i - ybar))).
Proof.
  intros L n ybar. rewrite (r2_def yt yp L). fold n.
  assert (Em : mean_of yt = ybar) by (unfold mean_of, ybar; fold n; rewrite sum_idx_sigma; reflexivity).
  rewrite (sum_idx_sigma n (fun i => (at_ yt i - at_ yp i) * (at_ yt i - at_ yp i))).
  rewrite (sum_idx_sigma n (fun i => (at_ yt i - mean_of yt) * (at_ yt i - mean_of yt))).
  do 3 f_equal; try exact Em; try (apply sigma_ext; intros i _; rewrite Em; reflexivity).
Qed.

Lemma r2_float_error_full yt yp r :
  r2 FOps yt yp = Some r -> ffin r -> ffin (r2_ss_tot_F yt) -> r2_normal_b yt yp = true ->
  (Z.of_nat (length yt) + 2 <= 2 ^ 50)%Z ->
  let n := length yt in
  let ybar := sigma n (comp (RV yt)) / INR n in
  let A := sigma n (fun i => Rabs (comp (RV yt) i)) / INR n in
  let dm := FR (r2_mean_F yt) - ybar in
  let S := sigma n (fun i => (comp (RV yt) i - comp (RV yp) i) * (comp (RV yt) i - comp (RV yp) i)) in
  let T0 := sigma n (fun i => (comp (RV yt) i - ybar) * (comp (RV yt) i - ybar)) in
  let T := T0 + INR n * (dm * dm) in
  let E := (1 + u64) ^ (n + 2) - 1 in
  (0 < n)%nat /\ r2 ROps (RV yt) (RV yp) = Some (1 - S / T0) /\
  Rabs dm <= ((1 + u64) ^ n - 1) * A + eta64 /\ 0 <= S /\ 0 <= T0 /\ 0 < T /\
  Rabs (FR r - (1 - S / T)) <= u64 * Rabs (1 - S / T) + (1 + u64) * ((3 * E + 2 * u64) * (S / T) + eta64).
Proof.
  intros H Hfin Ftot Hnb Hn n ybar A dm S T0 T E.
  assert (L : length yt = length yp).
  { unfold r2 in H. destruct (Nat.eqb_spec (length yt) (length yp)) as [L|]; [exact L | discriminate]. }
  destruct (r2_float_error yt yp r H Hfin Ftot Hnb Hn) as (Er & HS & HT & _ & _ & B). fold n in HT, B.
  assert (Hn0 : (0 < n)%nat).
  { destruct (Nat.eq_dec n 0) as [Z|]; [|lia]. exfalso. unfold n in Z. apply length_zero_iff_nil in Z. subst yt.
    rewrite sigma_0 in HT. lra. }
  (* the mean is finite: it is an operand of a finite square *)
  assert (Fm : ffin (r2_mean_F yt)).
  { assert (Stot : squared_distance FOps yt (repeat (r2_mean_F yt) n) = Some (r2_ss_tot_F yt)).
    { unfold squared_distance. rewrite (proj2 (same_len_true yt (repeat (r2_mean_F yt) n))) by (rewrite repeat_length; reflexivity).
      reflexivity. }
    destruct yt as [|y0 yt']; [cbn in Hn0; lia|].
    pose proof (sq_terms_finite _ _ _ Stot Ftot (y0, r2_mean_F (y0 :: yt'))) as Hsq.
    specialize (Hsq ltac:(unfold n; cbn [length repeat combine]; left; reflexivity)).
    unfold sq_term in Hsq. cbn [fst snd] in Hsq. destruct (fmul_finite _ _ Hsq) as (Hd & _ & _).
    apply (fsub_finite _ _ Hd). }
  destruct (r2_mean_float_error yt Fm ltac:(lia)) as [_ Bm]. fold n ybar A dm in Bm.
  pose proof (ss_tot_shift (RV yt) (FR (r2_mean_F yt)) ltac:(rewrite RV_length; exact Hn0)) as Sh.
  cbv zeta in Sh. rewrite RV_length in Sh. fold n ybar T0 in Sh.
  assert (ET : sigma n (fun i => (comp (RV yt) i - FR (r2_mean_F yt)) * (comp (RV yt) i - FR (r2_mean_F yt))) = T).
  { rewrite Sh. unfold T, dm. reflexivity. }
  rewrite ET in HT, B. fold S in HS, B. fold E in B.
  split; [exact Hn0|]. split.
  { pose proof (r2_R_sigma (RV yt) (RV yp) ltac:(rewrite !RV_length; exact L)) as R. cbv zeta in R.
    rewrite RV_length in R. exact R. }
  split; [exact Bm|]. split; [exact HS|]. split; [unfold T0; apply sigma_nonneg; intros i _; exact (Rle_0_sqr _)|].
  split; [exact HT | exact B].
Qed.
