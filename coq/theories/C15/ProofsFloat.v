(* Rounding-error theorems for the binary64 instance of C15's regression metrics (SC.C15.Model):
   mean_absolute_error and mean_squared_error are C17's Manhattan / squared-Euclidian loops divided by
   the sample count, so the bounds of C17/ProofsFloat.v carry over with one more rounding (the division;
   its quotient may be subnormal, hence one more eta64).  Exported by Properties/C15.v: these are
   statements about C15's model (file moved here from C17 by the coordinator). *)
From Coq Require Import List Arith ZArith Bool Reals Floats Lra Lia Psatz.
From Flocq Require Import Core.
From SC Require Import Base.FloatUtil Base.Num Base.FloatError C17.Model C17.Spec C17.ProofsSum C17.ProofsDist
     C17.ProofsFloat C15.Model.
Import ListNotations.
Local Open Scope R_scope.

(* the regression metrics are the C17 loops divided by the number of samples *)
Lemma mae_as_manhattan {T} (O : Ops T) yt yp :
  mean_absolute_error O yt yp =
  option_map (fun s => O.(odiv) s (O.(oofZ) (Z.of_nat (length yt)))) (manhattan O yt yp).
Proof. unfold mean_absolute_error, manhattan, same_len. destruct (Nat.eqb _ _); reflexivity. Qed.
Lemma mse_as_squared_distance {T} (O : Ops T) yt yp :
  mean_squared_error O yt yp =
  option_map (fun s => O.(odiv) s (O.(oofZ) (Z.of_nat (length yt)))) (squared_distance O yt yp).
Proof. unfold mean_squared_error, squared_distance, same_len. destruct (Nat.eqb _ _); reflexivity. Qed.

(* q' ~ q up to Eu m (mixed with an absolute term c), r = rounding of q' with relative error u and
   absolute error e *)
Lemma quot_step (m : nat) (q' q c e r : R) : 0 <= q -> 0 <= c ->
  Rabs (q' - q) <= Eu m * (q + c) + c ->
  Rabs (r - q') <= u64 * Rabs q' + e ->
  Rabs (r - q) <= Eu (S m) * (q + c) + c + e.
Proof.
  intros Hq Hc H1 H2. pose proof (Eu_nonneg m). pose proof u64_pos.
  assert (Rabs q' <= (1 + Eu m) * (q + c)).
  { replace q' with ((q' - q) + q) at 1 by ring. eapply Rle_trans; [apply Rabs_triang|].
    rewrite (Rabs_pos_eq q) by lra. nra. }
  replace (r - q) with ((r - q') + (q' - q)) by ring.
  eapply Rle_trans; [apply Rabs_triang|]. rewrite Eu_S. nra.
Qed.

Theorem mae_float_error yt yp m :
  mean_absolute_error FOps yt yp = Some m -> ffin m -> (Z.of_nat (length yt) < 2 ^ 53)%Z ->
  let n := length yt in
  let D := sigma n (fun i => Rabs (comp (RV yt) i - comp (RV yp) i)) in
  mean_absolute_error ROps (RV yt) (RV yp) = Some (D / INR n) /\ (0 < n)%nat /\ 0 <= D / INR n /\
  Rabs (FR m - D / INR n) <= ((1 + u64) ^ (n + 1) - 1) * (D / INR n) + eta64.
Proof.
  intros H Hfin Hlt n D. rewrite mae_as_manhattan in H. rewrite mae_as_manhattan.
  destruct (manhattan FOps yt yp) as [s|] eqn:Hs; [|discriminate]. cbn [option_map FOps odiv oofZ] in H.
  injection H as <-. fold n in Hfin.
  assert (Hn : (0 < n)%nat).
  { destruct (Nat.eq_dec n 0) as [Z|]; [|lia]. exfalso. unfold n in Z.
    apply length_zero_iff_nil in Z. subst yt. unfold manhattan in Hs. destruct yp; [|discriminate].
    cbn in Hs. injection Hs as <-. vm_compute in Hfin. discriminate Hfin. }
  destruct (float_of_Z_exact (Z.of_nat n)) as [Fn En]; [lia|]. rewrite <- INR_IZR_INZ in En.
  assert (Hn0 : 0 < INR n) by (apply lt_0_INR; exact Hn).
  destruct (fdiv_finite s _ Fn) as [Fs Em]; [rewrite En; lra | exact Hfin |].
  pose proof (fdiv_error s _ Fn) as Herr. rewrite En in Herr, Em.
  destruct (manhattan_float_error yt yp s Hs Fs) as (HR & HD & Hs0 & Hb). fold n D in HR, HD, Hb.
  rewrite RV_length. fold n. rewrite HR. cbn [option_map ROps odiv oofZ]. rewrite <- INR_IZR_INZ.
  split; [reflexivity|]. split; [exact Hn|].
  assert (Hq : 0 <= D / INR n) by (apply Rmult_le_pos; [exact HD | apply Rlt_le, Rinv_0_lt_compat, Hn0]).
  split; [exact Hq|].
  fold (Eu n) in Hb. fold (Eu (n + 1)). replace (n + 1)%nat with (S n) by lia.
  pose proof (quot_step n (FR s / INR n) (D / INR n) 0 eta64 (FR (s / float_of_Z (Z.of_nat n))%float) Hq (Rle_refl 0)) as Q.
  rewrite !Rplus_0_r in Q. apply Q.
  - replace (FR s / INR n - D / INR n) with ((FR s - D) * / INR n) by (unfold Rdiv; ring).
    rewrite Rabs_mult, (Rabs_pos_eq (/ INR n)) by (apply Rlt_le, Rinv_0_lt_compat, Hn0).
    unfold Rdiv. rewrite <- Rmult_assoc. apply Rmult_le_compat_r; [apply Rlt_le, Rinv_0_lt_compat, Hn0 | exact Hb].
  - apply Herr; [lra | exact Hfin].
Qed.

Theorem mse_float_error yt yp m :
  mean_squared_error FOps yt yp = Some m -> ffin m -> (Z.of_nat (length yt) < 2 ^ 53)%Z ->
  let n := length yt in
  let D := sigma n (fun i => (comp (RV yt) i - comp (RV yp) i) * (comp (RV yt) i - comp (RV yp) i)) in
  mean_squared_error ROps (RV yt) (RV yp) = Some (D / INR n) /\ (0 < n)%nat /\ 0 <= D / INR n /\
  Rabs (FR m - D / INR n) <= ((1 + u64) ^ (n + 3) - 1) * (D / INR n + eta64) + 2 * eta64.
Proof.
  intros H Hfin Hlt n D. rewrite mse_as_squared_distance in H. rewrite mse_as_squared_distance.
  destruct (squared_distance FOps yt yp) as [s|] eqn:Hs; [|discriminate]. cbn [option_map FOps odiv oofZ] in H.
  injection H as <-. fold n in Hfin.
  assert (Hn : (0 < n)%nat).
  { destruct (Nat.eq_dec n 0) as [Z|]; [|lia]. exfalso. unfold n in Z.
    apply length_zero_iff_nil in Z. subst yt. unfold squared_distance in Hs. destruct yp; [|discriminate].
    cbn in Hs. injection Hs as <-. vm_compute in Hfin. discriminate Hfin. }
  destruct (float_of_Z_exact (Z.of_nat n)) as [Fn En]; [lia|]. rewrite <- INR_IZR_INZ in En.
  assert (Hn0 : 0 < INR n) by (apply lt_0_INR; exact Hn).
  destruct (fdiv_finite s _ Fn) as [Fs Em]; [rewrite En; lra | exact Hfin |].
  pose proof (fdiv_error s _ Fn) as Herr. rewrite En in Herr, Em.
  destruct (squared_distance_float_error yt yp s Hs Fs) as (HR & HD & Hs0 & Hb & _). fold n D in HR, HD, Hb.
  rewrite RV_length. fold n. rewrite HR. cbn [option_map ROps odiv oofZ]. rewrite <- INR_IZR_INZ.
  split; [reflexivity|]. split; [exact Hn|].
  assert (Hi : 0 < / INR n) by apply Rinv_0_lt_compat, Hn0.
  assert (Hq : 0 <= D / INR n) by (apply Rmult_le_pos; lra).
  split; [exact Hq|].
  fold (Eu (n + 2)) in Hb. fold (Eu (n + 3)). replace (n + 3)%nat with (S (n + 2)) by lia.
  pose proof (quot_step (n + 2) (FR s / INR n) (D / INR n) eta64 eta64 (FR (s / float_of_Z (Z.of_nat n))%float)
                Hq (Rlt_le _ _ eta64_pos)) as Q.
  replace (2 * eta64) with (eta64 + eta64) by ring. rewrite <- Rplus_assoc. apply Q.
  - replace (FR s / INR n - D / INR n) with ((FR s - D) * / INR n) by (unfold Rdiv; ring).
    rewrite Rabs_mult, (Rabs_pos_eq (/ INR n)) by lra.
    replace (Eu (n + 2) * (D / INR n + eta64) + eta64)
      with ((Eu (n + 2) * (D + INR n * eta64) + INR n * eta64) * / INR n) by (field; lra).
    apply Rmult_le_compat_r; [lra | exact Hb].
  - apply Herr; [lra | exact Hfin].
Qed.
