(* C15 — Gibbs' inequality for the contingency table: the mutual information computed by the code is
   non-negative before the clamp, so in exact arithmetic max(0, .) is the identity and the scores are
   the textbook ones: h = 1 - H(C|K)/H(C), c = 1 - H(K|C)/H(K). *)
From Coq Require Import List ZArith Reals Bool Arith Lia Lra Permutation Sorted.
From SC Require Import Base.Num C15.Model C15.ProofsBasic C15.ProofsHCV C15.ProofsHCV2.
Import ListNotations.
Local Open Scope R_scope.

Lemma ln_le_minus_1 x : 0 < x -> ln x <= x - 1.
Proof.
  intros Hx. assert (H := exp_ineq1_le (x - 1)).
  replace (1 + (x - 1)) with x in H by lra.
  rewrite <- (ln_exp (x - 1)). apply ln_le; assumption.
Qed.

Lemma rsum_le {A} (f g : A -> R) l : (forall x, In x l -> f x <= g x) -> rsum (map f l) <= rsum (map g l).
Proof.
  induction l as [|x t IH]; intros H; cbn [map rsum]; [lra|].
  assert (f x <= g x) by (apply H; left; reflexivity).
  assert (rsum (map f t) <= rsum (map g t)) by (apply IH; intros y Hy; apply H; right; exact Hy). lra.
Qed.

Lemma sum_na_R a : rsum (map (fun u => INR (na a u)) (usort a)) = INR (length a).
Proof. rewrite <- INR_nsum. f_equal. apply sum_na. Qed.

(* one cell against its linear lower bound *)
Lemma mi_cell_lower a b u w : length a = length b -> a <> [] ->
  INR (nab a b u w) / INR (length a) - INR (na a u) * INR (na b w) / (INR (length a) * INR (length a))
  <= mi_cell (nab a b u w) (na a u * na b w) (length a) (length a).
Proof.
  intros Hl Hne. unfold mi_cell.
  assert (Ln : (0 < length a)%nat) by (destruct a; [contradiction | cbn; lia]).
  assert (Pn : 0 < INR (length a)) by (apply lt_0_INR; exact Ln).
  set (N := INR (length a)) in *.
  destruct (Nat.ltb 0 (nab a b u w)) eqn:E0.
  - apply Nat.ltb_lt in E0.
    assert (H1 := nab_le_na a b u w Hl). assert (H2 := nab_le_nb a b u w Hl).
    assert (PA : 0 < INR (na a u)) by (apply lt_0_INR; lia).
    assert (PB : 0 < INR (na b w)) by (apply lt_0_INR; lia).
    assert (PV : 0 < INR (nab a b u w)) by (apply lt_0_INR; lia).
    set (A := INR (na a u)) in *. set (B := INR (na b w)) in *. set (V := INR (nab a b u w)) in *.
    rewrite mult_INR. fold A B. rewrite (ln_mult A B PA PB).
    set (X := A * B * / (V * N)).
    assert (PVN : 0 < V * N) by (apply Rmult_lt_0_compat; assumption).
    assert (PX : 0 < X).
    { unfold X. apply Rmult_lt_0_compat; [apply Rmult_lt_0_compat; assumption | apply Rinv_0_lt_compat; exact PVN]. }
    assert (LX : ln X = ln A + ln B - (ln V + ln N)).
    { unfold X. rewrite ln_mult; [|apply Rmult_lt_0_compat; assumption | apply Rinv_0_lt_compat; exact PVN].
      rewrite (ln_mult A B PA PB), (ln_Rinv _ PVN), (ln_mult V N PV Pn). lra. }
    assert (G := ln_le_minus_1 X PX).
    replace (V / N * (ln V - ln N) + V / N * (- (ln A + ln B) + ln N + ln N)) with (- (V / N) * ln X)
      by (rewrite LX; unfold Rdiv; ring).
    assert (PVoN : 0 < V / N) by (unfold Rdiv; apply Rmult_lt_0_compat; [exact PV | apply Rinv_0_lt_compat; exact Pn]).
    assert (M : V / N * ln X <= V / N * (X - 1)) by (apply Rmult_le_compat_l; lra).
    assert (EX : V / N * (X - 1) = A * B / (N * N) - V / N).
    { unfold X. field. split; lra. }
    lra.
  - apply Nat.ltb_ge in E0. assert (Z0 : nab a b u w = 0%nat) by lia. rewrite Z0. cbn [INR].
    assert (0 <= INR (na a u) * INR (na b w) / (N * N)).
    { unfold Rdiv. apply Rmult_le_pos; [apply Rmult_le_pos; apply pos_INR|].
      left. apply Rinv_0_lt_compat. apply Rmult_lt_0_compat; exact Pn. }
    unfold Rdiv at 1. rewrite Rmult_0_l. lra.
Qed.

Lemma MIraw_nonneg a b : length a = length b -> a <> [] -> 0 <= MIraw a b.
Proof.
  intros Hl Hne.
  assert (Ln : (0 < length a)%nat) by (destruct a; [contradiction | cbn; lia]).
  assert (Pn : 0 < INR (length a)) by (apply lt_0_INR; exact Ln).
  set (N := INR (length a)) in *.
  set (lowf := fun u w => INR (nab a b u w) * / N - INR (na b w) * (INR (na a u) * / (N * N))).
  assert (Low : rsum (map (fun u => rsum (map (fun w => lowf u w) (usort b))) (usort a)) <= MIraw a b).
  { unfold MIraw. apply rsum_le. intros u _. apply rsum_le. intros w _.
    eapply Rle_trans; [|apply (mi_cell_lower a b u w Hl Hne)]. fold N. unfold lowf, Rdiv. right. ring. }
  assert (Z : rsum (map (fun u => rsum (map (fun w => lowf u w) (usort b))) (usort a)) = 0).
  { unfold lowf.
    rewrite (rsum_ext _ (fun u => INR (na a u) * / N - INR (na a u) * (/ N))).
    - rewrite rsum_map_minus. lra.
    - intros u _. rewrite rsum_map_minus, !rsum_map_scal_r2, (sum_nab_w a b u Hl), (sum_na_R b), <- Hl. fold N.
      field. lra. }
  lra.
Qed.

(* the scores without the clamp *)
Lemma hcv_textbook a b : length a = length b -> a <> [] ->
  hcv ROps a b = Some (hcv_of (Hlab a - Hcond a b) (Hlab a) (Hlab b)) /\
  0 <= Hlab a - Hcond a b.
Proof.
  intros Hl Hne. assert (P := MIraw_nonneg a b Hl Hne). split.
  - rewrite (hcv_value_form a b Hl Hne), (clamp0_id _ P), (mi_decomp a b Hl). reflexivity.
  - rewrite <- (mi_decomp a b Hl). exact P.
Qed.

Lemma hcv_textbook_ratios a b h c v : length a = length b -> a <> [] ->
  hcv ROps a b = Some (h, c, v) ->
  (Hlab a <> 0 -> h = 1 - Hcond a b / Hlab a) /\ (Hlab b <> 0 -> c = 1 - Hcond b a / Hlab b).
Proof.
  intros Hl Hne H. destruct (hcv_textbook a b Hl Hne) as [E _]. rewrite E in H. unfold hcv_of in H.
  assert (Esym : Hlab a - Hcond a b = Hlab b - Hcond b a).
  { rewrite <- (mi_decomp a b Hl), <- (mi_decomp b a (eq_sym Hl)). symmetry. exact (MIraw_swap a b Hl). }
  split; intros Hn.
  - assert (Eh : h = if Reqb (Hlab a) 0 then 1 else (Hlab a - Hcond a b) / Hlab a) by congruence.
    rewrite Eh. apply Reqb_false in Hn. rewrite Hn. field. apply Reqb_false. exact Hn.
  - assert (Ec : c = if Reqb (Hlab b) 0 then 1 else (Hlab a - Hcond a b) / Hlab b) by congruence.
    rewrite Ec, Esym. apply Reqb_false in Hn. rewrite Hn. field. apply Reqb_false. exact Hn.
Qed.
