(* C15 — homogeneity / completeness / V-measure, part 2: mutual information = entropy minus
   conditional entropy, hence the value 1 at zero conditional entropy and the range [0,1]. *)
From Coq Require Import List ZArith Reals Bool Arith Lia Lra Permutation Sorted.
From SC Require Import Base.Num C15.Model C15.ProofsBasic C15.ProofsHCV.
Import ListNotations.
Local Open Scope R_scope.

(* H(C|K) = - sum_{u,w} n_uw/n * ln(n_uw / n_w), written with the non-negative terms ln n_w - ln n_uw *)
Definition Hcond (a b : list Z) : R :=
  rsum (map (fun u => rsum (map (fun w =>
      if Nat.ltb 0 (nab a b u w)
      then INR (nab a b u w) / INR (length a) * (ln (INR (na b w)) - ln (INR (nab a b u w)))
      else 0) (usort b))) (usort a)).

Lemma rsum_map_scal_r2 {A} (c : R) (f : A -> R) l : rsum (map (fun x => f x * c) l) = rsum (map f l) * c.
Proof. induction l as [|x t IH]; cbn [map rsum]; [lra | rewrite IH; lra]. Qed.

Lemma rsum_map_opp {A} (f : A -> R) l : rsum (map (fun x => - f x) l) = - rsum (map f l).
Proof. induction l as [|x t IH]; cbn [map rsum]; [lra | rewrite IH; lra]. Qed.
Lemma rsum_map_minus {A} (f g : A -> R) l : rsum (map (fun x => f x - g x) l) = rsum (map f l) - rsum (map g l).
Proof. induction l as [|x t IH]; cbn [map rsum]; [lra | rewrite IH; lra]. Qed.

Lemma ln_le x y : 0 < x -> x <= y -> ln x <= ln y.
Proof.
  intros Hx [H|H]; [left; apply ln_increasing; assumption | subst; right; reflexivity].
Qed.

Lemma INR_nsum {A} (g : A -> nat) l : INR (nsum (map g l)) = rsum (map (fun x => INR (g x)) l).
Proof.
  induction l as [|x t IH]; [reflexivity|]. cbn [map rsum]. rewrite nsum_cons, plus_INR, IH. reflexivity.
Qed.

Lemma countb_and_le_l {A} (p q : A -> bool) l : (countb (fun x => p x && q x) l <= countb p l)%nat.
Proof.
  induction l as [|x t IH]; [unfold countb; cbn; lia|]. rewrite !countb_cons.
  destruct (p x); destruct (q x); cbn [andb]; lia.
Qed.
Lemma countb_and_le_r {A} (p q : A -> bool) l : (countb (fun x => p x && q x) l <= countb q l)%nat.
Proof.
  induction l as [|x t IH]; [unfold countb; cbn; lia|]. rewrite !countb_cons.
  destruct (p x); destruct (q x); cbn [andb]; lia.
Qed.
Lemma nab_le_na a b u w : length a = length b -> (nab a b u w <= na a u)%nat.
Proof. intros H. rewrite <- (cntA_combine a b u H). apply countb_and_le_l. Qed.
Lemma nab_le_nb a b u w : length a = length b -> (nab a b u w <= na b w)%nat.
Proof. intros H. rewrite <- (cntB_combine a b w H). apply countb_and_le_r. Qed.
Lemma na_le_length a u : (na a u <= length a)%nat.
Proof. rewrite na_countb. apply countb_le. Qed.

Lemma sum_nab_w a b u : length a = length b ->
  rsum (map (fun w => INR (nab a b u w)) (usort b)) = INR (na a u).
Proof.
  intros H. rewrite <- INR_nsum. f_equal.
  unfold nab. rewrite (sum_cnt2_w (combine a b) (usort b) (usort_nodup b) (cover_b a b)). apply cntA_combine, H.
Qed.

(* I(C;K) = H(C) - H(C|K), before the clamp *)
Lemma mi_decomp a b : length a = length b -> MIraw a b = Hlab a - Hcond a b.
Proof.
  intros Hl. unfold MIraw, Hlab, Hcond.
  set (n := INR (length a)).
  assert (E : forall u, 
     rsum (map (fun w => mi_cell (nab a b u w) (na a u * na b w) (length a) (length a)) (usort b))
     = - (INR (na a u) / n * (ln (INR (na a u)) - ln n))
       - rsum (map (fun w => if Nat.ltb 0 (nab a b u w)
                             then INR (nab a b u w) / n * (ln (INR (na b w)) - ln (INR (nab a b u w))) else 0) (usort b))).
  { intros u.
    set (K := - ((ln (INR (na a u)) - ln n) / n)).
    transitivity (rsum (map (fun w => INR (nab a b u w) * K
                   - (if Nat.ltb 0 (nab a b u w)
                      then INR (nab a b u w) / n * (ln (INR (na b w)) - ln (INR (nab a b u w))) else 0)) (usort b))).
    - apply rsum_ext. intros w _. unfold mi_cell.
      destruct (Nat.ltb 0 (nab a b u w)) eqn:E0.
      + apply Nat.ltb_lt in E0.
        assert (H1 := nab_le_na a b u w Hl). assert (H2 := nab_le_nb a b u w Hl).
        assert (P1 : 0 < INR (na a u)) by (apply lt_0_INR; lia).
        assert (P2 : 0 < INR (na b w)) by (apply lt_0_INR; lia).
        rewrite mult_INR, (ln_mult _ _ P1 P2). fold n. unfold K, Rdiv. ring.
      + apply Nat.ltb_ge in E0. assert (Z0 : nab a b u w = 0%nat) by lia. rewrite Z0. cbn [INR]. ring.
    - rewrite rsum_map_minus, rsum_map_scal_r2, (sum_nab_w a b u Hl). unfold K, Rdiv. ring. }
  rewrite (rsum_ext _ _ _ (fun u _ => E u)).
  rewrite rsum_map_minus, rsum_map_opp. reflexivity.
Qed.

(* ------------------------------------------------------------------ signs *)
Lemma Hcond_nonneg a b : length a = length b -> 0 <= Hcond a b.
Proof.
  intros Hl. unfold Hcond. apply rsum_nonneg. intros x Hx. apply in_map_iff in Hx. destruct Hx as [u [Hx _]]. subst x.
  apply rsum_nonneg. intros y Hy. apply in_map_iff in Hy. destruct Hy as [w [Hy _]]. subst y.
  destruct (Nat.ltb 0 (nab a b u w)) eqn:E0; [|lra]. apply Nat.ltb_lt in E0.
  assert (H1 := nab_le_na a b u w Hl). assert (H2 := nab_le_nb a b u w Hl). assert (H3 := na_le_length a u).
  assert (Pn : 0 < INR (length a)) by (apply lt_0_INR; lia).
  assert (Pv : 0 < INR (nab a b u w)) by (apply lt_0_INR; lia).
  apply Rmult_le_pos.
  - unfold Rdiv. apply Rmult_le_pos; [lra|]. left. apply Rinv_0_lt_compat. exact Pn.
  - assert (ln (INR (nab a b u w)) <= ln (INR (na b w))) by (apply ln_le; [exact Pv | apply le_INR; exact H2]). lra.
Qed.

Lemma Hlab_nonneg a : 0 <= Hlab a.
Proof.
  unfold Hlab. rewrite <- rsum_map_opp. apply rsum_nonneg. intros x Hx. apply in_map_iff in Hx.
  destruct Hx as [u [Hx Hu]]. subst x. apply (proj1 (usort_in a u)) in Hu.
  assert (H0 : (0 < na a u)%nat) by (unfold na; apply count_occ_In; exact Hu).
  assert (H3 := na_le_length a u).
  assert (Pn : 0 < INR (length a)) by (apply lt_0_INR; lia).
  assert (Pv : 0 < INR (na a u)) by (apply lt_0_INR; lia).
  assert (L : ln (INR (na a u)) <= ln (INR (length a))) by (apply ln_le; [exact Pv | apply le_INR; exact H3]).
  assert (Q : 0 <= INR (na a u) / INR (length a)).
  { unfold Rdiv. apply Rmult_le_pos; [lra|]. left. apply Rinv_0_lt_compat. exact Pn. }
  assert (0 <= INR (na a u) / INR (length a) * (ln (INR (length a)) - ln (INR (na a u)))) by (apply Rmult_le_pos; lra).
  lra.
Qed.

Lemma clamp0_bounds x hi : 0 <= hi -> x <= hi -> 0 <= clamp0 x <= hi.
Proof.
  intros H1 H2. unfold clamp0. destruct (Rleb 0 x) eqn:E; [apply Rleb_true in E; lra | lra].
Qed.
Lemma clamp0_id x : 0 <= x -> clamp0 x = x.
Proof. intros H. unfold clamp0. apply Rleb_true in H. rewrite H. reflexivity. Qed.

(* ------------------------------------------------------------------ value 1 at zero conditional entropy *)
Lemma hom_one a b : length a = length b -> a <> [] -> Hcond a b = 0 ->
  exists c v, hcv ROps a b = Some (1, c, v).
Proof.
  intros Hl Hne Hz. rewrite (hcv_value_form a b Hl Hne). unfold hcv_of.
  rewrite (mi_decomp a b Hl), Hz, Rminus_0_r, (clamp0_id _ (Hlab_nonneg a)).
  destruct (Reqb (Hlab a) 0) eqn:E.
  - eexists. eexists. reflexivity.
  - apply Reqb_false in E. replace (Hlab a / Hlab a) with 1 by (field; exact E).
    eexists. eexists. reflexivity.
Qed.
Lemma com_one a b : length a = length b -> a <> [] -> Hcond b a = 0 ->
  exists h v, hcv ROps a b = Some (h, 1, v).
Proof.
  intros Hl Hne Hz.
  assert (Hne' : b <> []) by (destruct b; [destruct a; [contradiction | discriminate] | discriminate]).
  destruct (hom_one b a (eq_sym Hl) Hne' Hz) as [c [v H]].
  exists c, v. apply (hcv_swap_lemma b a 1 c v (eq_sym Hl) H).
Qed.

Lemma countb_pos_exists {A} (q : A -> bool) l : (0 < countb q l)%nat -> exists x, In x l /\ q x = true.
Proof.
  induction l as [|x t IH]; [unfold countb; cbn; lia|]. rewrite countb_cons.
  destruct (q x) eqn:E; [intros _; exists x; split; [left; reflexivity | exact E]|].
  intros H. destruct (IH H) as [y [Hy Hq]]. exists y. split; [right; exact Hy | exact Hq].
Qed.

(* every cluster lies inside one class  ==>  H(C|K) = 0 *)
Definition determined_by (a b : list Z) : Prop :=
  forall p q, In p (combine a b) -> In q (combine a b) -> snd p = snd q -> fst p = fst q.

Lemma Hcond_zero_when_determined a b : length a = length b -> determined_by a b -> Hcond a b = 0.
Proof.
  intros Hl Hd. unfold Hcond.
  rewrite (rsum_ext _ (fun _ => 0)); [rewrite rsum_map_const; lra|].
  intros u _. rewrite (rsum_ext _ (fun _ => 0)); [rewrite rsum_map_const; lra|].
  intros w _. destruct (Nat.ltb 0 (nab a b u w)) eqn:E0; [|reflexivity]. apply Nat.ltb_lt in E0.
  assert (E : nab a b u w = na b w).
  { rewrite <- (cntB_combine a b w Hl). unfold nab, cnt2, cntB.
    destruct (countb_pos_exists _ _ E0) as [p0 [Hp0 Hq0]].
    apply andb_true_iff in Hq0. destruct Hq0 as [Hu Hw]. apply Z.eqb_eq in Hu. apply Z.eqb_eq in Hw.
    apply countb_ext. intros p Hp. destruct (snd p =? w)%Z eqn:Ew; [|apply andb_false_r].
    apply Z.eqb_eq in Ew. rewrite andb_true_r. apply Z.eqb_eq.
    rewrite (Hd p p0 Hp Hp0) by congruence. exact Hu. }
  rewrite E. unfold Rminus. rewrite Rplus_opp_r. ring.
Qed.

Lemma single_class_determined a b : (forall x y, In x a -> In y a -> x = y) -> determined_by a b.
Proof.
  intros H p q Hp Hq _. apply in_combine_both in Hp. apply in_combine_both in Hq. apply H; tauto.
Qed.

(* ------------------------------------------------------------------ range *)
Lemma div_le_1 n d : 0 < d -> n <= d -> n / d <= 1.
Proof.
  intros Hd Hn. unfold Rdiv. apply Rmult_le_reg_r with d; [exact Hd|].
  rewrite Rmult_assoc, Rinv_l by lra. lra.
Qed.

Lemma ratio_bounds mi H : 0 <= mi <= H -> H <> 0 -> 0 <= mi / H <= 1.
Proof.
  intros [H1 H2] Hn. assert (P : 0 < H) by lra. assert (Q : 0 < / H) by (apply Rinv_0_lt_compat; exact P).
  unfold Rdiv. split.
  - apply Rmult_le_pos; lra.
  - replace 1 with (H * / H) by (field; exact Hn). apply Rmult_le_compat_r; lra.
Qed.

Lemma hcv_unit_interval a b h c v : length a = length b -> a <> [] ->
  hcv ROps a b = Some (h, c, v) -> 0 <= h <= 1 /\ 0 <= c <= 1 /\ 0 <= v <= 1.
Proof.
  intros Hl Hne H. rewrite (hcv_value_form a b Hl Hne) in H.
  set (mi := clamp0 (MIraw a b)) in *.
  assert (Ba : 0 <= mi <= Hlab a).
  { unfold mi. apply clamp0_bounds; [apply Hlab_nonneg|]. rewrite (mi_decomp a b Hl).
    assert (Q := Hcond_nonneg a b Hl). lra. }
  assert (Bb : 0 <= mi <= Hlab b).
  { unfold mi. rewrite <- (MIraw_swap a b Hl). apply clamp0_bounds; [apply Hlab_nonneg|].
    rewrite (mi_decomp b a (eq_sym Hl)). assert (Q := Hcond_nonneg b a (eq_sym Hl)). lra. }
  unfold hcv_of in H.
  set (h' := if Reqb (Hlab a) 0 then 1 else mi / Hlab a) in *.
  set (c' := if Reqb (Hlab b) 0 then 1 else mi / Hlab b) in *.
  assert (Bh : 0 <= h' <= 1).
  { unfold h'. destruct (Reqb (Hlab a) 0) eqn:E; [lra|]. apply Reqb_false in E. apply ratio_bounds; assumption. }
  assert (Bc : 0 <= c' <= 1).
  { unfold c'. destruct (Reqb (Hlab b) 0) eqn:E; [lra|]. apply Reqb_false in E. apply ratio_bounds; assumption. }
  assert (Eh : h = h') by congruence. assert (Ec : c = c') by congruence.
  assert (Ev : v = if Reqb (h' + c') 0 then 0 else 2 * h' * c' / (1 * h' + c')) by congruence.
  subst h c. split; [exact Bh|]. split; [exact Bc|]. rewrite Ev.
  destruct (Reqb (h' + c') 0) eqn:E; [lra|]. apply Reqb_false in E.
  assert (P : 0 < 1 * h' + c') by lra. assert (Q : 0 < / (1 * h' + c')) by (apply Rinv_0_lt_compat; exact P).
  assert (N0 : 0 <= 2 * h' * c') by (assert (0 <= h' * c') by (apply Rmult_le_pos; lra); lra).
  assert (N1 : 2 * h' * c' <= 1 * h' + c').
  { assert (h' * c' <= h' * 1) by (apply Rmult_le_compat_l; lra).
    assert (h' * c' <= 1 * c') by (apply Rmult_le_compat_r; lra). lra. }
  split.
  - unfold Rdiv. apply Rmult_le_pos; lra.
  - apply div_le_1; lra.
Qed.
