(* C15 — ROC-AUC: the rank-sum with mid-ranks over ANY permutation that sorts the scores equals the
   pairwise (Mann-Whitney) probability, ties counted one half. *)
From Coq Require Import List ZArith Reals Bool Arith Lia Lra Permutation Sorted.
From SC Require Import Base.Num C15.Model C15.ProofsBasic.
Import ListNotations.
Local Open Scope R_scope.

(* ------------------------------------------------------------------ specification *)
(* a positive scored a against a negative scored b *)
Definition pair_score (a b : R) : R :=
  if Rlt_dec b a then 1 else if Req_EM_T a b then 1 / 2 else 0.
Definition n_pos (yt : list R) : nat := count_idx (length yt) (fun i => Reqb (at_ yt i) 1).
Definition n_neg (yt : list R) : nat := count_idx (length yt) (fun i => Reqb (at_ yt i) 0).
Definition auc_pairwise (yt s : list R) : R :=
  sum_idx (length yt) (fun i => sum_idx (length yt) (fun j =>
      if Reqb (at_ yt i) 1 && Reqb (at_ yt j) 0 then pair_score (at_ s i) (at_ s j) else 0))
  / (INR (n_pos yt) * INR (n_neg yt)).

(* ------------------------------------------------------------------ small facts *)
Lemma Reqb_sym a b : Reqb a b = Reqb b a.
Proof.
  destruct (Reqb b a) eqn:E.
  - apply Reqb_true in E. apply Reqb_true. auto.
  - apply Reqb_false in E. apply Reqb_false. auto.
Qed.
Lemma Reqb_refl a : Reqb a a = true.
Proof. apply Reqb_true. reflexivity. Qed.

Definition g (a b : R) : R := (if Rltb a b then 1 else 0) + (if Reqb a b then 1 / 2 else 0).
Lemma g_sym a b : g a b + g b a = 1.
Proof.
  unfold g. rewrite (Reqb_sym b a).
  destruct (Rltb a b) eqn:E1; destruct (Rltb b a) eqn:E2; destruct (Reqb a b) eqn:E3;
    repeat match goal with
    | H : Rltb _ _ = true |- _ => apply Rltb_true in H
    | H : Rltb _ _ = false |- _ => apply Rltb_false in H
    | H : Reqb _ _ = true |- _ => apply Reqb_true in H
    | H : Reqb _ _ = false |- _ => apply Reqb_false in H
    end; lra.
Qed.
Lemma pair_score_g a b : pair_score a b = g b a.
Proof.
  unfold pair_score, g, Rltb, Reqb.
  destruct (Rlt_dec b a); destruct (Req_EM_T a b); destruct (Req_EM_T b a); lra.
Qed.

Lemma countb_perm {A} (p : A -> bool) l1 l2 : Permutation l1 l2 -> countb p l1 = countb p l2.
Proof.
  unfold countb. induction 1; cbn [filter]; auto.
  - destruct (p x); cbn [length]; congruence.
  - destruct (p x); destruct (p y); reflexivity.
  - congruence.
Qed.

Lemma rsum_map_scal_r {A} (c : R) (f : A -> R) l : rsum (map (fun x => f x * c) l) = rsum (map f l) * c.
Proof. induction l as [|x t IH]; cbn [map rsum]; [lra | rewrite IH; lra]. Qed.

(* ------------------------------------------------------------------ the label counts *)
Lemma auc_counts_R : forall yt p n, binary yt ->
  auc_counts ROps yt p n
  = Some (p + INR (countb (fun y => Reqb y 1) yt), n + INR (countb (fun y => Reqb y 0) yt)).
Proof.
  unfold countb.
  induction yt as [|y t IH]; intros p n Hb; cbn [auc_counts filter length].
  - cbn. f_equal. f_equal; lra.
  - assert (Hb' : binary t) by (intros x Hx; apply Hb; right; exact Hx).
    cbn [oeqb o0 o1 oadd ROps].
    destruct (Hb y (or_introl eq_refl)) as [E|E]; subst y.
    + rewrite Reqb_refl, Reqb_01_false. rewrite IH by exact Hb'. cbn [length]. rewrite S_INR. f_equal. f_equal; lra.
    + replace (Reqb 1 0) with false by (symmetry; apply Reqb_false; lra). rewrite Reqb_refl.
      rewrite IH by exact Hb'. cbn [length]. rewrite S_INR. f_equal. f_equal; lra.
Qed.

(* ------------------------------------------------------------------ the rank loop *)
Definition midrank (whole : list R) (v : R) : R :=
  INR (countb (fun x => Rltb x v) whole) + (INR (countb (fun x => Reqb x v) whole) + 1) / 2.

Lemma run_len_split y r :
  r = repeat y (run_len ROps y r) ++ skipn (run_len ROps y r) r.
Proof.
  induction r as [|x t IH]; [reflexivity|]. cbn [run_len oeqb ROps].
  destruct (Reqb x y) eqn:E.
  - apply Reqb_true in E. subst x. cbn [repeat skipn app]. f_equal. exact IH.
  - reflexivity.
Qed.
Lemma run_len_next y r :
  match skipn (run_len ROps y r) r with [] => True | z :: _ => z <> y end.
Proof.
  induction r as [|x t IH]; [exact I|]. cbn [run_len oeqb ROps].
  destruct (Reqb x y) eqn:E.
  - cbn [skipn]. exact IH.
  - cbn [skipn]. apply Reqb_false in E. exact E.
Qed.

Lemma ranks_nil fuel i : ranks ROps fuel i [] = Some [].
Proof. destruct fuel; reflexivity. Qed.

Lemma ranks_unfold f i y r :
  ranks ROps (S f) i (y :: r)
  = option_map (app (repeat (INR i + 1 + INR (run_len ROps y r) / 2) (S (run_len ROps y r))))
               (ranks ROps f (i + 1 + run_len ROps y r) (skipn (run_len ROps y r) r)).
Proof.
  destruct r as [|y' r'].
  - cbn [ranks run_len skipn]. rewrite ranks_nil. cbn [option_map repeat app].
    rewrite ofn_R, plus_INR. cbn [INR]. f_equal. f_equal. lra.
  - cbn [ranks]. cbn [oeqb ROps]. cbn [run_len oeqb ROps]. rewrite (Reqb_sym y' y).
    destruct (Reqb y y') eqn:E; cbn [negb].
    + set (m := run_len ROps y r').
      replace (i + 1 + S m - i)%nat with (S (S m)) by lia.
      rewrite two_R, ofn_R. cbn [odiv ROps].
      replace (INR (i + 1 + (i + 1 + S m)) / 2) with (INR i + 1 + INR (S m) / 2); [reflexivity|].
      rewrite !plus_INR. cbn [INR]. lra.
    + cbn [skipn repeat]. rewrite Nat.add_0_r, ofn_R, plus_INR. cbn [INR].
      replace (INR i + 1 + 0 / 2) with (INR i + 1) by lra.
      destruct (ranks ROps f (i + 1) (y' :: r')); reflexivity.
Qed.

Lemma SSorted_app_r (l1 l2 : list R) : StronglySorted Rle (l1 ++ l2) -> StronglySorted Rle l2.
Proof. induction l1 as [|x t IH]; cbn [app]; intros H; [exact H|]. inversion H; subst. auto. Qed.

Lemma count_group (pre : list R) (y : R) (m : nat) (post : list R) :
  (forall a, In a pre -> a < y) -> (forall b, In b post -> y < b) ->
  countb (fun x => Rltb x y) (pre ++ y :: repeat y m ++ post) = length pre /\
  countb (fun x => Reqb x y) (pre ++ y :: repeat y m ++ post) = S m.
Proof.
  intros Hpre Hpost. unfold countb.
  assert (A1 : filter (fun x => Rltb x y) pre = pre).
  { clear Hpost. induction pre as [|a t IH]; [reflexivity|]. cbn [filter].
    replace (Rltb a y) with true by (symmetry; apply Rltb_true; apply Hpre; left; reflexivity).
    f_equal. apply IH. intros b Hb. apply Hpre. right. exact Hb. }
  assert (A2 : filter (fun x => Reqb x y) pre = []).
  { clear Hpost A1. induction pre as [|a t IH]; [reflexivity|]. cbn [filter].
    replace (Reqb a y) with false.
    - apply IH. intros b Hb. apply Hpre. right. exact Hb.
    - symmetry. apply Reqb_false. assert (a < y) by (apply Hpre; left; reflexivity). lra. }
  assert (B1 : filter (fun x => Rltb x y) post = []).
  { clear Hpre A1 A2. induction post as [|a t IH]; [reflexivity|]. cbn [filter].
    replace (Rltb a y) with false.
    - apply IH. intros b Hb. apply Hpost. right. exact Hb.
    - symmetry. apply Rltb_false. assert (y < a) by (apply Hpost; left; reflexivity). lra. }
  assert (B2 : filter (fun x => Reqb x y) post = []).
  { clear Hpre A1 A2 B1. induction post as [|a t IH]; [reflexivity|]. cbn [filter].
    replace (Reqb a y) with false.
    - apply IH. intros b Hb. apply Hpost. right. exact Hb.
    - symmetry. apply Reqb_false. assert (y < a) by (apply Hpost; left; reflexivity). lra. }
  assert (C1 : forall k, filter (fun x => Rltb x y) (repeat y k) = []).
  { induction k as [|k IH]; [reflexivity|]. cbn [repeat filter].
    replace (Rltb y y) with false by (symmetry; apply Rltb_false; lra). exact IH. }
  assert (C2 : forall k, filter (fun x => Reqb x y) (repeat y k) = repeat y k).
  { induction k as [|k IH]; [reflexivity|]. cbn [repeat filter]. rewrite Reqb_refl. f_equal. exact IH. }
  change (y :: repeat y m ++ post) with (repeat y (S m) ++ post).
  rewrite !filter_app, A1, A2, B1, B2, C1, C2. cbn [app]. rewrite !app_nil_r, repeat_length. auto.
Qed.

Lemma map_repeat' {A B} (f : A -> B) x n : map f (repeat x n) = repeat (f x) n.
Proof. induction n as [|n IH]; cbn [repeat map]; [reflexivity | rewrite IH; reflexivity]. Qed.

Lemma ranks_midrank : forall fuel pre rest,
  StronglySorted Rle rest -> (forall a b, In a pre -> In b rest -> a < b) ->
  (length rest <= fuel)%nat ->
  ranks ROps fuel (length pre) rest = Some (map (midrank (pre ++ rest)) rest).
Proof.
  induction fuel as [|f IH]; intros pre rest Hs Hlt Hlen.
  - destruct rest; [reflexivity | cbn [length] in Hlen; lia].
  - destruct rest as [|y r]; [reflexivity|].
    rewrite ranks_unfold.
    set (m := run_len ROps y r). set (post := skipn m r).
    assert (Hr : r = repeat y m ++ post) by apply run_len_split.
    assert (Hn : match post with [] => True | z :: _ => z <> y end) by apply run_len_next.
    clearbody post. clearbody m.
    destruct (StronglySorted_inv Hs) as [Hs' Hf].
    assert (Hall : forall b, In b r -> y <= b).
    { intros b Hb. eapply Forall_forall; eauto. }
    assert (Hsp : StronglySorted Rle post).
    { apply (SSorted_app_r (repeat y m)). rewrite <- Hr. assumption. }
    assert (Hpost : forall b, In b post -> y < b).
    { destruct post as [|z u]; [intros b []|].
      assert (Hz : y <= z) by (apply Hall; rewrite Hr; apply in_or_app; right; left; reflexivity).
      assert (Hyz : y < z) by lra.
      intros b [Hb|Hb]; [subst; exact Hyz|].
      destruct (StronglySorted_inv Hsp) as [_ Hfz]. assert (z <= b) by (eapply Forall_forall; eauto). lra. }
    assert (Hpre : forall a, In a pre -> a < y) by (intros a Ha; apply Hlt; [exact Ha | left; reflexivity]).
    destruct (count_group pre y m post Hpre Hpost) as [C1 C2].
    specialize (IH (pre ++ y :: repeat y m) post Hsp).
    assert (El : length (pre ++ y :: repeat y m) = (length pre + 1 + m)%nat).
    { rewrite app_length. cbn [length]. rewrite repeat_length. lia. }
    rewrite El in IH. rewrite IH.
    + cbn [option_map]. f_equal.
      replace ((pre ++ y :: repeat y m) ++ post) with (pre ++ y :: r)
        by (rewrite <- app_assoc; cbn [app]; rewrite <- Hr; reflexivity).
      assert (Em : midrank (pre ++ y :: r) y = INR (length pre) + 1 + INR m / 2).
      { unfold midrank. rewrite Hr, C1, C2. rewrite S_INR. lra. }
      rewrite <- Em. set (W := pre ++ y :: r). rewrite Hr. cbn [map]. rewrite map_app, map_repeat'. reflexivity.
    + intros a b Ha Hb. apply in_app_or in Ha. destruct Ha as [Ha|Ha].
      * apply Hlt; [exact Ha|]. right. rewrite Hr. apply in_or_app. right. exact Hb.
      * assert (a = y).
        { destruct Ha as [Ha|Ha]; [auto|]. apply repeat_spec in Ha. exact Ha. }
        subst a. apply Hpost. exact Hb.
    + cbn [length] in Hlen. assert (length r = (m + length post)%nat).
      { rewrite Hr at 1. rewrite app_length, repeat_length. reflexivity. }
      lia.
Qed.

Lemma ranks_sorted s : StronglySorted Rle s ->
  ranks ROps (length s) 0 s = Some (map (midrank s) s).
Proof.
  intros H. apply (ranks_midrank (length s) [] s H); [intros a b []|lia].
Qed.

(* ------------------------------------------------------------------ the rank-sum identity *)
Lemma rank_sum_identity {A} (L : list A) (s : A -> R) (p q : A -> R) :
  (forall x, In x L -> p x + q x = 1) ->
  rsum (map (fun i => p i * (rsum (map (fun j => g (s j) (s i)) L) + 1 / 2)) L)
  = rsum (map p L) * (rsum (map p L) + 1) / 2
    + rsum (map (fun i => rsum (map (fun j => p i * q j * g (s j) (s i)) L)) L).
Proof.
  intros Hpq.
  set (P := rsum (map p L)).
  set (D := rsum (map (fun i => rsum (map (fun j => p i * p j * g (s j) (s i)) L)) L)).
  set (U := rsum (map (fun i => rsum (map (fun j => p i * q j * g (s j) (s i)) L)) L)).
  assert (E1 : rsum (map (fun i => p i * (rsum (map (fun j => g (s j) (s i)) L) + 1 / 2)) L)
               = D + U + P / 2).
  { transitivity (rsum (map (fun i => (rsum (map (fun j => p i * p j * g (s j) (s i)) L)
                                      + rsum (map (fun j => p i * q j * g (s j) (s i)) L)) + p i * (1 / 2)) L)).
    - apply rsum_ext. intros i _.
      rewrite <- rsum_map_plus. rewrite Rmult_plus_distr_l. f_equal.
      rewrite <- rsum_map_scal. apply rsum_ext. intros j Hj.
      assert (H := Hpq j Hj). nra.
    - rewrite rsum_map_plus, rsum_map_plus, rsum_map_scal_r. unfold D, U, P. lra. }
  assert (E2 : D + D = P * P).
  { assert (Dswap : D = rsum (map (fun i => rsum (map (fun j => p j * p i * g (s i) (s j)) L)) L)).
    { unfold D. rewrite rsum_swap. reflexivity. }
    rewrite Dswap at 2. unfold D. rewrite <- rsum_map_plus.
    transitivity (rsum (map (fun i => p i * P) L)).
    - apply rsum_ext. intros i _. rewrite <- rsum_map_plus. unfold P. rewrite <- rsum_map_scal.
      apply rsum_ext. intros j _. assert (H := g_sym (s j) (s i)). nra.
    - rewrite rsum_map_scal_r. reflexivity. }
  rewrite E1. fold U. nra.
Qed.

(* ------------------------------------------------------------------ assembling *)
Lemma fold_left_cond_sum {A} (c : A -> bool) (w : A -> R) l : forall acc,
  fold_left (fun a x => if c x then a + w x else a) l acc
  = acc + rsum (map (fun x => if c x then w x else 0) l).
Proof.
  induction l as [|x t IH]; intros acc; cbn [fold_left map rsum]; [lra|].
  rewrite IH. destruct (c x); lra.
Qed.

Lemma combine_map_r {A B} (f : A -> B) l : combine l (map f l) = map (fun x => (x, f x)) l.
Proof. induction l as [|x t IH]; cbn [map combine]; [reflexivity | rewrite IH; reflexivity]. Qed.

Lemma midrank_as_sum (L : list nat) (s : nat -> R) v :
  midrank (map s L) v = rsum (map (fun j => g (s j) v) L) + 1 / 2.
Proof.
  unfold midrank, g. rewrite !countb_map, !countb_as_rsum.
  rewrite rsum_map_plus.
  replace (rsum (map (fun x => if Reqb (s x) v then 1 / 2 else 0) L))
    with (rsum (map (fun x => (1 / 2) * (if Reqb (s x) v then 1 else 0)) L)).
  - rewrite rsum_map_scal. lra.
  - apply rsum_ext. intros x _. destruct (Reqb (s x) v); lra.
Qed.

Lemma auc_rank_sum yt scores idx :
  length scores = length yt -> yt <> [] -> binary yt ->
  Permutation idx (seq 0 (length yt)) ->
  Sorted Rle (map (at_ scores) idx) ->
  auc_with ROps yt scores idx = Some (auc_pairwise yt scores).
Proof.
  intros Hlen Hne Hb Hperm Hsorted.
  set (n := length yt) in *.
  assert (Hli : length idx = n) by (rewrite (Permutation_length Hperm); apply seq_length).
  unfold auc_with. rewrite Hlen, Hli. fold n. rewrite !Nat.eqb_refl.
  assert (Hn0 : n <> 0%nat) by (unfold n; destruct yt; [contradiction | discriminate]).
  replace (Nat.eqb n 0) with false by (symmetry; apply Nat.eqb_neq; exact Hn0). cbn [andb negb].
  unfold auc_core. cbn [o0 ROps]. rewrite (auc_counts_R yt 0 0 Hb).
  change (fun k => nth k scores 0) with (at_ scores).
  apply Sorted_StronglySorted in Hsorted; [|intros a b c; apply Rle_trans].
  rewrite map_length. rewrite <- (map_length (at_ scores) idx).
  rewrite (ranks_sorted _ Hsorted).
  cbn [oeqb o1 oadd osub omul odiv ROps]. rewrite two_R.
  rewrite (fold_left_cond_sum (fun p => Reqb (nth (fst p) yt 0) 1) snd).
  rewrite map_map, combine_map_r, map_map. cbn [fst snd].
  (* sum over idx -> sum over 0..n-1 *)
  set (ind1 := fun i : nat => if Reqb (at_ yt i) 1 then 1 else 0).
  set (ind0 := fun i : nat => if Reqb (at_ yt i) 0 then 1 else 0).
  set (L := seq 0 n).
  assert (Emid : forall v, midrank (map (at_ scores) idx) v = rsum (map (fun j => g (at_ scores j) v) L) + 1 / 2).
  { intros v. rewrite midrank_as_sum. f_equal. apply rsum_perm. apply Permutation_map. exact Hperm. }
  assert (Esum : rsum (map (fun x => if Reqb (nth x yt 0) 1 then midrank (map (at_ scores) idx) (at_ scores x) else 0) idx)
                 = rsum (map (fun i => ind1 i * (rsum (map (fun j => g (at_ scores j) (at_ scores i)) L) + 1 / 2)) L)).
  { rewrite (rsum_perm _ _ (Permutation_map _ Hperm)). fold L.
    apply rsum_ext. intros i _. rewrite Emid. unfold ind1, at_. destruct (Reqb (nth i yt 0) 1); lra. }
  rewrite Esum.
  assert (Hpq : forall i, In i L -> ind1 i + ind0 i = 1).
  { intros i Hi. apply in_seq in Hi. unfold ind1, ind0.
    destruct (binary_nth yt i Hb) as [E|E]; [fold n; lia| |]; rewrite E.
    - rewrite Reqb_01_false, Reqb_refl. lra.
    - rewrite Reqb_refl. replace (Reqb 1 0) with false by (symmetry; apply Reqb_false; lra). lra. }
  rewrite (rank_sum_identity L (at_ scores) ind1 ind0 Hpq).
  assert (Ep : INR (countb (fun y => Reqb y 1) yt) = rsum (map ind1 L)).
  { rewrite (list_as_map_seq 0 yt) at 1. rewrite countb_map, countb_as_rsum. reflexivity. }
  assert (Eq : INR (countb (fun y => Reqb y 0) yt) = rsum (map ind0 L)).
  { rewrite (list_as_map_seq 0 yt) at 1. rewrite countb_map, countb_as_rsum. reflexivity. }
  rewrite Ep, Eq.
  f_equal. unfold auc_pairwise, n_pos, n_neg, count_idx, sum_idx. fold n. fold L.
  rewrite !countb_as_rsum. fold ind1 ind0.
  f_equal; [|lra].
  replace (0 + rsum (map ind1 L)) with (rsum (map ind1 L)) by lra.
  match goal with |- 0 + (?a + ?u) - ?b = ?v => transitivity u; [lra|] end.
  apply rsum_ext. intros i _. apply rsum_ext. intros j _.
  rewrite pair_score_g. unfold ind1, ind0.
  destruct (Reqb (at_ yt i) 1); destruct (Reqb (at_ yt j) 0); cbn [andb]; lra.
Qed.

(* ------------------------------------------------------------------ the model's own sort *)
Lemma ins_by_perm x l : Permutation (ins_by ROps x l) (x :: l).
Proof.
  induction l as [|y t IH]; cbn [ins_by]; [reflexivity|]. cbn [oleb ROps].
  destruct (Rleb (fst x) (fst y)); [reflexivity|]. rewrite IH. apply perm_swap.
Qed.
Lemma isort_perm l : Permutation (fold_right (ins_by ROps) [] l) l.
Proof.
  induction l as [|x t IH]; cbn [fold_right]; [constructor|]. rewrite ins_by_perm. constructor. exact IH.
Qed.
Lemma ins_by_sorted x l :
  StronglySorted Rle (map fst l) -> StronglySorted Rle (map fst (ins_by ROps x l)).
Proof.
  induction l as [|y t IH]; intros H; cbn [ins_by map].
  - constructor; constructor.
  - cbn [oleb ROps]. destruct (Rleb (fst x) (fst y)) eqn:E.
    + apply Rleb_true in E. cbn [map]. constructor; [exact H|].
      cbn [map] in H. destruct (StronglySorted_inv H) as [_ Hf].
      constructor; [exact E|]. eapply Forall_impl; [|exact Hf]. intros a Ha. cbn beta in Ha. lra.
    + apply Rleb_false in E. cbn [map] in *. destruct (StronglySorted_inv H) as [Hs Hf].
      constructor; [apply IH; exact Hs|].
      assert (P : Permutation (fst x :: map fst t) (map fst (ins_by ROps x t))).
      { symmetry. change (fst x :: map fst t) with (map fst (x :: t)). apply Permutation_map, ins_by_perm. }
      eapply Permutation_Forall; [exact P|]. constructor; [lra | exact Hf].
Qed.
Lemma isort_sorted l : StronglySorted Rle (map fst (fold_right (ins_by ROps) [] l)).
Proof. induction l as [|x t IH]; cbn [fold_right]; [constructor | apply ins_by_sorted, IH]. Qed.

Lemma map_snd_combine {A B} : forall (a : list A) (b : list B), length a = length b -> map snd (combine a b) = b.
Proof.
  induction a as [|x t IH]; intros [|y u] H; try discriminate; [reflexivity|].
  cbn [combine map snd]. f_equal. apply IH. injection H; auto.
Qed.

Lemma argsort_sorting s :
  Permutation (argsort ROps s) (seq 0 (length s)) /\ Sorted Rle (map (at_ s) (argsort ROps s)).
Proof.
  unfold argsort. set (C := combine s (seq 0 (length s))). set (P := fold_right (ins_by ROps) [] C).
  assert (HP : Permutation P C) by apply isort_perm.
  split.
  - rewrite (Permutation_map snd HP). unfold C. rewrite map_snd_combine; [reflexivity|]. rewrite seq_length. reflexivity.
  - assert (HC : Forall (fun p => fst p = at_ s (snd p)) C).
    { unfold C. rewrite (combine_as_map_seq 0 0%nat s (seq 0 (length s))) by (rewrite seq_length; reflexivity).
      apply Forall_forall. intros p Hp. apply in_map_iff in Hp. destruct Hp as [i [Hp Hi]]. subst p. cbn [fst snd].
      apply in_seq in Hi. rewrite seq_nth by lia. reflexivity. }
    assert (HPf : Forall (fun p => fst p = at_ s (snd p)) P).
    { eapply Permutation_Forall; [symmetry; exact HP | exact HC]. }
    assert (E : map (at_ s) (map snd P) = map fst P).
    { rewrite map_map. apply map_ext_in. intros p Hp. symmetry. eapply Forall_forall in HPf; eauto. }
    rewrite E. apply StronglySorted_Sorted. apply isort_sorted.
Qed.

Lemma auc_def yt scores :
  length scores = length yt -> yt <> [] -> binary yt ->
  auc ROps yt scores = Some (auc_pairwise yt scores).
Proof.
  intros Hl Hne Hb. unfold auc. destruct (argsort_sorting scores) as [Hp Hs].
  apply auc_rank_sum; auto. rewrite <- Hl. exact Hp.
Qed.

(* labels other than 0 / 1 are rejected *)
Lemma auc_counts_reject : forall yt p n, ~ binary yt -> auc_counts ROps yt p n = None.
Proof.
  induction yt as [|y t IH]; intros p n Hn.
  - exfalso. apply Hn. intros x [].
  - cbn [auc_counts oeqb o0 o1 ROps].
    destruct (Reqb y 0) eqn:E0; [|destruct (Reqb y 1) eqn:E1; [|reflexivity]].
    + apply IH. intros Hb. apply Hn. intros x [Hx|Hx]; [subst; left; apply Reqb_true; exact E0 | apply Hb; exact Hx].
    + apply IH. intros Hb. apply Hn. intros x [Hx|Hx]; [subst; right; apply Reqb_true; exact E1 | apply Hb; exact Hx].
Qed.
Lemma auc_non_binary yt scores idx : ~ binary yt -> auc_with ROps yt scores idx = None.
Proof.
  intros Hn. unfold auc_with. destruct (_ && _ && _); [|reflexivity].
  unfold auc_core. cbn [o0 ROps]. rewrite auc_counts_reject by exact Hn. reflexivity.
Qed.
