(* C15 — AUC, part 2: the boolean check that the correspondence stage runs on the implementation's
   index vector implies the hypotheses of the AUC theorem (at the real instance), and the fuel of the
   rank loop always suffices (any scalar instance). *)
From Coq Require Import List ZArith Reals Bool Arith Lia Lra Permutation Sorted.
From SC Require Import Base.Num C15.Model C15.ProofsBasic C15.ProofsAUC.
Import ListNotations.
Local Open Scope R_scope.

Lemma countb_pos_in (k : nat) l : (0 < countb (Nat.eqb k) l)%nat -> In k l.
Proof.
  unfold countb. induction l as [|x t IH]; cbn [filter length]; [lia|].
  destruct (Nat.eqb k x) eqn:E; [intros _; left; symmetry; apply Nat.eqb_eq; exact E|].
  intros H. right. apply IH, H.
Qed.

Lemma is_perm_b_sound idx : is_perm_b idx = true -> Permutation idx (seq 0 (length idx)).
Proof.
  intros H. unfold is_perm_b in H. rewrite forallb_forall in H.
  symmetry. apply NoDup_Permutation_bis.
  - apply seq_NoDup.
  - rewrite seq_length. lia.
  - intros k Hk. specialize (H k Hk). apply Nat.eqb_eq in H. apply countb_pos_in. lia.
Qed.

Lemma sorted_b_sound l : sorted_b ROps l = true -> Sorted Rle l.
Proof.
  induction l as [|a t IH]; intros H; [constructor|].
  destruct t as [|b u]; [constructor; constructor|].
  cbn [sorted_b] in H. apply andb_true_iff in H. destruct H as [H1 H2].
  cbn [oleb ROps] in H1. apply Rleb_true in H1.
  constructor; [apply IH; exact H2 | constructor; exact H1].
Qed.

Lemma sorting_perm_b_sound scores idx : sorting_perm_b ROps scores idx = true ->
  Permutation idx (seq 0 (length scores)) /\ Sorted Rle (map (at_ scores) idx).
Proof.
  unfold sorting_perm_b. intros H. apply andb_true_iff in H. destruct H as [H H3].
  apply andb_true_iff in H. destruct H as [H1 H2]. apply Nat.eqb_eq in H1.
  split; [rewrite <- H1; apply is_perm_b_sound; exact H2 | apply sorted_b_sound; exact H3].
Qed.

(* checked index vector => pairwise definition *)
Lemma auc_checked yt scores idx :
  length scores = length yt -> yt <> [] -> binary yt -> sorting_perm_b ROps scores idx = true ->
  auc_with ROps yt scores idx = Some (auc_pairwise yt scores).
Proof.
  intros Hl Hne Hb H. destruct (sorting_perm_b_sound scores idx H) as [Hp Hs].
  apply auc_rank_sum; auto. rewrite <- Hl. exact Hp.
Qed.

(* fuel: one unit per group, length many always suffice — for every scalar instance *)
Lemma ranks_fuel {T} (O : Ops T) : forall fuel i ys, (length ys <= fuel)%nat ->
  exists r, ranks O fuel i ys = Some r.
Proof.
  induction fuel as [|f IH]; intros i ys H.
  - destruct ys; [exists []; reflexivity | cbn in H; lia].
  - destruct ys as [|y rest]; [exists []; reflexivity|]. cbn [ranks].
    destruct rest as [|y' r']; [eexists; reflexivity|].
    cbn [length] in H.
    destruct (negb (oeqb O y y')).
    + destruct (IH (i + 1)%nat (y' :: r')) as [r Hr]; [cbn [length]; lia|]. rewrite Hr. eexists. reflexivity.
    + set (m := run_len O y (y' :: r')).
      destruct (IH (i + 1 + m)%nat (skipn m (y' :: r'))) as [r Hr].
      * rewrite skipn_length. cbn [length]. lia.
      * rewrite Hr. eexists. reflexivity.
Qed.
