(* C15 — the increment loop of contingency_matrix equals its closed form, and the entropy loop does
   not depend on the HashMap iteration order (over the reals). *)
From Coq Require Import List ZArith Reals Bool Arith Lia Lra Permutation.
From SC Require Import Base.Num C15.Model C15.ProofsBasic.
Import ListNotations.

Definition tab (nr nc : nat) (f : nat -> nat -> nat) : list (list nat) :=
  map (fun r => map (fun c => f r c) (seq 0 nc)) (seq 0 nr).

Lemma incr_at_map (g : nat -> nat) : forall n s c, c < n ->
  incr_at (map g (seq s n)) c = map (fun c' => g c' + (if c' =? s + c then 1 else 0)) (seq s n).
Proof.
  induction n as [|n IH]; intros s c H; [lia|]. cbn [seq map]. destruct c as [|c0]; cbn [incr_at].
  - rewrite Nat.add_0_r, Nat.eqb_refl. f_equal; [lia|]. apply map_ext_in. intros c' Hc'. apply in_seq in Hc'.
    replace (c' =? s) with false; [lia|]. symmetry. apply Nat.eqb_neq. lia.
  - replace (s =? s + S c0) with false by (symmetry; apply Nat.eqb_neq; lia). f_equal; [lia|].
    rewrite IH by lia. apply map_ext. intros c'. replace (S s + c0) with (s + S c0) by lia. reflexivity.
Qed.

Lemma incr2_map (f : nat -> nat -> nat) (nc : nat) : forall nr s r c, r < nr -> c < nc ->
  incr2 (map (fun r' => map (fun c' => f r' c') (seq 0 nc)) (seq s nr)) r c
  = map (fun r' => map (fun c' => f r' c' + (if (r' =? s + r) && (c' =? c) then 1 else 0)) (seq 0 nc)) (seq s nr).
Proof.
  induction nr as [|nr IH]; intros s r c Hr Hc; [lia|]. cbn [seq map]. destruct r as [|r0]; cbn [incr2].
  - rewrite Nat.add_0_r, Nat.eqb_refl. f_equal.
    + rewrite (incr_at_map (fun c' => f s c') nc 0 c Hc). apply map_ext. intros c'. cbn [andb Nat.add]. reflexivity.
    + apply map_ext_in. intros r' Hr'. apply in_seq in Hr'. apply map_ext. intros c'.
      replace (r' =? s) with false by (symmetry; apply Nat.eqb_neq; lia). cbn [andb]. lia.
  - f_equal.
    + apply map_ext. intros c'. replace (s =? s + S r0) with false by (symmetry; apply Nat.eqb_neq; lia).
      cbn [andb]. lia.
    + rewrite IH by lia. apply map_ext. intros r'. apply map_ext. intros c'.
      replace (S s + r0) with (s + S r0) by lia. reflexivity.
Qed.

Lemma tab_ext nr nc f g : (forall r c, f r c = g r c) -> tab nr nc f = tab nr nc g.
Proof. intros H. unfold tab. apply map_ext. intros r. apply map_ext. intros c. apply H. Qed.

Lemma repeat_as_map {A} (x : A) : forall n s, repeat x n = map (fun _ => x) (seq s n).
Proof. induction n as [|n IH]; intros s; [reflexivity|]. cbn [repeat seq map]. f_equal. apply IH. Qed.

Lemma count_pair_cons r c p t :
  count_pair r c (p :: t) = (if (fst p =? r) && (snd p =? c) then 1 else 0) + count_pair r c t.
Proof. unfold count_pair, countb. cbn [filter]. destruct ((fst p =? r) && (snd p =? c)); reflexivity. Qed.

Lemma fold_incr2 nr nc : forall pairs f, (forall p, In p pairs -> fst p < nr /\ snd p < nc) ->
  fold_left (fun m p => incr2 m (fst p) (snd p)) pairs (tab nr nc f)
  = tab nr nc (fun r c => f r c + count_pair r c pairs).
Proof.
  induction pairs as [|p t IH]; intros f H.
  - cbn [fold_left]. apply tab_ext. intros r c. unfold count_pair, countb. cbn. lia.
  - cbn [fold_left]. destruct (H p (or_introl eq_refl)) as [Hr Hc].
    unfold tab at 1. rewrite (incr2_map f nc nr 0 (fst p) (snd p) Hr Hc).
    change (map (fun r' => map (fun c' => f r' c' + (if (r' =? 0 + fst p) && (c' =? snd p) then 1 else 0)) (seq 0 nc)) (seq 0 nr))
      with (tab nr nc (fun r' c' => f r' c' + (if (r' =? 0 + fst p) && (c' =? snd p) then 1 else 0))).
    rewrite IH by (intros q Hq; apply H; right; exact Hq).
    apply tab_ext. intros r c. rewrite count_pair_cons. cbn [Nat.add].
    rewrite (Nat.eqb_sym r (fst p)), (Nat.eqb_sym c (snd p)). lia.
Qed.

Lemma index_of_lt z u : In z u -> index_of z u < length u.
Proof.
  induction u as [|x t IH]; intros H; [destruct H|]. cbn [index_of length].
  destruct (z =? x)%Z eqn:E; [lia|]. apply Z.eqb_neq in E. destruct H as [H|H]; [congruence|].
  specialize (IH H). lia.
Qed.

Lemma insert_uniq_in' z x l : In x (insert_uniq z l) <-> x = z \/ In x l.
Proof.
  induction l as [|y t IH]; cbn [insert_uniq].
  - cbn. intuition.
  - destruct (z <? y)%Z eqn:E1; [cbn; intuition|].
    destruct (z =? y)%Z eqn:E2.
    + apply Z.eqb_eq in E2. subst. cbn. intuition.
    + cbn [In]. rewrite IH. intuition.
Qed.
Lemma usort_in' l x : In x (usort l) <-> In x l.
Proof.
  unfold usort. induction l as [|y t IH]; cbn [fold_right]; [tauto|].
  rewrite insert_uniq_in', IH. cbn. intuition.
Qed.

(* closed form of the increment loop *)
Lemma contingency_matrix_closed a b :
  contingency_matrix a b =
  if Nat.ltb (length b) (length a) then None
  else Some (map (fun r => map (fun c =>
                count_pair r c (combine (map (fun z => index_of z (usort a)) a)
                                        (map (fun z => index_of z (usort b)) b)))
                                   (seq 0 (length (usort b))))
                 (seq 0 (length (usort a)))).
Proof.
  unfold contingency_matrix. destruct (Nat.ltb (length b) (length a)); [reflexivity|].
  unfold unique_with_indices. f_equal.
  set (nr := length (usort a)). set (nc := length (usort b)).
  assert (E0 : repeat (repeat 0 nc) nr = tab nr nc (fun _ _ => 0)).
  { unfold tab. rewrite (repeat_as_map (repeat 0 nc) nr 0). apply map_ext. intros _. apply repeat_as_map. }
  rewrite E0, fold_incr2.
  - apply tab_ext. intros r c. lia.
  - intros p Hp. destruct p as [x y]. split; cbn [fst snd].
    + apply in_combine_l in Hp. apply in_map_iff in Hp. destruct Hp as [z [Hz Hin]]. subst x.
      apply index_of_lt, usort_in', Hin.
    + apply in_combine_r in Hp. apply in_map_iff in Hp. destruct Hp as [z [Hz Hin]]. subst y.
      apply index_of_lt, usort_in', Hin.
Qed.

(* ------------------------------------------------------------------ HashMap order *)
Local Open Scope R_scope.
Lemma nsum_perm l1 l2 : Permutation l1 l2 -> nsum l1 = nsum l2.
Proof. unfold nsum. induction 1; cbn [fold_right]; lia. Qed.

Lemma fold_entropy_sum (t : nat -> R) l : forall acc,
  fold_left (fun e c => if Nat.ltb 0 c then e - t c else e) l acc
  = acc - rsum (map (fun c => if Nat.ltb 0 c then t c else 0) l).
Proof.
  induction l as [|c u IH]; intros acc; cbn [fold_left map rsum]; [lra|].
  rewrite IH. destruct (Nat.ltb 0 c); lra.
Qed.

(* over the reals the value of the entropy loop is the same for every iteration order of the map *)
Lemma entropy_order_independent cs cs' : Permutation cs cs' ->
  entropy_of_counts ROps cs = entropy_of_counts ROps cs'.
Proof.
  intros H. unfold entropy_of_counts. rewrite (nsum_perm _ _ H).
  cbn [o0 oeqb osub omul odiv oln ROps].
  set (t := fun c : nat => ofn ROps c / ofn ROps (nsum cs') * (ln (ofn ROps c) - ln (ofn ROps (nsum cs')))).
  rewrite !(fold_entropy_sum t).
  rewrite (rsum_perm _ _ (Permutation_map (fun c => if Nat.ltb 0 c then t c else 0) H)). reflexivity.
Qed.
