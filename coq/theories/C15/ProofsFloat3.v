(* ROC-AUC in binary64: every operation before the final division is EXACT when n^2 < 2^51.
   The class counters pos / neg are floats incremented by 1.0 (integers below 2^53), the ranks are integers
   or mid-ranks (i+1+j)/2 (half-integers), the rank sum over the positives is a half-integer below 2^52,
   pos (pos+1) / 2 is a half-integer, their difference is a half-integer, pos * neg is an integer below
   2^51: all representable, so each float operation returns the exact value, and the float comparisons of
   finite scores / labels agree with the real ones.  Hence the result is the correctly rounded value of
   the real-number model on the real values of the inputs: ONE rounding (the last division). *)
From Coq Require Import List Arith ZArith Bool Reals Floats Lra Lia Psatz.
From Flocq Require Import Core BinarySingleNaN PrimFloat.
From SC Require Import Base.FloatUtil Base.Num Base.FloatError C17.Spec C17.ProofsFloat C15.Model C15.ProofsBasic
     C15.ProofsFloat2.
From SC Require C15.ProofsAUC.
Import ListNotations.
Local Open Scope R_scope.
Local Existing Instance Hprec.
Local Existing Instance Hmax.

(* ---------------- exact operations ---------------- *)
Lemma fadd_exact x y : ffin x -> ffin y -> fmt64 (FR x + FR y) -> Rabs (FR x + FR y) < bpow radix2 1024 ->
  ffin (x + y)%float /\ FR (x + y)%float = FR x + FR y.
Proof.
  rewrite !ffin_B. unfold FR. intros Hx Hy Hf Hb. rewrite add_equiv.
  generalize (Bplus_correct prec emax Hprec Hmax mode_NE _ _ Hx Hy).
  change (round radix2 (fexp prec emax) (round_mode mode_NE) (B2R (Prim2B x) + B2R (Prim2B y)))
    with (rnd64 (B2R (Prim2B x) + B2R (Prim2B y))).
  rewrite (rnd64_id _ Hf), Rlt_bool_true by exact Hb.
  intros (E & F & _). split; [exact F | exact E].
Qed.
Lemma fsub_exact x y : ffin x -> ffin y -> fmt64 (FR x - FR y) -> Rabs (FR x - FR y) < bpow radix2 1024 ->
  ffin (x - y)%float /\ FR (x - y)%float = FR x - FR y.
Proof.
  rewrite !ffin_B. unfold FR. intros Hx Hy Hf Hb. rewrite sub_equiv.
  generalize (Bminus_correct prec emax Hprec Hmax mode_NE _ _ Hx Hy).
  change (round radix2 (fexp prec emax) (round_mode mode_NE) (B2R (Prim2B x) - B2R (Prim2B y)))
    with (rnd64 (B2R (Prim2B x) - B2R (Prim2B y))).
  rewrite (rnd64_id _ Hf), Rlt_bool_true by exact Hb.
  intros (E & F & _). split; [exact F | exact E].
Qed.
Lemma fmul_exact x y : ffin x -> ffin y -> fmt64 (FR x * FR y) -> Rabs (FR x * FR y) < bpow radix2 1024 ->
  ffin (x * y)%float /\ FR (x * y)%float = FR x * FR y.
Proof.
  rewrite !ffin_B. unfold FR. intros Hx Hy Hf Hb. rewrite mul_equiv.
  generalize (Bmult_correct prec emax Hprec Hmax mode_NE (Prim2B x) (Prim2B y)).
  change (round radix2 (fexp prec emax) (round_mode mode_NE) (B2R (Prim2B x) * B2R (Prim2B y)))
    with (rnd64 (B2R (Prim2B x) * B2R (Prim2B y))).
  rewrite (rnd64_id _ Hf), Rlt_bool_true by exact Hb.
  intros (E & F & _). split; [rewrite F, Hx, Hy; reflexivity | exact E].
Qed.
Lemma fdiv_exact x y : ffin x -> ffin y -> FR y <> 0 -> fmt64 (FR x / FR y) -> Rabs (FR x / FR y) < bpow radix2 1024 ->
  ffin (x / y)%float /\ FR (x / y)%float = FR x / FR y.
Proof.
  rewrite !ffin_B. unfold FR. intros Hx Hy Hnz Hf Hb. rewrite div_equiv.
  generalize (Bdiv_correct prec emax Hprec Hmax mode_NE (Prim2B x) (Prim2B y) Hnz).
  change (round radix2 (fexp prec emax) (round_mode mode_NE) (B2R (Prim2B x) / B2R (Prim2B y)))
    with (rnd64 (B2R (Prim2B x) / B2R (Prim2B y))).
  rewrite (rnd64_id _ Hf), Rlt_bool_true by exact Hb.
  intros (E & F & _). split; [rewrite F; exact Hx | exact E].
Qed.

(* ---------------- half-integers below 2^52 ---------------- *)
Definition isH (x : PrimFloat.float) (z : Z) : Prop := ffin x /\ FR x = IZR z / 2.

Lemma fmt64_half z : (Z.abs z < 2 ^ 53)%Z -> fmt64 (IZR z / 2).
Proof.
  intros H. apply generic_format_FLT. exists (Float radix2 z (-1)).
  - unfold F2R. simpl. unfold Z.pow_pos. simpl. lra.
  - exact H.
  - simpl. lia.
Qed.
Lemma half_lt_emax z : (Z.abs z < 2 ^ 53)%Z -> Rabs (IZR z / 2) < bpow radix2 1024.
Proof.
  intros H. apply Rle_lt_trans with (Rabs (IZR z)).
  - unfold Rdiv. rewrite Rabs_mult, (Rabs_pos_eq (/ 2)) by lra. pose proof (Rabs_pos (IZR z)). lra.
  - rewrite <- abs_IZR. change (bpow radix2 1024) with (IZR (2 ^ 1024)). apply IZR_lt.
    apply Z.lt_trans with (2 ^ 53)%Z; [exact H|]. apply Z.pow_lt_mono_r; lia.
Qed.
Lemma isH_ofZ z : (0 <= z < 2 ^ 52)%Z -> isH (float_of_Z z) (2 * z).
Proof.
  intros H. destruct (float_of_Z_exact z) as [F E]; [lia|]. split; [exact F|]. rewrite E, mult_IZR. lra.
Qed.
Lemma isH_zero : isH 0%float 0. Proof. split; [reflexivity | rewrite FR_zero; lra]. Qed.
Lemma isH_one : isH 1%float 2. Proof. split; [reflexivity | rewrite FR_one; lra]. Qed.
Lemma isH_add x y a b : isH x a -> isH y b -> (Z.abs (a + b) < 2 ^ 53)%Z -> isH (x + y)%float (a + b).
Proof.
  intros [Fx Ex] [Fy Ey] H.
  assert (E : FR x + FR y = IZR (a + b) / 2) by (rewrite Ex, Ey, plus_IZR; lra).
  destruct (fadd_exact x y Fx Fy) as [F G]; rewrite ?E; [apply fmt64_half, H | apply half_lt_emax, H |].
  split; [exact F | rewrite G; exact E].
Qed.
Lemma isH_sub x y a b : isH x a -> isH y b -> (Z.abs (a - b) < 2 ^ 53)%Z -> isH (x - y)%float (a - b).
Proof.
  intros [Fx Ex] [Fy Ey] H.
  assert (E : FR x - FR y = IZR (a - b) / 2) by (rewrite Ex, Ey, minus_IZR; lra).
  destruct (fsub_exact x y Fx Fy) as [F G]; rewrite ?E; [apply fmt64_half, H | apply half_lt_emax, H |].
  split; [exact F | rewrite G; exact E].
Qed.
Lemma isH_mul_int x y a b : isH x (2 * a) -> isH y (2 * b) -> (Z.abs (2 * (a * b)) < 2 ^ 53)%Z ->
  isH (x * y)%float (2 * (a * b)).
Proof.
  intros [Fx Ex] [Fy Ey] H.
  assert (E : FR x * FR y = IZR (2 * (a * b)) / 2) by (rewrite Ex, Ey, !mult_IZR; lra).
  destruct (fmul_exact x y Fx Fy) as [F G]; rewrite ?E; [apply fmt64_half, H | apply half_lt_emax, H |].
  split; [exact F | rewrite G; exact E].
Qed.
Lemma isH_half x a : isH x (2 * a) -> (Z.abs a < 2 ^ 53)%Z -> isH (x / float_of_Z 2)%float a.
Proof.
  intros [Fx Ex] H. destruct (float_of_Z_exact 2) as [F2 E2]; [lia|].
  assert (E : FR x / FR (float_of_Z 2) = IZR a / 2) by (rewrite Ex, E2, mult_IZR; lra).
  destruct (fdiv_exact x (float_of_Z 2) Fx F2) as [F G]; rewrite ?E;
    [rewrite E2; lra | apply fmt64_half, H | apply half_lt_emax, H |].
  split; [exact F | rewrite G; exact E].
Qed.

(* ---------------- the class counters ---------------- *)
Definition label01 (y : PrimFloat.float) : Prop := ffin y /\ (FR y = 0 \/ FR y = 1).

Lemma Reqb_refl a : Reqb a a = true. Proof. apply Reqb_true. reflexivity. Qed.
Lemma Reqb_10 : Reqb 1 0 = false. Proof. apply Reqb_false. lra. Qed.

Lemma auc_counts_F : forall yt pos neg pos' neg' p q,
  auc_counts FOps yt pos neg = Some (pos', neg') -> isH pos (2 * p) -> isH neg (2 * q) ->
  (0 <= p)%Z -> (0 <= q)%Z -> (p + q + Z.of_nat (length yt) < 2 ^ 52)%Z ->
  exists p' q', isH pos' (2 * p') /\ isH neg' (2 * q') /\ (0 <= p')%Z /\ (0 <= q')%Z /\
    (p' + q' = p + q + Z.of_nat (length yt))%Z /\
    auc_counts ROps (RV yt) (IZR p) (IZR q) = Some (IZR p', IZR q') /\ Forall label01 yt.
Proof.
  induction yt as [|y t IH]; intros pos neg pos' neg' p q H Hp Hq Hp0 Hq0 Hb.
  - cbn in H. injection H as <- <-. exists p, q. cbn [length RV map auc_counts].
    split; [exact Hp|]. split; [exact Hq|]. split; [exact Hp0|]. split; [exact Hq0|].
    split; [cbn [Z.of_nat]; lia|]. split; [reflexivity | constructor].
  - cbn [auc_counts FOps oeqb oadd o0 o1] in H. cbn [length] in Hb.
    assert (F1 : ffin 1%float) by reflexivity.
    destruct (PrimFloat.eqb y 0) eqn:E0.
    + destruct (feqb_true_fin y 0%float ffin_zero E0) as [Fy Vy]. rewrite FR_zero in Vy.
      assert (Hq' : isH (neg + 1)%float (2 * (q + 1))).
      { replace (2 * (q + 1))%Z with (2 * q + 2)%Z by lia. apply isH_add; [exact Hq | exact isH_one | lia]. }
      destruct (IH _ _ _ _ p (q + 1)%Z H Hp Hq' Hp0 ltac:(lia) ltac:(lia)) as (p' & q' & A1 & A2 & A3 & A4 & A5 & A6 & A7).
      exists p', q'. split; [exact A1|]. split; [exact A2|]. split; [exact A3|]. split; [exact A4|].
      split; [cbn [length]; lia|]. split.
      * cbn [RV map auc_counts ROps oeqb oadd o0 o1]. rewrite Vy, Reqb_refl. rewrite <- plus_IZR. exact A6.
      * constructor; [split; [exact Fy | left; exact Vy] | exact A7].
    + destruct (PrimFloat.eqb y 1) eqn:E1; [|discriminate].
      destruct (feqb_true_fin y 1%float F1 E1) as [Fy Vy]. rewrite FR_one in Vy.
      assert (Hp' : isH (pos + 1)%float (2 * (p + 1))).
      { replace (2 * (p + 1))%Z with (2 * p + 2)%Z by lia. apply isH_add; [exact Hp | exact isH_one | lia]. }
      destruct (IH _ _ _ _ (p + 1)%Z q H Hp' Hq ltac:(lia) Hq0 ltac:(lia)) as (p' & q' & A1 & A2 & A3 & A4 & A5 & A6 & A7).
      exists p', q'. split; [exact A1|]. split; [exact A2|]. split; [exact A3|]. split; [exact A4|].
      split; [cbn [length]; lia|]. split.
      * cbn [RV map auc_counts ROps oeqb oadd o0 o1]. rewrite Vy, Reqb_10, Reqb_refl. rewrite <- plus_IZR. exact A6.
      * constructor; [split; [exact Fy | right; exact Vy] | exact A7].
Qed.

(* ---------------- the rank loop ---------------- *)
Lemma run_len_F y l : ffin y -> Forall ffin l -> run_len FOps y l = run_len ROps (FR y) (RV l).
Proof.
  intros Fy. induction 1 as [|x l Fx Fl IH]; [reflexivity|].
  cbn [RV map run_len FOps ROps oeqb]. rewrite (feqb_FR x y Fx Fy). fold (RV l). rewrite IH. reflexivity.
Qed.
Lemma run_len_le {T} (O : Ops T) y l : (run_len O y l <= length l)%nat.
Proof. induction l as [|x l IH]; cbn [run_len length]; [lia|]. destruct (oeqb O x y); lia. Qed.
Lemma Forall_skipn' {A} (P : A -> Prop) n : forall l, Forall P l -> Forall P (skipn n l).
Proof.
  induction n as [|n IH]; intros l H; [exact H|]. destruct l as [|a l]; [constructor|].
  cbn [skipn]. apply IH. inversion H; assumption.
Qed.
Lemma RV_skipn n l : RV (skipn n l) = skipn n (RV l).
Proof. unfold RV. revert l. induction n as [|n IH]; intros [|a l]; cbn [skipn map]; try reflexivity. apply IH. Qed.
Lemma RV_repeat x n : RV (repeat x n) = repeat (FR x) n.
Proof. unfold RV. induction n as [|n IH]; cbn [repeat map]; [reflexivity | rewrite IH; reflexivity]. Qed.

Definition rank_ok (M : Z) (x : PrimFloat.float) : Prop := exists z, isH x z /\ (0 <= z <= M)%Z.

Lemma ranks_F : forall fuel i ys rk,
  ranks FOps fuel i ys = Some rk -> Forall ffin ys -> (Z.of_nat (i + length ys) < 2 ^ 51)%Z ->
  ranks ROps fuel i (RV ys) = Some (RV rk) /\ Forall (rank_ok (2 * Z.of_nat (i + length ys))) rk.
Proof.
  induction fuel as [|f IH]; intros i ys rk H Hf Hb.
  - destruct ys as [|y rest]; [|discriminate]. cbn in H. injection H as <-. split; [reflexivity | constructor].
  - destruct ys as [|y rest]; [cbn in H; injection H as <-; split; [reflexivity | constructor]|].
    inversion Hf as [|? ? Fy Frest]; subst.
    assert (Hofn : forall m, (Z.of_nat m < 2 ^ 52)%Z ->
              isH (float_of_Z (Z.of_nat m)) (2 * Z.of_nat m) /\ FR (float_of_Z (Z.of_nat m)) = IZR (Z.of_nat m)).
    { intros m Hm. split; [apply isH_ofZ; lia|]. apply float_of_Z_exact. lia. }
    destruct rest as [|y' rest'].
    + cbn [ranks RV map] in H |- *. unfold ofn, oofnat in *. cbn [FOps ROps oofZ] in *.
      injection H as <-. cbn [length] in *. destruct (Hofn (i + 1)%nat ltac:(lia)) as [H1 H2].
      cbn [RV map]. rewrite H2. split; [reflexivity|]. constructor; [|constructor].
      exists (2 * Z.of_nat (i + 1))%Z. split; [exact H1 | lia].
    + inversion Frest as [|? ? Fy' Frest']; subst.
      cbn [ranks] in H. cbn [RV map ranks]. fold (RV rest').
      change (FR y' :: RV rest') with (RV (y' :: rest')).
      set (rest := y' :: rest') in *.
      unfold ofn, oofnat, two in *. cbn [FOps ROps oeqb oofZ odiv] in H |- *.
      cbn [length] in Hb. fold (length rest) in Hb.
      rewrite (feqb_FR y y' Fy Fy') in H.
      destruct (negb (Reqb (FR y) (FR y'))) eqn:Ne.
      * destruct (ranks FOps f (i + 1) rest) as [rk'|] eqn:Hr; [|discriminate]. cbn [option_map] in H. injection H as <-.
        destruct (IH (i + 1)%nat rest rk' Hr Frest ltac:(lia)) as [G1 G2].
        rewrite G1. cbn [option_map RV map].
        destruct (Hofn (i + 1)%nat ltac:(lia)) as [H1 H2]. rewrite H2. split; [reflexivity|].
        replace (i + length (y :: rest))%nat with (i + 1 + length rest)%nat by (cbn [length]; lia).
        constructor; [|exact G2]. exists (2 * Z.of_nat (i + 1))%Z. split; [exact H1 | lia].
      * rewrite <- (run_len_F y rest Fy Frest).
        pose proof (run_len_le FOps y rest) as Hk. set (k := run_len FOps y rest) in *.
        set (j := (i + 1 + k)%nat) in *.
        destruct (ranks FOps f j (skipn k rest)) as [rk'|] eqn:Hr; [|discriminate]. cbn [option_map] in H. injection H as <-.
        assert (Lsk : (j + length (skipn k rest) = i + 1 + length rest)%nat) by (rewrite skipn_length; unfold j; lia).
        destruct (IH j (skipn k rest) rk' Hr (Forall_skipn' _ k _ Frest) ltac:(lia)) as [G1 G2].
        rewrite <- RV_skipn, G1. cbn [option_map].
        destruct (Hofn (i + 1 + j)%nat ltac:(unfold j; lia)) as [H1 H2].
        assert (Hr2 : isH (float_of_Z (Z.of_nat (i + 1 + j)) / float_of_Z 2)%float (Z.of_nat (i + 1 + j))).
        { apply isH_half; [exact H1 | lia]. }
        assert (Er : FR (float_of_Z (Z.of_nat (i + 1 + j)) / float_of_Z 2)%float = IZR (Z.of_nat (i + 1 + j)) / IZR 2).
        { destruct Hr2 as [_ ->]. reflexivity. }
        split.
        -- unfold RV at 2. rewrite map_app. fold (RV rk').
           change (map FR (repeat ?x ?n)) with (RV (repeat x n)).
           fold (RV (repeat (float_of_Z (Z.of_nat (i + 1 + j)) / float_of_Z 2)%float (j - i))).
           rewrite RV_repeat, Er. reflexivity.
        -- apply Forall_app. split.
           ++ apply Forall_forall. intros x Hx. apply repeat_spec in Hx. subst x.
              exists (Z.of_nat (i + 1 + j)). split; [exact Hr2 | unfold j; cbn [length]; lia].
           ++ rewrite Lsk in G2. replace (i + length (y :: rest))%nat with (i + 1 + length rest)%nat by (cbn [length]; lia). exact G2.
Qed.

(* ---------------- the rank sum over the positives ---------------- *)
Lemma label_nth yt k : Forall label01 yt ->
  PrimFloat.eqb (nth k yt 0%float) 1 = Reqb (nth k (RV yt) 0) 1.
Proof.
  intros Hl. assert (F1 : ffin 1%float) by reflexivity.
  assert (Fk : ffin (nth k yt 0%float)).
  { destruct (nth_in_or_default k yt 0%float) as [Hin | ->]; [|reflexivity].
    rewrite Forall_forall in Hl. apply (Hl _ Hin). }
  rewrite (feqb_FR _ _ Fk F1), FR_one. fold (comp (RV yt) k). rewrite comp_RV. reflexivity.
Qed.

Lemma auc_fold_F yt (M : Z) : Forall label01 yt -> (0 <= M)%Z ->
  forall (prs : list (nat * PrimFloat.float)) acc z,
  Forall (fun p => rank_ok M (snd p)) prs -> isH acc z -> (0 <= z)%Z ->
  (z + M * Z.of_nat (length prs) < 2 ^ 53)%Z ->
  exists z', isH (fold_left (fun acc p => if PrimFloat.eqb (nth (fst p) yt 0%float) 1
                                           then PrimFloat.add acc (snd p) else acc) prs acc) z' /\
    (0 <= z' <= z + M * Z.of_nat (length prs))%Z /\
    fold_left (fun acc p => if Reqb (nth (fst p) (RV yt) 0) 1 then acc + snd p else acc)
              (map (fun p => (fst p, FR (snd p))) prs) (IZR z / 2) = IZR z' / 2.
Proof.
  intros Hl HM. induction prs as [|[k x] prs IH]; intros acc z Hr Hacc Hz Hb.
  - exists z. cbn [fold_left map length]. split; [exact Hacc|]. split; [lia | reflexivity].
  - inversion Hr as [|? ? Hx Hr']; subst. cbn [snd] in Hx. destruct Hx as (zx & Hx & Bx).
    cbn [length] in Hb. cbn [fold_left map fst snd].
    rewrite (label_nth yt k Hl). destruct (Reqb (nth k (RV yt) 0) 1).
    + assert (Hacc' : isH (acc + x)%float (z + zx)) by (apply isH_add; [exact Hacc | exact Hx | nia]).
      destruct (IH (acc + x)%float (z + zx)%Z Hr' Hacc' ltac:(lia) ltac:(nia)) as (z' & A1 & A2 & A3).
      exists z'. split; [exact A1|]. split; [cbn [length]; nia|].
      rewrite <- A3. f_equal. destruct Hx as [_ ->]. rewrite plus_IZR. lra.
    + destruct (IH acc z Hr' Hacc Hz ltac:(nia)) as (z' & A1 & A2 & A3).
      exists z'. split; [exact A1|]. split; [cbn [length]; nia | exact A3].
Qed.

Lemma combine_map_r {A B C} (g : B -> C) (l : list A) (m : list B) :
  combine l (map g m) = map (fun p => (fst p, g (snd p))) (combine l m).
Proof.
  revert m. induction l as [|a l IH]; intros [|b m]; cbn [combine map]; try reflexivity. f_equal. apply IH.
Qed.

(* ---------------- AUC ---------------- *)
Lemma auc_float_exact yt scores idx a :
  auc_with FOps yt scores idx = Some a -> ffin a -> Forall ffin scores ->
  (Z.of_nat (length yt) * Z.of_nat (length yt) < 2 ^ 51)%Z ->
  length scores = length yt /\ length idx = length yt /\ (0 < length yt)%nat /\
  exists q, auc_with ROps (RV yt) (RV scores) idx = Some q /\ binary (RV yt) /\
            FR a = rnd64 q /\ Rabs (FR a - q) <= u64 * Rabs q.
Proof.
  intros H Hfin Hsc Hn. unfold auc_with in *. rewrite !RV_length.
  destruct (Nat.eqb (length yt) (length scores) && Nat.eqb (length idx) (length scores)
            && negb (Nat.eqb (length scores) 0)) eqn:Hc; [|discriminate].
  apply andb_prop in Hc. destruct Hc as [Hc Hc3]. apply andb_prop in Hc. destruct Hc as [Hc1 Hc2].
  apply Nat.eqb_eq in Hc1, Hc2.
  split; [symmetry; exact Hc1|]. split; [lia|].
  split; [destruct (Nat.eqb_spec (length scores) 0); [discriminate Hc3 | lia]|].
  set (n := length yt) in *.
  assert (Hn51 : (Z.of_nat n < 2 ^ 51)%Z) by nia.
  set (sorted := map (fun k => nth k scores (o0 FOps)) idx) in *.
  assert (Esorted : map (fun k => nth k (RV scores) (o0 ROps)) idx = RV sorted).
  { unfold sorted, RV. rewrite map_map. apply map_ext. intros k. cbn [FOps ROps o0].
    fold (RV scores) (comp (RV scores) k). apply comp_RV. }
  rewrite Esorted.
  assert (Fsorted : Forall ffin sorted).
  { unfold sorted. apply Forall_forall. intros x Hx. apply in_map_iff in Hx as (k & <- & _).
    destruct (nth_in_or_default k scores (o0 FOps)) as [Hin | ->]; [|reflexivity].
    rewrite Forall_forall in Hsc. apply Hsc, Hin. }
  assert (Lsorted : length sorted = n) by (unfold sorted; rewrite map_length; lia).
  unfold auc_core in *.
  destruct (auc_counts FOps yt (o0 FOps) (o0 FOps)) as [[pos neg]|] eqn:Hcnt; [|discriminate].
  destruct (auc_counts_F yt _ _ pos neg 0 0 Hcnt isH_zero isH_zero ltac:(lia) ltac:(lia) ltac:(fold n; lia))
    as (P & N & HP & HN & HP0 & HN0 & HPN & RC & Hlab).
  fold n in HPN. cbn [ROps o0] in RC |- *. rewrite RC.
  destruct (ranks FOps (length sorted) 0 sorted) as [rank|] eqn:Hrk; [|discriminate].
  destruct (ranks_F _ _ _ _ Hrk Fsorted ltac:(rewrite Lsorted; cbn; lia)) as [RR Hrok].
  rewrite RV_length, RR. rewrite Lsorted in Hrok. cbn [Nat.add] in Hrok.
  cbn [FOps ROps oeqb oadd osub omul odiv o0 o1] in H |- *. unfold two in *. cbn [FOps ROps oofZ] in H |- *.
  injection H as <-.
  (* the rank sum *)
  assert (Hprs : Forall (fun p => rank_ok (2 * Z.of_nat n) (snd p)) (combine idx rank)).
  { apply Forall_forall. intros [k x] Hin. cbn [snd]. rewrite Forall_forall in Hrok. apply Hrok.
    eapply in_combine_r. exact Hin. }
  assert (Lcomb : (length (combine idx rank) <= n)%nat) by (rewrite combine_length; lia).
  destruct (auc_fold_F yt (2 * Z.of_nat n) Hlab ltac:(lia) (combine idx rank) 0%float 0 Hprs isH_zero ltac:(lia) ltac:(nia))
    as (zs & Hs & Bs & Rs).
  assert (RsR : fold_left (fun (acc : R) (p : nat * R) => if Reqb (nth (fst p) (RV yt) 0) 1 then acc + snd p else acc)
                          (combine idx (RV rank)) 0 = IZR zs / 2).
  { change (RV rank) with (map FR rank). rewrite combine_map_r, <- Rs. f_equal. lra. }
  rewrite RsR.
  set (auc := fold_left _ (combine idx rank) 0%float) in *.
  assert (Bzs : (0 <= zs <= 2 * Z.of_nat n * Z.of_nat n)%Z) by nia.
  assert (HPn : (P <= Z.of_nat n)%Z) by lia. assert (HNn : (N <= Z.of_nat n)%Z) by lia.
  (* pos * (pos + 1) / 2 *)
  assert (HP1 : isH (pos + 1)%float (2 * (P + 1))).
  { replace (2 * (P + 1))%Z with (2 * P + 2)%Z by lia. apply isH_add; [exact HP | exact isH_one | lia]. }
  assert (HPP : isH (pos * (pos + 1))%float (2 * (P * (P + 1)))) by (apply isH_mul_int; [exact HP | exact HP1 | nia]).
  assert (HPP2 : isH (pos * (pos + 1) / float_of_Z 2)%float (P * (P + 1))) by (apply isH_half; [exact HPP | nia]).
  assert (Hnum : isH (auc - pos * (pos + 1) / float_of_Z 2)%float (zs - P * (P + 1))) by (apply isH_sub; [exact Hs | exact HPP2 | nia]).
  assert (Hden : isH (pos * neg)%float (2 * (P * N))) by (apply isH_mul_int; [exact HP | exact HN | nia]).
  set (num := (auc - pos * (pos + 1) / float_of_Z 2)%float) in *. set (den := (pos * neg)%float) in *.
  destruct Hnum as [Fnum Enum]. destruct Hden as [Fden Eden].
  pose proof (fdiv_fin_den _ _ Hfin Fden) as Hden0.
  destruct (fdiv_finite num den Fden Hden0 Hfin) as [_ Ea].
  assert (EdenR : FR den = IZR P * IZR N) by (rewrite Eden, !mult_IZR; lra).
  assert (EnumR : FR num = IZR zs / 2 - IZR P * (IZR P + 1) / IZR 2).
  { rewrite Enum, minus_IZR, mult_IZR, plus_IZR. lra. }
  eexists. split; [reflexivity|]. rewrite <- EnumR, <- EdenR.
  split.
  { intros x Hx. unfold RV in Hx. apply in_map_iff in Hx as (y & <- & Hy). rewrite Forall_forall in Hlab. apply (Hlab y Hy). }
  split; [exact Ea|]. rewrite Ea.
  (* the quotient is zero or at least 2^-53 in magnitude *)
  set (w := (zs - P * (P + 1))%Z) in *.
  assert (HPNpos : (0 < P * N)%Z).
  { assert (P * N <> 0)%Z by (intros Z; apply Hden0; rewrite Eden, Z; simpl; lra). nia. }
  destruct (Z.eq_dec w 0) as [Zw|NZw].
  - rewrite Enum, Zw. replace (0 / 2 / FR den) with 0 by (unfold Rdiv; ring). rewrite rnd64_0, Rminus_0_r, Rabs_R0. lra.
  - apply rnd64_err_normal.
    assert (Hq : FR num / FR den = IZR w / IZR (2 * (P * N))).
    { rewrite Enum, Eden. rewrite (mult_IZR 2). field. repeat split; try lra; apply not_0_IZR; lia. }
    rewrite Hq. unfold Rdiv. rewrite Rabs_mult.
    assert (1 <= Rabs (IZR w)) by (rewrite <- abs_IZR; apply IZR_le; lia).
    assert (Hd : 0 < IZR (2 * (P * N)) <= bpow radix2 53).
    { split; [apply IZR_lt; lia|]. change (bpow radix2 53) with (IZR (2 ^ 53)). apply IZR_le. nia. }
    rewrite Rabs_inv, (Rabs_pos_eq (IZR (2 * (P * N)))) by lra.
    apply Rle_trans with (bpow radix2 (-53)); [apply bpow_le; lia|].
    change (-53)%Z with (- (53))%Z. rewrite bpow_opp.
    assert (/ bpow radix2 53 <= / IZR (2 * (P * N))) by (apply Rinv_le_contravar; lra).
    assert (0 < / bpow radix2 53) by (apply Rinv_0_lt_compat, bpow_gt_0). nra.
Qed.

(* with the hypotheses of the rank-sum theorem (idx is a permutation that sorts the scores): the correctly
   rounded pairwise AUC *)
Lemma auc_float_pairwise yt scores idx a :
  auc_with FOps yt scores idx = Some a -> ffin a -> Forall ffin scores ->
  (Z.of_nat (length yt) * Z.of_nat (length yt) < 2 ^ 51)%Z ->
  Permutation.Permutation idx (seq 0 (length yt)) -> Sorted.Sorted Rle (map (at_ (RV scores)) idx) ->
  let A := C15.ProofsAUC.auc_pairwise (RV yt) (RV scores) in
  binary (RV yt) /\ auc_with ROps (RV yt) (RV scores) idx = Some A /\
  FR a = rnd64 A /\ Rabs (FR a - A) <= u64 * Rabs A.
Proof.
  intros H Hfin Hsc Hn Hperm Hsort A.
  destruct (auc_float_exact yt scores idx a H Hfin Hsc Hn) as (L1 & L2 & L3 & q & Hq & Hb & E & B).
  assert (HA : auc_with ROps (RV yt) (RV scores) idx = Some A).
  { apply C15.ProofsAUC.auc_rank_sum; try assumption.
    - rewrite !RV_length. exact L1.
    - intros Z. apply (f_equal (@length R)) in Z. rewrite RV_length in Z. cbn in Z. lia.
    - rewrite RV_length. exact Hperm. }
  rewrite HA in Hq. injection Hq as <-. repeat split; assumption.
Qed.

(* ---------------- the model's own sort: on finite scores it is the real-number sort ---------------- *)
Lemma fleb_FR x y : ffin x -> ffin y -> PrimFloat.leb x y = Rleb (FR x) (FR y).
Proof.
  intros Hx Hy. rewrite leb_equiv, (Bleb_correct prec emax) by (apply ffin_B; assumption).
  unfold FR. destruct (Rle_bool_spec (B2R (Prim2B x)) (B2R (Prim2B y))) as [E|E]; symmetry.
  - apply Rleb_true, E.
  - apply Rleb_false, E.
Qed.

Definition gR (p : PrimFloat.float * nat) : R * nat := (FR (fst p), snd p).
Definition finp (p : PrimFloat.float * nat) : Prop := ffin (fst p).

Lemma ins_by_F x l : finp x -> Forall finp l ->
  ins_by ROps (gR x) (map gR l) = map gR (ins_by FOps x l) /\ Forall finp (ins_by FOps x l).
Proof.
  intros Hx. induction 1 as [|y l Hy Hl IH]; cbn [map ins_by].
  - split; [reflexivity | repeat constructor; exact Hx].
  - cbn [FOps ROps oleb]. change (fst (gR x)) with (FR (fst x)). change (fst (gR y)) with (FR (fst y)).
    rewrite (fleb_FR _ _ Hx Hy).
    destruct (Rleb (FR (fst x)) (FR (fst y))).
    + split; [reflexivity | constructor; [exact Hx | constructor; assumption]].
    + destruct IH as [IH1 IH2]. cbn [map]. split; [rewrite IH1; reflexivity | constructor; assumption].
Qed.

Lemma argsort_F s : Forall ffin s -> argsort FOps s = argsort ROps (RV s).
Proof.
  intros Hs. unfold argsort. rewrite RV_length.
  assert (E : combine (RV s) (seq 0 (length s)) = map gR (combine s (seq 0 (length s)))).
  { generalize (seq 0 (length s)). clear Hs. induction s as [|a s IH]; intros [|k m]; cbn [RV map combine]; try reflexivity.
    unfold gR at 1. cbn [fst snd]. f_equal. apply IH. }
  rewrite E.
  assert (Hc : Forall finp (combine s (seq 0 (length s)))).
  { apply Forall_forall. intros [x k] Hin. unfold finp. cbn [fst]. rewrite Forall_forall in Hs. apply Hs.
    eapply in_combine_l. exact Hin. }
  assert (G : forall l, Forall finp l ->
              fold_right (ins_by ROps) [] (map gR l) = map gR (fold_right (ins_by FOps) [] l) /\
              Forall finp (fold_right (ins_by FOps) [] l)).
  { induction 1 as [|x l Hx Hl IH]; cbn [map fold_right]; [split; [reflexivity | constructor]|].
    destruct IH as [IH1 IH2]. rewrite IH1. apply ins_by_F; assumption. }
  specialize (G _ Hc).
  destruct G as [G _]. rewrite G, map_map. apply map_ext. intros [x k]. reflexivity.
Qed.

Lemma auc_float_model_sort yt scores a :
  auc FOps yt scores = Some a -> ffin a -> Forall ffin scores ->
  (Z.of_nat (length yt) * Z.of_nat (length yt) < 2 ^ 51)%Z ->
  let A := C15.ProofsAUC.auc_pairwise (RV yt) (RV scores) in
  binary (RV yt) /\ auc ROps (RV yt) (RV scores) = Some A /\
  FR a = rnd64 A /\ Rabs (FR a - A) <= u64 * Rabs A.
Proof.
  intros H Hfin Hsc Hn A. unfold auc in H. rewrite (argsort_F scores Hsc) in H.
  destruct (auc_float_exact yt scores _ a H Hfin Hsc Hn) as (L1 & L2 & L3 & q & Hq & Hb & E & B).
  fold (auc ROps (RV yt) (RV scores)) in Hq.
  assert (HA : auc ROps (RV yt) (RV scores) = Some A).
  { apply C15.ProofsAUC.auc_def; [rewrite !RV_length; exact L1 | | exact Hb].
    intros Z. apply (f_equal (@length R)) in Z. rewrite RV_length in Z. cbn in Z. lia. }
  rewrite HA in Hq. injection Hq as <-. repeat split; assumption.
Qed.
