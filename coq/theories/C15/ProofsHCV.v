(* C15 — homogeneity / completeness / V-measure: the model's scores as sums over label values,
   and from that: swap, invariance under injective renaming, value 1 at zero conditional entropy,
   range [0,1]. *)
From Coq Require Import List ZArith Reals Bool Arith Lia Lra Permutation Sorted.
From SC Require Import Base.Num C15.Model C15.ProofsBasic C15.ProofsCM.
Import ListNotations.
Local Open Scope R_scope.

(* ------------------------------------------------------------------ usort / index_of *)
Lemma insert_uniq_in z x l : In x (insert_uniq z l) <-> x = z \/ In x l.
Proof.
  induction l as [|y t IH]; cbn [insert_uniq].
  - cbn. intuition.
  - destruct (z <? y)%Z eqn:E1; [cbn; intuition|].
    destruct (z =? y)%Z eqn:E2.
    + apply Z.eqb_eq in E2. subst. cbn. intuition.
    + cbn [In]. rewrite IH. intuition.
Qed.

Lemma insert_uniq_sorted z l : StronglySorted Z.lt l -> StronglySorted Z.lt (insert_uniq z l).
Proof.
  induction l as [|y t IH]; intros H; cbn [insert_uniq].
  - constructor; constructor.
  - destruct (StronglySorted_inv H) as [Hs Hf].
    destruct (z <? y)%Z eqn:E1.
    + apply Z.ltb_lt in E1. constructor; [exact H|]. constructor; [exact E1|].
      eapply Forall_impl; [|exact Hf]. intros a Ha. cbn beta in Ha. lia.
    + destruct (z =? y)%Z eqn:E2; [exact H|].
      apply Z.ltb_ge in E1. apply Z.eqb_neq in E2.
      constructor; [apply IH; exact Hs|].
      apply Forall_forall. intros x Hx. apply insert_uniq_in in Hx. destruct Hx as [Hx|Hx].
      * subst. lia.
      * eapply Forall_forall in Hf; eauto.
Qed.

Lemma usort_in l x : In x (usort l) <-> In x l.
Proof.
  unfold usort. induction l as [|y t IH]; cbn [fold_right]; [tauto|].
  rewrite insert_uniq_in, IH. cbn. intuition.
Qed.
Lemma usort_sorted l : StronglySorted Z.lt (usort l).
Proof. unfold usort. induction l as [|y t IH]; cbn [fold_right]; [constructor | apply insert_uniq_sorted, IH]. Qed.
Lemma ssorted_nodup l : StronglySorted Z.lt l -> NoDup l.
Proof.
  induction l as [|y t IH]; intros H; [constructor|].
  destruct (StronglySorted_inv H) as [Hs Hf]. constructor; [|apply IH; exact Hs].
  intros Hin. eapply Forall_forall in Hf; eauto. lia.
Qed.
Lemma usort_nodup l : NoDup (usort l).
Proof. apply ssorted_nodup, usort_sorted. Qed.

Lemma nth_index_of u z : In z u -> nth (index_of z u) u 0%Z = z /\ (index_of z u < length u)%nat.
Proof.
  induction u as [|x t IH]; intros H; [destruct H|]. cbn [index_of].
  destruct (z =? x)%Z eqn:E.
  - apply Z.eqb_eq in E. subst. cbn. split; [reflexivity | lia].
  - apply Z.eqb_neq in E. destruct H as [H|H]; [congruence|].
    destruct (IH H) as [A B]. cbn [nth length]. split; [exact A | lia].
Qed.
Lemma index_of_nth u r : NoDup u -> (r < length u)%nat -> index_of (nth r u 0%Z) u = r.
Proof.
  revert r. induction u as [|x t IH]; intros r Hn Hr; [cbn in Hr; lia|].
  inversion Hn as [|? ? Hx Ht]; subst. destruct r as [|r]; cbn [nth index_of].
  - rewrite Z.eqb_refl. reflexivity.
  - cbn [length] in Hr. assert (Hin : In (nth r t 0%Z) t) by (apply nth_In; lia).
    destruct (nth r t 0 =? x)%Z eqn:E.
    + apply Z.eqb_eq in E. rewrite E in Hin. contradiction.
    + f_equal. apply IH; [exact Ht | lia].
Qed.
Lemma index_of_eqb u z r : NoDup u -> In z u -> (r < length u)%nat ->
  Nat.eqb (index_of z u) r = (z =? nth r u 0)%Z.
Proof.
  intros Hn Hz Hr. destruct (nth_index_of u z Hz) as [A B].
  destruct (Nat.eqb (index_of z u) r) eqn:E1; symmetry.
  - apply Nat.eqb_eq in E1. subst r. apply Z.eqb_eq. symmetry. exact A.
  - apply Nat.eqb_neq in E1. apply Z.eqb_neq. intros Hz'. apply E1. subst z. apply index_of_nth; assumption.
Qed.

(* ------------------------------------------------------------------ counts over the paired labels *)
Definition cntA (l : list (Z * Z)) (u : Z) : nat := countb (fun p => (fst p =? u)%Z) l.
Definition cntB (l : list (Z * Z)) (w : Z) : nat := countb (fun p => (snd p =? w)%Z) l.
Definition cnt2 (l : list (Z * Z)) (u w : Z) : nat := countb (fun p => (fst p =? u)%Z && (snd p =? w)%Z) l.

Lemma combine_map {A B C D} (f : A -> C) (g : B -> D) : forall (a : list A) (b : list B),
  combine (map f a) (map g b) = map (fun p => (f (fst p), g (snd p))) (combine a b).
Proof.
  induction a as [|x t IH]; intros [|y u]; cbn [map combine]; try reflexivity.
  rewrite IH. reflexivity.
Qed.

Lemma map_nth_seq {A B} (F : A -> B) (d : A) (l : list A) :
  map (fun r => F (nth r l d)) (seq 0 (length l)) = map F l.
Proof.
  transitivity (map F (map (fun r => nth r l d) (seq 0 (length l)))).
  - rewrite map_map. reflexivity.
  - rewrite <- list_as_map_seq. reflexivity.
Qed.

Lemma in_combine_both {A B} (a : list A) (b : list B) p : In p (combine a b) -> In (fst p) a /\ In (snd p) b.
Proof. destruct p as [x y]. intros H. split; [eapply in_combine_l | eapply in_combine_r]; eauto. Qed.

Lemma contingency_value_form a b : length a = length b ->
  contingency_matrix a b
  = Some (map (fun u => map (fun w => cnt2 (combine a b) u w) (usort b)) (usort a)).
Proof.
  intros Hl. rewrite contingency_matrix_closed. rewrite Hl, Nat.ltb_irrefl.
  f_equal.
  rewrite <- (map_nth_seq (fun u => map (fun w => cnt2 (combine a b) u w) (usort b)) 0%Z (usort a)).
  apply map_ext_in. intros r Hr. apply in_seq in Hr.
  rewrite <- (map_nth_seq (fun w => cnt2 (combine a b) (nth r (usort a) 0%Z) w) 0%Z (usort b)).
  apply map_ext_in. intros c Hc. apply in_seq in Hc.
  unfold count_pair, cnt2. rewrite combine_map, countb_map. cbn [fst snd].
  apply countb_ext. intros p Hp. apply in_combine_both in Hp. destruct Hp as [Ha Hb].
  rewrite (index_of_eqb (usort a)); [|apply usort_nodup | apply usort_in; exact Ha | lia].
  rewrite (index_of_eqb (usort b)); [|apply usort_nodup | apply usort_in; exact Hb | lia].
  reflexivity.
Qed.

(* ------------------------------------------------------------------ mutual information as a double sum *)
Definition clamp0 (x : R) : R := if Rleb 0 x then x else 0.
(* one cell: v members, outer = (row sum) * (column sum), N = N' = total *)
Definition mi_cell (v o N N' : nat) : R :=
  if Nat.ltb 0 v then
    INR v / INR N * (ln (INR v) - ln (INR N)) + INR v / INR N * (- ln (INR o) + ln (INR N) + ln (INR N'))
  else 0.

Lemma combine_map_same {A B C} (g : A -> B) (h : A -> C) l :
  combine (map g l) (map h l) = map (fun x => (g x, h x)) l.
Proof. induction l as [|x t IH]; cbn [map combine]; [reflexivity | rewrite IH; reflexivity]. Qed.
Lemma flat_map_map' {A B C} (h : A -> B) (g : B -> list C) l : flat_map g (map h l) = flat_map (fun x => g (h x)) l.
Proof. induction l as [|x t IH]; cbn [map flat_map]; [reflexivity | rewrite IH; reflexivity]. Qed.
Lemma rsum_flat_map {A B} (t : B -> R) (F : A -> list B) l :
  rsum (map t (flat_map F l)) = rsum (map (fun x => rsum (map t (F x))) l).
Proof. induction l as [|x u IH]; cbn [flat_map map rsum]; [reflexivity|]. rewrite map_app, rsum_app, IH. reflexivity. Qed.

Section MIform.
  Variable f : Z -> Z -> nat.
  Variables la lb : list Z.
  Definition rowsum (u : Z) : nat := nsum (map (f u) lb).
  Definition colsum (w : Z) : nat := nsum (map (fun u => f u w) la).
  Definition tot_r : nat := nsum (map rowsum la).
  Definition tot_c : nat := nsum (map colsum lb).

  Lemma mi_value_form : la <> [] ->
    mutual_info_score ROps (map (fun u => map (f u) lb) la)
    = Some (clamp0 (rsum (map (fun u => rsum (map (fun w =>
               mi_cell (f u w) (rowsum u * colsum w) tot_r tot_c) lb)) la))).
  Proof.
    intros Hne. destruct la as [|u0 la'] eqn:Ela; [contradiction|]. rewrite <- Ela. clear Hne.
    unfold mutual_info_score.
    assert (EM : map (fun u => map (f u) lb) la = map (f u0) lb :: map (fun u => map (f u) lb) la')
      by (rewrite Ela; reflexivity).
    rewrite EM. rewrite <- EM. rewrite map_length.
    (* pi *)
    assert (Epi : map (fun row => nsum (firstn (length lb) row)) (map (fun u => map (f u) lb) la) = map rowsum la).
    { rewrite map_map. apply map_ext. intros u. unfold rowsum. f_equal.
      apply firstn_all2. rewrite map_length. lia. }
    rewrite Epi.
    (* pj *)
    assert (Epj : map (fun c => nsum (map (fun row => nth c row 0%nat) (map (fun u => map (f u) lb) la))) (seq 0 (length lb))
                  = map colsum lb).
    { rewrite <- (map_nth_seq colsum 0%Z lb). apply map_ext_in. intros c Hc. apply in_seq in Hc.
      unfold colsum. f_equal. rewrite map_map. apply map_ext. intros u.
      rewrite (nth_indep _ 0%nat (f u 0%Z)) by (rewrite map_length; lia). apply map_nth. }
    rewrite Epj.
    (* nz entries *)
    assert (Enz : nz_entries (map (fun u => map (f u) lb) la) (map rowsum la) (map colsum lb)
                  = flat_map (fun u => flat_map (fun w => if Nat.ltb 0 (f u w) then [(f u w, (rowsum u * colsum w)%nat)] else []) lb) la).
    { unfold nz_entries. rewrite combine_map_same, flat_map_map'. apply flat_map_ext. intros u. cbn [fst snd].
      rewrite combine_map_same, flat_map_map'. reflexivity. }
    rewrite Enz. fold tot_r tot_c.
    f_equal. cbn [oleb o0 ROps]. unfold clamp0.
    set (term := fun vo : nat * nat =>
       ofn ROps (fst vo) / INR tot_r * (ln (ofn ROps (fst vo)) - ln (INR tot_r))
       + ofn ROps (fst vo) / INR tot_r * (- ln (ofn ROps (snd vo)) + ln (INR tot_r) + ln (INR tot_c))).
    assert (Efold : forall l, fold_left (mi_term ROps (ofn ROps tot_r) (oln ROps (ofn ROps tot_r)) (oln ROps (ofn ROps tot_r)) (oln ROps (ofn ROps tot_c))) l 0
                    = rsum (map term l)).
    { intros l. rewrite <- (Rplus_0_l (rsum (map term l))). rewrite <- fold_left_Rplus_acc.
      unfold mi_term, term. rewrite !ofn_R. cbn [oadd osub omul odiv oneg oln ROps].
      reflexivity. }
    rewrite Efold. rewrite rsum_flat_map.
    assert (Esum : rsum (map (fun u => rsum (map term (flat_map (fun w => if Nat.ltb 0 (f u w) then [(f u w, (rowsum u * colsum w)%nat)] else []) lb))) la)
                   = rsum (map (fun u => rsum (map (fun w => mi_cell (f u w) (rowsum u * colsum w) tot_r tot_c) lb)) la)).
    { apply rsum_ext. intros u _. rewrite rsum_flat_map. apply rsum_ext. intros w _.
      unfold mi_cell. destruct (Nat.ltb 0 (f u w)); cbn [map rsum]; [unfold term; cbn [fst snd]; rewrite !ofn_R; lra | reflexivity]. }
    rewrite Esum. reflexivity.
  Qed.
End MIform.

(* ------------------------------------------------------------------ marginal sums of the counts *)
Lemma nsum_map_plus {A} (g h : A -> nat) l : nsum (map (fun x => (g x + h x)%nat) l) = (nsum (map g l) + nsum (map h l))%nat.
Proof. induction l as [|x t IH]; cbn [map nsum fold_right]; [reflexivity|]. unfold nsum in *. cbn [fold_right]. rewrite IH. lia. Qed.
Lemma nsum_map_zero {A} (l : list A) : nsum (map (fun _ => 0%nat) l) = 0%nat.
Proof. induction l as [|x t IH]; [reflexivity|]. unfold nsum in *. cbn [map fold_right]. rewrite IH. reflexivity. Qed.
Lemma nsum_cons x l : nsum (x :: l) = (x + nsum l)%nat.
Proof. reflexivity. Qed.

Lemma nsum_indicator z lk : NoDup lk ->
  nsum (map (fun k => if (z =? k)%Z then 1%nat else 0%nat) lk) = if in_dec Z.eq_dec z lk then 1%nat else 0%nat.
Proof.
  induction lk as [|k t IH]; intros Hn; [reflexivity|].
  inversion Hn as [|? ? Hk Ht]; subst. cbn [map]. rewrite nsum_cons, (IH Ht).
  destruct (z =? k)%Z eqn:E.
  - apply Z.eqb_eq in E. subst k.
    destruct (in_dec Z.eq_dec z t); [contradiction|].
    destruct (in_dec Z.eq_dec z (z :: t)) as [_|n']; [reflexivity | exfalso; apply n'; left; reflexivity].
  - apply Z.eqb_neq in E.
    destruct (in_dec Z.eq_dec z t) as [i|n0]; destruct (in_dec Z.eq_dec z (k :: t)) as [i'|n'].
    + reflexivity.
    + exfalso. apply n'. right. exact i.
    + destruct i' as [i'|i']; [congruence | contradiction].
    + reflexivity.
Qed.

Lemma countb_cons {A} (p : A -> bool) x l : countb p (x :: l) = ((if p x then 1 else 0) + countb p l)%nat.
Proof. unfold countb. cbn [filter]. destruct (p x); reflexivity. Qed.

Lemma nsum_count_key {P} (key : P -> Z) (q : P -> bool) (l : list P) (lk : list Z) :
  NoDup lk -> (forall p, In p l -> In (key p) lk) ->
  nsum (map (fun k => countb (fun p => q p && (key p =? k)%Z) l) lk) = countb q l.
Proof.
  intros Hn. induction l as [|p t IH]; intros Hc.
  - unfold countb. cbn [filter length]. apply nsum_map_zero.
  - rewrite countb_cons.
    rewrite (map_ext _ (fun k => ((if q p && (key p =? k)%Z then 1 else 0) + countb (fun p0 => q p0 && (key p0 =? k)%Z) t)%nat))
      by (intros k; apply (countb_cons (fun p0 => q p0 && (key p0 =? k)%Z) p t)).
    rewrite nsum_map_plus. rewrite IH by (intros p0 H0; apply Hc; right; exact H0). f_equal.
    destruct (q p); cbn [andb]; [|apply nsum_map_zero].
    rewrite (nsum_indicator (key p) lk Hn).
    destruct (in_dec Z.eq_dec (key p) lk) as [_|n0]; [reflexivity|]. exfalso. apply n0, Hc. left. reflexivity.
Qed.

Lemma countb_true {A} (l : list A) : countb (fun _ => true) l = length l.
Proof. unfold countb. induction l as [|x t IH]; cbn [filter length]; [reflexivity | rewrite IH; reflexivity]. Qed.

Section PairCounts.
  Variable l : list (Z * Z).
  Variables la lb : list Z.
  Hypothesis Hna : NoDup la.
  Hypothesis Hnb : NoDup lb.
  Hypothesis Hca : forall p, In p l -> In (fst p) la.
  Hypothesis Hcb : forall p, In p l -> In (snd p) lb.

  Lemma sum_cnt2_w u : nsum (map (fun w => cnt2 l u w) lb) = cntA l u.
  Proof. unfold cnt2, cntA. apply (nsum_count_key snd (fun p => (fst p =? u)%Z) l lb Hnb Hcb). Qed.
  Lemma sum_cnt2_u w : nsum (map (fun u => cnt2 l u w) la) = cntB l w.
  Proof.
    unfold cnt2, cntB. rewrite <- (nsum_count_key fst (fun p => (snd p =? w)%Z) l la Hna Hca).
    f_equal. apply map_ext. intros u. apply countb_ext. intros p _. apply andb_comm.
  Qed.
  Lemma sum_cntA : nsum (map (cntA l) la) = length l.
  Proof.
    unfold cntA. rewrite <- (countb_true l). rewrite <- (nsum_count_key fst (fun _ => true) l la Hna Hca).
    f_equal.
  Qed.
  Lemma sum_cntB : nsum (map (cntB l) lb) = length l.
  Proof.
    unfold cntB. rewrite <- (countb_true l). rewrite <- (nsum_count_key snd (fun _ => true) l lb Hnb Hcb).
    f_equal.
  Qed.
End PairCounts.

(* counts of a single labelling *)
Definition na (a : list Z) (u : Z) : nat := count_occ Z.eq_dec a u.
Definition nab (a b : list Z) (u w : Z) : nat := cnt2 (combine a b) u w.

Lemma na_countb a u : na a u = countb (fun x => (x =? u)%Z) a.
Proof.
  unfold na. induction a as [|x t IH]; [reflexivity|]. rewrite countb_cons. cbn [count_occ].
  destruct (Z.eq_dec x u) as [E|E].
  - subst. rewrite Z.eqb_refl, IH. reflexivity.
  - apply Z.eqb_neq in E. rewrite E, IH. reflexivity.
Qed.
Lemma cntA_combine : forall a b u, length a = length b -> cntA (combine a b) u = na a u.
Proof.
  intros a b u H. rewrite na_countb. unfold cntA.
  revert b H. induction a as [|x t IH]; intros [|y s] H; try discriminate; [reflexivity|].
  cbn [combine]. rewrite !countb_cons. cbn [fst]. rewrite (IH s) by (injection H; auto). reflexivity.
Qed.
Lemma cntB_combine : forall a b w, length a = length b -> cntB (combine a b) w = na b w.
Proof.
  intros a b w H. rewrite na_countb. unfold cntB.
  revert b H. induction a as [|x t IH]; intros [|y s] H; try discriminate; [reflexivity|].
  cbn [combine]. rewrite !countb_cons. cbn [snd]. rewrite (IH s) by (injection H; auto). reflexivity.
Qed.
Lemma sum_na a : nsum (map (na a) (usort a)) = length a.
Proof.
  rewrite (map_ext _ (fun u => countb (fun x => true && (x =? u)%Z) a)) by (intros u; rewrite na_countb; reflexivity).
  rewrite (nsum_count_key (fun x => x) (fun _ => true) a (usort a) (usort_nodup a)).
  - apply countb_true.
  - intros p Hp. apply usort_in. exact Hp.
Qed.

(* ------------------------------------------------------------------ entropy as a sum *)
Definition Hlab (a : list Z) : R :=
  - rsum (map (fun u => INR (na a u) / INR (length a) * (ln (INR (na a u)) - ln (INR (length a)))) (usort a)).

Lemma fold_left_cond_minus (t : nat -> R) l : forall acc,
  fold_left (fun e c => if Nat.ltb 0 c then e - t c else e) l acc
  = acc - rsum (map (fun c => if Nat.ltb 0 c then t c else 0) l).
Proof.
  induction l as [|c u IH]; intros acc; cbn [fold_left map rsum]; [lra|].
  rewrite IH. destruct (Nat.ltb 0 c); lra.
Qed.

Lemma entropy_value_form a :
  entropy ROps a = if Reqb (Hlab a) 0 then None else Some (Hlab a).
Proof.
  unfold entropy, entropy_of_counts, bincounts. change (count_occ Z.eq_dec a) with (na a). rewrite sum_na.
  cbn [o0 oeqb osub omul odiv oln ROps].
  set (t := fun c : nat => ofn ROps c / ofn ROps (length a) * (ln (ofn ROps c) - ln (ofn ROps (length a)))).
  rewrite (fold_left_cond_minus t).
  assert (E : 0 - rsum (map (fun c => if Nat.ltb 0 c then t c else 0) (map (na a) (usort a))) = Hlab a).
  { unfold Hlab. rewrite map_map.
    replace (rsum (map (fun x => if Nat.ltb 0 (na a x) then t (na a x) else 0) (usort a)))
      with (rsum (map (fun u => INR (na a u) / INR (length a) * (ln (INR (na a u)) - ln (INR (length a)))) (usort a))); [lra|].
    apply rsum_ext. intros u _. unfold t. rewrite !ofn_R.
    destruct (Nat.ltb 0 (na a u)) eqn:E0; [reflexivity|].
    apply Nat.ltb_ge in E0. assert (na a u = 0%nat) by lia. rewrite H. cbn [INR]. lra. }
  rewrite E. reflexivity.
Qed.

(* ------------------------------------------------------------------ the three scores in value form *)
Definition MIraw (a b : list Z) : R :=
  rsum (map (fun u => rsum (map (fun w =>
      mi_cell (nab a b u w) (na a u * na b w) (length a) (length a)) (usort b))) (usort a)).

Definition hcv_of (mi ha hb : R) : R * R * R :=
  let h := if Reqb ha 0 then 1 else mi / ha in
  let c := if Reqb hb 0 then 1 else mi / hb in
  let v := if Reqb (h + c) 0 then 0 else 2 * h * c / (1 * h + c) in
  (h, c, v).

Lemma usort_nonempty a : a <> [] -> usort a <> [].
Proof.
  destruct a as [|x t]; [contradiction|]. intros _ H.
  assert (In x (usort (x :: t))) by (apply usort_in; left; reflexivity). rewrite H in H0. destruct H0.
Qed.

Lemma cover_a (a b : list Z) (p : Z * Z) : In p (combine a b) -> In (fst p) (usort a).
Proof. intros H. apply usort_in. apply in_combine_both in H. tauto. Qed.
Lemma cover_b (a b : list Z) (p : Z * Z) : In p (combine a b) -> In (snd p) (usort b).
Proof. intros H. apply usort_in. apply in_combine_both in H. tauto. Qed.

Lemma rowsum_nab a b u : length a = length b -> rowsum (nab a b) (usort b) u = na a u.
Proof.
  intros H. unfold rowsum, nab.
  rewrite (sum_cnt2_w (combine a b) (usort b) (usort_nodup b) (cover_b a b)). apply cntA_combine, H.
Qed.
Lemma colsum_nab a b w : length a = length b -> colsum (nab a b) (usort a) w = na b w.
Proof.
  intros H. unfold colsum, nab.
  rewrite (sum_cnt2_u (combine a b) (usort a) (usort_nodup a) (cover_a a b)). apply cntB_combine, H.
Qed.

Lemma hcv_value_form a b : length a = length b -> a <> [] ->
  hcv ROps a b = Some (hcv_of (clamp0 (MIraw a b)) (Hlab a) (Hlab b)).
Proof.
  intros Hl Hne. unfold hcv. rewrite (contingency_value_form a b Hl).
  change (fun u => map (fun w => cnt2 (combine a b) u w) (usort b)) with (fun u => map (nab a b u) (usort b)).
  rewrite (mi_value_form (nab a b) (usort a) (usort b) (usort_nonempty a Hne)).
  assert (Er : tot_r (nab a b) (usort a) (usort b) = length a).
  { unfold tot_r. rewrite (map_ext _ (na a)) by (intros u; apply rowsum_nab, Hl). apply sum_na. }
  assert (Ec : tot_c (nab a b) (usort a) (usort b) = length a).
  { unfold tot_c. rewrite (map_ext _ (na b)) by (intros w; apply colsum_nab, Hl). rewrite sum_na. auto. }
  rewrite Er, Ec.
  assert (Emi : rsum (map (fun u => rsum (map (fun w =>
                  mi_cell (nab a b u w) (rowsum (nab a b) (usort b) u * colsum (nab a b) (usort a) w) (length a) (length a)) (usort b))) (usort a))
                = MIraw a b).
  { unfold MIraw. apply rsum_ext. intros u _. apply rsum_ext. intros w _.
    rewrite rowsum_nab, colsum_nab by exact Hl. reflexivity. }
  rewrite Emi. rewrite !entropy_value_form.
  unfold hcv_of. cbn [o0 o1 oeqb oadd omul odiv ROps]. rewrite two_R.
  destruct (Reqb (Hlab a) 0); destruct (Reqb (Hlab b) 0); reflexivity.
Qed.

(* ------------------------------------------------------------------ swap *)
Lemma combine_swap {A B} : forall (a : list A) (b : list B),
  combine b a = map (fun p => (snd p, fst p)) (combine a b).
Proof.
  induction a as [|x t IH]; intros [|y u]; cbn [combine map]; try reflexivity.
  cbn [fst snd]. rewrite IH. reflexivity.
Qed.
Lemma nab_swap a b u w : nab b a w u = nab a b u w.
Proof.
  unfold nab, cnt2. rewrite (combine_swap a b), countb_map. cbn [fst snd].
  apply countb_ext. intros p _. apply andb_comm.
Qed.
Lemma MIraw_swap a b : length a = length b -> MIraw b a = MIraw a b.
Proof.
  intros H. unfold MIraw. rewrite rsum_swap. apply rsum_ext. intros u _. apply rsum_ext. intros w _.
  rewrite nab_swap, <- H, (Nat.mul_comm (na b w)). reflexivity.
Qed.

Lemma hcv_of_swap mi ha hb :
  hcv_of mi hb ha = (let '(h, c, v) := hcv_of mi ha hb in (c, h, v)).
Proof.
  unfold hcv_of.
  set (h := if Reqb ha 0 then 1 else mi / ha). set (c := if Reqb hb 0 then 1 else mi / hb).
  rewrite (Rplus_comm c h). destruct (Reqb (h + c) 0); [reflexivity|].
  f_equal. unfold Rdiv. replace (1 * c + h) with (1 * h + c) by ring. ring.
Qed.

Lemma hcv_swap_lemma a b h c v : length a = length b ->
  hcv ROps a b = Some (h, c, v) -> hcv ROps b a = Some (c, h, v).
Proof.
  intros Hl H. destruct a as [|x t] eqn:Ea.
  - destruct b; [cbn in H; discriminate | discriminate].
  - rewrite <- Ea in *. assert (Hne : a <> []) by (rewrite Ea; discriminate).
    assert (Hne' : b <> []) by (destruct b; [rewrite Ea in Hl; discriminate | discriminate]).
    rewrite (hcv_value_form a b Hl Hne) in H. rewrite (hcv_value_form b a (eq_sym Hl) Hne').
    rewrite (MIraw_swap a b Hl), hcv_of_swap.
    assert (E : hcv_of (clamp0 (MIraw a b)) (Hlab a) (Hlab b) = (h, c, v)) by congruence.
    rewrite E. reflexivity.
Qed.

(* ------------------------------------------------------------------ injective renaming *)
Definition injective (f : Z -> Z) : Prop := forall x y, f x = f y -> x = y.

Lemma inj_eqb f x y : injective f -> (f x =? f y)%Z = (x =? y)%Z.
Proof.
  intros Hf. destruct (x =? y)%Z eqn:E.
  - apply Z.eqb_eq in E. subst. apply Z.eqb_refl.
  - apply Z.eqb_neq in E. apply Z.eqb_neq. intros H. apply E, Hf, H.
Qed.
Lemma NoDup_map_inj f l : injective f -> NoDup l -> NoDup (map f l).
Proof.
  intros Hf. induction 1 as [|x t Hx Ht IH]; cbn [map]; constructor; [|exact IH].
  intros Hin. apply in_map_iff in Hin. destruct Hin as [y [Hy Hin]]. apply Hf in Hy. subst. contradiction.
Qed.
Lemma usort_map_perm f a : injective f -> Permutation (usort (map f a)) (map f (usort a)).
Proof.
  intros Hf. apply NoDup_Permutation.
  - apply usort_nodup.
  - apply NoDup_map_inj; [exact Hf | apply usort_nodup].
  - intros x. rewrite usort_in, !in_map_iff. split; intros [y [Hy Hin]]; exists y; split; auto; apply usort_in; auto.
Qed.
Lemma na_map f a u : injective f -> na (map f a) (f u) = na a u.
Proof.
  intros Hf. rewrite !na_countb, countb_map. apply countb_ext. intros x _. apply inj_eqb, Hf.
Qed.
Lemma nab_map f g a b u w : injective f -> injective g -> nab (map f a) (map g b) (f u) (g w) = nab a b u w.
Proof.
  intros Hf Hg. unfold nab, cnt2. rewrite combine_map, countb_map. cbn [fst snd].
  apply countb_ext. intros p _. rewrite (inj_eqb f), (inj_eqb g); auto.
Qed.
Lemma rsum_usort_map f a (F : Z -> R) : injective f ->
  rsum (map F (usort (map f a))) = rsum (map (fun u => F (f u)) (usort a)).
Proof.
  intros Hf. rewrite (rsum_perm _ _ (Permutation_map F (usort_map_perm f a Hf))). rewrite map_map. reflexivity.
Qed.
Lemma MIraw_map f g a b : injective f -> injective g -> MIraw (map f a) (map g b) = MIraw a b.
Proof.
  intros Hf Hg. unfold MIraw. rewrite (rsum_usort_map f a _ Hf). apply rsum_ext. intros u _.
  rewrite (rsum_usort_map g b _ Hg). apply rsum_ext. intros w _.
  rewrite nab_map, !na_map, map_length by assumption. reflexivity.
Qed.
Lemma Hlab_map f a : injective f -> Hlab (map f a) = Hlab a.
Proof.
  intros Hf. unfold Hlab. rewrite (rsum_usort_map f a _ Hf). f_equal. apply rsum_ext. intros u _.
  rewrite na_map, map_length by assumption. reflexivity.
Qed.
Lemma hcv_relabel_lemma f g a b : length a = length b -> injective f -> injective g ->
  hcv ROps (map f a) (map g b) = hcv ROps a b.
Proof.
  intros Hl Hf Hg. destruct a as [|x t] eqn:Ea.
  - destruct b; [reflexivity | discriminate].
  - rewrite <- Ea in *. assert (Hne : a <> []) by (rewrite Ea; discriminate).
    rewrite (hcv_value_form a b Hl Hne).
    rewrite (hcv_value_form (map f a) (map g b)).
    + rewrite MIraw_map, !Hlab_map by assumption. reflexivity.
    + rewrite !map_length. exact Hl.
    + rewrite Ea. discriminate.
Qed.
