(* C10 — SVC: dual feasibility for every schedule, support vectors are training rows, decision
   function = kernel expansion, label rule.  Real-number instance (ROps) of SC.C10.Model. *)
From Coq Require Import List ZArith Reals Lra Lia Bool Arith.
From SC Require Import Base.Num C10.Model.
Import ListNotations.
Local Open Scope R_scope.

Ltac rops := cbn [oadd osub omul odiv oneg oabs oltb oleb oeqb o0 o1 oexp oln oofZ ROps] in *.

(* no boolean comparison inside the term (so that the innermost test is split first) *)
Ltac no_test t :=
  lazymatch t with
  | context [Rltb] => fail
  | context [Rleb] => fail
  | context [Reqb] => fail
  | _ => idtac
  end.

Ltac rb_goal :=
  match goal with
  | |- context [Rltb ?a ?b] =>
      no_test a; no_test b;
      let H := fresh "Hb" in destruct (Rltb a b) eqn:H; [apply Rltb_true in H | apply Rltb_false in H]
  | |- context [Rleb ?a ?b] =>
      no_test a; no_test b;
      let H := fresh "Hb" in destruct (Rleb a b) eqn:H; [apply Rleb_true in H | apply Rleb_false in H]
  | |- context [Reqb ?a ?b] =>
      no_test a; no_test b;
      let H := fresh "Hb" in destruct (Reqb a b) eqn:H; [apply Reqb_true in H | apply Reqb_false in H]
  end.

(* ---------------------------------------------------------------------------------------------- *)
(* lists: modify, sums                                                                            *)
(* ---------------------------------------------------------------------------------------------- *)
Lemma modify_length {A} i (f : A -> A) l : length (modify i f l) = length l.
Proof. revert i; induction l as [|a l IH]; intros [|i]; cbn; auto. Qed.

Lemma nth_error_modify_eq {A} i (f : A -> A) l :
  nth_error (modify i f l) i = option_map f (nth_error l i).
Proof. revert i; induction l as [|a l IH]; intros [|i]; cbn; auto. Qed.

Lemma nth_error_modify_neq {A} i j (f : A -> A) l : i <> j ->
  nth_error (modify i f l) j = nth_error l j.
Proof.
  revert i j; induction l as [|a l IH]; intros [|i] [|j] H; cbn; auto; try congruence.
Qed.

Lemma Forall_modify {A} (P : A -> Prop) i f l a :
  nth_error l i = Some a -> P (f a) -> Forall P l -> Forall P (modify i f l).
Proof.
  revert i; induction l as [|b l IH]; intros [|i] Hn Hp Hf; cbn in *; try discriminate.
  - inversion Hn; subst. inversion Hf; subst. constructor; auto.
  - inversion Hf; subst. constructor; eauto.
Qed.

Section Sums.
  Context {A : Type} (h : A -> R).
  Fixpoint rsum (l : list A) : R := match l with [] => 0 | a :: l' => h a + rsum l' end.

  Lemma rsum_modify i f l a :
    nth_error l i = Some a -> rsum (modify i f l) = rsum l - h a + h (f a).
  Proof.
    revert i; induction l as [|b l IH]; intros [|i] Hn; cbn in *; try discriminate.
    - inversion Hn; subst. lra.
    - rewrite (IH _ Hn). lra.
  Qed.

  Lemma rsum_app l1 l2 : rsum (l1 ++ l2) = rsum l1 + rsum l2.
  Proof. induction l1; cbn; lra. Qed.

  Lemma rsum_filter_zero (p : A -> bool) l :
    (forall a, In a l -> p a = false -> h a = 0) -> rsum (filter p l) = rsum l.
  Proof.
    induction l as [|a l IH]; intros H; cbn; auto.
    assert (H' : forall a0, In a0 l -> p a0 = false -> h a0 = 0) by (intros; apply H; cbn; auto).
    destruct (p a) eqn:E; cbn.
    - rewrite (IH H'). reflexivity.
    - rewrite (IH H'), (H a (or_introl eq_refl) E). lra.
  Qed.
End Sums.

Lemma rsum_ext {A} (h1 h2 : A -> R) l : (forall a, In a l -> h1 a = h2 a) -> rsum h1 l = rsum h2 l.
Proof.
  induction l as [|a l IH]; cbn; intros H; auto.
  rewrite (H a (or_introl eq_refl)), IH; [reflexivity|]. intros b Hb. apply H. right. exact Hb.
Qed.

Lemma rsum_map {A B} (h : B -> R) (g : A -> B) l : rsum h (map g l) = rsum (fun a => h (g a)) l.
Proof. induction l; cbn; auto. rewrite IHl; auto. Qed.

(* ---------------------------------------------------------------------------------------------- *)
(* the clipped step                                                                               *)
(* ---------------------------------------------------------------------------------------------- *)
(* for every raw step the clipped step keeps both coefficients inside their boxes *)
Lemma smo_clip_feasible a1 lo1 hi1 a2 lo2 hi2 raw :
  lo1 <= a1 <= hi1 -> lo2 <= a2 <= hi2 ->
  let s := smo_clip ROps a1 lo1 hi1 a2 lo2 hi2 raw in
  lo1 <= a1 - s <= hi1 /\ lo2 <= a2 + s <= hi2.
Proof.
  intros H1 H2. unfold smo_clip. rops. repeat rb_goal; cbn; lra.
Qed.

(* the clipped step never exceeds the raw step in magnitude and keeps its direction *)
Lemma smo_clip_between a1 lo1 hi1 a2 lo2 hi2 raw :
  lo1 <= a1 <= hi1 -> lo2 <= a2 <= hi2 ->
  let s := smo_clip ROps a1 lo1 hi1 a2 lo2 hi2 raw in
  (0 <= raw -> 0 <= s <= raw) /\ (raw < 0 -> raw <= s <= 0).
Proof.
  intros H1 H2. unfold smo_clip. rops. repeat rb_goal; cbn; lra.
Qed.

(* ---------------------------------------------------------------------------------------------- *)
(* the invariant                                                                                  *)
(* ---------------------------------------------------------------------------------------------- *)
Section Inv.
  Variable K : list R -> list R -> R.
  Variables tau big nbig c tol : R.
  Variable xs : list (list R).
  Variable ys : list R.
  Hypothesis c_nonneg : 0 <= c.

  Notation svR := (sv (T:=R)).
  Notation stR := (svc_st (T:=R)).

  (* the vector is training row `index`, and its box is the one of that row's class *)
  Definition sv_ok (v : svR) : Prop :=
    v.(sv_cmin) <= v.(sv_alpha) <= v.(sv_cmax) /\
    nth_error xs v.(sv_index) = Some v.(sv_x) /\
    exists y, nth_error ys v.(sv_index) = Some y /\
              ((0 < y /\ v.(sv_cmin) = 0 /\ v.(sv_cmax) = c) \/ (y <= 0 /\ v.(sv_cmin) = - c /\ v.(sv_cmax) = 0)).

  Definition svc_inv (l : list svR) : Prop := Forall sv_ok l /\ rsum (sv_alpha (T:=R)) l = 0.

  Lemma sv_ok_alpha v a :
    sv_ok v -> v.(sv_cmin) <= a <= v.(sv_cmax) -> sv_ok (set_alpha v a).
  Proof. intros (H1 & H2 & H3) Ha. unfold sv_ok, set_alpha; cbn. auto. Qed.

  Lemma sv_ok_grad v g : sv_ok v -> sv_ok (set_grad v g).
  Proof. intros (H1 & H2 & H3). unfold sv_ok, set_grad; cbn. auto. Qed.

  (* svc_step_feasible: for EVERY pair of positions and EVERY raw step, the clipped update keeps
     every coefficient in its box and keeps the sum *)
  Lemma update_alpha_inv l v1 v2 s1 s2 raw :
    svc_inv l -> nth_error l v1 = Some s1 -> nth_error l v2 = Some s2 ->
    let step := smo_clip ROps s1.(sv_alpha) s1.(sv_cmin) s1.(sv_cmax) s2.(sv_alpha) s2.(sv_cmin) s2.(sv_cmax) raw in
    svc_inv (update_alpha ROps v1 v2 step l).
  Proof.
    intros [Hf Hs] Hn1 Hn2 step.
    assert (Hok1 : sv_ok s1) by (eapply Forall_forall; [exact Hf | eapply nth_error_In; eauto]).
    assert (Hok2 : sv_ok s2) by (eapply Forall_forall; [exact Hf | eapply nth_error_In; eauto]).
    destruct (smo_clip_feasible _ _ _ _ _ _ raw (proj1 Hok1) (proj1 Hok2)) as [Hb1 Hb2].
    fold step in Hb1, Hb2.
    unfold update_alpha. rops.
    destruct (Nat.eq_dec v1 v2) as [E|NE].
    - subst v2. rewrite Hn1 in Hn2. inversion Hn2; subst s2.
      set (l1 := modify v1 (fun v => set_alpha v (sv_alpha v - step)) l).
      assert (Hn1' : nth_error l1 v1 = Some (set_alpha s1 (sv_alpha s1 - step))).
      { unfold l1. rewrite nth_error_modify_eq, Hn1. reflexivity. }
      split.
      + eapply Forall_modify; [exact Hn1' | | ].
        * cbn. apply sv_ok_alpha.
          -- apply sv_ok_alpha; auto.
          -- cbn. destruct Hok1 as [Hbox _]. lra.
        * unfold l1. eapply Forall_modify; [exact Hn1 | | exact Hf]. apply sv_ok_alpha; auto.
      + rewrite (rsum_modify _ _ _ _ _ Hn1'). unfold l1. rewrite (rsum_modify _ _ _ _ _ Hn1). cbn. lra.
    - set (l1 := modify v1 (fun v => set_alpha v (sv_alpha v - step)) l).
      assert (Hn2' : nth_error l1 v2 = Some s2).
      { unfold l1. rewrite nth_error_modify_neq; auto. }
      split.
      + eapply Forall_modify; [exact Hn2' | | ].
        * apply sv_ok_alpha; auto.
        * unfold l1. eapply Forall_modify; [exact Hn1 | | exact Hf]. apply sv_ok_alpha; auto.
      + rewrite (rsum_modify _ _ _ _ _ Hn2'). unfold l1. rewrite (rsum_modify _ _ _ _ _ Hn1). cbn. lra.
  Qed.

  Lemma update_grad_inv l x1 x2 step : svc_inv l -> svc_inv (update_grad ROps K x1 x2 step l).
  Proof.
    intros [Hf Hs]. unfold update_grad. split.
    - apply Forall_map. eapply Forall_impl; [|exact Hf]. intros v Hv. apply sv_ok_grad; auto.
    - rewrite rsum_map. rewrite <- Hs. apply rsum_ext. intros; reflexivity.
  Qed.

  Lemma find_min_max_sv (st : stR) : st_sv (find_min_max ROps big nbig st) = st_sv st.
  Proof.
    unfold find_min_max. destruct (negb (st_recalc st)); auto.
    destruct (fmm_loop ROps (st_sv st) 0 _) as [[[a b] d] e]. reflexivity.
  Qed.

  Lemma smo_pair_inv i1 i2 k12 (st st' : stR) raw :
    svc_inv (st_sv st) -> smo_pair ROps K tau big nbig i1 i2 k12 st = Some (st', raw) -> svc_inv (st_sv st').
  Proof.
    intros Hinv. unfold smo_pair, update.
    destruct (nth_error (st_sv st) i1) as [s1|] eqn:E1; try discriminate.
    destruct (nth_error (st_sv st) i2) as [s2|] eqn:E2; try discriminate.
    intros H. inversion H; subst; clear H.
    rewrite find_min_max_sv. cbn [st_sv].
    apply update_grad_inv. apply update_alpha_inv; auto.
  Qed.

  Lemma smo_inv o1 o2 t (st st' : stR) r :
    svc_inv (st_sv st) -> smo ROps K tau big nbig o1 o2 t st = Some (st', r) -> svc_inv (st_sv st').
  Proof.
    intros Hinv. unfold smo.
    destruct (select_pair ROps K tau o1 o2 st) as [[[[i1 i2] k12]|]|]; try discriminate.
    - destruct (smo_pair ROps K tau big nbig i1 i2 k12 st) as [[st1 raw]|] eqn:E; try discriminate.
      intros H; inversion H; subst. eapply smo_pair_inv; eauto.
    - intros H; inversion H; subst; auto.
  Qed.

  Lemma clean_inv (st : stR) : svc_inv (st_sv st) -> svc_inv (st_sv (clean ROps big nbig st)).
  Proof.
    intros [Hf Hs]. unfold clean. cbn [st_sv]. rewrite find_min_max_sv. split.
    - apply Forall_forall. intros v Hv. apply filter_In in Hv. destruct Hv as [Hv _].
      eapply Forall_forall; eauto.
    - rewrite rsum_filter_zero; auto.
      intros v Hv Hd. apply negb_false_iff in Hd. unfold clean_drops in Hd.
      apply andb_true_iff in Hd. destruct Hd as [Hz _]. rops. apply Reqb_true in Hz. exact Hz.
  Qed.

  Lemma new_sv_ok i x y g :
    nth_error xs i = Some x -> nth_error ys i = Some y -> sv_ok (new_sv ROps K c i x y g).
  Proof.
    intros Hx Hy. unfold new_sv. rops.
    destruct (Rltb 0 y) eqn:E; [apply Rltb_true in E | apply Rltb_false in E];
      unfold sv_ok; cbn; (split; [lra|]); (split; [exact Hx|]); exists y; (split; [exact Hy|]).
    - left; auto.
    - right; auto.
  Qed.

  Lemma new_sv_alpha i x y g : sv_alpha (new_sv ROps K c i x y g) = 0.
  Proof. unfold new_sv. rops. destruct (Rltb 0 y); reflexivity. Qed.

  Lemma process_inv i x y (st st' : stR) r :
    nth_error xs i = Some x -> nth_error ys i = Some y ->
    svc_inv (st_sv st) -> process ROps K tau big nbig c i x y st = Some (st', r) -> svc_inv (st_sv st').
  Proof.
    intros Hx Hy Hinv. unfold process.
    destruct (existsb _ (st_sv st)).
    { intros H; inversion H; subst; auto. }
    match goal with |- context [if ?b then Some (find_min_max _ _ _ st, false) else _] => destruct b end.
    { intros H; inversion H; subst. rewrite find_min_max_sv; auto. }
    set (st1 := st_with_sv _ _).
    assert (Hinv1 : svc_inv (st_sv st1)).
    { unfold st1, st_with_sv. cbn [st_sv]. rewrite find_min_max_sv. destruct Hinv as [Hf Hs]. split.
      - constructor; auto. apply new_sv_ok; auto.
      - cbn [rsum]. rewrite new_sv_alpha, Hs. lra. }
    destruct (oltb ROps (o0 ROps) y).
    - destruct (smo ROps K tau big nbig None (Some 0%nat) (o0 ROps) st1) as [[st2 r2]|] eqn:E; try discriminate.
      intros H; inversion H; subst. eapply smo_inv; eauto.
    - destruct (smo ROps K tau big nbig (Some 0%nat) None (o0 ROps) st1) as [[st2 r2]|] eqn:E; try discriminate.
      intros H; inversion H; subst. eapply smo_inv; eauto.
  Qed.

  Lemma reprocess_inv (st st' : stR) r :
    svc_inv (st_sv st) -> reprocess ROps K tau big nbig tol st = Some (st', r) -> svc_inv (st_sv st').
  Proof.
    intros Hinv. unfold reprocess.
    destruct (smo ROps K tau big nbig None None tol st) as [[st1 r1]|] eqn:E; try discriminate.
    intros H; inversion H; subst. apply clean_inv. eapply smo_inv; eauto.
  Qed.

  Lemma finish_loop_inv m : forall (st st' : stR),
    svc_inv (st_sv st) -> finish_loop ROps K tau big nbig tol m st = Some st' -> svc_inv (st_sv st').
  Proof.
    induction m as [|m IH]; intros st st' Hinv; cbn [finish_loop];
      destruct (smo ROps K tau big nbig None None tol st) as [[st1 r1]|] eqn:E; try discriminate;
      assert (H1 : svc_inv (st_sv st1)) by (eapply smo_inv; eauto);
      destruct r1; intros H; try (inversion H; subst; auto; fail).
    eapply IH; eauto.
  Qed.

  Lemma finish_inv (st st' : stR) :
    svc_inv (st_sv st) -> finish ROps K tau big nbig tol st = Some st' -> svc_inv (st_sv st').
  Proof.
    intros Hinv. unfold finish.
    destruct (finish_loop ROps K tau big nbig tol (length (st_sv st)) st) as [st1|] eqn:E; try discriminate.
    intros H; inversion H; subst. apply clean_inv. eapply finish_loop_inv; eauto.
  Qed.

  Lemma settle_inv fuel : forall (st st' : stR),
    svc_inv (st_sv st) -> settle ROps K tau big nbig tol fuel st = Some st' -> svc_inv (st_sv st').
  Proof.
    induction fuel as [|f IH]; intros st st' Hinv; cbn [settle]; try discriminate.
    destruct (reprocess ROps K tau big nbig tol st) as [[st1 r1]|] eqn:E; try discriminate.
    assert (H1 : svc_inv (st_sv (find_min_max ROps big nbig st1))).
    { rewrite find_min_max_sv. eapply reprocess_inv; eauto. }
    match goal with |- context [if ?b then _ else _] => destruct b end.
    - intros H; inversion H; subst; auto.
    - apply IH; auto.
  Qed.

  Lemma epoch_loop_inv fuel perm : forall (st st' : stR),
    svc_inv (st_sv st) -> epoch_loop ROps K tau big nbig c tol xs ys fuel perm st = Some st' -> svc_inv (st_sv st').
  Proof.
    induction perm as [|i perm IH]; intros st st' Hinv; cbn [epoch_loop].
    { intros H; inversion H; subst; auto. }
    destruct (nth_error xs i) as [x|] eqn:Ex; try discriminate.
    destruct (nth_error ys i) as [y|] eqn:Ey; try discriminate.
    destruct (process ROps K tau big nbig c i x y st) as [[st1 r1]|] eqn:E; try discriminate.
    destruct (settle ROps K tau big nbig tol fuel st1) as [st2|] eqn:E2; try discriminate.
    apply IH. eapply settle_inv; [|exact E2]. eapply process_inv; [exact Ex|exact Ey|exact Hinv|exact E].
  Qed.

  Lemma epochs_inv fuel perms : forall (st st' : stR),
    svc_inv (st_sv st) -> epochs ROps K tau big nbig c tol xs ys fuel perms st = Some st' -> svc_inv (st_sv st').
  Proof.
    induction perms as [|p perms IH]; intros st st' Hinv; cbn [epochs].
    { intros H; inversion H; subst; auto. }
    destruct (epoch_loop ROps K tau big nbig c tol xs ys fuel p st) as [st1|] eqn:E; try discriminate.
    apply IH. eapply epoch_loop_inv; [exact Hinv|exact E].
  Qed.

  Lemma init_loop_inv perm : forall cp cn (st st' : stR),
    svc_inv (st_sv st) -> init_loop ROps K tau big nbig c xs ys perm cp cn st = Some st' -> svc_inv (st_sv st').
  Proof.
    induction perm as [|i perm IH]; intros cp cn st st' Hinv; cbn [init_loop].
    { intros H; inversion H; subst; auto. }
    destruct (nth_error xs i) as [x|] eqn:Ex; try discriminate.
    destruct (nth_error ys i) as [y|] eqn:Ey; try discriminate.
    match goal with |- context [if ?b then _ else _] => destruct b end.
    - destruct (process ROps K tau big nbig c i x y st) as [[st1 r1]|] eqn:E; try discriminate.
      assert (H1 : svc_inv (st_sv st1)) by (eapply process_inv; eauto).
      match goal with |- context [if ?b then Some st1 else _] => destruct b end.
      + intros H; inversion H; subst; auto.
      + apply IH; auto.
    - match goal with |- context [if ?b then _ else _] => destruct b end.
      + destruct (process ROps K tau big nbig c i x y st) as [[st1 r1]|] eqn:E; try discriminate.
        assert (H1 : svc_inv (st_sv st1)) by (eapply process_inv; eauto).
        match goal with |- context [if ?b then Some st1 else _] => destruct b end.
        * intros H; inversion H; subst; auto.
        * apply IH; auto.
      + match goal with |- context [if ?b then Some st else _] => destruct b end.
        * intros H; inversion H; subst; auto.
        * apply IH; auto.
  Qed.

  Lemma st0_inv : svc_inv (st_sv (st0 big nbig)).
  Proof. unfold st0; cbn. split; [constructor | reflexivity]. Qed.

  (* svc_run_feasible on the transliterated optimizer: for EVERY visiting order drawn by initialize
     and by every epoch, every amount of fuel — whenever `optimize` returns, its support vectors
     satisfy the invariant *)
  Lemma optimize_inv fuel perm0 perms (st : stR) b :
    optimize ROps K tau big nbig c tol xs ys fuel perm0 perms = Some (st, b) -> svc_inv (st_sv st).
  Proof.
    unfold optimize.
    destruct (init_loop ROps K tau big nbig c xs ys perm0 0 0 (st0 big nbig)) as [st1|] eqn:E1; try discriminate.
    destruct (epochs ROps K tau big nbig c tol xs ys fuel perms st1) as [st2|] eqn:E2; try discriminate.
    destruct (finish ROps K tau big nbig tol st2) as [st3|] eqn:E3; try discriminate.
    intros H; inversion H; subst.
    eapply finish_inv; [|exact E3]. eapply epochs_inv; [|exact E2]. eapply init_loop_inv; [|exact E1]. apply st0_inv.
  Qed.

  (* ---- the abstract transition system: heuristic choices left free ------------------------- *)
  Inductive svc_op :=
  | OpInsert (i : nat) (x : list R) (y g : R)          (* process inserts row i at position 0 *)
  | OpPair (i1 i2 : nat) (raw : R)                     (* any pair, any raw step, clipped by smo_clip *)
  | OpGrad (x1 x2 : list R) (step : R)                 (* gradient maintenance *)
  | OpDropZero (p : svR -> bool).                      (* clean: drops vectors chosen by p among those with alpha = 0 *)

  Definition apply_op (o : svc_op) (l : list svR) : list svR :=
    match o with
    | OpInsert i x y g => new_sv ROps K c i x y g :: l
    | OpPair i1 i2 raw =>
        match nth_error l i1, nth_error l i2 with
        | Some s1, Some s2 =>
            update_alpha ROps i1 i2
              (smo_clip ROps s1.(sv_alpha) s1.(sv_cmin) s1.(sv_cmax) s2.(sv_alpha) s2.(sv_cmin) s2.(sv_cmax) raw) l
        | _, _ => l
        end
    | OpGrad x1 x2 step => update_grad ROps K x1 x2 step l
    | OpDropZero p => filter (fun v => negb (Reqb v.(sv_alpha) 0 && p v)) l
    end.

  Definition op_ok (o : svc_op) : Prop :=
    match o with
    | OpInsert i x y g => nth_error xs i = Some x /\ nth_error ys i = Some y
    | _ => True
    end.

  Lemma apply_op_inv o l : op_ok o -> svc_inv l -> svc_inv (apply_op o l).
  Proof.
    intros Hok Hinv. destruct o as [i x y g|i1 i2 raw|x1 x2 step|p]; cbn [apply_op].
    - destruct Hok as [Hx Hy]. destruct Hinv as [Hf Hs]. split.
      + constructor; auto. apply new_sv_ok; auto.
      + cbn [rsum]. rewrite new_sv_alpha, Hs. lra.
    - destruct (nth_error l i1) as [s1|] eqn:E1; auto.
      destruct (nth_error l i2) as [s2|] eqn:E2; auto.
      apply update_alpha_inv; auto.
    - apply update_grad_inv; auto.
    - destruct Hinv as [Hf Hs]. split.
      + apply Forall_forall. intros v Hv. apply filter_In in Hv. destruct Hv as [Hv _].
        eapply Forall_forall; eauto.
      + rewrite rsum_filter_zero; auto.
        intros v Hv Hd. apply negb_false_iff in Hd. apply andb_true_iff in Hd. destruct Hd as [Hz _].
        apply Reqb_true in Hz. exact Hz.
  Qed.

  Lemma run_ops_inv ops : forall l,
    Forall op_ok ops -> svc_inv l -> svc_inv (fold_left (fun l o => apply_op o l) ops l).
  Proof.
    induction ops as [|o ops IH]; intros l Hok Hinv; cbn; auto.
    inversion Hok; subst. apply IH; auto. apply apply_op_inv; auto.
  Qed.
End Inv.

(* ---------------------------------------------------------------------------------------------- *)
(* decision function and label rule                                                               *)
(* ---------------------------------------------------------------------------------------------- *)
Fixpoint expansion (K : list R -> list R -> R) (inst : list (list R)) (w : list R) (x : list R) : R :=
  match inst, w with
  | s :: inst', wi :: w' => wi * K x s + expansion K inst' w' x
  | _, _ => 0
  end.

Lemma expansion_acc_eq K inst : forall w f x,
  expansion_acc ROps K f inst w x = f + expansion K inst w x.
Proof.
  induction inst as [|s inst IH]; intros [|wi w] f x; cbn [expansion_acc expansion]; try lra.
  rewrite IH. rops. lra.
Qed.

Lemma decision_expansion K inst w b x : decision ROps K inst w b x = b + expansion K inst w x.
Proof. unfold decision. apply expansion_acc_eq. Qed.

Lemma predict_sign K c0 c1 inst w b x :
  (0 < b + expansion K inst w x -> svc_predict ROps K c0 c1 inst w b x = c1) /\
  (b + expansion K inst w x <= 0 -> svc_predict ROps K c0 c1 inst w b x = c0).
Proof.
  unfold svc_predict. rewrite decision_expansion. rops.
  split; intros H.
  - destruct (Rltb 0 _) eqn:E; auto. apply Rltb_false in E. lra.
  - destruct (Rltb 0 _) eqn:E; auto. apply Rltb_true in E. lra.
Qed.

(* ---------------------------------------------------------------------------------------------- *)
(* SVC::fit: classes and label mapping                                                            *)
(* ---------------------------------------------------------------------------------------------- *)
Lemma map_labels_spec c0 y i v :
  nth_error y i = Some v ->
  nth_error (map_labels ROps c0 y) i = Some (if Reqb v c0 then -1 else 1).
Proof.
  intros H. unfold map_labels. rewrite nth_error_map, H. cbn. rops. reflexivity.
Qed.

Lemma nth_error_map_inv {A B} (f : A -> B) l i b :
  nth_error (map f l) i = Some b -> exists a, nth_error l i = Some a /\ b = f a.
Proof.
  rewrite nth_error_map. destruct (nth_error l i); cbn; intros H; inversion H; eauto.
Qed.

(* the fitted classifier, for every visiting order: support vectors are training rows, each
   coefficient lies between 0 and C in the direction of its own sample's class, they sum to zero *)
Lemma svc_fit_feasible K tau big nbig c tol fuel xs y perm0 perms c0 c1 inst w b :
  0 <= c ->
  svc_fit ROps K tau big nbig c tol fuel xs y perm0 perms = Some (c0, c1, inst, w, b) ->
  length inst = length w /\
  rsum (fun a => a) w = 0 /\
  forall k s wk, nth_error inst k = Some s -> nth_error w k = Some wk ->
    exists i yi, nth_error xs i = Some s /\ nth_error y i = Some yi /\
                 (yi <> c0 -> 0 <= wk <= c) /\ (yi = c0 -> - c <= wk <= 0).
Proof.
  intros Hc. unfold svc_fit.
  destruct (negb _); try discriminate.
  destruct (classes_of ROps y) as [[d0 d1]|]; try discriminate.
  destruct (optimize _ _ _ _ _ _ _ _ _ _ _ _) as [[st b']|] eqn:E; try discriminate.
  intros H; inversion H; subst; clear H.
  apply optimize_inv in E; auto. destruct E as [Hf Hs].
  split; [rewrite !map_length; reflexivity|].
  split; [rewrite rsum_map; exact Hs|].
  intros k s wk Hs1 Hw1.
  apply nth_error_map_inv in Hs1. destruct Hs1 as (v & Hv & ->).
  apply nth_error_map_inv in Hw1. destruct Hw1 as (v' & Hv' & ->).
  rewrite Hv in Hv'. inversion Hv'; subst v'.
  assert (Hok : sv_ok c xs (map_labels ROps c0 y) v) by (eapply Forall_forall; [exact Hf | eapply nth_error_In; eauto]).
  destruct Hok as (Hbox & Hx & yy & Hy & Hcase).
  apply nth_error_map_inv in Hy. destruct Hy as (yi & Hyi & ->).
  exists (sv_index v), yi. split; auto. split; auto. rops.
  destruct (Reqb yi c0) eqn:Eq; [apply Reqb_true in Eq | apply Reqb_false in Eq].
  - destruct Hcase as [(Hp & _)|(_ & H1 & H2)]; [lra|]. split; [congruence|]. intros _. lra.
  - destruct Hcase as [(_ & H1 & H2)|(Hp & _)]; [|lra]. split; [|congruence]. intros _. lra.
Qed.
