(* C10 — rounding-error theorems for the binary64 instance (FOps, Coq primitive floats — the very
   definitions the correspondence check runs against src/svm/{mod,svc,svr}.rs) of the straight-line
   parts of the SVM model: the kernels' arithmetic and the decision function.  Training (SMO) is
   iterative and has no rounding theorem.

     linear_kernel_float_error      k_linear = the dot product loop: p products, p additions from 0
     kernel_affine_float_error      gamma * <x,y> + coef0, the argument of powf / tanh in the polynomial
                                    and sigmoid kernels (powf / tanh themselves are library routines)
     rbf_argument_float_error       sqdist, the squared distance inside the RBF kernel: the same left fold
                                    as C17's squared_distance (sqdist_is_C17), so C17's bound carries over
     rbf_exponent_float_error       (-gamma) * sqdist, the argument handed to exp.  exp itself is a
                                    software routine in the binary64 instance (Base/Elem.v) and libm in
                                    Rust: NO bound is proved for it
     decision_function_float_error  f = b + w_1 K(x,s_1) + ... + w_n K(x,s_n), accumulated from b in this
                                    order, for ANY float kernel K whose values are within err(s_i) of an
                                    exact kernel KR
     predict_sign_float_robust      |exact decision value| > that bound  ==>  the binary64 classifier
                                    returns the label of the exact-arithmetic one

   Vocabulary (Base/FloatError.v): FR x = real value of a float, ffin x = finite, u64 = 2^-53,
   eta64 = 2^-1075, Eu k = (1+u64)^k - 1.  The only no-overflow hypothesis is that the RESULT is finite
   (non-finite values are absorbing for addition, subtraction and multiplication). *)
From Coq Require Import List Arith ZArith Bool Reals Floats Lra Lia Psatz.
From Flocq Require Import Core BinarySingleNaN PrimFloat.
From SC Require Import Base.FloatUtil Base.Num Base.FloatError C10.Model C10.ProofsSVC C10.ProofsKernel.
From SC Require C17.Model C17.Spec C17.ProofsFloat.
Import ListNotations.
Local Open Scope R_scope.
Local Existing Instance Hprec.
Local Existing Instance Hmax.

Local Notation float := PrimFloat.float.

(* ---------------- small helpers (local copies) ---------------- *)
Lemma fold_left_map_r {A B C} (f : A -> C -> A) (g : B -> C) l a :
  fold_left (fun s b => f s (g b)) l a = fold_left f (map g l) a.
Proof. revert a. induction l as [|h t IH]; intros a; cbn [fold_left map]; [reflexivity | apply IH]. Qed.

Lemma Forall2_map_in {A B C} (P : B -> C -> Prop) (g : A -> B) (h : A -> C) l :
  (forall a, In a l -> P (g a) (h a)) -> Forall2 P (map g l) (map h l).
Proof.
  induction l as [|a l IH]; intros H; cbn [map]; constructor.
  - apply H. left. reflexivity.
  - apply IH. intros b Hb. apply H. right. exact Hb.
Qed.

Lemma fltb_finite a b : ffin a -> ffin b -> PrimFloat.ltb a b = Rlt_bool (FR a) (FR b).
Proof.
  intros Ha Hb. rewrite ltb_equiv. apply (Bltb_correct prec emax); apply ffin_B; assumption.
Qed.

(* negation is exact *)
Lemma fopp_finite x : ffin (PrimFloat.opp x) <-> ffin x.
Proof. rewrite !ffin_B, opp_equiv, is_finite_Bopp. tauto. Qed.
Lemma fopp_exact x : FR (PrimFloat.opp x) = - FR x.
Proof. unfold FR. rewrite opp_equiv. apply B2R_Bopp. Qed.

(* ---------------- the linear kernel: a dot product ---------------- *)
Definition prod_term (ab : float * float) : float := PrimFloat.mul (fst ab) (snd ab).

Lemma dot_acc_fold {T} (O : Ops T) (x y : list T) : forall acc,
  dot_acc O acc x y = fold_left (fun s ab => oadd O s (omul O (fst ab) (snd ab))) (combine x y) acc.
Proof.
  revert y. induction x as [|a x IH]; intros [|b y] acc; cbn [dot_acc combine fold_left]; try reflexivity.
  cbn [fst snd]. apply IH.
Qed.

Lemma dot_F x y : dot FOps x y = fsum (map prod_term (combine x y)).
Proof.
  unfold dot, fsum. rewrite dot_acc_fold. cbn [FOps oadd omul o0].
  apply (fold_left_map_r PrimFloat.add prod_term).
Qed.

Lemma rdot_combine (x y : list float) :
  Rsuml (map (fun ab => FR (fst ab) * FR (snd ab)) (combine x y)) = rdot (map FR x) (map FR y).
Proof.
  revert y. induction x as [|a x IH]; intros [|b y]; cbn [combine map Rsuml fold_right rdot fst snd]; try reflexivity.
  fold (Rsuml (map (fun ab => FR (fst ab) * FR (snd ab)) (combine x y))). rewrite IH. reflexivity.
Qed.

Lemma rdotabs_combine (x y : list float) :
  Rsumabs (map (fun ab => FR (fst ab) * FR (snd ab)) (combine x y)) =
  rdot (map (fun a => Rabs (FR a)) x) (map (fun a => Rabs (FR a)) y).
Proof.
  revert y. induction x as [|a x IH]; intros [|b y]; cbn [combine map Rsumabs fold_right rdot fst snd]; try reflexivity.
  fold (Rsumabs (map (fun ab => FR (fst ab) * FR (snd ab)) (combine x y))). rewrite IH, Rabs_mult. reflexivity.
Qed.

Lemma rdot_nonneg_abs (x y : list float) : 0 <= rdot (map (fun a => Rabs (FR a)) x) (map (fun a => Rabs (FR a)) y).
Proof. rewrite <- rdotabs_combine. apply Rsumabs_nonneg. Qed.

(* the error bound of a computed dot product of p coordinates whose exact magnitude sum is A *)
Definition dot_err (p : nat) (A : R) : R := Eu p * (A + INR p * eta64) + INR p * eta64.

Lemma dot_err_nonneg p A : 0 <= A -> 0 <= dot_err p A.
Proof.
  intros HA. unfold dot_err. pose proof (Eu_nonneg p) as H1. pose proof (pos_INR p) as H2. pose proof eta64_pos as H3.
  assert (H4 : 0 <= INR p * eta64) by (apply Rmult_le_pos; lra).
  assert (H5 : 0 <= Eu p * (A + INR p * eta64)) by (apply Rmult_le_pos; lra). lra.
Qed.

Theorem dot_float_error (x y : list float) : ffin (dot FOps x y) ->
  let p := Nat.min (length x) (length y) in
  Forall ffin (firstn p x) /\ Forall ffin (firstn p y) /\
  Rabs (FR (dot FOps x y) - rdot (map FR x) (map FR y)) <=
    dot_err p (rdot (map (fun a => Rabs (FR a)) x) (map (fun a => Rabs (FR a)) y)).
Proof.
  intros Hfin p. rewrite dot_F in *.
  destruct (fold_fadd_finite_acc _ _ Hfin) as [_ Hall].
  assert (Hab : forall ab, In ab (combine x y) -> ffin (fst ab) /\ ffin (snd ab)).
  { intros ab Hin. rewrite Forall_forall in Hall. specialize (Hall _ (in_map prod_term _ _ Hin)).
    unfold prod_term in Hall. destruct (fmul_finite _ _ Hall) as (H1 & H2 & _). split; assumption. }
  assert (Hfst : forall (x y : list float), (forall ab, In ab (combine x y) -> ffin (fst ab) /\ ffin (snd ab)) ->
                 Forall ffin (firstn (Nat.min (length x) (length y)) x) /\
                 Forall ffin (firstn (Nat.min (length x) (length y)) y)).
  { clear. induction x as [|a x IH]; intros [|b y] H; cbn [length Nat.min firstn];
      [split; constructor | split; constructor | split; constructor | ].
    destruct (H (a, b) (or_introl eq_refl)) as [Ha Hb]. cbn [fst snd] in *.
      destruct (IH y) as [I1 I2]; [intros ab Hin; apply H; right; exact Hin|].
    split; constructor; assumption. }
  destruct (Hfst x y Hab) as [F1 F2]. split; [exact F1|]. split; [exact F2|].
  pose proof (fsum_error_signed 1 eta64 (Rlt_le _ _ eta64_pos)
                (map prod_term (combine x y)) (map (fun ab => FR (fst ab) * FR (snd ab)) (combine x y))) as G.
  rewrite !map_length, combine_length in G. fold p in G. replace (1 + p - 1)%nat with p in G by lia.
  rewrite rdot_combine, rdotabs_combine in G. unfold dot_err. apply G; [|exact Hfin].
  apply Forall2_map_in. intros ab _ Hf. unfold prod_term in *. rewrite Eu_1. apply fmul_error, Hf.
Qed.

Theorem linear_kernel_float_error (x y : list float) : length x = length y -> ffin (k_linear FOps x y) ->
  let p := length x in
  let xr := map FR x in let yr := map FR y in
  Forall ffin x /\ Forall ffin y /\
  k_linear ROps xr yr = rdot xr yr /\
  Rabs (FR (k_linear FOps x y) - k_linear ROps xr yr) <=
    Eu p * (k_linear ROps (map Rabs xr) (map Rabs yr) + INR p * eta64) + INR p * eta64.
Proof.
  intros L Hfin p xr yr. unfold k_linear in Hfin |- *.
  destruct (dot_float_error x y Hfin) as (F1 & F2 & B). cbv zeta in *.
  rewrite <- L, Nat.min_id in F1, F2, B. rewrite firstn_all in F1. rewrite L, firstn_all in F2.
  split; [exact F1|]. split; [exact F2|]. split; [apply dot_rdot|].
  unfold xr, yr. rewrite !dot_rdot, !map_map. exact B.
Qed.

(* ---------------- gamma * <x,y> + coef0 (polynomial and sigmoid kernels, before powf / tanh) -------- *)
Definition affine_err (p : nat) (g A c D : R) : R :=
  (* g = |gamma|, A = sum |x_i y_i|, c = |coef0|, D = |<x,y>| *)
  Eu 2 * (g * (D + dot_err p A)) + g * dot_err p A + u64 * c + (1 + u64) * eta64.

Theorem kernel_affine_float_error (gamma coef0 : float) (x y : list float) :
  ffin (PrimFloat.add (PrimFloat.mul gamma (dot FOps x y)) coef0) ->
  let p := Nat.min (length x) (length y) in
  let d := rdot (map FR x) (map FR y) in
  let A := rdot (map (fun a => Rabs (FR a)) x) (map (fun a => Rabs (FR a)) y) in
  Rabs (FR (PrimFloat.add (PrimFloat.mul gamma (dot FOps x y)) coef0) - (FR gamma * d + FR coef0)) <=
    affine_err p (Rabs (FR gamma)) A (Rabs (FR coef0)) (Rabs d).
Proof.
  intros Hfin p d A.
  destruct (fadd_finite _ _ Hfin) as (Hm & Hc & _).
  destruct (fmul_finite _ _ Hm) as (Hg & Hd & _).
  destruct (dot_float_error x y Hd) as (_ & _ & B). fold p d A in B.
  pose proof (fadd_error _ _ Hfin) as Ea. pose proof (fmul_error _ _ Hm) as Em.
  set (kd := FR (dot FOps x y)) in *. set (m := FR (PrimFloat.mul gamma (dot FOps x y))) in *.
  set (g := FR gamma) in *. set (c := FR coef0) in *. set (e := dot_err p A) in *.
  assert (He : 0 <= e) by (apply dot_err_nonneg, rdot_nonneg_abs).
  pose proof u64_pos as Hu. pose proof eta64_pos as Heta.
  pose proof (Rabs_pos g) as Hg0. pose proof (Rabs_pos c) as Hc0. pose proof (Rabs_pos d) as Hd0.
  assert (Hkd : Rabs kd <= Rabs d + e).
  { replace kd with ((kd - d) + d) by ring. eapply Rle_trans; [apply Rabs_triang|]. lra. }
  assert (Hgk : Rabs (g * kd) <= Rabs g * (Rabs d + e)).
  { rewrite Rabs_mult. apply Rmult_le_compat_l; assumption. }
  assert (Hgd : Rabs (g * kd - g * d) <= Rabs g * e).
  { replace (g * kd - g * d) with (g * (kd - d)) by ring. rewrite Rabs_mult. apply Rmult_le_compat_l; assumption. }
  assert (Hm1 : Rabs (m - g * d) <= u64 * (Rabs g * (Rabs d + e)) + eta64 + Rabs g * e).
  { replace (m - g * d) with ((m - g * kd) + (g * kd - g * d)) by ring.
    eapply Rle_trans; [apply Rabs_triang|]. nra. }
  assert (Hm2 : Rabs m <= (1 + u64) * (Rabs g * (Rabs d + e)) + eta64).
  { replace m with ((m - g * kd) + g * kd) by ring. eapply Rle_trans; [apply Rabs_triang|]. nra. }
  assert (Hmc : Rabs (m + c) <= (1 + u64) * (Rabs g * (Rabs d + e)) + eta64 + Rabs c).
  { eapply Rle_trans; [apply Rabs_triang|]. lra. }
  replace (FR (PrimFloat.add (PrimFloat.mul gamma (dot FOps x y)) coef0) - (g * d + c))
    with ((FR (PrimFloat.add (PrimFloat.mul gamma (dot FOps x y)) coef0) - (m + c)) + (m - g * d)) by ring.
  eapply Rle_trans; [apply Rabs_triang|].
  unfold affine_err. fold e. unfold Eu. cbn [pow].
  assert (0 <= Rabs g * (Rabs d + e)) by nra.
  nra.
Qed.

(* ---------------- the RBF kernel: the squared distance, and the argument of exp ---------------- *)
Lemma sqdist_acc_fold {T} (O : Ops T) (x y : list T) : forall acc,
  sqdist_acc O acc x y =
  fold_left (fun sum ab => let d := osub O (fst ab) (snd ab) in oadd O sum (omul O d d)) (combine x y) acc.
Proof.
  revert y. induction x as [|a x IH]; intros [|b y] acc; cbn [sqdist_acc combine fold_left]; try reflexivity.
  cbn [fst snd]. apply IH.
Qed.

(* the model's sqdist is, for every instance, the fold of C17's Euclidian::squared_distance model *)
Lemma sqdist_is_C17 {T} (O : Ops T) (x y : list T) : sqdist O x y = C17.Model.sq_dist_loop O x y.
Proof. unfold sqdist, C17.Model.sq_dist_loop. apply sqdist_acc_fold. Qed.

(* the error bound of a computed squared distance in dimension p whose exact value is D *)
Definition sq_err (p : nat) (D : R) : R := Eu (p + 2) * (D + INR p * eta64) + INR p * eta64.

Lemma sq_err_nonneg p D : 0 <= D -> 0 <= sq_err p D.
Proof.
  intros HD. unfold sq_err. pose proof (Eu_nonneg (p + 2)) as H1. pose proof (pos_INR p) as H2. pose proof eta64_pos as H3.
  assert (H4 : 0 <= INR p * eta64) by (apply Rmult_le_pos; lra).
  assert (H5 : 0 <= Eu (p + 2) * (D + INR p * eta64)) by (apply Rmult_le_pos; lra). lra.
Qed.

Theorem rbf_argument_float_error (x y : list float) :
  length x = length y -> ffin (sqdist FOps x y) ->
  let p := length x in
  let D := rsqdist (map FR x) (map FR y) in
  sqdist ROps (map FR x) (map FR y) = D /\
  Forall ffin x /\ Forall ffin y /\ 0 <= D /\ 0 <= FR (sqdist FOps x y) /\
  Rabs (FR (sqdist FOps x y) - D) <= sq_err p D /\
  ((forall a b, In (a, b) (combine x y) -> FR a = FR b \/ / 2 ^ 510 <= Rabs (FR a - FR b)) ->
   Rabs (FR (sqdist FOps x y) - D) <= Eu (p + 2) * D).
Proof.
  intros L Hfin p D.
  assert (HS : C17.Model.squared_distance FOps x y = Some (sqdist FOps x y)).
  { unfold C17.Model.squared_distance, C17.Model.same_len. rewrite (proj2 (Nat.eqb_eq _ _) L), sqdist_is_C17. reflexivity. }
  destruct (C17.ProofsFloat.squared_distance_float_error x y _ HS Hfin) as (HR & H0 & H1 & H2 & H3).
  assert (E : C17.Spec.sigma (length x)
                (fun i => (C17.Spec.comp (C17.ProofsFloat.RV x) i - C17.Spec.comp (C17.ProofsFloat.RV y) i) *
                          (C17.Spec.comp (C17.ProofsFloat.RV x) i - C17.Spec.comp (C17.ProofsFloat.RV y) i)) = D).
  { unfold C17.Model.squared_distance, C17.Model.same_len in HR.
    rewrite !C17.ProofsFloat.RV_length, (proj2 (Nat.eqb_eq _ _) L) in HR. injection HR as HR. rewrite <- HR.
    unfold D. rewrite <- sqdist_r, sqdist_is_C17. reflexivity. }
  cbv zeta in H0, H2, H3. rewrite E in H0, H2, H3. fold p in H2, H3.
  split; [apply sqdist_r|].
  assert (Hterm : forall ab, In ab (combine x y) -> ffin (fst ab) /\ ffin (snd ab)).
  { intros ab Hin. pose proof (C17.ProofsFloat.sq_terms_finite x y _ HS Hfin ab Hin) as Ht.
    unfold C17.ProofsFloat.sq_term in Ht. cbv zeta in Ht.
    destruct (fmul_finite _ _ Ht) as (Hd & _ & _). destruct (fsub_finite _ _ Hd) as (Ha & Hb & _). split; assumption. }
  assert (Hxy : forall (x y : list float), length x = length y ->
            (forall ab, In ab (combine x y) -> ffin (fst ab) /\ ffin (snd ab)) -> Forall ffin x /\ Forall ffin y).
  { clear. induction x as [|a x IH]; intros [|b y] L H; cbn [length] in L; try discriminate L;
      [split; constructor|].
    destruct (H (a, b) (or_introl eq_refl)) as [Ha Hb]. cbn [fst snd] in *.
    destruct (IH y) as [I1 I2]; [lia | intros ab Hin; apply H; right; exact Hin|].
    split; constructor; assumption. }
  destruct (Hxy x y L Hterm) as [F1 F2].
  split; [exact F1|]. split; [exact F2|]. split; [exact H0|]. split; [exact H1|]. split; [exact H2|].
  intros Hno. apply H3. apply C17.ProofsFloat.diff_normal_intro. exact Hno.
Qed.

(* the argument handed to exp: (-gamma) * sqdist — the negation is exact, the product is one rounding *)
Theorem rbf_exponent_float_error (gamma : float) (x y : list float) :
  length x = length y -> ffin (PrimFloat.mul (PrimFloat.opp gamma) (sqdist FOps x y)) ->
  let p := length x in
  let D := rsqdist (map FR x) (map FR y) in
  ffin gamma /\ ffin (sqdist FOps x y) /\
  Rabs (FR (PrimFloat.mul (PrimFloat.opp gamma) (sqdist FOps x y)) - (- FR gamma * D)) <=
    Rabs (FR gamma) * (u64 * D + (1 + u64) * sq_err p D) + eta64.
Proof.
  intros L Hfin p D.
  destruct (fmul_finite _ _ Hfin) as (Hg & Hd & _). apply (proj1 (fopp_finite _)) in Hg.
  destruct (rbf_argument_float_error x y L Hd) as (_ & _ & _ & HD & Hs & B & _). fold p D in HD, B.
  pose proof (fmul_error _ _ Hfin) as Em. rewrite fopp_exact in Em.
  split; [exact Hg|]. split; [exact Hd|].
  set (s := FR (sqdist FOps x y)) in *. set (g := FR gamma) in *. set (e := sq_err p D) in *.
  assert (He : 0 <= e) by (apply sq_err_nonneg, HD).
  pose proof u64_pos as Hu. pose proof (Rabs_pos g) as Hg0.
  assert (Hs' : s <= D + e) by (pose proof (Rle_abs (s - D)); lra).
  assert (H1 : Rabs (- g * s) <= Rabs g * (D + e)).
  { rewrite Rabs_mult, Rabs_Ropp, (Rabs_pos_eq s) by exact Hs. apply Rmult_le_compat_l; assumption. }
  assert (H2 : Rabs (- g * s - - g * D) <= Rabs g * e).
  { replace (- g * s - - g * D) with (- g * (s - D)) by ring. rewrite Rabs_mult, Rabs_Ropp.
    apply Rmult_le_compat_l; assumption. }
  replace (FR (PrimFloat.mul (PrimFloat.opp gamma) (sqdist FOps x y)) - - g * D)
    with ((FR (PrimFloat.mul (PrimFloat.opp gamma) (sqdist FOps x y)) - - g * s) + (- g * s - - g * D)) by ring.
  eapply Rle_trans; [apply Rabs_triang|]. nra.
Qed.

(* the float model's RBF kernel is exp applied to exactly that argument *)
Lemma k_rbf_F gamma x y :
  k_rbf FOps gamma x y = oexp FOps (PrimFloat.mul (PrimFloat.opp gamma) (sqdist FOps x y)).
Proof. reflexivity. Qed.

(* ---------------- the decision function ---------------- *)
Lemma expansion_acc_fold {T} (O : Ops T) (Kk : list T -> list T -> T) (x : list T) (inst : list (list T)) :
  forall w f, expansion_acc O Kk f inst w x =
              fold_left (fun f sw => oadd O f (omul O (snd sw) (Kk x (fst sw)))) (combine inst w) f.
Proof.
  induction inst as [|s inst IH]; intros [|wi w] f; cbn [expansion_acc combine fold_left]; try reflexivity.
  cbn [fst snd]. apply IH.
Qed.

(* the quantities of the bound, over the list L = combine inst w of (support vector, weight) pairs:
   dec_A = sum w_i KR(x,s_i)   (the exact expansion)
   dec_S = sum |w_i| (|KR(x,s_i)| + err s_i)
   dec_E = sum |w_i| err s_i *)
Definition dec_A (KR : list R -> list R -> R) (x : list float) (L : list (list float * float)) : R :=
  Rsuml (map (fun sw => FR (snd sw) * KR (map FR x) (map FR (fst sw))) L).
Definition dec_S (KR : list R -> list R -> R) (err : list float -> R) (x : list float) (L : list (list float * float)) : R :=
  Rsuml (map (fun sw => Rabs (FR (snd sw)) * (Rabs (KR (map FR x) (map FR (fst sw))) + err (fst sw))) L).
Definition dec_E (err : list float -> R) (L : list (list float * float)) : R :=
  Rsuml (map (fun sw => Rabs (FR (snd sw)) * err (fst sw)) L).
(* n terms, S = dec_S, E = dec_E, B = |b| *)
Definition dec_err (n : nat) (S E B : R) : R :=
  Eu (n + 1) * S + Eu n * (B + INR n * eta64) + INR n * eta64 + E.

Lemma expansion_combine (KR : list R -> list R -> R) (x : list float) (inst : list (list float)) :
  forall w, expansion KR (map (map FR) inst) (map FR w) (map FR x) = dec_A KR x (combine inst w).
Proof.
  unfold dec_A. induction inst as [|s inst IH]; intros [|wi w]; cbn [expansion map combine Rsuml fold_right fst snd]; try reflexivity.
  rewrite IH. reflexivity.
Qed.

Section Decision.
  Variable K : list float -> list float -> float.     (* the float kernel *)
  Variable KR : list R -> list R -> R.                (* an exact kernel *)
  Variable err : list float -> R.                     (* error bound of K(x, s), per support vector s *)
  Variable x : list float.

  Definition dterm (sw : list float * float) : float := PrimFloat.mul (snd sw) (K x (fst sw)).

  Definition kernel_close (s : list float) : Prop :=
    ffin (K x s) -> Rabs (FR (K x s) - KR (map FR x) (map FR s)) <= err s.

  Lemma dterm_error sw : kernel_close (fst sw) -> ffin (dterm sw) ->
    let w := Rabs (FR (snd sw)) in
    let k := Rabs (KR (map FR x) (map FR (fst sw))) in
    let e := err (fst sw) in
    0 <= e /\
    Rabs (FR (dterm sw) - FR (snd sw) * KR (map FR x) (map FR (fst sw))) <= w * e + u64 * (w * (k + e)) + eta64 /\
    Rabs (FR (dterm sw)) <= (1 + u64) * (w * (k + e)) + eta64.
  Proof.
    intros Hc Hf w k e. unfold kernel_close in Hc. unfold dterm in *.
    destruct (fmul_finite _ _ Hf) as (Hw & Hk & _). specialize (Hc Hk). fold e in Hc.
    pose proof (fmul_error _ _ Hf) as Em.
    set (t := FR (PrimFloat.mul (snd sw) (K x (fst sw)))) in *.
    set (wr := FR (snd sw)) in *. set (kf := FR (K x (fst sw))) in *. set (kr := KR (map FR x) (map FR (fst sw))) in *.
    assert (He : 0 <= e) by (pose proof (Rabs_pos (kf - kr)); lra).
    pose proof u64_pos as Hu. pose proof (Rabs_pos wr) as Hw0. pose proof (Rabs_pos kr) as Hk0.
    assert (Hkf : Rabs kf <= k + e).
    { replace kf with ((kf - kr) + kr) by ring. eapply Rle_trans; [apply Rabs_triang|]. unfold k. lra. }
    assert (H1 : Rabs (wr * kf) <= w * (k + e)).
    { rewrite Rabs_mult. apply Rmult_le_compat_l; assumption. }
    assert (H2 : Rabs (wr * kf - wr * kr) <= w * e).
    { replace (wr * kf - wr * kr) with (wr * (kf - kr)) by ring. rewrite Rabs_mult.
      apply Rmult_le_compat_l; assumption. }
    assert (H3 : u64 * Rabs (wr * kf) <= u64 * (w * (k + e))) by (apply Rmult_le_compat_l; lra).
    split; [exact He|]. split.
    - replace (t - wr * kr) with ((t - wr * kf) + (wr * kf - wr * kr)) by ring.
      eapply Rle_trans; [apply Rabs_triang|]. lra.
    - replace t with ((t - wr * kf) + wr * kf) by ring. eapply Rle_trans; [apply Rabs_triang|]. lra.
  Qed.

  Lemma dterms_error (L : list (list float * float)) :
    (forall sw, In sw L -> kernel_close (fst sw)) -> Forall ffin (map dterm L) ->
    0 <= dec_S KR err x L /\ 0 <= dec_E err L /\
    Rabs (Rsuml (map FR (map dterm L)) - dec_A KR x L) <=
      dec_E err L + u64 * dec_S KR err x L + INR (length L) * eta64 /\
    Rsumabs (map FR (map dterm L)) <= (1 + u64) * dec_S KR err x L + INR (length L) * eta64.
  Proof.
    unfold dec_A, dec_S, dec_E.
    induction L as [|sw L IH]; intros Hc Hf.
    - cbn [map Rsuml Rsumabs fold_right length INR]. rewrite Rminus_0_r, Rabs_R0. lra.
    - cbn [map] in Hf. inversion Hf as [|? ? Hf1 Hf2]; subst.
      destruct (IH (fun sw' H => Hc sw' (or_intror H)) Hf2) as (I1 & I2 & I3 & I4).
      destruct (dterm_error sw (Hc sw (or_introl eq_refl)) Hf1) as (D0 & D1 & D2). cbv zeta in D1, D2.
      cbn [map Rsuml Rsumabs fold_right length].
      set (SL := fold_right Rplus 0 (map (fun sw0 => Rabs (FR (snd sw0)) * (Rabs (KR (map FR x) (map FR (fst sw0))) + err (fst sw0))) L)) in *.
      set (EL := fold_right Rplus 0 (map (fun sw0 => Rabs (FR (snd sw0)) * err (fst sw0)) L)) in *.
      set (AL := fold_right Rplus 0 (map (fun sw0 => FR (snd sw0) * KR (map FR x) (map FR (fst sw0))) L)) in *.
      change (fold_right Rplus 0 (map FR (map dterm L))) with (Rsuml (map FR (map dterm L))).
      change (fold_right (fun a s => Rabs a + s) 0 (map FR (map dterm L))) with (Rsumabs (map FR (map dterm L))).
      unfold Rsuml, Rsumabs in I1, I2, I3, I4. fold SL EL AL in I1, I2, I3, I4.
      fold (Rsuml (map FR (map dterm L))) (Rsumabs (map FR (map dterm L))) in I3, I4.
      rewrite S_INR.
      pose proof (Rabs_pos (FR (snd sw))) as Hw0. pose proof (Rabs_pos (KR (map FR x) (map FR (fst sw)))) as Hk0.
      pose proof u64_pos as Hu.
      assert (0 <= Rabs (FR (snd sw)) * (Rabs (KR (map FR x) (map FR (fst sw))) + err (fst sw))) by (apply Rmult_le_pos; lra).
      assert (0 <= Rabs (FR (snd sw)) * err (fst sw)) by (apply Rmult_le_pos; lra).
      split; [lra|]. split; [lra|]. split.
      + replace (FR (dterm sw) + Rsuml (map FR (map dterm L)) - (FR (snd sw) * KR (map FR x) (map FR (fst sw)) + AL))
          with ((FR (dterm sw) - FR (snd sw) * KR (map FR x) (map FR (fst sw))) + (Rsuml (map FR (map dterm L)) - AL)) by ring.
        eapply Rle_trans; [apply Rabs_triang|]. lra.
      + lra.
  Qed.

  Lemma decision_F inst w b :
    decision FOps K inst w b x = fold_left PrimFloat.add (map dterm (combine inst w)) b.
  Proof.
    unfold decision. rewrite expansion_acc_fold. cbn [FOps oadd omul].
    apply (fold_left_map_r PrimFloat.add dterm).
  Qed.

  Theorem decision_function_float_error (inst : list (list float)) (w : list float) (b : float) :
    (forall s, In s inst -> kernel_close s) ->
    ffin (decision FOps K inst w b x) ->
    let L := combine inst w in
    let n := length L in
    let fR := decision ROps KR (map (map FR) inst) (map FR w) (FR b) (map FR x) in
    fR = FR b + dec_A KR x L /\
    ffin b /\ Forall ffin (map dterm L) /\
    0 <= dec_err n (dec_S KR err x L) (dec_E err L) (Rabs (FR b)) /\
    Rabs (FR (decision FOps K inst w b x) - fR) <= dec_err n (dec_S KR err x L) (dec_E err L) (Rabs (FR b)).
  Proof.
    intros Hc Hfin L n fR.
    assert (EfR : fR = FR b + dec_A KR x L).
    { unfold fR. rewrite decision_expansion, expansion_combine. reflexivity. }
    split; [exact EfR|]. rewrite EfR. rewrite decision_F in *. fold L in Hfin |- *.
    destruct (fold_fadd_finite_acc _ _ Hfin) as [Hb Hall].
    split; [exact Hb|]. split; [exact Hall|].
    assert (HcL : forall sw, In sw L -> kernel_close (fst sw)).
    { intros [s wi] Hin. apply Hc. apply (in_combine_l _ _ _ _ Hin). }
    destruct (dterms_error L HcL Hall) as (S0 & E0 & T1 & T2). fold n in T1, T2.
    set (l := map dterm L) in *.
    assert (HF : Forall2 (fun t a => ffin t -> Rabs (FR t - a) <= Eu 0 * Rabs a + 0) l (map FR l)).
    { clear. induction l as [|t l IH]; cbn [map]; constructor; [|exact IH].
      intros _. rewrite Eu_0, Rminus_diag_eq, Rabs_R0 by reflexivity. lra. }
    pose proof (fold_fadd_error_signed_acc 0 0 (Rle_refl 0) l (map FR l) HF b (FR b) (Rabs (FR b)) 0 0%nat
                  (Nat.le_refl 0) (Rle_refl _) (Rle_refl 0) Hfin) as G.
    rewrite Rminus_diag_eq, Rabs_R0, Eu_0 in G by reflexivity.
    assert (Ll : length l = n) by (unfold l; apply map_length).
    rewrite Ll in G. cbn [Nat.add] in G. rewrite !Rmult_0_r, !Rplus_0_r in G. assert (G0 : 0 <= 0 * Rabs (FR b)) by lra. specialize (G G0). clear G0.
    pose proof (Eu_nonneg n) as Hn. pose proof u64_pos as Hu. pose proof (Rabs_pos (FR b)) as Hb0.
    pose proof (pos_INR n) as Hn0. pose proof eta64_pos as Heta.
    assert (Hne : 0 <= INR n * eta64) by (apply Rmult_le_pos; lra).
    set (S := dec_S KR err x L) in *. set (E := dec_E err L) in *.
    assert (EuS : Eu (n + 1) = Eu n * (1 + u64) + u64).
    { replace (n + 1)%nat with (Datatypes.S n) by lia. rewrite Eu_S. ring. }
    assert (Hpos : 0 <= dec_err n S E (Rabs (FR b))).
    { unfold dec_err. pose proof (Eu_nonneg (n + 1)).
      assert (0 <= Eu (n + 1) * S) by (apply Rmult_le_pos; lra).
      assert (0 <= Eu n * (Rabs (FR b) + INR n * eta64)) by (apply Rmult_le_pos; lra). lra. }
    split; [exact Hpos|].
    replace (FR (fold_left PrimFloat.add l b) - (FR b + dec_A KR x L))
      with ((FR (fold_left PrimFloat.add l b) - (FR b + Rsuml (map FR l))) + (Rsuml (map FR l) - dec_A KR x L)) by ring.
    eapply Rle_trans; [apply Rabs_triang|]. unfold dec_err. rewrite EuS.
    assert (Eu n * (Rabs (FR b) + Rsumabs (map FR l)) <= Eu n * (Rabs (FR b) + ((1 + u64) * S + INR n * eta64))).
    { apply Rmult_le_compat_l; lra. }
    nra.
  Qed.

  (* the label rule: decision > 0 -> the larger class c1, otherwise c0 *)
  Theorem predict_sign_float_robust (c0 c1 : float) (inst : list (list float)) (w : list float) (b : float) :
    (forall s, In s inst -> kernel_close s) ->
    ffin (decision FOps K inst w b x) ->
    let L := combine inst w in
    let fR := decision ROps KR (map (map FR) inst) (map FR w) (FR b) (map FR x) in
    dec_err (length L) (dec_S KR err x L) (dec_E err L) (Rabs (FR b)) < Rabs fR ->
    (0 < fR -> svc_predict FOps K c0 c1 inst w b x = c1) /\
    (fR < 0 -> svc_predict FOps K c0 c1 inst w b x = c0) /\
    FR (svc_predict FOps K c0 c1 inst w b x) =
      svc_predict ROps KR (FR c0) (FR c1) (map (map FR) inst) (map FR w) (FR b) (map FR x).
  Proof.
    intros Hc Hfin L fR Hm.
    destruct (decision_function_float_error inst w b Hc Hfin) as (_ & _ & _ & _ & B). fold L fR in B.
    set (bound := dec_err (length L) (dec_S KR err x L) (dec_E err L) (Rabs (FR b))) in *.
    set (f := decision FOps K inst w b x) in *.
    assert (Hlt : PrimFloat.ltb 0%float f = Rlt_bool 0 (FR f)).
    { rewrite (fltb_finite _ _ ffin_zero Hfin), FR_zero. reflexivity. }
    apply Rabs_le_inv in B.
    assert (Hpos : 0 < fR -> svc_predict FOps K c0 c1 inst w b x = c1).
    { intros H. unfold svc_predict. cbn [FOps oltb o0]. fold f. rewrite Hlt, Rlt_bool_true; [reflexivity|].
      rewrite Rabs_pos_eq in Hm by lra. lra. }
    assert (Hneg : fR < 0 -> svc_predict FOps K c0 c1 inst w b x = c0).
    { intros H. unfold svc_predict. cbn [FOps oltb o0]. fold f. rewrite Hlt, Rlt_bool_false; [reflexivity|].
      rewrite Rabs_left in Hm by exact H. lra. }
    split; [exact Hpos|]. split; [exact Hneg|].
    destruct (Rlt_le_dec 0 fR) as [H|H].
    - rewrite (Hpos H). symmetry. apply predict_sign. rewrite <- decision_expansion. exact H.
    - assert (H' : fR < 0).
      { destruct H as [H|H]; [exact H|]. rewrite H, Rabs_R0 in Hm.
        pose proof (Rabs_pos (FR f - 0)). rewrite H in B. lra. }
      rewrite (Hneg H'). symmetry. apply predict_sign. rewrite <- decision_expansion. apply Rlt_le. exact H'.
  Qed.
End Decision.

(* ---------------- the linear-kernel classifier: the kernel hypothesis discharged ---------------- *)
Definition lin_err (x s : list float) : R :=
  dot_err (Nat.min (length x) (length s))
          (rdot (map (fun a => Rabs (FR a)) x) (map (fun a => Rabs (FR a)) s)).

Lemma linear_kernel_close x s : kernel_close (k_linear FOps) (k_linear ROps) (lin_err x) x s.
Proof.
  unfold kernel_close, k_linear, lin_err. intros Hf. rewrite dot_rdot. apply (dot_float_error x s Hf).
Qed.

Theorem decision_function_linear_float_error (inst : list (list float)) (w : list float) (b : float) (x : list float) :
  ffin (decision FOps (k_linear FOps) inst w b x) ->
  let L := combine inst w in
  let fR := decision ROps (k_linear ROps) (map (map FR) inst) (map FR w) (FR b) (map FR x) in
  Rabs (FR (decision FOps (k_linear FOps) inst w b x) - fR) <=
    dec_err (length L) (dec_S (k_linear ROps) (lin_err x) x L) (dec_E (lin_err x) L) (Rabs (FR b)).
Proof.
  intros Hfin L fR.
  apply (decision_function_float_error (k_linear FOps) (k_linear ROps) (lin_err x) x inst w b); [|exact Hfin].
  intros s _. apply linear_kernel_close.
Qed.

Theorem predict_sign_linear_float_robust (c0 c1 : float) (inst : list (list float)) (w : list float) (b : float) (x : list float) :
  ffin (decision FOps (k_linear FOps) inst w b x) ->
  let L := combine inst w in
  let fR := decision ROps (k_linear ROps) (map (map FR) inst) (map FR w) (FR b) (map FR x) in
  dec_err (length L) (dec_S (k_linear ROps) (lin_err x) x L) (dec_E (lin_err x) L) (Rabs (FR b)) < Rabs fR ->
  FR (svc_predict FOps (k_linear FOps) c0 c1 inst w b x) =
    svc_predict ROps (k_linear ROps) (FR c0) (FR c1) (map (map FR) inst) (map FR w) (FR b) (map FR x) /\
  svc_predict FOps (k_linear FOps) c0 c1 inst w b x = (if Rlt_dec 0 fR then c1 else c0).
Proof.
  intros Hfin L fR Hm.
  destruct (predict_sign_float_robust (k_linear FOps) (k_linear ROps) (lin_err x) x c0 c1 inst w b) as (P & N & A);
    [intros s _; apply linear_kernel_close | exact Hfin | exact Hm |].
  split; [exact A|]. fold fR in P, N. destruct (Rlt_dec 0 fR) as [H|H]; [exact (P H)|].
  apply N. destruct (Rtotal_order fR 0) as [H1|[H1|H1]]; [exact H1 | | contradiction].
  exfalso. rewrite H1, Rabs_R0 in Hm.
  destruct (decision_function_float_error (k_linear FOps) (k_linear ROps) (lin_err x) x inst w b) as (_ & _ & _ & G & _);
    [intros s _; apply linear_kernel_close | exact Hfin |]. fold L in G. lra.
Qed.

(* ---------------- real values of float literals (for the instances) ---------------- *)
Lemma FR_SF x : FR x = SF2R radix2 (FloatOps.Prim2SF x).
Proof. unfold FR, Prim2B. apply B2R_SF2B. Qed.

(* numerator and denominator (a power of two) of a finite float; (0, 1) otherwise *)
Definition fq (x : float) : Z * Z :=
  match FloatOps.Prim2SF x with
  | S754_finite s m e =>
      let n := if s then Z.neg m else Z.pos m in
      if (0 <=? e)%Z then (n * 2 ^ e, 1)%Z else (n, 2 ^ (- e))%Z
  | _ => (0, 1)%Z
  end.

Lemma FR_fq x n d : fq x = (n, d) -> FR x = IZR n / IZR d.
Proof.
  rewrite FR_SF. unfold fq. destruct (FloatOps.Prim2SF x) as [s|s| |s m e]; cbn [SF2R].
  1-3: intros [= <- <-]; lra.
  unfold F2R. cbn [Fnum Fexp cond_Zopp].
  destruct (Z.leb_spec 0 e) as [He|He]; intros [= <- <-].
  - rewrite mult_IZR. rewrite <- (IZR_Zpower radix2 e He). change (radix_val radix2) with 2%Z.
    unfold Rdiv. rewrite Rinv_1, Rmult_1_r. destruct s; reflexivity.
  - replace e with (- (- e))%Z at 1 by lia. rewrite bpow_opp.
    rewrite <- (IZR_Zpower radix2 (- e)) by lia. change (radix_val radix2) with 2%Z.
    destruct s; cbn [Z.opp]; unfold Rdiv; reflexivity.
Qed.

(* replace every `FR <literal>` of the goal by its value n / 2^k *)
Ltac fr_literals :=
  repeat match goal with
  | |- context [FR ?x] =>
      let v := eval vm_compute in (fq x) in
      match v with
      | (?n, ?d) =>
          let E := fresh "E" in
          assert (E : fq x = (n, d)) by (vm_compute; reflexivity);
          rewrite (FR_fq x n d E); clear E
      end
  end.
