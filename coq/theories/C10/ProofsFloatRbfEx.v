(* C10 — instance for C10/ProofsFloatRbf.v: on a concrete argument the software exp of the binary64
   instance does satisfy the accuracy hypothesis (checked by interval arithmetic, delta = 2^-40). *)
From Coq Require Import List Arith ZArith Bool Reals Floats Lra Lia Psatz.
From Interval Require Import Tactic.
From SC Require Import Base.FloatUtil Base.Num Base.FloatError C10.Model C10.ProofsFloat C10.ProofsFloatEx C10.ProofsFloatRbf.
Import ListNotations.
Local Open Scope R_scope.

Lemma ex_rbf_exp :
  let t := PrimFloat.mul (PrimFloat.opp 0x1.999999999999ap-3%float) (sqdist FOps kx ky) in
  length kx = length ky /\ ffin t /\
  Rabs (FR (oexp FOps t) - exp (FR t)) <= / 2 ^ 40 * exp (FR t).
Proof.
  cbv zeta. split; [reflexivity|]. split; [vm_compute; reflexivity|].
  match goal with |- context [oexp FOps ?t] =>
    let v := eval vm_compute in t in
    let r := eval vm_compute in (oexp FOps t) in
    replace (oexp FOps t) with r by (vm_compute; reflexivity);
    replace t with v by (vm_compute; reflexivity)
  end.
  fr_literals. interval with (i_prec 80).
Qed.
