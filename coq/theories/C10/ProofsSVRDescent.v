(* C10 — SVR: the epsilon-insensitive dual objective
       W(a) = 1/2 sum_u sum_v w_u w_v K(x_u,x_v) + eps sum_u (a0_u + a1_u) - sum_u y_u w_u,   w = a1 - a0,
   is not increased by an iteration of the transliterated optimizer when the kernel is symmetric and
   the curvature K_ii + K_jj - 2 K_ij of the chosen pair is non-negative (as it is for a kernel that is
   positive semi-definite on the training rows): each write of a coefficient is an exact coordinate
   move of W (value change = gradient * da + 1/2 da^2 K_ss), the maintained gradients ARE the partial
   derivatives (gradient invariant), the unclipped step is the Newton step of the pair and the clipped
   step lies between 0 and it.  Quantitatively  W(l') <= W(l) - 1/2 curv theta^2,  theta the clipped step.
   Real-number instance (ROps) of SC.C10.Model. *)
From Coq Require Import List ZArith Reals Lra Lia Bool Arith.
From SC Require Import Base.Num C10.Model C10.ProofsSVC C10.ProofsSVR C10.ProofsKernel C10.ProofsPSD.
Import ListNotations.
Local Open Scope R_scope.

Lemma map_modify_same {A B} (g : A -> B) i (f : A -> A) l :
  (forall a, g (f a) = g a) -> map g (modify i f l) = map g l.
Proof.
  intros H. revert i; induction l as [|a l IH]; intros [|i]; cbn; auto; f_equal; auto.
Qed.

(* the clipped step lies between 0 and the unclipped one *)
Lemma svr_clip_eq_between c ai aj d : 0 <= ai <= c -> 0 <= aj <= c ->
  let th := ai - fst (svr_clip_eq ROps c ai aj d) in
  snd (svr_clip_eq ROps c ai aj d) = aj + th /\ (0 <= d -> 0 <= th <= d) /\ (d <= 0 -> d <= th <= 0).
Proof.
  intros H1 H2. unfold svr_clip_eq. rops. repeat rb_step; cbn [fst snd]; repeat split; intros; lra.
Qed.

Lemma svr_clip_ne_between c ai aj d : 0 <= ai <= c -> 0 <= aj <= c ->
  let th := fst (svr_clip_ne ROps c ai aj d) - ai in
  snd (svr_clip_ne ROps c ai aj d) = aj + th /\ (0 <= d -> 0 <= th <= d) /\ (d <= 0 -> d <= th <= 0).
Proof.
  intros H1 H2. unfold svr_clip_ne. rops. repeat rb_step; cbn [fst snd]; repeat split; intros; lra.
Qed.

Section Descent.
  Variable K : list R -> list R -> R.
  Variables tau big nbig c tol eps : R.
  Variable ys : list R.
  Hypothesis K_sym : forall x y, K x y = K y x.

  Notation rsvR := (rsv (T:=R)).

  Definition asum (v : rsvR) : R := r_a0 v + r_a1 v.
  (* the dual objective of epsilon-SVR (to be minimised) *)
  Definition svr_dual (l : list rsvR) : R :=
    / 2 * rsum (fun u => wR u * f0 K l (r_x u)) l + eps * rsum asum l - rsum (fun u => yv ys u * wR u) l.

  (* its partial derivative with respect to coefficient (s, k) *)
  Definition true_grad (l : list rsvR) (s : rsvR) (k : nat) : R :=
    eps + sgn_of ROps k * (f0 K l (r_x s) - yv ys s).

  Lemma ginv_true_grad l s k : (k < 2)%nat -> ginv_at K eps ys l s -> r_grad s k = true_grad l s k.
  Proof.
    intros Hk [G0 G1]. unfold r_grad, true_grad, sgn_of, two. rops.
    destruct k as [|[|k]]; try lia; cbn [Nat.eqb]; [rewrite G0 | rewrite G1]; lra.
  Qed.

  Lemma f0_modify v f l s x : nth_error l v = Some s -> r_x (f s) = r_x s ->
    f0 K (modify v f l) x = f0 K l x + (wR (f s) - wR s) * K (r_x s) x.
  Proof.
    intros Hn Hx. unfold f0. rewrite (rsum_modify _ _ _ _ _ Hn), Hx. lra.
  Qed.

  Lemma f0_map g l x : (forall v, wR (g v) = wR v /\ r_x (g v) = r_x v) -> f0 K (map g l) x = f0 K l x.
  Proof.
    intros H. unfold f0. rewrite rsum_map. apply rsum_ext. intros a _. destruct (H a) as [-> ->]. reflexivity.
  Qed.

  (* a map that touches neither coefficients nor rows nor indices leaves W unchanged (gradient updates) *)
  Lemma dual_map g l :
    (forall v, r_a0 (g v) = r_a0 v /\ r_a1 (g v) = r_a1 v /\ r_x (g v) = r_x v /\ r_index (g v) = r_index v) ->
    svr_dual (map g l) = svr_dual l.
  Proof.
    intros H.
    assert (Hw : forall v, wR (g v) = wR v /\ r_x (g v) = r_x v).
    { intros v. destruct (H v) as (A0 & A1 & X & _). unfold wR. rewrite A0, A1. auto. }
    unfold svr_dual. rewrite !rsum_map. f_equal; [f_equal|].
    - f_equal. apply rsum_ext. intros a _. destruct (Hw a) as [-> ->]. rewrite f0_map; auto.
    - f_equal. apply rsum_ext. intros a _. destruct (H a) as (A0 & A1 & _). unfold asum. rewrite A0, A1. reflexivity.
    - apply rsum_ext. intros a _. destruct (Hw a) as [-> _]. destruct (H a) as (_ & _ & _ & Hi).
      unfold yv. rewrite Hi. reflexivity.
  Qed.

  (* one write: an exact second-order expansion *)
  Lemma dual_modify v f l s : nth_error l v = Some s -> r_x (f s) = r_x s -> r_index (f s) = r_index s ->
    svr_dual (modify v f l)
    = svr_dual l + (wR (f s) - wR s) * (f0 K l (r_x s) - yv ys s)
      + / 2 * ((wR (f s) - wR s) * (wR (f s) - wR s)) * K (r_x s) (r_x s)
      + eps * (asum (f s) - asum s).
  Proof.
    intros Hn Hx Hi. unfold svr_dual.
    set (dw := wR (f s) - wR s).
    rewrite (rsum_ext (fun u => wR u * f0 K (modify v f l) (r_x u))
                      (fun u => wR u * f0 K l (r_x u) + dw * (wR u * K (r_x u) (r_x s)))).
    2:{ intros u _. rewrite (f0_modify v f l s (r_x u) Hn Hx). fold dw. rewrite (K_sym (r_x s) (r_x u)). ring. }
    rewrite (rsum_modify _ _ _ _ _ Hn), (rsum_modify asum _ _ _ _ Hn), (rsum_modify (fun u => yv ys u * wR u) _ _ _ _ Hn).
    rewrite rsum_plus, rsum_scal. fold (f0 K l (r_x s)). rewrite Hx.
    assert (Hy : yv ys (f s) = yv ys s) by (unfold yv; rewrite Hi; reflexivity).
    rewrite Hy. unfold dw. field.
  Qed.

  Lemma asum_set k a (s : rsvR) : (k < 2)%nat -> asum (r_set_alpha k a s) - asum s = a - r_alpha s k.
  Proof.
    intros Hk. unfold asum, r_set_alpha, r_alpha. destruct k as [|[|k]]; try lia; cbn; lra.
  Qed.

  Lemma sgn_sq k : (k < 2)%nat -> sgn_of ROps k * sgn_of ROps k = 1.
  Proof. intros Hk. unfold sgn_of, two. rops. destruct k as [|[|k]]; try lia; cbn; lra. Qed.

  Lemma set_alpha_x k a (s : rsvR) : r_x (r_set_alpha k a s) = r_x s /\ r_index (r_set_alpha k a s) = r_index s /\
                                     r_k (r_set_alpha k a s) = r_k s.
  Proof. unfold r_set_alpha. destruct (Nat.eqb k 0); auto. Qed.

  (* writing coefficient (s,k) := a changes W by  da * dW/da + 1/2 da^2 K_ss *)
  Lemma dual_set_alpha v k a l s : (k < 2)%nat -> nth_error l v = Some s ->
    svr_dual (modify v (r_set_alpha k a) l)
    = svr_dual l + (a - r_alpha s k) * true_grad l s k
      + / 2 * ((a - r_alpha s k) * (a - r_alpha s k)) * K (r_x s) (r_x s).
  Proof.
    intros Hk Hn. destruct (set_alpha_x k a s) as (Hx & Hi & _).
    rewrite (dual_modify v _ l s Hn Hx Hi), (asum_set k a s Hk), (wR_set k a s Hk).
    unfold true_grad. pose proof (sgn_sq k Hk) as Hs.
    set (sg := sgn_of ROps k) in *. set (da := a - r_alpha s k).
    replace (wR s + sg * da - wR s) with (sg * da) by ring.
    replace (sg * da * (sg * da)) with ((sg * sg) * (da * da)) by ring. rewrite Hs. ring.
  Qed.

  (* the shape of one step *)
  Lemma svr_step_shape l l' v1 i v2 j delta s1 s2 :
    svr_step ROps K c v1 i v2 j delta l = Some l' ->
    nth_error l v1 = Some s1 -> nth_error l v2 = Some s2 ->
    ~ (v1 = v2 /\ i = j) /\
    exists g,
      (forall v, r_a0 (g v) = r_a0 v /\ r_a1 (g v) = r_a1 v /\ r_x (g v) = r_x v /\ r_index (g v) = r_index v /\
                 r_k (g v) = r_k v) /\
      l' = map g (modify v2 (r_set_alpha j (snd (clip c i j (r_alpha s1 i) (r_alpha s2 j) delta)))
                    (modify v1 (r_set_alpha i (fst (clip c i j (r_alpha s1 i) (r_alpha s2 j) delta))) l)).
  Proof.
    unfold svr_step. intros H E1 E2.
    destruct (Nat.eqb v1 v2 && Nat.eqb i j) eqn:Esame; try discriminate.
    rewrite E1, E2 in H.
    fold (clip c i j (r_alpha s1 i) (r_alpha s2 j) delta) in H.
    destruct (clip c i j (r_alpha s1 i) (r_alpha s2 j) delta) as [ai aj] eqn:Ec.
    inversion H; subst l'; clear H. split.
    - intros [-> ->]. rewrite !Nat.eqb_refl in Esame. discriminate.
    - unfold svr_update_grad. eexists. split; [|cbn [fst snd]; reflexivity].
      intros v. cbn. repeat split; reflexivity.
  Qed.

  (* the exact change of W over one step (any delta) *)
  Lemma svr_step_dual l l' v1 i v2 j delta s1 s2 : (i < 2)%nat -> (j < 2)%nat ->
    svr_step ROps K c v1 i v2 j delta l = Some l' ->
    nth_error l v1 = Some s1 -> nth_error l v2 = Some s2 ->
    let dai := fst (clip c i j (r_alpha s1 i) (r_alpha s2 j) delta) - r_alpha s1 i in
    let daj := snd (clip c i j (r_alpha s1 i) (r_alpha s2 j) delta) - r_alpha s2 j in
    svr_dual l' = svr_dual l + dai * true_grad l s1 i + daj * true_grad l s2 j
                  + / 2 * (dai * dai) * K (r_x s1) (r_x s1) + / 2 * (daj * daj) * K (r_x s2) (r_x s2)
                  + sgn_of ROps i * sgn_of ROps j * dai * daj * K (r_x s1) (r_x s2).
  Proof.
    intros Hi Hj Hs E1 E2.
    destruct (svr_step_shape _ _ _ _ _ _ _ _ _ Hs E1 E2) as (Hne & g & Hg & ->).
    set (ai := fst (clip c i j (r_alpha s1 i) (r_alpha s2 j) delta)).
    set (aj := snd (clip c i j (r_alpha s1 i) (r_alpha s2 j) delta)).
    cbv zeta.
    rewrite dual_map by (intros v; destruct (Hg v) as (A & B & C & D & _); auto).
    set (la := modify v1 (r_set_alpha i ai) l).
    assert (E2a : exists s2', nth_error la v2 = Some s2' /\ r_alpha s2' j = r_alpha s2 j /\
                              r_x s2' = r_x s2 /\ yv ys s2' = yv ys s2).
    { destruct (Nat.eq_dec v1 v2) as [Ev|Ev].
      - subst v2. rewrite E1 in E2. inversion E2; subst s2.
        exists (r_set_alpha i ai s1). split; [unfold la; rewrite nth_error_modify_eq, E1; reflexivity|].
        assert (Hij : i <> j) by (intro; apply Hne; auto).
        split; [apply r_alpha_set_other; auto|].
        destruct (set_alpha_x i ai s1) as (A & B & _). split; [exact A|]. unfold yv. rewrite B. reflexivity.
      - exists s2. split; [unfold la; rewrite nth_error_modify_neq; auto|]. auto. }
    destruct E2a as (s2' & E2' & Hal & Hx2 & Hy2).
    rewrite (dual_set_alpha v2 j aj la s2' Hj E2'). unfold la at 1.
    rewrite (dual_set_alpha v1 i ai l s1 Hi E1).
    unfold true_grad. rewrite Hal, Hx2, Hy2.
    unfold la. rewrite (f0_modify v1 _ l s1 (r_x s2) E1 (proj1 (set_alpha_x i ai s1))), (wR_set i ai s1 Hi).
    ring.
  Qed.

  (* descent: with the optimizer's own step (Newton step of the pair, divisor curv_of) *)
  Hypothesis tau_pos : 0 < tau.

  Lemma svr_step_descent l l' v1 i v2 j s1 s2 : (i < 2)%nat -> (j < 2)%nat ->
    svr_inv c l -> ginv K eps ys l ->
    nth_error l v1 = Some s1 -> nth_error l v2 = Some s2 ->
    r_k s1 = K (r_x s1) (r_x s1) -> r_k s2 = K (r_x s2) (r_x s2) ->
    0 <= K (r_x s1) (r_x s1) + K (r_x s2) (r_x s2) - 2 * K (r_x s1) (r_x s2) ->
    svr_step ROps K c v1 i v2 j (svr_delta ROps K tau s1 s2 i j) l = Some l' ->
    let th := fst (clip c i j (r_alpha s1 i) (r_alpha s2 j) (svr_delta ROps K tau s1 s2 i j)) - r_alpha s1 i in
    svr_dual l' <= svr_dual l
                   - / 2 * curv_of ROps tau (K (r_x s1) (r_x s1)) (K (r_x s2) (r_x s2)) (K (r_x s1) (r_x s2)) * (th * th).
  Proof.
    intros Hi Hj [Hbox _] Hg E1 E2 Hk1 Hk2 Hcv Hs.
    pose proof (svr_step_dual _ _ _ _ _ _ _ _ _ Hi Hj Hs E1 E2) as HW. cbv zeta in HW. cbv zeta.
    assert (Hb1 : r_box c s1) by (eapply Forall_forall; [exact Hbox | eapply nth_error_In; eauto]).
    assert (Hb2 : r_box c s2) by (eapply Forall_forall; [exact Hbox | eapply nth_error_In; eauto]).
    pose proof (r_box_alpha c i _ Hb1) as Ho1. pose proof (r_box_alpha c j _ Hb2) as Ho2.
    assert (G1 : r_grad s1 i = true_grad l s1 i).
    { apply ginv_true_grad; auto. eapply Forall_forall; [exact Hg | eapply nth_error_In; eauto]. }
    assert (G2 : r_grad s2 j = true_grad l s2 j).
    { apply ginv_true_grad; auto. eapply Forall_forall; [exact Hg | eapply nth_error_In; eauto]. }
    destruct (curv_of_psd tau _ _ _ tau_pos Hcv) as (Hcpos & Hc1 & Hc0).
    set (cv := K (r_x s1) (r_x s1) + K (r_x s2) (r_x s2) - 2 * K (r_x s1) (r_x s2)) in *.
    set (curv := curv_of ROps tau (K (r_x s1) (r_x s1)) (K (r_x s2) (r_x s2)) (K (r_x s1) (r_x s2))) in *.
    assert (Hle : cv <= curv).
    { destruct (Rle_lt_or_eq_dec 0 cv Hcv) as [Hp|Hz]; [rewrite (Hc1 Hp); lra | rewrite <- Hz; lra]. }
    set (dl := svr_delta ROps K tau s1 s2 i j) in *.
    set (g1 := true_grad l s1 i) in *. set (g2 := true_grad l s2 j) in *.
    (* the key inequality, in terms of the clipped step th between 0 and dl *)
    assert (Key : forall th, ((0 <= dl -> 0 <= th <= dl) /\ (dl <= 0 -> dl <= th <= 0)) ->
                  - th * (curv * dl) + / 2 * (th * th) * cv <= - / 2 * curv * (th * th)).
    { intros th [Hp Hn].
      assert (Hprod : 0 <= th * (dl - th)).
      { destruct (Rle_dec 0 dl) as [Hd|Hd].
        - destruct (Hp Hd). apply Rmult_le_pos; lra.
        - assert (Hd' : dl <= 0) by lra. destruct (Hn Hd').
          replace (th * (dl - th)) with ((- th) * (th - dl)) by ring. apply Rmult_le_pos; lra. }
      assert (H1 : 0 <= curv * (th * (dl - th))) by (apply Rmult_le_pos; lra).
      assert (H2 : 0 <= (curv - cv) * (th * th)).
      { apply Rmult_le_pos; [lra|]. pose proof (Rle_0_sqr th) as Hq. unfold Rsqr in Hq. exact Hq. }
      nra. }
    unfold clip in *.
    destruct (Nat.eqb i j) eqn:Eij.
    - apply Nat.eqb_eq in Eij. subst j.
      assert (Hd : curv * dl = g1 - g2).
      { unfold dl, svr_delta. rewrite Nat.eqb_refl, Hk1, Hk2, G1, G2. fold curv. rops. field. lra. }
      destruct (svr_clip_eq_between c _ _ dl Ho1 Ho2) as (Hsnd & Hbt).
      set (p := svr_clip_eq ROps c (r_alpha s1 i) (r_alpha s2 i) dl) in *.
      cbv zeta in Hsnd, Hbt. rewrite Hsnd in HW.
      pose proof (Key (r_alpha s1 i - fst p) Hbt) as Hk. rewrite Hd in Hk.
      pose proof (sgn_sq i Hi) as Hsq.
      rewrite HW.
      replace (sgn_of ROps i * sgn_of ROps i * (fst p - r_alpha s1 i) *
               (r_alpha s2 i + (r_alpha s1 i - fst p) - r_alpha s2 i) * K (r_x s1) (r_x s2))
        with ((sgn_of ROps i * sgn_of ROps i) * (- ((fst p - r_alpha s1 i) * (fst p - r_alpha s1 i))) * K (r_x s1) (r_x s2)) by ring.
      rewrite Hsq. unfold cv in Hk. nra.
    - apply Nat.eqb_neq in Eij.
      assert (Hd : curv * dl = - g1 - g2).
      { unfold dl, svr_delta. rewrite (proj2 (Nat.eqb_neq i j) Eij), Hk1, Hk2, G1, G2. fold curv. rops. field. lra. }
      destruct (svr_clip_ne_between c _ _ dl Ho1 Ho2) as (Hsnd & Hbt).
      set (p := svr_clip_ne ROps c (r_alpha s1 i) (r_alpha s2 j) dl) in *.
      cbv zeta in Hsnd, Hbt. rewrite Hsnd in HW.
      pose proof (Key (fst p - r_alpha s1 i) Hbt) as Hk. rewrite Hd in Hk.
      assert (Hsm : sgn_of ROps i * sgn_of ROps j = - 1).
      { unfold sgn_of, two. rops. destruct i as [|[|i]]; destruct j as [|[|j]]; try lia; cbn; lra. }
      rewrite HW, Hsm. unfold cv in Hk. nra.
  Qed.
End Descent.

(* ---------------------------------------------------------------------------------------------- *)
(* the optimizer's iterations                                                                      *)
(* ---------------------------------------------------------------------------------------------- *)
Section Loop.
  Variable K : list R -> list R -> R.
  Variables tau big nbig c tol eps : R.
  Variable xs : list (list R).
  Variable ys : list R.
  Hypothesis K_sym : forall x y, K x y = K y x.
  Hypothesis tau_pos : 0 < tau.
  (* what positive semi-definiteness on the training rows is used for *)
  Hypothesis curv_nonneg : forall x y, In x xs -> In y xs -> 0 <= K x x + K y y - 2 * K x y.

  Notation rsvR := (rsv (T:=R)).

  (* every vector carries a training row and the cached diagonal entry K(x,x) *)
  Definition xk_ok (v : rsvR) : Prop := In (r_x v) xs /\ r_k v = K (r_x v) (r_x v).
  Definition xk (v : rsvR) : list R * R := (r_x v, r_k v).

  Lemma xk_ok_map l l' : map xk l' = map xk l -> Forall xk_ok l -> Forall xk_ok l'.
  Proof.
    revert l'; induction l as [|a l IH]; intros [|b l'] Hm Hf; cbn in Hm; try discriminate; constructor.
    - inversion Hm as [[Hx Hk Hr]]. inversion Hf as [|? ? [A B] _]; subst. unfold xk_ok. rewrite Hx, Hk. auto.
    - inversion Hm. inversion Hf; subst. apply IH; auto.
  Qed.

  Lemma svr_step_xk l l' v1 i v2 j delta s1 s2 :
    svr_step ROps K c v1 i v2 j delta l = Some l' ->
    nth_error l v1 = Some s1 -> nth_error l v2 = Some s2 -> map xk l' = map xk l.
  Proof.
    intros Hs E1 E2. destruct (svr_step_shape K c _ _ _ _ _ _ _ _ _ Hs E1 E2) as (_ & g & Hg & ->).
    rewrite map_map.
    rewrite (map_ext (fun v => xk (g v)) xk).
    2:{ intros v. destruct (Hg v) as (_ & _ & X & _ & Kk). unfold xk. rewrite X, Kk. reflexivity. }
    rewrite !map_modify_same; auto;
      intros a; match goal with |- xk (r_set_alpha ?k ?x a) = _ =>
                  destruct (set_alpha_x k x a) as (X & _ & Kk); unfold xk; rewrite X, Kk; reflexivity end.
  Qed.

  Lemma svr_iter_descent l m l' m' :
    loop_inv K c eps ys l m -> Forall xk_ok l ->
    svr_iter ROps K tau big nbig c l m = Some (l', m') ->
    svr_dual K eps ys l' <= svr_dual K eps ys l /\ Forall xk_ok l'.
  Proof.
    intros (Hinv & Hg & Hidx & _) Hxk. unfold svr_iter, svr_select.
    destruct (nth_error l (mm_svmax m)) as [s1|] eqn:E1; try discriminate.
    destruct (rsel_loop ROps K tau c (r_x s1) (r_k s1) _ l 0 (o0 ROps, mm_svmin m, mm_minidx m)) as [[best v2] j] eqn:Es.
    rewrite E1.
    destruct (nth_error l v2) as [s2|] eqn:E2; try discriminate.
    destruct (svr_step ROps K c (mm_svmax m) (mm_maxidx m) v2 j _ l) as [l1|] eqn:Est; try discriminate.
    intros H; inversion H; subst; clear H.
    assert (Hj : (j < 2)%nat).
    { pose proof (rsel_loop_idx K tau c (r_x s1) (r_k s1)
                    (if Nat.eqb (mm_maxidx m) 0 then oneg ROps (r_g0 s1) else r_g1 s1) l 0
                    (o0 ROps, mm_svmin m, mm_minidx m)) as Hs.
      rewrite Es in Hs. cbn [snd] in Hs. apply Hs. apply Hidx. }
    destruct (proj1 (Forall_forall _ _) Hxk s1 (nth_error_In _ _ E1)) as [X1 K1].
    destruct (proj1 (Forall_forall _ _) Hxk s2 (nth_error_In _ _ E2)) as [X2 K2].
    pose proof (svr_step_descent K tau c eps ys K_sym tau_pos l l' _ _ _ _ s1 s2 (proj2 Hidx) Hj Hinv Hg E1 E2 K1 K2
                  (curv_nonneg _ _ X1 X2) Est) as HW. cbv zeta in HW.
    destruct (curv_of_psd tau _ _ _ tau_pos (curv_nonneg _ _ X1 X2)) as (Hcp & _).
    split.
    - match type of HW with _ <= _ - / 2 * ?cu * (?t * ?t) =>
        assert (Hq : 0 <= / 2 * cu * (t * t))
          by (apply Rmult_le_pos; [lra | pose proof (Rle_0_sqr t) as Hq; unfold Rsqr in Hq; exact Hq]) end.
      lra.
    - apply (xk_ok_map l l'); [|exact Hxk]. eapply svr_step_xk; eauto.
  Qed.

  Lemma svr_loop_descent fuel : forall l m l' m',
    loop_inv K c eps ys l m -> Forall xk_ok l ->
    svr_loop ROps K tau big nbig c tol fuel l m = Some (l', m') ->
    svr_dual K eps ys l' <= svr_dual K eps ys l.
  Proof.
    induction fuel as [|f IH]; intros l m l' m' Hinv Hxk; cbn [svr_loop]; rops.
    - destruct (Rltb tol (mm_gmax m - mm_gmin m)); try discriminate.
      intros H; inversion H; subst. lra.
    - destruct (Rltb tol (mm_gmax m - mm_gmin m)).
      + destruct (svr_iter ROps K tau big nbig c l m) as [[l1 m1]|] eqn:Ei; try discriminate.
        intros H. destruct (svr_iter_inv K tau big nbig c eps ys _ _ _ _ Hinv Ei) as [Hinv1 _].
        destruct (svr_iter_descent _ _ _ _ Hinv Hxk Ei) as [HW Hxk1].
        pose proof (IH _ _ _ _ Hinv1 Hxk1 H). lra.
      + intros H; inversion H; subst. lra.
  Qed.

  Lemma svr_init_k : forall lx ly k,
    Forall (fun v => r_k v = K (r_x v) (r_x v)) (svr_init ROps K eps k lx ly).
  Proof.
    induction lx as [|x lx IH]; intros [|y ly] k; cbn [svr_init]; constructor; [reflexivity | apply IH].
  Qed.

  Hypothesis c_pos : 0 < c.
  Hypothesis len_eq : length xs = length ys.

  Lemma svr_dual_init : svr_dual K eps ys (svr_init ROps K eps 0 xs ys) = 0.
  Proof.
    destruct (svr_init_spec K eps xs ys 0) as [A _].
    set (l := svr_init ROps K eps 0 xs ys) in *.
    assert (Hz : forall v, In v l -> r_a0 v = 0 /\ r_a1 v = 0).
    { intros v Hv. destruct (proj1 (Forall_forall _ _) A v Hv) as (H0 & H1 & _). auto. }
    unfold svr_dual.
    rewrite (rsum_zero (fun u => wR u * f0 K l (r_x u))), (rsum_zero asum), (rsum_zero (fun u => yv ys u * wR u)).
    - lra.
    - intros v Hv. destruct (Hz v Hv) as [A0 A1]. unfold wR. rewrite A0, A1. lra.
    - intros v Hv. destruct (Hz v Hv) as [A0 A1]. unfold asum. rewrite A0, A1. lra.
    - intros v Hv. destruct (Hz v Hv) as [A0 A1]. unfold wR. rewrite A0, A1. lra.
  Qed.

  (* whenever the optimizer returns, its coefficients are at least as good as the all-zero start *)
  Lemma svr_smo_dual_nonpos fuel l m :
    svr_smo ROps K tau big nbig c tol fuel eps xs ys = Some (l, m) -> svr_dual K eps ys l <= 0.
  Proof.
    unfold svr_smo. intros H.
    destruct (svr_init_inv K c eps xs ys c_pos len_eq) as (Hinv0 & Hg0 & Hidx0 & Hx0).
    set (l0 := svr_init ROps K eps 0 xs ys) in *.
    assert (Hl0 : loop_inv K c eps ys l0 (rfind_min_max ROps big nbig c l0 (mm0 big nbig))).
    { destruct (rfind_min_max_spec K big nbig c ys l0 (mm0 big nbig)) as [Hc Hi].
      split; auto. split; auto. split; auto. apply Hi. unfold mm_idx_ok, mm0; cbn; lia. }
    assert (Hxk0 : Forall xk_ok l0).
    { apply Forall_forall. intros v Hv. split.
      - eapply nth_error_In. exact (proj1 (Forall_forall _ _) Hx0 v Hv).
      - exact (proj1 (Forall_forall _ _) (svr_init_k xs ys 0) v Hv). }
    pose proof (svr_loop_descent _ _ _ _ _ Hl0 Hxk0 H) as HW.
    unfold l0 in HW. rewrite svr_dual_init in HW. exact HW.
  Qed.
End Loop.

(* ---------------------------------------------------------------------------------------------- *)
(* statements with the positive semi-definiteness hypothesis in its standard form                  *)
(* ---------------------------------------------------------------------------------------------- *)
Definition psd_on_rows (K : list R -> list R -> R) (xs : list (list R)) : Prop :=
  forall cxs : list (R * list R), (forall a, In a cxs -> In (snd a) xs) ->
    0 <= rsum (fun a => rsum (fun b => fst a * fst b * K (snd a) (snd b)) cxs) cxs.

Lemma psd_on_rows_curv K xs : (forall x y, K x y = K y x) -> psd_on_rows K xs ->
  forall x y, In x xs -> In y xs -> 0 <= K x x + K y y - 2 * K x y.
Proof.
  intros Hsym Hpsd x y Hx Hy. apply (psd_curvature (fun r => In r xs) K x y); auto.
Qed.

(* the dual objective, written out *)
Lemma svr_dual_form K eps ys (l : list (rsv (T:=R))) :
  svr_dual K eps ys l
  = / 2 * rsum (fun u => rsum (fun v => wR u * wR v * K (r_x v) (r_x u)) l) l
    + eps * rsum (fun u => r_a0 u + r_a1 u) l
    - rsum (fun u => nth (r_index u) ys 0 * wR u) l.
Proof.
  unfold svr_dual, f0, asum, yv. f_equal. f_equal. f_equal.
  apply rsum_ext. intros u _. rewrite <- rsum_scal. apply rsum_ext. intros v _. ring.
Qed.

Lemma svr_loop_descent_psd K tau big nbig c tol eps xs ys :
  (forall x y, K x y = K y x) -> 0 < tau -> psd_on_rows K xs ->
  forall fuel l m l' m',
  loop_inv K c eps ys l m -> Forall (xk_ok K xs) l ->
  svr_loop ROps K tau big nbig c tol fuel l m = Some (l', m') ->
  svr_dual K eps ys l' <= svr_dual K eps ys l.
Proof.
  intros Hsym Ht Hpsd fuel l m l' m'.
  exact (svr_loop_descent K tau big nbig c tol eps xs ys Hsym Ht (psd_on_rows_curv K xs Hsym Hpsd) fuel l m l' m').
Qed.

Lemma svr_smo_dual_nonpos_psd K tau big nbig c tol eps xs ys :
  (forall x y, K x y = K y x) -> 0 < tau -> psd_on_rows K xs -> 0 < c -> length xs = length ys ->
  forall fuel l m,
  svr_smo ROps K tau big nbig c tol fuel eps xs ys = Some (l, m) -> svr_dual K eps ys l <= 0.
Proof.
  intros Hsym Ht Hpsd Hc Hlen fuel l m.
  exact (svr_smo_dual_nonpos K tau big nbig c tol eps xs ys Hsym Ht (psd_on_rows_curv K xs Hsym Hpsd) Hc Hlen fuel l m).
Qed.

(* a concrete state on which every hypothesis of the step-descent statement holds: the initial state of
   a two-row problem (linear kernel, C = 1, eps = 1/4), pair ((1,1),(0,0)) *)
Lemma svr_step_descent_instance :
  let K := k_linear ROps in
  let l := svr_init ROps K (1/4) 0 [[1]; [2]] [1; 3] in
  exists s1 s2 l',
    svr_inv 1 l /\ ginv K (1/4) [1; 3] l /\
    nth_error l 1 = Some s1 /\ nth_error l 0 = Some s2 /\
    r_k s1 = K (r_x s1) (r_x s1) /\ r_k s2 = K (r_x s2) (r_x s2) /\
    0 <= K (r_x s1) (r_x s1) + K (r_x s2) (r_x s2) - 2 * K (r_x s1) (r_x s2) /\
    svr_step ROps K 1 1 1 0 0 (svr_delta ROps K (1/1000) s1 s2 1 0) l = Some l'.
Proof.
  cbv zeta.
  destruct (svr_init_inv (k_linear ROps) 1 (1/4) [[1]; [2]] [1; 3] Rlt_0_1 eq_refl) as (Hinv & Hg & _).
  cbn [svr_init] in *.
  eexists _, _.
  match goal with |- exists l', _ /\ _ /\ _ /\ _ /\ _ /\ _ /\ _ /\ ?st = Some l' =>
    destruct st as [l1|] eqn:Est end.
  - exists l1. split; [exact Hinv|]. split; [exact Hg|]. split; [reflexivity|]. split; [reflexivity|].
    split; [reflexivity|]. split; [reflexivity|]. split; [|reflexivity].
    destruct (builtin_curvature 0 0 0 0%nat [2] [1] (Rle_refl 0) (Rle_refl 0)) as [H _]. exact H.
  - exfalso. unfold svr_step in Est. cbn [Nat.eqb andb nth_error] in Est.
    match type of Est with (let '(ai, aj) := ?p in _) = None => destruct p end. discriminate.
Qed.

(* the dual objective is bounded below on the feasible box when the kernel is PSD on the training rows:
   W >= - C sum_u |y_u|   (the quadratic term is a Gram quadratic form, eps sum(a0+a1) >= 0, |w_u| <= C) *)
Lemma svr_dual_lower_bound K c eps xs ys (l : list (rsv (T:=R))) :
  (forall x y, K x y = K y x) -> psd_on_rows K xs -> 0 <= eps ->
  svr_inv c l -> Forall (fun v => In (r_x v) xs) l ->
  - c * rsum (fun u => Rabs (nth (r_index u) ys 0)) l <= svr_dual K eps ys l.
Proof.
  intros Hsym Hpsd Heps [Hbox _] Hrows.
  rewrite svr_dual_form.
  assert (HQ : 0 <= rsum (fun u => rsum (fun v => wR u * wR v * K (r_x v) (r_x u)) l) l).
  { pose proof (Hpsd (map (fun u => (wR u, r_x u)) l)) as H.
    rewrite rsum_map in H. cbn [fst snd] in H.
    erewrite rsum_ext; [apply H|].
    - intros a Ha. apply in_map_iff in Ha. destruct Ha as (u & <- & Hu). cbn [snd].
      exact (proj1 (Forall_forall _ _) Hrows u Hu).
    - intros u _. cbn beta. rewrite rsum_map. apply rsum_ext. intros v _. cbn [fst snd].
      rewrite (Hsym (r_x v) (r_x u)). reflexivity. }
  assert (HA : 0 <= rsum (fun u => r_a0 u + r_a1 u) l).
  { apply rsum_nonneg. intros u Hu. destruct (proj1 (Forall_forall _ _) Hbox u Hu) as [[A _] [B _]]. lra. }
  assert (HY : rsum (fun u => nth (r_index u) ys 0 * wR u) l <= c * rsum (fun u => Rabs (nth (r_index u) ys 0)) l).
  { rewrite <- rsum_scal. clear HQ HA Hrows. induction l as [|u l IH]; cbn [rsum]; [lra|].
    inversion Hbox as [|? ? [[A0 A0'] [A1 A1']] Hb']; subst. specialize (IH Hb').
    assert (Hu : nth (r_index u) ys 0 * wR u <= c * Rabs (nth (r_index u) ys 0)).
    { unfold wR. set (y := nth (r_index u) ys 0).
      unfold Rabs. destruct (Rcase_abs y); nra. }
    lra. }
  assert (0 <= eps * rsum (fun u => r_a0 u + r_a1 u) l) by (apply Rmult_le_pos; assumption).
  lra.
Qed.
