(* C10 — SVM.  Executable model (definitions only), generic in the scalar operations `Ops T`:
   a transliteration of src/svm/mod.rs (kernels), src/svm/svc.rs (online LASVM-style optimizer with
   pairwise SMO updates clipped to the box) and src/svm/svr.rs (second-order working-set SMO for
   epsilon-SVR).  Same loop order, same comparison direction (boolean comparisons of the record, so
   NaN behaves as in Rust), same stale-index behaviour; an index panic / exhausted fuel is `None`.
   The kernel caches of both optimizers are transparent (they memoise a pure, bitwise symmetric
   function of two training rows) and are not modelled.  The only non-determinism of the Rust code,
   the visiting orders drawn by `Optimizer::permutate` (unseeded thread_rng), is an explicit argument. *)
From Coq Require Import List ZArith Bool Arith.
From SC Require Import Base.Num.
Import ListNotations.

Section Generic.
  Context {T : Type} (O : Ops T).

  Local Notation "a +. b" := (O.(oadd) a b) (at level 50, left associativity).
  Local Notation "a -. b" := (O.(osub) a b) (at level 50, left associativity).
  Local Notation "a *. b" := (O.(omul) a b) (at level 40, left associativity).
  Local Notation "a /. b" := (O.(odiv) a b) (at level 40, left associativity).
  Local Notation "a <. b" := (O.(oltb) a b) (at level 70, no associativity).
  Local Notation "a <=. b" := (O.(oleb) a b) (at level 70, no associativity).
  Local Notation "a ==. b" := (O.(oeqb) a b) (at level 70, no associativity).
  Local Notation "-. a" := (O.(oneg) a) (at level 35, right associativity).
  Local Notation zero := (O.(o0)).
  Local Notation one := (O.(o1)).

  Definition two : T := one +. one.

  (* ------------------------------------------------------------------------------------------ *)
  (* Kernels (src/svm/mod.rs)                                                                   *)
  (* ------------------------------------------------------------------------------------------ *)
  (* BaseVector::dot for Vec<T>: result = 0; for i: result += x[i]*y[i] *)
  Fixpoint dot_acc (acc : T) (x y : list T) : T :=
    match x, y with
    | a :: x', b :: y' => dot_acc (acc +. a *. b) x' y'
    | _, _ => acc
    end.
  Definition dot (x y : list T) : T := dot_acc zero x y.

  (* x_i.sub(x_j) then v_diff.mul(&v_diff).sum() *)
  Fixpoint sqdist_acc (acc : T) (x y : list T) : T :=
    match x, y with
    | a :: x', b :: y' => let d := a -. b in sqdist_acc (acc +. d *. d) x' y'
    | _, _ => acc
    end.
  Definition sqdist (x y : list T) : T := sqdist_acc zero x y.

  Definition k_linear (x y : list T) : T := dot x y.
  Definition k_rbf (gamma : T) (x y : list T) : T := O.(oexp) ((-. gamma) *. sqdist x y).
  (* powf / tanh are not fields of Ops: passed in (R: real power / tanh; binary64: Base.Elem) *)
  Definition k_poly (pw : T -> T -> T) (degree gamma coef0 : T) (x y : list T) : T :=
    pw (gamma *. dot x y +. coef0) degree.
  Definition k_sigmoid (th : T -> T) (gamma coef0 : T) (x y : list T) : T :=
    th (gamma *. dot x y +. coef0).

  (* natural-number power (the closed form of powf for an integer degree) and tanh through exp *)
  Fixpoint opown (b : T) (n : nat) : T :=
    match n with 0 => one | S k => b *. opown b k end.
  Definition otanh (z : T) : T :=
    let e := O.(oexp) (two *. z) in (e -. one) /. (e +. one).

  (* ------------------------------------------------------------------------------------------ *)
  (* Shared by both optimizers                                                                   *)
  (* ------------------------------------------------------------------------------------------ *)
  Variable K : list T -> list T -> T.      (* parameters.kernel.apply *)
  Variable tau : T.                        (* T::from_f64(1e-12) *)
  Variable big : T.                        (* T::max_value() *)
  Variable nbig : T.                       (* T::min_value() *)

  Definition curv_of (k1 k2 k12 : T) : T :=
    let c := k1 +. k2 -. two *. k12 in if c <=. zero then tau else c.

  (* f = b; for i: f += w[i] * K(x, instances[i])      (SVC::predict_for_row, SVR::predict_for_row) *)
  Fixpoint expansion_acc (f : T) (inst : list (list T)) (w : list T) (x : list T) : T :=
    match inst, w with
    | s :: inst', wi :: w' => expansion_acc (f +. wi *. K x s) inst' w' x
    | _, _ => f
    end.
  Definition decision (inst : list (list T)) (w : list T) (b : T) (x : list T) : T :=
    expansion_acc b inst w x.

  (* ------------------------------------------------------------------------------------------ *)
  (* SVC (src/svm/svc.rs)                                                                        *)
  (* ------------------------------------------------------------------------------------------ *)
  Record sv := mkSV {
    sv_index : nat; sv_x : list T; sv_alpha : T; sv_grad : T; sv_cmin : T; sv_cmax : T; sv_k : T }.

  Record svc_st := mkSt {
    st_sv : list sv; st_svmin : nat; st_svmax : nat; st_gmin : T; st_gmax : T; st_recalc : bool }.

  Definition st_with_sv (st : svc_st) (l : list sv) : svc_st :=
    mkSt l st.(st_svmin) st.(st_svmax) st.(st_gmin) st.(st_gmax) st.(st_recalc).

  Definition set_alpha (v : sv) (a : T) : sv :=
    mkSV v.(sv_index) v.(sv_x) a v.(sv_grad) v.(sv_cmin) v.(sv_cmax) v.(sv_k).
  Definition set_grad (v : sv) (g : T) : sv :=
    mkSV v.(sv_index) v.(sv_x) v.(sv_alpha) g v.(sv_cmin) v.(sv_cmax) v.(sv_k).

  Fixpoint modify {A} (i : nat) (f : A -> A) (l : list A) : list A :=
    match l, i with
    | [], _ => []
    | a :: l', 0 => f a :: l'
    | a :: l', S i' => a :: modify i' f l'
    end.

  (* SupportVector::new *)
  Definition new_sv (c : T) (i : nat) (x : list T) (y g : T) : sv :=
    let '(cmin, cmax) := if zero <. y then (zero, c) else (-. c, zero) in
    mkSV i x zero g cmin cmax (K x x).

  (* find_min_max_gradient: the loop body *)
  Fixpoint fmm_loop (l : list sv) (i : nat) (acc : nat * nat * T * T) : nat * nat * T * T :=
    match l with
    | [] => acc
    | v :: l' =>
        let '(smin, smax, gmin, gmax) := acc in
        let g := v.(sv_grad) in
        let a := v.(sv_alpha) in
        let '(smin, gmin) := if (g <. gmin) && (v.(sv_cmin) <. a) then (i, g) else (smin, gmin) in
        let '(smax, gmax) := if (gmax <. g) && (a <. v.(sv_cmax)) then (i, g) else (smax, gmax) in
        fmm_loop l' (S i) (smin, smax, gmin, gmax)
    end.

  Definition find_min_max (st : svc_st) : svc_st :=
    if negb st.(st_recalc) then st
    else
      let '(smin, smax, gmin, gmax) := fmm_loop st.(st_sv) 0 (st.(st_svmin), st.(st_svmax), big, nbig) in
      mkSt st.(st_sv) smin smax gmin gmax false.

  (* the predicate of `retain` in clean, negated: true = the vector is dropped *)
  Definition clean_drops (gmin gmax : T) (v : sv) : bool :=
    (v.(sv_alpha) ==. zero) &&
    (((gmax <=. v.(sv_grad)) && (v.(sv_cmax) <=. zero)) || ((v.(sv_grad) <=. gmin) && (zero <=. v.(sv_cmin)))).

  Definition clean (st : svc_st) : svc_st :=
    let st := find_min_max st in
    mkSt (filter (fun v => negb (clean_drops st.(st_gmin) st.(st_gmax) v)) st.(st_sv))
         st.(st_svmin) st.(st_svmax) st.(st_gmin) st.(st_gmax) true.

  (* select_pair (Some idx_1, None): the loop *)
  Fixpoint sel1_loop (x1 : list T) (km gm : T) (l : list sv) (i : nat) (best : T) (res : option (nat * T))
    : option (nat * T) :=
    match l with
    | [] => res
    | v :: l' =>
        let z := v.(sv_grad) -. gm in
        let k := K x1 v.(sv_x) in
        let curv := curv_of km v.(sv_k) k in
        let mu := z /. curv in
        if ((zero <. mu) && (v.(sv_alpha) <. v.(sv_cmax))) || ((mu <. zero) && (v.(sv_cmin) <. v.(sv_alpha))) then
          let gain := z *. mu in
          if best <. gain then sel1_loop x1 km gm l' (S i) gain (Some (i, k))
          else sel1_loop x1 km gm l' (S i) best res
        else sel1_loop x1 km gm l' (S i) best res
    end.

  (* select_pair (None, Some idx_2): the loop *)
  Fixpoint sel2_loop (x2 : list T) (km gm : T) (l : list sv) (i : nat) (best : T) (res : option (nat * T))
    : option (nat * T) :=
    match l with
    | [] => res
    | v :: l' =>
        let z := gm -. v.(sv_grad) in
        let k := K x2 v.(sv_x) in
        let curv := curv_of km v.(sv_k) k in
        let mu := z /. curv in
        if ((zero <. mu) && (v.(sv_cmin) <. v.(sv_alpha))) || ((mu <. zero) && (v.(sv_alpha) <. v.(sv_cmax))) then
          let gain := z *. mu in
          if best <. gain then sel2_loop x2 km gm l' (S i) gain (Some (i, k))
          else sel2_loop x2 km gm l' (S i) best res
        else sel2_loop x2 km gm l' (S i) best res
    end.

  (* outer None: index out of bounds (a panic in Rust); inner None: no pair *)
  Definition select_first (idx_1 : nat) (st : svc_st) : option (option (nat * nat * T)) :=
    match nth_error st.(st_sv) idx_1 with
    | None => None
    | Some v1 =>
        Some (match sel1_loop v1.(sv_x) v1.(sv_k) v1.(sv_grad) st.(st_sv) 0 zero None with
              | Some (i2, k) => Some (idx_1, i2, k)
              | None => None
              end)
    end.
  Definition select_second (idx_2 : nat) (st : svc_st) : option (option (nat * nat * T)) :=
    match nth_error st.(st_sv) idx_2 with
    | None => None
    | Some v2 =>
        Some (match sel2_loop v2.(sv_x) v2.(sv_k) v2.(sv_grad) st.(st_sv) 0 zero None with
              | Some (i1, k) => Some (i1, idx_2, k)
              | None => None
              end)
    end.

  Definition select_pair (idx_1 idx_2 : option nat) (st : svc_st) : option (option (nat * nat * T)) :=
    match idx_1, idx_2 with
    | None, None =>
        if (-. st.(st_gmin)) <. st.(st_gmax) then select_second st.(st_svmax) st
        else select_first st.(st_svmin) st
    | Some i1, None => select_first i1 st
    | None, Some i2 => select_second i2 st
    | Some i1, Some i2 =>
        match nth_error st.(st_sv) i1, nth_error st.(st_sv) i2 with
        | Some v1, Some v2 => Some (Some (i1, i2, K v1.(sv_x) v2.(sv_x)))
        | _, _ => None
        end
    end.

  (* the clipping of `smo`: the raw step is cut to the box of both coefficients *)
  Definition smo_clip (a1 cmin1 cmax1 a2 cmin2 cmax2 step : T) : T :=
    if zero <=. step then
      let ostep := a1 -. cmin1 in
      let step := if ostep <. step then ostep else step in
      let ostep := cmax2 -. a2 in
      if ostep <. step then ostep else step
    else
      let ostep := cmin2 -. a2 in
      let step := if step <. ostep then ostep else step in
      let ostep := a1 -. cmax1 in
      if step <. ostep then ostep else step.

  Definition update_alpha (v1 v2 : nat) (step : T) (l : list sv) : list sv :=
    modify v2 (fun v => set_alpha v (v.(sv_alpha) +. step))
      (modify v1 (fun v => set_alpha v (v.(sv_alpha) -. step)) l).

  Definition update_grad (x1 x2 : list T) (step : T) (l : list sv) : list sv :=
    map (fun v => set_grad v (v.(sv_grad) -. step *. (K x2 v.(sv_x) -. K x1 v.(sv_x)))) l.

  (* Optimizer::update *)
  Definition update (v1 v2 : nat) (step : T) (st : svc_st) : option svc_st :=
    match nth_error st.(st_sv) v1, nth_error st.(st_sv) v2 with
    | Some s1, Some s2 =>
        let l := update_grad s1.(sv_x) s2.(sv_x) step (update_alpha v1 v2 step st.(st_sv)) in
        Some (find_min_max (mkSt l st.(st_svmin) st.(st_svmax) st.(st_gmin) st.(st_gmax) true))
    | _, _ => None
    end.

  (* the body of `smo` once the pair is chosen: raw step, clipping, update.
     Returns the raw step as well (the trace hook records it). *)
  Definition smo_pair (i1 i2 : nat) (k12 : T) (st : svc_st) : option (svc_st * T) :=
    match nth_error st.(st_sv) i1, nth_error st.(st_sv) i2 with
    | Some s1, Some s2 =>
        let curv := curv_of s1.(sv_k) s2.(sv_k) k12 in
        let raw := (s2.(sv_grad) -. s1.(sv_grad)) /. curv in
        let step := smo_clip s1.(sv_alpha) s1.(sv_cmin) s1.(sv_cmax) s2.(sv_alpha) s2.(sv_cmin) s2.(sv_cmax) raw in
        match update i1 i2 step st with
        | Some st' => Some (st', raw)
        | None => None
        end
    | _, _ => None
    end.

  Definition smo (idx_1 idx_2 : option nat) (tol : T) (st : svc_st) : option (svc_st * bool) :=
    match select_pair idx_1 idx_2 st with
    | None => None
    | Some None => Some (st, false)
    | Some (Some (i1, i2, k12)) =>
        match smo_pair i1 i2 k12 st with
        | Some (st', _) => Some (st', tol <. (st'.(st_gmax) -. st'.(st_gmin)))
        | None => None
        end
    end.

  Variable c : T.          (* parameters.c *)
  Variable tol : T.        (* parameters.tol *)

  (* g = y; for v in sv: g -= v.alpha * K(v.x, x) *)
  Definition process_grad (l : list sv) (x : list T) (y : T) : T :=
    fold_left (fun g v => g -. v.(sv_alpha) *. K v.(sv_x) x) l y.

  Definition process (i : nat) (x : list T) (y : T) (st : svc_st) : option (svc_st * bool) :=
    if existsb (fun v => Nat.eqb v.(sv_index) i) st.(st_sv) then Some (st, true)
    else
      let g := process_grad st.(st_sv) x y in
      let st := find_min_max st in
      if (st.(st_gmin) <. st.(st_gmax)) &&
         (((zero <. y) && (g <. st.(st_gmin))) || ((y <. zero) && (st.(st_gmax) <. g)))
      then Some (st, false)
      else
        let st := st_with_sv st (new_sv c i x y g :: st.(st_sv)) in
        match (if zero <. y then smo None (Some 0) zero st else smo (Some 0) None zero st) with
        | Some (st', _) => Some (st', true)
        | None => None
        end.

  Definition reprocess (st : svc_st) : option (svc_st * bool) :=
    match smo None None tol st with
    | Some (st', status) => Some (clean st', status)
    | None => None
    end.

  (* while self.smo(None, None, tol) && max_iter > 0 { max_iter -= 1 } *)
  Fixpoint finish_loop (max_iter : nat) (st : svc_st) : option svc_st :=
    match smo None None tol st with
    | None => None
    | Some (st', r) =>
        if r then match max_iter with 0 => Some st' | S m => finish_loop m st' end
        else Some st'
    end.
  Definition finish (st : svc_st) : option svc_st :=
    match finish_loop (length st.(st_sv)) st with
    | Some st' => Some (clean st')
    | None => None
    end.

  Definition thousand : T := O.(oofZ) 1000%Z.

  (* loop { reprocess; find_min_max_gradient; if gmax - gmin < 1000 { break } } *)
  Fixpoint settle (fuel : nat) (st : svc_st) : option svc_st :=
    match fuel with
    | 0 => None
    | S f =>
        match reprocess st with
        | None => None
        | Some (st1, _) =>
            let st2 := find_min_max st1 in
            if (st2.(st_gmax) -. st2.(st_gmin)) <. thousand then Some st2 else settle f st2
        end
    end.

  Variable xs : list (list T).     (* rows of the training matrix *)
  Variable ys : list T.            (* labels already mapped to -1 / +1 *)

  (* one epoch: for i in perm { process(i); settle } *)
  Fixpoint epoch_loop (fuel : nat) (perm : list nat) (st : svc_st) : option svc_st :=
    match perm with
    | [] => Some st
    | i :: perm' =>
        match nth_error xs i, nth_error ys i with
        | Some x, Some y =>
            match process i x y st with
            | None => None
            | Some (st1, _) =>
                match settle fuel st1 with
                | None => None
                | Some st2 => epoch_loop fuel perm' st2
                end
            end
        | _, _ => None
        end
    end.

  Fixpoint epochs (fuel : nat) (perms : list (list nat)) (st : svc_st) : option svc_st :=
    match perms with
    | [] => Some st
    | p :: perms' =>
        match epoch_loop fuel p st with
        | None => None
        | Some st' => epochs fuel perms' st'
        end
    end.

  (* Optimizer::initialize with few = 5 *)
  Fixpoint init_loop (perm : list nat) (cp cn : nat) (st : svc_st) : option svc_st :=
    match perm with
    | [] => Some st
    | i :: perm' =>
        match nth_error xs i, nth_error ys i with
        | Some x, Some y =>
            let r :=
              if (y ==. one) && (cp <? 5) then
                match process i x y st with
                | None => None
                | Some (st', ok) => Some (st', (if ok then S cp else cp), cn)
                end
              else if (y ==. (-. one)) && (cn <? 5) then
                match process i x y st with
                | None => None
                | Some (st', ok) => Some (st', cp, (if ok then S cn else cn))
                end
              else Some (st, cp, cn) in
            match r with
            | None => None
            | Some (st', cp', cn') =>
                if (5 <=? cp') && (5 <=? cn') then Some st' else init_loop perm' cp' cn' st'
            end
        | _, _ => None
        end
    end.

  Definition st0 : svc_st := mkSt [] 0 0 big nbig true.

  (* Optimizer::optimize.  perm0 = the order drawn by initialize, perms = one order per epoch.
     Result: the final state and b; (instances, w) are its support vectors' (x, alpha). *)
  Definition optimize (fuel : nat) (perm0 : list nat) (perms : list (list nat)) : option (svc_st * T) :=
    match init_loop perm0 0 0 st0 with
    | None => None
    | Some st1 =>
        match epochs fuel perms st1 with
        | None => None
        | Some st2 =>
            match finish st2 with
            | None => None
            | Some st3 => Some (st3, (st3.(st_gmax) +. st3.(st_gmin)) /. two)
            end
        end
    end.

  (* ------------------------------------------------------------------------------------------ *)
  (* SVR (src/svm/svr.rs)                                                                        *)
  (* ------------------------------------------------------------------------------------------ *)
  Record rsv := mkRSV {
    r_index : nat; r_x : list T; r_a0 : T; r_a1 : T; r_g0 : T; r_g1 : T; r_k : T }.

  (* (svmin, gminindex, svmax, gmaxindex, gmin, gmax) *)
  Record svr_mm := mkMM {
    mm_svmin : nat; mm_minidx : nat; mm_svmax : nat; mm_maxidx : nat; mm_gmin : T; mm_gmax : T }.

  Definition r_alpha (v : rsv) (i : nat) : T := if Nat.eqb i 0 then v.(r_a0) else v.(r_a1).
  Definition r_grad (v : rsv) (i : nat) : T := if Nat.eqb i 0 then v.(r_g0) else v.(r_g1).
  Definition r_set_alpha (i : nat) (a : T) (v : rsv) : rsv :=
    if Nat.eqb i 0 then mkRSV v.(r_index) v.(r_x) a v.(r_a1) v.(r_g0) v.(r_g1) v.(r_k)
    else mkRSV v.(r_index) v.(r_x) v.(r_a0) a v.(r_g0) v.(r_g1) v.(r_k).

  (* SupportVector::new *)
  Definition new_rsv (eps : T) (i : nat) (x : list T) (y : T) : rsv :=
    mkRSV i x zero zero (eps +. y) (eps -. y) (K x x).

  (* find_min_max_gradient (svr.rs): four tests per vector, in the order of the code *)
  Definition rfmm_body (v : rsv) (i : nat) (m : svr_mm) : svr_mm :=
    let g := -. v.(r_g0) in
    let a := v.(r_a0) in
    let m := if (g <. m.(mm_gmin)) && (zero <. a)
             then mkMM i 0 m.(mm_svmax) m.(mm_maxidx) g m.(mm_gmax) else m in
    let m := if (m.(mm_gmax) <. g) && (a <. c)
             then mkMM m.(mm_svmin) m.(mm_minidx) i 0 m.(mm_gmin) g else m in
    let g := v.(r_g1) in
    let a := v.(r_a1) in
    let m := if (g <. m.(mm_gmin)) && (a <. c)
             then mkMM i 1 m.(mm_svmax) m.(mm_maxidx) g m.(mm_gmax) else m in
    if (m.(mm_gmax) <. g) && (zero <. a)
    then mkMM m.(mm_svmin) m.(mm_minidx) i 1 m.(mm_gmin) g else m.
  Fixpoint rfmm_loop (l : list rsv) (i : nat) (m : svr_mm) : svr_mm :=
    match l with
    | [] => m
    | v :: l' => rfmm_loop l' (S i) (rfmm_body v i m)
    end.
  Definition rfind_min_max (l : list rsv) (m : svr_mm) : svr_mm :=
    rfmm_loop l 0 (mkMM m.(mm_svmin) m.(mm_minidx) m.(mm_svmax) m.(mm_maxidx) big nbig).

  (* second-order selection of the second coefficient: (best, v2, j) *)
  Definition rsel_body (x1 : list T) (k1 gi : T) (v : rsv) (jj : nat) (acc : T * nat * nat) : T * nat * nat :=
    let curv := curv_of k1 v.(r_k) (K x1 v.(r_x)) in
    let '(best, v2, j) := acc in
    let gj := -. v.(r_g0) in
    let acc :=
      if (zero <. v.(r_a0)) && (gj <. gi) then
        let gain := (-. ((gi -. gj) *. (gi -. gj))) /. curv in
        if gain <. best then (gain, jj, 0) else (best, v2, j)
      else (best, v2, j) in
    let '(best, v2, j) := acc in
    let gj := v.(r_g1) in
    if (v.(r_a1) <. c) && (gj <. gi) then
      let gain := (-. ((gi -. gj) *. (gi -. gj))) /. curv in
      if gain <. best then (gain, jj, 1) else (best, v2, j)
    else (best, v2, j).
  Fixpoint rsel_loop (x1 : list T) (k1 gi : T) (l : list rsv) (jj : nat) (acc : T * nat * nat) : T * nat * nat :=
    match l with
    | [] => acc
    | v :: l' => rsel_loop x1 k1 gi l' (S jj) (rsel_body x1 k1 gi v jj acc)
    end.

  (* clipping when the two coefficients are of different kind (i != j): both move by delta *)
  Definition svr_clip_ne (ai aj delta : T) : T * T :=
    let diff := ai -. aj in
    let ai := ai +. delta in
    let aj := aj +. delta in
    let '(ai, aj) :=
      if zero <. diff then (if aj <. zero then (diff, zero) else (ai, aj))
      else (if ai <. zero then (zero, -. diff) else (ai, aj)) in
    if zero <. diff then (if c <. ai then (c, c -. diff) else (ai, aj))
    else (if c <. aj then (c +. diff, c) else (ai, aj)).

  (* clipping when they are of the same kind (i == j): the sum is kept *)
  Definition svr_clip_eq (ai aj delta : T) : T * T :=
    let sum := ai +. aj in
    let ai := ai -. delta in
    let aj := aj +. delta in
    let '(ai, aj) :=
      if c <. sum then (if c <. ai then (c, sum -. c) else (ai, aj))
      else (if aj <. zero then (sum, zero) else (ai, aj)) in
    if c <. sum then (if c <. aj then (sum -. c, c) else (ai, aj))
    else (if ai <. zero then (zero, sum) else (ai, aj)).

  Definition sgn_of (i : nat) : T := two *. (if Nat.eqb i 0 then zero else one) -. one.

  Definition svr_update_grad (x1 x2 : list T) (si sj dai daj : T) (l : list rsv) : list rsv :=
    map (fun v =>
           let t := si *. K x1 v.(r_x) *. dai +. sj *. K x2 v.(r_x) *. daj in
           mkRSV v.(r_index) v.(r_x) v.(r_a0) v.(r_a1) (v.(r_g0) -. t) (v.(r_g1) +. t) v.(r_k)) l.

  (* the unclipped step of the pair ((v1,i),(v2,j)) *)
  Definition svr_delta (s1 s2 : rsv) (i j : nat) : T :=
    let curv := curv_of s1.(r_k) s2.(r_k) (K s1.(r_x) s2.(r_x)) in
    if Nat.eqb i j then (r_grad s1 i -. r_grad s2 j) /. curv
    else ((-. r_grad s1 i) -. r_grad s2 j) /. curv.

  (* one iteration once the pair is chosen and the step is given: clipping, gradient maintenance.
     The pair must consist of two different coefficients (the Rust code would write the same slot
     twice otherwise; that cannot happen while gmax > gmin, and is `None` here). *)
  Definition svr_step (v1 i v2 j : nat) (delta : T) (l : list rsv) : option (list rsv) :=
    if Nat.eqb v1 v2 && Nat.eqb i j then None else
    match nth_error l v1, nth_error l v2 with
    | Some s1, Some s2 =>
        let old_i := r_alpha s1 i in
        let old_j := r_alpha s2 j in
        let '(ai, aj) := if Nat.eqb i j then svr_clip_eq old_i old_j delta else svr_clip_ne old_i old_j delta in
        let l1 := modify v2 (r_set_alpha j aj) (modify v1 (r_set_alpha i ai) l) in
        let dai := ai -. old_i in
        let daj := aj -. old_j in
        Some (svr_update_grad s1.(r_x) s2.(r_x) (sgn_of i) (sgn_of j) dai daj l1)
    | _, _ => None
    end.

  (* working-set selection of one iteration: ((v1,i),(v2,j)) *)
  Definition svr_select (l : list rsv) (m : svr_mm) : option (nat * nat * nat * nat) :=
    let v1 := m.(mm_svmax) in
    let i := m.(mm_maxidx) in
    match nth_error l v1 with
    | None => None
    | Some s1 =>
        let gi := if Nat.eqb i 0 then -. s1.(r_g0) else s1.(r_g1) in
        let '(_, v2, j) := rsel_loop s1.(r_x) s1.(r_k) gi l 0 (zero, m.(mm_svmin), m.(mm_minidx)) in
        Some (v1, i, v2, j)
    end.

  Definition svr_iter (l : list rsv) (m : svr_mm) : option (list rsv * svr_mm) :=
    match svr_select l m with
    | None => None
    | Some (v1, i, v2, j) =>
        match nth_error l v1, nth_error l v2 with
        | Some s1, Some s2 =>
            match svr_step v1 i v2 j (svr_delta s1 s2 i j) l with
            | Some l' => Some (l', rfind_min_max l' m)
            | None => None
            end
        | _, _ => None
        end
    end.

  (* while gmax - gmin > tol { ... } *)
  Fixpoint svr_loop (fuel : nat) (l : list rsv) (m : svr_mm) : option (list rsv * svr_mm) :=
    if tol <. (m.(mm_gmax) -. m.(mm_gmin)) then
      match fuel with
      | 0 => None
      | S f =>
          match svr_iter l m with
          | None => None
          | Some (l', m') => svr_loop f l' m'
          end
      end
    else Some (l, m).

  Fixpoint svr_init (eps : T) (i : nat) (xs : list (list T)) (ys : list T) : list rsv :=
    match xs, ys with
    | x :: xs', y :: ys' => new_rsv eps i x y :: svr_init eps (S i) xs' ys'
    | _, _ => []
    end.

  Definition mm0 : svr_mm := mkMM 0 0 0 0 big nbig.

  Definition svr_b (m : svr_mm) : T := (-. (m.(mm_gmax) +. m.(mm_gmin))) /. two.
  Definition svr_w (v : rsv) : T := v.(r_a1) -. v.(r_a0).
  Definition svr_is_support (v : rsv) : bool := negb (v.(r_a0) ==. v.(r_a1)).

  (* Optimizer::smo: final list, min/max record; the model (instances, w, b) is derived below *)
  Definition svr_smo (fuel : nat) (eps : T) (rxs : list (list T)) (rys : list T) : option (list rsv * svr_mm) :=
    let l := svr_init eps 0 rxs rys in
    svr_loop fuel l (rfind_min_max l mm0).

  Definition svr_instances (l : list rsv) : list (list T) := map r_x (filter svr_is_support l).
  Definition svr_weights (l : list rsv) : list T := map svr_w (filter svr_is_support l).

End Generic.

(* ---------------------------------------------------------------------------------------------- *)
(* SVC::fit's label handling and SVC::predict                                                     *)
(* ---------------------------------------------------------------------------------------------- *)
Section Fit.
  Context {T : Type} (O : Ops T).

  (* classes = y.unique(): for a two-class vector, (smallest, largest) *)
  Definition list_min (l : list T) (d : T) : T := fold_left (fun m v => if O.(oltb) v m then v else m) l d.
  Definition list_max (l : list T) (d : T) : T := fold_left (fun m v => if O.(oltb) m v then v else m) l d.
  Definition classes_of (y : list T) : option (T * T) :=
    match y with
    | [] => None
    | h :: _ =>
        let c0 := list_min y h in
        let c1 := list_max y h in
        if O.(oltb) c0 c1 && forallb (fun v => O.(oeqb) v c0 || O.(oeqb) v c1) y then Some (c0, c1) else None
    end.
  (* every label is rewritten: classes[0] -> -1, anything else -> +1 *)
  Definition map_labels (c0 : T) (y : list T) : list T :=
    map (fun v => if O.(oeqb) v c0 then O.(oneg) O.(o1) else O.(o1)) y.

  Definition svc_fit (K : list T -> list T -> T) (tau big nbig c tol : T) (fuel : nat)
             (xs : list (list T)) (y : list T) (perm0 : list nat) (perms : list (list nat))
    : option (T * T * list (list T) * list T * T) :=
    if negb (Nat.eqb (length xs) (length y)) then None else
    match classes_of y with
    | None => None
    | Some (c0, c1) =>
        match optimize O K tau big nbig c tol xs (map_labels c0 y) fuel perm0 perms with
        | None => None
        | Some (st, b) => Some (c0, c1, map (sv_x) st.(st_sv _), map (sv_alpha) st.(st_sv _), b)
        end
    end.

  (* SVC::predict for one row *)
  Definition svc_predict (K : list T -> list T -> T) (c0 c1 : T) (inst : list (list T)) (w : list T) (b : T)
             (x : list T) : T :=
    if O.(oltb) O.(o0) (decision O K inst w b x) then c1 else c0.
End Fit.
