(* C10 — SVR: the clipped pair update keeps 0 <= alpha <= C and sum w = 0 (both clipping branches, all
   deltas), the maintained gradients equal eps +- (y - f0(x)) (gradient invariant), and at loop exit
   (gmax - gmin <= tol) the epsilon-insensitive optimality conditions hold within tol/2 at every
   training point.  Real-number instance (ROps) of SC.C10.Model. *)
From Coq Require Import List ZArith Reals Lra Lia Bool Arith.
From SC Require Import Base.Num C10.Model C10.ProofsSVC.
Import ListNotations.
Local Open Scope R_scope.

Ltac rb_step := rb_goal; cbv beta iota zeta.

(* ---------------------------------------------------------------------------------------------- *)
(* the two clipping rules                                                                         *)
(* ---------------------------------------------------------------------------------------------- *)
Lemma svr_clip_ne_feasible c ai aj d :
  0 <= ai <= c -> 0 <= aj <= c ->
  0 <= fst (svr_clip_ne ROps c ai aj d) <= c /\ 0 <= snd (svr_clip_ne ROps c ai aj d) <= c /\
  fst (svr_clip_ne ROps c ai aj d) - snd (svr_clip_ne ROps c ai aj d) = ai - aj.
Proof.
  intros H1 H2. unfold svr_clip_ne. rops. repeat rb_step; cbn [fst snd]; lra.
Qed.

Lemma svr_clip_eq_feasible c ai aj d :
  0 <= ai <= c -> 0 <= aj <= c ->
  0 <= fst (svr_clip_eq ROps c ai aj d) <= c /\ 0 <= snd (svr_clip_eq ROps c ai aj d) <= c /\
  fst (svr_clip_eq ROps c ai aj d) + snd (svr_clip_eq ROps c ai aj d) = ai + aj.
Proof.
  intros H1 H2. unfold svr_clip_eq. rops. repeat rb_step; cbn [fst snd]; lra.
Qed.

(* ---------------------------------------------------------------------------------------------- *)
(* Forall2 helpers                                                                                *)
(* ---------------------------------------------------------------------------------------------- *)
Lemma Forall2_refl {A} (R : A -> A -> Prop) l : (forall a, R a a) -> Forall2 R l l.
Proof. intros H; induction l; constructor; auto. Qed.

Lemma Forall2_modify {A} (R : A -> A -> Prop) i f (l : list A) :
  (forall a, R a a) -> (forall a, R a (f a)) -> Forall2 R l (modify i f l).
Proof.
  intros Hr Hf. revert i; induction l as [|a l IH]; intros [|i]; cbn; constructor; auto.
  apply Forall2_refl; auto.
Qed.

Lemma Forall2_trans {A} (R : A -> A -> Prop) l1 : forall l2 l3,
  (forall a b c, R a b -> R b c -> R a c) -> Forall2 R l1 l2 -> Forall2 R l2 l3 -> Forall2 R l1 l3.
Proof.
  induction l1 as [|a l1 IH]; intros l2 l3 Ht H12 H23; inversion H12; subst; inversion H23; subst;
    constructor; eauto.
Qed.

Lemma Forall2_map_r {A B} (R : A -> B -> Prop) (g : A -> B) l : (forall a, R a (g a)) -> Forall2 R l (map g l).
Proof. intros H; induction l; cbn; constructor; auto. Qed.

Lemma Forall2_map_r2 {A B C} (R : A -> B -> Prop) (R' : A -> C -> Prop) (g : B -> C) l l1 :
  Forall2 R l l1 -> (forall u v, R u v -> R' u (g v)) -> Forall2 R' l (map g l1).
Proof. intros HF2; induction HF2 as [|a b l l' Hab HF2 IH]; intros Hg; cbn; constructor; auto. Qed.

Lemma Forall2_weaken {A B} (R R' : A -> B -> Prop) l l' :
  (forall a b, R a b -> R' a b) -> Forall2 R l l' -> Forall2 R' l l'.
Proof. intros Hi HF2; induction HF2; constructor; auto. Qed.

Lemma Forall2_transfer {A B} (R : A -> B -> Prop) (P : A -> Prop) (Q : B -> Prop) l l' :
  Forall2 R l l' -> Forall P l -> (forall u v, R u v -> P u -> Q v) -> Forall Q l'.
Proof.
  intros HF2; induction HF2 as [|a b l l' Hab HF2 IH]; intros Hp Himp; constructor; inversion Hp; subst; eauto.
Qed.

Lemma Forall2_map_eq {A B C} (R : A -> B -> Prop) (g1 : A -> C) (g2 : B -> C) l l' :
  Forall2 R l l' -> (forall u v, R u v -> g1 u = g2 v) -> map g1 l = map g2 l'.
Proof. intros HF2; induction HF2 as [|a b l l' Hab HF2 IH]; intros Hg; cbn; f_equal; auto. Qed.

(* ---------------------------------------------------------------------------------------------- *)
Section SVR.
  Variable K : list R -> list R -> R.
  Variables tau big nbig c tol eps : R.
  Variable xs : list (list R).
  Variable ys : list R.

  Notation rsvR := (rsv (T:=R)).
  Notation mmR := (svr_mm (T:=R)).

  Definition wR (v : rsvR) : R := r_a1 v - r_a0 v.
  Definition r_box (v : rsvR) : Prop := 0 <= r_a0 v <= c /\ 0 <= r_a1 v <= c.
  (* feasibility of the regressor's dual state: box and sum of weights zero *)
  Definition svr_inv (l : list rsvR) : Prop := Forall r_box l /\ rsum wR l = 0.

  (* f0(x) = sum_u w_u K(x_u, x): the prediction without the bias *)
  Definition f0 (l : list rsvR) (x : list R) : R := rsum (fun u => wR u * K (r_x u) x) l.
  Definition yv (v : rsvR) : R := nth (r_index v) ys 0.
  Definition ginv_at (l : list rsvR) (v : rsvR) : Prop :=
    r_g0 v = eps + yv v - f0 l (r_x v) /\ r_g1 v = eps - yv v + f0 l (r_x v).
  (* the gradient invariant *)
  Definition ginv (l : list rsvR) : Prop := Forall (ginv_at l) l.

  (* what a step never changes *)
  Definition same_id (u v : rsvR) : Prop := r_index v = r_index u /\ r_x v = r_x u.
  Definition same_idg (u v : rsvR) : Prop := same_id u v /\ r_g0 v = r_g0 u /\ r_g1 v = r_g1 u.

  Lemma same_idg_refl (a : rsvR) : same_idg a a.
  Proof. repeat split. Qed.
  Lemma same_idg_set i a (v : rsvR) : same_idg v (r_set_alpha i a v).
  Proof. unfold r_set_alpha. destruct (Nat.eqb i 0); repeat split. Qed.
  Lemma same_idg_trans a b d : same_idg a b -> same_idg b d -> same_idg a d.
  Proof. unfold same_idg, same_id. intuition congruence. Qed.

  Lemma wR_set i a v : (i < 2)%nat ->
    wR (r_set_alpha i a v) = wR v + sgn_of ROps i * (a - r_alpha v i).
  Proof.
    intros Hi. unfold wR, r_set_alpha, r_alpha, sgn_of, two. rops.
    destruct i as [|[|i]]; try lia; cbn; lra.
  Qed.

  Lemma r_alpha_set_other i j a (v : rsvR) : (i < 2)%nat -> (j < 2)%nat -> i <> j ->
    r_alpha (r_set_alpha i a v) j = r_alpha v j.
  Proof.
    intros Hi Hj Hij. unfold r_alpha, r_set_alpha.
    destruct i as [|[|i]]; destruct j as [|[|j]]; try lia; cbn; reflexivity.
  Qed.

  Lemma r_box_set i a v : r_box v -> 0 <= a <= c -> r_box (r_set_alpha i a v).
  Proof. intros [H0 H1] Ha. unfold r_box, r_set_alpha. destruct (Nat.eqb i 0); cbn; auto. Qed.

  Lemma r_box_alpha i v : r_box v -> 0 <= r_alpha v i <= c.
  Proof. intros [H0 H1]. unfold r_alpha. destruct (Nat.eqb i 0); auto. Qed.

  (* the clipped pair, in one statement *)
  Definition clip (i j : nat) (oi oj delta : R) : R * R :=
    if Nat.eqb i j then svr_clip_eq ROps c oi oj delta else svr_clip_ne ROps c oi oj delta.

  Lemma clip_feasible i j oi oj delta : (i < 2)%nat -> (j < 2)%nat ->
    0 <= oi <= c -> 0 <= oj <= c ->
    0 <= fst (clip i j oi oj delta) <= c /\ 0 <= snd (clip i j oi oj delta) <= c /\
    sgn_of ROps i * (fst (clip i j oi oj delta) - oi) + sgn_of ROps j * (snd (clip i j oi oj delta) - oj) = 0.
  Proof.
    intros Hi Hj H1 H2. unfold clip.
    destruct (Nat.eqb i j) eqn:E.
    - apply Nat.eqb_eq in E. subst j.
      destruct (svr_clip_eq_feasible c oi oj delta H1 H2) as (A & B & S).
      split; auto. split; auto. unfold sgn_of, two. rops.
      destruct i as [|[|i]]; try lia; cbn; lra.
    - apply Nat.eqb_neq in E.
      destruct (svr_clip_ne_feasible c oi oj delta H1 H2) as (A & B & S).
      split; auto. split; auto. unfold sgn_of, two. rops.
      destruct i as [|[|i]]; destruct j as [|[|j]]; try lia; cbn; lra.
  Qed.

  (* svr_step_feasible, list level: both clipping branches, every delta, every pair of distinct
     coefficients — box and sum of weights are kept; and f0 moves by exactly the amount the code
     subtracts from / adds to the gradients *)
  Lemma svr_step_inv l l' v1 i v2 j delta :
    (i < 2)%nat -> (j < 2)%nat ->
    svr_step ROps K c v1 i v2 j delta l = Some l' ->
    svr_inv l ->
    svr_inv l' /\ (ginv l -> ginv l') /\ Forall2 same_id l l'.
  Proof.
    intros Hi Hj. unfold svr_step.
    destruct (Nat.eqb v1 v2 && Nat.eqb i j) eqn:Esame; try discriminate.
    destruct (nth_error l v1) as [s1|] eqn:E1; try discriminate.
    destruct (nth_error l v2) as [s2|] eqn:E2; try discriminate.
    fold (clip i j (r_alpha s1 i) (r_alpha s2 j) delta).
    destruct (clip i j (r_alpha s1 i) (r_alpha s2 j) delta) as [ai aj] eqn:Ec.
    intros H; inversion H; subst l'; clear H.
    intros [Hbox Hsum].
    assert (Hb1 : r_box s1) by (eapply Forall_forall; [exact Hbox | eapply nth_error_In; eauto]).
    assert (Hb2 : r_box s2) by (eapply Forall_forall; [exact Hbox | eapply nth_error_In; eauto]).
    destruct (clip_feasible i j _ _ delta Hi Hj (r_box_alpha i _ Hb1) (r_box_alpha j _ Hb2)) as (Ha & Hb & Hs).
    rewrite Ec in Ha, Hb, Hs. cbn [fst snd] in Ha, Hb, Hs.
    set (la := modify v1 (r_set_alpha i ai) l).
    set (l1 := modify v2 (r_set_alpha j aj) la).
    set (dai := ai - r_alpha s1 i) in *.
    set (daj := aj - r_alpha s2 j) in *.
    (* the element at v2 after the first write *)
    assert (E2a : exists s2', nth_error la v2 = Some s2' /\ r_box s2' /\ r_alpha s2' j = r_alpha s2 j /\
                              r_x s2' = r_x s2 /\ r_index s2' = r_index s2).
    { destruct (Nat.eq_dec v1 v2) as [Ev|Ev].
      - subst v2. rewrite E1 in E2. inversion E2; subst s2.
        exists (r_set_alpha i ai s1). split; [unfold la; rewrite nth_error_modify_eq, E1; reflexivity|].
        split; [apply r_box_set; auto|].
        assert (Hij : i <> j).
        { intro; subst j. rewrite !Nat.eqb_refl in Esame. discriminate. }
        split; [apply r_alpha_set_other; auto|].
        destruct (same_idg_set i ai s1) as [[A B] _]. auto.
      - exists s2. split; [unfold la; rewrite nth_error_modify_neq; auto|]. auto. }
    destruct E2a as (s2' & E2' & Hb2' & Hal2 & Hx2 & Hi2).
    (* sums over the modified list *)
    assert (Hsumh : forall (h : rsvR -> R) (kx : rsvR -> R),
               (forall k a v, (k < 2)%nat -> h (r_set_alpha k a v) = h v + sgn_of ROps k * (a - r_alpha v k) * kx v) ->
               (forall k a v, kx (r_set_alpha k a v) = kx v) ->
               kx s2' = kx s2 ->
               rsum h l1 = rsum h l + sgn_of ROps i * dai * kx s1 + sgn_of ROps j * daj * kx s2).
    { intros h kx Hh Hkx Hk2. unfold l1. rewrite (rsum_modify h _ _ _ _ E2').
      unfold la. rewrite (rsum_modify h _ _ _ _ E1).
      rewrite (Hh j aj s2' Hj), (Hh i ai s1 Hi), Hal2, Hk2. unfold dai, daj. lra. }
    assert (Hid1 : Forall2 same_idg l l1).
    { eapply Forall2_trans; [exact same_idg_trans | | ].
      - apply (Forall2_modify same_idg v1 (r_set_alpha i ai) l same_idg_refl). intros; apply same_idg_set.
      - apply (Forall2_modify same_idg v2 (r_set_alpha j aj) la same_idg_refl). intros; apply same_idg_set. }
    unfold svr_update_grad. rops.
    match goal with |- context [map ?g l1] => set (upd := g) end.
    assert (Hw_upd : forall v, wR (upd v) = wR v) by reflexivity.
    assert (Hx_upd : forall v, r_x (upd v) = r_x v) by reflexivity.
    split; [|split].
    - (* feasibility *)
      split.
      + apply Forall_map.
        assert (Hb1' : Forall r_box l1).
        { unfold l1. eapply Forall_modify; [exact E2' | apply r_box_set; auto | ].
          unfold la. eapply Forall_modify; [exact E1 | apply r_box_set; auto | exact Hbox]. }
        eapply Forall_impl; [|exact Hb1']. intros v [A B]. split; [exact A | exact B].
      + rewrite rsum_map.
        rewrite (rsum_ext (fun a => wR (upd a)) wR) by (intros; apply Hw_upd).
        rewrite (Hsumh wR (fun _ => 1)); auto.
        * rewrite Hsum. lra.
        * intros k a v Hk. rewrite wR_set; auto. lra.
    - (* gradient invariant *)
      intros Hg. unfold ginv.
      assert (Hf0 : forall x, f0 (map upd l1) x
                           = f0 l x + (sgn_of ROps i * K (r_x s1) x * dai + sgn_of ROps j * K (r_x s2) x * daj)).
      { intros x. unfold f0. rewrite rsum_map.
        rewrite (rsum_ext (fun a => wR (upd a) * K (r_x (upd a)) x) (fun a => wR a * K (r_x a) x)) by reflexivity.
        rewrite (Hsumh (fun a => wR a * K (r_x a) x) (fun a => K (r_x a) x)).
        - lra.
        - intros k a v Hk. rewrite wR_set; auto.
          destruct (same_idg_set k a v) as [[_ B] _]. rewrite B. lra.
        - intros k a v. destruct (same_idg_set k a v) as [[_ B] _]. rewrite B. reflexivity.
        - rewrite Hx2. reflexivity. }
      eapply (Forall2_transfer (fun u v => same_id u v /\
                  r_g0 v = r_g0 u - (sgn_of ROps i * K (r_x s1) (r_x u) * dai + sgn_of ROps j * K (r_x s2) (r_x u) * daj) /\
                  r_g1 v = r_g1 u + (sgn_of ROps i * K (r_x s1) (r_x u) * dai + sgn_of ROps j * K (r_x s2) (r_x u) * daj))).
      + eapply Forall2_map_r2; [exact Hid1|].
        intros u v [[A B] [G0 G1]]. split; [split; assumption|].
        subst upd. cbn [r_g0 r_g1 r_x]. rewrite B, G0, G1. split; reflexivity.
      + exact Hg.
      + intros u v (Hid & G0 & G1) [Hu0 Hu1]. destruct Hid as [Hidx Hx].
        unfold ginv_at. rewrite Hx, !Hf0, G0, G1, Hu0, Hu1. unfold yv. rewrite Hidx. split; lra.
    - eapply Forall2_trans with (l2 := l1); [ unfold same_id; intuition congruence | | ].
      + eapply Forall2_weaken; [|exact Hid1]. intros a b [H _]. exact H.
      + apply Forall2_map_r. intros a. split; reflexivity.
  Qed.

  (* ---- find_min_max_gradient ------------------------------------------------------------- *)
  Definition mm_covers (m : mmR) (v : rsvR) : Prop :=
    (r_a0 v < c -> - r_g0 v <= mm_gmax m) /\ (0 < r_a1 v -> r_g1 v <= mm_gmax m) /\
    (0 < r_a0 v -> mm_gmin m <= - r_g0 v) /\ (r_a1 v < c -> mm_gmin m <= r_g1 v).
  Definition mm_idx_ok (m : mmR) : Prop := (mm_minidx m < 2)%nat /\ (mm_maxidx m < 2)%nat.

  Lemma rfmm_body_spec v i m :
    mm_gmax m <= mm_gmax (rfmm_body ROps c v i m) /\ mm_gmin (rfmm_body ROps c v i m) <= mm_gmin m /\
    mm_covers (rfmm_body ROps c v i m) v /\ (mm_idx_ok m -> mm_idx_ok (rfmm_body ROps c v i m)).
  Proof.
    unfold rfmm_body, mm_covers, mm_idx_ok. rops.
    repeat (rb_step; cbn [andb mm_gmin mm_gmax mm_minidx mm_maxidx mm_svmin mm_svmax]);
      (repeat split; intros; try lra; try lia; try tauto).
  Qed.

  Lemma rfmm_loop_spec l : forall i m,
    mm_gmax m <= mm_gmax (rfmm_loop ROps c l i m) /\ mm_gmin (rfmm_loop ROps c l i m) <= mm_gmin m /\
    Forall (mm_covers (rfmm_loop ROps c l i m)) l /\ (mm_idx_ok m -> mm_idx_ok (rfmm_loop ROps c l i m)).
  Proof.
    induction l as [|v l IH]; intros i m; cbn [rfmm_loop].
    - split; [lra|]. split; [lra|]. split; [constructor | auto].
    - destruct (rfmm_body_spec v i m) as (A & B & C & D).
      destruct (IH (S i) (rfmm_body ROps c v i m)) as (A' & B' & C' & D').
      split; [lra|]. split; [lra|]. split; [|tauto].
      constructor; auto.
      destruct C as (C1 & C2 & C3 & C4). unfold mm_covers. repeat split; intros H.
      + specialize (C1 H). lra.
      + specialize (C2 H). lra.
      + specialize (C3 H). lra.
      + specialize (C4 H). lra.
  Qed.

  Lemma rfind_min_max_spec l m :
    Forall (mm_covers (rfind_min_max ROps big nbig c l m)) l /\
    (mm_idx_ok m -> mm_idx_ok (rfind_min_max ROps big nbig c l m)).
  Proof.
    unfold rfind_min_max.
    destruct (rfmm_loop_spec l 0 (mkMM (mm_svmin m) (mm_minidx m) (mm_svmax m) (mm_maxidx m) big nbig)) as (_ & _ & C & D).
    split; auto.
  Qed.

  (* ---- selection only produces coefficient kinds 0 / 1 ------------------------------------ *)
  Lemma rsel_body_idx x1 k1 gi v jj acc :
    (snd acc < 2)%nat -> (snd (rsel_body ROps K tau c x1 k1 gi v jj acc) < 2)%nat.
  Proof.
    destruct acc as [[best v2] j]. unfold rsel_body. cbn [snd]. intros Hj.
    repeat match goal with |- context [if ?b then _ else _] => destruct b end; cbn [snd]; lia.
  Qed.

  Lemma rsel_loop_idx x1 k1 gi l : forall jj acc,
    (snd acc < 2)%nat -> (snd (rsel_loop ROps K tau c x1 k1 gi l jj acc) < 2)%nat.
  Proof.
    induction l as [|v l IH]; intros jj acc H; cbn [rsel_loop]; auto.
    apply IH. apply rsel_body_idx; auto.
  Qed.

  (* ---- the loop ---------------------------------------------------------------------------- *)
  Definition loop_inv (l : list rsvR) (m : mmR) : Prop :=
    svr_inv l /\ ginv l /\ mm_idx_ok m /\ Forall (mm_covers m) l.

  Lemma svr_iter_inv l m l' m' :
    loop_inv l m -> svr_iter ROps K tau big nbig c l m = Some (l', m') ->
    loop_inv l' m' /\ Forall2 same_id l l'.
  Proof.
    intros (Hinv & Hg & Hidx & _). unfold svr_iter, svr_select.
    destruct (nth_error l (mm_svmax m)) as [s1|] eqn:E1; try discriminate.
    destruct (rsel_loop ROps K tau c (r_x s1) (r_k s1) _ l 0 (o0 ROps, mm_svmin m, mm_minidx m)) as [[best v2] j] eqn:Es.
    rewrite E1.
    destruct (nth_error l v2) as [s2|] eqn:E2; try discriminate.
    destruct (svr_step ROps K c (mm_svmax m) (mm_maxidx m) v2 j _ l) as [l1|] eqn:Est; try discriminate.
    intros H; inversion H; subst; clear H.
    assert (Hj : (j < 2)%nat).
    { pose proof (rsel_loop_idx (r_x s1) (r_k s1)
                    (if Nat.eqb (mm_maxidx m) 0 then oneg ROps (r_g0 s1) else r_g1 s1) l 0
                    (o0 ROps, mm_svmin m, mm_minidx m)) as Hs.
      rewrite Es in Hs. cbn [snd] in Hs. apply Hs. apply Hidx. }
    destruct (svr_step_inv _ _ _ _ _ _ _ (proj2 Hidx) Hj Est Hinv) as (Hinv' & Hg' & Hid).
    split; [|exact Hid].
    destruct (rfind_min_max_spec l' m) as [Hc Hi].
    unfold loop_inv. split; [exact Hinv'|]. split; [exact (Hg' Hg)|]. split; [exact (Hi Hidx) | exact Hc].
  Qed.

  Lemma svr_loop_inv fuel : forall l m l' m',
    loop_inv l m -> svr_loop ROps K tau big nbig c tol fuel l m = Some (l', m') ->
    loop_inv l' m' /\ Forall2 same_id l l' /\ mm_gmax m' - mm_gmin m' <= tol.
  Proof.
    induction fuel as [|f IH]; intros l m l' m' Hinv; cbn [svr_loop]; rops.
    - destruct (Rltb tol (mm_gmax m - mm_gmin m)) eqn:E; try discriminate.
      apply Rltb_false in E. intros H; inversion H; subst.
      split; auto. split; auto. apply Forall2_refl. intros; split; reflexivity.
    - destruct (Rltb tol (mm_gmax m - mm_gmin m)) eqn:E.
      + destruct (svr_iter ROps K tau big nbig c l m) as [[l1 m1]|] eqn:Ei; try discriminate.
        intros H. destruct (svr_iter_inv _ _ _ _ Hinv Ei) as [Hinv1 Hid1].
        destruct (IH _ _ _ _ Hinv1 H) as (A & B & C). split; auto. split; auto.
        eapply Forall2_trans; [| exact Hid1 | exact B]. unfold same_id. intuition congruence.
      + apply Rltb_false in E. intros H; inversion H; subst.
        split; auto. split; auto. apply Forall2_refl. intros; split; reflexivity.
  Qed.

  (* ---- the initial state ------------------------------------------------------------------- *)
  Lemma svr_init_spec : forall lx ly k,
    Forall (fun v => r_a0 v = 0 /\ r_a1 v = 0 /\
                     exists p y, r_index v = (k + p)%nat /\ nth_error lx p = Some (r_x v) /\ nth_error ly p = Some y /\
                                 r_g0 v = eps + y /\ r_g1 v = eps - y)
           (svr_init ROps K eps k lx ly) /\
    map (r_index (T:=R)) (svr_init ROps K eps k lx ly) = seq k (Nat.min (length lx) (length ly)).
  Proof.
    induction lx as [|x lx IH]; intros [|y ly] k; cbn [svr_init]; try (split; [constructor | reflexivity]).
    destruct (IH ly (S k)) as [A B]. split.
    - constructor.
      + cbn. rops. repeat split; auto. exists 0%nat, y. rewrite Nat.add_0_r. repeat split; auto.
      + eapply Forall_impl; [|exact A]. intros v (H0 & H1 & p & yy & Hi & Hx & Hy & G).
        repeat split; auto. exists (S p), yy. rewrite Hi. split; [lia|]. auto.
    - cbn. f_equal. exact B.
  Qed.

  Lemma f0_zero l x : Forall (fun v => r_a0 v = 0 /\ r_a1 v = 0) l -> f0 l x = 0.
  Proof.
    unfold f0. induction l as [|v l IH]; intros H; cbn; auto.
    inversion H as [|? ? [A B] H']; subst. rewrite IH; auto. unfold wR. rewrite A, B. lra.
  Qed.

  Hypothesis c_pos : 0 < c.
  Hypothesis len_eq : length xs = length ys.

  Lemma svr_init_inv :
    let l := svr_init ROps K eps 0 xs ys in
    svr_inv l /\ ginv l /\ map (r_index (T:=R)) l = seq 0 (length xs) /\
    Forall (fun v => nth_error xs (r_index v) = Some (r_x v)) l.
  Proof.
    destruct (svr_init_spec xs ys 0) as [A B]. cbv zeta.
    set (l := svr_init ROps K eps 0 xs ys) in *.
    assert (Hz : Forall (fun v => r_a0 v = 0 /\ r_a1 v = 0) l).
    { eapply Forall_impl; [|exact A]. intros v (H0 & H1 & _). auto. }
    split; [|split; [|split]].
    - split.
      + eapply Forall_impl; [|exact Hz]. intros v [H0 H1]. unfold r_box. rewrite H0, H1. lra.
      + clear - Hz. induction l as [|v l IH]; cbn; auto. inversion Hz as [|? ? [H0 H1] H']; subst.
        rewrite IH; auto. unfold wR. rewrite H0, H1. lra.
    - unfold ginv. apply Forall_forall. intros v Hv.
      pose proof (proj1 (Forall_forall _ _) A v Hv) as (H0 & H1 & p & y & Hi & Hx & Hy & G0 & G1).
      unfold ginv_at. rewrite (f0_zero l (r_x v) Hz), G0, G1. unfold yv. rewrite Hi. cbn.
      rewrite (nth_error_nth _ _ 0 Hy). split; lra.
    - rewrite B, len_eq, Nat.min_id. reflexivity.
    - eapply Forall_impl; [|exact A]. intros v (_ & _ & p & y & Hi & Hx & _). rewrite Hi. exact Hx.
  Qed.

  (* ---- the returned model: expansion over the support vectors = expansion over all rows ----- *)
  Hypothesis K_sym : forall x y, K x y = K y x.

  Lemma expansion_all (l : list rsvR) x :
    expansion K (svr_instances ROps l) (svr_weights ROps l) x = f0 l x.
  Proof.
    unfold svr_instances, svr_weights, f0. induction l as [|v l IH]; [reflexivity|].
    cbn [filter]. destruct (svr_is_support ROps v) eqn:E.
    - cbn [map expansion rsum]. rewrite IH. unfold svr_w, wR. rops. rewrite (K_sym x (r_x v)). lra.
    - cbn [rsum]. rewrite IH. unfold svr_is_support in E. rops.
      apply negb_false_iff in E. apply Reqb_true in E. unfold wR. rewrite E. lra.
  Qed.

  Hypothesis eps_nonneg : 0 <= eps.

  (* svr_exit_kkt: whatever the number of iterations, when the optimizer returns, the coefficients
     are feasible and every training point satisfies its epsilon-insensitive optimality condition
     within tol/2, for the model (instances, w, b) that `fit` returns *)
  Lemma svr_smo_kkt fuel l m :
    svr_smo ROps K tau big nbig c tol fuel eps xs ys = Some (l, m) ->
    svr_inv l /\
    map (r_index (T:=R)) l = seq 0 (length xs) /\
    forall v, In v l ->
      exists y, nth_error xs (r_index v) = Some (r_x v) /\ nth_error ys (r_index v) = Some y /\
      let res := y - decision ROps K (svr_instances ROps l) (svr_weights ROps l) (svr_b ROps m) (r_x v) in
      let w := svr_w ROps v in
      (w = 0 -> - eps - tol / 2 <= res <= eps + tol / 2) /\
      (0 < w < c -> eps - tol / 2 <= res <= eps + tol / 2) /\
      (- c < w < 0 -> - eps - tol / 2 <= res <= - eps + tol / 2) /\
      (w = c -> eps - tol / 2 <= res) /\
      (w = - c -> res <= - eps + tol / 2).
  Proof.
    unfold svr_smo. intros H.
    destruct svr_init_inv as (Hinv0 & Hg0 & Hidx0 & Hx0).
    set (l0 := svr_init ROps K eps 0 xs ys) in *.
    assert (Hl0 : loop_inv l0 (rfind_min_max ROps big nbig c l0 (mm0 big nbig))).
    { destruct (rfind_min_max_spec l0 (mm0 big nbig)) as [Hc Hi].
      split; auto. split; auto. split; auto. apply Hi. unfold mm_idx_ok, mm0; cbn; lia. }
    destruct (svr_loop_inv _ _ _ _ _ Hl0 H) as ((Hinv & Hg & _ & Hcov) & Hid & Hexit).
    split; auto.
    assert (Hidx : map (r_index (T:=R)) l = seq 0 (length xs)).
    { rewrite <- Hidx0. symmetry. eapply Forall2_map_eq; [exact Hid|]. intros u v [A _]. auto. }
    split; auto.
    intros v Hv.
    assert (Hxv : nth_error xs (r_index v) = Some (r_x v)).
    { assert (Hall : Forall (fun v => nth_error xs (r_index v) = Some (r_x v)) l).
      { eapply Forall2_transfer; [exact Hid | exact Hx0 |]. intros u w [A B] Hu. rewrite A, B. exact Hu. }
      exact (proj1 (Forall_forall _ _) Hall v Hv). }
    assert (Hlt : (r_index v < length ys)%nat).
    { rewrite <- len_eq. apply nth_error_Some. rewrite Hxv. discriminate. }
    destruct (nth_error ys (r_index v)) as [y|] eqn:Ey; [|apply nth_error_None in Ey; lia].
    exists y. split; auto. split; auto.
    rewrite decision_expansion, expansion_all.
    pose proof (proj1 (Forall_forall _ _) Hg v Hv) as [G0 G1].
    pose proof (proj1 (Forall_forall _ _) Hcov v Hv) as (C1 & C2 & C3 & C4).
    pose proof (proj1 (Forall_forall _ _) (proj1 Hinv) v Hv) as [[A0 A0'] [A1 A1']].
    unfold yv in G0, G1. rewrite (nth_error_nth _ _ 0 Ey) in G0, G1.
    unfold svr_b, svr_w, two. rops. cbv zeta.
    set (gmax := mm_gmax m) in *. set (gmin := mm_gmin m) in *.
    set (f := f0 l (r_x v)) in *.
    replace (- (gmax + gmin) / (1 + 1)) with (- (gmax + gmin) / 2) by (f_equal; lra).
    assert (D1 : r_a0 v < c -> y - (- (gmax + gmin) / 2 + f) >= - eps - tol / 2) by (intros T; specialize (C1 T); lra).
    assert (D2 : 0 < r_a1 v -> y - (- (gmax + gmin) / 2 + f) >= eps - tol / 2) by (intros T; specialize (C2 T); lra).
    assert (D3 : 0 < r_a0 v -> y - (- (gmax + gmin) / 2 + f) <= - eps + tol / 2) by (intros T; specialize (C3 T); lra).
    assert (D4 : r_a1 v < c -> y - (- (gmax + gmin) / 2 + f) <= eps + tol / 2) by (intros T; specialize (C4 T); lra).
    clear C1 C2 C3 C4 G0 G1.
    split; [intros Hw; split | split; [intros Hw; split | split; [intros Hw; split | split; intros Hw]]];
      destruct (Rlt_le_dec (r_a0 v) c) as [L1|L1]; destruct (Rlt_le_dec 0 (r_a1 v)) as [L2|L2];
      destruct (Rlt_le_dec 0 (r_a0 v)) as [L3|L3]; destruct (Rlt_le_dec (r_a1 v) c) as [L4|L4];
      try specialize (D1 L1); try specialize (D2 L2); try specialize (D3 L3); try specialize (D4 L4); lra.
  Qed.
End SVR.
