(* C10 — positive semi-definiteness of kernel Gram matrices over R, for every finite list of
   (coefficient, row) pairs of every dimension:
     * a Schur-product lemma without spectral theory: if K1 is an explicit finite sum of weighted
       rank-one terms, K1(x,y) = sum_k w_k f_k(x) f_k(y) with w_k >= 0, and K2 is PSD, then the
       entrywise product K1*K2 is PSD, because  v^T (K1 o K2) v = sum_k w_k (f_k o v)^T K2 (f_k o v);
     * polynomial kernels (gamma x.y + coef0)^d with gamma, coef0 >= 0 and natural d (induction on d;
       the degree-1 matrix is the explicit rank-one sum gamma X X^T + coef0 1 1^T);
     * the RBF kernel for rows of one common length: exp(-g|x-y|^2) = exp(-g|x|^2) exp(-g|y|^2) exp(2g x.y),
       the last factor being the limit of the partial sums of its exponential series (the standard
       library's exp IS that infinite sum: exp_in), each partial sum PSD by the polynomial case; a
       limit of non-negative quadratic forms is non-negative;
     * for ragged rows (the model truncates where the Rust code panics) the RBF statement is false:
       a three-point counterexample.
   Consequences for the SVR optimizer: curvature K_ii + K_jj - 2 K_ij >= 0.
   Real-number instance (ROps) of SC.C10.Model. *)
From Coq Require Import List ZArith Reals Lra Lia Bool Arith.
From SC Require Import Base.Num C10.Model C10.ProofsSVC C10.ProofsKernel.
Import ListNotations.
Local Open Scope R_scope.

(* the quadratic form of the Gram matrix of K on a list of (coefficient, row) pairs *)
Definition gq (K : list R -> list R -> R) (cxs : list (R * list R)) : R :=
  rsum (fun a => rsum (fun b => fst a * fst b * K (snd a) (snd b)) cxs) cxs.

(* positive semi-definite on the rows satisfying P *)
Definition psd_on (P : list R -> Prop) (K : list R -> list R -> R) : Prop :=
  forall cxs : list (R * list R), (forall a, In a cxs -> P (snd a)) -> 0 <= gq K cxs.

(* ---- finite sums ----------------------------------------------------------------------------- *)
Lemma rsum_nonneg {A} (f : A -> R) l : (forall a, In a l -> 0 <= f a) -> 0 <= rsum f l.
Proof.
  induction l as [|a l IH]; intros H; cbn; [lra|].
  pose proof (H a (or_introl eq_refl)) as H0.
  assert (H1 : 0 <= rsum f l) by (apply IH; intros b Hb; apply H; right; exact Hb). lra.
Qed.

(* ---- the quadratic form is linear in the kernel ---------------------------------------------- *)
Lemma gq_ext K1 K2 cxs :
  (forall a b, In a cxs -> In b cxs -> K1 (snd a) (snd b) = K2 (snd a) (snd b)) -> gq K1 cxs = gq K2 cxs.
Proof.
  intros H. unfold gq. apply rsum_ext. intros a Ha. apply rsum_ext. intros b Hb. rewrite (H a b Ha Hb). reflexivity.
Qed.

Lemma gq_plus K1 K2 cxs : gq (fun x y => K1 x y + K2 x y) cxs = gq K1 cxs + gq K2 cxs.
Proof.
  unfold gq. rewrite <- rsum_plus. apply rsum_ext. intros a _. rewrite <- rsum_plus. apply rsum_ext. intros b _. ring.
Qed.

Lemma gq_scal k K cxs : gq (fun x y => k * K x y) cxs = k * gq K cxs.
Proof.
  unfold gq. rewrite <- rsum_scal. apply rsum_ext. intros a _. rewrite <- rsum_scal. apply rsum_ext. intros b _. ring.
Qed.

Lemma gq_zero cxs : gq (fun _ _ => 0) cxs = 0.
Proof. unfold gq. apply rsum_zero. intros a _. apply rsum_zero. intros b _. ring. Qed.

(* the all-ones matrix: (sum of the coefficients)^2 *)
Lemma gq_one cxs : gq (fun _ _ => 1) cxs = rsum fst cxs * rsum fst cxs.
Proof.
  unfold gq.
  rewrite (rsum_ext _ (fun a => rsum fst cxs * fst a)).
  - rewrite rsum_scal. reflexivity.
  - intros a _. rewrite (rsum_ext _ (fun b => fst a * fst b)) by (intros; ring).
    rewrite rsum_scal. ring.
Qed.

(* conjugation by a diagonal matrix: scaling the coefficients *)
Definition scale_by (f : list R -> R) (a : R * list R) : R * list R := (fst a * f (snd a), snd a).

Lemma gq_rank_one f K cxs : gq (fun x y => f x * f y * K x y) cxs = gq K (map (scale_by f) cxs).
Proof.
  unfold gq. rewrite rsum_map. apply rsum_ext. intros a _. rewrite rsum_map. apply rsum_ext. intros b _.
  unfold scale_by. cbn [fst snd]. ring.
Qed.

Lemma scale_by_rows (P : list R -> Prop) f cxs :
  (forall a, In a cxs -> P (snd a)) -> forall a, In a (map (scale_by f) cxs) -> P (snd a).
Proof. intros H a Ha. apply in_map_iff in Ha. destruct Ha as (a0 & <- & Ha0). exact (H a0 Ha0). Qed.

(* ---- Schur product with an explicit sum of weighted rank-one terms ---------------------------- *)
(* v^T (K1 o K2) v = sum_k w_k (f_k o v)^T K2 (f_k o v) *)
Lemma gq_schur_eq {I} (ks : list I) (w : I -> R) (f : I -> list R -> R) K2 cxs :
  gq (fun x y => rsum (fun k => w k * (f k x * f k y)) ks * K2 x y) cxs
  = rsum (fun k => w k * gq K2 (map (scale_by (f k)) cxs)) ks.
Proof.
  induction ks as [|k ks IH]; cbn [rsum].
  - rewrite (gq_ext _ (fun _ _ => 0)) by (intros; ring). apply gq_zero.
  - rewrite (gq_ext _ (fun x y => w k * (f k x * f k y * K2 x y)
                                   + rsum (fun k => w k * (f k x * f k y)) ks * K2 x y)) by (intros; ring).
    rewrite gq_plus, gq_scal, gq_rank_one, IH. reflexivity.
Qed.

Lemma schur_rank_one_sum {I} (P : list R -> Prop) (ks : list I) (w : I -> R) (f : I -> list R -> R) K1 K2 cxs :
  (forall k, In k ks -> 0 <= w k) ->
  (forall a b, In a cxs -> In b cxs ->
     K1 (snd a) (snd b) = rsum (fun k => w k * (f k (snd a) * f k (snd b))) ks) ->
  psd_on P K2 -> (forall a, In a cxs -> P (snd a)) ->
  0 <= gq (fun x y => K1 x y * K2 x y) cxs.
Proof.
  intros Hw HK1 Hpsd HP.
  rewrite (gq_ext _ (fun x y => rsum (fun k => w k * (f k x * f k y)) ks * K2 x y)).
  - rewrite gq_schur_eq. apply rsum_nonneg. intros k Hk.
    apply Rmult_le_pos; [exact (Hw k Hk)|]. apply Hpsd. apply scale_by_rows. exact HP.
  - intros a b Ha Hb. rewrite (HK1 a b Ha Hb). reflexivity.
Qed.

(* ---- the degree-1 kernel gamma x.y + coef0 as an explicit rank-one sum ------------------------ *)
Lemma nth_nil_0 i : nth i (@nil R) 0 = 0.
Proof. destruct i; reflexivity. Qed.

Lemma rdot_nth : forall n x y, (length x <= n)%nat ->
  rdot x y = rsum (fun i => nth i x 0 * nth i y 0) (seq 0 n).
Proof.
  induction n as [|n IH]; intros x y Hl.
  - destruct x; [reflexivity | cbn in Hl; lia].
  - destruct x as [|a x].
    + cbn [rdot]. symmetry. apply rsum_zero. intros i _. rewrite nth_nil_0. ring.
    + destruct y as [|b y].
      * cbn [rdot]. symmetry. apply rsum_zero. intros i _. rewrite nth_nil_0. ring.
      * cbn [rdot]. change (seq 0 (S n)) with (0%nat :: seq 1 n). cbn [rsum nth].
        rewrite <- seq_shift, rsum_map. cbn [nth].
        rewrite <- (IH x y); [reflexivity | cbn in Hl; lia].
Qed.

Definition deg1_w (gamma coef0 : R) (k : option nat) : R := match k with None => coef0 | Some _ => gamma end.
Definition deg1_f (k : option nat) (x : list R) : R := match k with None => 1 | Some i => nth i x 0 end.

Lemma deg1_rank_one gamma coef0 n x y : (length x <= n)%nat ->
  gamma * rdot x y + coef0
  = rsum (fun k => deg1_w gamma coef0 k * (deg1_f k x * deg1_f k y)) (None :: map Some (seq 0 n)).
Proof.
  intros Hl. cbn [rsum deg1_w deg1_f]. rewrite rsum_map. cbn [deg1_w deg1_f].
  rewrite rsum_scal, <- (rdot_nth n x y Hl). ring.
Qed.

(* ---- polynomial kernels ----------------------------------------------------------------------- *)
Lemma poly_gram_psd gamma coef0 : 0 <= gamma -> 0 <= coef0 ->
  forall d, psd_on (fun _ => True) (fun x y => (gamma * rdot x y + coef0) ^ d).
Proof.
  intros Hg Hc. induction d as [|d IH]; intros cxs HP.
  - rewrite (gq_ext _ (fun _ _ => 1)) by (intros; reflexivity). rewrite gq_one.
    pose proof (Rle_0_sqr (rsum fst cxs)) as H. unfold Rsqr in H. exact H.
  - destruct (max_len_bound cxs) as [n Hn].
    rewrite (gq_ext _ (fun x y => (gamma * rdot x y + coef0) * (gamma * rdot x y + coef0) ^ d))
      by (intros; reflexivity).
    apply (schur_rank_one_sum (fun _ => True) (None :: map Some (seq 0 n)) (deg1_w gamma coef0) deg1_f
             (fun x y => gamma * rdot x y + coef0)); auto.
    + intros [i|] _; cbn; assumption.
    + intros a b Ha _. apply deg1_rank_one. exact (Hn a Ha).
Qed.

(* the model's polynomial kernel with an integer degree (pw = natural power, as in the closed form) *)
Lemma polynomial_gram_psd gamma coef0 degree d (cxs : list (R * list R)) : 0 <= gamma -> 0 <= coef0 ->
  0 <= rsum (fun a => rsum (fun b => fst a * fst b *
                        k_poly ROps (fun b _ => opown ROps b d) degree gamma coef0 (snd a) (snd b)) cxs) cxs.
Proof.
  intros Hg Hc. fold (gq (k_poly ROps (fun b _ => opown ROps b d) degree gamma coef0) cxs).
  rewrite (gq_ext _ (fun x y => (gamma * rdot x y + coef0) ^ d)) by (intros; apply k_poly_closed).
  apply (poly_gram_psd gamma coef0 Hg Hc d). intros; exact I.
Qed.

(* ---- exp(g x.y): limit of PSD partial sums ---------------------------------------------------- *)
Definition exp_part (N : nat) (t : R) : R := sum_f_R0 (fun i => / INR (fact i) * t ^ i) N.

Lemma exp_part_cv t : Un_cv (fun N => exp_part N t) (exp t).
Proof.
  unfold exp. destruct (exist_exp t) as [l Hl]. cbn [proj1_sig]. exact Hl.
Qed.

Lemma cv_const k : Un_cv (fun _ => k) k.
Proof. intros eps He. exists 0%nat. intros n _. rewrite R_dist_eq. exact He. Qed.

Lemma rsum_cv {A} (f : nat -> A -> R) (g : A -> R) l :
  (forall a, In a l -> Un_cv (fun n => f n a) (g a)) -> Un_cv (fun n => rsum (f n) l) (rsum g l).
Proof.
  induction l as [|a l IH]; intros H; cbn [rsum].
  - apply cv_const.
  - apply CV_plus; [apply H; left; reflexivity | apply IH; intros b Hb; apply H; right; exact Hb].
Qed.

Lemma gq_cv (Kn : nat -> list R -> list R -> R) K cxs :
  (forall x y, Un_cv (fun n => Kn n x y) (K x y)) -> Un_cv (fun n => gq (Kn n) cxs) (gq K cxs).
Proof.
  intros H. unfold gq. apply rsum_cv. intros a _. apply rsum_cv. intros b _.
  apply CV_mult; [apply cv_const | apply H].
Qed.

Lemma exp_part_psd g : 0 <= g -> forall N, psd_on (fun _ => True) (fun x y => exp_part N (g * rdot x y)).
Proof.
  intros Hg.
  assert (Hterm : forall i cxs, 0 <= gq (fun x y => / INR (fact i) * (g * rdot x y) ^ i) cxs).
  { intros i cxs. rewrite gq_scal. apply Rmult_le_pos.
    - left. apply Rinv_0_lt_compat. apply INR_fact_lt_0.
    - rewrite (gq_ext _ (fun x y => (g * rdot x y + 0) ^ i)) by (intros; rewrite Rplus_0_r; reflexivity).
      apply (poly_gram_psd g 0 Hg (Rle_refl 0) i). intros; exact I. }
  induction N as [|N IH]; intros cxs HP; unfold exp_part; cbn [sum_f_R0].
  - apply Hterm.
  - rewrite gq_plus. pose proof (IH cxs HP) as H1. unfold exp_part in H1.
    pose proof (Hterm (S N) cxs) as H2. lra.
Qed.

Lemma exp_dot_psd g : 0 <= g -> psd_on (fun _ => True) (fun x y => exp (g * rdot x y)).
Proof.
  intros Hg cxs HP.
  apply Rle_cv_lim with (Un := fun _ : nat => 0) (Vn := fun N => gq (fun x y => exp_part N (g * rdot x y)) cxs).
  - intros N. apply (exp_part_psd g Hg N cxs HP).
  - apply cv_const.
  - apply gq_cv. intros x y. apply exp_part_cv.
Qed.

(* ---- RBF -------------------------------------------------------------------------------------- *)
Lemma rsqdist_expand : forall x y, length x = length y ->
  rsqdist x y = rdot x x + rdot y y - 2 * rdot x y.
Proof.
  induction x as [|a x IH]; intros [|b y] Hl; cbn in Hl; try discriminate; cbn [rsqdist rdot]; [ring|].
  rewrite (IH y) by lia. ring.
Qed.

Lemma rbf_factor gamma x y : length x = length y ->
  exp (- gamma * rsqdist x y)
  = exp (- gamma * rdot x x) * exp (- gamma * rdot y y) * exp (2 * gamma * rdot x y).
Proof.
  intros Hl. rewrite <- !exp_plus, (rsqdist_expand x y Hl). f_equal. ring.
Qed.

(* rows of one common length n: the domain on which the Rust kernel is defined *)
Lemma rbf_gram_psd_on gamma n : 0 <= gamma -> psd_on (fun x => length x = n) (k_rbf ROps gamma).
Proof.
  intros Hg cxs HP.
  rewrite (gq_ext _ (fun x y => exp (- gamma * rdot x x) * exp (- gamma * rdot y y) * exp (2 * gamma * rdot x y))).
  - rewrite (gq_rank_one (fun x => exp (- gamma * rdot x x)) (fun x y => exp (2 * gamma * rdot x y))).
    apply (exp_dot_psd (2 * gamma)); [lra | intros; exact I].
  - intros a b Ha Hb. rewrite k_rbf_closed. apply rbf_factor. rewrite (HP a Ha), (HP b Hb). reflexivity.
Qed.

Lemma rbf_gram_psd gamma n (cxs : list (R * list R)) : 0 <= gamma ->
  (forall a, In a cxs -> length (snd a) = n) ->
  0 <= rsum (fun a => rsum (fun b => fst a * fst b * k_rbf ROps gamma (snd a) (snd b)) cxs) cxs.
Proof. intros Hg HP. exact (rbf_gram_psd_on gamma n Hg cxs HP). Qed.

(* without the common-length hypothesis the statement is false in the model (which truncates the
   longer row where the Rust code panics): rows [0], [], [10] with coefficients 1, -1, 1 *)
Lemma exp_m100_small : exp (Ropp 100) < / 4.
Proof.
  rewrite exp_Ropp.
  assert (H : 1 + 100 < exp 100) by (apply exp_ineq1; lra).
  assert (H4 : / exp 100 < / 4) by (apply Rinv_lt_contravar; [ | lra ]; nra). exact H4.
Qed.

Lemma rbf_gram_ragged_not_psd :
  exists gamma (cxs : list (R * list R)), 0 <= gamma /\
    rsum (fun a => rsum (fun b => fst a * fst b * k_rbf ROps gamma (snd a) (snd b)) cxs) cxs < 0.
Proof.
  exists 1, [(1, [0]); (-1, []); (1, [10])]. split; [lra|].
  cbn [rsum fst snd]. rewrite !k_rbf_closed. cbn [rsqdist].
  replace (- (1) * ((0 - 0) * (0 - 0) + 0)) with 0 by ring.
  replace (- (1) * 0) with 0 by ring.
  replace (- (1) * ((0 - 10) * (0 - 10) + 0)) with (Ropp 100) by ring.
  replace (- (1) * ((10 - 0) * (10 - 0) + 0)) with (Ropp 100) by ring.
  replace (- (1) * ((10 - 10) * (10 - 10) + 0)) with 0 by ring.
  rewrite exp_0. pose proof exp_m100_small as H. pose proof (exp_pos (Ropp 100)) as Hp. lra.
Qed.

(* ---- every built-in PSD kernel, on training rows of one common length ------------------------- *)
Lemma linear_gram_psd_on P : psd_on P (k_linear ROps).
Proof. intros cxs _. exact (linear_gram_psd cxs). Qed.

Lemma polynomial_gram_psd_on P gamma coef0 degree d : 0 <= gamma -> 0 <= coef0 ->
  psd_on P (k_poly ROps (fun b _ => opown ROps b d) degree gamma coef0).
Proof. intros Hg Hc cxs _. exact (polynomial_gram_psd gamma coef0 degree d cxs Hg Hc). Qed.

(* ---- curvature -------------------------------------------------------------------------------- *)
(* the second-order term of the SMO pair step is non-negative for a PSD kernel *)
Lemma psd_curvature (P : list R -> Prop) K x y :
  psd_on P K -> (forall u v, K u v = K v u) -> P x -> P y -> 0 <= K x x + K y y - 2 * K x y.
Proof.
  intros Hpsd Hsym Hx Hy.
  assert (H : 0 <= gq K [(1, x); (-1, y)]).
  { apply Hpsd. intros a [<-|[<-|[]]]; assumption. }
  unfold gq in H. cbn [rsum fst snd] in H. rewrite (Hsym y x) in H. lra.
Qed.

(* curv_of over R: the tau fallback of the code is reached only when the curvature is exactly 0 *)
Lemma curv_of_psd tau k1 k2 k12 : 0 < tau -> 0 <= k1 + k2 - 2 * k12 ->
  0 < curv_of ROps tau k1 k2 k12 /\
  (0 < k1 + k2 - 2 * k12 -> curv_of ROps tau k1 k2 k12 = k1 + k2 - 2 * k12) /\
  (k1 + k2 - 2 * k12 = 0 -> curv_of ROps tau k1 k2 k12 = tau).
Proof.
  intros Ht Hc. unfold curv_of, two. rops. cbv zeta.
  replace (k1 + k2 - (1 + 1) * k12) with (k1 + k2 - 2 * k12) by ring.
  destruct (Rleb (k1 + k2 - 2 * k12) 0) eqn:E.
  - apply Rleb_true in E. repeat split; intros; lra.
  - apply Rleb_false in E. repeat split; intros; lra.
Qed.

(* ---- statements in plain form (no psd_on / gq), as used by Properties/C10.v -------------------- *)
Lemma schur_rank_one_sum_plain (Ix : Type) (ks : list Ix) (w : Ix -> R) (f : Ix -> list R -> R)
      (K1 K2 : list R -> list R -> R) (cxs : list (R * list R)) :
  (forall k, In k ks -> 0 <= w k) ->
  (forall a b, In a cxs -> In b cxs ->
     K1 (snd a) (snd b) = rsum (fun k => w k * (f k (snd a) * f k (snd b))) ks) ->
  (forall cxs' : list (R * list R),
     0 <= rsum (fun a => rsum (fun b => fst a * fst b * K2 (snd a) (snd b)) cxs') cxs') ->
  0 <= rsum (fun a => rsum (fun b => fst a * fst b * (K1 (snd a) (snd b) * K2 (snd a) (snd b))) cxs) cxs.
Proof.
  intros Hw HK1 Hpsd.
  apply (schur_rank_one_sum (fun _ => True) ks w f K1 K2 cxs Hw HK1); [|intros; exact I].
  intros c _. apply Hpsd.
Qed.

(* curvature of the three PSD built-in kernels, for all rows (RBF: also ragged ones, by the
   two-point statement) *)
Lemma builtin_curvature gamma coef0 degree d x y : 0 <= gamma -> 0 <= coef0 ->
  0 <= k_linear ROps x x + k_linear ROps y y - 2 * k_linear ROps x y /\
  0 <= k_rbf ROps gamma x x + k_rbf ROps gamma y y - 2 * k_rbf ROps gamma x y /\
  0 <= k_poly ROps (fun b _ => opown ROps b d) degree gamma coef0 x x
       + k_poly ROps (fun b _ => opown ROps b d) degree gamma coef0 y y
       - 2 * k_poly ROps (fun b _ => opown ROps b d) degree gamma coef0 x y.
Proof.
  intros Hg Hc. split; [|split].
  - apply (psd_curvature (fun _ => True)); auto. apply linear_gram_psd_on. apply k_linear_sym.
  - destruct (rbf_two_point_psd gamma x y 1 (-1) Hg) as (_ & _ & H).
    rewrite (k_rbf_sym gamma y x) in H. lra.
  - apply (psd_curvature (fun _ => True)); auto. apply polynomial_gram_psd_on; assumption.
    intros u v. apply k_poly_sym.
Qed.
