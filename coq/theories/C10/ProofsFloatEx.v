(* C10 — instances for C10/ProofsFloat.v: the hypotheses of the rounding theorems are satisfiable on
   inexact binary64 data (every operation rounds), and the margin hypothesis of the label theorem is
   needed (an input built from exactly representable integers on which the binary64 and the
   exact-arithmetic classifier return DIFFERENT labels although every other hypothesis holds).
   Real values of the float literals by computation (fr_literals), inequalities by interval arithmetic. *)
From Coq Require Import List Arith ZArith Bool Reals Floats Lra Lia Psatz.
From Interval Require Import Tactic.
From SC Require Import Base.FloatUtil Base.Num Base.FloatError C10.Model C10.ProofsSVC C10.ProofsKernel C10.ProofsFloat.
Import ListNotations.
Local Open Scope R_scope.

(* a linear-kernel classifier with three support vectors (0.3,0.7), (5.3,4.1), (-3.7,6.9), weights
   0.3, -0.1, 0.2, intercept 0.1, and the query row (0.1, 0.2) *)
Definition ex_inst : list (list PrimFloat.float) :=
  [[0x1.3333333333333p-2; 0x1.6666666666666p-1]; [0x1.5333333333333p+2; 0x1.0666666666666p+2];
   [-0x1.d99999999999ap+1; 0x1.b99999999999ap+2]]%float.
Definition ex_w : list PrimFloat.float := [0x1.3333333333333p-2; -0x1.999999999999ap-4; 0x1.999999999999ap-3]%float.
Definition ex_b : PrimFloat.float := 0x1.999999999999ap-4%float.
Definition ex_x : list PrimFloat.float := [0x1.999999999999ap-4; 0x1.999999999999ap-3]%float.

Ltac unfold_all :=
  unfold dec_err, dec_S, dec_E, lin_err, dot_err, Eu, decision, k_linear, dot, ex_inst, ex_w, ex_b, ex_x;
  cbn [combine map length Nat.min Nat.add INR Rsuml fold_right fst snd expansion_acc dot_acc rdot
       ROps oadd omul o0];
  fr_literals; rewrite ?u64_eq, ?eta64_eq.

Lemma ex_decision_robust :
  ffin (decision FOps (k_linear FOps) ex_inst ex_w ex_b ex_x) /\
  (let L := combine ex_inst ex_w in
   let fR := decision ROps (k_linear ROps) (map (map FR) ex_inst) (map FR ex_w) (FR ex_b) (map FR ex_x) in
   dec_err (length L) (dec_S (k_linear ROps) (lin_err ex_x) ex_x L) (dec_E (lin_err ex_x) L) (Rabs (FR ex_b)) < Rabs fR /\
   dec_err (length L) (dec_S (k_linear ROps) (lin_err ex_x) ex_x L) (dec_E (lin_err ex_x) L) (Rabs (FR ex_b)) <= / 2 ^ 50 /\
   0 < fR) /\
  svc_predict FOps (k_linear FOps) (-1)%float 1%float ex_inst ex_w ex_b ex_x = 1%float.
Proof.
  split; [vm_compute; reflexivity|]. split; [|vm_compute; reflexivity].
  cbv zeta. split; [|split]; unfold_all; interval with (i_prec 100).
Qed.

(* the margin hypothesis is needed: x = (1), support vectors (1), (1), (1), weights 2^53, 1, -2^53, b = 0.
   Every product is exact; the exact decision value is 1 > 0, the computed one is
   ((0 + 2^53) + 1) - 2^53 = 0 (2^53 + 1 is a tie and rounds to even), so the labels differ. *)
Definition bad_inst : list (list PrimFloat.float) := [[1]; [1]; [1]]%float.
Definition bad_w : list PrimFloat.float := [0x1p+53; 1; -0x1p+53]%float.

Lemma ex_margin_needed :
  ffin (decision FOps (k_linear FOps) bad_inst bad_w 0%float [1%float]) /\
  decision ROps (k_linear ROps) (map (map FR) bad_inst) (map FR bad_w) (FR 0%float) (map FR [1%float]) = 1 /\
  FR (decision FOps (k_linear FOps) bad_inst bad_w 0%float [1%float]) = 0 /\
  svc_predict FOps (k_linear FOps) (-1)%float 1%float bad_inst bad_w 0%float [1%float] = (-1)%float /\
  svc_predict ROps (k_linear ROps) (FR (-1)%float) (FR 1%float) (map (map FR) bad_inst) (map FR bad_w) (FR 0%float) (map FR [1%float]) = FR 1%float.
Proof.
  assert (E1 : decision ROps (k_linear ROps) (map (map FR) bad_inst) (map FR bad_w) (FR 0%float) (map FR [1%float]) = 1).
  { unfold decision, k_linear, dot, bad_inst, bad_w.
    cbn [map expansion_acc dot_acc ROps oadd omul o0]. fr_literals. lra. }
  split; [vm_compute; reflexivity|]. split; [exact E1|].
  split. { replace (decision FOps (k_linear FOps) bad_inst bad_w 0%float [1%float]) with 0%float by (vm_compute; reflexivity). apply FR_zero. }
  split; [vm_compute; reflexivity|].
  apply predict_sign. rewrite <- decision_expansion, E1. lra.
Qed.

(* kernels: 3-dimensional inexact rows *)
Definition kx : list PrimFloat.float := [0x1.999999999999ap-4; 0x1.999999999999ap-3; 0x1.3333333333333p-2]%float.
Definition ky : list PrimFloat.float := [0x1.3333333333333p-2; (-0x1.999999999999ap-4); 0x1.6666666666666p-1]%float.

Lemma ex_kernels :
  length kx = length ky /\
  ffin (k_linear FOps kx ky) /\
  ffin (PrimFloat.add (PrimFloat.mul 0x1p-1%float (dot FOps kx ky)) 1%float) /\
  ffin (sqdist FOps kx ky) /\
  ffin (PrimFloat.mul (PrimFloat.opp 0x1.999999999999ap-3%float) (sqdist FOps kx ky)) /\
  (forall a b, In (a, b) (combine kx ky) -> FR a = FR b \/ / 2 ^ 510 <= Rabs (FR a - FR b)).
Proof.
  split; [reflexivity|]. split; [vm_compute; reflexivity|]. split; [vm_compute; reflexivity|].
  split; [vm_compute; reflexivity|]. split; [vm_compute; reflexivity|].
  intros a b [H|[H|[H|[]]]]; injection H as <- <-; right; fr_literals; interval.
Qed.
