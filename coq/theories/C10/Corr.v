(* C10 — correspondence interface: the model instantiated at binary64 (FOps), evaluated on what the
   implementation recorded (hook traces of svc.rs / svr.rs, serde JSON of the fitted models).
   Every function returns `true` iff model and implementation agree.
   Kernels: `KLinear` runs the model's own kernel (only + and *: bit-exact); for the other kernels
   the optimizer replays use `KTable`, the Gram table produced by the implementation's own
   `Kernel::apply` (so that the replay of the discrete optimizer decisions is bit-exact), and the
   kernel formulas themselves are compared separately (`corr_kernel`, by tolerance, because the
   binary64 instance uses a software exp / ln). *)
From Coq Require Import List ZArith NArith Bool Floats.
From SC Require Import Base.FloatUtil Base.Elem Base.Num C10.Model.
Import ListNotations.

Definition f_tau : float := 0x1.19799812dea11p-40%float.        (* 1e-12 *)
Definition f_big : float := 0x1.fffffffffffffp+1023%float.      (* f64::MAX *)
Definition f_nbig : float := (-0x1.fffffffffffffp+1023)%float.  (* f64::MIN *)

Inductive kspec :=
| KLinear
| KRbf (gamma : float)
| KPoly (degree gamma coef0 : float)
| KSigmoid (gamma coef0 : float)
| KTable (rows : list (list float)) (gram : list (list float)).

Fixpoint find_row (x : list float) (rows : list (list float)) (i : nat) : option nat :=
  match rows with
  | [] => None
  | r :: rows' => if flist_eq x r then Some i else find_row x rows' (S i)
  end.

Definition kfun (k : kspec) : list float -> list float -> float :=
  match k with
  | KLinear => k_linear FOps
  | KRbf g => k_rbf FOps g
  | KPoly d g c0 => k_poly FOps fpow d g c0
  | KSigmoid g c0 => k_sigmoid FOps ftanh g c0
  | KTable rows gram =>
      fun x y =>
        match find_row x rows 0, find_row y rows 0 with
        | Some i, Some j => nth j (nth i gram []) nan
        | _, _ => nan
        end
  end.

(* |a-b| <= tol*max(|a|,|b|) + atol *)
Definition feq_rel (tol atol a b : float) : bool :=
  feq a b ||
  PrimFloat.leb (fabs (PrimFloat.sub a b))
                (PrimFloat.add (PrimFloat.mul tol (fmax (fabs a) (fabs b))) atol).

(* ---- kernels vs closed forms -------------------------------------------------------------- *)
(* linear: bit for bit; the others within 1e-9 relative / 1e-12 absolute *)
Definition corr_kernel (k : kspec) (x y : list float) (expected expected_sym : float) : bool :=
  let v := kfun k x y in
  let v' := kfun k y x in
  feq expected expected_sym && feq v v' &&
  match k with
  | KLinear => feq v expected
  | _ => feq_rel 0x1.12e0be826d695p-30%float 0x1.19799812dea11p-40%float v expected
  end.

(* the same with an explicit relative tolerance (offset rows: large common offset, small spread; the
   model forms the differences first, like the code, so its exponent is bit-identical and only the
   software exp / ln / pow / tanh differ from libm) *)
Definition corr_kernel_tol (k : kspec) (x y : list float) (expected expected_sym tol atol : float) : bool :=
  let v := kfun k x y in
  let v' := kfun k y x in
  feq expected expected_sym && feq v v' &&
  match k with
  | KLinear => feq v expected
  | _ => feq_rel tol atol v expected
  end.

(* ---- SVC ---------------------------------------------------------------------------------- *)
Definition srec := (N * float * float * float * float)%type.   (* index, alpha, grad, cmin, cmax *)

Definition to_sv (ks : kspec) (xs : list (list float)) (r : srec) : sv (T:=float) :=
  let '(i, a, g, lo, hi) := r in
  let x := nth (N.to_nat i) xs [] in
  mkSV (N.to_nat i) x a g lo hi (kfun ks x x).
Definition of_sv (v : sv (T:=float)) : srec :=
  (N.of_nat v.(sv_index), v.(sv_alpha), v.(sv_grad), v.(sv_cmin), v.(sv_cmax)).
Definition srec_eq (a b : srec) : bool :=
  let '(i, a1, g1, lo1, hi1) := a in
  let '(j, a2, g2, lo2, hi2) := b in
  N.eqb i j && feq a1 a2 && feq g1 g2 && feq lo1 lo2 && feq hi1 hi2.
Definition srecs_eq := list_eqb srec_eq.

Definition mk_state (ks : kspec) (xs : list (list float)) (l : list srec) : svc_st (T:=float) :=
  mkSt (map (to_sv ks xs) l) 0 0 f_big f_nbig true.

(* feasibility of a recorded state, in floats: box up to a few ulp of C, bounds chosen by the
   sample's own label, sum of coefficients zero up to rounding *)
Definition ulps (c : float) : float := PrimFloat.mul 0x1p-48%float c.
Definition svc_feasible_f (c : float) (ys : list float) (l : list srec) : bool :=
  forallb (fun r : srec =>
             let '(i, a, _, lo, hi) := r in
             let y := nth (N.to_nat i) ys nan in
             (if PrimFloat.ltb 0 y then feq lo 0 && feq hi c else feq lo (PrimFloat.opp c) && feq hi 0) &&
             PrimFloat.leb (PrimFloat.sub lo (ulps c)) a && PrimFloat.leb a (PrimFloat.add hi (ulps c))) l &&
  PrimFloat.leb (fabs (fold_left (fun s (r : srec) => let '(_, a, _, _, _) := r in PrimFloat.add s a) l 0%float))
                (PrimFloat.mul 0x1p-30%float c).

Inductive svc_event :=
| EInsert (i : N) (y g : float) (before after : list srec)      (* process(i) inserted a vector *)
| ENoInsert (i : N) (before after : list srec)                  (* process(i): known or rejected *)
| ESmo (i1 i2 : N) (k12 raw step : float) (before after : list srec) (gmin gmax : float)
| EClean (gmin gmax : float) (before after : list srec).

Definition ev_before (e : svc_event) : list srec :=
  match e with
  | EInsert _ _ _ b _ | ENoInsert _ b _ | ESmo _ _ _ _ _ b _ _ _ | EClean _ _ b _ => b
  end.
Definition ev_after (e : svc_event) : list srec :=
  match e with
  | EInsert _ _ _ _ a | ENoInsert _ _ a | ESmo _ _ _ _ _ _ a _ _ | EClean _ _ _ a => a
  end.

(* one recorded event replayed through the model's step *)
Definition check_event (ks : kspec) (c : float) (xs : list (list float)) (ys : list float) (e : svc_event) : bool :=
  let K := kfun ks in
  svc_feasible_f c ys (ev_before e) && svc_feasible_f c ys (ev_after e) &&
  match e with
  | EInsert i y g before after =>
      let x := nth (N.to_nat i) xs [] in
      let l := map (to_sv ks xs) before in
      feq y (nth (N.to_nat i) ys nan) &&
      feq g (process_grad FOps K l x y) &&
      negb (existsb (fun v => Nat.eqb v.(sv_index) (N.to_nat i)) l) &&
      (* recorded right after `sv.insert(0, ..)`, before the insertion's own smo call *)
      srecs_eq after (of_sv (new_sv FOps K c (N.to_nat i) x y g) :: before)
  | ENoInsert i before after => srecs_eq before after
  | ESmo i1 i2 k12 raw step before after gmin gmax =>
      let st := mk_state ks xs before in
      match nth_error st.(st_sv) (N.to_nat i1), nth_error st.(st_sv) (N.to_nat i2) with
      | Some s1, Some s2 =>
          feq k12 (K s1.(sv_x) s2.(sv_x)) &&
          feq step (smo_clip FOps s1.(sv_alpha) s1.(sv_cmin) s1.(sv_cmax) s2.(sv_alpha) s2.(sv_cmin) s2.(sv_cmax) raw)
      | _, _ => false
      end &&
      match smo_pair FOps K f_tau f_big f_nbig (N.to_nat i1) (N.to_nat i2) k12 st with
      | Some (st', raw') =>
          feq raw' raw && srecs_eq (map of_sv st'.(st_sv)) after &&
          feq st'.(st_gmin) gmin && feq st'.(st_gmax) gmax
      | None => false
      end
  | EClean gmin gmax before after =>
      (* `clean` with the (gmin, gmax) the code had at that moment (they can be stale: the flag
         recalculate_minmax_grad is not set by an insertion; the whole-fit replay reproduces that) *)
      let st := clean FOps f_big f_nbig
                  (mkSt (map (to_sv ks xs) before) 0 0 gmin gmax false) in
      srecs_eq (map of_sv st.(st_sv)) after &&
      (* every vector that was dropped had alpha = 0 *)
      forallb (fun r : srec => let '(i, a, _, _, _) := r in
                 PrimFloat.eqb a 0 || existsb (fun r' : srec => let '(j, _, _, _, _) := r' in N.eqb i j) after) before
  end.

(* the whole trace: every event is an instance of the model's step, consecutive states chain *)
Fixpoint check_chain (prev : list srec) (es : list svc_event) : bool :=
  match es with
  | [] => true
  | e :: es' => srecs_eq prev (ev_before e) && check_chain (ev_after e) es'
  end.

Definition corr_svc_trace (ks : kspec) (c : float) (xs : list (list float)) (ys : list float)
           (es : list svc_event) (final : list srec) (w : list float) : bool :=
  forallb (check_event ks c xs ys) es &&
  check_chain [] es &&
  (* with the insert events, the state right after the insertion's smo is the next `before`;
     the last state is what `optimize` returned *)
  srecs_eq (match rev es with e :: _ => ev_after e | [] => [] end) final &&
  flist_eq (map (fun r : srec => let '(_, a, _, _, _) := r in a) final) w.

(* the whole fit replayed on the recorded visiting orders: (classes, instances, w, b) *)
Definition corr_svc_fit (ks : kspec) (c tol : float) (fuel : N) (xs : list (list float)) (y : list float)
           (perm0 : list N) (perms : list (list N))
           (e_c0 e_c1 : float) (e_inst : list (list float)) (e_w : list float) (e_b : float) : bool :=
  match svc_fit FOps (kfun ks) f_tau f_big f_nbig c tol (N.to_nat fuel) xs y
                (map N.to_nat perm0) (map (map N.to_nat) perms) with
  | Some (c0, c1, inst, w, b) =>
      feq c0 e_c0 && feq c1 e_c1 && fmat_eq inst e_inst && flist_eq w e_w && feq b e_b
  | None => false
  end.

(* fitted model (serde JSON: classes, instances, w, b) against the decision-function expansion
   and the label rule, and the theorem's hypotheses on that model: every instance is a training
   row, every coefficient lies in its own sample's box, the coefficients sum to zero. *)
Fixpoint row_label_ok (c : float) (xs : list (list float)) (y : list float) (c1 : float) (s : list float) (w : float) : bool :=
  match xs, y with
  | x :: xs', yi :: y' =>
      (flist_eq x s &&
       (if PrimFloat.eqb yi c1 then PrimFloat.leb (PrimFloat.opp (ulps c)) w && PrimFloat.leb w (PrimFloat.add c (ulps c))
        else PrimFloat.leb (PrimFloat.opp (PrimFloat.add c (ulps c))) w && PrimFloat.leb w (ulps c)))
      || row_label_ok c xs' y' c1 s w
  | _, _ => false
  end.

Fixpoint forallb2 {A B} (f : A -> B -> bool) (l1 : list A) (l2 : list B) : bool :=
  match l1, l2 with
  | [], [] => true
  | a :: t1, b :: t2 => f a b && forallb2 f t1 t2
  | _, _ => false
  end.

Definition corr_svc_model (ks : kspec) (c : float) (xs : list (list float)) (y : list float)
           (c0 c1 : float) (inst : list (list float)) (w : list float) (b : float)
           (queries : list (list float)) (e_dec e_pred : list float) (tol : float) : bool :=
  let K := kfun ks in
  forallb2 (row_label_ok c xs y c1) inst w &&
  PrimFloat.leb (fabs (fold_left PrimFloat.add w 0%float)) (PrimFloat.mul 0x1p-30%float c) &&
  forallb2 (fun q d =>
              let m := decision FOps K inst w b q in
              if PrimFloat.eqb tol 0 then feq m d else feq_rel tol tol m d) queries e_dec &&
  (* the label rule on the implementation's own decision values *)
  forallb2 (fun d p => feq p (if PrimFloat.ltb 0 d then c1 else c0)) e_dec e_pred &&
  (* and through the model when the decision value is not within tolerance of zero *)
  forallb2 (fun q p =>
              let m := decision FOps K inst w b q in
              PrimFloat.leb (fabs m) tol || feq p (svc_predict FOps K c0 c1 inst w b q)) queries e_pred.

(* ---- SVR ---------------------------------------------------------------------------------- *)
Definition rrec := (float * float * float * float)%type.   (* alpha0, alpha1, grad0, grad1 *)

Fixpoint to_rsvs (ks : kspec) (xs : list (list float)) (l : list rrec) (i : nat) : list (rsv (T:=float)) :=
  match xs, l with
  | x :: xs', (a0, a1, g0, g1) :: l' => mkRSV i x a0 a1 g0 g1 (kfun ks x x) :: to_rsvs ks xs' l' (S i)
  | _, _ => []
  end.
Definition of_rsv (v : rsv (T:=float)) : rrec := (v.(r_a0), v.(r_a1), v.(r_g0), v.(r_g1)).
Definition rrec_eq (a b : rrec) : bool :=
  let '(a0, a1, g0, g1) := a in let '(b0, b1, h0, h1) := b in
  feq a0 b0 && feq a1 b1 && feq g0 h0 && feq g1 h1.
Definition rrecs_eq := list_eqb rrec_eq.

(* 0 <= alpha <= C exactly (the clipping only assigns 0, C, sums and differences that stay inside),
   sum of weights zero up to rounding *)
Definition svr_feasible_f (c : float) (l : list rrec) : bool :=
  forallb (fun r : rrec => let '(a0, a1, _, _) := r in
             PrimFloat.leb 0 a0 && PrimFloat.leb a0 c && PrimFloat.leb 0 a1 && PrimFloat.leb a1 c) l &&
  PrimFloat.leb (fabs (fold_left (fun s (r : rrec) => let '(a0, a1, _, _) := r in PrimFloat.add s (PrimFloat.sub a1 a0)) l 0%float))
                (PrimFloat.mul 0x1p-30%float c).

(* one iteration: v1 i v2 j, delta, pair before, pair after, whole state after, gmin gmax after *)
Definition svr_event := (N * N * N * N * float * (float * float) * (float * float) * list rrec * float * float)%type.

Definition check_svr_event (ks : kspec) (c : float) (xs : list (list float)) (prev : list rrec) (e : svr_event) : bool :=
  let '(v1, i, v2, j, delta, (bi, bj), (ai, aj), after, gmin, gmax) := e in
  let K := kfun ks in
  let l := to_rsvs ks xs prev 0 in
  let (v1, i) := (N.to_nat v1, N.to_nat i) in
  let (v2, j) := (N.to_nat v2, N.to_nat j) in
  svr_feasible_f c after &&
  match nth_error l v1, nth_error l v2 with
  | Some s1, Some s2 =>
      feq bi (r_alpha s1 i) && feq bj (r_alpha s2 j) &&
      feq delta (svr_delta FOps K f_tau s1 s2 i j) &&
      (let '(mi, mj) := if Nat.eqb i j then svr_clip_eq FOps c bi bj delta else svr_clip_ne FOps c bi bj delta in
       feq mi ai && feq mj aj)
  | _, _ => false
  end &&
  match svr_step FOps K c v1 i v2 j delta l with
  | Some l' =>
      rrecs_eq (map of_rsv l') after &&
      let m := rfind_min_max FOps f_big f_nbig c l' (mm0 f_big f_nbig) in
      feq m.(mm_gmin) gmin && feq m.(mm_gmax) gmax
  | None => false
  end.

Fixpoint check_svr_chain (ks : kspec) (c : float) (xs : list (list float)) (prev : list rrec) (es : list svr_event) : bool :=
  match es with
  | [] => true
  | e :: es' =>
      check_svr_event ks c xs prev e &&
      let '(_, _, _, _, _, _, _, after, _, _) := e in check_svr_chain ks c xs after es'
  end.

Definition svr_final_state (eps : float) (ks : kspec) (xs : list (list float)) (ys : list float) (es : list svr_event) : list rrec :=
  match rev es with
  | (_, _, _, _, _, _, _, after, _, _) :: _ => after
  | [] => map of_rsv (svr_init FOps (kfun ks) eps 0 xs ys)
  end.

Definition corr_svr_trace (ks : kspec) (eps c tol : float) (xs : list (list float)) (ys : list float)
           (es : list svr_event) (e_inst : list (list float)) (e_w : list float) (e_b : float) : bool :=
  let init := map of_rsv (svr_init FOps (kfun ks) eps 0 xs ys) in
  check_svr_chain ks c xs init es &&
  let fin := to_rsvs ks xs (svr_final_state eps ks xs ys es) 0 in
  let m := rfind_min_max FOps f_big f_nbig c fin (mm0 f_big f_nbig) in
  (* the loop stopped by its own criterion *)
  negb (PrimFloat.ltb tol (PrimFloat.sub m.(mm_gmax) m.(mm_gmin))) &&
  feq (svr_b FOps m) e_b &&
  fmat_eq (svr_instances FOps fin) e_inst && flist_eq (svr_weights FOps fin) e_w.

(* the whole (deterministic) fit *)
Definition corr_svr_fit (ks : kspec) (eps c tol : float) (fuel : N) (xs : list (list float)) (ys : list float)
           (e_inst : list (list float)) (e_w : list float) (e_b : float) : bool :=
  match svr_smo FOps (kfun ks) f_tau f_big f_nbig c tol (N.to_nat fuel) eps xs ys with
  | Some (l, m) =>
      feq (svr_b FOps m) e_b && fmat_eq (svr_instances FOps l) e_inst && flist_eq (svr_weights FOps l) e_w
  | None => false
  end.

(* fitted regressor (serde JSON) against the expansion, plus |w_i| <= C, sum w = 0, instances are
   training rows *)
Definition corr_svr_model (ks : kspec) (c : float) (xs : list (list float))
           (inst : list (list float)) (w : list float) (b : float)
           (queries : list (list float)) (e_pred : list float) (tol : float) : bool :=
  let K := kfun ks in
  forallb (fun s => existsb (flist_eq s) xs) inst &&
  forallb (fun wi => PrimFloat.leb (fabs wi) c) w &&
  PrimFloat.leb (fabs (fold_left PrimFloat.add w 0%float)) (PrimFloat.mul 0x1p-30%float c) &&
  forallb2 (fun q d =>
              let m := decision FOps K inst w b q in
              if PrimFloat.eqb tol 0 then feq m d else feq_rel tol tol m d) queries e_pred.
