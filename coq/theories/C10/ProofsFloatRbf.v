(* C10 — the RBF kernel VALUE in binary64, CONDITIONAL on an accuracy hypothesis for the exp routine.
   The argument (-gamma) * sqdist handed to exp has the proved bound of
   C10/ProofsFloat.v (rbf_exponent_float_error).  exp itself is a library routine (libm in Rust, a software
   routine in the binary64 instance) for which nothing is proved here; IF, on the argument at hand, its
   finite result has relative error at most delta, THEN the kernel value has the relative error below.
   This is the per-support-vector hypothesis `kernel_close` of decision_function_float_error for the RBF
   kernel. *)
From Coq Require Import List Arith ZArith Bool Reals Floats Lra Lia Psatz.
From SC Require Import Base.FloatUtil Base.Num Base.FloatError C10.Model C10.ProofsSVC C10.ProofsKernel C10.ProofsFloat.
Import ListNotations.
Local Open Scope R_scope.

Lemma exp_m1_abs (d : R) : Rabs (exp d - 1) <= exp (Rabs d) - 1.
Proof.
  destruct (Rle_lt_dec 0 d) as [H|H].
  - rewrite (Rabs_pos_eq d) by exact H. rewrite Rabs_pos_eq; [lra|].
    pose proof (exp_ineq1_le d). lra.
  - rewrite (Rabs_left d) by exact H.
    assert (E : exp d * exp (- d) = 1) by (rewrite <- exp_plus, Rplus_opp_r; apply exp_0).
    pose proof (exp_pos d) as P1. pose proof (exp_pos (- d)) as P2.
    assert (exp d < 1) by (rewrite <- exp_0; apply exp_increasing; exact H).
    rewrite Rabs_left by lra. nra.
Qed.

(* a' within ea of a, r within relative delta of exp a' ==> r within relative (exp ea - 1) + delta exp ea of exp a *)
Lemma exp_perturb (a a' ea delta r : R) : Rabs (a' - a) <= ea -> 0 <= delta ->
  Rabs (r - exp a') <= delta * exp a' ->
  Rabs (r - exp a) <= ((exp ea - 1) + delta * exp ea) * exp a.
Proof.
  intros Ha Hd Hr.
  assert (E : exp a' = exp a * exp (a' - a)) by (rewrite <- exp_plus; f_equal; ring).
  pose proof (exp_pos a) as Pa. pose proof (exp_pos (a' - a)) as Pd.
  pose proof (exp_m1_abs (a' - a)) as M.
  assert (Hm : exp (Rabs (a' - a)) <= exp ea).
  { destruct Ha as [Ha|Ha]; [left; apply exp_increasing; exact Ha | right; rewrite Ha; reflexivity]. }
  assert (Hle : exp (a' - a) <= exp ea).
  { eapply Rle_trans; [|exact Hm]. destruct (Rle_abs (a' - a)) as [Hl|Hl];
      [left; apply exp_increasing; exact Hl | right; f_equal; exact Hl]. }
  assert (H1 : Rabs (exp a' - exp a) <= (exp ea - 1) * exp a).
  { rewrite E. replace (exp a * exp (a' - a) - exp a) with (exp a * (exp (a' - a) - 1)) by ring.
    rewrite Rabs_mult, (Rabs_pos_eq (exp a)) by lra. nra. }
  assert (H2 : delta * exp a' <= delta * exp ea * exp a).
  { rewrite E. assert (0 <= delta * exp a) by (apply Rmult_le_pos; lra).
    replace (delta * (exp a * exp (a' - a))) with (delta * exp a * exp (a' - a)) by ring.
    replace (delta * exp ea * exp a) with (delta * exp a * exp ea) by ring.
    apply Rmult_le_compat_l; assumption. }
  replace (r - exp a) with ((r - exp a') + (exp a' - exp a)) by ring.
  eapply Rle_trans; [apply Rabs_triang|]. lra.
Qed.

Theorem rbf_kernel_float_error_given_exp (delta : R) (gamma : PrimFloat.float) (x y : list PrimFloat.float) :
  length x = length y -> 0 <= delta ->
  let t := PrimFloat.mul (PrimFloat.opp gamma) (sqdist FOps x y) in
  ffin t ->
  Rabs (FR (oexp FOps t) - exp (FR t)) <= delta * exp (FR t) ->     (* ASSUMED accuracy of the exp routine *)
  let p := length x in
  let D := rsqdist (map FR x) (map FR y) in
  let ea := Rabs (FR gamma) * (u64 * D + (1 + u64) * sq_err p D) + eta64 in
  k_rbf ROps (FR gamma) (map FR x) (map FR y) = exp (- FR gamma * D) /\
  Rabs (FR (k_rbf FOps gamma x y) - k_rbf ROps (FR gamma) (map FR x) (map FR y)) <=
    ((exp ea - 1) + delta * exp ea) * exp (- FR gamma * D).
Proof.
  intros L Hd t Hfin Hexp p D ea.
  destruct (rbf_exponent_float_error gamma x y L Hfin) as (_ & _ & B). fold t p D ea in B.
  assert (EK : k_rbf ROps (FR gamma) (map FR x) (map FR y) = exp (- FR gamma * D)) by apply k_rbf_closed.
  split; [exact EK|]. rewrite EK, k_rbf_F. fold t.
  apply (exp_perturb (- FR gamma * D) (FR t) ea delta); assumption.
Qed.
