(* C10 — kernels: closed forms, symmetry, and positive semi-definiteness of the linear Gram matrix
   (sum of squares).  Real-number instance (ROps) of SC.C10.Model. *)
From Coq Require Import List ZArith Reals Lra Lia Bool Arith.
From SC Require Import Base.Num C10.Model C10.ProofsSVC.
Import ListNotations.
Local Open Scope R_scope.

(* <x,y> and |x-y|^2 as plain recursive sums (truncating at the shorter vector, as the model does;
   the Rust code panics on a length mismatch) *)
Fixpoint rdot (x y : list R) : R :=
  match x, y with a :: x', b :: y' => a * b + rdot x' y' | _, _ => 0 end.
Fixpoint rsqdist (x y : list R) : R :=
  match x, y with a :: x', b :: y' => (a - b) * (a - b) + rsqdist x' y' | _, _ => 0 end.

Lemma dot_acc_rdot : forall x y acc, dot_acc ROps acc x y = acc + rdot x y.
Proof.
  induction x as [|a x IH]; intros [|b y] acc; cbn [dot_acc rdot]; try lra.
  rewrite IH. rops. lra.
Qed.
Lemma dot_rdot x y : dot ROps x y = rdot x y.
Proof. unfold dot. rewrite dot_acc_rdot. rops. lra. Qed.

Lemma sqdist_acc_r : forall x y acc, sqdist_acc ROps acc x y = acc + rsqdist x y.
Proof.
  induction x as [|a x IH]; intros [|b y] acc; cbn [sqdist_acc rsqdist]; try lra.
  rewrite IH. rops. lra.
Qed.
Lemma sqdist_r x y : sqdist ROps x y = rsqdist x y.
Proof. unfold sqdist. rewrite sqdist_acc_r. rops. lra. Qed.

Lemma rdot_sym : forall x y, rdot x y = rdot y x.
Proof. induction x as [|a x IH]; intros [|b y]; cbn; auto. rewrite IH. lra. Qed.
Lemma rsqdist_sym : forall x y, rsqdist x y = rsqdist y x.
Proof. induction x as [|a x IH]; intros [|b y]; cbn; auto. rewrite IH. lra. Qed.

(* ---- closed forms -------------------------------------------------------------------------- *)
Lemma k_linear_closed x y : k_linear ROps x y = rdot x y.
Proof. unfold k_linear. apply dot_rdot. Qed.

Lemma k_rbf_closed gamma x y : k_rbf ROps gamma x y = exp (- gamma * rsqdist x y).
Proof. unfold k_rbf. rewrite sqdist_r. rops. reflexivity. Qed.

Lemma opown_pow b n : opown ROps b n = b ^ n.
Proof. induction n; cbn [opown pow]; rops; [reflexivity | rewrite IHn; reflexivity]. Qed.

(* polynomial kernel with the power function of an integer degree n *)
Lemma k_poly_closed n degree gamma coef0 x y :
  k_poly ROps (fun b _ => opown ROps b n) degree gamma coef0 x y = (gamma * rdot x y + coef0) ^ n.
Proof. unfold k_poly. rewrite dot_rdot, opown_pow. rops. reflexivity. Qed.

Lemma k_sigmoid_closed th gamma coef0 x y :
  k_sigmoid ROps th gamma coef0 x y = th (gamma * rdot x y + coef0).
Proof. unfold k_sigmoid. rewrite dot_rdot. rops. reflexivity. Qed.

(* tanh written through exp, as the property's closed form has it *)
Lemma otanh_tanh z : otanh ROps z = tanh z.
Proof.
  unfold otanh, two, tanh, sinh, cosh. rops.
  replace ((1 + 1) * z) with (z + z) by lra. rewrite exp_plus.
  pose proof (exp_pos z) as Hp.
  assert (He : exp (- z) = / exp z) by apply exp_Ropp.
  rewrite He. field. split; try lra.
  assert (0 < exp z * exp z) by (apply Rmult_lt_0_compat; lra). lra.
Qed.

(* ---- symmetry ------------------------------------------------------------------------------ *)
Lemma k_linear_sym x y : k_linear ROps x y = k_linear ROps y x.
Proof. rewrite !k_linear_closed. apply rdot_sym. Qed.
Lemma k_rbf_sym gamma x y : k_rbf ROps gamma x y = k_rbf ROps gamma y x.
Proof. rewrite !k_rbf_closed, rsqdist_sym. reflexivity. Qed.
Lemma k_poly_sym pw degree gamma coef0 x y :
  k_poly ROps pw degree gamma coef0 x y = k_poly ROps pw degree gamma coef0 y x.
Proof. unfold k_poly. rewrite !dot_rdot, rdot_sym. reflexivity. Qed.
Lemma k_sigmoid_sym th gamma coef0 x y :
  k_sigmoid ROps th gamma coef0 x y = k_sigmoid ROps th gamma coef0 y x.
Proof. unfold k_sigmoid. rewrite !dot_rdot, rdot_sym. reflexivity. Qed.

(* ---- the linear Gram matrix is positive semi-definite -------------------------------------- *)
Lemma rsum_plus {A} (f g : A -> R) l : rsum (fun a => f a + g a) l = rsum f l + rsum g l.
Proof. induction l as [|a l IH]; cbn; [lra | rewrite IH; lra]. Qed.
Lemma rsum_scal {A} (k : R) (f : A -> R) l : rsum (fun a => k * f a) l = k * rsum f l.
Proof. induction l as [|a l IH]; cbn; [lra | rewrite IH; lra]. Qed.
Lemma rsum_zero {A} (f : A -> R) l : (forall a, In a l -> f a = 0) -> rsum f l = 0.
Proof.
  induction l as [|a l IH]; intros H; cbn; auto.
  rewrite (H a (or_introl eq_refl)), IH; [lra|]. intros b Hb. apply H. right. exact Hb.
Qed.

Definition hd0 (x : list R) : R := match x with [] => 0 | a :: _ => a end.

Lemma rdot_hd_tl x y : rdot x y = hd0 x * hd0 y + rdot (tl x) (tl y).
Proof.
  destruct x as [|a x]; destruct y as [|b y]; cbn; try lra.
  destruct x; cbn; lra.
Qed.

(* sum_a sum_b c_a c_b <x_a, x_b> over a list of (coefficient, row) pairs *)
Definition gramQ (cxs : list (R * list R)) : R :=
  rsum (fun a => rsum (fun b => fst a * fst b * rdot (snd a) (snd b)) cxs) cxs.

Definition tlf (a : R * list R) : R * list R := (fst a, tl (snd a)).

Lemma gramQ_step cxs :
  gramQ cxs = (rsum (fun a => fst a * hd0 (snd a)) cxs) * (rsum (fun a => fst a * hd0 (snd a)) cxs)
              + gramQ (map tlf cxs).
Proof.
  unfold gramQ.
  rewrite (rsum_ext _ (fun a => (fst a * hd0 (snd a)) * rsum (fun b => fst b * hd0 (snd b)) cxs
                               + rsum (fun b => fst a * fst b * rdot (tl (snd a)) (tl (snd b))) cxs)).
  - rewrite rsum_plus. f_equal.
    + rewrite (rsum_ext _ (fun a => rsum (fun b => fst b * hd0 (snd b)) cxs * (fst a * hd0 (snd a)))).
      * rewrite rsum_scal. lra.
      * intros; lra.
    + rewrite rsum_map. apply rsum_ext. intros a _. rewrite rsum_map. reflexivity.
  - intros a _. rewrite <- rsum_scal, <- rsum_plus. apply rsum_ext. intros b _.
    rewrite (rdot_hd_tl (snd a) (snd b)). lra.
Qed.

Lemma gram_psd_n : forall n cxs, (forall a, In a cxs -> (length (snd a) <= n)%nat) -> 0 <= gramQ cxs.
Proof.
  induction n as [|n IH]; intros cxs Hlen.
  - unfold gramQ. rewrite rsum_zero; [lra|]. intros a Ha. apply rsum_zero. intros b Hb.
    specialize (Hlen a Ha). destruct (snd a); cbn in *; [lra | lia].
  - rewrite gramQ_step.
    assert (H1 : 0 <= gramQ (map tlf cxs)).
    { apply IH. intros a Ha. apply in_map_iff in Ha. destruct Ha as (a0 & <- & Ha0).
      specialize (Hlen a0 Ha0). unfold tlf; cbn. destruct (snd a0); cbn in *; lia. }
    pose proof (Rle_0_sqr (rsum (fun a => fst a * hd0 (snd a)) cxs)) as H2. unfold Rsqr in H2. lra.
Qed.

Lemma max_len_bound (cxs : list (R * list R)) :
  exists n, forall a, In a cxs -> (length (snd a) <= n)%nat.
Proof.
  induction cxs as [|a cxs [n IH]].
  - exists 0%nat. intros a [].
  - exists (Nat.max n (length (snd a))). intros b [<-|Hb]; [lia|]. specialize (IH b Hb). lia.
Qed.

(* for every finite family of rows (any lengths) and every coefficient vector *)
Lemma linear_gram_psd (cxs : list (R * list R)) :
  0 <= rsum (fun a => rsum (fun b => fst a * fst b * k_linear ROps (snd a) (snd b)) cxs) cxs.
Proof.
  destruct (max_len_bound cxs) as [n Hn].
  pose proof (gram_psd_n n cxs Hn) as H. unfold gramQ in H.
  erewrite rsum_ext; [exact H|]. intros a _. apply rsum_ext. intros b _. rewrite k_linear_closed. reflexivity.
Qed.

(* ---- RBF: what is proved (the general Gram statement is not) --------------------------------- *)
Lemma rsqdist_nonneg : forall x y, 0 <= rsqdist x y.
Proof.
  induction x as [|a x IH]; intros [|b y]; cbn; try lra.
  specialize (IH y). pose proof (Rle_0_sqr (a - b)) as H. unfold Rsqr in H. lra.
Qed.
Lemma rsqdist_self : forall x, rsqdist x x = 0.
Proof. induction x as [|a x IH]; cbn; [reflexivity | rewrite IH; lra]. Qed.

Lemma exp_nonpos_le_1 z : z <= 0 -> 0 < exp z <= 1.
Proof.
  intros Hz. split; [apply exp_pos|].
  destruct (Req_dec z 0) as [->|Hn]; [rewrite exp_0; lra|].
  rewrite <- exp_0. left. apply exp_increasing. lra.
Qed.

Lemma rbf_two_point_psd gamma x y c1 c2 : 0 <= gamma ->
  k_rbf ROps gamma x x = 1 /\ 0 < k_rbf ROps gamma x y <= 1 /\
  0 <= c1 * c1 * k_rbf ROps gamma x x + c1 * c2 * k_rbf ROps gamma x y
       + c2 * c1 * k_rbf ROps gamma y x + c2 * c2 * k_rbf ROps gamma y y.
Proof.
  intros Hg. rewrite !k_rbf_closed, !rsqdist_self, (rsqdist_sym y x), Rmult_0_r, exp_0.
  assert (Hk : 0 < exp (- gamma * rsqdist x y) <= 1).
  { apply exp_nonpos_le_1. pose proof (rsqdist_nonneg x y). nra. }
  set (k := exp (- gamma * rsqdist x y)) in *.
  split; [reflexivity|]. split; [exact Hk|].
  replace (c1 * c1 * 1 + c1 * c2 * k + c2 * c1 * k + c2 * c2 * 1)
    with (k * ((c1 + c2) * (c1 + c2)) + (1 - k) * (c1 * c1 + c2 * c2)) by ring.
  pose proof (Rle_0_sqr (c1 + c2)) as H1. pose proof (Rle_0_sqr c1) as H2. pose proof (Rle_0_sqr c2) as H3.
  unfold Rsqr in *.
  apply Rplus_le_le_0_compat; apply Rmult_le_pos; lra.
Qed.
