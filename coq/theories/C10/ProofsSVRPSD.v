(* C10 — the SVR clauses whose hypotheses mention the kernel (symmetry; positive semi-definiteness on
   the training rows), with those hypotheses discharged for the three built-in kernels the property
   claims regressor optimality for: linear, RBF (gamma >= 0), polynomial with natural degree and
   gamma, coef0 >= 0 — on training rows of one common length (the Rust kernels panic otherwise).
   Real-number instance (ROps) of SC.C10.Model. *)
From Coq Require Import List ZArith Reals Lra Lia Bool Arith.
From SC Require Import Base.Num C10.Model C10.ProofsSVC C10.ProofsSVR C10.ProofsKernel C10.ProofsPSD.
Import ListNotations.
Local Open Scope R_scope.

(* symmetric, and PSD on every finite family of coefficients attached to training rows *)
Lemma builtin_sym_psd gamma coef0 degree d n (xs : list (list R)) (K : list R -> list R -> R) :
  0 <= gamma -> 0 <= coef0 -> (forall x, In x xs -> length x = n) ->
  In K [k_linear ROps; k_rbf ROps gamma; k_poly ROps (fun b _ => opown ROps b d) degree gamma coef0] ->
  (forall x y, K x y = K y x) /\
  (forall cxs : list (R * list R), (forall a, In a cxs -> In (snd a) xs) ->
     0 <= rsum (fun a => rsum (fun b => fst a * fst b * K (snd a) (snd b)) cxs) cxs).
Proof.
  intros Hg Hc Hlen [<-|[<-|[<-|[]]]].
  - split; [apply k_linear_sym|]. intros cxs _. apply linear_gram_psd.
  - split; [apply k_rbf_sym|]. intros cxs Hin. apply (rbf_gram_psd gamma n cxs Hg).
    intros a Ha. apply Hlen. exact (Hin a Ha).
  - split; [intros; apply k_poly_sym|]. intros cxs _. apply polynomial_gram_psd; assumption.
Qed.

(* PSD on the training rows => the curvature of every pair of training rows is non-negative, so
   (tau > 0) curv_of is positive, equals the true curvature when that is positive, and falls back to
   tau only on pairs of curvature exactly zero *)
Lemma svr_psd_curvature (K : list R -> list R -> R) tau (xs : list (list R)) :
  0 < tau -> (forall x y, K x y = K y x) ->
  (forall cxs : list (R * list R), (forall a, In a cxs -> In (snd a) xs) ->
     0 <= rsum (fun a => rsum (fun b => fst a * fst b * K (snd a) (snd b)) cxs) cxs) ->
  forall x y, In x xs -> In y xs ->
  0 <= K x x + K y y - 2 * K x y /\
  0 < curv_of ROps tau (K x x) (K y y) (K x y) /\
  (0 < K x x + K y y - 2 * K x y -> curv_of ROps tau (K x x) (K y y) (K x y) = K x x + K y y - 2 * K x y) /\
  (K x x + K y y - 2 * K x y = 0 -> curv_of ROps tau (K x x) (K y y) (K x y) = tau).
Proof.
  intros Ht Hsym Hpsd x y Hx Hy.
  assert (Hc : 0 <= K x x + K y y - 2 * K x y).
  { apply (psd_curvature (fun r => In r xs) K x y); auto. }
  split; [exact Hc|]. apply curv_of_psd; assumption.
Qed.

(* svr_exit_kkt for the built-in PSD kernels: no hypothesis on the kernel is left *)
Lemma svr_smo_kkt_builtin gamma coef0 degree d (K : list R -> list R -> R) tau big nbig c tol eps xs ys :
  0 <= gamma -> 0 <= coef0 ->
  In K [k_linear ROps; k_rbf ROps gamma; k_poly ROps (fun b _ => opown ROps b d) degree gamma coef0] ->
  0 < c -> length xs = length ys -> 0 <= eps ->
  forall fuel l m,
  svr_smo ROps K tau big nbig c tol fuel eps xs ys = Some (l, m) ->
  svr_inv c l /\
  map (r_index (T:=R)) l = seq 0 (length xs) /\
  forall v, In v l ->
    exists y, nth_error xs (r_index v) = Some (r_x v) /\ nth_error ys (r_index v) = Some y /\
    let res := y - decision ROps K (svr_instances ROps l) (svr_weights ROps l) (svr_b ROps m) (r_x v) in
    let w := svr_w ROps v in
    (w = 0 -> - eps - tol / 2 <= res <= eps + tol / 2) /\
    (0 < w < c -> eps - tol / 2 <= res <= eps + tol / 2) /\
    (- c < w < 0 -> - eps - tol / 2 <= res <= - eps + tol / 2) /\
    (w = c -> eps - tol / 2 <= res) /\
    (w = - c -> res <= - eps + tol / 2).
Proof.
  intros Hg Hc HK Hcpos Hlen Heps fuel l m H.
  assert (Hsym : forall x y, K x y = K y x).
  { destruct HK as [<-|[<-|[<-|[]]]]; intros; [apply k_linear_sym | apply k_rbf_sym | apply k_poly_sym]. }
  exact (svr_smo_kkt K tau big nbig c tol eps xs ys Hcpos Hlen Hsym Heps fuel l m H).
Qed.
