(* C08 — the fit-level statements assembled: whenever the optimiser inside Lasso::fit / ElasticNet::fit
   leaves through the duality-gap rule, the fit returns coefficients and an intercept with
   predict(X) = mean(y) + Z w and w is (1 + tol)-optimal for the objective of the property statement
   (Z = standardised columns under normalisation, raw columns otherwise) — for every linear solver. *)
From Coq Require Import List ZArith Reals Lra Lia Bool Arith.
From SC Require Import Base.Num C08.Model C08.ProofsBase C08.ProofsDual C08.ProofsFit C08.ProofsGap.
Import ListNotations.
Local Open Scope R_scope.

(* the design matrix the objective is stated in *)
Definition design (normalize : bool) (X : list (list R)) : option (list (list R)) :=
  if normalize then match rescale_x ROps X with Some (Xs, _, _) => Some Xs | None => None end
  else Some X.

Definition solver_shape (solver : solver_t (T := R)) (p : nat) : Prop :=
  forall k st z gap b dxu, solver k st z gap = Some (b, dxu) -> length dxu = (2 * p)%nat.

Lemma optimize_gen_length (solver : solver_t (T := R)) X y lam max_iter tol w r d :
  length y = length X -> solver_shape solver (ncols X) ->
  optimize_gen ROps solver X y lam max_iter tol = Some (w, r, d) -> length w = ncols X.
Proof.
  intros Hy Hs H. unfold optimize_gen in H. fold (lam_used lam) in H.
  pose proof (ip_loop_result solver X (center ROps y) (lam_used lam) tol (ncols X)
                ltac:(rewrite center_length; exact Hy) ltac:(left; apply lam_used_pos) Hs) as L.
  destruct (L _ _ _ _ _ _ (init_inv X (center ROps y) (lam_used lam) (ncols X) ltac:(left; apply lam_used_pos)) H)
    as [_ [_ [Hl _]]]. exact Hl.
Qed.

(* ---------- what a successful rescale_x returns ---------- *)
Lemma existsb_false_Forall {A} (f : A -> bool) (l : list A) :
  existsb f l = false -> Forall (fun x => f x = false) l.
Proof.
  induction l as [|x l IH]; cbn [existsb]; intros H; constructor.
  - apply orb_false_elim in H. tauto.
  - apply IH. apply orb_false_elim in H. tauto.
Qed.

Lemma rescale_x_spec X Xs means stds :
  rescale_x ROps X = Some (Xs, means, stds) ->
  Xs = scale_rows ROps X means stds /\ length means = ncols X /\ length stds = ncols X /\
  Forall (fun s => s <> 0) stds.
Proof.
  unfold rescale_x. destruct (existsb _ _) eqn:He; [discriminate|].
  intros H. inversion H; subst; clear H. repeat split.
  - rewrite map_length, seq_length. reflexivity.
  - rewrite map_length, seq_length. reflexivity.
  - apply existsb_false_Forall in He. apply Forall_map. eapply Forall_impl; [|exact He]. cbn beta.
    intros j Hj. apply orb_false_elim in Hj. destruct Hj as [_ Hj].
    cbn [oleb oabs osub o0 ROps] in Hj. apply negb_false_iff, Rleb_true in Hj.
    intros E. rewrite E, Rminus_0_r, Rabs_R0 in Hj. pose proof c_eps_pos. lra.
Qed.

Lemma ncols_scale_rows X means stds :
  length means = ncols X -> length stds = ncols X -> ncols (scale_rows ROps X means stds) = ncols X.
Proof.
  intros Hm Hs. destruct X as [|row X]; [reflexivity|].
  cbv [ncols scale_rows] in *. cbn [map hd] in *. rewrite map_length, !combine_length. lia.
Qed.
Lemma length_scale_rows X means stds : length (scale_rows ROps X means stds) = length X.
Proof. unfold scale_rows. apply map_length. Qed.

Lemma lasso_valid_true (X : list (list R)) (y : list R) alpha tol max_iter :
  lasso_valid ROps (length X) (ncols X) (length y) alpha tol max_iter = true ->
  length y = length X /\ 0 < tol.
Proof.
  unfold lasso_valid. cbn [oltb oleb o0 ROps]. intros H.
  repeat (apply andb_prop in H; destruct H as [H ?]).
  match goal with h : Nat.eqb _ _ = true |- _ => apply Nat.eqb_eq in h end.
  match goal with h : negb (Rleb tol 0) = true |- _ => apply negb_true_iff, Rleb_false in h end.
  tauto.
Qed.

(* ---------- Lasso::fit ---------- *)
Theorem lasso_fit_certified (mk : list (list R) -> R -> solver_t (T := R))
        X y alpha normalize tol max_iter Z w d :
  Forall (fun row => length row = ncols X) X ->
  lasso_valid ROps (length X) (ncols X) (length y) alpha tol max_iter = true ->
  design normalize X = Some Z ->
  let l1 := alpha * IZR (Z.of_nat (length X)) in
  solver_shape (mk Z l1) (ncols X) ->
  optimize_gen ROps (mk Z l1) Z y l1 max_iter tol = Some (w, ExitGap, d) ->
  let opt := fun X y lam mi tol => opt_w (optimize_gen ROps (mk X lam) X y lam mi tol) in
  exists coef b,
    lasso_fit_gen ROps opt X y alpha normalize tol max_iter = Some (coef, b) /\
    predict ROps X coef b = map (fun v => v + vmean ROps y) (matvec ROps Z w) /\
    forall w', length w' = ncols X ->
      lasso_objective ROps Z (center ROps y) (lam_used l1) w
      <= (1 + tol) * lasso_objective ROps Z (center ROps y) (lam_used l1) w'.
Proof.
  intros Hrect Hvalid Hdes l1 Hshape Hopt opt.
  destruct (lasso_valid_true _ _ _ _ _ Hvalid) as [Hy Htol].
  unfold lasso_fit_gen. rewrite Hvalid. cbn [negb].
  change (omul ROps alpha (oofnat ROps (length X))) with l1.
  unfold design in Hdes. destruct normalize.
  - destruct (rescale_x ROps X) as [[[Xs means] stds]|] eqn:Hre; [|discriminate].
    inversion Hdes; subst Z; clear Hdes.
    destruct (rescale_x_spec _ _ _ _ Hre) as [HXs [Hm [Hs Hnz]]].
    assert (Hnc : ncols Xs = ncols X) by (rewrite HXs; apply ncols_scale_rows; assumption).
    assert (HyXs : length y = length Xs) by (rewrite HXs, length_scale_rows; exact Hy).
    unfold opt at 1. rewrite Hopt. cbn [opt_w].
    assert (Hlw : length w = ncols X).
    { rewrite <- Hnc. eapply optimize_gen_length; [exact HyXs | rewrite Hnc; exact Hshape | exact Hopt]. }
    pose proof (lasso_back_transform X means stds w (vmean ROps y)) as Hbt.
    destruct (back_transform ROps (vmean ROps y) means stds w) as [coef b] eqn:Hb.
    exists coef, b. split; [reflexivity|]. split.
    + rewrite HXs. apply Hbt; try congruence.
      eapply Forall_impl; [|exact Hrect]. cbn beta. intros row Hrow. congruence.
    + intros w' Hw'. eapply optimize_gen_near_optimal_all; try eassumption.
      * rewrite Hnc. exact Hshape.
      * lra.
      * congruence.
  - inversion Hdes; subst Z; clear Hdes.
    unfold opt at 1. rewrite Hopt. cbn [opt_w].
    exists w, (vmean ROps y). split; [reflexivity|]. split; [reflexivity|].
    intros w' Hw'. eapply optimize_gen_near_optimal_all; try eassumption. lra.
Qed.

(* ---------- ElasticNet::fit ---------- *)
Lemma ncols_augment Z y l2 : ncols (fst (fst (augment ROps Z y l2))) = ncols Z.
Proof.
  destruct Z as [|row Z]; [reflexivity|].
  cbv [augment ncols]. cbn [fst map app hd]. apply map_length.
Qed.
Lemma length_augment Z y l2 :
  length y = length Z ->
  length (snd (fst (augment ROps Z y l2))) = length (fst (fst (augment ROps Z y l2))).
Proof.
  intros Hy. unfold augment. cbn [fst snd].
  rewrite !app_length, center_length, repeat_length, !map_length, seq_length. lia.
Qed.

(* the l1 penalty the augmented problem really carries after the epsilon floor of `optimize` *)
Definition enet_l1_eff (l1 gamma : R) : R := lam_used (l1 * gamma) / gamma.
Lemma enet_l1_eff_id l1 gamma : 0 < gamma -> c_eps ROps <= l1 * gamma -> enet_l1_eff l1 gamma = l1.
Proof.
  intros Hg Hl. unfold enet_l1_eff, lam_used. rewrite omax_R, Rmax_left by exact Hl. field. lra.
Qed.

Theorem enet_fit_certified (mk : list (list R) -> R -> solver_t (T := R))
        X y alpha l1_ratio normalize tol max_iter Z wt d :
  Forall (fun row => length row = ncols X) X ->
  length y = length X -> 0 <= tol ->
  design normalize X = Some Z ->
  let nf := IZR (Z.of_nat (length X)) in
  let l1 := alpha * l1_ratio * nf in
  let l2 := alpha * (1 - l1_ratio) * nf in
  0 <= l2 ->
  let '(X2, y2, gamma) := augment ROps Z y l2 in
  solver_shape (mk X2 (l1 * gamma)) (ncols X) ->
  optimize_gen ROps (mk X2 (l1 * gamma)) X2 y2 (l1 * gamma) max_iter tol = Some (wt, ExitGap, d) ->
  let opt := fun X y lam mi tol => opt_w (optimize_gen ROps (mk X lam) X y lam mi tol) in
  let w := map (fun wi => gamma * wi) wt in
  exists coef b,
    enet_fit_gen ROps opt X y alpha l1_ratio normalize tol max_iter = Some (coef, b) /\
    predict ROps X coef b = map (fun v => v + vmean ROps y) (matvec ROps Z w) /\
    forall w', length w' = ncols X ->
      enet_objective ROps Z (center ROps y) (enet_l1_eff l1 gamma) l2 w
      <= (1 + tol) * enet_objective ROps Z (center ROps y) (enet_l1_eff l1 gamma) l2 w'.
Proof.
  intros Hrect Hy Htol Hdes nf l1 l2 Hl2.
  pose proof (ncols_augment Z y l2) as Hnc2. pose proof (length_augment Z y l2) as Hlen2.
  pose proof (fun l1' wt' => enet_augmentation_objective Z y l1' l2 wt' Hl2) as Haug.
  assert (Hg : snd (augment ROps Z y l2) = enet_gamma ROps l2) by reflexivity.
  destruct (augment ROps Z y l2) as [[X2 y2] gamma] eqn:Haugeq. cbn [fst snd] in *.
  intros Hshape Hopt. set (w := map (fun wi : R => gamma * wi) wt).
  pose proof (enet_gamma_pos l2 Hl2) as Hgpos. rewrite <- Hg in Hgpos.
  (* shapes *)
  assert (HZ : ncols Z = ncols X /\ length y = length Z /\
               exists means stds, (normalize = true -> rescale_x ROps X = Some (Z, means, stds)) /\
                                  (normalize = false -> Z = X)).
  { unfold design in Hdes. destruct normalize.
    - destruct (rescale_x ROps X) as [[[Xs means] stds]|] eqn:Hre; [|discriminate].
      inversion Hdes; subst Z. destruct (rescale_x_spec _ _ _ _ Hre) as [HXs [Hm [Hs _]]].
      split; [rewrite HXs; apply ncols_scale_rows; assumption|].
      split; [rewrite HXs, length_scale_rows; exact Hy|]. exists means, stds. split; [auto | discriminate].
    - inversion Hdes; subst Z. split; [reflexivity|]. split; [exact Hy|]. exists [], []. split; [discriminate | auto]. }
  destruct HZ as [HncZ [HyZ [means [stds [Hn1 Hn0]]]]].
  assert (Hlwt : length wt = ncols X).
  { rewrite <- HncZ, <- Hnc2. eapply optimize_gen_length; [apply Hlen2; exact HyZ | rewrite Hnc2, HncZ; exact Hshape | exact Hopt]. }
  (* near-optimality in elastic-net coordinates *)
  assert (Hnear : forall w', length w' = ncols X ->
      enet_objective ROps Z (center ROps y) (enet_l1_eff l1 gamma) l2 w
      <= (1 + tol) * enet_objective ROps Z (center ROps y) (enet_l1_eff l1 gamma) l2 w').
  { intros w' Hw'.
    pose proof (optimize_gen_near_optimal_all (mk X2 (l1 * gamma)) X2 y2 (l1 * gamma) max_iter tol wt d
                  (Hlen2 HyZ) ltac:(rewrite Hnc2, HncZ; exact Hshape) Hopt Htol
                  (map (fun v => v / gamma) w') ltac:(rewrite map_length, Hnc2, HncZ; exact Hw')) as Hn.
    unfold lasso_objective in Hn.
    assert (El : lam_used (l1 * gamma) = enet_l1_eff l1 gamma * gamma) by (unfold enet_l1_eff; field; lra).
    rewrite El in Hn.
    rewrite (Haug (enet_l1_eff l1 gamma) wt HyZ ltac:(congruence)) in Hn.
    rewrite (Haug (enet_l1_eff l1 gamma) (map (fun v => v / gamma) w') HyZ
               ltac:(rewrite map_length; congruence)) in Hn.
    rewrite map_map in Hn.
    rewrite (map_ext (fun x => gamma * (x / gamma)) (fun x => x)) in Hn by (intros; field; lra).
    rewrite map_id in Hn. exact Hn. }
  unfold enet_fit_gen. rewrite Hy, Nat.eqb_refl. cbn [negb].
  change (omul ROps (omul ROps alpha l1_ratio) (oofnat ROps (length X))) with l1.
  change (omul ROps (omul ROps alpha (osub ROps (o1 ROps) l1_ratio)) (oofnat ROps (length X))) with l2.
  destruct normalize.
  - rewrite (Hn1 eq_refl). rewrite Haugeq. cbn [omul ROps].
    cbv beta. rewrite Hopt. cbn [opt_w]. fold w.
    destruct (rescale_x_spec _ _ _ _ (Hn1 eq_refl)) as [HXs [Hm [Hs Hnz]]].
    pose proof (lasso_back_transform X means stds w (vmean ROps y)) as Hbt.
    destruct (back_transform ROps (vmean ROps y) means stds w) as [coef b] eqn:Hb.
    assert (Hlw : length w = ncols X) by (unfold w; rewrite map_length; exact Hlwt).
    exists coef, b. split; [reflexivity|]. split; [|exact Hnear].
    rewrite HXs. apply Hbt; try congruence.
    eapply Forall_impl; [|exact Hrect]. cbn beta. intros row Hrow. congruence.
  - rewrite (Hn0 eq_refl) in *. rewrite Haugeq. cbn [omul ROps].
    cbv beta. rewrite Hopt. cbn [opt_w]. fold w.
    exists w, (vmean ROps y). split; [reflexivity|]. split; [reflexivity | exact Hnear].
Qed.
